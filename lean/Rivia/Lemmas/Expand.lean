/-
  Rivia.Lemmas.Expand — helper lemmas for C17 (`expand` against `Spec.expandSpec`).
  * the `$VAR` scanner `expandSeg`: one-step equation, fuel independence, fuel-free form `seg`
  * the tokeniser `parseFuel`/`parseComp`: fuel independence, fuel-free equations
  * `seg_eq_subst`: on a well-formed unambiguous component the scanner = substitution of the tokens
  * stage 1 (tilde) of the code = `tildeSpec`; assembly; error characterisation
-/
import Rivia.Spec.Expand
import Rivia.Lemmas.Components
namespace Rivia.Lemmas.Expand
open Rivia Rivia.Spec Rivia.Str Rivia.Lemmas

def skipOpen (r : Str) : Str := if r.head? = some '{' then r.tail else r
def skipClose (r : Str) : Str := if r.head? = some '}' then r.tail else r

/-- the part of one scanner iteration after the consumed '$' (`rest` may be empty: then the
    variable name is empty and the step fails): finished with an error, or continue on
    `(rest', acc')` -/
def segVar (env : Env) (rest acc : Str) : Outcome Str ⊕ (Str × Str) :=
  if (skipOpen rest).takeWhile isVarChar = [] then .inl (.err .invalidExpansion)
  else match env ((skipOpen rest).takeWhile isVarChar) with
    | none => .inl (.err .var)
    | some v => .inr (skipClose ((skipOpen rest).dropWhile isVarChar), acc ++ v)

def segCont (env : Env) (f : Nat) : Outcome Str ⊕ (Str × Str) → Outcome Str
  | .inl o => o
  | .inr (rest, acc) => expandSeg env f rest acc

theorem segCont_match (env : Env) (f : Nat) (o : Option Str) (rest acc : Str) :
    (match o with
      | none => Outcome.err .var
      | some v => expandSeg env f rest (acc ++ v)) =
    segCont env f (match o with
      | none => .inl (.err .var)
      | some v => .inr (rest, acc ++ v)) := by
  cases o <;> rfl

theorem expandSeg_succ_cons (env : Env) (f : Nat) (c : Char) (r acc : Str) :
    expandSeg env (f + 1) (c :: r) acc =
      if (c :: r).dropWhile (· ≠ '$') = [] then .ok (acc ++ (c :: r).takeWhile (· ≠ '$'))
      else segCont env f (segVar env (((c :: r).dropWhile (· ≠ '$')).drop 1)
              (acc ++ (c :: r).takeWhile (· ≠ '$'))) := by
  rw [expandSeg]
  · generalize (c :: r).dropWhile (· ≠ '$') = d
    cases d with
    | nil => rfl
    | cons x xs =>
      simp only [reduceCtorEq, if_false]
      show (if (skipOpen xs).takeWhile isVarChar = [] then _ else _) = _
      unfold segVar
      by_cases hv : (skipOpen xs).takeWhile isVarChar = []
      · rw [if_pos hv]
        show _ = segCont env f (if (skipOpen xs).takeWhile isVarChar = [] then _ else _)
        rw [if_pos hv]; rfl
      · rw [if_neg hv]
        show _ = segCont env f (if (skipOpen xs).takeWhile isVarChar = [] then _ else _)
        rw [if_neg hv]
        exact segCont_match env f _ _ _
  · intro h; cases h

theorem length_drop1_dropWhile_le (p : Char → Bool) (c : Char) (r : Str) :
    (((c :: r).dropWhile p).drop 1).length ≤ r.length := by
  have h1 : ((c :: r).dropWhile p).length ≤ (c :: r).length := (List.dropWhile_sublist p).length_le
  simp only [List.length_drop, List.length_cons] at *
  omega

theorem segVar_inr {env : Env} {rest acc rest' acc' : Str}
    (h : segVar env rest acc = .inr (rest', acc')) :
    (skipOpen rest).takeWhile isVarChar ≠ [] ∧
    ∃ v, env ((skipOpen rest).takeWhile isVarChar) = some v ∧
      rest' = skipClose ((skipOpen rest).dropWhile isVarChar) ∧ acc' = acc ++ v := by
  unfold segVar at h
  by_cases hv : (skipOpen rest).takeWhile isVarChar = []
  · rw [if_pos hv] at h; cases h
  · rw [if_neg hv] at h
    refine ⟨hv, ?_⟩
    cases he : env ((skipOpen rest).takeWhile isVarChar) with
    | none => rw [he] at h; cases h
    | some v =>
      rw [he] at h
      injection h with h
      injection h with h1 h2
      exact ⟨v, rfl, h1.symm, h2.symm⟩

theorem skipOpen_length (r : Str) : (skipOpen r).length ≤ r.length := by
  unfold skipOpen; split <;> simp
theorem skipClose_length (r : Str) : (skipClose r).length ≤ r.length := by
  unfold skipClose; split <;> simp

theorem segVar_length {env : Env} {rest acc rest' acc' : Str}
    (h : segVar env rest acc = .inr (rest', acc')) : rest'.length ≤ rest.length := by
  obtain ⟨_, v, _, h1, _⟩ := segVar_inr h
  subst h1
  have a := skipClose_length ((skipOpen rest).dropWhile isVarChar)
  have b : ((skipOpen rest).dropWhile isVarChar).length ≤ (skipOpen rest).length :=
    (List.dropWhile_sublist _).length_le
  have c := skipOpen_length rest
  omega

theorem expandSeg_nil (env : Env) (f : Nat) (acc : Str) : expandSeg env f [] acc = .ok acc := by
  cases f <;> rfl

/-- `C17_scanner_fuel`, general form: any fuel ≥ the input length gives the same result -/
theorem expandSeg_fuel (env : Env) : ∀ (f g : Nat) (cs acc : Str), cs.length ≤ f → cs.length ≤ g →
    expandSeg env f cs acc = expandSeg env g cs acc := by
  intro f
  induction f with
  | zero =>
    intro g cs acc h _
    have : cs = [] := List.length_eq_zero_iff.mp (Nat.le_zero.mp h)
    subst this; rw [expandSeg_nil, expandSeg_nil]
  | succ f ih =>
    intro g cs acc hf hg
    cases cs with
    | nil => rw [expandSeg_nil, expandSeg_nil]
    | cons c r =>
      cases g with
      | zero => simp at hg
      | succ g =>
        rw [expandSeg_succ_cons, expandSeg_succ_cons]
        split
        · rfl
        · have hl := length_drop1_dropWhile_le (· ≠ '$') c r
          cases hs : segVar env (((c :: r).dropWhile (· ≠ '$')).drop 1)
              (acc ++ (c :: r).takeWhile (· ≠ '$')) with
          | inl o => rfl
          | inr p =>
            obtain ⟨rest', acc'⟩ := p
            have := segVar_length hs
            simp only [segCont]
            simp only [List.length_cons] at hf hg
            exact ih g rest' acc' (by omega) (by omega)

/-! ### the tokeniser: fuel independence and fuel-free equations -/

theorem parseFuel_succ_cons (f : Nat) (c : Char) (r : Str) :
    parseFuel (f + 1) (c :: r) =
    if c = '$' then
      if r.head? = some '{' then
        if r.tail.takeWhile isNameChar ≠ [] ∧ (r.tail.dropWhile isNameChar).head? = some '}' then
          (parseFuel f (r.tail.dropWhile isNameChar).tail).map (Tok.var (r.tail.takeWhile isNameChar) :: ·)
        else none
      else
        if r.takeWhile isNameChar ≠ [] then
          (parseFuel f (r.dropWhile isNameChar)).map (Tok.var (r.takeWhile isNameChar) :: ·)
        else none
    else
      (parseFuel f ((c :: r).dropWhile (· ≠ '$'))).map (Tok.lit ((c :: r).takeWhile (· ≠ '$')) :: ·) := by
  rfl

theorem length_dropWhile_le (p : Char → Bool) (l : Str) : (l.dropWhile p).length ≤ l.length :=
  (List.dropWhile_sublist p).length_le

theorem length_dropWhile_lt {p : Char → Bool} {c : Char} {r : Str} (h : p c = true) :
    ((c :: r).dropWhile p).length < (c :: r).length := by
  rw [List.dropWhile_cons_of_pos h]
  have := length_dropWhile_le p r
  simp only [List.length_cons]; omega

theorem parseFuel_fuel : ∀ (f g : Nat) (cs : Str), cs.length < f → cs.length < g →
    parseFuel f cs = parseFuel g cs := by
  intro f
  induction f with
  | zero => intro g cs h; omega
  | succ f ih =>
    intro g cs hf hg
    cases g with
    | zero => omega
    | succ g =>
      cases cs with
      | nil => rfl
      | cons c r =>
        simp only [List.length_cons] at hf hg
        rw [parseFuel_succ_cons, parseFuel_succ_cons]
        by_cases hc : c = '$'
        · rw [if_pos hc, if_pos hc]
          by_cases hb : r.head? = some '{'
          · rw [if_pos hb, if_pos hb]
            split
            · have h1 := length_dropWhile_le isNameChar r.tail
              have h2 : r.tail.length ≤ r.length := by simp
              have h3 : (r.tail.dropWhile isNameChar).tail.length ≤ (r.tail.dropWhile isNameChar).length := by simp
              rw [ih g _ (by omega) (by omega)]
            · rfl
          · rw [if_neg hb, if_neg hb]
            split
            · have h1 := length_dropWhile_le isNameChar r
              rw [ih g _ (by omega) (by omega)]
            · rfl
        · rw [if_neg hc, if_neg hc]
          have h1 : ((c :: r).dropWhile (· ≠ '$')).length < (c :: r).length :=
            length_dropWhile_lt (by simpa using hc)
          simp only [List.length_cons] at h1
          rw [ih g _ (by omega) (by omega)]

theorem parseComp_nil : parseComp [] = some [] := rfl

theorem parseComp_of_fuel {f : Nat} {cs : Str} (h : cs.length < f) : parseFuel f cs = parseComp cs :=
  parseFuel_fuel _ _ _ h (Nat.lt_succ_self _)

theorem parseComp_lit {c : Char} (hc : c ≠ '$') (r : Str) :
    parseComp (c :: r) =
      (parseComp ((c :: r).dropWhile (· ≠ '$'))).map (Tok.lit ((c :: r).takeWhile (· ≠ '$')) :: ·) := by
  have h1 : ((c :: r).dropWhile (· ≠ '$')).length < (c :: r).length :=
    length_dropWhile_lt (by simpa using hc)
  rw [parseComp, parseFuel_succ_cons, if_neg hc, parseComp_of_fuel h1]

theorem parseComp_braced (r1 : Str) :
    parseComp ('$' :: '{' :: r1) =
      if r1.takeWhile isNameChar ≠ [] ∧ (r1.dropWhile isNameChar).head? = some '}' then
        (parseComp (r1.dropWhile isNameChar).tail).map (Tok.var (r1.takeWhile isNameChar) :: ·)
      else none := by
  rw [parseComp, parseFuel_succ_cons, if_pos rfl, if_pos (by rfl)]
  show (if r1.takeWhile isNameChar ≠ [] ∧ (r1.dropWhile isNameChar).head? = some '}' then
      (parseFuel _ (r1.dropWhile isNameChar).tail).map (Tok.var (r1.takeWhile isNameChar) :: ·)
      else none) = _
  by_cases h : r1.takeWhile isNameChar ≠ [] ∧ (r1.dropWhile isNameChar).head? = some '}'
  · rw [if_pos h, if_pos h, parseComp_of_fuel]
    have h1 := length_dropWhile_le isNameChar r1
    have h3 : (r1.dropWhile isNameChar).tail.length ≤ (r1.dropWhile isNameChar).length := by simp
    simp only [List.length_cons]; omega
  · rw [if_neg h, if_neg h]

theorem parseComp_plain {r : Str} (hb : r.head? ≠ some '{') :
    parseComp ('$' :: r) =
      if r.takeWhile isNameChar ≠ [] then
        (parseComp (r.dropWhile isNameChar)).map (Tok.var (r.takeWhile isNameChar) :: ·)
      else none := by
  rw [parseComp, parseFuel_succ_cons, if_pos rfl, if_neg hb]
  split
  · rw [parseComp_of_fuel]
    have h1 := length_dropWhile_le isNameChar r
    simp only [List.length_cons]; omega
  · rfl

theorem dropWhile_cons_head {p : Char → Bool} {l : Str} {x : Char} {xs : Str}
    (h : l.dropWhile p = x :: xs) : p x = false := by
  have := List.head?_dropWhile_not p l
  rw [h] at this
  exact this

/-! ### the scanner without fuel -/

/-- the scanner on a component, as `expandComps` calls it -/
def seg (env : Env) (cs acc : Str) : Outcome Str := expandSeg env (cs.length + 1) cs acc

def segK (env : Env) : Outcome Str ⊕ (Str × Str) → Outcome Str
  | .inl o => o
  | .inr (rest, acc) => seg env rest acc

theorem seg_of_fuel (env : Env) {f : Nat} {cs : Str} (h : cs.length ≤ f) (acc : Str) :
    expandSeg env f cs acc = seg env cs acc :=
  expandSeg_fuel env _ _ _ _ h (Nat.le_succ _)

theorem seg_nil (env : Env) (acc : Str) : seg env [] acc = .ok acc := rfl

theorem seg_cons (env : Env) (c : Char) (r acc : Str) :
    seg env (c :: r) acc =
      if (c :: r).dropWhile (· ≠ '$') = [] then .ok (acc ++ (c :: r).takeWhile (· ≠ '$'))
      else segK env (segVar env (((c :: r).dropWhile (· ≠ '$')).drop 1)
              (acc ++ (c :: r).takeWhile (· ≠ '$'))) := by
  rw [seg, expandSeg_succ_cons]
  split
  · rfl
  · cases hs : segVar env (((c :: r).dropWhile (· ≠ '$')).drop 1)
        (acc ++ (c :: r).takeWhile (· ≠ '$')) with
    | inl o => rfl
    | inr p =>
      obtain ⟨rest', acc'⟩ := p
      have h1 := segVar_length hs
      have h2 := length_drop1_dropWhile_le (· ≠ '$') c r
      simp only [segCont, segK]
      exact seg_of_fuel env (by simp only [List.length_cons]; omega) _

theorem seg_dollar (env : Env) (r acc : Str) :
    seg env ('$' :: r) acc = segK env (segVar env r acc) := by
  rw [seg_cons]
  have h1 : ('$' :: r).dropWhile (· ≠ '$') = '$' :: r := by simp
  have h2 : ('$' :: r).takeWhile (· ≠ '$') = [] := by simp
  rw [h1, h2, List.append_nil, if_neg (by simp)]
  rfl

/-- the literal text before the first '$' is copied -/
theorem seg_lit (env : Env) (cs acc : Str) :
    seg env cs acc = seg env (cs.dropWhile (· ≠ '$')) (acc ++ cs.takeWhile (· ≠ '$')) := by
  cases cs with
  | nil => simp [seg_nil]
  | cons c r =>
    rw [seg_cons]
    cases hd : (c :: r).dropWhile (· ≠ '$') with
    | nil => simp [seg_nil]
    | cons x xs =>
      have hx : x = '$' := by simpa using dropWhile_cons_head hd
      subst hx
      rw [seg_dollar, if_neg (by simp)]
      rfl

/-! ### list splitting helpers -/

theorem takeWhile_dropWhile_split {p : Char → Bool} {a b : Str} (ha : ∀ x ∈ a, p x = true)
    (hb : ∀ x, b.head? = some x → p x = false) :
    (a ++ b).takeWhile p = a ∧ (a ++ b).dropWhile p = b := by
  rw [List.takeWhile_append_of_pos ha, List.dropWhile_append_of_pos ha]
  cases b with
  | nil => simp
  | cons x xs =>
    have := hb x rfl
    simp [this]

theorem mem_takeWhile_pos {p : Char → Bool} {l : Str} {x : Char} (h : x ∈ l.takeWhile p) :
    p x = true := by
  induction l with
  | nil => simp at h
  | cons c r ih =>
    rw [List.takeWhile_cons] at h
    split at h
    · rcases List.mem_cons.mp h with h | h
      · subst h; assumption
      · exact ih h
    · simp at h

theorem isVarChar_of_isNameChar {c : Char} (h : isNameChar c = true) : isVarChar c = true := by
  simp only [isNameChar, isVarChar, Bool.and_eq_true, decide_eq_true_eq] at *
  exact ⟨h.1.1, h.2⟩

theorem ne_dollar_of_isNameChar {c : Char} (h : isNameChar c = true) : c ≠ '$' := by
  simp only [isNameChar, Bool.and_eq_true, decide_eq_true_eq] at h
  exact h.1.1

theorem not_isNameChar_iff {c : Char} : isNameChar c = false ↔ c = '$' ∨ c = '{' ∨ c = '}' := by
  simp only [isNameChar]
  by_cases h1 : c = '$' <;> by_cases h2 : c = '{' <;> by_cases h3 : c = '}' <;> simp [h1, h2, h3]

/-! ### `Ambiguous` -/

theorem Ambiguous_cons_of_ne {c : Char} (h : c ≠ '$') (r : Str) : Ambiguous (c :: r) = Ambiguous r := by
  simp [Ambiguous, h]

theorem Ambiguous_dollar (r : Str) : Ambiguous ('$' :: r) = (ambAt r || Ambiguous r) := by
  simp [Ambiguous]

theorem Ambiguous_append_of_not_mem {pre : Str} (h : '$' ∉ pre) (x : Str) :
    Ambiguous (pre ++ x) = Ambiguous x := by
  induction pre with
  | nil => rfl
  | cons c r ih =>
    have hc : c ≠ '$' := fun e => h (e ▸ List.mem_cons_self)
    rw [List.cons_append, Ambiguous_cons_of_ne hc, ih (fun m => h (List.mem_cons_of_mem _ m))]

theorem not_mem_takeWhile_ne (l : Str) : '$' ∉ l.takeWhile (· ≠ '$') := by
  intro h
  simpa using mem_takeWhile_pos h

theorem not_mem_takeWhile_name (l : Str) : '$' ∉ l.takeWhile isNameChar := by
  intro h
  exact ne_dollar_of_isNameChar (mem_takeWhile_pos h) rfl

theorem Ambiguous_dropWhile (cs : Str) : Ambiguous (cs.dropWhile (· ≠ '$')) = Ambiguous cs := by
  conv => rhs; rw [← List.takeWhile_append_dropWhile (p := (· ≠ '$')) (l := cs)]
  rw [Ambiguous_append_of_not_mem (not_mem_takeWhile_ne cs)]

/-! ### Outcome.map helpers -/

theorem map_map_append (o : Outcome Str) (a b : Str) :
    (o.map (b ++ ·)).map (a ++ ·) = o.map ((a ++ b) ++ ·) := by
  cases o <;> simp [Outcome.map, List.append_assoc]

/-! ### one variable reference: the scanner step against a `var` token -/

theorem segVar_eq {env : Env} {r name after : Str} (acc : Str) (hs : skipOpen r = name ++ after)
    (hn : name ≠ []) (ha : ∀ x ∈ name, isVarChar x = true)
    (hb : ∀ x, after.head? = some x → isVarChar x = false) :
    segVar env r acc =
      match env name with
      | none => .inl (.err .var)
      | some v => .inr (skipClose after, acc ++ v) := by
  obtain ⟨h1, h2⟩ := takeWhile_dropWhile_split ha hb
  unfold segVar
  rw [hs, h1, h2, if_neg hn]

theorem seg_var_step {env : Env} {r name after : Str} {toks' : List Tok} (acc : Str)
    (hs : skipOpen r = name ++ after)
    (hn : name ≠ []) (ha : ∀ x ∈ name, isVarChar x = true)
    (hb : ∀ x, after.head? = some x → isVarChar x = false)
    (ih : ∀ acc', seg env (skipClose after) acc' = (substComp env toks').map (acc' ++ ·)) :
    seg env ('$' :: r) acc = (substComp env (Tok.var name :: toks')).map (acc ++ ·) := by
  rw [seg_dollar, segVar_eq acc hs hn ha hb]
  simp only [substComp]
  cases env name with
  | none => rfl
  | some v =>
    simp only [segK]
    rw [ih, map_map_append]

/-! ### the scanner against the tokeniser -/

theorem map_eq_some_cons {o : Option (List Tok)} {t : Tok} {toks : List Tok}
    (h : o.map (t :: ·) = some toks) : ∃ toks', o = some toks' ∧ toks = t :: toks' := by
  cases o with
  | none => cases h
  | some x => exact ⟨x, rfl, by injection h with h; exact h.symm⟩

/-- Core of `C17_vars_partial`: on a well-formed, unambiguous component the scanner computes the
    substitution of the token list. -/
theorem seg_eq_subst_aux (env : Env) : ∀ (n : Nat) (cs : Str), cs.length ≤ n → ∀ (acc : Str)
    (toks : List Tok), parseComp cs = some toks →
    Ambiguous cs = false → seg env cs acc = (substComp env toks).map (acc ++ ·) := by
  intro n
  induction n with
  | zero =>
    intro cs hl acc toks hp _
    have : cs = [] := List.length_eq_zero_iff.mp (Nat.le_zero.mp hl)
    subst this
    rw [parseComp_nil] at hp
    injection hp with hp
    subst hp
    simp [seg_nil, substComp, Outcome.map]
  | succ n ih =>
    intro cs hl acc toks hp ha
    cases cs with
    | nil =>
      rw [parseComp_nil] at hp
      injection hp with hp
      subst hp
      simp [seg_nil, substComp, Outcome.map]
    | cons c r =>
    simp only [List.length_cons] at hl
    by_cases hc : c = '$'
    · subst hc
      rw [Ambiguous_dollar, Bool.or_eq_false_iff] at ha
      obtain ⟨hamb, har⟩ := ha
      by_cases hb : r.head? = some '{'
      · -- `${NAME}`
        obtain ⟨r1, rfl⟩ : ∃ r1, r = '{' :: r1 := by
          cases r with
          | nil => cases hb
          | cons x xs => simp only [List.head?_cons, Option.some.injEq] at hb; exact ⟨xs, by rw [hb]⟩
        rw [parseComp_braced] at hp
        split at hp
        · rename_i hcond
          obtain ⟨hn, hclose⟩ := hcond
          obtain ⟨toks', hp', rfl⟩ := map_eq_some_cons hp
          obtain ⟨r2, hr2⟩ : ∃ r2, r1.dropWhile isNameChar = '}' :: r2 := by
            cases hd : r1.dropWhile isNameChar with
            | nil => rw [hd] at hclose; cases hclose
            | cons x xs =>
              rw [hd] at hclose
              simp only [List.head?_cons, Option.some.injEq] at hclose
              exact ⟨xs, by rw [hclose]⟩
          have hsplit : r1 = r1.takeWhile isNameChar ++ '}' :: r2 := by
            rw [← hr2, List.takeWhile_append_dropWhile]
          rw [hr2, List.tail_cons] at hp'
          have har2 : Ambiguous r2 = false := by
            rw [hsplit] at har
            have : '{' :: (r1.takeWhile isNameChar ++ '}' :: r2)
                = ('{' :: r1.takeWhile isNameChar ++ ['}']) ++ r2 := by simp
            rw [this, Ambiguous_append_of_not_mem] at har
            · exact har
            · intro hm
              simp only [List.cons_append, List.mem_cons, List.mem_append, List.mem_nil_iff,
                or_false] at hm
              rcases hm with hm | hm | hm
              · cases hm
              · exact not_mem_takeWhile_name r1 hm
              · cases hm
          have hlen : r2.length < ('$' :: '{' :: r1).length := by
            have := congrArg List.length hsplit
            simp only [List.length_append, List.length_cons] at this ⊢
            omega
          refine seg_var_step (after := '}' :: r2) acc (by simpa [skipOpen] using hsplit) hn
            (fun x hx => isVarChar_of_isNameChar (mem_takeWhile_pos hx))
            (by intro x hx; simp only [List.head?_cons, Option.some.injEq] at hx; subst hx; rfl)
            (fun acc' => ?_)
          simp only [skipClose, List.head?_cons, if_true, List.tail_cons]
          exact ih r2 (by simp only [List.length_cons] at hlen hl; omega) acc' toks' hp' har2
        · cases hp
      · -- `$NAME`
        rw [parseComp_plain hb] at hp
        split at hp
        · rename_i hn
          obtain ⟨toks', hp', rfl⟩ := map_eq_some_cons hp
          have hsplit : r = r.takeWhile isNameChar ++ r.dropWhile isNameChar :=
            List.takeWhile_append_dropWhile.symm
          have hamb' : (r.dropWhile isNameChar).head? ≠ some '{' ∧
              (r.dropWhile isNameChar).head? ≠ some '}' := by
            simpa [ambAt, hb] using hamb
          have hhead : ∀ x, (r.dropWhile isNameChar).head? = some x → x = '$' := by
            intro x hx
            cases hd : r.dropWhile isNameChar with
            | nil => rw [hd] at hx; cases hx
            | cons y ys =>
              rw [hd] at hx
              simp only [List.head?_cons, Option.some.injEq] at hx
              subst hx
              have h1 := not_isNameChar_iff.mp (dropWhile_cons_head hd)
              rw [hd] at hamb'
              simp only [List.head?_cons, ne_eq, Option.some.injEq] at hamb'
              rcases h1 with h1 | h1 | h1
              · exact h1
              · exact absurd h1 hamb'.1
              · exact absurd h1 hamb'.2
          have haft : Ambiguous (r.dropWhile isNameChar) = false := by
            rw [hsplit, Ambiguous_append_of_not_mem (not_mem_takeWhile_name r)] at har
            exact har
          have hlen : (r.dropWhile isNameChar).length < ('$' :: r).length := by
            have := length_dropWhile_le isNameChar r
            simp only [List.length_cons]; omega
          refine seg_var_step (after := r.dropWhile isNameChar) acc
            (by rw [skipOpen, if_neg hb]; exact hsplit) hn
            (fun x hx => isVarChar_of_isNameChar (mem_takeWhile_pos hx))
            (by intro x hx; rw [hhead x hx]; rfl)
            (fun acc' => ?_)
          rw [skipClose, if_neg hamb'.2]
          exact ih _ (by simp only [List.length_cons] at hlen hl; omega) acc' toks' hp' haft
        · cases hp
    · -- literal text up to the next '$'
      rw [parseComp_lit hc] at hp
      obtain ⟨toks', hp', rfl⟩ := map_eq_some_cons hp
      have hlen : ((c :: r).dropWhile (· ≠ '$')).length < (c :: r).length :=
        length_dropWhile_lt (by simpa using hc)
      rw [seg_lit, ih _ (by simp only [List.length_cons] at hlen hl; omega) _ toks' hp'
        (by rw [Ambiguous_dropWhile]; exact ha)]
      simp only [substComp]
      rw [map_map_append]

theorem seg_eq_subst (env : Env) {cs : Str} {toks : List Tok} (hp : parseComp cs = some toks)
    (ha : Ambiguous cs = false) (acc : Str) :
    seg env cs acc = (substComp env toks).map (acc ++ ·) :=
  seg_eq_subst_aux env cs.length cs (Nat.le_refl _) acc toks hp ha

/-! ### stage 1: the tilde -/

/-- stage 1 of `expand`, verbatim -/
def stage1 (env : Env) (s : Str) : Outcome Str :=
  let cnt := s.count '~'
  if cnt > 1 then .err .multipleHomeSymbols
  else if cnt = 1 ∧ !(hasPrefix s ['~', '/']) ∧ s ≠ ['~'] then .err .invalidExpansion
  else if cnt = 1 ∧ s = ['~'] then homeDir env
  else if cnt = 1 then
    match homeDir env with
    | .ok h => match dropBytes s 2 with
      | some r => .ok (mash h r)
      | none => .panic
    | o => o
  else .ok s

theorem expand_eq (env : Env) (s : Str) :
    expand env s =
      match stage1 env s with
      | .ok p => if p.any (· == '$') then expandComps env (components p) [] else .ok p
      | o => o := rfl

theorem homeDir_eq (env : Env) : homeDir env = homeSpec env := rfl

theorem stage1_eq_tildeSpec (env : Env) (s : Str) : stage1 env s = tildeSpec env s := by
  unfold stage1 tildeSpec
  by_cases h2 : 2 ≤ s.count '~'
  · rw [if_pos h2, if_pos (by omega)]
  · rw [if_neg h2, if_neg (by omega)]
    by_cases h0 : s.count '~' = 0
    · rw [if_pos h0, if_neg (by omega), if_neg (by omega), if_neg (by omega)]
    · rw [if_neg h0]
      have h1 : s.count '~' = 1 := by omega
      simp only [h1, true_and, if_true]
      cases s with
      | nil => simp at h1
      | cons a t =>
        by_cases ha : a = '~'
        · subst ha
          cases t with
          | nil => simp [homeDir_eq]
          | cons b u =>
            by_cases hb : b = '/'
            · subst hb
              have hd : dropBytes ('~' :: '/' :: u) 2 = some u := by
                simp [dropBytes, Char.utf8Size]
              simp only [hasPrefix, hd, homeDir_eq]
              have hp : (['~', '/'] : Str).isPrefixOf ('~' :: '/' :: u) = true := by simp
              rw [if_neg (by simp), if_neg (by simp)]
              cases homeSpec env <;> rfl
            · have hp : hasPrefix ('~' :: b :: u) ['~', '/'] = false := by
                have hb' : ¬ '/' = b := fun e => hb e.symm
                simp [hasPrefix, List.isPrefixOf, hb']
              rw [if_pos (by simp [hp])]
              split
              · rename_i h; injection h with _ h; cases h
              · rename_i h; injection h with _ h; injection h with h _; exact absurd h hb
              · rfl
        · have hp : hasPrefix (a :: t) ['~', '/'] = false := by
            have ha' : ¬ '~' = a := fun e => ha e.symm
            simp [hasPrefix, List.isPrefixOf, ha']
          rw [if_pos (by simp [hp, ha])]
          split
          · rename_i h; injection h with h _; exact absurd h ha
          · rename_i h; injection h with h _; exact absurd h ha
          · rfl

/-! ### assembly: components in order, then `push` -/

/-- run `f` on all components in order, first failure wins -/
def allO (f : Comp → Outcome Str) : List Comp → Outcome (List Str)
  | [] => .ok []
  | c :: cs => (f c).bind fun x => (allO f cs).map (x :: ·)

/-- what the code computes for one component -/
def compOut (env : Env) : Comp → Outcome Str
  | .normal y => seg env y []
  | c => .ok c.str

theorem substAll_eq_allO (env : Env) (cs : List Comp) : substAll env cs = allO (expandCompSpec env) cs := by
  induction cs with
  | nil => rfl
  | cons c cs ih => simp only [substAll, allO, ih]

theorem expandComps_cons (env : Env) (c : Comp) (cs : List Comp) (buf : Str) :
    expandComps env (c :: cs) buf = (compOut env c).bind fun x => expandComps env cs (push buf x) := by
  cases c with
  | normal y =>
    rw [expandComps]
    show (match seg env y [] with
      | .ok s => expandComps env cs (push buf s) | .err k => .err k | .panic => .panic | .hang => .hang) = _
    simp only [compOut]
    cases seg env y [] <;> rfl
  | root => rfl
  | cur => rfl
  | parent => rfl

theorem expandComps_eq_allO (env : Env) (cs : List Comp) (buf : Str) :
    expandComps env cs buf = (allO (compOut env) cs).map (fun xs => xs.foldl push buf) := by
  induction cs generalizing buf with
  | nil => rfl
  | cons c cs ih =>
    rw [expandComps_cons, allO]
    cases compOut env c with
    | ok x =>
      simp only [Outcome.bind]
      rw [ih]
      cases allO (compOut env) cs <;> rfl
    | err k => rfl
    | panic => rfl
    | hang => rfl

theorem map_nil_append (o : Outcome Str) : o.map (([] : Str) ++ ·) = o := by
  cases o <;> simp [Outcome.map]

/-- per component: in the domain the code computes what the specification says -/
theorem compOut_eq_spec (env : Env) {c : Comp} (h : compOK c = true) :
    compOut env c = expandCompSpec env c := by
  cases c with
  | normal y =>
    simp only [compOK, Bool.and_eq_true, Bool.not_eq_true', Option.isSome_iff_exists] at h
    obtain ⟨⟨toks, hp⟩, ha⟩ := h
    simp only [compOut, expandCompSpec, hp]
    rw [seg_eq_subst env hp ha, map_nil_append]
  | root => rfl
  | cur => rfl
  | parent => rfl

theorem allO_congr {f g : Comp → Outcome Str} {cs : List Comp} (h : ∀ c ∈ cs, f c = g c) :
    allO f cs = allO g cs := by
  induction cs with
  | nil => rfl
  | cons c cs ih =>
    simp only [allO]
    rw [h c List.mem_cons_self, ih (fun c hc => h c (List.mem_cons_of_mem _ hc))]

theorem any_dollar_iff (p : Str) : p.any (· == '$') = true ↔ '$' ∈ p := by
  simp

/-- `C17_vars_partial` -/
theorem expand_eq_spec_of_D (env : Env) (s : Str) (h : D env s = true) :
    expand env s = expandSpec env s := by
  rw [expand_eq, stage1_eq_tildeSpec]
  unfold expandSpec
  unfold D at h
  cases ht : tildeSpec env s with
  | ok p =>
    rw [ht] at h
    simp only [Outcome.bind]
    by_cases hd : '$' ∈ p
    · rw [if_pos ((any_dollar_iff p).mpr hd), if_pos hd, expandComps_eq_allO, substAll_eq_allO]
      rw [allO_congr (fun c hc => compOut_eq_spec env (List.all_eq_true.mp h c hc))]
      rfl
    · rw [if_neg (fun x => hd ((any_dollar_iff p).mp x)), if_neg hd]
  | err k => rfl
  | panic => rfl
  | hang => rfl

/-! ### building well-formed components (generic tokeniser equations) -/

theorem parseComp_append_lit {lit x : Str} (hl : lit ≠ []) (hd : '$' ∉ lit)
    (hx : ∀ c, x.head? = some c → c = '$') :
    parseComp (lit ++ x) = (parseComp x).map (Tok.lit lit :: ·) := by
  obtain ⟨c, l', rfl⟩ : ∃ c l', lit = c :: l' := by
    cases lit with
    | nil => exact absurd rfl hl
    | cons c l' => exact ⟨c, l', rfl⟩
  have hc : c ≠ '$' := fun e => hd (e ▸ List.mem_cons_self)
  obtain ⟨h1, h2⟩ := takeWhile_dropWhile_split (p := (· ≠ '$')) (a := c :: l') (b := x)
    (fun y hy => by
      have : y ≠ '$' := fun e => hd (e ▸ hy)
      simpa using this)
    (fun y hy => by simpa using hx y hy)
  rw [List.cons_append, parseComp_lit hc, ← List.cons_append, h1, h2]

theorem parseComp_braced_ok {name x : Str} (hn : name ≠ []) (ha : ∀ c ∈ name, isNameChar c = true) :
    parseComp ('$' :: '{' :: (name ++ '}' :: x)) = (parseComp x).map (Tok.var name :: ·) := by
  obtain ⟨h1, h2⟩ := takeWhile_dropWhile_split (p := isNameChar) (a := name) (b := '}' :: x) ha
    (by intro c hc; simp only [List.head?_cons, Option.some.injEq] at hc; subst hc; rfl)
  rw [parseComp_braced, h1, h2, if_pos ⟨hn, rfl⟩, List.tail_cons]

theorem parseComp_plain_ok {name x : Str} (hn : name ≠ []) (ha : ∀ c ∈ name, isNameChar c = true)
    (hx : ∀ c, x.head? = some c → isNameChar c = false) :
    parseComp ('$' :: (name ++ x)) = (parseComp x).map (Tok.var name :: ·) := by
  obtain ⟨h1, h2⟩ := takeWhile_dropWhile_split (p := isNameChar) (a := name) (b := x) ha hx
  have hb : (name ++ x).head? ≠ some '{' := by
    cases name with
    | nil => exact absurd rfl hn
    | cons c l =>
      have := ha c List.mem_cons_self
      simp only [List.cons_append, List.head?_cons, ne_eq, Option.some.injEq]
      intro e; subst e; cases this
  rw [parseComp_plain hb, h1, h2, if_pos hn]

/-! ### shape of an unambiguous component at a '$' -/

/-- what can follow a '$' in a component that is not `Ambiguous` -/
inductive DollarShape (r : Str) : Prop where
  | trailing (h : r = [])
  | doubled (r' : Str) (h : r = '$' :: r')
  | braced (name r2 : Str) (h : r = '{' :: (name ++ '}' :: r2)) (hn : name ≠ [])
      (ha : ∀ c ∈ name, isNameChar c = true) (hamb : Ambiguous r2 = false)
  | plain (name after : Str) (h : r = name ++ after) (hn : name ≠ [])
      (ha : ∀ c ∈ name, isNameChar c = true) (hx : ∀ c, after.head? = some c → c = '$')
      (hamb : Ambiguous after = false)

theorem dollarShape {r : Str} (h : Ambiguous ('$' :: r) = false) : DollarShape r := by
  rw [Ambiguous_dollar, Bool.or_eq_false_iff] at h
  obtain ⟨hamb, har⟩ := h
  by_cases hb : r.head? = some '{'
  · obtain ⟨r1, rfl⟩ : ∃ r1, r = '{' :: r1 := by
      cases r with
      | nil => cases hb
      | cons x xs => simp only [List.head?_cons, Option.some.injEq] at hb; exact ⟨xs, by rw [hb]⟩
    have hcond : r1.takeWhile isNameChar ≠ [] ∧ (r1.dropWhile isNameChar).head? = some '}' := by
      simp only [ambAt, List.head?_cons, if_true, List.tail_cons, Bool.not_eq_false',
        Bool.and_eq_true] at hamb
      exact ⟨of_decide_eq_true hamb.1, of_decide_eq_true hamb.2⟩
    obtain ⟨hn, hclose⟩ := hcond
    obtain ⟨r2, hr2⟩ : ∃ r2, r1.dropWhile isNameChar = '}' :: r2 := by
      cases hd : r1.dropWhile isNameChar with
      | nil => rw [hd] at hclose; cases hclose
      | cons x xs =>
        rw [hd] at hclose
        simp only [List.head?_cons, Option.some.injEq] at hclose
        exact ⟨xs, by rw [hclose]⟩
    have hsplit : r1 = r1.takeWhile isNameChar ++ '}' :: r2 := by
      rw [← hr2, List.takeWhile_append_dropWhile]
    refine .braced (r1.takeWhile isNameChar) r2 (by rw [← hsplit]) hn
      (fun c hc => mem_takeWhile_pos hc) ?_
    rw [hsplit] at har
    have : '{' :: (r1.takeWhile isNameChar ++ '}' :: r2)
        = ('{' :: r1.takeWhile isNameChar ++ ['}']) ++ r2 := by simp
    rw [this, Ambiguous_append_of_not_mem] at har
    · exact har
    · intro hm
      simp only [List.cons_append, List.mem_cons, List.mem_append, List.mem_nil_iff,
        or_false] at hm
      rcases hm with hm | hm | hm
      · cases hm
      · exact not_mem_takeWhile_name r1 hm
      · cases hm
  · have hamb' : (r.dropWhile isNameChar).head? ≠ some '{' ∧
        (r.dropWhile isNameChar).head? ≠ some '}' := by
      simpa [ambAt, hb] using hamb
    have hhead : ∀ x, (r.dropWhile isNameChar).head? = some x → x = '$' := by
      intro x hx
      cases hd : r.dropWhile isNameChar with
      | nil => rw [hd] at hx; cases hx
      | cons y ys =>
        rw [hd] at hx
        simp only [List.head?_cons, Option.some.injEq] at hx
        subst hx
        have h1 := not_isNameChar_iff.mp (dropWhile_cons_head hd)
        rw [hd] at hamb'
        simp only [List.head?_cons, ne_eq, Option.some.injEq] at hamb'
        rcases h1 with h1 | h1 | h1
        · exact h1
        · exact absurd h1 hamb'.1
        · exact absurd h1 hamb'.2
    have hsplit : r = r.takeWhile isNameChar ++ r.dropWhile isNameChar :=
      List.takeWhile_append_dropWhile.symm
    by_cases hn : r.takeWhile isNameChar = []
    · -- no name: `r` is empty or starts with '$'
      cases r with
      | nil => exact .trailing rfl
      | cons x xs =>
        have hx : isNameChar x = false := by
          cases hx : isNameChar x with
          | false => rfl
          | true => rw [List.takeWhile_cons_of_pos hx] at hn; cases hn
        have hd : (x :: xs).dropWhile isNameChar = x :: xs := by
          rw [List.dropWhile_cons_of_neg (by simp [hx])]
        exact .doubled xs (by rw [hhead x (by rw [hd]; rfl)])
    · refine .plain _ _ hsplit hn (fun c hc => mem_takeWhile_pos hc) hhead ?_
      rw [hsplit, Ambiguous_append_of_not_mem (not_mem_takeWhile_name r)] at har
      exact har

/-! ### malformed components: the code fails too (repaired scanner: a trailing '$' included) -/

theorem seg_dollar_var {env : Env} {r name after : Str} (acc : Str)
    (hs : skipOpen r = name ++ after)
    (hn : name ≠ []) (ha : ∀ x ∈ name, isVarChar x = true)
    (hb : ∀ x, after.head? = some x → isVarChar x = false) :
    seg env ('$' :: r) acc =
      match env name with
      | none => .err .var
      | some v => seg env (skipClose after) (acc ++ v) := by
  rw [seg_dollar, segVar_eq acc hs hn ha hb]
  cases env name <;> rfl

theorem map_eq_none {o : Option (List Tok)} {t : Tok} (h : o.map (t :: ·) = none) : o = none := by
  cases o with
  | none => rfl
  | some x => cases h

/-- a '$' at the very end of a component: empty variable name, `InvalidExpansion` -/
theorem seg_trailing_dollar (env : Env) (acc : Str) :
    seg env ['$'] acc = .err .invalidExpansion := by
  rw [seg_dollar]; rfl

/-- a '$' directly followed by another '$': empty variable name, `InvalidExpansion` -/
theorem seg_doubled_dollar (env : Env) (r' acc : Str) :
    seg env ('$' :: '$' :: r') acc = .err .invalidExpansion := by
  rw [seg_dollar]; rfl

/-- on a malformed component that is not `Ambiguous` the scanner fails -/
theorem seg_malformed_aux (env : Env) : ∀ (n : Nat) (cs : Str), cs.length ≤ n →
    parseComp cs = none → Ambiguous cs = false → ∀ acc : Str,
    seg env cs acc = .err .invalidExpansion ∨ seg env cs acc = .err .var := by
  intro n
  induction n with
  | zero =>
    intro cs hl hp
    have : cs = [] := List.length_eq_zero_iff.mp (Nat.le_zero.mp hl)
    subst this
    cases hp
  | succ n ih =>
    intro cs hl hp ha acc
    cases cs with
    | nil => cases hp
    | cons c r =>
    simp only [List.length_cons] at hl
    by_cases hc : c = '$'
    · subst hc
      cases dollarShape ha with
      | trailing h =>
        subst h
        exact Or.inl (seg_trailing_dollar env acc)
      | doubled r' h =>
        subst h
        exact Or.inl (seg_doubled_dollar env r' acc)
      | braced name r2 h hn hnc hamb =>
        subst h
        rw [parseComp_braced_ok hn hnc] at hp
        have hp2 := map_eq_none hp
        have hstep := seg_dollar_var (env := env) (r := '{' :: (name ++ '}' :: r2)) (name := name)
          (after := '}' :: r2) acc (by simp [skipOpen]) hn
          (fun x hx => isVarChar_of_isNameChar (hnc x hx))
          (by intro x hx; simp only [List.head?_cons, Option.some.injEq] at hx; subst hx; rfl)
        rw [hstep]
        cases env name with
        | none => exact Or.inr rfl
        | some v =>
          simp only [skipClose, List.head?_cons, if_true, List.tail_cons]
          have hlen : r2.length ≤ n := by
            simp only [List.length_cons, List.length_append] at hl; omega
          exact ih r2 hlen hp2 hamb (acc ++ v)
      | plain name after h hn hnc hx hamb =>
        subst h
        have hx' : ∀ c, after.head? = some c → isNameChar c = false := by
          intro c hc; rw [hx c hc]; rfl
        rw [parseComp_plain_ok hn hnc hx'] at hp
        have hp2 := map_eq_none hp
        have hb : (name ++ after).head? ≠ some '{' := by
          cases name with
          | nil => exact absurd rfl hn
          | cons c l =>
            have := hnc c List.mem_cons_self
            simp only [List.cons_append, List.head?_cons, ne_eq, Option.some.injEq]
            intro e; subst e; cases this
        have hstep := seg_dollar_var (env := env) (r := name ++ after) (name := name)
          (after := after) acc (by rw [skipOpen, if_neg hb]) hn
          (fun x hx => isVarChar_of_isNameChar (hnc x hx))
          (by intro x hc; rw [hx x hc]; rfl)
        rw [hstep]
        cases env name with
        | none => exact Or.inr rfl
        | some v =>
          have hcl : skipClose after = after := by
            rw [skipClose, if_neg]
            intro e; have := hx _ e; cases this
          simp only [hcl]
          have hlen : after.length ≤ n := by
            simp only [List.length_append] at hl; omega
          exact ih after hlen hp2 hamb (acc ++ v)
    · -- literal prefix
      rw [parseComp_lit hc] at hp
      have hp2 := map_eq_none hp
      have hlen : ((c :: r).dropWhile (· ≠ '$')).length < (c :: r).length :=
        length_dropWhile_lt (by simpa using hc)
      simp only [List.length_cons] at hlen
      rw [seg_lit]
      exact ih _ (by omega) hp2 (by rw [Ambiguous_dropWhile]; exact ha)
        (acc ++ (c :: r).takeWhile (· ≠ '$'))

theorem seg_malformed (env : Env) {cs : Str} (hp : parseComp cs = none)
    (ha : Ambiguous cs = false) (acc : Str) :
    seg env cs acc = .err .invalidExpansion ∨ seg env cs acc = .err .var :=
  seg_malformed_aux env cs.length cs (Nat.le_refl _) hp ha acc

/-- a component whose only '$' is its last character: empty variable name -/
theorem seg_lit_trailing_dollar (env : Env) {pre : Str} (hp : '$' ∉ pre) (acc : Str) :
    seg env (pre ++ ['$']) acc = .err .invalidExpansion := by
  obtain ⟨h1, h2⟩ := takeWhile_dropWhile_split (p := (· ≠ '$')) (a := pre) (b := ['$'])
    (fun y hy => by
      have : y ≠ '$' := fun e => hp (e ▸ hy)
      simpa using this)
    (fun y hy => by
      simp only [List.head?_cons, Option.some.injEq] at hy; subst hy; rfl)
  rw [seg_lit, h1, h2, seg_trailing_dollar]

/-! ### the domain of the error characterisation: everything the specification specifies

  `Spec.Ambiguous` components are declared unspecified by `Spec/Expand.lean`; `DSpec` is the
  (decidable) set of inputs none of whose normal components is `Ambiguous`.  Malformed components
  (`$$`, `a$$b`, `a$`) are inside.  `Spec.D ⊆ Spec.DErr ⊆ DSpec`. -/

/-- the component is not in the unspecified class -/
def compUnamb : Comp → Bool
  | .normal y => !Ambiguous y
  | _ => true

/-- no normal component of the tilde-expanded path is `Ambiguous` (vacuously true when the tilde
    stage already fails) -/
def DSpec (env : Env) (s : Str) : Bool :=
  match tildeSpec env s with
  | .ok p => (components p).all compUnamb
  | _ => true

/-- the two outcomes are equal, or both are errors (possibly of different kinds) -/
def AgreeUpToKind {α} (a b : Outcome α) : Prop := a = b ∨ ((∃ k, a = .err k) ∧ ∃ k, b = .err k)

theorem AgreeUpToKind.rfl' {α} (a : Outcome α) : AgreeUpToKind a a := Or.inl rfl

/-- the sharp form: equal, or the code says `Var` where the specification says
    `InvalidExpansion` (a malformed component in which an unset variable is met first) -/
def AgreeSharp {α} (a b : Outcome α) : Prop :=
  a = b ∨ (a = .err .var ∧ b = .err .invalidExpansion)

theorem AgreeSharp.weaken {α} {a b : Outcome α} (h : AgreeSharp a b) : AgreeUpToKind a b := by
  rcases h with h | ⟨h1, h2⟩
  · exact Or.inl h
  · exact Or.inr ⟨⟨_, h1⟩, ⟨_, h2⟩⟩

theorem compOut_agree (env : Env) {c : Comp} (h : compUnamb c = true) :
    AgreeSharp (compOut env c) (expandCompSpec env c) := by
  cases c with
  | normal y =>
    simp only [compUnamb, Bool.not_eq_true'] at h
    cases hp : parseComp y with
    | some toks =>
      left
      simp only [compOut, expandCompSpec, hp]
      rw [seg_eq_subst env hp h, map_nil_append]
    | none =>
      simp only [compOut, expandCompSpec, hp]
      rcases seg_malformed env hp h [] with h1 | h1
      · exact Or.inl h1
      · exact Or.inr ⟨h1, rfl⟩
  | root => exact Or.inl rfl
  | cur => exact Or.inl rfl
  | parent => exact Or.inl rfl

theorem allO_agree {f g : Comp → Outcome Str} {cs : List Comp}
    (h : ∀ c ∈ cs, AgreeSharp (f c) (g c)) : AgreeSharp (allO f cs) (allO g cs) := by
  induction cs with
  | nil => exact Or.inl rfl
  | cons c cs ih =>
    simp only [allO]
    rcases h c List.mem_cons_self with h1 | ⟨h1, h2⟩
    · rw [h1]
      cases g c with
      | ok x =>
        simp only [Outcome.bind]
        rcases ih (fun c hc => h c (List.mem_cons_of_mem _ hc)) with h2 | ⟨h2, h3⟩
        · rw [h2]; exact Or.inl rfl
        · rw [h2, h3]; exact Or.inr ⟨rfl, rfl⟩
      | err k => exact Or.inl rfl
      | panic => exact Or.inl rfl
      | hang => exact Or.inl rfl
    · rw [h1, h2]; exact Or.inr ⟨rfl, rfl⟩

theorem AgreeSharp.map {α β} {a b : Outcome α} (f : α → β) (h : AgreeSharp a b) :
    AgreeSharp (a.map f) (b.map f) := by
  rcases h with h | ⟨h1, h2⟩
  · rw [h]; exact Or.inl rfl
  · rw [h1, h2]; exact Or.inr ⟨rfl, rfl⟩

/-- in `DSpec` the code computes the specification, up to `Var` reported for `InvalidExpansion` -/
theorem expand_sharp_of_DSpec (env : Env) (s : Str) (h : DSpec env s = true) :
    AgreeSharp (expand env s) (expandSpec env s) := by
  rw [expand_eq, stage1_eq_tildeSpec]
  unfold expandSpec
  unfold DSpec at h
  cases ht : tildeSpec env s with
  | ok p =>
    rw [ht] at h
    simp only [Outcome.bind]
    by_cases hd : '$' ∈ p
    · rw [if_pos ((any_dollar_iff p).mpr hd), if_pos hd, expandComps_eq_allO, substAll_eq_allO]
      exact (allO_agree (fun c hc => compOut_agree env (List.all_eq_true.mp h c hc))).map _
    · rw [if_neg (fun x => hd ((any_dollar_iff p).mp x)), if_neg hd]
      exact Or.inl rfl
  | err k => exact Or.inl rfl
  | panic => exact Or.inl rfl
  | hang => exact Or.inl rfl

theorem expand_agree_of_DSpec (env : Env) (s : Str) (h : DSpec env s = true) :
    AgreeUpToKind (expand env s) (expandSpec env s) :=
  (expand_sharp_of_DSpec env s h).weaken

theorem AgreeUpToKind.err_iff {α} {a b : Outcome α} (h : AgreeUpToKind a b) :
    (∃ k, a = .err k) ↔ ∃ k, b = .err k := by
  rcases h with h | ⟨h1, h2⟩
  · rw [h]
  · exact ⟨fun _ => h2, fun _ => h1⟩

/-- `D ⊆ DErr` -/
theorem DErr_of_D {env : Env} {s : Str} (h : D env s = true) : DErr env s = true := by
  unfold D at h
  unfold DErr
  cases ht : tildeSpec env s with
  | ok p =>
    rw [ht] at h
    simp only [List.all_eq_true] at h ⊢
    intro c hc
    have := h c hc
    cases c with
    | normal y =>
      simp only [compOK, Bool.and_eq_true, Bool.not_eq_true'] at this
      simp only [compSpecified, TrailingDollar, Bool.and_eq_true, Bool.not_eq_true', this.2, true_and]
      cases hp : parseComp y with
      | none => rw [hp] at this; cases this.1
      | some v => rfl
    | root => rfl
    | cur => rfl
    | parent => rfl
  | err k => rfl
  | panic => rfl
  | hang => rfl

/-- `DErr ⊆ DSpec` (`DErr` additionally excluded the trailing-'$' class of the unrepaired code) -/
theorem DSpec_of_DErr {env : Env} {s : Str} (h : DErr env s = true) : DSpec env s = true := by
  unfold DErr at h
  unfold DSpec
  cases ht : tildeSpec env s with
  | ok p =>
    rw [ht] at h
    simp only [List.all_eq_true] at h ⊢
    intro c hc
    have := h c hc
    cases c with
    | normal y =>
      simp only [compSpecified, Bool.and_eq_true, Bool.not_eq_true'] at this
      simp only [compUnamb, Bool.not_eq_true', this.1]
    | root => rfl
    | cur => rfl
    | parent => rfl
  | err k => rfl
  | panic => rfl
  | hang => rfl

theorem DSpec_of_D {env : Env} {s : Str} (h : D env s = true) : DSpec env s = true :=
  DSpec_of_DErr (DErr_of_D h)

theorem expand_agree_of_DErr (env : Env) (s : Str) (h : DErr env s = true) :
    AgreeUpToKind (expand env s) (expandSpec env s) :=
  expand_agree_of_DSpec env s (DSpec_of_DErr h)

/-! ### the tilde stage of the specification -/

/-- the tilde is where it may be: the whole string, or followed by a separator -/
def WellPlaced (s : Str) : Prop := s = ['~'] ∨ ['~', '/'] <+: s

theorem tildeSpec_multiple (env : Env) {s : Str} (h : 2 ≤ s.count '~') :
    tildeSpec env s = .err .multipleHomeSymbols := by
  unfold tildeSpec; rw [if_pos h]

theorem tildeSpec_none (env : Env) {s : Str} (h : s.count '~' = 0) : tildeSpec env s = .ok s := by
  unfold tildeSpec; rw [if_neg (by omega), if_pos h]

theorem tildeSpec_home (env : Env) : tildeSpec env ['~'] = homeSpec env := rfl

theorem tildeSpec_home_slash (env : Env) {rest : Str} (h : '~' ∉ rest) :
    tildeSpec env ('~' :: '/' :: rest) = (homeSpec env).bind fun h => .ok (mash h rest) := by
  have hc : ('~' :: '/' :: rest).count '~' = 1 := by
    simp [List.count_eq_zero.mpr h]
  unfold tildeSpec; rw [if_neg (by omega), if_neg (by omega)]
  rfl

theorem tildeSpec_misplaced (env : Env) {s : Str} (h1 : s.count '~' = 1) (h : ¬ WellPlaced s) :
    tildeSpec env s = .err .invalidExpansion := by
  unfold tildeSpec; rw [if_neg (by omega), if_neg (by omega)]
  split
  · exact absurd (Or.inl rfl) h
  · rename_i rest
    exact absurd (Or.inr ⟨rest, rfl⟩) h
  · rfl

theorem wellPlaced_cases {s : Str} (h1 : s.count '~' = 1) (h : WellPlaced s) :
    s = ['~'] ∨ ∃ rest, s = '~' :: '/' :: rest ∧ '~' ∉ rest := by
  rcases h with h | ⟨rest, h⟩
  · exact Or.inl h
  · right
    refine ⟨rest, h.symm, ?_⟩
    subst h
    have : (['~', '/'] ++ rest).count '~' = 1 + rest.count '~' := by
      simp; omega
    rw [this] at h1
    exact List.count_eq_zero.mp (by omega)

theorem homeSpec_err_iff (env : Env) : (∃ k, homeSpec env = .err k) ↔ env "HOME".toList = none := by
  unfold homeSpec
  cases env "HOME".toList with
  | none => exact ⟨fun _ => rfl, fun _ => ⟨_, rfl⟩⟩
  | some h => exact ⟨(fun ⟨k, hk⟩ => by cases hk), (fun h => nomatch h)⟩

theorem tildeSpec_err_iff (env : Env) (s : Str) :
    (∃ k, tildeSpec env s = .err k) ↔ MultipleTilde s ∨ MisplacedTilde s ∨ HomeUnset env s := by
  by_cases h2 : 2 ≤ s.count '~'
  · rw [tildeSpec_multiple env h2]
    exact ⟨fun _ => Or.inl h2, fun _ => ⟨_, rfl⟩⟩
  · by_cases h0 : s.count '~' = 0
    · rw [tildeSpec_none env h0]
      constructor
      · rintro ⟨k, hk⟩; cases hk
      · rintro (h | h | h)
        · exact absurd h h2
        · have := h.1; omega
        · have := h.1; omega
    · have h1 : s.count '~' = 1 := by omega
      by_cases hw : WellPlaced s
      · have key : (∃ k, tildeSpec env s = .err k) ↔ env "HOME".toList = none := by
          rcases wellPlaced_cases h1 hw with h | ⟨rest, h, hr⟩
          · subst h; rw [tildeSpec_home]; exact homeSpec_err_iff env
          · subst h
            rw [tildeSpec_home_slash env hr, ← homeSpec_err_iff]
            cases homeSpec env with
            | ok a => exact ⟨(fun ⟨k, hk⟩ => nomatch hk), (fun ⟨k, hk⟩ => nomatch hk)⟩
            | err k => exact ⟨fun _ => ⟨_, rfl⟩, fun _ => ⟨_, rfl⟩⟩
            | panic => exact ⟨(fun ⟨k, hk⟩ => nomatch hk), (fun ⟨k, hk⟩ => nomatch hk)⟩
            | hang => exact ⟨(fun ⟨k, hk⟩ => nomatch hk), (fun ⟨k, hk⟩ => nomatch hk)⟩
        rw [key]
        constructor
        · intro h; exact Or.inr (Or.inr ⟨h1, hw, h⟩)
        · rintro (h | h | h)
          · exact absurd h h2
          · exact absurd hw h.2
          · exact h.2.2
      · rw [tildeSpec_misplaced env h1 hw]
        exact ⟨fun _ => Or.inr (Or.inl ⟨h1, hw⟩), fun _ => ⟨_, rfl⟩⟩

/-! ### when the specification fails in the variable stage -/

theorem substComp_cases (env : Env) (toks : List Tok) :
    (∃ a, substComp env toks = .ok a) ∨ substComp env toks = .err .var := by
  induction toks with
  | nil => exact Or.inl ⟨_, rfl⟩
  | cons t ts ih =>
    cases t with
    | lit s =>
      simp only [substComp]
      rcases ih with ⟨a, h⟩ | h <;> rw [h]
      · exact Or.inl ⟨_, rfl⟩
      · exact Or.inr rfl
    | var n =>
      simp only [substComp]
      cases env n with
      | none => exact Or.inr rfl
      | some v =>
        rcases ih with ⟨a, h⟩ | h <;> rw [h]
        · exact Or.inl ⟨_, rfl⟩
        · exact Or.inr rfl

def tokUnset (env : Env) (t : Tok) : Bool := match t with | .var n => (env n).isNone | _ => false

theorem substComp_err_iff (env : Env) (toks : List Tok) :
    (∃ k, substComp env toks = .err k) ↔ toks.any (tokUnset env) = true := by
  induction toks with
  | nil => exact ⟨(fun ⟨k, hk⟩ => nomatch hk), (fun h => nomatch h)⟩
  | cons t ts ih =>
    cases t with
    | lit s =>
      simp only [substComp, List.any_cons, tokUnset, Bool.false_or]
      rw [← ih]
      rcases substComp_cases env ts with ⟨a, h⟩ | h <;> rw [h]
      · exact ⟨(fun ⟨k, hk⟩ => nomatch hk), (fun ⟨k, hk⟩ => nomatch hk)⟩
      · exact ⟨fun _ => ⟨_, rfl⟩, fun _ => ⟨_, rfl⟩⟩
    | var n =>
      simp only [substComp, List.any_cons, tokUnset]
      cases env n with
      | none => exact ⟨fun _ => rfl, fun _ => ⟨_, rfl⟩⟩
      | some v =>
        simp only [Option.isNone_some, Bool.false_or]
        rw [← ih]
        rcases substComp_cases env ts with ⟨a, h⟩ | h <;> rw [h]
        · exact ⟨(fun ⟨k, hk⟩ => nomatch hk), (fun ⟨k, hk⟩ => nomatch hk)⟩
        · exact ⟨fun _ => ⟨_, rfl⟩, fun _ => ⟨_, rfl⟩⟩

theorem expandCompSpec_cases (env : Env) (c : Comp) :
    (∃ a, expandCompSpec env c = .ok a) ∨ ∃ k, expandCompSpec env c = .err k := by
  cases c with
  | normal y =>
    simp only [expandCompSpec]
    cases parseComp y with
    | none => exact Or.inr ⟨_, rfl⟩
    | some toks =>
      rcases substComp_cases env toks with h | h
      · exact Or.inl h
      · exact Or.inr ⟨_, h⟩
  | root => exact Or.inl ⟨_, rfl⟩
  | cur => exact Or.inl ⟨_, rfl⟩
  | parent => exact Or.inl ⟨_, rfl⟩

theorem expandCompSpec_err_iff (env : Env) (c : Comp) :
    (∃ k, expandCompSpec env c = .err k) ↔ (compBad c = true ∨ compUnset env c = true) := by
  cases c with
  | normal y =>
    simp only [expandCompSpec, compBad, compUnset]
    cases parseComp y with
    | none => exact ⟨fun _ => Or.inl rfl, fun _ => ⟨_, rfl⟩⟩
    | some toks =>
      simp only [Option.isNone_some, Bool.false_eq_true, false_or]
      exact substComp_err_iff env toks
  | root => exact ⟨(fun ⟨k, hk⟩ => nomatch hk), (fun h => by rcases h with h | h <;> cases h)⟩
  | cur => exact ⟨(fun ⟨k, hk⟩ => nomatch hk), (fun h => by rcases h with h | h <;> cases h)⟩
  | parent => exact ⟨(fun ⟨k, hk⟩ => nomatch hk), (fun h => by rcases h with h | h <;> cases h)⟩

theorem substAll_cases (env : Env) (cs : List Comp) :
    (∃ a, substAll env cs = .ok a) ∨ ∃ k, substAll env cs = .err k := by
  induction cs with
  | nil => exact Or.inl ⟨_, rfl⟩
  | cons c cs ih =>
    simp only [substAll]
    rcases expandCompSpec_cases env c with ⟨a, h⟩ | ⟨k, h⟩ <;> rw [h]
    · rcases ih with ⟨b, h2⟩ | ⟨k, h2⟩ <;> simp only [Outcome.bind, h2]
      · exact Or.inl ⟨_, rfl⟩
      · exact Or.inr ⟨_, rfl⟩
    · exact Or.inr ⟨_, rfl⟩

theorem substAll_err_iff (env : Env) (cs : List Comp) :
    (∃ k, substAll env cs = .err k) ↔ ∃ c ∈ cs, (compBad c = true ∨ compUnset env c = true) := by
  induction cs with
  | nil => exact ⟨(fun ⟨k, hk⟩ => nomatch hk), (fun ⟨c, hc, _⟩ => nomatch hc)⟩
  | cons c cs ih =>
    simp only [substAll, List.mem_cons, exists_eq_or_imp]
    rw [← ih, ← expandCompSpec_err_iff]
    rcases expandCompSpec_cases env c with ⟨a, h⟩ | ⟨k, h⟩ <;> rw [h]
    · simp only [Outcome.bind]
      rcases substAll_cases env cs with ⟨b, h2⟩ | ⟨k, h2⟩ <;> rw [h2]
      · constructor
        · rintro ⟨k, hk⟩; cases hk
        · rintro (⟨k, hk⟩ | ⟨k, hk⟩) <;> cases hk
      · exact ⟨fun _ => Or.inr ⟨_, rfl⟩, fun _ => ⟨_, rfl⟩⟩
    · exact ⟨fun _ => Or.inl ⟨_, rfl⟩, fun _ => ⟨_, rfl⟩⟩

theorem tildeSpec_cases (env : Env) (s : Str) :
    (∃ a, tildeSpec env s = .ok a) ∨ ∃ k, tildeSpec env s = .err k := by
  unfold tildeSpec
  split
  · exact Or.inr ⟨_, rfl⟩
  · split
    · exact Or.inl ⟨_, rfl⟩
    · have hh : (∃ a, homeSpec env = .ok a) ∨ ∃ k, homeSpec env = .err k := by
        unfold homeSpec; cases env "HOME".toList
        · exact Or.inr ⟨_, rfl⟩
        · exact Or.inl ⟨_, rfl⟩
      split
      · exact hh
      · rcases hh with ⟨a, h⟩ | ⟨k, h⟩ <;> rw [h]
        · exact Or.inl ⟨_, rfl⟩
        · exact Or.inr ⟨_, rfl⟩
      · exact Or.inr ⟨_, rfl⟩

/-- the specification fails exactly for the documented reasons (no domain restriction) -/
theorem expandSpec_err_iff (env : Env) (s : Str) :
    (∃ k, expandSpec env s = .err k) ↔
      MultipleTilde s ∨ MisplacedTilde s ∨ HomeUnset env s ∨ EmptyVarName env s ∨ UnsetVar env s := by
  have hsplit : (∃ k, expandSpec env s = .err k) ↔
      (∃ k, tildeSpec env s = .err k) ∨ (EmptyVarName env s ∨ UnsetVar env s) := by
    unfold expandSpec EmptyVarName UnsetVar
    rcases tildeSpec_cases env s with ⟨p, h⟩ | ⟨k, h⟩ <;> rw [h]
    · simp only [Outcome.bind]
      by_cases hd : '$' ∈ p
      · rw [if_pos hd]
        have : (∃ k, (substAll env (components p)).map pushAll = .err k) ↔
            ∃ k, substAll env (components p) = .err k := by
          rcases substAll_cases env (components p) with ⟨b, h2⟩ | ⟨k, h2⟩ <;> rw [h2]
          · exact ⟨(fun ⟨k, hk⟩ => nomatch hk), (fun ⟨k, hk⟩ => nomatch hk)⟩
          · exact ⟨fun _ => ⟨_, rfl⟩, fun _ => ⟨_, rfl⟩⟩
        rw [this, substAll_err_iff]
        constructor
        · rintro ⟨c, hc, hbad | hun⟩
          · exact Or.inr (Or.inl ⟨p, rfl, hd, c, hc, hbad⟩)
          · exact Or.inr (Or.inr ⟨p, rfl, hd, c, hc, hun⟩)
        · rintro (⟨k, hk⟩ | ⟨q, hq, _, c, hc, hbad⟩ | ⟨q, hq, _, c, hc, hun⟩)
          · cases hk
          · injection hq with hq; subst hq; exact ⟨c, hc, Or.inl hbad⟩
          · injection hq with hq; subst hq; exact ⟨c, hc, Or.inr hun⟩
      · rw [if_neg hd]
        constructor
        · rintro ⟨k, hk⟩; cases hk
        · rintro (⟨k, hk⟩ | ⟨q, hq, hd', _⟩ | ⟨q, hq, hd', _⟩)
          · cases hk
          · injection hq with hq; subst hq; exact absurd hd' hd
          · injection hq with hq; subst hq; exact absurd hd' hd
    · constructor
      · intro _; exact Or.inl ⟨_, rfl⟩
      · intro _; exact ⟨_, rfl⟩
  rw [hsplit, tildeSpec_err_iff]
  constructor
  · rintro ((h | h | h) | h | h)
    · exact Or.inl h
    · exact Or.inr (Or.inl h)
    · exact Or.inr (Or.inr (Or.inl h))
    · exact Or.inr (Or.inr (Or.inr (Or.inl h)))
    · exact Or.inr (Or.inr (Or.inr (Or.inr h)))
  · rintro (h | h | h | h | h)
    · exact Or.inl (Or.inl h)
    · exact Or.inl (Or.inr (Or.inl h))
    · exact Or.inl (Or.inr (Or.inr h))
    · exact Or.inr (Or.inl h)
    · exact Or.inr (Or.inr h)

/-! ### which characters can occur in `mash d p` (needed: no '$' appears from nowhere) -/

theorem mem_of_mem_splitOn (sep : Char) (s : Str) :
    ∀ p ∈ splitOn sep s, ∀ x ∈ p, x ∈ s := by
  induction s with
  | nil => intro p hp x hx; simp [splitOn] at hp; subst hp; cases hx
  | cons c cs ih =>
    by_cases h : c = sep
    · subst h
      rw [splitOn_cons_sep]
      intro p hp x hx
      simp only [List.mem_cons] at hp
      rcases hp with rfl | hp
      · cases hx
      · exact List.mem_cons_of_mem _ (ih p hp x hx)
    · obtain ⟨hd, tl, h1, h2⟩ := splitOn_cons_of_ne h cs
      rw [h2]
      rw [h1] at ih
      intro p hp x hx
      simp only [List.mem_cons] at hp
      rcases hp with rfl | hp
      · rcases List.mem_cons.mp hx with rfl | hx
        · exact List.mem_cons_self
        · exact List.mem_cons_of_mem _ (ih hd (by simp) x hx)
      · exact List.mem_cons_of_mem _ (ih p (by simp [hp]) x hx)

theorem mem_push {b p : Str} {x : Char} (h : x ∈ push b p) : x ∈ b ∨ x ∈ p ∨ x = '/' := by
  unfold push at h
  split at h
  · exact Or.inr (Or.inl h)
  · split at h
    · rcases List.mem_append.mp h with h | h
      · exact Or.inl h
      · rcases List.mem_cons.mp h with h | h
        · exact Or.inr (Or.inr h)
        · exact Or.inr (Or.inl h)
    · rcases List.mem_append.mp h with h | h
      · exact Or.inl h
      · exact Or.inr (Or.inl h)

theorem mem_foldl_push {cs : List Comp} {buf : Str} {x : Char}
    (h : x ∈ cs.foldl (fun b c => push b c.str) buf) :
    x ∈ buf ∨ x = '/' ∨ ∃ c ∈ cs, x ∈ c.str := by
  induction cs generalizing buf with
  | nil => exact Or.inl h
  | cons c cs ih =>
    rw [List.foldl_cons] at h
    rcases ih h with h | h | ⟨c', hc', h⟩
    · rcases mem_push h with h | h | h
      · exact Or.inl h
      · exact Or.inr (Or.inr ⟨c, List.mem_cons_self, h⟩)
      · exact Or.inr (Or.inl h)
    · exact Or.inr (Or.inl h)
    · exact Or.inr (Or.inr ⟨c', List.mem_cons_of_mem _ hc', h⟩)

theorem mem_components_str {s : Str} {c : Comp} (hc : c ∈ components s) {x : Char} (hx : x ∈ c.str) :
    x = '/' ∨ x ∈ s := by
  have hbody : ∀ c ∈ (splitSlash s).filterMap bodyComp, ∀ x ∈ c.str, x ∈ s := by
    intro c hc x hx
    obtain ⟨p, hp, hpc⟩ := List.mem_filterMap.mp hc
    rw [bodyComp_str hpc] at hx
    exact mem_of_mem_splitOn '/' s p hp x hx
  unfold components at hc
  split at hc
  · rcases List.mem_cons.mp hc with rfl | hc
    · left; simpa [Comp.str] using hx
    · exact Or.inr (hbody c hc x hx)
  · rcases List.mem_append.mp hc with hc | hc
    · split at hc
      · rename_i hh
        simp only [List.mem_singleton] at hc
        subst hc
        right
        cases hs : splitSlash s with
        | nil => rw [hs] at hh; cases hh
        | cons p ps =>
          rw [hs] at hh
          simp only [List.head?_cons, Option.some.injEq] at hh
          exact mem_of_mem_splitOn '/' s p (by unfold splitSlash at hs; rw [hs]; simp)
            x (by rw [hh]; exact hx)
      · cases hc
    · exact Or.inr (hbody c hc x hx)

theorem mem_render_components {s : Str} {x : Char} (h : x ∈ render (components s)) :
    x = '/' ∨ x ∈ s := by
  rcases mem_foldl_push h with h | h | ⟨c, hc, h⟩
  · cases h
  · exact Or.inl h
  · exact mem_components_str hc h

theorem mem_stripSlashes {r : Str} {x : Char} (h : x ∈ stripSlashes r) : x ∈ r := by
  induction r with
  | nil => exact h
  | cons c cs ih =>
    by_cases hc : c = '/'
    · subst hc
      rw [stripSlashes] at h
      exact List.mem_cons_of_mem _ (ih h)
    · rw [stripSlashes] at h
      · exact h
      · intro r e; injection e with e _; exact hc e

theorem mem_mash {d p : Str} {x : Char} (h : x ∈ mash d p) : x = '/' ∨ x ∈ d ∨ x ∈ p := by
  rcases mem_render_components h with h | h
  · exact Or.inl h
  · rcases mem_push h with h | h | h
    · exact Or.inr (Or.inl h)
    · exact Or.inr (Or.inr (mem_stripSlashes h))
    · exact Or.inl h

theorem dollar_not_mem_mash {d p : Str} (hd : '$' ∉ d) (hp : '$' ∉ p) : '$' ∉ mash d p := by
  intro h
  rcases mem_mash h with h | h | h
  · cases h
  · exact hd h
  · exact hp h

/-! ### consequences for `expand` of the tilde stage alone -/

theorem expand_of_tilde_ok {env : Env} {s p : Str} (h : tildeSpec env s = .ok p) (hd : '$' ∉ p) :
    expand env s = .ok p := by
  rw [expand_eq, stage1_eq_tildeSpec, h]
  simp only
  rw [if_neg (fun x => hd ((any_dollar_iff p).mp x))]

theorem expand_of_tilde_err {env : Env} {s : Str} {k : ErrKind} (h : tildeSpec env s = .err k) :
    expand env s = .err k := by
  rw [expand_eq, stage1_eq_tildeSpec, h]

/-! ### `expand` never panics or hangs -/

theorem segVar_inl {env : Env} {rest acc : Str} {o : Outcome Str}
    (h : segVar env rest acc = .inl o) : ∃ k, o = .err k := by
  unfold segVar at h
  split at h
  · injection h with h; exact ⟨_, h.symm⟩
  · split at h
    · injection h with h; exact ⟨_, h.symm⟩
    · cases h

theorem expandSeg_cases (env : Env) : ∀ (f : Nat) (cs acc : Str),
    (∃ a, expandSeg env f cs acc = .ok a) ∨ ∃ k, expandSeg env f cs acc = .err k := by
  intro f
  induction f with
  | zero => intro cs acc; exact Or.inl ⟨acc, by cases cs <;> rfl⟩
  | succ f ih =>
    intro cs acc
    cases cs with
    | nil => exact Or.inl ⟨acc, rfl⟩
    | cons c r =>
      rw [expandSeg_succ_cons]
      split
      · exact Or.inl ⟨_, rfl⟩
      · cases hs : segVar env (((c :: r).dropWhile (· ≠ '$')).drop 1)
            (acc ++ (c :: r).takeWhile (· ≠ '$')) with
        | inl o =>
          obtain ⟨k, hk⟩ := segVar_inl hs
          exact Or.inr ⟨k, by simp only [segCont, hk]⟩
        | inr p => exact ih p.1 p.2

theorem compOut_cases (env : Env) (c : Comp) :
    (∃ a, compOut env c = .ok a) ∨ ∃ k, compOut env c = .err k := by
  cases c with
  | normal y => exact expandSeg_cases env _ _ _
  | root => exact Or.inl ⟨_, rfl⟩
  | cur => exact Or.inl ⟨_, rfl⟩
  | parent => exact Or.inl ⟨_, rfl⟩

theorem allO_cases {f : Comp → Outcome Str}
    (hf : ∀ c, (∃ a, f c = .ok a) ∨ ∃ k, f c = .err k) (cs : List Comp) :
    (∃ a, allO f cs = .ok a) ∨ ∃ k, allO f cs = .err k := by
  induction cs with
  | nil => exact Or.inl ⟨_, rfl⟩
  | cons c cs ih =>
    simp only [allO]
    rcases hf c with ⟨a, h⟩ | ⟨k, h⟩ <;> rw [h]
    · rcases ih with ⟨b, h2⟩ | ⟨k, h2⟩ <;> simp only [Outcome.bind, h2]
      · exact Or.inl ⟨_, rfl⟩
      · exact Or.inr ⟨_, rfl⟩
    · exact Or.inr ⟨_, rfl⟩

theorem expand_cases (env : Env) (s : Str) :
    (∃ p, expand env s = .ok p) ∨ ∃ k, expand env s = .err k := by
  rw [expand_eq, stage1_eq_tildeSpec]
  rcases tildeSpec_cases env s with ⟨p, h⟩ | ⟨k, h⟩ <;> rw [h]
  · simp only
    split
    · rw [expandComps_eq_allO]
      rcases allO_cases (compOut_cases env) (components p) with ⟨b, h2⟩ | ⟨k, h2⟩ <;> rw [h2]
      · exact Or.inl ⟨_, rfl⟩
      · exact Or.inr ⟨_, rfl⟩
    · exact Or.inl ⟨_, rfl⟩
  · exact Or.inr ⟨_, rfl⟩

/-- in `D` no component is malformed -/
theorem not_emptyVarName_of_D {env : Env} {s : Str} (h : D env s = true) : ¬ EmptyVarName env s := by
  rintro ⟨p, hp, _, c, hc, hbad⟩
  unfold D at h
  rw [hp] at h
  have := List.all_eq_true.mp h c hc
  cases c with
  | normal y =>
    simp only [compOK, Bool.and_eq_true] at this
    simp only [compBad] at hbad
    cases hq : parseComp y with
    | none => rw [hq] at this; cases this.1
    | some v => rw [hq] at hbad; cases hbad
  | root => cases hbad
  | cur => cases hbad
  | parent => cases hbad

/-- the repository's unit test `/foo/${HOME}` with a symbolic absolute `$HOME` -/
theorem expand_foo_home (env : Env) (h : Str)
    (hh : env "HOME".toList = some h) (hr : isRooted h = true) :
    expand env "/foo/${HOME}".toList = .ok h := by
  have hc : components "/foo/${HOME}".toList
      = [.root, .normal "foo".toList, .normal "${HOME}".toList] := by decide
  have hh' : env ['H', 'O', 'M', 'E'] = some h := hh
  have h1 : expandSeg env ("foo".toList.length + 1) "foo".toList [] = .ok "foo".toList := rfl
  have h2 : expandSeg env ("${HOME}".toList.length + 1) "${HOME}".toList [] = .ok h := by
    simp [expandSeg, isVarChar, hh']
  rw [expand_eq, stage1_eq_tildeSpec, tildeSpec_none env (by decide)]
  simp only
  rw [if_pos (by decide), hc]
  simp only [expandComps, h1, h2]
  rw [push, if_pos hr]

end Rivia.Lemmas.Expand
