/-
  Rivia.Lemmas.MoveLinkRel — `move_p` preserves every per-entry predicate that
    * survives re-keying by `movedEntry` (path := new key, `rel` recomputed for links),
    * does not look at the child-name set (`removeChild` / `addChild` of the two parents).
  Instances: the link-consistency clause `rel = relative(target, dir(key))` (the monitor
  `moved_link_rel_stale` of `Spec.classOf`) and the whole `RefineA.EntriesOk`.

  The statement is about the state component of EVERY outcome (ok, error, hang): a failing Rust
  call keeps what it mutated before the failing `?`, and those intermediate states satisfy the
  predicate as well.  No invariant is assumed: the argument only uses list membership.
-/
import Rivia.Model.MemfsOps
import Rivia.Lemmas.MovedEntry
import Rivia.Lemmas.RefineA

namespace Rivia.Lemmas.MoveLinkRel
open Rivia Rivia.Memfs Rivia.Memfs.M Rivia.File

/-- all stored `(key, entry)` pairs satisfy `P` -/
def AllEnts (P : FsPath → Entry → Prop) (s : State) : Prop := ∀ kv ∈ s.entries, P kv.1 kv.2

/-- `m` keeps `I` in every outcome and an `Ok` result satisfies `Q` -/
def Tr {α} (I : State → Prop) (m : M α) (Q : α → Prop) : Prop :=
  ∀ s, I s → I (m s).2 ∧ ∀ a, (m s).1 = .ok a → Q a

theorem tr_bind {α β} {I : State → Prop} {m : M α} {f : α → M β} {Q : α → Prop} {R : β → Prop}
    (hm : Tr I m Q) (hf : ∀ a, Q a → Tr I (f a) R) : Tr I (m >>= f) R := by
  intro s hs
  obtain ⟨h1, h2⟩ := hm s hs
  show I (M.bind m f s).2 ∧ ∀ b, (M.bind m f s).1 = .ok b → R b
  unfold M.bind
  rcases hr : m s with ⟨o, s1⟩
  rw [hr] at h1 h2
  cases o with
  | ok a => exact hf a (h2 a rfl) s1 h1
  | err k => exact ⟨h1, fun b hb => by cases hb⟩
  | panic => exact ⟨h1, fun b hb => by cases hb⟩
  | hang => exact ⟨h1, fun b hb => by cases hb⟩

theorem tr_weaken {α} {I : State → Prop} {m : M α} {Q Q' : α → Prop} (h : Tr I m Q)
    (hq : ∀ a, Q a → Q' a) : Tr I m Q' :=
  fun s hs => ⟨(h s hs).1, fun a ha => hq a ((h s hs).2 a ha)⟩

theorem tr_pure {α} {I : State → Prop} (a : α) {Q : α → Prop} (h : Q a) : Tr I (Pure.pure a : M α) Q :=
  fun _ hs => ⟨hs, fun b hb => by cases hb; exact h⟩
theorem tr_mpure {α} {I : State → Prop} (a : α) {Q : α → Prop} (h : Q a) : Tr I (M.pure a : M α) Q :=
  fun _ hs => ⟨hs, fun b hb => by cases hb; exact h⟩
theorem tr_fail {α} {I : State → Prop} (k : ErrKind) {Q : α → Prop} : Tr I (M.fail k : M α) Q :=
  fun _ hs => ⟨hs, fun b hb => by cases hb⟩
theorem tr_hang {α} {I : State → Prop} {Q : α → Prop} : Tr I (M.hang : M α) Q :=
  fun _ hs => ⟨hs, fun b hb => by cases hb⟩
theorem tr_liftO {α} {I : State → Prop} (o : Outcome α) : Tr I (M.liftO o) (fun a => o = .ok a) :=
  fun _ hs => ⟨hs, fun _ hb => hb⟩
theorem tr_get {I : State → Prop} : Tr I M.get (fun _ => True) :=
  fun _ hs => ⟨hs, fun _ _ => trivial⟩
theorem tr_dirOf {I : State → Prop} (p : FsPath) : Tr I (dirOf p) (fun d => d = p.dropLast) := by
  unfold dirOf
  split
  · exact tr_fail _
  · exact tr_mpure _ rfl
theorem tr_absM {I : State → Prop} (env : Env) (p : Str) : Tr I (absM env p) (fun _ => True) := by
  intro s hs
  have : (absM env p s).2 = s := by unfold absM; split <;> rfl
  rw [this]
  exact ⟨hs, fun _ _ => trivial⟩
theorem tr_movedRelM {I : State → Prop} (e : Entry) (dst : FsPath) :
    Tr I (movedRelM e dst) (fun r => r = movedRel e dst ∧ MovedOk e dst) := by
  intro s hs
  rcases movedRelM_cases e dst s with h | ⟨_, _, h⟩
  · rw [h]
    refine ⟨hs, fun a ha => ?_⟩
    cases ha
    refine ⟨rfl, ?_⟩
    intro hl hd
    rw [movedRelM_fail hl hd] at h
    cases h
  · rw [h]; exact ⟨hs, fun a ha => by cases ha⟩

section ents
variable {P : FsPath → Entry → Prop}

theorem mem_of_lookup {β} {k : FsPath} {v : β} : ∀ {l : List (FsPath × β)}, alLookup k l = some v → (k, v) ∈ l
  | [], h => by cases h
  | (k', v') :: r, h => by
    simp only [alLookup] at h
    split at h
    · next hk => cases h; subst hk; exact List.mem_cons_self
    · exact List.mem_cons_of_mem _ (mem_of_lookup h)

theorem mem_erase {β} {k0 : FsPath} {kv : FsPath × β} : ∀ {l : List (FsPath × β)}, kv ∈ alErase k0 l → kv ∈ l
  | [], h => by cases h
  | (k', v') :: r, h => by
    simp only [alErase] at h
    split at h
    · exact List.mem_cons_of_mem _ h
    · rcases List.mem_cons.1 h with h | h
      · rw [h]; exact List.mem_cons_self
      · exact List.mem_cons_of_mem _ (mem_erase h)

theorem mem_insert {β} {k0 : FsPath} {v0 : β} {kv : FsPath × β} :
    ∀ {l : List (FsPath × β)}, kv ∈ alInsert k0 v0 l → kv = (k0, v0) ∨ kv ∈ l
  | [], h => by simp only [alInsert, List.mem_singleton] at h; exact .inl h
  | (k', v') :: r, h => by
    simp only [alInsert] at h
    split at h
    · rcases List.mem_cons.1 h with h | h
      · exact .inl h
      · exact .inr (List.mem_cons_of_mem _ h)
    · rcases List.mem_cons.1 h with h | h
      · rw [h]; exact .inr List.mem_cons_self
      · rcases mem_insert h with h | h
        · exact .inl h
        · exact .inr (List.mem_cons_of_mem _ h)

theorem tr_getEntry (p : FsPath) : Tr (AllEnts P) (getEntry p) (fun o => ∀ e, o = some e → P p e) := by
  intro s hs
  refine ⟨hs, fun a ha => ?_⟩
  cases ha
  intro e he
  exact hs (p, e) (mem_of_lookup he)

theorem tr_removeEntry (p : FsPath) :
    Tr (AllEnts P) (removeEntry p) (fun o => ∀ e, o = some e → P p e) := by
  intro s hs
  refine ⟨fun kv hkv => hs kv (mem_erase hkv), fun a ha => ?_⟩
  cases ha
  intro e he
  exact hs (p, e) (mem_of_lookup he)

theorem tr_setEntry {p : FsPath} {e : Entry} (h : P p e) : Tr (AllEnts P) (setEntry p e) (fun _ => True) := by
  intro s hs
  refine ⟨fun kv hkv => ?_, fun _ _ => trivial⟩
  rcases mem_insert hkv with h1 | h1
  · rw [h1]; exact h
  · exact hs kv h1

theorem tr_getFile (p : FsPath) : Tr (AllEnts P) (getFile p) (fun _ => True) :=
  fun _ hs => ⟨hs, fun _ _ => trivial⟩
theorem tr_setFile (p : FsPath) (b : Bytes) : Tr (AllEnts P) (setFile p b) (fun _ => True) :=
  fun _ hs => ⟨hs, fun _ _ => trivial⟩
theorem tr_removeFile (p : FsPath) : Tr (AllEnts P) (removeFile p) (fun _ => True) :=
  fun _ hs => ⟨hs, fun _ _ => trivial⟩

end ents

/-- what `move_p` needs of a per-entry predicate -/
structure MoveStable (P : FsPath → Entry → Prop) : Prop where
  moved : ∀ w e dst, P w e → MovedOk e dst → P dst (movedEntry e dst)
  rmChild : ∀ k e n e', P k e → e.removeChild n = .ok e' → P k e'
  addChild : ∀ k e n b e', P k e → e.addChild n = .ok (b, e') → P k e'

theorem moveLoop_tr {P : FsPath → Entry → Prop} (hP : MoveStable P) (sr dr : FsPath) (ci : Bool) :
    ∀ (f : Nat) (W : List FsPath), Tr (AllEnts P) (moveLoop sr dr ci f W) (fun _ => True) := by
  intro f
  induction f with
  | zero => intro W; rw [moveLoop]; exact tr_hang
  | succ f ih =>
    intro W
    cases W with
    | nil => rw [moveLoop]; exact tr_mpure _ trivial
    | cons w work =>
      rw [moveLoop_succ_cons]
      suffices hbody : ∀ pre : FsPath, Tr (AllEnts P) (do
          match (← removeEntry w) with
          | none => fail .doesNotExist
          | some srcEntry =>
            let rel ← movedRelM srcEntry (dstOf dr w pre)
            setEntry (dstOf dr w pre) { srcEntry with path := dstOf dr w pre, rel := rel }
            match (← removeFile w) with
            | some b => setFile (dstOf dr w pre) b
            | none => M.pure ()
            let sd ← dirOf w
            match (← getEntry sd) with
            | some oldParent =>
              let op' ← liftO (oldParent.removeChild (baseName w))
              setEntry sd op'
              let dd ← dirOf (dstOf dr w pre)
              match (← getEntry dd) with
              | some newParent =>
                let (_, np') ← liftO (newParent.addChild (baseName (dstOf dr w pre)))
                setEntry dd np'
              | none => fail .parentNotFound
            | none => M.pure ()
            let kids := match srcEntry.files with | some fs => fs.map (fun n => srcEntry.path ++ [n]) | none => []
            moveLoop sr dr ci f (kids.reverse ++ work)) (fun _ => True) by
        cases ci with
        | true =>
          simp only [if_true]
          exact tr_bind (tr_dirOf _) (fun pre _ => hbody pre)
        | false =>
          simp only [Bool.false_eq_true, if_false]
          exact tr_bind (tr_mpure (Q := fun _ => True) _ trivial) (fun pre _ => hbody pre)
      intro pre
      refine tr_bind (tr_removeEntry _) ?_
      intro o ho
      cases o with
      | none => exact tr_fail _
      | some e =>
        have hPe : P w e := ho e rfl
        dsimp only
        refine tr_bind (tr_movedRelM _ _) ?_
        rintro rel ⟨hrel, hok⟩
        subst hrel
        refine tr_bind (tr_setEntry (hP.moved w e _ hPe hok)) ?_
        intro _ _
        refine tr_bind (tr_removeFile _) ?_
        intro ob _
        -- the rest after the data move
        have hrest : Tr (AllEnts P) (do
            let sd ← dirOf w
            match (← getEntry sd) with
            | some oldParent =>
              let op' ← liftO (oldParent.removeChild (baseName w))
              setEntry sd op'
              let dd ← dirOf (dstOf dr w pre)
              match (← getEntry dd) with
              | some newParent =>
                let (_, np') ← liftO (newParent.addChild (baseName (dstOf dr w pre)))
                setEntry dd np'
              | none => fail .parentNotFound
            | none => M.pure ()
            let kids := match e.files with | some fs => fs.map (fun n => e.path ++ [n]) | none => []
            moveLoop sr dr ci f (kids.reverse ++ work)) (fun _ => True) := by
          refine tr_bind (tr_dirOf _) ?_
          intro sd _
          refine tr_bind (tr_getEntry _) ?_
          intro o2 ho2
          cases o2 with
          | none =>
            dsimp only
            refine tr_bind (tr_mpure (Q := fun _ => True) _ trivial) ?_
            intro _ _
            exact ih _
          | some op =>
            dsimp only
            refine tr_bind (tr_liftO _) ?_
            intro op' hop'
            refine tr_bind (tr_setEntry (hP.rmChild _ _ _ _ (ho2 op rfl) hop')) ?_
            intro _ _
            refine tr_bind (tr_dirOf _) ?_
            intro dd _
            refine tr_bind (tr_getEntry _) ?_
            intro o3 ho3
            cases o3 with
            | none =>
              dsimp only
              refine tr_bind (tr_fail (Q := fun _ => True) _) ?_
              intro _ _
              exact ih _
            | some np =>
              dsimp only
              refine tr_bind (tr_liftO _) ?_
              rintro ⟨b, np'⟩ hnp'
              dsimp only
              refine tr_bind (tr_setEntry (hP.addChild _ _ _ _ _ (ho3 np rfl) hnp')) ?_
              intro _ _
              exact ih _
        cases ob with
        | none =>
          dsimp only
          refine tr_bind (tr_mpure (Q := fun _ => True) _ trivial) ?_
          intro _ _
          exact hrest
        | some bts =>
          dsimp only
          refine tr_bind (tr_setFile _ _) ?_
          intro _ _
          exact hrest

/-! ### `moveM`: read-only validation, then the loop on the unchanged state -/

/-- `m` leaves `s` untouched -/
def RO {α} (m : M α) (s : State) : Prop := (m s).2 = s

/-- from `s`, `m` either leaves the state untouched or is a run of `moveLoop` from `s` -/
def Tail (m : M Unit) (s : State) : Prop :=
  (m s).2 = s ∨ ∃ sk dk ci f, m s = moveLoop sk dk ci f [sk] s

theorem tail_bind {α} {m : M α} {f : α → M Unit} {s : State} (hm : RO m s) (hf : ∀ a, Tail (f a) s) :
    Tail (m >>= f) s := by
  unfold RO at hm
  show Tail (M.bind m f) s
  unfold Tail M.bind
  rcases hr : m s with ⟨o, s1⟩
  rw [hr] at hm
  simp only at hm
  subst hm
  cases o with
  | ok a => exact hf a
  | err k => exact .inl rfl
  | panic => exact .inl rfl
  | hang => exact .inl rfl

theorem tail_ro {m : M Unit} {s : State} (h : RO m s) : Tail m s := .inl h
theorem tail_loop (sk dk : FsPath) (ci : Bool) (f : Nat) (s : State) : Tail (moveLoop sk dk ci f [sk]) s :=
  .inr ⟨sk, dk, ci, f, rfl⟩

theorem ro_pure {α} (a : α) (s : State) : RO (Pure.pure a : M α) s := rfl
theorem ro_mpure {α} (a : α) (s : State) : RO (M.pure a : M α) s := rfl
theorem ro_fail {α} (k : ErrKind) (s : State) : RO (M.fail k : M α) s := rfl
theorem ro_get (s : State) : RO M.get s := rfl
theorem ro_getEntry (p : FsPath) (s : State) : RO (getEntry p) s := rfl
theorem ro_dirOf (p : FsPath) (s : State) : RO (dirOf p) s := by
  unfold dirOf; split
  · exact ro_fail _ _
  · exact ro_mpure _ _
theorem ro_absM (env : Env) (p : Str) (s : State) : RO (absM env p) s := by
  unfold RO absM; split <;> rfl

syntax "tail_tac" : tactic
macro_rules
  | `(tactic| tail_tac) => `(tactic| repeat' (first
      | with_reducible exact tail_loop _ _ _ _ _
      | with_reducible exact tail_ro (ro_pure _ _)
      | with_reducible exact tail_ro (ro_mpure _ _)
      | with_reducible exact tail_ro (ro_fail _ _)
      | with_reducible refine tail_bind (ro_absM _ _ _) ?_
      | with_reducible refine tail_bind (ro_get _) ?_
      | with_reducible refine tail_bind (ro_getEntry _ _) ?_
      | with_reducible refine tail_bind (ro_dirOf _ _) ?_
      | with_reducible refine tail_bind (ro_mpure _ _) ?_
      | with_reducible refine tail_bind (ro_pure _ _) ?_
      | with_reducible refine tail_bind (ro_fail _ _) ?_
      | intro _
      | split
      | dsimp only))

theorem moveM_tail (env : Env) (src dst : Str) (s : State) : Tail (moveM env src dst) s := by
  unfold moveM
  tail_tac

/-- **`move_p` keeps every `MoveStable` per-entry predicate, whatever the outcome** -/
theorem moveM_allEnts {P : FsPath → Entry → Prop} (hP : MoveStable P) (env : Env) (a b : Str)
    (s : State) (h : AllEnts P s) : AllEnts P (moveM env a b s).2 := by
  rcases moveM_tail env a b s with h1 | ⟨sk, dk, ci, f, h1⟩
  · rw [h1]; exact h
  · rw [h1]; exact (moveLoop_tr hP sk dk ci f [sk] s h).1

theorem step_moveP_state (env : Env) (a b : Str) (s : State) :
    (step env s (.moveP a b)).2 = (moveM env a b s).2 := by
  simp only [step]
  unfold mapVal
  rcases moveM env a b s with ⟨o, s'⟩
  cases o <;> rfl

theorem step_moveP_allEnts {P : FsPath → Entry → Prop} (hP : MoveStable P) (env : Env) (a b : Str)
    (s : State) (h : AllEnts P s) : AllEnts P (step env s (.moveP a b)).2 := by
  rw [step_moveP_state]; exact moveM_allEnts hP env a b s h

/-! ### instances -/

/-- the link-consistency clause, in the form of the monitor `moved_link_rel_stale` of
    `Spec.classOf`: the stored relative target of a link is its target relative to the directory of
    its key -/
def LinkRelAt (k : FsPath) (e : Entry) : Prop :=
  e.link = true → e.rel = relative (renderP (e.alt.getD [])) (renderP k.dropLast)

instance (k : FsPath) (e : Entry) : Decidable (LinkRelAt k e) := by unfold LinkRelAt; infer_instance

theorem removeChild_fields {e e' : Entry} {n : Str} (h : e.removeChild n = .ok e') :
    e'.link = e.link ∧ e'.alt = e.alt ∧ e'.rel = e.rel ∧ e'.dir = e.dir ∧ e'.file = e.file ∧
    e'.mode = e.mode := by
  unfold Entry.removeChild at h
  split at h
  · cases h
  · split at h <;> (cases h; exact ⟨rfl, rfl, rfl, rfl, rfl, rfl⟩)

theorem addChild_fields {e e' : Entry} {n : Str} {b : Bool} (h : e.addChild n = .ok (b, e')) :
    e'.link = e.link ∧ e'.alt = e.alt ∧ e'.rel = e.rel ∧ e'.dir = e.dir ∧ e'.file = e.file ∧
    e'.mode = e.mode := by
  unfold Entry.addChild at h
  split at h
  · cases h
  · split at h <;> (cases h; exact ⟨rfl, rfl, rfl, rfl, rfl, rfl⟩)

/-- the moved entry satisfies the clause at its new key — whether or not it did at the old one -/
theorem linkRelAt_moved (e : Entry) (dst : FsPath) : LinkRelAt dst (movedEntry e dst) := by
  intro hl
  have hl' : e.link = true := hl
  show movedRel e dst = _
  unfold movedRel
  rw [if_pos hl']
  rfl

theorem moveStable_linkRel : MoveStable LinkRelAt where
  moved := fun _ e dst _ _ => linkRelAt_moved e dst
  rmChild := by
    intro k e n e' h hr hl
    obtain ⟨h1, h2, h3, _⟩ := removeChild_fields hr
    rw [h3, h2]; exact h (h1 ▸ hl)
  addChild := by
    intro k e n b e' h hr hl
    obtain ⟨h1, h2, h3, _⟩ := addChild_fields hr
    rw [h3, h2]; exact h (h1 ▸ hl)

/-- `RefineA.entryOkB` (flags, canonical mode, link clause with an existing target) -/
theorem moveStable_entryOk : MoveStable (fun k e => RefineA.entryOkB k e = true) where
  moved := by
    intro w e dst h _
    have hk : Spec.kindOf (movedEntry e dst) = Spec.kindOf e := rfl
    simp only [RefineA.entryOkB, Bool.and_eq_true, decide_eq_true_eq, Bool.or_eq_true,
      Bool.not_eq_true'] at h ⊢
    obtain ⟨⟨h1, h2⟩, h3⟩ := h
    refine ⟨⟨h1, by rw [hk]; exact h2⟩, ?_⟩
    cases hl : e.link with
    | false => exact .inl hl
    | true =>
      right
      rcases h3 with h3 | h3
      · rw [hl] at h3; cases h3
      · show (match e.alt with
          | some t => decide (movedRel e dst = relative (renderP t) (renderP dst.dropLast))
          | none => false) = true
        cases ha : e.alt with
        | none => rw [ha] at h3; cases h3
        | some t =>
          simp only [decide_eq_true_eq]
          unfold movedRel
          rw [if_pos hl, ha]; rfl
  rmChild := by
    intro k e n e' h hr
    obtain ⟨h1, h2, h3, h4, h5, h6⟩ := removeChild_fields hr
    have hk : Spec.kindOf e' = Spec.kindOf e := by unfold Spec.kindOf; rw [h1, h4]
    unfold RefineA.entryOkB at h ⊢
    rw [hk, h1, h2, h3, h4, h5, h6]; exact h
  addChild := by
    intro k e n b e' h hr
    obtain ⟨h1, h2, h3, h4, h5, h6⟩ := addChild_fields hr
    have hk : Spec.kindOf e' = Spec.kindOf e := by unfold Spec.kindOf; rw [h1, h4]
    unfold RefineA.entryOkB at h ⊢
    rw [hk, h1, h2, h3, h4, h5, h6]; exact h

/-! ### the state-level forms -/

/-- every link entry of the state carries the relative target that belongs to its key (the monitor
    `moved_link_rel_stale` of `Spec.classOf` can not fire on such a state, `classOf_readlink_silent`) -/
def LinkRelOk (s : State) : Prop := ∀ kv ∈ s.entries, LinkRelAt kv.1 kv.2

instance (s : State) : Decidable (LinkRelOk s) := by unfold LinkRelOk; infer_instance

theorem linkRelOk_lookup {s : State} (h : LinkRelOk s) {k : FsPath} {e : Entry}
    (hk : alLookup k s.entries = some e) : LinkRelAt k e := h (k, e) (mem_of_lookup hk)

theorem entriesOk_iff (s : State) :
    RefineA.EntriesOk s ↔ AllEnts (fun k e => RefineA.entryOkB k e = true) s := by
  unfold RefineA.EntriesOk AllEnts
  rw [List.all_eq_true]

/-- the link clause of `RefineA.EntriesOk` is `LinkRelOk` (plus: the target exists as a key value) -/
theorem linkRelOk_of_entriesOk {s : State} (h : RefineA.EntriesOk s) : LinkRelOk s := by
  intro kv hkv hl
  have h1 := (entriesOk_iff s).1 h kv hkv
  simp only [RefineA.entryOkB, Bool.and_eq_true, decide_eq_true_eq, Bool.or_eq_true,
    Bool.not_eq_true'] at h1
  rcases h1.2 with h3 | h3
  · rw [hl] at h3; cases h3
  · cases ha : kv.2.alt with
    | none => rw [ha] at h3; cases h3
    | some t => rw [ha] at h3; simpa using h3

theorem step_moveP_linkRelOk (env : Env) (a b : Str) (s : State) (h : LinkRelOk s) :
    LinkRelOk (step env s (.moveP a b)).2 :=
  step_moveP_allEnts moveStable_linkRel env a b s h

theorem step_moveP_entriesOk (env : Env) (a b : Str) (s : State) (h : RefineA.EntriesOk s) :
    RefineA.EntriesOk (step env s (.moveP a b)).2 :=
  (entriesOk_iff _).2 (step_moveP_allEnts moveStable_entryOk env a b s ((entriesOk_iff s).1 h))

/-- on a `LinkRelOk` state the consistency monitor of `classOf` is silent for every `readlink` -/
theorem classOf_readlink_silent {s : State} (h : LinkRelOk s) (env : Env) (p : Str) :
    Spec.classOf s env (.readlink p) = "-" := by
  have hdef : Spec.classOf s env (.readlink p) = (match Spec.entryAt s env p with
      | some (k, some e) =>
        if e.link && e.rel ≠ relative (renderP (e.alt.getD [])) (renderP k.dropLast) then "moved_link_rel_stale" else "-"
      | _ => "-") := rfl
  rw [hdef]
  split
  · next k e heq =>
    have he : alLookup k s.entries = some e := by
      unfold Spec.entryAt at heq
      split at heq
      · simp only [Option.some.injEq, Prod.mk.injEq] at heq
        obtain ⟨h1, h2⟩ := heq
        rw [← h1]; exact h2
      · cases heq
    have hr := linkRelOk_lookup h he
    cases hl : e.link with
    | false => simp
    | true => simp [hr hl]
  · rfl

end Rivia.Lemmas.MoveLinkRel
