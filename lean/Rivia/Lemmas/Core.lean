/-
  Rivia.Lemmas.Core — helper lemmas for C19 (core iterator / string / option helpers).
-/
import Rivia.Model.Core
import Rivia.Spec.Lists

namespace Rivia.Lemmas
open Rivia Rivia.Spec

/-! ### drop -/
theorem drop_eq_spec {α} (l : List α) (n : Int) : Core.drop l n = dropSpec l n := by
  unfold Core.drop dropSpec Core.nthFront Core.nthBack
  by_cases h1 : n > 0
  · have : n.toNat - 1 + 1 = n.toNat := by omega
    simp [h1, this]; omega
  · by_cases h2 : n < 0
    · have : n.natAbs - 1 + 1 = n.natAbs := by omega
      simp [h1, h2, this]; omega
    · have : n = 0 := by omega
      subst this; simp


/-! ### slice -/
theorem two63 : (2:Int)^63 = 9223372036854775808 := by decide
theorem two64 : (2:Int)^64 = 18446744073709551616 := by decide

theorem asUsize_of_nonneg (x : Int) (h0 : 0 ≤ x) (h1 : x < 2^64) : Core.asUsize x = x.toNat := by
  unfold Core.asUsize
  rw [Int.emod_eq_of_lt h0 h1]

/-- the front/back trimming of `slice` as one `take`/`drop` -/
theorem slice_trim {α} (l0 : List α) (l r : Nat) :
    (let it := if l > 0 then Core.nthFront l0 (l - 1) else l0
     if r > 0 then Core.nthBack it (r - 1) else it) = (l0.drop l).take (l0.length - l - r) := by
  have e1 : (if l > 0 then Core.nthFront l0 (l - 1) else l0) = l0.drop l := by
    unfold Core.nthFront
    by_cases h : l > 0
    · have : l - 1 + 1 = l := by omega
      simp [h, this]
    · have : l = 0 := by omega
      simp [this]
  simp only [e1]
  unfold Core.nthBack
  by_cases h : r > 0
  · have : r - 1 + 1 = r := by omega
    simp [h, this]
  · have : r = 0 := by omega
    subst this
    simp only [Nat.lt_irrefl, if_false, Nat.sub_zero]
    rw [List.take_of_length_le]
    simp

theorem take_spec_aux {α} (d : List α) (lo hi : Int) (n : Nat) (h0 : 0 ≤ lo)
    (h1 : lo ≤ hi → n = (hi - lo + 1).toNat) (h2 : ¬ lo ≤ hi → n = 0) :
    d.take n = if lo ≤ hi ∧ 0 ≤ lo then d.take (hi - lo + 1).toNat else [] := by
  by_cases h : lo ≤ hi
  · simp [h, h0, h1 h]
  · simp [h, h2 h]

theorem slice_eq_spec {α} (l : List α) (left right : Int)
    (hl : Core.isizeMin ≤ left ∧ left ≤ Core.isizeMax) (hr : Core.isizeMin ≤ right ∧ right ≤ Core.isizeMax)
    (hlen : (l.length : Int) ≤ Core.isizeMax) (hdom : -(l.length : Int) ≤ left) :
    Core.slice l left right = sliceSpec l left right := by
  unfold Core.isizeMin Core.isizeMax at *
  rw [two63] at *
  unfold Core.slice
  simp only []
  rw [slice_trim]
  unfold sliceSpec
  simp only []
  have hL : (if left < 0 then Core.asUsize (↑l.length + left) else Core.asUsize left)
      = (if left < 0 then (l.length : Int) + left else left).toNat := by
    split
    · apply asUsize_of_nonneg <;> (try rw [two64]) <;> omega
    · apply asUsize_of_nonneg <;> (try rw [two64]) <;> omega
  rw [hL]
  generalize hlo : (if left < 0 then (l.length : Int) + left else left) = lo
  have hlo0 : 0 ≤ lo := by subst hlo; split <;> omega
  apply take_spec_aux _ _ _ _ hlo0
  · intro h
    by_cases c1 : right < 0 <;> by_cases c2 : right < (l.length : Int) <;>
      by_cases c3 : right.natAbs ≤ l.length <;> simp only [c1, c2, c3, if_true, if_false, ge_iff_le, and_true, and_false] at h ⊢ <;> (try split) <;> omega
  · intro h
    by_cases c1 : right < 0 <;> by_cases c2 : right < (l.length : Int) <;>
      by_cases c3 : right.natAbs ≤ l.length <;> simp only [c1, c2, c3, if_true, if_false, ge_iff_le, and_true, and_false] at h ⊢ <;> (try split) <;> omega

/-! ### sliceSpec, first/last/single/some, has, take_while_p, trim_suffix -/
theorem sliceSpec_getElem {α} (l : List α) (left right : Int) (hdom : -(l.length : Int) ≤ left) (i : Nat) :
    (sliceSpec l left right)[i]? =
      (let len : Int := l.length
       let lo : Int := if left < 0 then len + left else left
       let hi : Int := if right < 0 then len + right else min right (len - 1)
       if lo + i ≤ hi then l[(lo + i).toNat]? else none) := by
  unfold sliceSpec
  simp only []
  generalize hlo : (if left < 0 then (l.length : Int) + left else left) = lo
  generalize (if right < 0 then (l.length : Int) + right else min right (↑l.length - 1)) = hi
  have hlo0 : 0 ≤ lo := by subst hlo; split <;> omega
  by_cases h : lo ≤ hi
  · simp only [h, hlo0, and_self, if_true, List.getElem?_take, List.getElem?_drop]
    by_cases h2 : lo + i ≤ hi
    · have : i < (hi - lo + 1).toNat := by omega
      have e : lo.toNat + i = (lo + i).toNat := by omega
      simp [h2, this, e]
    · have : ¬ i < (hi - lo + 1).toNat := by omega
      simp [h2, this]
  · have : ¬ lo + i ≤ hi := by omega
    simp [h, this]

theorem firstResult_eq {α} (l : List α) : Core.firstResult l = Outcome.ofOption .iterItemNotFound l.head? := by
  cases l <;> rfl

theorem lastResult_eq {α} (l : List α) : Core.lastResult l = Outcome.ofOption .iterItemNotFound l.getLast? := by
  unfold Core.lastResult
  cases l.getLast? <;> rfl

theorem single_eq {α} (l : List α) : Core.single l = singleSpec l := by
  match l with
  | [] => rfl
  | [a] => rfl
  | a :: b :: t => simp [Core.single, singleSpec]

theorem single_iff {α} (l : List α) (a : α) : Core.single l = .ok a ↔ l = [a] := by
  match l with
  | [] => simp [Core.single]
  | [b] => simp [Core.single]
  | b :: c :: t => simp [Core.single]

theorem hasSome_iff {α} (l : List α) : Core.hasSome l = true ↔ l ≠ [] := by
  cases l <;> simp [Core.hasSome]

theorem has_iff {α} [DecidableEq α] (o : Option α) (x : α) : Core.has o x = true ↔ o = some x := by
  cases o with
  | none => simp [Core.has]
  | some y => simp [Core.has, eq_comm]

theorem takeWhileP_eq {α} (p : α → Bool) (l : List α) :
    Core.takeWhileP p l = (l.takeWhile p, l.dropWhile p) := by
  induction l with
  | nil => rfl
  | cons a t ih =>
    unfold Core.takeWhileP
    by_cases h : p a <;> simp [h, ih, List.takeWhile, List.dropWhile]

theorem mem_takeWhile_true {α} (p : α → Bool) (l : List α) (x : α) (hx : x ∈ l.takeWhile p) :
    p x = true := by
  induction l with
  | nil => simp at hx
  | cons a t ih =>
    by_cases h : p a
    · simp only [List.takeWhile, h, List.mem_cons] at hx
      rcases hx with rfl | hx
      · exact h
      · exact ih hx
    · simp [List.takeWhile, h] at hx

theorem takeWhileP_longest {α} (p : α → Bool) (l : List α) :
    (l.takeWhile p ++ l.dropWhile p = l) ∧ (∀ x ∈ l.takeWhile p, p x = true) ∧
      (∀ x, (l.dropWhile p).head? = some x → p x = false) := by
  refine ⟨List.takeWhile_append_dropWhile, fun x hx => mem_takeWhile_true p l x hx, ?_⟩
  intro x hx
  induction l with
  | nil => simp at hx
  | cons a t ih =>
    by_cases h : p a
    · simp [List.dropWhile, h] at hx; exact ih hx
    · simp [List.dropWhile, h] at hx; subst hx; simpa using h

theorem trimSuffix_once (s suf : Str) :
    (suf <:+ s → Core.trimSuffix s suf ++ suf = s) ∧ (¬ suf <:+ s → Core.trimSuffix s suf = s) := by
  unfold Core.trimSuffix
  constructor
  · intro h
    simp only [List.isSuffixOf_iff_suffix.mpr h, if_true]
    obtain ⟨t, rfl⟩ := h
    simp
  · intro h
    have : suf.isSuffixOf s = false := by
      cases hh : suf.isSuffixOf s
      · rfl
      · exact absurd (List.isSuffixOf_iff_suffix.mp hh) h
    simp [this]

/-! ### to_bool -/
theorem ofNat_upper_ne_zero : ∀ k : Fin 26, Char.ofNat (65 + k.val + 32) ≠ '0' := by decide

theorem lowerChar_eq_zero (c : Char) : Str.lowerChar c = '0' ↔ c = '0' := by
  unfold Str.lowerChar
  split
  · rename_i h
    obtain ⟨h1, h2⟩ := h
    rw [UInt32.le_iff_toNat_le] at h1 h2
    have e1 : 'A'.val.toNat = 65 := by decide
    have e2 : 'Z'.val.toNat = 90 := by decide
    rw [e1] at h1; rw [e2] at h2
    have e3 : c.toNat = c.val.toNat := rfl
    constructor
    · intro h
      have := ofNat_upper_ne_zero ⟨c.toNat - 65, by omega⟩
      simp only [] at this
      have e : 65 + (c.toNat - 65) + 32 = c.toNat + 32 := by omega
      rw [e] at this
      exact absurd h this
    · intro h
      subst h
      revert h1
      decide
  · exact Iff.rfl

theorem map_lower_eq_zero (s : Str) : s.map Str.lowerChar = ['0'] ↔ s = ['0'] := by
  match s with
  | [] => simp
  | [c] => simp [lowerChar_eq_zero]
  | a :: b :: t => simp

theorem toBool_eq_spec (s : Str) : Core.toBool s = toBoolSpec s := by
  unfold Core.toBool toBoolSpec Str.lower
  simp only []
  congr 1
  rw [Bool.eq_iff_iff]
  have e0 : "0".toList = ['0'] := rfl
  simp only [Bool.or_eq_true, List.isEmpty_iff, List.map_eq_nil_iff, beq_iff_eq, decide_eq_true_eq, e0,
    map_lower_eq_zero]
  constructor
  · rintro ((h | h) | h) <;> simp [h]
  · rintro ((h | h) | h) <;> simp [h]

theorem toBool_false_iff (s : Str) :
    Core.toBool s = false ↔ (s = [] ∨ s = ['0'] ∨ s.map Str.lowerChar = "false".toList) := by
  rw [toBool_eq_spec]
  unfold toBoolSpec
  by_cases h1 : s = [] <;> by_cases h2 : s = ['0'] <;> simp [h1, h2]

end Rivia.Lemmas
