/-
  Rivia.Lemmas.InvBOps — C03 (group B): `remove`, `removeAll`, `symlink` preserve the invariant.
-/
import Rivia.Lemmas.InvBBase
import Rivia.Lemmas.InvBAbs
import Rivia.Model.MemfsOps
namespace Rivia.Lemmas.InvB
open Rivia Rivia.Memfs Rivia.File Rivia.Spec Rivia.Lemmas Rivia.Memfs.M

theorem baseName_snoc (k : FsPath) (n : Str) : baseName (k ++ [n]) = n := by
  simp [baseName]

theorem snoc_dropLast_baseName {k : FsPath} (h : k ≠ []) : k.dropLast ++ [baseName k] = k := by
  rcases eq_nil_or_snoc k with rfl | ⟨mid, t, rfl⟩
  · exact absurd rfl h
  · simp [baseName]

theorem dropLast_ne_self {k : FsPath} (h : k ≠ []) : k.dropLast ≠ k := by
  intro he
  have := congrArg List.length he
  simp at this
  cases k with
  | nil => exact h rfl
  | cons a r => simp at this

theorem snoc_ne_self (k : FsPath) (n : Str) : k ++ [n] ≠ k := by
  intro he
  have := congrArg List.length he
  simp at this

/-- the child-name filter applied by `Entry.removeChild` -/
def dropName (name : Str) (e : Entry) : Entry := { e with files := e.files.map (fun fs => fs.filter (· ≠ name)) }

theorem removeChild_eq (e : Entry) (name : Str) :
    e.removeChild name = if !e.dir then .err .isNotDir else .ok (dropName name e) := by
  unfold Entry.removeChild dropName
  split
  · rfl
  · split <;> rename_i h
    · simp [h]
    · cases e; simp_all

/-- detaching a leaf (or an absent path) from its parent and erasing its entry and data -/
theorem invL_removeLeaf {E E' : FsPath → Option Entry} {F F' : FsPath → Option Bytes} {p : FsPath}
    (h : InvL E F) (hp : p ≠ [])
    (hleaf : ∀ e, E p = some e → e.files = none ∨ e.files = some [])
    (hE : ∀ k, E' k = if k = p then none else if k = p.dropLast then (E k).map (dropName (baseName p)) else E k)
    (hF : ∀ k, F' k = if k = p then none else F k) : InvL E' F' := by
  have key : ∀ k e', E' k = some e' → k ≠ p ∧ ∃ e, E k = some e ∧ e'.path = e.path ∧ e'.dir = e.dir ∧
      e'.link = e.link ∧ e'.file = e.file ∧
      ((k ≠ p.dropLast ∧ e' = e) ∨ (k = p.dropLast ∧ e'.files = e.files.map (fun fs => fs.filter (· ≠ baseName p)))) := by
    intro k e' hk
    rw [hE] at hk
    by_cases h1 : k = p
    · simp [h1] at hk
    · refine ⟨h1, ?_⟩
      simp only [h1, if_false] at hk
      by_cases h2 : k = p.dropLast
      · simp only [h2, if_true] at hk
        cases he : E p.dropLast with
        | none => simp [he] at hk
        | some e =>
          simp only [he, Option.map_some, Option.some.injEq] at hk
          subst hk
          exact ⟨e, by rw [h2, he], rfl, rfl, rfl, rfl, Or.inr ⟨h2, rfl⟩⟩
      · simp only [h2, if_false] at hk
        exact ⟨e', hk, rfl, rfl, rfl, rfl, Or.inl ⟨h2, rfl⟩⟩
  have some' : ∀ k, k ≠ p → (E k).isSome = true → (E' k).isSome = true := by
    intro k h1 h2
    rw [hE]
    simp only [h1, if_false]
    split
    · cases hx : E k <;> simp [hx] at h2 ⊢
    · exact h2
  have nochild : ∀ k e, E k = some e → k ≠ [] → k.dropLast ≠ p := by
    intro k e hk hne hd
    obtain ⟨pe, fs, h1, _, _, h4, h5⟩ := h.parent k e hk hne
    rw [hd] at h1
    rcases hleaf pe h1 with h6 | h6
    · rw [h6] at h4; cases h4
    · rw [h6] at h4; cases h4; simp at h5
  constructor
  · obtain ⟨e, he, hd, hl⟩ := h.root
    have : (E' []).isSome = true := some' [] (fun hh => hp hh.symm) (by simp [he])
    cases hx : E' [] with
    | none => simp [hx] at this
    | some e' =>
      obtain ⟨_, e0, h0, _, h2, h3, _⟩ := key [] e' hx
      rw [he] at h0; cases h0
      exact ⟨e', rfl, by rw [h2, hd], by rw [h3, hl]⟩
  · intro k e' hk hne
    obtain ⟨hkp, e, he, -, -, -, -, -⟩ := key k e' hk
    obtain ⟨pe, fs, h1, h2, h3, h4, h5⟩ := h.parent k e he hne
    have hdp : k.dropLast ≠ p := nochild k e he hne
    by_cases hd : k.dropLast = p.dropLast
    · refine ⟨dropName (baseName p) pe, fs.filter (· ≠ baseName p), ?_, h2, h3, by simp [dropName, h4], ?_⟩
      · rw [hE, if_neg hdp, if_pos hd, h1]; rfl
      · simp only [ne_eq, decide_not, List.mem_filter, h5, Bool.not_eq_eq_eq_not, Bool.not_true,
          decide_eq_false_iff_not, true_and]
        intro hb
        apply hkp
        rw [← snoc_dropLast_baseName hne, ← snoc_dropLast_baseName hp, hd, hb]
    · refine ⟨pe, fs, ?_, h2, h3, h4, h5⟩
      rw [hE, if_neg hdp, if_neg hd, h1]
  · intro k e' fs' n hk hf hn
    obtain ⟨hkp, e, he, -, -, -, -, hcase⟩ := key k e' hk
    have hne : k ++ [n] ≠ p := by
      intro hh
      rcases hcase with ⟨h1, h2⟩ | ⟨h1, h2⟩
      · apply h1; rw [← hh]; simp
      · rw [hf] at h2
        cases hfe : e.files with
        | none => simp [hfe] at h2
        | some fs =>
          simp only [hfe, Option.map_some, Option.some.injEq] at h2
          subst h2
          simp only [ne_eq, decide_not, List.mem_filter, Bool.not_eq_eq_eq_not, Bool.not_true,
            decide_eq_false_iff_not] at hn
          apply hn.2
          rw [← hh, baseName_snoc]
    apply some' _ hne
    rcases hcase with ⟨h1, h2⟩ | ⟨h1, h2⟩
    · subst h2; exact h.kids k e' fs' n he hf hn
    · rw [hf] at h2
      cases hfe : e.files with
      | none => simp [hfe] at h2
      | some fs =>
        simp only [hfe, Option.map_some, Option.some.injEq] at h2
        subst h2
        exact h.kids k e fs n he hfe (List.mem_filter.1 hn).1
  · intro k e' hk
    obtain ⟨hkp, e, he, -, -, h3, h4, -⟩ := key k e' hk
    rw [hF]; simp only [hkp, if_false, h3, h4]
    exact h.data k e he
  · intro k hk
    rw [hF] at hk
    by_cases hkp : k = p
    · simp [hkp] at hk
    · simp only [hkp, if_false] at hk
      exact some' k hkp (h.dangling k hk)
  · intro k e' hk
    obtain ⟨hkp, e, he, h1, -⟩ := key k e' hk
    rw [h1]; exact h.path k e he
  · intro k e' hk
    obtain ⟨hkp, e, he, -, h2, -, -, hcase⟩ := key k e' hk
    rw [h2, ← h.dirflag k e he]
    rcases hcase with ⟨_, h2⟩ | ⟨_, h2⟩
    · rw [h2]
    · rw [h2]; cases e.files <;> simp
  · intro k e' fs' hk hf
    obtain ⟨hkp, e, he, -, -, -, -, hcase⟩ := key k e' hk
    rcases hcase with ⟨_, h2⟩ | ⟨_, h2⟩
    · subst h2; exact h.nodupKids k e' fs' he hf
    · rw [hf] at h2
      cases hfe : e.files with
      | none => simp [hfe] at h2
      | some fs =>
        simp only [hfe, Option.map_some, Option.some.injEq] at h2
        subst h2
        exact (h.nodupKids k e fs he hfe).filter _



theorem extL_removeLeaf {E E' : FsPath → Option Entry} {p : FsPath} (hx : ExtL E)
    (hE : ∀ k, E' k = if k = p then none else if k = p.dropLast then (E k).map (dropName (baseName p)) else E k) :
    ExtL E' := by
  constructor
  · intro k e' hk
    rw [hE] at hk
    split at hk
    · cases hk
    · split at hk
      · cases he : E k with
        | none => simp [he] at hk
        | some e => exact hx.keysWf k e he
      · exact hx.keysWf k e' hk
  · intro k e' fs' hk hf
    rw [hE] at hk
    split at hk
    · cases hk
    · split at hk
      · cases he : E k with
        | none => simp [he] at hk
        | some e =>
          simp only [he, Option.map_some, Option.some.injEq] at hk
          subst hk
          cases hfe : e.files with
          | none => simp [dropName, hfe] at hf
          | some fs =>
            simp only [dropName, hfe, Option.map_some, Option.some.injEq] at hf
            subst hf
            exact (hx.sorted k e fs he hfe).filter _
      · exact hx.sorted k e' fs' hk hf
  · intro k e' hk
    rw [hE] at hk
    split at hk
    · cases hk
    · split at hk
      · cases he : E k with
        | none => simp [he] at hk
        | some e =>
          simp only [he, Option.map_some, Option.some.injEq] at hk
          subst hk
          exact hx.flags k e he
      · exact hx.flags k e' hk

/-! ### running the monad -/

theorem bind_apply {α β} (m : M α) (f : α → M β) (s : State) :
    (m >>= f) s = match m s with
      | (.ok a, s') => f a s'
      | (.err k, s') => (.err k, s')
      | (.panic, s') => (.panic, s')
      | (.hang, s') => (.hang, s') := rfl

theorem pure_apply {α} (a : α) (s : State) : (Pure.pure a : M α) s = (.ok a, s) := rfl
theorem mpure_apply {α} (a : α) (s : State) : (M.pure a : M α) s = (.ok a, s) := rfl
theorem fail_apply {α} (k : ErrKind) (s : State) : (M.fail k : M α) s = (.err k, s) := rfl
theorem liftO_apply {α} (o : Outcome α) (s : State) : (M.liftO o : M α) s = (o, s) := rfl
theorem getEntry_apply (p : FsPath) (s : State) : getEntry p s = (.ok (alLookup p s.entries), s) := rfl
theorem getFile_apply (p : FsPath) (s : State) : getFile p s = (.ok (alLookup p s.files), s) := rfl
theorem setEntry_apply (p : FsPath) (e : Entry) (s : State) :
    setEntry p e s = (.ok (), { s with entries := alInsert p e s.entries }) := rfl
theorem setFile_apply (p : FsPath) (b : Bytes) (s : State) :
    setFile p b s = (.ok (), { s with files := alInsert p b s.files }) := rfl
theorem removeEntry_apply (p : FsPath) (s : State) :
    removeEntry p s = (.ok (alLookup p s.entries), { s with entries := alErase p s.entries }) := rfl
theorem removeFile_apply (p : FsPath) (s : State) :
    removeFile p s = (.ok (alLookup p s.files), { s with files := alErase p s.files }) := rfl
theorem get_apply (s : State) : M.get s = (.ok s, s) := rfl
theorem dirOf_apply (p : FsPath) (s : State) :
    dirOf p s = if p = [] then (.err .parentNotFound, s) else (.ok p.dropLast, s) := by
  unfold dirOf; split <;> rfl

theorem absM_apply (env : Env) (str : Str) (s : State) : ∃ o, absM env str s = (o, s) := by
  unfold absM; split <;> exact ⟨_, rfl⟩

theorem mapVal_snd {α} (f : α → Val) (m : M α) (s : State) : (mapVal f m s).2 = (m s).2 := by
  unfold mapVal; split <;> simp_all

theorem mapVal_hang {α} (f : α → Val) (m : M α) (s : State) : (mapVal f m s).1 = .hang ↔ (m s).1 = .hang := by
  unfold mapVal; split <;> simp_all

/-- state-level version of `invL_removeLeaf` / `extL_removeLeaf` -/
theorem good_removeLeaf {b : Prop} {s s' : State} {p : FsPath} (h : Good b s) (hp : p ≠ [])
    (hleaf : ∀ e, EL s p = some e → e.files = none ∨ e.files = some [])
    (hnd : (keys s'.entries).Nodup) (hnf : (keys s'.files).Nodup) (hr : s'.root = s.root) (hc : s'.cwd = s.cwd)
    (hE : ∀ k, EL s' k = if k = p then none else if k = p.dropLast then (EL s k).map (dropName (baseName p)) else EL s k)
    (hF : ∀ k, FL s' k = if k = p then none else FL s k) : Good b s' :=
  ⟨⟨hnd, hnf, hr.trans h.1.2.2.1, invL_removeLeaf h.1.2.2.2 hp hleaf hE hF⟩,
   fun hb => ⟨extL_removeLeaf (h.2 hb).1 hE, hc ▸ (h.2 hb).2⟩⟩

def removeTail (p : FsPath) : M Unit := do
  let d ← dirOf p
  match (← getEntry d) with
  | some pe =>
    let pe' ← liftO (pe.removeChild (baseName p))
    setEntry d pe'
  | none => M.pure ()
  match (← getEntry p) with
  | some e => if e.file then do let _ ← removeFile p
  | none => M.pure ()
  let _ ← removeEntry p
  return ()


theorem remove_leaf_state {b : Prop} {s : State} {p : FsPath} (h : Good b s) (hp : p ≠ [])
    (hleaf : ∀ e, EL s p = some e → e.files = none ∨ e.files = some [])
    (ents' : List (FsPath × Entry)) (files' : List (FsPath × Bytes))
    (hents : (ents' = s.entries ∧ EL s p.dropLast = none) ∨
      ∃ pe, EL s p.dropLast = some pe ∧ ents' = alInsert p.dropLast (dropName (baseName p) pe) s.entries)
    (hfiles : files' = alErase p s.files ∨ (files' = s.files ∧ FL s p = none)) :
    Good b { s with entries := alErase p ents', files := files' } := by
  have hnd := h.1.1
  have hnf := h.1.2.1
  have hnd' : (keys ents').Nodup := by
    rcases hents with ⟨h1, _⟩ | ⟨pe, _, h1⟩ <;> rw [h1]
    · exact hnd
    · exact nodup_keys_alInsert _ _ hnd
  refine good_removeLeaf h hp hleaf (nodup_keys_alErase _ hnd') ?_ rfl rfl ?_ ?_
  · rcases hfiles with h1 | ⟨h1, _⟩ <;> simp only [h1]
    · exact nodup_keys_alErase _ hnf
    · exact hnf
  · intro k
    show alLookup k (alErase p ents') = _
    rw [alLookup_alErase _ _ hnd']
    by_cases hk : k = p
    · simp [hk]
    · have : ¬ p = k := fun hh => hk hh.symm
      simp only [this, hk, if_false]
      rcases hents with ⟨h1, h2⟩ | ⟨pe, h2, h1⟩ <;> rw [h1]
      · by_cases hd : k = p.dropLast
        · rw [if_pos hd, hd]; unfold EL at h2 ⊢; rw [h2]; rfl
        · rw [if_neg hd]; rfl
      · rw [alLookup_alInsert]
        by_cases hd : k = p.dropLast
        · rw [if_pos hd.symm, if_pos hd, hd, h2]; rfl
        · rw [if_neg (fun hh => hd hh.symm), if_neg hd]; rfl
  · intro k
    show alLookup k files' = _
    rcases hfiles with h1 | ⟨h1, h2⟩ <;> rw [h1]
    · rw [alLookup_alErase _ _ hnf]
      by_cases hk : k = p
      · simp [hk]
      · have : ¬ p = k := fun hh => hk hh.symm
        simp only [this, hk, if_false]; rfl
    · by_cases hk : k = p
      · simp only [hk, if_true]; exact h2
      · simp only [hk, if_false]; rfl

theorem good_removeTail {b : Prop} (p : FsPath) (s : State) (h : Good b s)
    (hleaf : ∀ e, EL s p = some e → e.files = none ∨ e.files = some []) : Good b (removeTail p s).2 := by
  unfold removeTail
  simp only [bind_apply, dirOf_apply]
  by_cases hp : p = []
  · simp only [hp, if_true]; exact h
  · simp only [hp, if_false, getEntry_apply]
    have hdne : ¬ p.dropLast = p := dropLast_ne_self hp
    cases hd : alLookup p.dropLast s.entries with
    | none =>
      have hpn : alLookup p s.entries = none := by
        cases hx : alLookup p s.entries with
        | none => rfl
        | some e =>
          obtain ⟨pe, _, h1, _⟩ := h.1.2.2.2.parent p e hx hp
          unfold EL at h1; rw [hd] at h1; cases h1
      simp only [mpure_apply, bind_apply, getEntry_apply, hpn, removeEntry_apply, pure_apply]
      exact remove_leaf_state h hp hleaf _ _ (Or.inl ⟨rfl, hd⟩)
        (Or.inr ⟨rfl, by
          cases hx : FL s p with
          | none => rfl
          | some b =>
            have := h.1.2.2.2.dangling p (by simp [hx])
            unfold EL at this; simp [hpn] at this⟩)
    | some pe =>
      simp only [bind_apply, liftO_apply, removeChild_eq]
      by_cases hdir : pe.dir = true
      · simp only [hdir, Bool.not_true, Bool.false_eq_true, if_false, setEntry_apply, getEntry_apply,
          alLookup_alInsert, hdne]
        cases hx : alLookup p s.entries with
        | none =>
          simp only [mpure_apply, bind_apply, removeEntry_apply, pure_apply]
          exact remove_leaf_state h hp hleaf _ _ (Or.inr ⟨pe, hd, rfl⟩)
            (Or.inr ⟨rfl, by
              cases hy : FL s p with
              | none => rfl
              | some b =>
                have := h.1.2.2.2.dangling p (by simp [hy])
                unfold EL at this; simp [hx] at this⟩)
        | some e =>
          by_cases hf : e.file = true
          · simp only [hf, if_true, bind_apply, removeFile_apply, removeEntry_apply, pure_apply]
            exact remove_leaf_state h hp hleaf _ _ (Or.inr ⟨pe, hd, rfl⟩) (Or.inl rfl)
          · simp only [hf]
            exact remove_leaf_state h hp hleaf _ _ (Or.inr ⟨pe, hd, rfl⟩)
              (Or.inr ⟨rfl, by
                cases hy : FL s p with
                | none => rfl
                | some b =>
                  have := (h.1.2.2.2.data p e hx).2 (by simp [hy])
                  exact absurd this.1 hf⟩)
      · simp only [hdir, Bool.not_false, if_true]
        exact h

theorem good_removeM {b : Prop} (env : Env) (path : Str) (s : State) (h : Good b s) : Good b (removeM env path s).2 := by
  unfold removeM
  obtain ⟨o, ho⟩ := absM_apply env path s
  simp only [bind_apply, ho]
  cases o with
  | err k => exact h
  | panic => exact h
  | hang => exact h
  | ok p =>
    simp only [getEntry_apply]
    cases hx : alLookup p s.entries with
    | none =>
      simp only [bind_apply, mpure_apply, getEntry_apply, hx, Option.isNone_none, if_true]
      exact h
    | some e =>
      dsimp only
      cases hf : e.files with
      | none =>
        simp only [bind_apply, mpure_apply, getEntry_apply, hx, Option.isNone_some, Bool.false_eq_true, if_false]
        exact good_removeTail p s h (by intro e' he; unfold EL at he; rw [hx] at he; cases he; exact Or.inl hf)
      | some fs =>
        cases fs with
        | nil =>
          simp only [List.isEmpty_nil, Bool.not_true, Bool.false_eq_true, if_false, bind_apply, mpure_apply,
            getEntry_apply, hx, Option.isNone_some]
          exact good_removeTail p s h (by intro e' he; unfold EL at he; rw [hx] at he; cases he; exact Or.inr hf)
        | cons n ns =>
          simp only [List.isEmpty_cons, Bool.not_false, if_true, bind_apply, fail_apply]
          exact h


theorem good_removeAllLoop {b : Prop} (f : Nat) : ∀ (W : List FsPath) (s : State), Good b s → Good b (removeAllLoop f W s).2 := by
  induction f with
  | zero => intro W s h; exact h
  | succ f ih =>
    intro W s h
    cases W with
    | nil => exact h
    | cons p work =>
      rw [removeAllLoop]
      simp only [bind_apply, getEntry_apply]
      cases hx : alLookup p s.entries with
      | none => exact ih _ _ h
      | some e =>
        dsimp only
        have hleaf_case : (e.files = none ∨ e.files = some []) →
            Good b ((do
              let d ← dirOf p
              match (← getEntry d) with
              | some pe =>
                let pe' ← liftO (pe.removeChild (baseName p))
                setEntry d pe'
              | none => M.pure ()
              let _ ← removeFile p
              let _ ← removeEntry p
              removeAllLoop f work : M Unit) s).2 := by
          intro hl
          simp only [bind_apply, dirOf_apply]
          by_cases hp : p = []
          · simp only [hp, if_true]; exact h
          · simp only [hp, if_false, getEntry_apply]
            obtain ⟨pe, fs, h1, h2, h3, h4, h5⟩ := h.1.2.2.2.parent p e hx hp
            have h1' : alLookup p.dropLast s.entries = some pe := h1
            simp only [h1', bind_apply, liftO_apply, removeChild_eq, h2, Bool.not_true, Bool.false_eq_true,
              if_false, setEntry_apply, removeFile_apply, removeEntry_apply]
            apply ih
            exact remove_leaf_state h hp (by intro e' he; unfold EL at he; rw [hx] at he; cases he; exact hl)
              _ _ (Or.inr ⟨pe, h1, rfl⟩) (Or.inl rfl)
        cases hf : e.files with
        | none => exact hleaf_case (Or.inl hf)
        | some fs =>
          cases fs with
          | nil => exact hleaf_case (Or.inr hf)
          | cons n ns => exact ih _ _ h

theorem good_removeAllM {b : Prop} (env : Env) (path : Str) (s : State) (h : Good b s) : Good b (removeAllM env path s).2 := by
  unfold removeAllM
  obtain ⟨o, ho⟩ := absM_apply env path s
  simp only [bind_apply, ho]
  cases o with
  | err k => exact h
  | panic => exact h
  | hang => exact h
  | ok p =>
    simp only [get_apply]
    exact good_removeAllLoop _ _ _ h


/-! ### `insertName`, `add`, `symlink` -/

theorem insertName_cons_snd (n a : Str) (r : List Str) :
    (insertName n (a :: r)).2 =
      if n = a then a :: r else if strLt n a = true then n :: a :: r else a :: (insertName n r).2 := by
  rw [insertName]
  split
  · rfl
  · split <;> rfl

theorem mem_insertName (x n : Str) (l : List Str) : x ∈ (insertName n l).2 ↔ x = n ∨ x ∈ l := by
  induction l with
  | nil => simp [insertName]
  | cons a r ih =>
    rw [insertName_cons_snd]
    by_cases h1 : n = a
    · subst h1; simp
    · rw [if_neg h1]
      by_cases h2 : strLt n a = true
      · rw [if_pos h2]; simp
      · rw [if_neg h2]
        simp only [List.mem_cons, ih]
        constructor
        · rintro (h | h | h) <;> simp [h]
        · rintro (h | h | h) <;> simp [h]

theorem nodup_insertName_of_not_mem (n : Str) {l : List Str} (hn : n ∉ l) (h : l.Nodup) :
    (insertName n l).2.Nodup := by
  induction l with
  | nil => simp [insertName]
  | cons a r ih =>
    rw [insertName_cons_snd]
    simp only [List.mem_cons, not_or] at hn
    rw [if_neg hn.1]
    by_cases h2 : strLt n a = true
    · rw [if_pos h2]
      exact List.nodup_cons.2 ⟨by simp [hn.1, hn.2], h⟩
    · rw [if_neg h2]
      simp only [List.nodup_cons] at h ⊢
      refine ⟨?_, ih hn.2 h.2⟩
      rw [mem_insertName]
      rintro (hh | hh)
      · exact hn.1 hh.symm
      · exact h.1 hh

theorem strLt_trans : ∀ (a b c : Str), strLt a b = true → strLt b c = true → strLt a c = true
  | [], [], _, h, _ => by simp [strLt] at h
  | [], _ :: _, [], _, h => by simp [strLt] at h
  | [], _ :: _, _ :: _, _, _ => by simp [strLt]
  | _ :: _, [], _, h, _ => by simp [strLt] at h
  | _ :: _, _ :: _, [], _, h => by simp [strLt] at h
  | x :: xs, y :: ys, z :: zs, h1, h2 => by
    have ih := strLt_trans xs ys zs
    simp only [strLt] at h1 h2 ⊢
    simp only [UInt32.lt_iff_toNat_lt, gt_iff_lt] at h1 h2 ⊢
    split at h1
    · split at h2
      · rw [if_pos (by omega)]
      · split at h2
        · cases h2
        · rw [if_pos (by omega)]
    · split at h1
      · cases h1
      · split at h2
        · rw [if_pos (by omega)]
        · split at h2
          · cases h2
          · rw [if_neg (by omega), if_neg (by omega)]; exact ih h1 h2

theorem strLt_irrefl : ∀ a : Str, strLt a a = false
  | [] => rfl
  | x :: xs => by
    simp only [strLt, gt_iff_lt, UInt32.lt_irrefl, if_false]
    exact strLt_irrefl xs

theorem insertName_of_mem_sorted {n : Str} {l : List Str} (hs : l.Pairwise nameLE) (hn : n ∈ l) :
    (insertName n l).2 = l := by
  induction l with
  | nil => simp at hn
  | cons a r ih =>
    rw [insertName_cons_snd]
    by_cases h1 : n = a
    · rw [if_pos h1]
    · rw [if_neg h1]
      simp only [List.pairwise_cons] at hs
      have hr : n ∈ r := by simpa [h1] using hn
      have : strLt n a = false := hs.1 n hr
      rw [if_neg (by simp [this]), ih hs.2 hr]

theorem pairwise_insertName (n : Str) {l : List Str} (hs : l.Pairwise nameLE) :
    (insertName n l).2.Pairwise nameLE := by
  induction l with
  | nil => simp [insertName]
  | cons a r ih =>
    rw [insertName_cons_snd]
    simp only [List.pairwise_cons] at hs
    by_cases h1 : n = a
    · rw [if_pos h1]; exact List.pairwise_cons.2 hs
    · rw [if_neg h1]
      by_cases h2 : strLt n a = true
      · rw [if_pos h2]
        refine List.pairwise_cons.2 ⟨?_, List.pairwise_cons.2 hs⟩
        intro y hy
        unfold nameLE
        cases hc : strLt y n with
        | false => rfl
        | true =>
          have h3 := strLt_trans y n a hc h2
          rcases List.mem_cons.1 hy with rfl | hy
          · rw [strLt_irrefl] at h3; cases h3
          · have := hs.1 y hy; unfold nameLE at this; rw [this] at h3; cases h3
      · rw [if_neg h2]
        refine List.pairwise_cons.2 ⟨?_, ih hs.2⟩
        intro y hy
        rcases (mem_insertName _ _ _).1 hy with rfl | hy
        · unfold nameLE; simpa using h2
        · exact hs.1 y hy


/-- attaching a fresh leaf `e` at `p` under the real directory `pe` (what `add` does) -/
theorem invL_addLeaf {E E' : FsPath → Option Entry} {F F' : FsPath → Option Bytes} {p : FsPath} {e pe : Entry}
    {fs fs' : List Str}
    (h : InvL E F) (hp : p ≠ []) (hnew : E p = none)
    (hpe : E p.dropLast = some pe) (hdir : pe.dir = true) (hlink : pe.link = false) (hfs : pe.files = some fs)
    (hmem : ∀ x, x ∈ fs' ↔ x = baseName p ∨ x ∈ fs) (hnd : fs'.Nodup)
    (hpath : e.path = p) (hfl : e.files = if e.dir = true then some [] else none)
    (hE : ∀ k, E' k = if k = p.dropLast then some { pe with files := some fs' } else if k = p then some e else E k)
    (hF : ∀ k, F' k = if k = p ∧ e.file = true ∧ e.link = false then some [] else F k) : InvL E' F' := by
  have hdne : p.dropLast ≠ p := dropLast_ne_self hp
  have hFp : F p = none := by
    cases hx : F p with
    | none => rfl
    | some b => have := h.dangling p (by simp [hx]); simp [hnew] at this
  have key : ∀ k e', E' k = some e' →
      (k = p.dropLast ∧ e' = { pe with files := some fs' }) ∨ (k = p ∧ e' = e) ∨
      (k ≠ p.dropLast ∧ k ≠ p ∧ E k = some e') := by
    intro k e' hk
    rw [hE] at hk
    by_cases h1 : k = p.dropLast
    · rw [if_pos h1] at hk; cases hk; exact Or.inl ⟨h1, rfl⟩
    · rw [if_neg h1] at hk
      by_cases h2 : k = p
      · rw [if_pos h2] at hk; cases hk; exact Or.inr (Or.inl ⟨h2, rfl⟩)
      · rw [if_neg h2] at hk; exact Or.inr (Or.inr ⟨h1, h2, hk⟩)
  have some' : ∀ k, (E k).isSome = true → (E' k).isSome = true := by
    intro k hk
    rw [hE]
    split
    · rfl
    · split
      · rfl
      · exact hk
  have hEp : E' p = some e := by rw [hE, if_neg (fun hh => hdne hh.symm), if_pos rfl]
  have hEd : E' p.dropLast = some { pe with files := some fs' } := by rw [hE, if_pos rfl]
  constructor
  · obtain ⟨e0, he0, hd0, hl0⟩ := h.root
    by_cases h1 : [] = p.dropLast
    · rw [h1, hEd]; exact ⟨_, rfl, hdir, hlink⟩
    · rw [hE, if_neg h1, if_neg (fun hh => hp hh.symm)]; exact ⟨e0, he0, hd0, hl0⟩
  · intro k e' hk hne
    rcases key k e' hk with ⟨h1, h2⟩ | ⟨h1, h2⟩ | ⟨h1, h2, h3⟩
    · -- the parent itself: its own parent is untouched
      obtain ⟨q, qs, g1, g2, g3, g4, g5⟩ := h.parent k pe (h1 ▸ hpe) hne
      refine ⟨q, qs, ?_, g2, g3, g4, g5⟩
      rw [hE, if_neg, if_neg, g1]
      · intro hh; rw [hh] at g1; rw [hnew] at g1; cases g1
      · intro hh
        have : k.dropLast = k := by rw [hh, ← h1]
        exact dropLast_ne_self hne this
    · subst h1
      exact ⟨{ pe with files := some fs' }, fs', hEd, hdir, hlink, rfl, (hmem _).2 (Or.inl rfl)⟩
    · obtain ⟨q, qs, g1, g2, g3, g4, g5⟩ := h.parent k e' h3 hne
      by_cases hd : k.dropLast = p.dropLast
      · rw [hd, hpe] at g1; cases g1
        rw [hfs] at g4; cases g4
        exact ⟨{ pe with files := some fs' }, fs', hd ▸ hEd, hdir, hlink, rfl, (hmem _).2 (Or.inr g5)⟩
      · refine ⟨q, qs, ?_, g2, g3, g4, g5⟩
        rw [hE, if_neg hd, if_neg, g1]
        intro hh; rw [hh, hnew] at g1; cases g1
  · intro k e' fs0 n hk hf hn
    rcases key k e' hk with ⟨h1, h2⟩ | ⟨h1, h2⟩ | ⟨h1, h2, h3⟩
    · subst h2
      simp only [Option.some.injEq] at hf
      subst hf
      rcases (hmem n).1 hn with rfl | hn'
      · rw [h1, snoc_dropLast_baseName hp, hEp]; rfl
      · exact some' _ (h.kids k pe fs n (h1 ▸ hpe) hfs hn')
    · subst h2
      rw [hfl] at hf
      split at hf
      · cases hf; simp at hn
      · cases hf
    · exact some' _ (h.kids k e' fs0 n h3 hf hn)
  · intro k e' hk
    rcases key k e' hk with ⟨h1, h2⟩ | ⟨h1, h2⟩ | ⟨h1, h2, h3⟩
    · subst h2
      rw [hF, if_neg (by rw [h1]; intro hh; exact hdne hh.1)]
      exact h.data k pe (h1 ▸ hpe)
    · subst h2; subst h1
      rw [hF]
      by_cases hc : e'.file = true ∧ e'.link = false
      · rw [if_pos ⟨rfl, hc⟩]; simp [hc]
      · rw [if_neg (fun hh => hc hh.2), hFp]; simp [hc]
    · rw [hF, if_neg (fun hh => h2 hh.1)]
      exact h.data k e' h3
  · intro k hk
    rw [hF] at hk
    by_cases hc : k = p ∧ e.file = true ∧ e.link = false
    · rw [hc.1, hEp]; rfl
    · rw [if_neg hc] at hk
      exact some' k (h.dangling k hk)
  · intro k e' hk
    rcases key k e' hk with ⟨h1, h2⟩ | ⟨h1, h2⟩ | ⟨h1, h2, h3⟩
    · subst h2; rw [h1]; exact h.path _ pe hpe
    · subst h2; rw [h1]; exact hpath
    · exact h.path k e' h3
  · intro k e' hk
    rcases key k e' hk with ⟨h1, h2⟩ | ⟨h1, h2⟩ | ⟨h1, h2, h3⟩
    · subst h2; simp [hdir]
    · subst h2; rw [hfl]; cases e'.dir <;> simp
    · exact h.dirflag k e' h3
  · intro k e' fs0 hk hf
    rcases key k e' hk with ⟨h1, h2⟩ | ⟨h1, h2⟩ | ⟨h1, h2, h3⟩
    · subst h2; simp only [Option.some.injEq] at hf; subst hf; exact hnd
    · subst h2
      rw [hfl] at hf
      split at hf
      · cases hf; exact List.nodup_nil
      · cases hf
    · exact h.nodupKids k e' fs0 h3 hf


theorem extL_addLeaf {E E' : FsPath → Option Entry} {p : FsPath} {e pe : Entry} {fs' : List Str}
    (hx : ExtL E) (hpwf : ∀ n ∈ p, BodyPiece n) (hs : fs'.Pairwise nameLE)
    (hfl : e.files = if e.dir = true then some [] else none) (hfd : ¬ (e.file = true ∧ e.dir = true))
    (hpe : E p.dropLast = some pe)
    (hE : ∀ k, E' k = if k = p.dropLast then some { pe with files := some fs' } else if k = p then some e else E k) :
    ExtL E' := by
  constructor
  · intro k e' hk n hn
    rw [hE] at hk
    split at hk
    · rename_i h1; subst h1; exact hpwf n ((List.dropLast_sublist _).subset hn)
    · split at hk
      · rename_i h2; subst h2; exact hpwf n hn
      · exact hx.keysWf k e' hk n hn
  · intro k e' fs0 hk hf
    rw [hE] at hk
    split at hk
    · cases hk; simp only [Option.some.injEq] at hf; subst hf; exact hs
    · split at hk
      · cases hk
        rw [hfl] at hf
        split at hf
        · cases hf; exact List.Pairwise.nil
        · cases hf
      · exact hx.sorted k e' fs0 hk hf
  · intro k e' hk
    rw [hE] at hk
    split at hk
    · cases hk; exact hx.flags _ pe hpe
    · split at hk
      · cases hk; exact hfd
      · exact hx.flags k e' hk

theorem addChild_eq (e : Entry) (name : Str) (fs : List Str) (hd : e.dir = true) (hf : e.files = some fs) :
    e.addChild name = .ok ((insertName name fs).1, { e with files := some (insertName name fs).2 }) := by
  unfold Entry.addChild
  simp [hd, hf]

theorem add_leaf_state {b : Prop} {s : State} {e d : Entry} {fs : List Str} (h : Good b s) (hp : e.path ≠ [])
    (hx : alLookup e.path s.entries = none) (hd : alLookup e.path.dropLast s.entries = some d)
    (hdir : d.dir = true) (hlink : d.link = false) (hfs : d.files = some fs)
    (hfl : e.files = if e.dir = true then some [] else none)
    (hwf : b → ∀ n ∈ e.path, BodyPiece n) (hfd : ¬ (e.file = true ∧ e.dir = true))
    (files' : List (FsPath × Bytes))
    (hfiles : (e.file = true ∧ e.link = false ∧ files' = alInsert e.path [] s.files) ∨
      (¬ (e.file = true ∧ e.link = false) ∧ files' = s.files)) :
    Good b { s with entries := alInsert e.path.dropLast { d with files := some (insertName (baseName e.path) fs).2 }
                                  (alInsert e.path e s.entries), files := files' } := by
  have hI := h.1.2.2.2
  have hE : ∀ k, alLookup k (alInsert e.path.dropLast { d with files := some (insertName (baseName e.path) fs).2 }
      (alInsert e.path e s.entries)) =
      if k = e.path.dropLast then some { d with files := some (insertName (baseName e.path) fs).2 }
      else if k = e.path then some e else EL s k := by
    intro k
    rw [alLookup_alInsert, alLookup_alInsert]
    by_cases h1 : k = e.path.dropLast
    · rw [if_pos h1.symm, if_pos h1]
    · rw [if_neg (fun hh => h1 hh.symm), if_neg h1]
      by_cases h2 : k = e.path
      · rw [if_pos h2.symm, if_pos h2]
      · rw [if_neg (fun hh => h2 hh.symm), if_neg h2]; rfl
  have hnotmem : baseName e.path ∉ fs := by
    intro hm
    have := hI.kids e.path.dropLast d fs _ hd hfs hm
    rw [snoc_dropLast_baseName hp] at this
    unfold EL at this; rw [hx] at this; cases this
  have hF : ∀ k, alLookup k files' = if k = e.path ∧ e.file = true ∧ e.link = false then some [] else FL s k := by
    intro k
    rcases hfiles with ⟨h1, h2, h3⟩ | ⟨h1, h3⟩ <;> rw [h3]
    · rw [alLookup_alInsert]
      by_cases hk : k = e.path
      · rw [if_pos hk.symm, if_pos ⟨hk, h1, h2⟩]
      · rw [if_neg (fun hh => hk hh.symm), if_neg (fun hh => hk hh.1)]; rfl
    · rw [if_neg (fun hh => h1 hh.2)]; rfl
  refine ⟨⟨?_, ?_, h.1.2.2.1, ?_⟩, fun hb => ⟨?_, (h.2 hb).2⟩⟩
  · exact nodup_keys_alInsert _ _ (nodup_keys_alInsert _ _ h.1.1)
  · rcases hfiles with ⟨_, _, h3⟩ | ⟨_, h3⟩ <;> simp only [h3]
    · exact nodup_keys_alInsert _ _ h.1.2.1
    · exact h.1.2.1
  · exact invL_addLeaf (p := e.path) hI hp hx hd hdir hlink hfs (mem_insertName · _ _)
      (nodup_insertName_of_not_mem _ hnotmem (hI.nodupKids _ d fs hd hfs)) rfl hfl hE hF
  · exact extL_addLeaf (p := e.path) (h.2 hb).1 (hwf hb)
      (pairwise_insertName _ ((h.2 hb).1.sorted _ d fs hd hfs)) hfl hfd hd hE

theorem good_add {b : Prop} (e : Entry) (s : State) (h : Good b s)
    (hfl : e.files = if e.dir = true then some [] else none)
    (hwf : b → ∀ n ∈ e.path, BodyPiece n) (hfd : ¬ (e.file = true ∧ e.dir = true)) : Good b (add e s).2 := by
  unfold add
  by_cases hp : e.path = []
  · simp only [hp, if_true, pure_apply]; exact h
  · simp only [hp, if_false, bind_apply, getEntry_apply]
    cases hd : alLookup e.path.dropLast s.entries with
    | none => exact h
    | some d =>
      dsimp only
      by_cases hreal : (!d.dir || d.link) = true
      · rw [if_pos hreal]; exact h
      · rw [if_neg hreal]; simp only [bind_apply, getEntry_apply]
        cases hx : alLookup e.path s.entries with
        | some x =>
          dsimp only
          split
          · exact h
          · split
            · exact h
            · split <;> exact h
        | none =>
          have hdir : d.dir = true := by cases hh : d.dir <;> simp [hh] at hreal ⊢
          have hlink : d.link = false := by cases hh : d.link <;> simp [hh] at hreal ⊢
          have hfs : ∃ fs, d.files = some fs := by
            have := (h.1.2.2.2.dirflag _ d hd).2 hdir
            cases hh : d.files with
            | none => simp [hh] at this
            | some fs => exact ⟨fs, rfl⟩
          obtain ⟨fs, hfs⟩ := hfs
          have hdne : ¬ e.path = e.path.dropLast := fun hh => dropLast_ne_self hp hh.symm
          by_cases hc : (!e.link && e.file) = true
          · rw [if_pos hc]
            simp only [bind_apply, setFile_apply, setEntry_apply, getEntry_apply, alLookup_alInsert, hdne,
              if_false, hd, liftO_apply, addChild_eq d _ fs hdir hfs]
            have hc' : e.file = true ∧ e.link = false := by
              cases h1 : e.file <;> cases h2 : e.link <;> simp [h1, h2] at hc ⊢
            split <;> exact add_leaf_state h hp hx hd hdir hlink hfs hfl hwf hfd _ (Or.inl ⟨hc'.1, hc'.2, rfl⟩)
          · rw [if_neg hc]
            simp only [bind_apply, setEntry_apply, getEntry_apply, alLookup_alInsert, hdne,
              if_false, hd, liftO_apply, addChild_eq d _ fs hdir hfs]
            have hc' : ¬ (e.file = true ∧ e.link = false) := by
              cases h1 : e.file <;> cases h2 : e.link <;> simp [h1, h2] at hc ⊢
            split <;> exact add_leaf_state h hp hx hd hdir hlink hfs hfl hwf hfd _ (Or.inr ⟨hc', rfl⟩)


theorem bind_pure_snd {α β} (m : M α) (c : β) (s : State) : ((m >>= fun _ => (Pure.pure c : M β)) s).2 = (m s).2 := by
  rw [bind_apply]; split <;> simp_all [pure_apply]

def symTail (env : Env) (l : FsPath) (tstr : Str) : M FsPath := do
  let t ← absM env tstr
  let ldir ← dirOf l
  let rel := relative (renderP t) (renderP ldir)
  let tIsDir := match (← getEntry t) with | some x => x.dir | none => false
  let e : Entry := { path := l, alt := some t, rel := rel, dir := tIsDir, file := !tIsDir, link := true,
                     mode := optsMode true (!tIsDir) tIsDir none, uid := 1000, gid := 1000,
                     follow := false, cached := false, files := if tIsDir then some [] else none }
  let _ ← add e
  return l

theorem good_symTail {b : Prop} (env : Env) (l : FsPath) (tstr : Str) (s : State) (h : Good b s)
    (hwf : b → ∀ n ∈ l, BodyPiece n) : Good b (symTail env l tstr s).2 := by
  unfold symTail
  obtain ⟨o, ho⟩ := absM_apply env tstr s
  simp only [bind_apply, ho]
  cases o with
  | err k => exact h
  | panic => exact h
  | hang => exact h
  | ok t =>
    simp only [dirOf_apply]
    by_cases hl : l = []
    · rw [if_pos hl]; exact h
    · rw [if_neg hl]
      simp only [getEntry_apply]
      rw [← bind_apply, bind_pure_snd]
      exact good_add _ s h rfl hwf (by cases (match alLookup t s.entries with | some x => x.dir | none => false) <;> simp)

theorem good_symlinkM {b : Prop} (env : Env) (link target : Str) (s : State) (h : Good b s) :
    Good b (symlinkM env link target s).2 := by
  unfold symlinkM
  obtain ⟨o, ho⟩ := absM_apply env link s
  simp only [bind_apply, ho]
  cases o with
  | err k => exact h
  | panic => exact h
  | hang => exact h
  | ok l =>
    have hwf : b → ∀ n ∈ l, BodyPiece n := fun hb => absM_wf ho (h.2 hb).2
    simp only [getEntry_apply]
    by_cases hex : (alLookup l s.entries).isSome = true
    · rw [if_pos hex]; exact h
    · rw [if_neg hex]
      by_cases habs : isAbsolute target = true
      · rw [if_pos habs]
        rw [bind_apply, mpure_apply]
        exact good_symTail env l target s h hwf
      · rw [if_neg habs]
        rw [bind_apply, dirOf_apply]
        by_cases hl : l = []
        · rw [if_pos hl]; exact h
        · rw [if_neg hl]
          dsimp only
          rw [bind_apply, mpure_apply]
          exact good_symTail env l _ s h hwf


end Rivia.Lemmas.InvB
