/-
  Rivia.Lemmas.RefineB — refinement of the destructive / structural Memfs operations against the
  reference tree filesystem (C01, group B).  The development lives in `Rivia/Lemmas/RefineB/*`:

  * Base      `TEquiv`, `ResMatch`, `KeysWf`, `Refines`, `Sim`, association lists, `InvP` (= `Inv` as
              quantified facts), `get (absS s) k`, path-resolution glue (`sim_withPath`)
  * Remove    prefixes/ancestors (`anc`, `below_isEmpty_iff`), `remove_refines`
  * Symlink   `symlink_refines`
  * RemoveAll `removeAllLoop` erases exactly the subtree within its fuel, `removeAll_refines`
  * Snapshot  `_clone_entries`: `entriesOf_ok` (succeeds within fuel, sound, complete below the root)
  * Traverse  plain pre-order `runIter`: `runIter_root` (every live key below the root is yielded)
  * Chown     `chown_refines`, `chownB_refines` (domain: `DepthOk` when recursive)
  * Paths     `toPath`/`renderP`/`mash`/`trimPrefix`/`dstOf` on keys, `absWith_bp`
  * MoveLoop, MoveRoot, Move   `moveLoop` re-keys the subtree, `moveP_refines` (domain: `FlagsOk`)
  * TraverseCF contents-first / sorted / dirs-first `runIter` with a `pre_op`: `runIter_cf_root`
  * Chmod     `chmod_refines`, `chmodB_refines` (octal; domain: `FlagsOk`, `ModeOk`, `DepthOk`)
-/
import Rivia.Lemmas.RefineB.Move
import Rivia.Lemmas.RefineB.Chmod
