/-
  Rivia.Lemmas.SimStep — `specStep` respects `TEquiv` (all 45 operations the reference covers), and
  keeps the node keys duplicate-free.
-/
import Rivia.Lemmas.SimCongr
import Rivia.Lemmas.StdfsList

namespace Rivia.Lemmas.Sim
open Rivia Rivia.Memfs Rivia.File Rivia.Spec Rivia.Spec.TreeFs
open Rivia.Lemmas.RefineB (TEquiv alLookup_of_mem_nodup alLookup_some_mem selB alLookup_map)

variable {a b : T}

/-! ### listings -/

theorem mem_nodes_iff {t : T} (hn : NodupK t) (k : FsPath) (n : Node) : (k, n) ∈ t.nodes ↔ get t k = some n :=
  ⟨alLookup_of_mem_nodup hn, alLookup_some_mem⟩

theorem listing_keys_nodup {t : T} (hn : NodupK t) (f : FsPath × Node → Bool) :
    ((t.nodes.filter f).map (·.1)).Nodup :=
  List.Nodup.sublist (List.Sublist.map _ List.filter_sublist) hn

theorem listing_congr (h : TEquiv a b) (ha : NodupK a) (hb : NodupK b) (p : FsPath) (all : Bool)
    (want : Node → Bool) : TreeFs.listing a p all want = TreeFs.listing b p all want := by
  unfold TreeFs.listing
  rw [isDir_eq h]
  split
  · rfl
  · simp only
    congr 1
    apply StdfsL.sorted_unique _ _ (StdfsL.sorted_sortP _ (listing_keys_nodup ha _))
      (StdfsL.sorted_sortP _ (listing_keys_nodup hb _))
    intro x
    rw [StdfsL.mem_sortP, StdfsL.mem_sortP]
    simp only [List.mem_map, List.mem_filter]
    constructor
    · rintro ⟨⟨k, n⟩, ⟨hm, hc⟩, rfl⟩
      exact ⟨(k, n), ⟨(mem_nodes_iff hb k n).2 (by rw [← h.2]; exact (mem_nodes_iff ha k n).1 hm), hc⟩, rfl⟩
    · rintro ⟨⟨k, n⟩, ⟨hm, hc⟩, rfl⟩
      exact ⟨(k, n), ⟨(mem_nodes_iff ha k n).2 (by rw [h.2]; exact (mem_nodes_iff hb k n).1 hm), hc⟩, rfl⟩

/-! ### symbolic chmod -/

def symFn (cs : List Clause) (n : Node) : Node :=
  match n.kind with
  | .dir => { n with perm := applyExpr ⟨true, false, false⟩ cs n.mode - typeBits .dir }
  | .file => { n with perm := applyExpr ⟨false, true, false⟩ cs n.mode - typeBits .file }
  | .link _ => n

theorem chmodSym_eq (t : T) (p : FsPath) (sym : List Char) (rec : Bool) :
    chmodSym t p sym rec = match get t p with
      | none => (.err (some .doesNotExist), t)
      | some _ => match parseExpr sym with
        | none => (.err none, t)
        | some cs => (.ok (), { t with nodes := t.nodes.map (fun kv =>
            if selB t p rec kv.1 then (kv.1, symFn cs kv.2) else kv) }) := by
  unfold chmodSym
  cases get t p with
  | none => rfl
  | some _ =>
    simp only
    cases parseExpr sym with
    | none => rfl
    | some cs =>
      simp only
      congr 3
      funext kv
      obtain ⟨k, n⟩ := kv
      obtain ⟨kind, perm, uid, gid, target, data⟩ := n
      unfold selB symFn
      cases kind <;> rfl

theorem chmodSym_congr (h : TEquiv a b) (p : FsPath) (sym : List Char) (rec : Bool) :
    Rel (chmodSym a p sym rec) (chmodSym b p sym rec) := by
  rw [chmodSym_eq, chmodSym_eq, h.2 p, selB_eq h]
  split
  · exact rel_mk h
  · split
    · exact rel_mk h
    · refine ⟨rfl, h.1, fun k => ?_⟩
      rw [get_map_if, get_map_if, h.2]

theorem nodupK_chmodSym {t : T} (h : NodupK t) (p : FsPath) (sym : List Char) (rec : Bool) :
    NodupK (chmodSym t p sym rec).2 := by
  rw [chmodSym_eq]
  split
  · exact h
  · split
    · exact h
    · exact nodupK_map_if h _ _

/-! ### the wrappers of `specStep` -/

theorem resolve_eq (env : Env) (h : TEquiv a b) (p : Str) : resolve env a p = resolve env b p := by
  unfold resolve; rw [h.1]

theorem liftR_congr {α} (f : α → Val) {x y : R α × T} (h : Rel x y) : Rel (liftR f x) (liftR f y) := by
  obtain ⟨r, t⟩ := x
  obtain ⟨r', t'⟩ := y
  obtain ⟨h1, h2⟩ := h
  simp only at h1 h2
  subst h1
  cases r <;> exact ⟨rfl, h2⟩

theorem withPath_congr (env : Env) (h : TEquiv a b) (p : Str) {ka kb : FsPath → SR}
    (hk : ∀ k, Rel (ka k) (kb k)) : Rel (withPath env a p ka) (withPath env b p kb) := by
  unfold withPath
  rw [resolve_eq env h]
  split
  · exact hk _
  · exact rel_mk h
  · exact rel_mk h

theorem boolQ_congr (env : Env) (h : TEquiv a b) (p : Str) {f g : FsPath → Bool} (hf : f = g) :
    Rel (boolQ env a p f) (boolQ env b p g) := by
  unfold boolQ
  rw [resolve_eq env h, hf]
  split <;> exact rel_mk h

theorem nodeQ_congr (env : Env) (h : TEquiv a b) (p : Str) (f : Node → Val) :
    Rel (nodeQ env a p f) (nodeQ env b p f) := by
  unfold nodeQ
  apply withPath_congr env h
  intro k
  rw [h.2 k]
  split <;> exact rel_mk h

theorem listQ_congr (env : Env) (h : TEquiv a b) (ha : NodupK a) (hb : NodupK b) (p : Str) (all : Bool)
    (want : Node → Bool) : Rel (listQ env a p all want) (listQ env b p all want) := by
  unfold listQ
  rw [resolve_eq env h]
  split
  · rw [listing_congr h ha hb]
    exact liftR_congr _ (rel_mk h)
  · exact rel_mk h
  · exact rel_mk h

/-- both undefined, or both defined with equal results and equivalent post-states -/
def RelO : Option SR → Option SR → Prop
  | some x, some y => Rel x y
  | none, none => True
  | _, _ => False

theorem relO_some {x y : SR} (h : Rel x y) : RelO (some x) (some y) := h

/-- continuation of the read operations: a function of `get t k` and `t` -/
theorem read_congr (h : TEquiv a b) (k : FsPath) (F : Option Node → R Val) :
    Rel (α := Val) (F (get a k), a) (F (get b k), b) := by
  rw [h.2 k]; exact rel_mk h

/-! ### `specStep` -/

local macro "rel_splits" h:ident : tactic =>
  `(tactic| repeat' (first | exact rel_mk $h | split))

theorem specStep_congr (env : Env) (h : TEquiv a b) (ha : NodupK a) (hb : NodupK b) (op : Op) :
    RelO (specStep env a op) (specStep env b op) := by
  cases op <;> simp only [specStep]
  case mkfile p => exact withPath_congr env h p fun k => liftR_congr _ (mkfile_congr h k)
  case mkdirP p => exact withPath_congr env h p fun k => liftR_congr _ (mkdir_congr h k _)
  case mkdirM p m =>
    split
    · exact withPath_congr env h p fun k => liftR_congr _ (mkdir_congr h k _)
    · trivial
  case writeAll p d => exact withPath_congr env h p fun k => liftR_congr _ (writeAll_congr h k _ _)
  case appendAll p d => exact withPath_congr env h p fun k => liftR_congr _ (writeAll_congr h k _ _)
  case writeLines p ls => exact withPath_congr env h p fun k => liftR_congr _ (writeAll_congr h k _ _)
  case appendLines p ls => exact withPath_congr env h p fun k => liftR_congr _ (writeAll_congr h k _ _)
  case appendLine p l => exact withPath_congr env h p fun k => liftR_congr _ (writeAll_congr h k _ _)
  case readAll p =>
    refine withPath_congr env h p fun k => ?_
    rw [h.2 k]; rel_splits h
  case readLines p =>
    refine withPath_congr env h p fun k => ?_
    rw [h.2 k]; rel_splits h
  case read p =>
    refine withPath_congr env h p fun k => ?_
    rw [h.2 k]; rel_splits h
  case remove p => exact withPath_congr env h p fun k => liftR_congr _ (remove_congr h ha hb k)
  case removeAll p => exact withPath_congr env h p fun k => liftR_congr _ (removeAll_congr h k)
  case symlink l tg =>
    refine withPath_congr env h l fun la => ?_
    rw [h.2 la]
    split
    · exact rel_mk h
    · exact withPath_congr env h _ fun ta => liftR_congr _ (symlink_congr h la ta)
  case readlink p =>
    refine withPath_congr env h p fun k => ?_
    rw [h.2 k]; rel_splits h
  case readlinkAbs p =>
    refine withPath_congr env h p fun k => ?_
    rw [h.2 k]; rel_splits h
  case setCwd p => exact withPath_congr env h p fun k => liftR_congr _ (setCwd_congr h k)
  case cwd => exact ⟨by rw [h.1], h⟩
  case root => exact rel_mk h
  case abs p => exact withPath_congr env h p fun k => rel_mk h
  case «exists» p => exact boolQ_congr env h p (by rw [get_eq h])
  case isFile p => exact boolQ_congr env h p (isFile_eq h)
  case isDir p => exact boolQ_congr env h p (isDir_eq h)
  case isSymlink p => exact boolQ_congr env h p (isLink_eq h)
  case isSymlinkDir p => exact boolQ_congr env h p (by rw [get_eq h])
  case isSymlinkFile p => exact boolQ_congr env h p (by rw [get_eq h])
  case isExec p => exact boolQ_congr env h p (by rw [get_eq h])
  case isReadonly p => exact boolQ_congr env h p (by rw [get_eq h])
  case mode p => exact nodeQ_congr env h p _
  case uid p => exact nodeQ_congr env h p _
  case gid p => exact nodeQ_congr env h p _
  case owner p => exact nodeQ_congr env h p _
  case paths p => exact listQ_congr env h ha hb p _ _
  case dirs p => exact listQ_congr env h ha hb p _ _
  case files p => exact listQ_congr env h ha hb p _ _
  case allPaths p => exact listQ_congr env h ha hb p _ _
  case allDirs p => exact listQ_congr env h ha hb p _ _
  case allFiles p => exact listQ_congr env h ha hb p _ _
  case chmod p m =>
    split
    · exact withPath_congr env h p fun k => liftR_congr _ (chmodOctal_congr h k _ _ _)
    · trivial
  case chmodB p c =>
    split
    · trivial
    · split
      · split
        · exact withPath_congr env h p fun k => liftR_congr _ (chmodOctal_congr h k _ _ _)
        · trivial
      · split
        · exact withPath_congr env h p fun k => liftR_congr _ (chmodSym_congr h k _ _)
        · trivial
  case chown p u g => exact withPath_congr env h p fun k => liftR_congr _ (chown_congr h k _ _ _)
  case chownB p c =>
    split
    · trivial
    · exact withPath_congr env h p fun k => liftR_congr _ (chown_congr h k _ _ _)
  case moveP x y =>
    exact withPath_congr env h x fun sa => withPath_congr env h y fun da => liftR_congr _ (moveP_congr h sa da)
  all_goals trivial

/-! ### the reference keeps its node keys duplicate-free -/

theorem liftR_snd {α} (f : α → Val) (x : R α × T) : (liftR f x).2 = x.2 := by
  obtain ⟨r, t⟩ := x
  cases r <;> rfl

theorem nodupK_withPath (env : Env) {t : T} (hn : NodupK t) (p : Str) {K : FsPath → SR}
    (hk : ∀ k, NodupK (K k).2) : NodupK (withPath env t p K).2 := by
  unfold withPath
  split
  · exact hk _
  · exact hn
  · exact hn

theorem boolQ_snd (env : Env) (t : T) (p : Str) (f : FsPath → Bool) : (boolQ env t p f).2 = t := by
  unfold boolQ; split <;> rfl

theorem nodeQ_snd (env : Env) (t : T) (p : Str) (f : Node → Val) : (nodeQ env t p f).2 = t := by
  unfold nodeQ withPath
  split
  · simp only; split <;> rfl
  · rfl
  · rfl

theorem listQ_snd (env : Env) (t : T) (p : Str) (all : Bool) (want : Node → Bool) :
    (listQ env t p all want).2 = t := by
  unfold listQ
  split
  · rw [liftR_snd]
  · rfl
  · rfl

local macro "nd_splits" h:ident : tactic =>
  `(tactic| repeat' (first | exact $h | split))

theorem nodupK_specStep (env : Env) {t : T} (hn : NodupK t) (hA : AncDir t) (op : Op) (x : SR)
    (hx : specStep env t op = some x) : NodupK x.2 := by
  cases op <;> simp only [specStep] at hx
  case mkfile p => cases hx; exact nodupK_withPath env hn p fun k => by rw [liftR_snd]; exact nodupK_mkfile hn k
  case mkdirP p => cases hx; exact nodupK_withPath env hn p fun k => by rw [liftR_snd]; exact nodupK_mkdir hn k _
  case mkdirM p m =>
    split at hx
    · cases hx; exact nodupK_withPath env hn p fun k => by rw [liftR_snd]; exact nodupK_mkdir hn k _
    · cases hx
  case writeAll p d => cases hx; exact nodupK_withPath env hn p fun k => by rw [liftR_snd]; exact nodupK_writeAll hn k _ _
  case appendAll p d => cases hx; exact nodupK_withPath env hn p fun k => by rw [liftR_snd]; exact nodupK_writeAll hn k _ _
  case writeLines p ls => cases hx; exact nodupK_withPath env hn p fun k => by rw [liftR_snd]; exact nodupK_writeAll hn k _ _
  case appendLines p ls => cases hx; exact nodupK_withPath env hn p fun k => by rw [liftR_snd]; exact nodupK_writeAll hn k _ _
  case appendLine p l => cases hx; exact nodupK_withPath env hn p fun k => by rw [liftR_snd]; exact nodupK_writeAll hn k _ _
  case readAll p => cases hx; exact nodupK_withPath env hn p fun k => by nd_splits hn
  case readLines p => cases hx; exact nodupK_withPath env hn p fun k => by nd_splits hn
  case read p => cases hx; exact nodupK_withPath env hn p fun k => by nd_splits hn
  case remove p => cases hx; exact nodupK_withPath env hn p fun k => by rw [liftR_snd]; exact nodupK_remove hn k
  case removeAll p => cases hx; exact nodupK_withPath env hn p fun k => by rw [liftR_snd]; exact nodupK_removeAll hn k
  case symlink l tg =>
    cases hx
    refine nodupK_withPath env hn l fun la => ?_
    split
    · exact hn
    · exact nodupK_withPath env hn _ fun ta => by rw [liftR_snd]; exact nodupK_symlink hn la ta
  case readlink p => cases hx; exact nodupK_withPath env hn p fun k => by nd_splits hn
  case readlinkAbs p => cases hx; exact nodupK_withPath env hn p fun k => by nd_splits hn
  case setCwd p => cases hx; exact nodupK_withPath env hn p fun k => by rw [liftR_snd]; exact nodupK_setCwd hn k
  case cwd => cases hx; exact hn
  case root => cases hx; exact hn
  case abs p => cases hx; exact nodupK_withPath env hn p fun k => hn
  case «exists» p => cases hx; rw [boolQ_snd]; exact hn
  case isFile p => cases hx; rw [boolQ_snd]; exact hn
  case isDir p => cases hx; rw [boolQ_snd]; exact hn
  case isSymlink p => cases hx; rw [boolQ_snd]; exact hn
  case isSymlinkDir p => cases hx; rw [boolQ_snd]; exact hn
  case isSymlinkFile p => cases hx; rw [boolQ_snd]; exact hn
  case isExec p => cases hx; rw [boolQ_snd]; exact hn
  case isReadonly p => cases hx; rw [boolQ_snd]; exact hn
  case mode p => cases hx; rw [nodeQ_snd]; exact hn
  case uid p => cases hx; rw [nodeQ_snd]; exact hn
  case gid p => cases hx; rw [nodeQ_snd]; exact hn
  case owner p => cases hx; rw [nodeQ_snd]; exact hn
  case paths p => cases hx; rw [listQ_snd]; exact hn
  case dirs p => cases hx; rw [listQ_snd]; exact hn
  case files p => cases hx; rw [listQ_snd]; exact hn
  case allPaths p => cases hx; rw [listQ_snd]; exact hn
  case allDirs p => cases hx; rw [listQ_snd]; exact hn
  case allFiles p => cases hx; rw [listQ_snd]; exact hn
  case chmod p m =>
    split at hx
    · cases hx; exact nodupK_withPath env hn p fun k => by rw [liftR_snd]; exact nodupK_chmodOctal hn k _ _ _
    · cases hx
  case chmodB p c =>
    split at hx
    · cases hx
    · split at hx
      · split at hx
        · cases hx; exact nodupK_withPath env hn p fun k => by rw [liftR_snd]; exact nodupK_chmodOctal hn k _ _ _
        · cases hx
      · split at hx
        · cases hx; exact nodupK_withPath env hn p fun k => by rw [liftR_snd]; exact nodupK_chmodSym hn k _ _
        · cases hx
  case chown p u g => cases hx; exact nodupK_withPath env hn p fun k => by rw [liftR_snd]; exact nodupK_chown hn k _ _ _
  case chownB p c =>
    split at hx
    · cases hx
    · cases hx; exact nodupK_withPath env hn p fun k => by rw [liftR_snd]; exact nodupK_chown hn k _ _ _
  case moveP x y =>
    cases hx
    exact nodupK_withPath env hn x fun sa => nodupK_withPath env hn y fun da => by
      rw [liftR_snd]; exact nodupK_moveP hn hA sa da
  all_goals cases hx

/-! ### the abstraction of a well-formed Memfs state is duplicate-free and has directory ancestors -/

theorem nodupK_absS {s : State} (h : Inv s) : NodupK (absS s) := by
  unfold NodupK absS
  simp only [List.map_map]
  exact (RefineB.inv_props h).nodup

theorem ancDir_absS {s : State} (h : Inv s) : AncDir (absS s) := by
  intro p x r hk
  rw [RefineB.get_absS, Option.isSome_map] at hk
  obtain ⟨pe, fs, h1, h2, h3, _⟩ := RefineB.anc (RefineB.inv_props h) r.length r p x rfl hk
  rw [RefineB.isDir_absS, h1]
  simp [h2, h3]

end Rivia.Lemmas.Sim
