/- COPY of Rivia/Lemmas/MoveWf.lean in the namespace `Rivia.Lemmas.Ret` (nothing else changed): the original
   cannot be imported together with Rivia/Lemmas/CopyMove.lean (the C01R / C01C family), both declare
   `Rivia.Lemmas.alLookup_of_mem`, `WfKey`, ….  Used by Props/C12R only. -/
/-
  Rivia.Lemmas.MoveWf — on keys made of ordinary path components the destination computed by
  `move_p` / `copy` is the list-level one (`dstOf d (pre ++ r) pre = d ++ r`), and therefore lies
  outside the source subtree whenever the call passes the validation of `moveM` on a well-formed
  state.  This discharges the domain hypothesis `MoveDstOutside` of FuelMove.lean.
-/
import Rivia.Lemmas.ReturnsNoPanic
import Rivia.Lemmas.Relative

namespace Rivia.Lemmas.Ret
open Rivia Rivia.Str Rivia.Memfs Rivia.Spec

/-- all names of a key are ordinary components -/
def WfKey (k : FsPath) : Prop := ∀ n ∈ k, Wf n

instance (n : Str) : Decidable (Wf n) := by unfold Wf; infer_instance
instance (k : FsPath) : Decidable (WfKey k) := by unfold WfKey; infer_instance

theorem renderP_eq_bufOf (k : FsPath) : renderP k = bufOf true k := rfl

theorem wf_not_mem_slash {k : FsPath} (h : WfKey k) : ∀ n ∈ k, '/' ∉ n := fun n hn => (h n hn).2.1

theorem toPath_renderP {k : FsPath} (h : WfKey k) : toPath (renderP k) = k := by
  unfold toPath renderP splitSlash
  rw [splitOn_cons_sep]
  cases k with
  | nil => decide
  | cons a as =>
    rw [splitOn_joinWith (by simp) (wf_not_mem_slash h)]
    rw [List.filter_cons_of_neg (by simp)]
    rw [List.filter_eq_self]
    intro n hn
    simpa using (h n hn).1

theorem stripSlashes_join {r : FsPath} (h : WfKey r) : stripSlashes (joinWith '/' r) = joinWith '/' r := by
  cases r with
  | nil => rfl
  | cons a as =>
    have ha := h a (by simp)
    cases a with
    | nil => exact absurd rfl ha.1
    | cons c cs =>
      have hc : c ≠ '/' := fun hc => ha.2.1 (hc ▸ List.mem_cons_self)
      cases as with
      | nil => simp only [joinWith]; unfold stripSlashes; split <;> simp_all
      | cons b bs =>
        simp only [joinWith, List.cons_append]
        unfold stripSlashes
        split
        · rename_i heq; simp only [List.cons.injEq] at heq; exact absurd heq.1 hc
        · rfl

theorem bodyComps_join {r : FsPath} (h : WfKey r) : bodyComps (joinWith '/' r) = r.map Comp.normal := by
  unfold bodyComps splitSlash
  cases r with
  | nil => decide
  | cons a as =>
    rw [splitOn_joinWith (by simp) (wf_not_mem_slash h), filterMap_bodyComp_wf h]

/-- `mash` of a clean absolute path with a relative body made of ordinary components -/
theorem mash_renderP {d r : FsPath} (hd : WfKey d) (hr : WfKey r) (T : Str)
    (hT : stripSlashes T = joinWith '/' r) : mash (renderP d) T = renderP (d ++ r) := by
  have hdr : WfKey (d ++ r) := by
    intro n hn
    rcases List.mem_append.1 hn with hn | hn
    · exact hd n hn
    · exact hr n hn
  have hne : renderP d ≠ [] := by simp [renderP]
  rw [← mash_canonical, mash_components]
  unfold mashComps
  rw [if_neg hne, hT, bodyComps_join hr, renderP_eq_bufOf, components_abs hd]
  rw [List.cons_append, ← List.map_append, render_root_normals hdr]
  rfl

theorem stripSlashes_slash_cons (s : Str) : stripSlashes ('/' :: s) = stripSlashes s := by
  rw [stripSlashes]

/-- the string-level destination is the list-level one -/
theorem dstOf_wf {d pre r : FsPath} (hd : WfKey d) (hp : WfKey pre) (hr : WfKey r) :
    dstOf d (pre ++ r) pre = d ++ r := by
  have hdr : WfKey (d ++ r) := by
    intro n hn
    rcases List.mem_append.1 hn with hn | hn
    · exact hd n hn
    · exact hr n hn
  unfold dstOf
  rw [mash_renderP hd hr, toPath_renderP hdr]
  -- the trimmed string is `join r` up to one leading separator
  unfold trimPrefix
  have hpre : (renderP pre).isPrefixOf (renderP (pre ++ r)) = true := by
    rw [List.isPrefixOf_iff_prefix]
    unfold renderP
    cases pre with
    | nil => exact ⟨joinWith '/' r, by simp [joinWith]⟩
    | cons a as =>
      cases r with
      | nil => simp
      | cons b bs =>
        rw [joinWith_append '/' (by simp) (by simp)]
        exact ⟨'/' :: joinWith '/' (b :: bs), by simp⟩
  rw [if_pos hpre]
  unfold renderP
  cases pre with
  | nil =>
    simp only [List.nil_append, joinWith, List.length_cons, List.length_nil, List.drop_succ_cons,
      List.drop_zero]
    exact stripSlashes_join hr
  | cons a as =>
    cases r with
    | nil =>
      simp only [List.append_nil, List.drop_length]
      rfl
    | cons b bs =>
      rw [joinWith_append '/' (by simp) (by simp)]
      have : (('/' :: (joinWith '/' (a :: as) ++ '/' :: joinWith '/' (b :: bs))).drop
          ('/' :: joinWith '/' (a :: as)).length) = '/' :: joinWith '/' (b :: bs) := by
        rw [← List.cons_append, List.drop_left]
      rw [this, stripSlashes_slash_cons]
      exact stripSlashes_join hr

/-! ### ancestors of an existing key are real directories -/

theorem ancestors_real_dirs {s : State} (hf : InvFacts s) :
    ∀ (n : Nat) (t a : FsPath) (e : Entry), t.length = n → t ≠ [] → (a ++ t, e) ∈ s.entries →
      ∃ pe, alLookup a s.entries = some pe ∧ pe.dir = true ∧ pe.link = false := by
  intro n
  induction n with
  | zero => intro t a e hl hne; exact absurd (List.length_eq_zero_iff.1 hl) hne
  | succ n ih =>
    intro t a e hl hne hm
    rcases eq_nil_or_snoc t with rfl | ⟨t', x, rfl⟩
    · exact absurd rfl hne
    · obtain ⟨pe, hpe, hd, hlk, _⟩ := hf.parent (a ++ (t' ++ [x])) e hm (by simp)
      rw [← List.append_assoc, List.dropLast_concat] at hpe
      by_cases ht' : t' = []
      · subst ht'
        rw [List.append_nil] at hpe
        exact ⟨pe, hpe, hd, hlk⟩
      · exact ih t' a pe (by simpa using hl) ht' (alLookup_some_mem hpe)

theorem strict_prefix_real_dir {s : State} (hf : InvFacts s) {a k : FsPath} {e : Entry}
    (hk : (k, e) ∈ s.entries) (hpre : a <+: k) (hne : a ≠ k) :
    ∃ pe, alLookup a s.entries = some pe ∧ pe.dir = true ∧ pe.link = false := by
  obtain ⟨t, rfl⟩ := hpre
  have ht : t ≠ [] := fun h => hne (by rw [h, List.append_nil])
  exact ancestors_real_dirs hf t.length t a e rfl ht hk

/-- two prefixes of the same list are comparable -/
theorem prefix_comparable {a b l : FsPath} (ha : a <+: l) (hb : b <+: l) : a <+: b ∨ b <+: a := by
  by_cases h : a.length ≤ b.length
  · exact .inl (List.prefix_of_prefix_length_le ha hb h)
  · exact .inr (List.prefix_of_prefix_length_le hb ha (by omega))

/-! ### the validation of `moveM` implies `MoveDstOutside` on ordinary states -/

/-- all keys consist of ordinary path components -/
def NamesWf (s : State) : Prop := ∀ kv ∈ s.entries, WfKey kv.1

/-- a real directory is not also a regular file -/
def KindExcl (s : State) : Prop :=
  ∀ kv ∈ s.entries, kv.2.dir = true → kv.2.link = false → kv.2.file = false

instance (s : State) : Decidable (NamesWf s) := by unfold NamesWf; infer_instance
instance (s : State) : Decidable (KindExcl s) := by unfold KindExcl; infer_instance

theorem wfKey_append {a b : FsPath} (h : WfKey (a ++ b)) : WfKey a ∧ WfKey b :=
  ⟨fun n hn => h n (List.mem_append_left _ hn), fun n hn => h n (List.mem_append_right _ hn)⟩

/-- destination is not a directory: everything goes to `dk ++ r` -/
theorem moveOutside_plain {st : State} (hf : InvFacts st) (hw : NamesWf st) {sk dk : FsPath}
    (hdk : WfKey dk) {e : Entry} (hsrc : alLookup sk st.entries = some e)
    (hci : ¬ isDirP st dk = true) (hval : ¬ List.isPrefixOf sk dk = true) :
    MoveDstOutside st sk dk := by
  intro kv hkv hu _
  rw [if_neg hci]
  obtain ⟨r, hr⟩ := hu
  have hwk := hw kv hkv
  rw [← hr] at hwk ⊢
  obtain ⟨hwsk, hwr⟩ := wfKey_append hwk
  rw [dstOf_wf hdk hwsk hwr]
  intro hpre
  rcases prefix_comparable hpre (List.prefix_append dk r) with h | h
  · exact hval (List.isPrefixOf_iff_prefix.2 h)
  · by_cases heq : dk = sk
    · exact hval (List.isPrefixOf_iff_prefix.2 (heq ▸ List.prefix_refl _))
    · obtain ⟨pe, hpe, hd, hl⟩ := strict_prefix_real_dir hf (alLookup_some_mem hsrc) h heq
      apply hci
      unfold isDirP
      rw [hpe]
      simp [hd, hl]

/-- destination is a directory: everything goes under `dk ++ [last sk]` -/
theorem moveOutside_into {st : State} (hf : InvFacts st) (hw : NamesWf st) (hk : KindExcl st)
    {sk dk : FsPath} (hdk : WfKey dk) {e : Entry} (hsrc : alLookup sk st.entries = some e)
    (hci : isDirP st dk = true)
    (hne : ¬ toPath (mash (renderP dk) (baseName sk)) = sk)
    (hval : ¬ List.isPrefixOf sk (toPath (mash (renderP dk) (baseName sk))) = true)
    (hdst : alLookup (toPath (mash (renderP dk) (baseName sk))) st.entries = none ∨
      ∃ x, alLookup (toPath (mash (renderP dk) (baseName sk))) st.entries = some x ∧ x.file = true) :
    MoveDstOutside st sk dk := by
  intro kv hkv hu hsk0
  have hsk : sk ≠ [] := hsk0 hci
  rw [if_pos hci]
  obtain ⟨r, hr⟩ := hu
  have hwk := hw kv hkv
  rw [← hr] at hwk ⊢
  obtain ⟨hwsk, hwr⟩ := wfKey_append hwk
  -- sk = pre ++ [b]
  rcases eq_nil_or_snoc sk with h0 | ⟨pre, b, hsnoc⟩
  · exact absurd h0 hsk
  subst hsnoc
  obtain ⟨hwpre, hwb⟩ := wfKey_append hwsk
  have hbase : baseName (pre ++ [b]) = b := by simp [baseName]
  have hF : toPath (mash (renderP dk) (baseName (pre ++ [b]))) = dk ++ [b] := by
    rw [hbase, mash_renderP hdk hwb b (stripSlashes_join hwb), toPath_renderP]
    intro n hn
    rcases List.mem_append.1 hn with hn | hn
    · exact hdk n hn
    · exact hwb n hn
  rw [hF] at hne hval hdst
  rw [List.dropLast_concat, List.append_assoc,
    dstOf_wf hdk hwpre (r := [b] ++ r) (by
      intro n hn
      rcases List.mem_append.1 hn with hn | hn
      · exact hwb n hn
      · exact hwr n hn)]
  rw [← List.append_assoc]
  intro hpre
  rcases prefix_comparable hpre (List.prefix_append (dk ++ [b]) r) with h | h
  · exact hval (List.isPrefixOf_iff_prefix.2 h)
  · obtain ⟨pe, hpe, hd, hl⟩ := strict_prefix_real_dir hf (alLookup_some_mem hsrc) h hne
    rcases hdst with hnone | ⟨x, hx, hxf⟩
    · rw [hnone] at hpe; cases hpe
    · rw [hx] at hpe
      cases hpe
      have := hk (dk ++ [b], pe) (alLookup_some_mem hx) hd hl
      rw [hxf] at this
      cases this

theorem and4_left {a b c d : Bool} (h : (a && b && c && d) = true) : a = true := by
  cases a <;> simp_all

/-- `move_p` terminates on a well-formed state whose names are ordinary components and whose real
    directories are not also files, provided the resolved destination consists of ordinary
    components as well -/
theorem moveM_no_hang_wf (env : Env) (src dst : Str) (st : State) (hinv : Spec.Inv st)
    (hw : NamesWf st) (hk : KindExcl st)
    (hdkwf : ∀ dk, absM env dst st = (.ok dk, st) → WfKey dk) :
    (moveM env src dst st).1 ≠ .hang := by
  have hf := inv_facts hinv
  apply wp_ne_hang (Q := fun _ _ => True)
  unfold Memfs.moveM
  simp only [bindM_def, pureM_def]
  apply wp_bind
  apply wp_absM
  intro sk hsk
  apply wp_bind
  apply wp_absM
  intro dk hdk
  have hdk' := hdkwf dk hdk
  wp_tac_with first | with_reducible apply wp_get
  all_goals apply moveLoop_start hf
  all_goals first
    | exact moveOutside_plain hf hw hdk' ‹alLookup sk st.entries = some _› ‹¬ isDirP st dk = true›
        ‹¬ List.isPrefixOf sk dk = true›
    | exact moveOutside_into hf hw hk hdk' ‹alLookup sk st.entries = some _› ‹isDirP st dk = true›
        ‹¬ toPath _ = sk› ‹¬ List.isPrefixOf sk (toPath _) = true› (.inl ‹alLookup (toPath _) st.entries = none›)
    | exact moveOutside_into hf hw hk hdk' ‹alLookup sk st.entries = some _› ‹isDirP st dk = true›
        ‹¬ toPath _ = sk› ‹¬ List.isPrefixOf sk (toPath _) = true›
        (.inr ⟨_, ‹alLookup (toPath _) st.entries = some _›, and4_left ‹_›⟩)

/-- the resolved destination of the call consists of ordinary components -/
def DstWf (env : Env) (s : State) (b : Str) : Prop :=
  match absM env b s with
  | (.ok dk, _) => WfKey dk
  | _ => True

instance (env : Env) (s : State) (b : Str) : Decidable (DstWf env s b) := by
  unfold DstWf; split <;> infer_instance

theorem step_moveP_wf {env : Env} {s : State} (a : Str) {b : Str} (hinv : Spec.Inv s)
    (hw : NamesWf s) (hk : KindExcl s) (hd : DstWf env s b) :
    (step env s (.moveP a b)).1 ≠ .hang := by
  simp only [step]
  apply mapVal_ne_hang
  apply moveM_no_hang_wf env a b s hinv hw hk
  intro dk hdk
  unfold DstWf at hd
  rw [hdk] at hd
  exact hd

end Rivia.Lemmas.Ret
