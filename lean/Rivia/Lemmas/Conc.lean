/-
  Rivia.Lemmas.Conc — helper lemmas for C04 (atomic single-section calls under a scheduler).

  Part A: schedules (`runSchedule`, `induced`, `inducedTagged`, `Interleaving`, `runSeq`).
  Part B: the sequential content fact for `append_all` and its iteration along a sequence.
-/
import Rivia.Model.Conc

namespace Rivia.Lemmas
open Rivia Rivia.Memfs Rivia.Conc Rivia.File

/-! ## Part A — schedules -/

/-- the induced order with every call tagged by the thread that makes it -/
def inducedTagged : List (List Op) → List Nat → List (Nat × Op)
  | _, [] => []
  | todo, i :: is =>
    match todo[i]? with
    | some (op :: rest) => (i, op) :: inducedTagged (todo.set i rest) is
    | _ => []

/-- the results of thread `i` inside a tagged result list -/
def resultsOf (i : Nat) (l : List ((Nat × Op) × Outcome Val)) : List (Outcome Val) :=
  l.filterMap (fun x => if x.1.1 = i then some x.2 else none)

theorem inducedTagged_map_snd (todo : List (List Op)) (sched : List Nat) :
    (inducedTagged todo sched).map Prod.snd = induced todo sched := by
  induction sched generalizing todo with
  | nil => simp [inducedTagged, induced]
  | cons i is ih =>
    simp only [inducedTagged, induced]
    cases todo[i]? with
    | none => rfl
    | some l =>
      cases l with
      | nil => rfl
      | cons op rest => simp [ih]

/-- the configuration after thread `i` made the call `op` (its remaining calls being `rest`) -/
def after (env : Env) (c : Cfg) (i : Nat) (op : Op) (rest : List Op) : Cfg :=
  ⟨(step env c.st op).2, c.todo.set i rest, c.done.set i ((c.done[i]?.getD []) ++ [(step env c.st op).1])⟩

@[simp] theorem after_st (env : Env) (c : Cfg) (i : Nat) (op : Op) (rest : List Op) :
    (after env c i op rest).st = (step env c.st op).2 := rfl
@[simp] theorem after_todo (env : Env) (c : Cfg) (i : Nat) (op : Op) (rest : List Op) :
    (after env c i op rest).todo = c.todo.set i rest := rfl
@[simp] theorem after_done (env : Env) (c : Cfg) (i : Nat) (op : Op) (rest : List Op) :
    (after env c i op rest).done = c.done.set i ((c.done[i]?.getD []) ++ [(step env c.st op).1]) := rfl

theorem stepThread_eq_some {env : Env} {c c' : Cfg} {i : Nat} (h : stepThread env c i = some c') :
    ∃ op rest, c.todo[i]? = some (op :: rest) ∧
      c' = (after env c i op rest) := by
  unfold stepThread at h
  split at h
  · rename_i op rest hop
    refine ⟨op, rest, hop, ?_⟩
    simp only [Option.some.injEq] at h
    exact h.symm
  · cases h

theorem stepThread_of_todo {env : Env} {c : Cfg} {i : Nat} {op : Op} {rest : List Op}
    (h : c.todo[i]? = some (op :: rest)) :
    stepThread env c i = some (after env c i op rest) := by
  unfold stepThread
  rw [h]
  rfl

/-- one unfolding of a successful run -/
theorem runSchedule_cons {env : Env} {c c' : Cfg} {i : Nat} {is : List Nat}
    (h : runSchedule env c (i :: is) = some c') :
    ∃ op rest, c.todo[i]? = some (op :: rest) ∧
      runSchedule env (after env c i op rest) is = some c' := by
  simp only [runSchedule] at h
  split at h
  · rename_i c1 h1
    obtain ⟨op, rest, hop, hc1⟩ := stepThread_eq_some h1
    exact ⟨op, rest, hop, hc1 ▸ h⟩
  · cases h

theorem runSeq_cons (env : Env) (s : State) (op : Op) (ops : List Op) :
    runSeq env s (op :: ops) =
      ((runSeq env (step env s op).2 ops).1, (step env s op).1 :: (runSeq env (step env s op).2 ops).2) := by
  simp only [runSeq]

/-- (a) final state = sequential execution in the induced order -/
theorem runSchedule_state {env : Env} (sched : List Nat) :
    ∀ (s : State) (todo : List (List Op)) (done : List (List (Outcome Val))) (c' : Cfg),
      runSchedule env ⟨s, todo, done⟩ sched = some c' →
      c'.st = (runSeq env s (induced todo sched)).1 := by
  induction sched with
  | nil =>
    intro s todo done c' h
    simp only [runSchedule, Option.some.injEq] at h
    subst h; simp [induced, runSeq]
  | cons i is ih =>
    intro s todo done c' h
    obtain ⟨op, rest, hop, hrun⟩ := runSchedule_cons h
    simp only at hop hrun
    have := ih _ _ _ _ hrun
    simp only [induced, hop, runSeq_cons]
    exact this

/-- the induced order has one call per schedule position -/
theorem runSchedule_induced_length {env : Env} (sched : List Nat) :
    ∀ (s : State) (todo : List (List Op)) (done : List (List (Outcome Val))) (c' : Cfg),
      runSchedule env ⟨s, todo, done⟩ sched = some c' →
      (induced todo sched).length = sched.length := by
  induction sched with
  | nil => intro s todo done c' _; simp [induced]
  | cons i is ih =>
    intro s todo done c' h
    obtain ⟨op, rest, hop, hrun⟩ := runSchedule_cons h
    simp only at hop hrun
    simp only [induced, hop, List.length_cons, ih _ _ _ _ hrun]

/-- position `n` of the induced order is the call made at schedule position `n`, by thread `sched[n]` -/
theorem runSchedule_tagged_fst {env : Env} (sched : List Nat) :
    ∀ (s : State) (todo : List (List Op)) (done : List (List (Outcome Val))) (c' : Cfg),
      runSchedule env ⟨s, todo, done⟩ sched = some c' →
      (inducedTagged todo sched).map Prod.fst = sched := by
  induction sched with
  | nil => intro s todo done c' _; simp [inducedTagged]
  | cons i is ih =>
    intro s todo done c' h
    obtain ⟨op, rest, hop, hrun⟩ := runSchedule_cons h
    simp only at hop hrun
    simp only [inducedTagged, hop, List.map_cons, ih _ _ _ _ hrun]

theorem runSeq_length (env : Env) (ops : List Op) : ∀ s, (runSeq env s ops).2.length = ops.length := by
  induction ops with
  | nil => intro s; simp [runSeq]
  | cons op ops ih => intro s; simp [runSeq_cons, ih]

/-- (b) per-thread results, generalised over the results accumulated so far -/
theorem runSchedule_done {env : Env} (sched : List Nat) :
    ∀ (s : State) (todo : List (List Op)) (done : List (List (Outcome Val))) (c' : Cfg),
      runSchedule env ⟨s, todo, done⟩ sched = some c' →
      ∀ i, c'.done[i]? = (done[i]?).map
        (fun l => l ++ resultsOf i ((inducedTagged todo sched).zip (runSeq env s (induced todo sched)).2)) := by
  induction sched with
  | nil =>
    intro s todo done c' h i
    simp only [runSchedule, Option.some.injEq] at h
    subst h
    simp [inducedTagged, resultsOf]
  | cons j is ih =>
    intro s todo done c' h i
    obtain ⟨op, rest, hop, hrun⟩ := runSchedule_cons h
    simp only at hop hrun
    have := ih _ _ _ _ hrun i
    rw [this]
    simp only [inducedTagged, induced, hop, runSeq_cons, List.zip_cons_cons]
    by_cases hij : j = i
    · subst hij
      by_cases hlt : j < done.length
      · simp [hlt, resultsOf]
      · have : done[j]? = none := by simp at hlt; simp [hlt]
        simp [hlt]
    · rw [List.getElem?_set_ne hij]
      cases done[i]? with
      | none => simp
      | some l => simp [resultsOf, hij]

/-- (c) general form: the induced order followed by any interleaving of what is left is an
    interleaving of the whole program (so the induced order is a prefix of a legal sequential order) -/
theorem runSchedule_interleaving_ext {env : Env} (sched : List Nat) :
    ∀ (s : State) (todo : List (List Op)) (done : List (List (Outcome Val))) (c' : Cfg),
      runSchedule env ⟨s, todo, done⟩ sched = some c' →
      ∀ l, Interleaving c'.todo l → Interleaving todo (induced todo sched ++ l) := by
  induction sched with
  | nil =>
    intro s todo done c' h l hl
    simp only [runSchedule, Option.some.injEq] at h
    subst h
    simpa [induced] using hl
  | cons i is ih =>
    intro s todo done c' h l hl
    obtain ⟨op, rest, hop, hrun⟩ := runSchedule_cons h
    simp only at hop hrun
    have := ih _ _ _ _ hrun l hl
    simp only [induced, hop, List.cons_append]
    exact Interleaving.cons todo i op rest _ hop this

/-- program order inside the induced sequence: the calls already made by every thread plus the calls it
    still has to make are exactly its program -/
theorem runSchedule_todo_split {env : Env} (sched : List Nat) :
    ∀ (s : State) (todo : List (List Op)) (done : List (List (Outcome Val))) (c' : Cfg),
      runSchedule env ⟨s, todo, done⟩ sched = some c' →
      ∀ i, todo[i]? = (c'.todo[i]?).map
        (fun r => ((inducedTagged todo sched).filterMap (fun x => if x.1 = i then some x.2 else none)) ++ r) := by
  induction sched with
  | nil =>
    intro s todo done c' h i
    simp only [runSchedule, Option.some.injEq] at h
    subst h
    simp [inducedTagged]
  | cons j is ih =>
    intro s todo done c' h i
    obtain ⟨op, rest, hop, hrun⟩ := runSchedule_cons h
    simp only at hop hrun
    have := ih _ _ _ _ hrun i
    simp only [inducedTagged, hop]
    by_cases hij : j = i
    · subst hij
      have hlt : j < todo.length := by
        rcases Nat.lt_or_ge j todo.length with h | h
        · exact h
        · simp [List.getElem?_eq_none h] at hop
      rw [List.getElem?_set_self hlt] at this
      cases hc : c'.todo[j]? with
      | none => rw [hc] at this; simp at this
      | some r =>
        rw [hc] at this
        simp only [Option.map_some, Option.some.injEq] at this
        rw [hop]
        simp only [Option.map_some, List.filterMap_cons, if_true, List.cons_append, ← this]
    · rw [List.getElem?_set_ne hij] at this
      rw [this]
      cases c'.todo[i]? with
      | none => simp
      | some r => simp [hij]

theorem runSchedule_todo_length {env : Env} (sched : List Nat) :
    ∀ (c c' : Cfg), runSchedule env c sched = some c' →
      c'.todo.length = c.todo.length ∧ c'.done.length = c.done.length := by
  induction sched with
  | nil =>
    intro c c' h
    simp only [runSchedule, Option.some.injEq] at h
    subst h; simp
  | cons j is ih =>
    intro c c' h
    obtain ⟨op, rest, hop, hrun⟩ := runSchedule_cons h
    have := ih _ _ hrun
    simpa using this

/-! ### interleavings are permutations of the program -/

theorem flatten_set_perm (ls : List (List Op)) :
    ∀ (i : Nat) (op : Op) (rest : List Op), ls[i]? = some (op :: rest) →
      ls.flatten.Perm (op :: (ls.set i rest).flatten) := by
  induction ls with
  | nil => intro i op rest h; simp at h
  | cons l ls ih =>
    intro i op rest h
    cases i with
    | zero =>
      simp only [List.getElem?_cons_zero, Option.some.injEq] at h
      subst h
      simp
    | succ i =>
      simp only [List.getElem?_cons_succ] at h
      have := ih i op rest h
      simp only [List.set_cons_succ, List.flatten_cons]
      exact ((List.Perm.append_left l this).trans List.perm_middle)

theorem flatten_all_nil (ls : List (List Op)) (h : ∀ l ∈ ls, l = []) : ls.flatten = [] := by
  induction ls with
  | nil => rfl
  | cons l ls ih =>
    have h1 : l = [] := h l (by simp)
    have h2 := ih (fun x hx => h x (by simp [hx]))
    simp [h1, h2]

theorem interleaving_perm {ls : List (List Op)} {l : List Op} (h : Interleaving ls l) :
    l.Perm ls.flatten := by
  induction h with
  | nil ls h => rw [flatten_all_nil ls h]
  | cons ls i op rest l hi _ ih =>
    exact (List.Perm.cons op ih).trans (flatten_set_perm ls i op rest hi).symm

/-- completeness of the schedule model: every order-preserving merge of the threads' programs is the
    induced order of some schedule, and that schedule runs to completion -/
theorem interleaving_exists_schedule {env : Env} {ls : List (List Op)} {l : List Op}
    (h : Interleaving ls l) :
    ∀ (s : State) (done : List (List (Outcome Val))),
      ∃ sched c', runSchedule env ⟨s, ls, done⟩ sched = some c' ∧ induced ls sched = l ∧
        ∀ x ∈ c'.todo, x = [] := by
  induction h with
  | nil ls h => intro s done; exact ⟨[], _, rfl, rfl, h⟩
  | cons ls i op rest l hi _ ih =>
    intro s done
    obtain ⟨sched, c', hrun, hind, hall⟩ := ih (step env s op).2
      (done.set i ((done[i]?.getD []) ++ [(step env s op).1]))
    refine ⟨i :: sched, c', ?_, ?_, hall⟩
    · simp only [runSchedule]
      rw [stepThread_of_todo (c := ⟨s, ls, done⟩) hi]
      exact hrun
    · simp only [induced, hi, hind]

/-! ### progress -/

/-- total number of calls still to make -/
def remaining (c : Cfg) : Nat := c.todo.flatten.length

theorem exists_pending_of_ne (ls : List (List Op)) (h : ¬ ∀ l ∈ ls, l = []) :
    ∃ (i : Nat) (op : Op) (rest : List Op), ls[i]? = some (op :: rest) := by
  induction ls with
  | nil => exact absurd (by simp) h
  | cons l ls ih =>
    cases l with
    | cons op rest => exact ⟨0, op, rest, rfl⟩
    | nil =>
      have : ¬ ∀ l ∈ ls, l = [] := by
        intro hh; apply h; intro x hx
        simp only [List.mem_cons] at hx
        rcases hx with rfl | hx
        · rfl
        · exact hh x hx
      obtain ⟨i, op, rest, hi⟩ := ih this
      exact ⟨i + 1, op, rest, by simpa using hi⟩

/-- every configuration can be run to completion (all calls return) -/
theorem exists_complete_schedule (env : Env) :
    ∀ (n : Nat) (c : Cfg), remaining c = n →
      ∃ sched c', runSchedule env c sched = some c' ∧ ∀ l ∈ c'.todo, l = [] := by
  intro n
  induction n with
  | zero =>
    intro c hc
    refine ⟨[], c, rfl, ?_⟩
    intro l hl
    unfold remaining at hc
    have : c.todo.flatten = [] := List.length_eq_zero_iff.mp hc
    rw [List.flatten_eq_nil_iff] at this
    exact this l hl
  | succ n ih =>
    intro c hc
    by_cases hall : ∀ l ∈ c.todo, l = []
    · exact ⟨[], c, rfl, hall⟩
    · obtain ⟨i, op, rest, hi⟩ := exists_pending_of_ne _ hall
      have hperm := flatten_set_perm c.todo i op rest hi
      have hlen := hperm.length_eq
      let c1 : Cfg := (after env c i op rest)
      have hr : remaining c1 = n := by
        unfold remaining at hc ⊢
        simp only [List.length_cons] at hlen
        show (c.todo.set i rest).flatten.length = n
        omega
      obtain ⟨sched, c', hrun, hdone⟩ := ih c1 hr
      refine ⟨i :: sched, c', ?_, hdone⟩
      simp only [runSchedule]
      rw [stepThread_of_todo hi]
      exact hrun

/-! ## Part B — `append_all` on the sequential model -/

/-! ### reading successful runs of the `M` monad -/

theorem bind_ok {α β} {m : M α} {f : α → M β} {s : State} {b : β} {s' : State}
    (h : (m >>= f) s = (.ok b, s')) : ∃ a s1, m s = (.ok a, s1) ∧ f a s1 = (.ok b, s') := by
  change M.bind m f s = _ at h
  unfold M.bind at h
  split at h
  · rename_i a s1 hm; exact ⟨a, s1, hm, h⟩
  all_goals (simp at h)

theorem pure_ok {α} {a b : α} {s s' : State} (h : (pure a : M α) s = (.ok b, s')) : a = b ∧ s = s' := by
  change M.pure a s = _ at h
  simp only [M.pure, Prod.mk.injEq, Outcome.ok.injEq] at h
  exact ⟨h.1, h.2⟩

theorem getEntry_ok {p : FsPath} {o : Option Entry} {s s' : State} (h : getEntry p s = (.ok o, s')) :
    o = alLookup p s.entries ∧ s = s' := by
  simp only [getEntry, Prod.mk.injEq, Outcome.ok.injEq] at h
  exact ⟨h.1.symm, h.2⟩

theorem getFile_ok {p : FsPath} {o : Option Bytes} {s s' : State} (h : getFile p s = (.ok o, s')) :
    o = alLookup p s.files ∧ s = s' := by
  simp only [getFile, Prod.mk.injEq, Outcome.ok.injEq] at h
  exact ⟨h.1.symm, h.2⟩

theorem alLookup_alInsert_self {β} (k : FsPath) (v : β) (l : List (FsPath × β)) :
    alLookup k (alInsert k v l) = some v := by
  induction l with
  | nil => simp [alInsert, alLookup]
  | cons x l ih =>
    obtain ⟨k', v'⟩ := x
    simp only [alInsert]
    split
    · simp [alLookup]
    · rename_i hne; simp [alLookup, hne, ih]

theorem ite_app {α β} (c : Prop) [Decidable c] (f g : α → β) (a : α) :
    (ite c f g) a = ite c (f a) (g a) := by
  split <;> rfl

theorem ite_ok {α β} {c : Prop} [Decidable c] {f g : α → β} {a : α} {r : β}
    (h : (ite c f g) a = r) : (c ∧ f a = r) ∨ (¬ c ∧ g a = r) := by
  by_cases hc : c
  · rw [if_pos hc] at h; exact .inl ⟨hc, h⟩
  · rw [if_neg hc] at h; exact .inr ⟨hc, h⟩

theorem fail_ok {α} {k : ErrKind} {s s' : State} {a : α} (h : M.fail k s = (.ok a, s')) : False := by
  simp [M.fail] at h

theorem modify_ok {f : State → State} {u : Unit} {s s' : State} (h : M.modify f s = (.ok u, s')) :
    s' = f s := by
  simp only [M.modify, Prod.mk.injEq] at h
  exact h.2.symm

theorem setFile_ok {p : FsPath} {b : Bytes} {u : Unit} {s s' : State} (h : setFile p b s = (.ok u, s')) :
    s' = { s with files := alInsert p b s.files } := modify_ok h

theorem setEntry_ok {p : FsPath} {e : Entry} {u : Unit} {s s' : State} (h : setEntry p e s = (.ok u, s')) :
    s' = { s with entries := alInsert p e s.entries } := modify_ok h

theorem liftO_ok {α} {o : Outcome α} {a : α} {s s' : State} (h : M.liftO o s = (.ok a, s')) :
    o = .ok a ∧ s = s' := by
  simp only [M.liftO, Prod.mk.injEq] at h
  exact h

theorem add_file_ok {e : Entry} {r : FsPath} {s s1 : State}
    (hf : e.file = true) (hl : e.link = false)
    (h : add e s = (.ok r, s1)) :
    s1.cwd = s.cwd ∧ (s1 = s ∨ (alLookup e.path s.entries = none ∧ alLookup e.path s1.files = some [])) := by
  unfold add at h
  rcases ite_ok h with ⟨_, h2⟩ | ⟨_, h2⟩
  · obtain ⟨-, rfl⟩ := pure_ok h2; exact ⟨rfl, .inl rfl⟩
  · clear h
    obtain ⟨od, s2, h1, h3⟩ := bind_ok h2
    clear h2
    obtain ⟨rfl, rfl⟩ := getEntry_ok h1
    cases hd : alLookup (List.dropLast e.path) s.entries with
    | none => rw [hd] at h3; exact (fail_ok h3).elim
    | some d =>
      rw [hd] at h3
      simp only at h3
      rcases ite_ok h3 with ⟨_, h4⟩ | ⟨_, h4⟩
      · exact (fail_ok h4).elim
      · clear h3
        obtain ⟨ox, s2, h5, h6⟩ := bind_ok h4
        clear h4
        obtain ⟨rfl, rfl⟩ := getEntry_ok h5
        cases hx : alLookup e.path s.entries with
        | some x =>
          rw [hx] at h6
          simp only at h6
          rcases ite_ok h6 with ⟨_, h7⟩ | ⟨_, h7⟩
          · exact (fail_ok h7).elim
          rcases ite_ok h7 with ⟨_, h8⟩ | ⟨_, h8⟩
          · exact (fail_ok h8).elim
          rcases ite_ok h8 with ⟨_, h9⟩ | ⟨_, h9⟩
          · exact (fail_ok h9).elim
          obtain ⟨-, rfl⟩ := pure_ok h9; exact ⟨rfl, .inl rfl⟩
        | none =>
          rw [hx] at h6
          simp only [hf, hl, Bool.not_false, Bool.and_self, if_true] at h6
          obtain ⟨u1, s2, h7, h8⟩ := bind_ok h6
          clear h6
          obtain ⟨u2, s3, h9, h10⟩ := bind_ok h8
          clear h8
          obtain ⟨op, s4, h11, h12⟩ := bind_ok h10
          clear h10
          obtain ⟨rfl, rfl⟩ := getEntry_ok h11
          have e2 := setFile_ok h7
          have e3 := setEntry_ok h9
          subst e2 e3
          cases hp : alLookup (List.dropLast e.path) (alInsert e.path e s.entries) with
          | none =>
            simp only [hp] at h12
            obtain ⟨-, rfl⟩ := pure_ok h12
            exact ⟨rfl, .inr ⟨rfl, alLookup_alInsert_self _ _ _⟩⟩
          | some parent =>
            simp only [hp] at h12
            obtain ⟨x, s5, h13, h14⟩ := bind_ok h12
            clear h12
            obtain ⟨-, rfl⟩ := liftO_ok h13
            obtain ⟨u3, s6, h15, h16⟩ := bind_ok h14
            clear h14
            have e6 := setEntry_ok h15
            subst e6
            rcases ite_ok h16 with ⟨_, h17⟩ | ⟨_, h17⟩
            · exact (fail_ok h17).elim
            obtain ⟨-, rfl⟩ := pure_ok h17
            exact ⟨rfl, .inr ⟨rfl, alLookup_alInsert_self _ _ _⟩⟩

theorem syncM_eq (p : FsPath) (data : Bytes) (s : State) :
    syncM p data s =
      match alLookup p s.entries with
      | some _ =>
        (match alLookup p s.files with
         | some _ => (.ok (), { s with files := alInsert p data s.files })
         | none => (.ok (), s))
      | none => (.err .ioNotFound, s) := by
  unfold syncM
  change M.bind (getEntry p) _ s = _
  unfold M.bind
  simp only [getEntry]
  cases alLookup p s.entries with
  | none => rfl
  | some e =>
    simp only
    change M.bind (getFile p) _ s = _
    unfold M.bind
    simp only [getFile]
    cases alLookup p s.files with
    | none => rfl
    | some b => rfl

theorem absM_ok {env : Env} {p : Str} {k : FsPath} {s s' : State} (h : absM env p s = (.ok k, s')) : s = s' := by
  unfold absM at h
  split at h <;> simp at h
  exact h.2

theorem appendAllM_ok {env : Env} {p : Str} {d : Bytes} {s s' : State} {u : Unit}
    (h : appendAllM env p d s = (.ok u, s')) :
    ∃ k b, absM env p s = (.ok k, s) ∧ s'.cwd = s.cwd ∧ (alLookup k s'.entries).isSome ∧
      alLookup k s'.files = some (b ++ d) ∧
      (match alLookup k s.entries with | some _ => alLookup k s.files = some b | none => b = []) := by
  unfold appendAllM at h
  obtain ⟨k, s1, h1, h2⟩ := bind_ok h
  clear h
  have := absM_ok h1
  subst this
  obtain ⟨r, s2, h3, h4⟩ := bind_ok h2
  clear h2
  obtain ⟨ob, s3, h5, h6⟩ := bind_ok h4
  clear h4
  obtain ⟨rfl, rfl⟩ := getFile_ok h5
  have hadd := add_file_ok (e := mkFileEntry k) rfl rfl h3
  cases hb : alLookup k s2.files with
  | none => rw [hb] at h6; exact (fail_ok h6).elim
  | some b =>
    rw [hb] at h6
    simp only at h6
    obtain ⟨u1, s4, h7, h8⟩ := bind_ok h6
    clear h6
    rw [syncM_eq] at h7
    cases he : alLookup k s2.entries with
    | none => rw [he] at h7; simp at h7
    | some ent =>
      rw [he, hb] at h7
      simp only [Prod.mk.injEq, true_and] at h7
      subst h7
      rw [syncM_eq] at h8
      simp only [he, alLookup_alInsert_self, Prod.mk.injEq, true_and] at h8
      subst h8
      refine ⟨k, b, h1, hadd.1, by simp [he], alLookup_alInsert_self _ _ _, ?_⟩
      rcases hadd.2 with rfl | ⟨hn, hs⟩
      · rw [he]; exact hb
      · have hn' : alLookup k s.entries = none := hn
        have hs' : alLookup k s2.files = some [] := hs
        rw [hn']
        rw [hb] at hs'
        simpa using hs'

/-! ### content of the appended file -/

/-- content of the file stored under key `k` -/
def contentOf (s : State) (k : FsPath) : Option Bytes := alLookup k s.files

/-- the key a user path resolves to in state `s` (`Memfs::_abs`; depends on `s.cwd` only) -/
def keyOf (env : Env) (s : State) (p : Str) : Option FsPath :=
  match absM env p s with
  | (.ok k, _) => some k
  | _ => none

/-- what the first successful `append_all` on key `k` appends to: the stored bytes when `k` has an
    entry, nothing when it has none (`_add` then creates the file with empty content) -/
def appendBase (s : State) (k : FsPath) : Bytes :=
  match alLookup k s.entries with
  | some _ => (contentOf s k).getD []
  | none => []

/-- the chunk an `append_all` call carries -/
def chunkOf : Op → Bytes
  | .appendAll _ d => d
  | _ => []

theorem keyOf_cwd {env : Env} {s s' : State} (h : s'.cwd = s.cwd) (p : Str) :
    keyOf env s' p = keyOf env s p := by
  unfold keyOf absM
  rw [h]
  cases absWith env (renderP s.cwd) p <;> rfl

theorem keyOf_of_absM {env : Env} {s s' : State} {p : Str} {k : FsPath} (h : absM env p s = (.ok k, s')) :
    keyOf env s p = some k := by
  unfold keyOf; rw [h]

theorem mapVal_ok {α} {f : α → Val} {m : M α} {s s' : State} {v : Val}
    (h : mapVal f m s = (.ok v, s')) : ∃ a, m s = (.ok a, s') := by
  unfold mapVal at h
  split at h
  · rename_i a s1 hm
    simp only [Prod.mk.injEq] at h
    exact ⟨a, by rw [hm, h.2]⟩
  all_goals simp at h

/-- the sequential content fact for one successful `append_all` -/
theorem step_appendAll_ok {env : Env} {p : Str} {d : Bytes} {s : State} {k : FsPath}
    (hk : keyOf env s p = some k)
    (hok : (step env s (.appendAll p d)).1.isOk = true) :
    (step env s (.appendAll p d)).2.cwd = s.cwd ∧
    (alLookup k (step env s (.appendAll p d)).2.entries).isSome = true ∧
    contentOf (step env s (.appendAll p d)).2 k = some (appendBase s k ++ d) := by
  cases hst : step env s (.appendAll p d) with
  | mk o s' =>
    rw [hst] at hok
    cases o with
    | ok v =>
      have h1 : mapVal (fun _ => Val.unit) (appendAllM env p d) s = (.ok v, s') := hst
      obtain ⟨u, h2⟩ := mapVal_ok h1
      obtain ⟨k', b, habs, hcwd, hent, hfile, hbase⟩ := appendAllM_ok h2
      have : k' = k := by
        have := keyOf_of_absM habs
        rw [hk] at this
        exact (Option.some.inj this).symm
      subst this
      refine ⟨hcwd, hent, ?_⟩
      show alLookup k' s'.files = _
      rw [hfile]
      unfold appendBase contentOf
      cases he : alLookup k' s.entries with
      | none => rw [he] at hbase; simp [hbase]
      | some e => rw [he] at hbase; simp [hbase]
    | err _ => simp [Outcome.isOk] at hok
    | panic => simp [Outcome.isOk] at hok
    | hang => simp [Outcome.isOk] at hok

/-- a run of successful appends to one path on a state where the file exists -/
theorem runSeq_appends_existing {env : Env} {p : Str} {k : FsPath} (ops : List Op) :
    ∀ (s : State) (c : Bytes),
      (∀ op ∈ ops, ∃ d, op = .appendAll p d) →
      (∀ o ∈ (runSeq env s ops).2, o.isOk = true) →
      keyOf env s p = some k →
      (alLookup k s.entries).isSome = true → contentOf s k = some c →
      contentOf (runSeq env s ops).1 k = some (c ++ (ops.map chunkOf).flatten) := by
  induction ops with
  | nil => intro s c _ _ _ _ hc; simpa [runSeq] using hc
  | cons op ops ih =>
    intro s c hops hok hk he hc
    obtain ⟨d, rfl⟩ := hops op (by simp)
    rw [runSeq_cons] at hok ⊢
    have hok1 : (step env s (.appendAll p d)).1.isOk = true := hok _ (by simp)
    obtain ⟨hcwd, hent, hcont⟩ := step_appendAll_ok hk hok1
    have hbase : appendBase s k = c := by
      unfold appendBase
      cases h : alLookup k s.entries with
      | none => rw [h] at he; simp at he
      | some e => simp [hc]
    rw [hbase] at hcont
    have := ih (step env s (.appendAll p d)).2 (c ++ d)
      (fun op h => hops op (by simp [h]))
      (fun o h => hok o (by simp [h]))
      (by rw [keyOf_cwd hcwd]; exact hk) hent hcont
    simp only [this, List.map_cons, chunkOf, List.flatten_cons, List.append_assoc]

/-- a non-empty run of successful appends to one path -/
theorem runSeq_appends {env : Env} {p : Str} {k : FsPath} (op : Op) (ops : List Op) (s : State)
    (hops : ∀ x ∈ op :: ops, ∃ d, x = .appendAll p d)
    (hok : ∀ o ∈ (runSeq env s (op :: ops)).2, o.isOk = true)
    (hk : keyOf env s p = some k) :
    contentOf (runSeq env s (op :: ops)).1 k =
      some (appendBase s k ++ ((op :: ops).map chunkOf).flatten) := by
  obtain ⟨d, rfl⟩ := hops op (by simp)
  rw [runSeq_cons] at hok ⊢
  have hok1 : (step env s (.appendAll p d)).1.isOk = true := hok _ (by simp)
  obtain ⟨hcwd, hent, hcont⟩ := step_appendAll_ok hk hok1
  have := runSeq_appends_existing (env := env) (p := p) (k := k) ops (step env s (.appendAll p d)).2 _
      (fun op h => hops op (by simp [h]))
      (fun o h => hok o (by simp [h]))
      (by rw [keyOf_cwd hcwd]; exact hk) hent hcont
  simp only [this, List.map_cons, chunkOf, List.flatten_cons, List.append_assoc]

/-- successful appends never move the working directory, so the key of `p` is stable along the run -/
theorem runSeq_appends_cwd {env : Env} {p : Str} {k : FsPath} (ops : List Op) :
    ∀ (s : State),
      (∀ op ∈ ops, ∃ d, op = .appendAll p d) →
      (∀ o ∈ (runSeq env s ops).2, o.isOk = true) →
      keyOf env s p = some k →
      (runSeq env s ops).1.cwd = s.cwd := by
  induction ops with
  | nil => intro s _ _ _; simp [runSeq]
  | cons op ops ih =>
    intro s hops hok hk
    obtain ⟨d, rfl⟩ := hops op (by simp)
    rw [runSeq_cons] at hok ⊢
    have hok1 : (step env s (.appendAll p d)).1.isOk = true := hok _ (by simp)
    obtain ⟨hcwd, -, -⟩ := step_appendAll_ok hk hok1
    have := ih (step env s (.appendAll p d)).2
      (fun op h => hops op (by simp [h]))
      (fun o h => hok o (by simp [h]))
      (by rw [keyOf_cwd hcwd]; exact hk)
    simp only [this, hcwd]

/-! ### from the per-thread result lists back to the sequential results -/

theorem inducedTagged_tag_lt (sched : List Nat) :
    ∀ (todo : List (List Op)), ∀ x ∈ inducedTagged todo sched, x.1 < todo.length := by
  induction sched with
  | nil => intro todo x hx; simp [inducedTagged] at hx
  | cons i is ih =>
    intro todo x hx
    simp only [inducedTagged] at hx
    split at hx
    · rename_i op rest hop
      have hlt : i < todo.length := by
        rcases Nat.lt_or_ge i todo.length with h | h
        · exact h
        · simp [List.getElem?_eq_none h] at hop
      simp only [List.mem_cons] at hx
      rcases hx with rfl | hx
      · exact hlt
      · simpa using ih _ x hx
    · simp at hx

/-- every result of the sequential run is recorded in the result list of the thread that made the call -/
theorem runSchedule_results_mem_done {env : Env} {s : State} {todo : List (List Op)} {sched : List Nat}
    {c' : Cfg} (h : runSchedule env ⟨s, todo, todo.map (fun _ => [])⟩ sched = some c')
    {o : Outcome Val} (ho : o ∈ (runSeq env s (induced todo sched)).2) :
    ∃ l ∈ c'.done, o ∈ l := by
  have hlen : (runSeq env s (induced todo sched)).2.length ≤ (inducedTagged todo sched).length := by
    rw [runSeq_length, ← inducedTagged_map_snd, List.length_map]; exact Nat.le_refl _
  rw [← List.map_snd_zip (l₁ := inducedTagged todo sched) hlen] at ho
  obtain ⟨x, hx, rfl⟩ := List.mem_map.mp ho
  have htag : x.1 ∈ inducedTagged todo sched := (List.of_mem_zip hx).1
  have hlt := inducedTagged_tag_lt sched todo _ htag
  have hd := runSchedule_done sched s todo _ c' h x.1.1
  have h0 : (todo.map (fun _ => ([] : List (Outcome Val))))[x.1.1]? = some [] := by
    simp [List.getElem?_map, List.getElem?_eq_getElem hlt]
  rw [h0] at hd
  simp only [Option.map_some, List.nil_append] at hd
  refine ⟨_, List.mem_of_getElem? hd, ?_⟩
  unfold resultsOf
  exact List.mem_filterMap.mpr ⟨x, hx, by simp⟩

/-- content after a complete schedule of successful appends to one path (C04, item 3) -/
theorem appends_content {env : Env} {s : State} {todo : List (List Op)}
    {sched : List Nat} {c' : Cfg} {p : Str} {k : FsPath}
    (h : runSchedule env ⟨s, todo, todo.map (fun _ => [])⟩ sched = some c')
    (hcomplete : ∀ l ∈ c'.todo, l = [])
    (happ : ∀ l ∈ todo, ∀ op ∈ l, ∃ d, op = .appendAll p d)
    (hok : ∀ l ∈ c'.done, ∀ o ∈ l, o.isOk = true)
    (hk : keyOf env s p = some k)
    (hne : todo.flatten ≠ []) :
    contentOf c'.st k = some (appendBase s k ++ ((induced todo sched).map chunkOf).flatten) ∧
    ((induced todo sched).map chunkOf).Perm (todo.flatten.map chunkOf) ∧
    keyOf env c'.st p = some k := by
  have hst := runSchedule_state sched s todo _ c' h
  have hint : Interleaving todo (induced todo sched) := by
    simpa using runSchedule_interleaving_ext sched s todo _ c' h [] (Interleaving.nil _ hcomplete)
  have hperm := interleaving_perm hint
  have hops : ∀ x ∈ induced todo sched, ∃ d, x = .appendAll p d := by
    intro x hx
    have := hperm.mem_iff.mp hx
    obtain ⟨l, hl, hxl⟩ := List.mem_flatten.mp this
    exact happ l hl x hxl
  have hres : ∀ o ∈ (runSeq env s (induced todo sched)).2, o.isOk = true := by
    intro o ho
    obtain ⟨l, hl, hol⟩ := runSchedule_results_mem_done h ho
    exact hok l hl o hol
  refine ⟨?_, hperm.map _, ?_⟩
  · rw [hst]
    cases hi : induced todo sched with
    | nil => rw [hi] at hperm; exact absurd hperm.symm.eq_nil hne
    | cons op ops =>
      rw [hi] at hops hres
      exact runSeq_appends op ops s hops hres hk
  · rw [hst, keyOf_cwd (runSeq_appends_cwd _ s hops hres hk)]
    exact hk

/-! ### `append_all` never changes the working directory (any outcome) -/

/-- the computation never changes the working directory, whatever its outcome -/
def PresCwd {α} (m : M α) : Prop := ∀ s, (m s).2.cwd = s.cwd

theorem PresCwd.bind {α β} {m : M α} {f : α → M β} (hm : PresCwd m) (hf : ∀ a, PresCwd (f a)) :
    PresCwd (m >>= f) := by
  intro s
  change (M.bind m f s).2.cwd = _
  unfold M.bind
  have := hm s
  cases hms : m s with
  | mk o s1 =>
    rw [hms] at this
    cases o with
    | ok a => simp only; rw [hf a s1]; exact this
    | err _ => exact this
    | panic => exact this
    | hang => exact this

theorem PresCwd.pure {α} (a : α) : PresCwd (pure a : M α) := fun _ => rfl
theorem PresCwd.fail {α} (k : ErrKind) : PresCwd (M.fail k : M α) := fun _ => rfl
theorem PresCwd.getEntry (p : FsPath) : PresCwd (getEntry p) := fun _ => rfl
theorem PresCwd.getFile (p : FsPath) : PresCwd (getFile p) := fun _ => rfl
theorem PresCwd.setEntry (p : FsPath) (e : Entry) : PresCwd (setEntry p e) := fun _ => rfl
theorem PresCwd.setFile (p : FsPath) (b : Bytes) : PresCwd (setFile p b) := fun _ => rfl
theorem PresCwd.liftO {α} (o : Outcome α) : PresCwd (M.liftO o) := fun _ => rfl
theorem PresCwd.ite {α} {c : Prop} [Decidable c] {a b : M α} (ha : PresCwd a) (hb : PresCwd b) :
    PresCwd (if c then a else b) := by
  split <;> assumption

theorem PresCwd.absM (env : Env) (p : Str) : PresCwd (absM env p) := by
  intro s
  unfold Memfs.absM
  cases absWith env (renderP s.cwd) p <;> rfl

theorem PresCwd.add (e : Entry) : PresCwd (add e) := by
  unfold Memfs.add
  refine .ite (.pure _) (.bind (.getEntry _) fun od => ?_)
  split
  · refine .ite (.fail _) (.bind (.getEntry _) fun ox => ?_)
    split
    · exact .ite (.fail _) (.ite (.fail _) (.ite (.fail _) (.pure _)))
    · have hjp : ∀ u : Unit, PresCwd (do
            Memfs.setEntry e.path e
            match (← Memfs.getEntry e.path.dropLast) with
            | some parent =>
              let (isNew, parent') ← M.liftO (parent.addChild (baseName e.path))
              Memfs.setEntry e.path.dropLast parent'
              if !isNew then M.fail .existsAlready else return e.path
            | none => return e.path) := by
        intro u
        refine .bind (.setEntry _ _) fun _ => .bind (.getEntry _) fun op => ?_
        split
        · refine .bind (.liftO _) fun x => ?_
          exact .bind (.setEntry _ _) fun _ => .ite (.fail _) (.pure _)
        · exact .pure _
      refine .ite (.bind (.setFile _ _) fun u => hjp u) (hjp ())
  · exact .fail _

theorem PresCwd.syncM (p : FsPath) (data : Bytes) : PresCwd (syncM p data) := by
  intro s
  rw [syncM_eq]
  cases alLookup p s.entries with
  | none => rfl
  | some _ => cases alLookup p s.files <;> rfl

theorem PresCwd.appendAllM (env : Env) (p : Str) (d : Bytes) : PresCwd (appendAllM env p d) := by
  unfold Memfs.appendAllM
  refine .bind (.absM _ _) fun k => .bind (.add _) fun _ => .bind (.getFile _) fun ob => ?_
  split
  · refine .bind (.syncM _ _) fun _ => ?_
    intro s
    exact PresCwd.syncM _ _ s
  · exact .fail _

theorem mapVal_snd {α} (f : α → Val) (m : M α) (s : State) : (mapVal f m s).2 = (m s).2 := by
  unfold mapVal
  split <;> simp_all

/-- `append_all` never changes the working directory, whatever it returns -/
theorem step_appendAll_cwd (env : Env) (s : State) (p : Str) (d : Bytes) :
    (step env s (.appendAll p d)).2.cwd = s.cwd := by
  show (mapVal (fun _ => Val.unit) (appendAllM env p d) s).2.cwd = _
  rw [mapVal_snd]
  exact PresCwd.appendAllM env p d s

end Rivia.Lemmas

namespace Rivia.Lemmas
open Rivia Rivia.Memfs Rivia.Conc Rivia.File

/-! ### domain predicate and witnesses for the content statement -/

/-- no orphan data under `k`: stored bytes only where there is an entry (decidable; part of the
    C03 index-agreement invariant, true of every state reached from `Memfs.init`) -/
def NoOrphan (s : State) (k : FsPath) : Prop :=
  (alLookup k s.entries).isSome = true ∨ contentOf s k = none

instance (s : State) (k : FsPath) : Decidable (NoOrphan s k) := by
  unfold NoOrphan; exact inferInstance

theorem appendBase_of_noOrphan {s : State} {k : FsPath} (h : NoOrphan s k) :
    appendBase s k = (contentOf s k).getD [] := by
  unfold appendBase
  cases he : alLookup k s.entries with
  | some e => rfl
  | none =>
    rcases h with h | h
    · rw [he] at h; simp at h
    · simp [h]

/-- an environment without variables -/
def env0 : Env := fun _ => none

/-- an orphan state: bytes stored under `/f` but no entry for it (violates the C03 invariant) -/
def orphan : State := { Memfs.init with files := [([['f']], [1])] }

/-- a two-thread program of appends to `/f` (non-vacuity witness) -/
def appendProg : List (List Op) :=
  [[.appendAll ['/', 'f'] [1], .appendAll ['/', 'f'] [2]], [.appendAll ['/', 'f'] [3]]]

end Rivia.Lemmas
