/- COPY of Rivia/Lemmas/FuelMove.lean in the namespace `Rivia.Lemmas.Ret` (nothing else changed): the original
   cannot be imported together with Rivia/Lemmas/CopyMove.lean (the C01R / C01C family), both declare
   `Rivia.Lemmas.alLookup_of_mem`, `WfKey`, ….  Used by Props/C12R only. -/
/-
  Rivia.Lemmas.FuelMove — `move_p` never exhausts its fuel, provided the destination keys computed
  by `dstOf` lie outside the source subtree (true whenever names are well-formed; stated as an
  explicit decidable hypothesis because `Spec.Inv` says nothing about the characters of names).

  Potential: Φ(l, W) = Σ over the worklist of the number of entries at/under that path.
-/
import Rivia.Lemmas.ReturnsFuelRemove
import Rivia.Lemmas.MovedEntry

namespace Rivia.Lemmas.Ret
open Rivia Rivia.Memfs Rivia.Memfs.M Rivia.File

/-! ### counting entries under a path -/

/-- number of entries at or under `x` -/
def cnt (l : Ents) (x : FsPath) : Nat := l.countP (fun kv => x <+: kv.1)

theorem mem_alErase {β} {k k0 : FsPath} {v : β} {l : List (FsPath × β)} (h : (k, v) ∈ alErase k0 l) :
    (k, v) ∈ l := by
  induction l with
  | nil => simp [alErase] at h
  | cons kv l ih =>
    obtain ⟨k', v'⟩ := kv
    simp only [alErase] at h
    split at h
    · exact List.mem_cons_of_mem _ h
    · rcases List.mem_cons.1 h with h | h
      · rw [h]; exact List.mem_cons_self
      · exact List.mem_cons_of_mem _ (ih h)

theorem mem_alInsert {β} {k k0 : FsPath} {v v0 : β} {l : List (FsPath × β)}
    (h : (k, v) ∈ alInsert k0 v0 l) : (k, v) = (k0, v0) ∨ (k, v) ∈ l := by
  induction l with
  | nil => simp only [alInsert, List.mem_singleton] at h; exact .inl h
  | cons kv l ih =>
    obtain ⟨k', v'⟩ := kv
    simp only [alInsert] at h
    split at h
    · rcases List.mem_cons.1 h with h | h
      · exact .inl h
      · exact .inr (List.mem_cons_of_mem _ h)
    · rcases List.mem_cons.1 h with h | h
      · rw [h]; exact .inr List.mem_cons_self
      · rcases ih h with h | h
        · exact .inl h
        · exact .inr (List.mem_cons_of_mem _ h)

theorem countP_alErase_le {β} (r : FsPath → Bool) (k0 : FsPath) (l : List (FsPath × β)) :
    (alErase k0 l).countP (fun kv => r kv.1) ≤ l.countP (fun kv => r kv.1) := by
  induction l with
  | nil => simp [alErase]
  | cons kv l ih =>
    obtain ⟨k', v'⟩ := kv
    simp only [alErase]
    split
    · rw [List.countP_cons]; omega
    · rw [List.countP_cons, List.countP_cons]; omega

theorem countP_alInsert_not {β} (r : FsPath → Bool) {k0 : FsPath} (h : r k0 = false) (v0 : β)
    (l : List (FsPath × β)) :
    (alInsert k0 v0 l).countP (fun kv => r kv.1) = l.countP (fun kv => r kv.1) := by
  induction l with
  | nil => simp [alInsert, h]
  | cons kv l ih =>
    obtain ⟨k', v'⟩ := kv
    simp only [alInsert]
    split
    · rename_i hk; subst hk
      rw [List.countP_cons, List.countP_cons]
    · rw [List.countP_cons, List.countP_cons, ih]

theorem countP_alInsert_mem {β} (r : FsPath → Bool) {k0 : FsPath} {v : β} (v0 : β)
    {l : List (FsPath × β)} (h : alLookup k0 l = some v) :
    (alInsert k0 v0 l).countP (fun kv => r kv.1) = l.countP (fun kv => r kv.1) := by
  induction l with
  | nil => simp [alLookup] at h
  | cons kv l ih =>
    obtain ⟨k', v'⟩ := kv
    simp only [alLookup] at h
    simp only [alInsert]
    split
    · rename_i hk; subst hk
      rw [List.countP_cons, List.countP_cons]
    · rename_i hk
      rw [if_neg hk] at h
      rw [List.countP_cons, List.countP_cons, ih h]

/-! ### how one iteration may change the entry map, as far as the source subtree can see -/

/-- `l'` has, at/under `root`, only entries of `l` (same `path`, child names a sublist), and no
    more entries under any path below `root` than `l` -/
structure Sub (root : FsPath) (l l' : Ents) : Prop where
  count : ∀ x, root <+: x → cnt l' x ≤ cnt l x
  ents : ∀ k e', (k, e') ∈ l' → root <+: k →
    ∃ e, (k, e) ∈ l ∧ e'.path = e.path ∧ (names e').Sublist (names e)

theorem Sub.erase (root : FsPath) (l : Ents) (w : FsPath) : Sub root l (alErase w l) :=
  ⟨fun x _ => countP_alErase_le (fun k => x <+: k) w l,
   fun _ e' h _ => ⟨e', mem_alErase h, rfl, List.Sublist.refl _⟩⟩

theorem prefix_trans_not {root x k : FsPath} (hx : root <+: x) (hk : ¬ root <+: k) : ¬ x <+: k :=
  fun h => hk (hx.trans h)

theorem Sub.insert_out {root : FsPath} {l l0 : Ents} (h : Sub root l l0) {k : FsPath}
    (hk : ¬ root <+: k) (v : Entry) : Sub root l (alInsert k v l0) := by
  refine ⟨fun x hx => ?_, fun k' e' hm hu => ?_⟩
  · have : cnt (alInsert k v l0) x = cnt l0 x :=
      countP_alInsert_not (fun k => x <+: k) (by simpa using prefix_trans_not hx hk) v l0
    rw [this]; exact h.count x hx
  · rcases mem_alInsert hm with heq | hm
    · cases heq; exact absurd hu hk
    · exact h.ents k' e' hm hu

theorem Sub.insert_upd {root : FsPath} {l l0 : Ents} (h : Sub root l l0) {k : FsPath} {e0 v : Entry}
    (hl : alLookup k l0 = some e0) (hp : v.path = e0.path) (hn : (names v).Sublist (names e0)) :
    Sub root l (alInsert k v l0) := by
  refine ⟨fun x hx => ?_, fun k' e' hm hu => ?_⟩
  · have : cnt (alInsert k v l0) x = cnt l0 x := countP_alInsert_mem (fun k => x <+: k) v hl
    rw [this]; exact h.count x hx
  · rcases mem_alInsert hm with heq | hm
    · cases heq
      obtain ⟨e, he, hpe, hne⟩ := h.ents k e0 (alLookup_some_mem hl) hu
      exact ⟨e, he, hp.trans hpe, hn.trans hne⟩
    · exact h.ents k' e' hm hu

/-! ### invariant and potential of `moveLoop` -/

structure MInv (root : FsPath) (good : FsPath → Prop) (l : Ents) (W : List FsPath) : Prop where
  ents : ∀ k e, (k, e) ∈ l → root <+: k → e.path = k ∧ (names e).Nodup ∧ good k
  under : ∀ w ∈ W, root <+: w

def PhiM (l : Ents) (W : List FsPath) : Nat := (W.map (cnt l)).sum

theorem sum_map_add {α} (a b : α → Nat) (N : List α) :
    (N.map (fun n => a n + b n)).sum = (N.map a).sum + (N.map b).sum := by
  induction N with
  | nil => rfl
  | cons n N ih => simp only [List.map_cons, List.sum_cons, ih]; omega

theorem sum_map_zero {α} (f : α → Nat) (N : List α) (h : ∀ n ∈ N, f n = 0) : (N.map f).sum = 0 := by
  induction N with
  | nil => rfl
  | cons n N ih =>
    simp only [List.map_cons, List.sum_cons, h n List.mem_cons_self,
      ih (fun n hn => h n (List.mem_cons_of_mem _ hn))]

/-- number of listed children of `w` that are a prefix of `k` -/
def kidHits (w : FsPath) (N : List Str) (k : FsPath) : Nat :=
  (N.map (fun n => if w ++ [n] <+: k then 1 else 0)).sum

/-- at most one child of `w` is a prefix of a given key -/
theorem kidHits_le_one (w k : FsPath) (N : List Str) (nd : N.Nodup) : kidHits w N k ≤ 1 := by
  unfold kidHits
  induction N with
  | nil => simp
  | cons n N ih =>
    rw [List.nodup_cons] at nd
    simp only [List.map_cons, List.sum_cons]
    split
    · rename_i hn
      have : (N.map (fun n => if w ++ [n] <+: k then 1 else 0)).sum = 0 := by
        apply sum_map_zero
        intro n' hn'
        rw [if_neg]
        intro hn2
        have := List.prefix_of_prefix_length_le hn hn2 (by simp)
        have := (snoc_inj (this.eq_of_length (by simp))).2
        exact nd.1 (this ▸ hn')
      omega
    · have := ih nd.2
      omega

theorem kidHits_zero {w k : FsPath} (N : List Str) (h : ¬ w <+: k ∨ k = w) : kidHits w N k = 0 := by
  unfold kidHits
  apply sum_map_zero
  intro n _
  rw [if_neg]
  intro h3
  rcases h with h | h
  · exact h ((List.prefix_append w [n]).trans h3)
  · subst h
    have := h3.length_le
    simp at this
    omega

theorem kids_count_le (l : Ents) (w : FsPath) (N : List Str) (nd : N.Nodup) :
    (N.map (fun n => cnt l (w ++ [n]))).sum + l.countP (fun kv => kv.1 = w) ≤ cnt l w := by
  induction l with
  | nil => simp [cnt, sum_map_zero]
  | cons kv l ih =>
    have hsplit : (N.map (fun n => cnt (kv :: l) (w ++ [n]))).sum =
        kidHits w N kv.1 + (N.map (fun n => cnt l (w ++ [n]))).sum := by
      unfold kidHits
      rw [← sum_map_add]
      congr 1
      apply List.map_congr_left
      intro n _
      unfold cnt
      rw [List.countP_cons]
      simp only [decide_eq_true_eq]
      omega
    have h3 : cnt (kv :: l) w = cnt l w + (if w <+: kv.1 then 1 else 0) := by
      unfold cnt; rw [List.countP_cons]; simp only [decide_eq_true_eq]
    have h4 : (kv :: l).countP (fun kv => kv.1 = w) =
        l.countP (fun kv => kv.1 = w) + (if kv.1 = w then 1 else 0) := by
      rw [List.countP_cons]; simp only [decide_eq_true_eq]
    rw [hsplit, h3, h4]
    have h1 := kidHits_le_one w kv.1 N nd
    by_cases hw : kv.1 = w
    · rw [kidHits_zero N (.inr hw), if_pos hw, if_pos (hw ▸ List.prefix_refl _)]
      omega
    · rw [if_neg hw]
      by_cases hp : w <+: kv.1
      · rw [if_pos hp]; omega
      · rw [kidHits_zero N (.inl hp), if_neg hp]; omega

theorem kids_count_lt (l : Ents) (w : FsPath) (N : List Str) (nd : N.Nodup) {e : Entry}
    (hw : (w, e) ∈ l) : (N.map (fun n => cnt l (w ++ [n]))).sum < cnt l w := by
  have h1 := kids_count_le l w N nd
  have h2 : 0 < l.countP (fun kv => kv.1 = w) :=
    List.countP_pos_iff.2 ⟨(w, e), hw, by simp⟩
  omega

/-- the paths `moveLoop` pushes after moving `e` -/
def kidsOf (e : Entry) : List FsPath :=
  match e.files with
  | some fs => fs.map (fun n => e.path ++ [n])
  | none => []

theorem kidsOf_eq (e : Entry) : kidsOf e = (names e).map (fun n => e.path ++ [n]) := by
  unfold kidsOf names
  cases e.files <;> rfl

theorem sum_reverse (L : List Nat) : L.reverse.sum = L.sum := by
  induction L with
  | nil => rfl
  | cons a L ih => simp [ih]; omega

theorem move_post {root : FsPath} {good : FsPath → Prop} {l l' : Ents} {w : FsPath}
    {work : List FsPath} {e : Entry} (inv : MInv root good l (w :: work)) (hw : (w, e) ∈ l)
    (hsub : Sub root l l') :
    MInv root good l' ((kidsOf e).reverse ++ work) ∧
    PhiM l' ((kidsOf e).reverse ++ work) < PhiM l (w :: work) := by
  have hwu : root <+: w := inv.under w List.mem_cons_self
  obtain ⟨hpath, hnd, _⟩ := inv.ents w e hw hwu
  have hkids : kidsOf e = (names e).map (fun n => w ++ [n]) := by rw [kidsOf_eq, hpath]
  have hunder : ∀ x ∈ (kidsOf e).reverse ++ work, root <+: x := by
    intro x hx
    rcases List.mem_append.1 hx with hx | hx
    · rw [List.mem_reverse, hkids] at hx
      obtain ⟨n, _, rfl⟩ := List.mem_map.1 hx
      exact hwu.trans (List.prefix_append _ _)
    · exact inv.under x (List.mem_cons_of_mem _ hx)
  refine ⟨⟨?_, hunder⟩, ?_⟩
  · intro k e' hm hu
    obtain ⟨e0, he0, hp, hn⟩ := hsub.ents k e' hm hu
    obtain ⟨h1, h2, h3⟩ := inv.ents k e0 he0 hu
    exact ⟨hp.trans h1, List.Nodup.sublist hn h2, h3⟩
  · unfold PhiM
    have h1 : (((kidsOf e).reverse ++ work).map (cnt l')).sum ≤
        (((kidsOf e).reverse ++ work).map (cnt l)).sum :=
      sum_map_le _ _ _ (fun x hx => hsub.count x (hunder x hx))
    have h2 : (((kidsOf e).reverse ++ work).map (cnt l)).sum =
        ((names e).map (fun n => cnt l (w ++ [n]))).sum + (work.map (cnt l)).sum := by
      rw [List.map_append, List.sum_append, List.map_reverse, sum_reverse, hkids, List.map_map]
      rfl
    have h3 := kids_count_lt l w (names e) hnd hw
    simp only [List.map_cons, List.sum_cons]
    omega

/-! ### weakest preconditions for "does not hang" -/

/-- if `m` returns `Ok` from `s`, the result and the new state satisfy `Q`; and `m` does not hang -/
def wp {α} (m : M α) (s : State) (Q : α → State → Prop) : Prop :=
  match m s with
  | (.ok a, s') => Q a s'
  | (.err _, _) => True
  | (.panic, _) => True
  | (.hang, _) => False

theorem wp_ne_hang {α} {m : M α} {s : State} {Q : α → State → Prop} (h : wp m s Q) :
    (m s).1 ≠ .hang := by
  unfold wp at h
  split at h <;> simp_all

theorem wp_of_ne_hang {α} {m : M α} {s : State} (h : (m s).1 ≠ .hang) : wp m s (fun _ _ => True) := by
  unfold wp
  split <;> simp_all

theorem wp_bind {α β} {m : M α} {f : α → M β} {s : State} {Q : β → State → Prop}
    (h : wp m s (fun a s' => wp (f a) s' Q)) : wp (M.bind m f) s Q := by
  unfold wp M.bind at *
  split at h <;> simp_all

/-- compact state updates (kept folded so that goals stay readable) -/
def withEntries (s : State) (l : Ents) : State := { s with entries := l }
def withFiles (s : State) (l : List (FsPath × Bytes)) : State := { s with files := l }

@[simp] theorem withEntries_entries (s : State) (l : Ents) : (withEntries s l).entries = l := rfl
@[simp] theorem withEntries_files (s : State) (l : Ents) : (withEntries s l).files = s.files := rfl
@[simp] theorem withFiles_entries (s : State) (l : List (FsPath × Bytes)) :
    (withFiles s l).entries = s.entries := rfl
@[simp] theorem withFiles_files (s : State) (l : List (FsPath × Bytes)) : (withFiles s l).files = l := rfl

theorem wp_pure {α} {a : α} {s : State} {Q : α → State → Prop} (h : Q a s) : wp (M.pure a) s Q := h
theorem wp_fail {α} {k : ErrKind} {s : State} {Q : α → State → Prop} : wp (M.fail k) s Q := trivial
theorem wp_getEntry {p : FsPath} {s : State} {Q : Option Entry → State → Prop}
    (h : Q (alLookup p s.entries) s) : wp (getEntry p) s Q := h
theorem wp_setEntry {p : FsPath} {e : Entry} {s : State} {Q : Unit → State → Prop}
    (h : Q () (withEntries s (alInsert p e s.entries))) : wp (setEntry p e) s Q := h
theorem wp_removeEntry {p : FsPath} {s : State} {Q : Option Entry → State → Prop}
    (h : Q (alLookup p s.entries) (withEntries s (alErase p s.entries))) :
    wp (removeEntry p) s Q := h
theorem wp_getFile {p : FsPath} {s : State} {Q : Option Bytes → State → Prop}
    (h : Q (alLookup p s.files) s) : wp (getFile p) s Q := h
theorem wp_setFile {p : FsPath} {b : Bytes} {s : State} {Q : Unit → State → Prop}
    (h : Q () (withFiles s (alInsert p b s.files))) : wp (setFile p b) s Q := h
theorem wp_removeFile {p : FsPath} {s : State} {Q : Option Bytes → State → Prop}
    (h : Q (alLookup p s.files) (withFiles s (alErase p s.files))) : wp (removeFile p) s Q := h
theorem wp_dirOf {p : FsPath} {s : State} {Q : FsPath → State → Prop}
    (h : p ≠ [] → Q p.dropLast s) : wp (dirOf p) s Q := by
  unfold Memfs.dirOf
  split
  · exact wp_fail
  · rename_i hp; exact wp_pure (h hp)
theorem wp_movedRelM {e : Entry} {dst : FsPath} {s : State} {Q : Str → State → Prop}
    (h : Q (movedRel e dst) s) : wp (movedRelM e dst) s Q := by
  unfold wp
  rcases movedRelM_cases e dst s with h1 | ⟨_, _, h1⟩
  · rw [h1]; exact h
  · rw [h1]; trivial
theorem wp_liftO {α} {o : Outcome α} {s : State} {Q : α → State → Prop} (hf : Fine o)
    (h : ∀ a, o = .ok a → Q a s) : wp (liftO o) s Q := by
  unfold wp M.liftO
  rcases fine_cases hf with ⟨a, ha⟩ | ⟨k, hk⟩
  · rw [ha]; exact h a ha
  · rw [hk]; trivial

/-- `wp_tac_with t`: symbolic execution of a `do` block; `t` is tried first on every goal (used to
    close the goals at recursive calls) -/
syntax "wp_tac_with " tactic : tactic
macro_rules
  | `(tactic| wp_tac_with $t:tactic) => `(tactic| repeat' (first
      | ($t:tactic)
      | simp only [withEntries_entries, withEntries_files, withFiles_entries, withFiles_files]
      | with_reducible exact wp_fail
      | with_reducible apply wp_bind
      | with_reducible apply wp_getEntry | with_reducible apply wp_setEntry
      | with_reducible apply wp_removeEntry | with_reducible apply wp_getFile
      | with_reducible apply wp_setFile | with_reducible apply wp_removeFile
      | with_reducible apply wp_dirOf
      | with_reducible apply wp_movedRelM
      | with_reducible apply wp_liftO (removeChild_fine _ _)
      | with_reducible apply wp_liftO (addChild_fine _ _)
      | with_reducible apply wp_pure
      | intro _
      | split
      | dsimp only))

/-! ### the loop -/

theorem dropName_sublist (b : Str) (e : Entry) : (names (dropName b e)).Sublist (names e) := by
  rw [names_dropName]; exact List.filter_sublist

theorem removeChild_ok {pe pe' : Entry} {b : Str} (h : pe.removeChild b = .ok pe') :
    pe'.path = pe.path ∧ (names pe').Sublist (names pe) := by
  by_cases hd : pe.dir = true
  · rw [removeChild_dir hd] at h
    cases h
    exact ⟨rfl, dropName_sublist b pe⟩
  · rw [removeChild_not_dir hd] at h; cases h

theorem moveLoop_no_hang (srcRoot dstRoot : FsPath) (ci : Bool) (good : FsPath → Prop)
    (hgood : ∀ k pre, good k → (if ci then srcRoot ≠ [] ∧ pre = srcRoot.dropLast else pre = srcRoot) →
      ¬ srcRoot <+: dstOf dstRoot k pre) :
    ∀ (f : Nat) (s : State) (W : List FsPath),
      MInv srcRoot good s.entries W → PhiM s.entries W < f →
      (moveLoop srcRoot dstRoot ci f W s).1 ≠ .hang := by
  intro f
  induction f with
  | zero => intro s W _ h; omega
  | succ f ih =>
    intro s W inv hphi
    cases W with
    | nil => simp [moveLoop, M.pure]
    | cons w work =>
      have hwu : srcRoot <+: w := inv.under w List.mem_cons_self
      -- what has to be shown at the recursive call
      have hleaf : ∀ (e : Entry) (s' : State), (w, e) ∈ s.entries → Sub srcRoot s.entries s'.entries →
          wp (moveLoop srcRoot dstRoot ci f ((kidsOf e).reverse ++ work)) s' (fun _ _ => True) := by
        intro e s' hw hsub
        obtain ⟨inv', hlt⟩ := move_post inv hw hsub
        exact wp_of_ne_hang (ih s' _ inv' (by omega))
      apply wp_ne_hang (Q := fun _ _ => True)
      have hdstT : ∀ e, (w, e) ∈ s.entries → ci = true → srcRoot ≠ [] →
          ¬ srcRoot <+: dstOf dstRoot w srcRoot.dropLast := by
        intro e he hc hne
        exact hgood w _ (inv.ents w e he hwu).2.2 (by rw [if_pos hc]; exact ⟨hne, rfl⟩)
      have hdstF : ∀ e, (w, e) ∈ s.entries → ¬ ci = true → ¬ srcRoot <+: dstOf dstRoot w srcRoot := by
        intro e he hc
        exact hgood w _ (inv.ents w e he hwu).2.2 (by rw [if_neg hc])
      have hdd : ∀ d : FsPath, ¬ srcRoot <+: d → ¬ srcRoot <+: d.dropLast :=
        fun d h h2 => h (h2.trans (List.dropLast_prefix d))
      rw [moveLoop_succ_cons]
      simp only [bindM_def]
      wp_tac_with (refine hleaf _ _ (alLookup_some_mem ‹_›) ?_)
      all_goals
        have hdst : ¬ srcRoot <+: dstOf dstRoot w (if ci = true then srcRoot.dropLast else srcRoot) := by
          first
            | (rw [if_pos ‹ci = true›]; exact hdstT _ (alLookup_some_mem ‹_›) ‹_› ‹_›)
            | (rw [if_neg ‹¬ ci = true›]; exact hdstF _ (alLookup_some_mem ‹_›) ‹_›)
      all_goals first
        | rw [if_pos ‹ci = true›] at hdst
        | rw [if_neg ‹¬ ci = true›] at hdst
      all_goals first
        | exact Sub.insert_out (Sub.insert_upd (Sub.insert_out (Sub.erase _ _ _) hdst _) ‹_›
            (removeChild_ok ‹_›).1 (removeChild_ok ‹_›).2) (hdd _ hdst) _
        | exact Sub.insert_out (Sub.erase _ _ _) hdst _

/-! ### `move_p` -/

/-- the destination key computed for every entry at/under the source lies outside the source
    subtree (`sk`, `dk` = resolved source and destination; nothing is required when the source is
    the root and the destination a directory: that call fails before moving anything) -/
def MoveDstOutside (st : State) (sk dk : FsPath) : Prop :=
  ∀ kv ∈ st.entries, sk <+: kv.1 → (isDirP st dk = true → sk ≠ []) →
    ¬ sk <+: dstOf dk kv.1 (if isDirP st dk = true then sk.dropLast else sk)

instance (st : State) (sk dk : FsPath) : Decidable (MoveDstOutside st sk dk) := by
  unfold MoveDstOutside; infer_instance

theorem wp_absM {env : Env} {p : Str} {s : State} {Q : FsPath → State → Prop}
    (h : ∀ a, absM env p s = (.ok a, s) → Q a s) : wp (absM env p) s Q := by
  have hfine := (Safe.absM env p).out s
  have hst := absM_state env p s
  unfold wp
  split
  · rename_i a s' heq
    rw [heq] at hst
    simp only at hst
    subst hst
    exact h a heq
  · trivial
  · trivial
  · rename_i heq; rw [heq] at hfine; exact absurd rfl hfine.2

theorem wp_get {s : State} {Q : State → State → Prop} (h : Q s s) : wp M.get s Q := h

/-- entering the loop of `move_p` -/
theorem moveLoop_start {st : State} (hf : InvFacts st) {sk dk : FsPath}
    (hout : MoveDstOutside st sk dk) :
    wp (moveLoop sk dk (isDirP st dk) (8 * (st.entries.length + 2)) [sk]) st (fun _ _ => True) := by
  apply wp_of_ne_hang
  apply moveLoop_no_hang sk dk (isDirP st dk)
    (fun k => (isDirP st dk = true → sk ≠ []) →
      ¬ sk <+: dstOf dk k (if isDirP st dk = true then sk.dropLast else sk))
  · intro k pre hg hpre
    by_cases hc : isDirP st dk = true
    · rw [if_pos hc] at hpre hg; rw [hpre.2]; exact hg (fun _ => hpre.1)
    · rw [if_neg hc] at hpre hg; rw [hpre]; exact hg (fun h => absurd h hc)
  · refine ⟨?_, by simp⟩
    intro k e hke hu
    exact ⟨hf.pathField k e hke, hf.namesNodup k e hke, hout (k, e) hke hu⟩
  · unfold PhiM cnt
    have := List.countP_le_length (p := fun kv : FsPath × Entry => decide (sk <+: kv.1)) (l := st.entries)
    simp only [List.map_cons, List.map_nil, List.sum_cons, List.sum_nil]
    omega

theorem moveM_no_hang (env : Env) (src dst : Str) (st : State) (hinv : Spec.Inv st)
    (hout : ∀ sk dk, absM env src st = (.ok sk, st) → absM env dst st = (.ok dk, st) →
      MoveDstOutside st sk dk) :
    (moveM env src dst st).1 ≠ .hang := by
  have hf := inv_facts hinv
  apply wp_ne_hang (Q := fun _ _ => True)
  unfold Memfs.moveM
  simp only [bindM_def, pureM_def]
  apply wp_bind
  apply wp_absM
  intro sk hsk
  apply wp_bind
  apply wp_absM
  intro dk hdk
  have hleaf := moveLoop_start hf (hout sk dk hsk hdk)
  wp_tac_with first | exact hleaf | with_reducible apply wp_get

/-! ### the leaf case of `move_p` needs no hypothesis at all -/

theorem moveLoop_leaf (srcRoot dstRoot : FsPath) (ci : Bool) (f : Nat) (w : FsPath) (s : State)
    (hnames : ∀ e, alLookup w s.entries = some e → names e = []) :
    (moveLoop srcRoot dstRoot ci (f + 2) [w] s).1 ≠ .hang := by
  have leaf_close : ∀ (e : Entry) (s' : State), names e = [] →
      wp (moveLoop srcRoot dstRoot ci (f + 1) ((kidsOf e).reverse ++ [])) s' (fun _ _ => True) := by
    intro e s' h
    rw [kidsOf_eq, h]
    simp only [List.map_nil, List.reverse_nil, List.append_nil, moveLoop]
    exact wp_pure trivial
  apply wp_ne_hang (Q := fun _ _ => True)
  rw [show f + 2 = (f + 1) + 1 from rfl, moveLoop_succ_cons]
  simp only [bindM_def]
  wp_tac_with (exact leaf_close _ _ (hnames _ ‹_›))

theorem moveM_leaf_no_hang (env : Env) (src dst : Str) (st : State)
    (hleafSrc : ∀ sk e, absM env src st = (.ok sk, st) → alLookup sk st.entries = some e →
      names e = []) :
    (moveM env src dst st).1 ≠ .hang := by
  apply wp_ne_hang (Q := fun _ _ => True)
  unfold Memfs.moveM
  simp only [bindM_def, pureM_def]
  apply wp_bind
  apply wp_absM
  intro sk hsk
  apply wp_bind
  apply wp_absM
  intro dk hdk
  have hleaf : wp (moveLoop sk dk (isDirP st dk) (8 * (st.entries.length + 2)) [sk]) st
      (fun _ _ => True) := by
    apply wp_of_ne_hang
    have : 8 * (st.entries.length + 2) = (8 * st.entries.length + 14) + 2 := by omega
    rw [this]
    exact moveLoop_leaf sk dk _ _ sk st (fun e he => hleafSrc sk e hsk he)
  wp_tac_with first | exact hleaf | with_reducible apply wp_get

theorem step_moveP_no_hang (env : Env) (a b : Str) (s : State) (h : Spec.Inv s)
    (hout : ∀ sk dk, absM env a s = (.ok sk, s) → absM env b s = (.ok dk, s) →
      MoveDstOutside s sk dk) :
    (step env s (.moveP a b)).1 ≠ .hang := by
  simp only [step]
  exact mapVal_ne_hang _ _ _ (moveM_no_hang env a b s h hout)

theorem step_moveP_leaf_no_hang (env : Env) (a b : Str) (s : State)
    (hleafSrc : ∀ sk e, absM env a s = (.ok sk, s) → alLookup sk s.entries = some e → names e = []) :
    (step env s (.moveP a b)).1 ≠ .hang := by
  simp only [step]
  exact mapVal_ne_hang _ _ _ (moveM_leaf_no_hang env a b s hleafSrc)

end Rivia.Lemmas.Ret
