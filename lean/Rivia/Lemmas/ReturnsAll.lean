/-
  Rivia.Lemmas.ReturnsAll — every call that does not follow links returns on a state with the
  invariant of reachable states.

  The termination lemmas (Lemmas/Fuel*.lean, NoPanic.lean, MoveWf.lean) and the reachable-state
  invariant (Lemmas/ReachInv.lean, over Lemmas/CopyMove.lean) cannot be imported together (both
  families declare `Rivia.Lemmas.alLookup_of_mem`, `alLookup_alInsert`, `WfKey`, …), so this file
  works with the copies `Lemmas/ReturnsFuel*.lean`, `ReturnsNoPanic.lean`, `ReturnsMoveWf.lean`
  (namespace `Rivia.Lemmas.Ret`, otherwise identical).
-/
import Rivia.Lemmas.ReturnsMoveWf
import Rivia.Lemmas.ReachInv
import Rivia.Lemmas.InvAll

namespace Rivia.Lemmas.RetAll
open Rivia Rivia.Memfs Rivia.Spec Rivia.Lemmas

/-- the calls whose options do not ask to follow links -/
def NoFollowOp : Op → Prop
  | .entries _ r => r.follow = false
  | .chmodB _ c => c.follow = false
  | .chownB _ c => c.follow = false
  | .copyB _ _ c => c.follow = false
  | _ => True

instance : DecidablePred NoFollowOp := fun op => by unfold NoFollowOp; split <;> infer_instance

/-- all of them but `move_p` / `mkfile_m` are in the alphabet of `step_term_no_hang` -/
theorem termOp_of_noFollow (op : Op) (h : NoFollowOp op) (h1 : ∀ a b, op ≠ .moveP a b)
    (h2 : ∀ p m, op ≠ .mkfileM p m) : Ret.TermOp op = true := by
  cases op <;> first
    | rfl
    | exact absurd rfl (h1 _ _)
    | exact absurd rfl (h2 _ _)
    | (simp only [NoFollowOp] at h; simp [Ret.TermOp, h])

theorem namesWf_of_keysW {s : State} (h : Reach.KeysW s) : Ret.NamesWf s := fun kv hkv => h.1 kv hkv

theorem kindExcl_of_kindWf {s : State} (h : KindWf s) : Ret.KindExcl s := by
  intro kv hkv hd _
  have := h kv hkv
  rw [hd] at this
  simpa using this

theorem dstWf_of_keysW (env : Env) {s : State} (b : Str) (h : Reach.KeysW s) : Ret.DstWf env s b := by
  unfold Ret.DstWf
  split
  · rename_i dk s' heq
    have hs : s' = s := by
      have := InvA.absM_snd env b s
      rw [heq] at this
      exact this
    subst hs
    exact absM_wf h.2 heq
  · trivial

/-- `move_p` returns on every state with `Inv`, well-formed keys and sane kind flags -/
theorem step_moveP_returns (env : Env) (s : State) (a b : Str) (hI : Spec.Inv s) (hK : Reach.KeysW s)
    (hE : RefineA.EntriesOk s) : (step env s (.moveP a b)).1 ≠ .hang :=
  Ret.step_moveP_wf a hI (namesWf_of_keysW hK) (kindExcl_of_kindWf (Reach.kindWf_of_entriesOk hE))
    (dstWf_of_keysW env b hK)

/-- `mkfile_m` returns on every state with the (inductive) strong invariant of C03 -/
theorem step_mkfileM_returns (env : Env) (s : State) (p : Str) (mode : Nat) (h : InvB.Strong s) :
    (step env s (.mkfileM p mode)).1 ≠ .hang := by
  apply Ret.step_mkfileM_no_hang
  have h1 := InvAll.strong_step env s (.mkfile p) h (step_simple_fine env s (.mkfile p) rfl).2
  rw [step, InvA.mapVal_snd] at h1
  exact h1.1

end Rivia.Lemmas.RetAll
