/-
  Rivia.Lemmas.Components — `components` at the level of `/`-pieces, `render` of a component
  list, and the round trip `components (render cs) = cs` on well-formed component lists.
-/
import Rivia.Lemmas.PathBasics

namespace Rivia.Lemmas
open Rivia Rivia.Str

/-! ### more `splitOn` -/

/-- `splitOn` distributes over a separator. -/
theorem splitOn_append_cons_sep (sep : Char) (a b : Str) :
    splitOn sep (a ++ sep :: b) = splitOn sep a ++ splitOn sep b := by
  induction a with
  | nil => simp [splitOn_cons_sep, splitOn_nil]
  | cons c cs ih =>
    by_cases h : c = sep
    · subst h
      simp [splitOn_cons_sep, ih]
    · obtain ⟨hd, tl, h1, h2⟩ := splitOn_cons_of_ne h (cs ++ sep :: b)
      obtain ⟨hd', tl', h1', h2'⟩ := splitOn_cons_of_ne h cs
      rw [List.cons_append, h2, h2']
      rw [ih, h1'] at h1
      simp only [List.cons_append, List.cons.injEq] at h1
      simp [h1.1, h1.2]

/-- Appending a separator-free string only extends the last piece. -/
theorem splitOn_append_of_not_mem (sep : Char) (a : Str) :
    ∃ init l, splitOn sep a = init ++ [l] ∧
      ∀ n : Str, sep ∉ n → splitOn sep (a ++ n) = init ++ [l ++ n] := by
  induction a with
  | nil =>
    refine ⟨[], [], rfl, ?_⟩
    intro n hn
    simpa using splitOn_of_not_mem hn
  | cons c cs ih =>
    obtain ⟨init, l, h1, h2⟩ := ih
    by_cases h : c = sep
    · subst h
      refine ⟨[] :: init, l, by simp [splitOn_cons_sep, h1], ?_⟩
      intro n hn
      simp [splitOn_cons_sep, h2 n hn]
    · cases init with
      | nil =>
        refine ⟨[], c :: l, ?_, ?_⟩
        · obtain ⟨hd, tl, e1, e2⟩ := splitOn_cons_of_ne h cs
          rw [e2]; rw [h1] at e1
          simp only [List.nil_append, List.cons.injEq] at e1
          simp [e1.1, e1.2]
        · intro n hn
          obtain ⟨hd, tl, e1, e2⟩ := splitOn_cons_of_ne h (cs ++ n)
          rw [List.cons_append, e2]; rw [h2 n hn] at e1
          simp only [List.nil_append, List.cons.injEq] at e1
          simp [e1.1, e1.2]
      | cons i0 irest =>
        refine ⟨(c :: i0) :: irest, l, ?_, ?_⟩
        · obtain ⟨hd, tl, e1, e2⟩ := splitOn_cons_of_ne h cs
          rw [e2]; rw [h1] at e1
          simp only [List.cons_append, List.cons.injEq] at e1
          simp [e1.1, e1.2]
        · intro n hn
          obtain ⟨hd, tl, e1, e2⟩ := splitOn_cons_of_ne h (cs ++ n)
          rw [List.cons_append, e2]; rw [h2 n hn] at e1
          simp only [List.cons_append, List.cons.injEq] at e1
          simp [e1.1, e1.2]

theorem splitSlash_not_mem (s : Str) : ∀ p ∈ splitSlash s, '/' ∉ p :=
  not_mem_of_mem_splitOn '/' s

theorem splitSlash_ne_nil (s : Str) : splitSlash s ≠ [] := splitOn_ne_nil '/' s

/-! ### `bodyComp` -/

theorem bodyComp_nil : bodyComp [] = none := by simp [bodyComp]
theorem bodyComp_dot : bodyComp ['.'] = none := by simp [bodyComp]

theorem bodyComp_eq_none_iff {p : Str} : bodyComp p = none ↔ (p = [] ∨ p = ['.']) := by
  unfold bodyComp
  constructor
  · intro h
    split at h
    · assumption
    · split at h <;> simp at h
  · intro h; simp [h]

theorem bodyComp_eq_none_iff_isBody {p : Str} : bodyComp p = none ↔ isBody p = false := by
  rw [bodyComp_eq_none_iff]
  by_cases h1 : p = [] <;> by_cases h2 : p = ['.'] <;> simp [isBody, h1, h2]

theorem bodyComp_str {p : Str} {c : Comp} (h : bodyComp p = some c) : c.str = p := by
  unfold bodyComp at h
  split at h
  · simp at h
  · split at h
    · next hp => simp only [Option.some.injEq] at h; subst h; simp [Comp.str, hp]
    · simp only [Option.some.injEq] at h; subst h; rfl

theorem bodyComp_ne_root {p : Str} {c : Comp} (h : bodyComp p = some c) : c ≠ .root := by
  unfold bodyComp at h
  split at h
  · simp at h
  · split at h <;> (simp only [Option.some.injEq] at h; subst h; simp)

theorem bodyComp_ne_cur {p : Str} {c : Comp} (h : bodyComp p = some c) : c ≠ .cur := by
  unfold bodyComp at h
  split at h
  · simp at h
  · split at h <;> (simp only [Option.some.injEq] at h; subst h; simp)

theorem bodyComp_eq_normal {p n : Str} (h : bodyComp p = some (.normal n)) : p = n := by
  have := bodyComp_str h
  simpa [Comp.str] using this.symm

/-! ### `components` on the piece list -/

/-- `components`, computed from the list of `/`-pieces. -/
def compsP : List Str → List Comp
  | [] => []
  | p0 :: rest =>
    (if p0 = [] ∧ rest ≠ [] then [.root] else if p0 = ['.'] then [.cur] else [])
      ++ (p0 :: rest).filterMap bodyComp

theorem isRooted_iff_split (s : Str) :
    isRooted s = true ↔ ∃ r, r ≠ [] ∧ splitSlash s = [] :: r := by
  cases s with
  | nil => simp [isRooted, splitSlash, splitOn]
  | cons c cs =>
    by_cases h : c = '/'
    · subst h
      simp only [isRooted_cons, decide_true, true_iff]
      exact ⟨splitOn '/' cs, splitOn_ne_nil _ _, splitOn_cons_sep _ _⟩
    · obtain ⟨hd, tl, e1, e2⟩ := splitOn_cons_of_ne h cs
      simp [isRooted_cons, h, splitSlash, e2]

theorem components_eq_compsP (s : Str) : components s = compsP (splitSlash s) := by
  unfold components
  cases hs : splitSlash s with
  | nil => exact absurd hs (splitSlash_ne_nil s)
  | cons p0 rest =>
    by_cases hr : isRooted s = true
    · obtain ⟨r, hr1, hr2⟩ := (isRooted_iff_split s).1 hr
      rw [hs] at hr2
      simp only [List.cons.injEq] at hr2
      obtain ⟨rfl, rfl⟩ := hr2
      simp [hr, compsP, hr1]
    · have hn : ¬ (p0 = [] ∧ rest ≠ []) := by
        rintro ⟨rfl, h2⟩
        exact hr ((isRooted_iff_split s).2 ⟨rest, h2, hs⟩)
      simp only [hr, compsP, hn, if_false, List.head?_cons, Option.some.injEq]
      rfl

theorem components_joinWith {L : List Str} (hne : L ≠ []) (h : ∀ p ∈ L, '/' ∉ p) :
    components (joinWith '/' L) = compsP L := by
  rw [components_eq_compsP, splitSlash, splitOn_joinWith hne h]

theorem components_nil : components [] = [] := by decide

/-! ### `filterMap` and trimming -/

theorem filterMap_dropWhile {α β} (f : α → Option β) (p : α → Bool)
    (h : ∀ x, p x = true → f x = none) (l : List α) :
    (l.dropWhile p).filterMap f = l.filterMap f := by
  induction l with
  | nil => rfl
  | cons a l ih =>
    by_cases hp : p a = true
    · rw [List.dropWhile_cons_of_pos hp, ih, List.filterMap_cons_none (h a hp)]
    · rw [List.dropWhile_cons_of_neg hp]

theorem filterMap_dropTrailing {α β} (f : α → Option β) (p : α → Bool)
    (h : ∀ x, p x = true → f x = none) (l : List α) :
    (dropTrailing p l).filterMap f = l.filterMap f := by
  unfold dropTrailing
  rw [List.filterMap_reverse, filterMap_dropWhile f p h, ← List.filterMap_reverse,
    List.reverse_reverse]

theorem nonbody_none : ∀ x : Str, (!isBody x) = true → bodyComp x = none := by
  intro x hx
  rw [bodyComp_eq_none_iff_isBody]
  simpa using hx

theorem mem_takeWhile_true {α} (p : α → Bool) {l : List α} {x : α} (h : x ∈ l.takeWhile p) :
    p x = true := by
  induction l with
  | nil => simp at h
  | cons a l ih =>
    by_cases hp : p a = true
    · rw [List.takeWhile_cons_of_pos hp] at h
      rcases List.mem_cons.1 h with rfl | h
      · exact hp
      · exact ih h
    · rw [List.takeWhile_cons_of_neg hp] at h
      simp at h

theorem dropWhile_eq_nil_all {α} (p : α → Bool) {l : List α} (h : l.dropWhile p = []) :
    ∀ x ∈ l, p x = true := by
  induction l with
  | nil => simp
  | cons a l ih =>
    by_cases hp : p a = true
    · rw [List.dropWhile_cons_of_pos hp] at h
      intro x hx
      rcases List.mem_cons.1 hx with rfl | hx
      · exact hp
      · exact ih h x hx
    · rw [List.dropWhile_cons_of_neg hp] at h
      simp at h

/-- `dropTrailing` either empties the list or leaves a list ending in a kept element. -/
theorem dropTrailing_cases {α} (p : α → Bool) (l : List α) :
    (dropTrailing p l = [] ∧ ∀ x ∈ l, p x = true) ∨
    ∃ mid t, dropTrailing p l = mid ++ [t] ∧ p t = false ∧
      ∃ tl, l = mid ++ t :: tl ∧ ∀ x ∈ tl, p x = true := by
  unfold dropTrailing
  cases hd : l.reverse.dropWhile p with
  | nil =>
    left
    refine ⟨rfl, ?_⟩
    intro x hx
    exact dropWhile_eq_nil_all p hd x (by simpa using hx)
  | cons t before =>
    right
    refine ⟨before.reverse, t, by simp, ?_, (l.reverse.takeWhile p).reverse, ?_, ?_⟩
    · have := List.head_dropWhile_not p (l := l.reverse) (by simp [hd])
      simpa [hd] using this
    · have := List.takeWhile_append_dropWhile (p := p) (l := l.reverse)
      rw [hd] at this
      have h2 := congrArg List.reverse this
      simp only [List.reverse_append, List.reverse_cons, List.reverse_reverse] at h2
      simpa using h2.symm
    · intro x hx
      exact mem_takeWhile_true p (List.mem_reverse.1 hx)

/-! ### well-formed component lists and `render` -/

/-- A body component (`..` or a normal name) as produced by `components`. -/
def BodyC (c : Comp) : Prop := bodyComp c.str = some c ∧ '/' ∉ c.str

/-- Shape of the component lists produced by `components`: an optional root or leading `.`
    followed by body components. -/
def CompsOK (cs : List Comp) : Prop :=
  ∃ body, (cs = body ∨ cs = .root :: body ∨ cs = .cur :: body) ∧ ∀ c ∈ body, BodyC c

theorem BodyC.str_ne_nil {c : Comp} (h : BodyC c) : c.str ≠ [] := by
  intro e
  have := h.1
  rw [e, bodyComp_nil] at this
  cases this

theorem BodyC.str_ne_dot {c : Comp} (h : BodyC c) : c.str ≠ ['.'] := by
  intro e
  have := h.1
  rw [e, bodyComp_dot] at this
  cases this

theorem bodyC_of_filterMap {L : List Str} (h : ∀ p ∈ L, '/' ∉ p) :
    ∀ c ∈ L.filterMap bodyComp, BodyC c := by
  intro c hc
  obtain ⟨x, hx, hxc⟩ := List.mem_filterMap.1 hc
  have := bodyComp_str hxc
  exact ⟨by rw [this]; exact hxc, by rw [this]; exact h x hx⟩

theorem compsP_ok {L : List Str} (h : ∀ p ∈ L, '/' ∉ p) : CompsOK (compsP L) := by
  cases L with
  | nil => exact ⟨[], Or.inl rfl, by simp⟩
  | cons p0 rest =>
    refine ⟨(p0 :: rest).filterMap bodyComp, ?_, bodyC_of_filterMap h⟩
    simp only [compsP]
    split
    · exact Or.inr (Or.inl rfl)
    · split
      · exact Or.inr (Or.inr rfl)
      · exact Or.inl rfl

theorem components_ok (s : Str) : CompsOK (components s) := by
  rw [components_eq_compsP]
  exact compsP_ok (splitSlash_not_mem s)

theorem filterMap_bodyComp_map_str {body : List Comp} (h : ∀ c ∈ body, BodyC c) :
    (body.map Comp.str).filterMap bodyComp = body := by
  induction body with
  | nil => rfl
  | cons c r ih =>
    rw [List.map_cons, List.filterMap_cons_some (h c (by simp)).1,
      ih (fun c hc => h c (by simp [hc]))]

/-- Pushing slash-free non-empty pieces one after the other joins them with `/`. -/
theorem foldl_push_joinWith (cs : List Comp) :
    ∀ (L : List Str) (t : Str), t ≠ [] → '/' ∉ t →
      (∀ c ∈ cs, c.str ≠ [] ∧ '/' ∉ c.str) →
      cs.foldl (fun b c => push b c.str) (joinWith '/' (L ++ [t]))
        = joinWith '/' (L ++ [t] ++ cs.map Comp.str) := by
  induction cs with
  | nil => intro L t _ _ _; simp
  | cons c r ih =>
    intro L t ht1 ht2 hcs
    have hc := hcs c (by simp)
    have hpush : push (joinWith '/' (L ++ [t])) c.str = joinWith '/' ((L ++ [t]) ++ [c.str]) := by
      rw [joinWith_append_singleton '/' (l := L ++ [t]) (by simp) c.str]
      apply push_of_not_endsWithSlash hc.2
      · by_cases hL : L = []
        · subst hL; simpa [joinWith] using ht1
        · rw [joinWith_append_singleton '/' hL]; simp
      · by_cases hL : L = []
        · subst hL; simpa [joinWith] using endsWithSlash_of_not_mem ht2
        · rw [joinWith_append_singleton '/' hL,
            show joinWith '/' L ++ '/' :: t = (joinWith '/' L ++ ['/']) ++ t by simp,
            endsWithSlash_append _ ht1]
          exact endsWithSlash_of_not_mem ht2
    rw [List.foldl_cons, hpush, ih (L ++ [t]) c.str hc.1 hc.2 (fun c' hc' => hcs c' (by simp [hc']))]
    simp

theorem render_noroot {cs : List Comp} (h : ∀ c ∈ cs, c.str ≠ [] ∧ '/' ∉ c.str) :
    render cs = joinWith '/' (cs.map Comp.str) := by
  cases cs with
  | nil => rfl
  | cons c r =>
    have hc := h c (by simp)
    unfold render
    rw [List.foldl_cons, push_nil hc.2]
    have := foldl_push_joinWith r [] c.str hc.1 hc.2 (fun c' hc' => h c' (by simp [hc']))
    simpa [joinWith] using this

theorem render_root_cons {c : Comp} {r : List Comp} (h : ∀ c' ∈ c :: r, c'.str ≠ [] ∧ '/' ∉ c'.str) :
    render (.root :: c :: r) = joinWith '/' ([] :: (c :: r).map Comp.str) := by
  have hc := h c (by simp)
  unfold render
  rw [List.foldl_cons, List.foldl_cons]
  have h0 : push [] Comp.root.str = ['/'] := by decide
  rw [h0, push_root hc.2]
  have := foldl_push_joinWith r [[]] c.str hc.1 hc.2 (fun c' hc' => h c' (by simp [hc']))
  simpa [joinWith] using this

theorem BodyC.piece {c : Comp} (h : BodyC c) : c.str ≠ [] ∧ '/' ∉ c.str := ⟨h.str_ne_nil, h.2⟩

/-- **Round trip**: re-collecting the components of a rendered well-formed list gives it back. -/
theorem components_render {cs : List Comp} (h : CompsOK cs) : components (render cs) = cs := by
  obtain ⟨body, hcs, hb⟩ := h
  have hpiece : ∀ c ∈ body, c.str ≠ [] ∧ '/' ∉ c.str := fun c hc => (hb c hc).piece
  have hslash : ∀ p ∈ body.map Comp.str, '/' ∉ p := by
    intro p hp
    obtain ⟨c, hc, rfl⟩ := List.mem_map.1 hp
    exact (hb c hc).2
  rcases hcs with rfl | rfl | rfl
  · cases hbody : cs with
    | nil => decide
    | cons c r =>
      subst hbody
      rw [render_noroot hpiece, components_joinWith (by simp) hslash]
      have hc := hb c (by simp)
      simp only [List.map_cons, compsP, hc.str_ne_nil, hc.str_ne_dot, false_and, if_false,
        List.nil_append]
      exact filterMap_bodyComp_map_str hb
  · cases body with
    | nil => decide
    | cons c r =>
      rw [render_root_cons hpiece, components_joinWith (by simp)]
      · simp only [compsP, ne_eq, reduceCtorEq, not_false_eq_true, and_self, if_true,
          List.map_cons]
        rw [List.filterMap_cons_none bodyComp_nil]
        have := filterMap_bodyComp_map_str hb
        simp only [List.map_cons] at this
        simp [this]
      · intro p hp
        rcases List.mem_cons.1 hp with rfl | hp
        · simp
        · exact hslash p hp
  · have hall : ∀ c ∈ Comp.cur :: body, c.str ≠ [] ∧ '/' ∉ c.str := by
      intro c hc
      rcases List.mem_cons.1 hc with rfl | hc
      · simp [Comp.str]
      · exact hpiece c hc
    rw [render_noroot hall, components_joinWith (by simp)]
    · simp only [List.map_cons, compsP, Comp.str]
      rw [List.filterMap_cons_none bodyComp_dot, filterMap_bodyComp_map_str hb]
      simp
    · intro p hp
      rw [List.map_cons] at hp
      rcases List.mem_cons.1 hp with rfl | hp
      · simp [Comp.str]
      · exact hslash p hp

theorem render_components_render {cs : List Comp} (h : CompsOK cs) :
    render (components (render cs)) = render cs := by
  rw [components_render h]

end Rivia.Lemmas
