/-
  Rivia.Lemmas.PathBasics — reusable facts about `splitOn` / `joinWith` / `endsWithSlash` /
  `isRooted` / `push` / `parentStr` / `pop` / `components`.
-/
import Rivia.Model.Path

namespace Rivia.Lemmas
open Rivia Rivia.Str

theorem eq_nil_or_snoc {α} (l : List α) : l = [] ∨ ∃ mid t, l = mid ++ [t] := by
  rcases List.eq_nil_or_concat l with h | ⟨mid, t, h⟩
  · exact Or.inl h
  · exact Or.inr ⟨mid, t, by simpa using h⟩

/-! ### splitOn -/

theorem splitOn_nil (sep : Char) : splitOn sep [] = [[]] := rfl

theorem splitOn_cons_sep (sep : Char) (cs : Str) :
    splitOn sep (sep :: cs) = [] :: splitOn sep cs := by
  simp [splitOn]

theorem splitOn_ne_nil (sep : Char) (s : Str) : splitOn sep s ≠ [] := by
  induction s with
  | nil => simp [splitOn]
  | cons c cs ih =>
    simp only [splitOn]
    split
    · simp
    · split <;> simp

theorem splitOn_cons_of_ne {c sep : Char} (h : c ≠ sep) (cs : Str) :
    ∃ hd tl, splitOn sep cs = hd :: tl ∧ splitOn sep (c :: cs) = (c :: hd) :: tl := by
  cases hs : splitOn sep cs with
  | nil => exact absurd hs (splitOn_ne_nil sep cs)
  | cons hd tl =>
    refine ⟨hd, tl, rfl, ?_⟩
    simp [splitOn, h, hs]

/-- No piece of a split contains the separator. -/
theorem not_mem_of_mem_splitOn (sep : Char) (s : Str) :
    ∀ p ∈ splitOn sep s, sep ∉ p := by
  induction s with
  | nil => simp [splitOn]
  | cons c cs ih =>
    by_cases h : c = sep
    · subst h
      rw [splitOn_cons_sep]
      intro p hp
      simp only [List.mem_cons] at hp
      rcases hp with rfl | hp
      · simp
      · exact ih p hp
    · obtain ⟨hd, tl, h1, h2⟩ := splitOn_cons_of_ne h cs
      rw [h2]
      rw [h1] at ih
      intro p hp
      simp only [List.mem_cons] at hp
      rcases hp with rfl | hp
      · have := ih hd (by simp)
        simp only [List.mem_cons, not_or]
        exact ⟨fun e => h e.symm, this⟩
      · exact ih p (by simp [hp])

theorem splitOn_of_not_mem {sep : Char} {x : Str} (hx : sep ∉ x) : splitOn sep x = [x] := by
  induction x with
  | nil => rfl
  | cons c cs ih =>
    simp only [List.mem_cons, not_or] at hx
    have hc : c ≠ sep := fun e => hx.1 e.symm
    obtain ⟨hd, tl, h1, h2⟩ := splitOn_cons_of_ne hc cs
    rw [h2]
    rw [ih hx.2] at h1
    simp only [List.cons.injEq] at h1
    rw [← h1.1, ← h1.2]

theorem splitOn_append_sep {sep : Char} {x : Str} (hx : sep ∉ x) (r : Str) :
    splitOn sep (x ++ sep :: r) = x :: splitOn sep r := by
  induction x with
  | nil => simp [splitOn_cons_sep]
  | cons c cs ih =>
    simp only [List.mem_cons, not_or] at hx
    have hc : c ≠ sep := fun e => hx.1 e.symm
    obtain ⟨hd, tl, h1, h2⟩ := splitOn_cons_of_ne hc (cs ++ sep :: r)
    rw [List.cons_append, h2]
    rw [ih hx.2] at h1
    simp only [List.cons.injEq] at h1
    rw [← h1.1, ← h1.2]

/-! ### joinWith -/

theorem joinWith_nil (sep : Char) : joinWith sep [] = [] := rfl
theorem joinWith_singleton (sep : Char) (x : Str) : joinWith sep [x] = x := rfl

theorem joinWith_cons_of_ne_nil (sep : Char) (x : Str) {rest : List Str} (h : rest ≠ []) :
    joinWith sep (x :: rest) = x ++ sep :: joinWith sep rest := by
  cases rest with
  | nil => exact absurd rfl h
  | cons y r => rfl

theorem joinWith_cons_cons_head (sep c : Char) (h : Str) (t : List Str) :
    joinWith sep ((c :: h) :: t) = c :: joinWith sep (h :: t) := by
  cases t <;> simp [joinWith]

theorem joinWith_append_singleton (sep : Char) {l : List Str} (h : l ≠ []) (p : Str) :
    joinWith sep (l ++ [p]) = joinWith sep l ++ sep :: p := by
  induction l with
  | nil => exact absurd rfl h
  | cons x r ih =>
    cases r with
    | nil => simp [joinWith]
    | cons y r' =>
      have := ih (by simp)
      simp only [List.cons_append] at this ⊢
      simp only [joinWith] at this ⊢
      rw [this]
      simp

theorem joinWith_eq_nil {sep : Char} {l : List Str} (h : joinWith sep l = []) :
    l = [] ∨ l = [[]] := by
  cases l with
  | nil => simp
  | cons x r =>
    cases r with
    | nil => simp [joinWith] at h; simp [h]
    | cons y r' => simp [joinWith] at h

theorem splitOn_joinWith {sep : Char} {ps : List Str} (hne : ps ≠ [])
    (hps : ∀ p ∈ ps, sep ∉ p) : splitOn sep (joinWith sep ps) = ps := by
  induction ps with
  | nil => exact absurd rfl hne
  | cons x r ih =>
    cases r with
    | nil => simpa [joinWith] using splitOn_of_not_mem (hps x (by simp))
    | cons y r' =>
      have h1 := ih (by simp) (fun p hp => hps p (by simp [hp]))
      rw [joinWith_cons_of_ne_nil sep x (by simp), splitOn_append_sep (hps x (by simp)), h1]

theorem joinWith_splitOn (sep : Char) (s : Str) : joinWith sep (splitOn sep s) = s := by
  induction s with
  | nil => rfl
  | cons c cs ih =>
    by_cases h : c = sep
    · subst h
      rw [splitOn_cons_sep, joinWith_cons_of_ne_nil _ _ (splitOn_ne_nil _ _), ih]
      rfl
    · obtain ⟨hd, tl, h1, h2⟩ := splitOn_cons_of_ne h cs
      rw [h2, joinWith_cons_cons_head, ← h1, ih]

/-! ### isRooted / endsWithSlash -/

theorem isRooted_cons (c : Char) (cs : Str) : isRooted (c :: cs) = decide (c = '/') := by
  by_cases h : c = '/'
  · subst h; rfl
  · unfold isRooted
    split
    · rename_i heq
      simp only [List.cons.injEq] at heq
      exact absurd heq.1 h
    · simp [h]

theorem isRooted_nil : isRooted [] = false := rfl

theorem isRooted_of_not_mem {p : Str} (h : '/' ∉ p) : isRooted p = false := by
  cases p with
  | nil => rfl
  | cons c cs =>
    simp only [List.mem_cons, not_or] at h
    rw [isRooted_cons]
    simp [Ne.symm h.1]

theorem isRooted_append {a : Str} (h : a ≠ []) (b : Str) : isRooted (a ++ b) = isRooted a := by
  cases a with
  | nil => exact absurd rfl h
  | cons c cs => simp [isRooted_cons]

theorem endsWithSlash_cons_cons (c d : Char) (cs : Str) :
    endsWithSlash (c :: d :: cs) = endsWithSlash (d :: cs) := rfl

theorem endsWithSlash_append (a : Str) {b : Str} (hb : b ≠ []) :
    endsWithSlash (a ++ b) = endsWithSlash b := by
  induction a with
  | nil => rfl
  | cons c cs ih =>
    cases hcs : cs ++ b with
    | nil => simp [hb] at hcs
    | cons d r =>
      rw [List.cons_append, hcs, endsWithSlash_cons_cons, ← hcs, ih]

theorem endsWithSlash_of_not_mem {b : Str} (h : '/' ∉ b) : endsWithSlash b = false := by
  induction b with
  | nil => rfl
  | cons c cs ih =>
    simp only [List.mem_cons, not_or] at h
    cases cs with
    | nil => simp [endsWithSlash, Ne.symm h.1]
    | cons d r => rw [endsWithSlash_cons_cons]; exact ih h.2

/-! ### push -/

/-- Pushing a non-empty slash-free piece onto a buffer not ending in `/`. -/
theorem push_of_not_endsWithSlash {buf p : Str} (hp : '/' ∉ p) (hb : buf ≠ [])
    (he : endsWithSlash buf = false) : push buf p = buf ++ '/' :: p := by
  simp [push, isRooted_of_not_mem hp, hb, he]

theorem push_nil {p : Str} (hp : '/' ∉ p) : push [] p = p := by
  simp [push, isRooted_of_not_mem hp]

theorem push_root {p : Str} (hp : '/' ∉ p) : push ['/'] p = '/' :: p := by
  simp [push, isRooted_of_not_mem hp, endsWithSlash]

/-! ### dropTrailing / parentStr / pop -/

theorem isBody_eq_true {p : Str} (h1 : p ≠ []) (h2 : p ≠ ['.']) : isBody p = true := by
  simp [isBody, h1, h2]

theorem dropTrailing_snoc {α} (f : α → Bool) (l : List α) {a : α} (ha : f a = false) :
    dropTrailing f (l ++ [a]) = l ++ [a] := by
  simp [dropTrailing, ha]

theorem dropTrailing_of_all_false {α} (f : α → Bool) {l : List α} (h : ∀ x ∈ l, f x = false) :
    dropTrailing f l = l := by
  rcases List.eq_nil_or_concat l with rfl | ⟨l', a, rfl⟩
  · rfl
  · simpa using dropTrailing_snoc f l' (h a (by simp))

theorem parentStr_of_split {s p0 top : Str} {mid : List Str}
    (h : splitSlash s = p0 :: (mid ++ [top]))
    (hmid : ∀ x ∈ mid, isBody x = true) (htop : isBody top = true) :
    parentStr s =
      if mid = [] ∧ isRooted s = true then some ['/'] else some (joinWith '/' (p0 :: mid)) := by
  have h1 : dropTrailing (fun p => !isBody p) (mid ++ [top]) = mid ++ [top] :=
    dropTrailing_snoc _ _ (by simp [htop])
  have h2 : dropTrailing (fun p => !isBody p) mid = mid :=
    dropTrailing_of_all_false _ (by intro x hx; simp [hmid x hx])
  unfold parentStr
  rw [h]
  simp only [h1, List.reverse_append, List.reverse_cons, List.reverse_nil, List.nil_append,
    List.cons_append, List.reverse_reverse, h2]

theorem parentStr_single {s p0 : Str} (h : splitSlash s = [p0]) (hr : isRooted s = false)
    (hp : p0 ≠ []) : parentStr s = some [] := by
  unfold parentStr
  rw [h]
  simp [dropTrailing, hr, hp]

end Rivia.Lemmas
