/-
  Rivia.Lemmas.Content — helper lemmas for C06 (file contents of the Memfs model).

  * `content s k` : the byte-vector specification (what the data map holds for key `k`)
  * `@[simp]` lemmas for the state monad `M` applied to a state
  * case analysis of `add` on a regular-file entry (`add_regular`), closed form of `syncM`
  * key-level forms of the content operations (`writeAt`, `appendAt`, `cloneAt`, `openWriteAt`,
    `openAppendAt`): the model functions are `absM env p >>= …At` *by definition* (`rfl`)
  * frame (independence), write/append/read post-conditions, handle sessions
-/
import Rivia.Model.MemfsOps
import Rivia.Spec.MemfsJudge
import Rivia.Lemmas.File

namespace Rivia.Lemmas
open Rivia Rivia.Memfs Rivia.File Rivia.Memfs.M

/-- the byte-vector specification of file contents: what the data map stores under key `k` -/
def content (s : State) (k : FsPath) : Option Bytes := alLookup k s.files

/-! ### the monad applied to a state -/

@[simp] theorem pure_apply {α} (a : α) (s : State) : (Pure.pure a : M α) s = (.ok a, s) := rfl
@[simp] theorem mpure_apply {α} (a : α) (s : State) : (M.pure a : M α) s = (.ok a, s) := rfl
@[simp] theorem fail_apply {α} (k : ErrKind) (s : State) : (M.fail k : M α) s = (.err k, s) := rfl

theorem bind_apply {α β} (m : M α) (f : α → M β) (s : State) :
    (m >>= f) s = match m s with
      | (.ok a, s') => f a s'
      | (.err k, s') => (.err k, s')
      | (.panic, s') => (.panic, s')
      | (.hang, s') => (.hang, s') := rfl

theorem bind_ok {α β} {m : M α} {f : α → M β} {s s' : State} {a : α} (h : m s = (.ok a, s')) :
    (m >>= f) s = f a s' := by rw [bind_apply, h]
theorem bind_err {α β} {m : M α} {f : α → M β} {s s' : State} {k : ErrKind}
    (h : m s = (.err k, s')) : (m >>= f) s = (.err k, s') := by rw [bind_apply, h]
theorem bind_panic {α β} {m : M α} {f : α → M β} {s s' : State}
    (h : m s = (.panic, s')) : (m >>= f) s = (.panic, s') := by rw [bind_apply, h]
theorem bind_hang {α β} {m : M α} {f : α → M β} {s s' : State}
    (h : m s = (.hang, s')) : (m >>= f) s = (.hang, s') := by rw [bind_apply, h]

@[simp] theorem getEntry_bind {β} (p : FsPath) (f : Option Entry → M β) (s : State) :
    (getEntry p >>= f) s = f (alLookup p s.entries) s := rfl
@[simp] theorem getFile_bind {β} (p : FsPath) (f : Option Bytes → M β) (s : State) :
    (getFile p >>= f) s = f (alLookup p s.files) s := rfl
@[simp] theorem setEntry_bind {β} (p : FsPath) (e : Entry) (f : Unit → M β) (s : State) :
    (setEntry p e >>= f) s = f () { s with entries := alInsert p e s.entries } := rfl
@[simp] theorem setFile_bind {β} (p : FsPath) (b : Bytes) (f : Unit → M β) (s : State) :
    (setFile p b >>= f) s = f () { s with files := alInsert p b s.files } := rfl
@[simp] theorem setFile_apply (p : FsPath) (b : Bytes) (s : State) :
    setFile p b s = (.ok (), { s with files := alInsert p b s.files }) := rfl
@[simp] theorem setEntry_apply (p : FsPath) (e : Entry) (s : State) :
    setEntry p e s = (.ok (), { s with entries := alInsert p e s.entries }) := rfl
@[simp] theorem pure_bind_apply {α β} (a : α) (f : α → M β) (s : State) :
    ((Pure.pure a : M α) >>= f) s = f a s := rfl
@[simp] theorem mpure_bind_apply {α β} (a : α) (f : α → M β) (s : State) :
    ((M.pure a : M α) >>= f) s = f a s := rfl
@[simp] theorem fail_bind_apply {α β} (k : ErrKind) (f : α → M β) (s : State) :
    ((M.fail k : M α) >>= f) s = (.err k, s) := rfl
@[simp] theorem modify_bind {β} (g : State → State) (f : Unit → M β) (s : State) :
    (M.modify g >>= f) s = f () (g s) := rfl
@[simp] theorem modify_apply (g : State → State) (s : State) : M.modify g s = (.ok (), g s) := rfl
@[simp] theorem get_bind {β} (f : State → M β) (s : State) : (M.get >>= f) s = f s s := rfl
@[simp] theorem liftO_ok_bind {α β} (a : α) (f : α → M β) (s : State) :
    (M.liftO (.ok a) >>= f) s = f a s := rfl
@[simp] theorem liftO_err_bind {α β} (k : ErrKind) (f : α → M β) (s : State) :
    ((M.liftO (.err k) : M α) >>= f) s = (.err k, s) := rfl
theorem ite_apply_state {α} (c : Prop) [Decidable c] (a b : M α) (s : State) :
    (if c then a else b) s = if c then a s else b s := by
  split <;> rfl

/-! ### `mapVal` (what `step` wraps every operation in) -/

theorem mapVal_snd {α} (f : α → Val) (m : M α) (s : State) : (mapVal f m s).2 = (m s).2 := by
  unfold mapVal; split <;> simp_all

theorem mapVal_ok {α} {f : α → Val} {m : M α} {s s' : State} {v : Val}
    (h : mapVal f m s = (.ok v, s')) : ∃ a, m s = (.ok a, s') ∧ v = f a := by
  unfold mapVal at h
  split at h <;> simp_all

theorem mapVal_of_ok {α} {f : α → Val} {m : M α} {s s' : State} {a : α}
    (h : m s = (.ok a, s')) : mapVal f m s = (.ok (f a), s') := by
  unfold mapVal; rw [h]

theorem mapVal_of_err {α} {f : α → Val} {m : M α} {s s' : State} {k : ErrKind}
    (h : m s = (.err k, s')) : mapVal f m s = (.err k, s') := by
  unfold mapVal; rw [h]

/-! ### association lists -/

theorem alLookup_alInsert_self {β} (k : FsPath) (v : β) (l : List (FsPath × β)) :
    alLookup k (alInsert k v l) = some v := by
  induction l with
  | nil => simp [alInsert, alLookup]
  | cons x r ih =>
    obtain ⟨k', v'⟩ := x
    by_cases h : k' = k <;> simp [alInsert, alLookup, h, ih]

theorem alLookup_alInsert_ne {β} {k q : FsPath} (h : q ≠ k) (v : β) (l : List (FsPath × β)) :
    alLookup q (alInsert k v l) = alLookup q l := by
  induction l with
  | nil => simp [alInsert, alLookup, Ne.symm h]
  | cons x r ih =>
    obtain ⟨k', v'⟩ := x
    by_cases h' : k' = k
    · subst h'; simp [alInsert, alLookup, Ne.symm h]
    · by_cases h2 : k' = q
      · subst h2; simp [alInsert, alLookup, h']
      · simp [alInsert, alLookup, h', h2, ih]

theorem alInsert_alInsert {β} (k : FsPath) (v w : β) (l : List (FsPath × β)) :
    alInsert k v (alInsert k w l) = alInsert k v l := by
  induction l with
  | nil => simp [alInsert]
  | cons x r ih =>
    obtain ⟨k', v'⟩ := x
    by_cases h : k' = k <;> simp [alInsert, h, ih]

theorem alLookup_mem {β} {k : FsPath} {v : β} {l : List (FsPath × β)} (h : alLookup k l = some v) :
    (k, v) ∈ l := by
  induction l with
  | nil => simp [alLookup] at h
  | cons x r ih =>
    obtain ⟨k', v'⟩ := x
    by_cases h' : k' = k
    · subst h'; simp [alLookup] at h; simp [h]
    · simp [alLookup, h'] at h; exact List.mem_cons_of_mem _ (ih h)

theorem dropLast_ne_self {α} {l : List α} (h : l ≠ []) : l.dropLast ≠ l := by
  intro e
  have h1 := congrArg List.length e
  have h2 : l.length ≠ 0 := by simpa using h
  simp at h1
  omega

/-! ### `absM` only reads the working directory -/

theorem absM_snd (env : Env) (p : Str) (s : State) : (absM env p s).2 = s := by
  unfold absM; split <;> rfl

theorem absM_fst_congr (env : Env) (p : Str) {s s' : State} (h : s'.cwd = s.cwd) :
    (absM env p s').1 = (absM env p s).1 := by
  unfold absM; rw [h]; split <;> rfl

theorem absM_eq (env : Env) (p : Str) (s : State) : absM env p s = ((absM env p s).1, s) :=
  Prod.ext rfl (absM_snd env p s)

theorem absM_transport {env : Env} {p : Str} {s s' : State} {o : Outcome FsPath}
    (h : absM env p s = (o, s)) (hc : s'.cwd = s.cwd) : absM env p s' = (o, s') := by
  rw [absM_eq env p s', absM_fst_congr env p hc, h]

/-! ### `syncM` in closed form -/

theorem syncM_eq (k : FsPath) (d : Bytes) (s : State) :
    syncM k d s = match alLookup k s.entries with
      | some _ => (match alLookup k s.files with
        | some _ => (.ok (), { s with files := alInsert k d s.files })
        | none => (.ok (), s))
      | none => (.err .ioNotFound, s) := by
  unfold syncM
  simp only [getEntry_bind]
  cases alLookup k s.entries with
  | none => rfl
  | some e =>
    simp only [getFile_bind]
    cases alLookup k s.files <;> rfl

theorem syncM_present {k : FsPath} (d : Bytes) {s : State}
    (he : (alLookup k s.entries).isSome) (hf : (alLookup k s.files).isSome) :
    syncM k d s = (.ok (), { s with files := alInsert k d s.files }) := by
  rw [syncM_eq]
  cases h1 : alLookup k s.entries with
  | none => simp [h1] at he
  | some e =>
    cases h2 : alLookup k s.files with
    | none => simp [h2] at hf
    | some b => rfl

theorem syncM_frame (k : FsPath) (d : Bytes) (s : State) {q : FsPath} (hq : q ≠ k) :
    alLookup q (syncM k d s).2.files = alLookup q s.files := by
  rw [syncM_eq]
  split
  · split
    · exact alLookup_alInsert_ne hq _ _
    · rfl
  · rfl

theorem syncM_cwd (k : FsPath) (d : Bytes) (s : State) :
    (syncM k d s).2.cwd = s.cwd ∧ (syncM k d s).2.handles = s.handles ∧
      (syncM k d s).2.entries = s.entries := by
  rw [syncM_eq]
  split
  · split <;> exact ⟨rfl, rfl, rfl⟩
  · exact ⟨rfl, rfl, rfl⟩

/-! ### `add` on a regular-file entry: the four ways it can go -/

/-- (A) the root: nothing checked, nothing changed; (B) an error before any mutation;
    (C) the entry exists and is a file: nothing changed; (D) fresh: empty data and the entry are
    inserted (then the parent's child set is updated, which can still report `existsAlready`). -/
theorem add_regular (e : Entry) (hf : e.file = true) (hl : e.link = false) (hd : e.dir = false)
    (s : State) :
    (e.path = [] ∧ add e s = (.ok e.path, s)) ∨
    (e.path ≠ [] ∧ ∃ kind, add e s = (.err kind, s)) ∨
    (e.path ≠ [] ∧ ∃ x, alLookup e.path s.entries = some x ∧ x.file = true ∧ add e s = (.ok e.path, s)) ∨
    (e.path ≠ [] ∧ alLookup e.path s.entries = none ∧ ∃ o ents',
        add e s = (o, { s with files := alInsert e.path [] s.files, entries := ents' }) ∧
        alLookup e.path ents' = some e ∧ (o = .ok e.path ∨ o = .err .existsAlready) ∧
        ∀ q, q ≠ e.path → (alLookup q ents').map Entry.file = (alLookup q s.entries).map Entry.file) := by
  by_cases hk : e.path = []
  · left; refine ⟨hk, ?_⟩; simp [add, hk]
  · right
    have hne : e.path.dropLast ≠ e.path := dropLast_ne_self hk
    cases hpar : alLookup e.path.dropLast s.entries with
    | none => left; refine ⟨hk, .doesNotExist, ?_⟩; simp [add, hk, hpar]
    | some d =>
      by_cases hdd : d.dir = false ∨ d.link = true
      · left; refine ⟨hk, .isNotDir, ?_⟩; simp [add, hk, hpar, hdd]
      · have hdir : d.dir = true := by
          cases h : d.dir <;> simp [h] at hdd ⊢
        have hlnk : d.link = false := by
          cases h : d.link <;> simp [h] at hdd ⊢
        cases hent : alLookup e.path s.entries with
        | some x =>
          by_cases hx : x.file = true
          · right; left; refine ⟨hk, x, rfl, hx, ?_⟩; simp [add, hk, hpar, hdir, hlnk, hent, hx, hl, hd]
          · left; refine ⟨hk, .isNotFile, ?_⟩; simp [add, hk, hpar, hdir, hlnk, hent, hx, hf]
        | none =>
          right; right
          refine ⟨hk, rfl, ?_⟩
          have hlk : alLookup e.path.dropLast (alInsert e.path e s.entries) = some d := by
            rw [alLookup_alInsert_ne hne, hpar]
          have hself : ∀ (d' : Entry), alLookup e.path
              (alInsert e.path.dropLast d' (alInsert e.path e s.entries)) = some e := fun d' =>
            (alLookup_alInsert_ne (Ne.symm hne) _ _).trans (alLookup_alInsert_self _ _ _)
          have hflag : ∀ (d' : Entry), d'.file = d.file → ∀ q, q ≠ e.path →
              (alLookup q (alInsert e.path.dropLast d' (alInsert e.path e s.entries))).map Entry.file =
                (alLookup q s.entries).map Entry.file := by
            intro d' hd' q hq
            by_cases hqd : q = e.path.dropLast
            · subst hqd; rw [alLookup_alInsert_self, hpar]; simp [hd']
            · rw [alLookup_alInsert_ne hqd, alLookup_alInsert_ne hq]
          cases hfs : d.files with
          | some fs =>
            by_cases hb : (insertName (baseName e.path) fs).1 = true
            · refine ⟨.ok e.path, alInsert e.path.dropLast
                { d with files := some (insertName (baseName e.path) fs).2 }
                (alInsert e.path e s.entries), ?_, hself _, Or.inl rfl, hflag _ rfl⟩
              simp [add, hk, hpar, hdir, hlnk, hent, hf, hl, hlk, Entry.addChild, hfs, hb]
            · refine ⟨.err .existsAlready, alInsert e.path.dropLast
                { d with files := some (insertName (baseName e.path) fs).2 }
                (alInsert e.path e s.entries), ?_, hself _, Or.inr rfl, hflag _ rfl⟩
              simp [add, hk, hpar, hdir, hlnk, hent, hf, hl, hlk, Entry.addChild, hfs, hb]
          | none =>
            refine ⟨.ok e.path, alInsert e.path.dropLast { d with files := some [baseName e.path] }
                (alInsert e.path e s.entries), ?_, hself _, Or.inl rfl, hflag _ rfl⟩
            simp [add, hk, hpar, hdir, hlnk, hent, hf, hl, hlk, Entry.addChild, hfs]

/-- `add_regular` for `mkFileEntry k`, the entry every content operation adds -/
theorem add_mkFile (k : FsPath) (s : State) :
    (k = [] ∧ add (mkFileEntry k) s = (.ok k, s)) ∨
    (k ≠ [] ∧ ∃ kind, add (mkFileEntry k) s = (.err kind, s)) ∨
    (k ≠ [] ∧ ∃ x, alLookup k s.entries = some x ∧ x.file = true ∧ add (mkFileEntry k) s = (.ok k, s)) ∨
    (k ≠ [] ∧ alLookup k s.entries = none ∧ ∃ o s1, add (mkFileEntry k) s = (o, s1) ∧
        s1.files = alInsert k [] s.files ∧ s1.cwd = s.cwd ∧ s1.handles = s.handles ∧
        alLookup k s1.entries = some (mkFileEntry k) ∧ (o = .ok k ∨ o = .err .existsAlready) ∧
        ∀ q, q ≠ k → (alLookup q s1.entries).map Entry.file = (alLookup q s.entries).map Entry.file) := by
  rcases add_regular (mkFileEntry k) rfl rfl rfl s with h | h | h | ⟨hk, hn, o, ents', h, hl, ho, hfl⟩
  · exact Or.inl h
  · exact Or.inr (Or.inl h)
  · exact Or.inr (Or.inr (Or.inl h))
  · exact Or.inr (Or.inr (Or.inr ⟨hk, hn, o, _, h, rfl, rfl, rfl, hl, ho, hfl⟩))

/-! ### frames: an operation on key `k` keeps the working directory and every other key's data -/

structure Frame (k : FsPath) (s s' : State) : Prop where
  cwd : s'.cwd = s.cwd
  other : ∀ q, q ≠ k → content s' q = content s q

theorem Frame.refl (k : FsPath) (s : State) : Frame k s s := ⟨rfl, fun _ _ => rfl⟩

theorem Frame.trans {k : FsPath} {s s1 s2 : State} (h1 : Frame k s s1) (h2 : Frame k s1 s2) :
    Frame k s s2 :=
  ⟨h2.cwd.trans h1.cwd, fun q hq => (h2.other q hq).trans (h1.other q hq)⟩

theorem Frame.of_files {k : FsPath} {s s' : State} (hc : s'.cwd = s.cwd)
    (hf : s'.files = s.files ∨ ∃ b, s'.files = alInsert k b s.files) : Frame k s s' := by
  refine ⟨hc, fun q hq => ?_⟩
  unfold content
  rcases hf with hf | ⟨b, hf⟩
  · rw [hf]
  · rw [hf, alLookup_alInsert_ne hq]

theorem syncM_Frame (k : FsPath) (d : Bytes) (s : State) : Frame k s (syncM k d s).2 :=
  ⟨(syncM_cwd k d s).1, fun _ hq => syncM_frame k d s hq⟩

theorem add_regular_Frame (e : Entry) (hf : e.file = true) (hl : e.link = false) (hd : e.dir = false)
    (s : State) : Frame e.path s (add e s).2 ∧ (add e s).2.handles = s.handles := by
  rcases add_regular e hf hl hd s with ⟨_, h⟩ | ⟨_, _, h⟩ | ⟨_, _, _, _, h⟩ | ⟨_, _, o, ents', h, _, _, _⟩
  · rw [h]; exact ⟨Frame.refl _ _, rfl⟩
  · rw [h]; exact ⟨Frame.refl _ _, rfl⟩
  · rw [h]; exact ⟨Frame.refl _ _, rfl⟩
  · rw [h]; exact ⟨Frame.of_files rfl (Or.inr ⟨_, rfl⟩), rfl⟩

/-- `add` on a regular-file entry either returns its key or fails with an error -/
theorem add_regular_outcome (e : Entry) (hf : e.file = true) (hl : e.link = false) (hd : e.dir = false)
    (s : State) : (add e s).1 = .ok e.path ∨ ∃ kind, (add e s).1 = .err kind := by
  rcases add_regular e hf hl hd s with ⟨_, h⟩ | ⟨_, _, h⟩ | ⟨_, _, _, _, h⟩ | ⟨_, _, o, ents', h, _, ho, _⟩
  · rw [h]; exact Or.inl rfl
  · rw [h]; exact Or.inr ⟨_, rfl⟩
  · rw [h]; exact Or.inl rfl
  · rw [h]; rcases ho with ho | ho
    · exact Or.inl ho
    · exact Or.inr ⟨_, ho⟩

/-! ### key-level forms of the content operations -/

/-- `write_all` after path resolution -/
def writeAt (k : FsPath) (d : Bytes) : M Unit := do
  let _ ← add (mkFileEntry k)
  if (← getFile k).isNone then fail .isNotFile else
  fun s => let (_, s') := syncM k d s; (.ok (), s')

/-- `append_all` after path resolution -/
def appendAt (k : FsPath) (d : Bytes) : M Unit := do
  let _ ← add (mkFileEntry k)
  match (← getFile k) with
  | some b =>
    syncM k (b ++ d)
    fun s => let (_, s') := syncM k (b ++ d) s; (.ok (), s')
  | none => fail .doesNotExist

/-- `_clone_file` after path resolution -/
def cloneAt (k : FsPath) : M Bytes := do
  match (← getEntry k) with
  | some e => if !e.file then fail .isNotFile else M.pure ()
  | none => M.pure ()
  match (← getFile k) with
  | some b => return b
  | none => fail .doesNotExist

def openWriteAt (k : FsPath) (id : Nat) : M Unit := do
  let _ ← add (mkFileEntry k)
  if (← getFile k).isNone then fail .isNotFile else
  modify fun s => { s with handles := ⟨id, k, []⟩ :: s.handles }

def openAppendAt (k : FsPath) (id : Nat) : M Unit := do
  let _ ← add (mkFileEntry k)
  match (← getFile k) with
  | some b => modify fun s => { s with handles := ⟨id, k, b⟩ :: s.handles }
  | none => fail .doesNotExist

theorem writeAllM_eq (env : Env) (p : Str) (d : Bytes) :
    writeAllM env p d = absM env p >>= fun k => writeAt k d := rfl
theorem appendAllM_eq (env : Env) (p : Str) (d : Bytes) :
    appendAllM env p d = absM env p >>= fun k => appendAt k d := rfl
theorem cloneFileM_eq (env : Env) (p : Str) : cloneFileM env p = absM env p >>= cloneAt := rfl
theorem openWriteM_eq (env : Env) (p : Str) (id : Nat) :
    openWriteM env p id = absM env p >>= fun k => openWriteAt k id := rfl
theorem openAppendM_eq (env : Env) (p : Str) (id : Nat) :
    openAppendM env p id = absM env p >>= fun k => openAppendAt k id := rfl

/-- a path operation = resolution (state untouched) followed by the key-level operation -/
theorem absM_bind_ok {α} {env : Env} {p : Str} {s : State} {k : FsPath} (f : FsPath → M α)
    (h : absM env p s = (.ok k, s)) : (absM env p >>= f) s = f k s := bind_ok h

/-- when resolution fails the state is untouched and the call does not succeed -/
theorem absM_bind_fail {α} {env : Env} {p : Str} {s : State} (f : FsPath → M α)
    (h : ∀ k, absM env p s ≠ (.ok k, s)) :
    ((absM env p >>= f) s).2 = s ∧ ∀ v, ((absM env p >>= f) s).1 ≠ .ok v := by
  rw [bind_apply]
  have h2 := absM_snd env p s
  rcases hr : absM env p s with ⟨o, s1⟩
  rw [hr] at h2
  simp only at h2
  subst h2
  cases o with
  | ok k => exact absurd hr (h k)
  | err kind => exact ⟨rfl, fun v hv => by cases hv⟩
  | panic => exact ⟨rfl, fun v hv => by cases hv⟩
  | hang => exact ⟨rfl, fun v hv => by cases hv⟩

/-! ### closed forms once the outcome of `add` is known -/

theorem writeAt_of_add_ok {k : FsPath} {d : Bytes} {s s1 : State} {v : FsPath}
    (h : add (mkFileEntry k) s = (.ok v, s1)) :
    writeAt k d s = if (alLookup k s1.files).isNone then (.err .isNotFile, s1)
      else (.ok (), (syncM k d s1).2) := by
  unfold writeAt
  rw [bind_ok h]
  simp only [getFile_bind, ite_apply_state, fail_apply]

theorem writeAt_of_add_err {k : FsPath} {d : Bytes} {s s1 : State} {kind : ErrKind}
    (h : add (mkFileEntry k) s = (.err kind, s1)) : writeAt k d s = (.err kind, s1) := by
  unfold writeAt
  rw [bind_err h]

theorem appendAt_of_add_ok {k : FsPath} {d : Bytes} {s s1 : State} {v : FsPath}
    (h : add (mkFileEntry k) s = (.ok v, s1)) :
    appendAt k d s = match alLookup k s1.files with
      | none => (.err .doesNotExist, s1)
      | some b => match alLookup k s1.entries with
        | none => (.err .ioNotFound, s1)
        | some _ => (.ok (), { s1 with files := alInsert k (b ++ d) s1.files }) := by
  unfold appendAt
  rw [bind_ok h]
  simp only [getFile_bind]
  cases hf : alLookup k s1.files with
  | none => rfl
  | some b =>
    cases he : alLookup k s1.entries with
    | none =>
      have : syncM k (b ++ d) s1 = (.err .ioNotFound, s1) := by rw [syncM_eq, he]
      simp only [bind_err this]
    | some e =>
      have h1 : syncM k (b ++ d) s1 = (.ok (), { s1 with files := alInsert k (b ++ d) s1.files }) :=
        syncM_present _ (by simp [he]) (by simp [hf])
      simp only [bind_ok h1]
      rw [syncM_present _ (by simp [he]) (by simp [alLookup_alInsert_self])]
      simp only [alInsert_alInsert]

theorem appendAt_of_add_err {k : FsPath} {d : Bytes} {s s1 : State} {kind : ErrKind}
    (h : add (mkFileEntry k) s = (.err kind, s1)) : appendAt k d s = (.err kind, s1) := by
  unfold appendAt
  rw [bind_err h]

theorem openWriteAt_of_add_ok {k : FsPath} {id : Nat} {s s1 : State} {v : FsPath}
    (h : add (mkFileEntry k) s = (.ok v, s1)) :
    openWriteAt k id s = if (alLookup k s1.files).isNone then (.err .isNotFile, s1)
      else (.ok (), { s1 with handles := ⟨id, k, []⟩ :: s1.handles }) := by
  unfold openWriteAt
  rw [bind_ok h]
  simp only [getFile_bind, ite_apply_state, fail_apply, modify_apply]

theorem openWriteAt_of_add_err {k : FsPath} {id : Nat} {s s1 : State} {kind : ErrKind}
    (h : add (mkFileEntry k) s = (.err kind, s1)) : openWriteAt k id s = (.err kind, s1) := by
  unfold openWriteAt
  rw [bind_err h]

theorem openAppendAt_of_add_ok {k : FsPath} {id : Nat} {s s1 : State} {v : FsPath}
    (h : add (mkFileEntry k) s = (.ok v, s1)) :
    openAppendAt k id s = match alLookup k s1.files with
      | some b => (.ok (), { s1 with handles := ⟨id, k, b⟩ :: s1.handles })
      | none => (.err .doesNotExist, s1) := by
  unfold openAppendAt
  rw [bind_ok h]
  simp only [getFile_bind]
  cases alLookup k s1.files <;> rfl

theorem openAppendAt_of_add_err {k : FsPath} {id : Nat} {s s1 : State} {kind : ErrKind}
    (h : add (mkFileEntry k) s = (.err kind, s1)) : openAppendAt k id s = (.err kind, s1) := by
  unfold openAppendAt
  rw [bind_err h]

theorem cloneAt_eq (k : FsPath) (s : State) :
    cloneAt k s = match alLookup k s.entries with
      | some e => if e.file then (match alLookup k s.files with
          | some b => (.ok b, s) | none => (.err .doesNotExist, s)) else (.err .isNotFile, s)
      | none => (match alLookup k s.files with
          | some b => (.ok b, s) | none => (.err .doesNotExist, s)) := by
  unfold cloneAt
  simp only [getEntry_bind]
  cases alLookup k s.entries with
  | none => simp only [mpure_bind_apply, getFile_bind]; cases alLookup k s.files <;> rfl
  | some e =>
    cases hf : e.file
    · simp [hf]
    · simp only [hf, Bool.not_true, Bool.false_eq_true, if_false, mpure_bind_apply, getFile_bind,
        if_true]
      cases alLookup k s.files <;> rfl

/-! ### frames of the key-level operations -/

/-- split `add (mkFileEntry k) s` into its outcome (ok / err) and post-state with its frame -/
theorem add_mkFile_split (k : FsPath) (s : State) :
    ∃ s1, Frame k s s1 ∧ s1.handles = s.handles ∧
      (add (mkFileEntry k) s = (.ok k, s1) ∨ ∃ kind, add (mkFileEntry k) s = (.err kind, s1)) := by
  have hF := add_regular_Frame (mkFileEntry k) rfl rfl rfl s
  have hO := add_regular_outcome (mkFileEntry k) rfl rfl rfl s
  refine ⟨(add (mkFileEntry k) s).2, hF.1, hF.2, ?_⟩
  rcases hO with h | ⟨kind, h⟩
  · left; exact Prod.ext h rfl
  · right; exact ⟨kind, Prod.ext h rfl⟩

theorem writeAt_frame (k : FsPath) (d : Bytes) (s : State) :
    Frame k s (writeAt k d s).2 ∧ (writeAt k d s).2.handles = s.handles := by
  obtain ⟨s1, hF, hH, h | ⟨kind, h⟩⟩ := add_mkFile_split k s
  · rw [writeAt_of_add_ok h]
    split
    · exact ⟨hF, hH⟩
    · exact ⟨hF.trans (syncM_Frame k d s1), (syncM_cwd k d s1).2.1.trans hH⟩
  · rw [writeAt_of_add_err h]; exact ⟨hF, hH⟩

theorem appendAt_frame (k : FsPath) (d : Bytes) (s : State) :
    Frame k s (appendAt k d s).2 ∧ (appendAt k d s).2.handles = s.handles := by
  obtain ⟨s1, hF, hH, h | ⟨kind, h⟩⟩ := add_mkFile_split k s
  · rw [appendAt_of_add_ok h]
    split
    · exact ⟨hF, hH⟩
    · split
      · exact ⟨hF, hH⟩
      · exact ⟨hF.trans (Frame.of_files rfl (Or.inr ⟨_, rfl⟩)), hH⟩
  · rw [appendAt_of_add_err h]; exact ⟨hF, hH⟩

theorem openWriteAt_frame (k : FsPath) (id : Nat) (s : State) : Frame k s (openWriteAt k id s).2 := by
  obtain ⟨s1, hF, hH, h | ⟨kind, h⟩⟩ := add_mkFile_split k s
  · rw [openWriteAt_of_add_ok h]
    split
    · exact hF
    · exact hF.trans (Frame.of_files rfl (Or.inl rfl))
  · rw [openWriteAt_of_add_err h]; exact hF

theorem openAppendAt_frame (k : FsPath) (id : Nat) (s : State) : Frame k s (openAppendAt k id s).2 := by
  obtain ⟨s1, hF, hH, h | ⟨kind, h⟩⟩ := add_mkFile_split k s
  · rw [openAppendAt_of_add_ok h]
    split
    · exact hF.trans (Frame.of_files rfl (Or.inl rfl))
    · exact hF
  · rw [openAppendAt_of_add_err h]; exact hF

/-! ### what a successful write / append leaves behind -/

/-- the only state-shape fact the content theorems need (decidable, implied by `Spec.Inv`):
    if the data map has bytes for the root key then the root entry exists and is a file
    (`add` returns early on the root key without looking at anything) -/
def RootOk (s : State) : Prop :=
  (alLookup [] s.files).isSome = true →
    (match alLookup [] s.entries with | some e => e.file | none => false) = true

instance (s : State) : Decidable (RootOk s) := by unfold RootOk; infer_instance

/-- `k` holds exactly `d` and nothing stops `read` from returning it -/
def Readable (s : State) (k : FsPath) (d : Bytes) : Prop :=
  content s k = some d ∧ ∃ x, alLookup k s.entries = some x ∧ x.file = true

theorem cloneAt_of_readable {s : State} {k : FsPath} {d : Bytes} (h : Readable s k d) :
    cloneAt k s = (.ok d, s) := by
  rw [cloneAt_eq]
  have hc : alLookup k s.files = some d := h.1
  obtain ⟨x, hx, hxf⟩ := h.2
  simp only [hc, hx, hxf, if_true]

theorem rootOk_entry {s : State} (h : RootOk s) {b : Bytes} (hb : alLookup [] s.files = some b) :
    ∃ e, alLookup [] s.entries = some e ∧ e.file = true := by
  have := h (by simp [hb])
  cases he : alLookup [] s.entries with
  | none => simp [he] at this
  | some e => simp only [he] at this; exact ⟨e, rfl, this⟩

theorem writeAt_ok {k : FsPath} {d : Bytes} {s s' : State} {u : Unit} (hroot : RootOk s)
    (h : writeAt k d s = (.ok u, s')) : Readable s' k d := by
  rcases add_mkFile k s with ⟨hk, ha⟩ | ⟨_, kind, ha⟩ | ⟨_, x, hx, hxf, ha⟩ |
      ⟨_, hn, o, s1, ha, hfiles, _, _, hent, ho, hflag⟩
  · -- the root key
    subst hk
    rw [writeAt_of_add_ok ha] at h
    cases hb : alLookup [] s.files with
    | none => simp [hb] at h
    | some b =>
      obtain ⟨e, he, hef⟩ := rootOk_entry hroot hb
      rw [syncM_present d (by simp [he]) (by simp [hb])] at h
      simp only [hb, Option.isNone_some, Bool.false_eq_true, if_false, Prod.mk.injEq] at h
      rw [← h.2]
      exact ⟨alLookup_alInsert_self _ _ _, e, he, hef⟩
  · rw [writeAt_of_add_err ha] at h; simp at h
  · rw [writeAt_of_add_ok ha] at h
    cases hb : alLookup k s.files with
    | none => simp [hb] at h
    | some b =>
      rw [syncM_present d (by simp [hx]) (by simp [hb])] at h
      simp only [hb, Option.isNone_some, Bool.false_eq_true, if_false, Prod.mk.injEq] at h
      rw [← h.2]
      exact ⟨alLookup_alInsert_self _ _ _, x, hx, hxf⟩
  · rcases ho with ho | ho
    · subst ho
      rw [writeAt_of_add_ok ha] at h
      have hb : alLookup k s1.files = some [] := by rw [hfiles]; exact alLookup_alInsert_self _ _ _
      rw [syncM_present d (by simp [hent]) (by simp [hb])] at h
      simp only [hb, Option.isNone_some, Bool.false_eq_true, if_false, Prod.mk.injEq] at h
      rw [← h.2]
      exact ⟨alLookup_alInsert_self _ _ _, _, hent, rfl⟩
    · subst ho
      rw [writeAt_of_add_err ha] at h; simp at h

/-- a successful `appendAt`: the stored bytes are `base ++ d`, where `base` is the old content if
    the entry existed and `[]` if the path was fresh -/
theorem appendAt_ok {k : FsPath} {d : Bytes} {s s' : State} {u : Unit}
    (h : appendAt k d s = (.ok u, s')) :
    ((alLookup k s.entries).isSome → ∃ old, content s k = some old ∧ content s' k = some (old ++ d)) ∧
    (alLookup k s.entries = none → content s' k = some d) ∧
    (RootOk s → ∃ x, alLookup k s'.entries = some x ∧ x.file = true) := by
  rcases add_mkFile k s with ⟨hk, ha⟩ | ⟨_, kind, ha⟩ | ⟨_, x, hx, hxf, ha⟩ |
      ⟨_, hn, o, s1, ha, hfiles, _, _, hent, ho, hflag⟩
  · subst hk
    rw [appendAt_of_add_ok ha] at h
    cases hb : alLookup [] s.files with
    | none => simp [hb] at h
    | some b =>
      cases he : alLookup [] s.entries with
      | none => simp [hb, he] at h
      | some e =>
        simp only [hb, he, Prod.mk.injEq] at h
        rw [← h.2]
        exact ⟨fun _ => ⟨b, hb, alLookup_alInsert_self _ _ _⟩, fun hn => by simp at hn,
          fun hroot => rootOk_entry (s := s) hroot hb⟩
  · rw [appendAt_of_add_err ha] at h; simp at h
  · rw [appendAt_of_add_ok ha] at h
    cases hb : alLookup k s.files with
    | none => simp [hb] at h
    | some b =>
      simp only [hb, hx, Prod.mk.injEq] at h
      rw [← h.2]
      exact ⟨fun _ => ⟨b, hb, alLookup_alInsert_self _ _ _⟩, fun hn => by simp [hx] at hn,
        fun _ => ⟨x, hx, hxf⟩⟩
  · rcases ho with ho | ho
    · subst ho
      rw [appendAt_of_add_ok ha] at h
      have hb : alLookup k s1.files = some [] := by rw [hfiles]; exact alLookup_alInsert_self _ _ _
      simp only [hb, hent, Prod.mk.injEq, List.nil_append] at h
      rw [← h.2]
      exact ⟨fun hs => by simp [hn] at hs, fun _ => alLookup_alInsert_self _ _ _,
        fun _ => ⟨_, hent, rfl⟩⟩
    · subst ho
      rw [appendAt_of_add_err ha] at h; simp at h

/-! ### the clauses of `Spec.Inv` that matter for contents -/

/-- the clauses of `Spec.Inv` used by the content lemmas -/
structure InvFacts (s : State) : Prop where
  rootDir : ∃ e, alLookup [] s.entries = some e ∧ e.dir = true ∧ e.link = false
  data : ∀ k e, alLookup k s.entries = some e → (e.file && !e.link) = (alLookup k s.files).isSome
  named : ∀ k e fs n, alLookup k s.entries = some e → e.files = some fs → n ∈ fs →
    (alLookup (k ++ [n]) s.entries).isSome = true
  pathField : ∀ k e, alLookup k s.entries = some e → e.path = k
  childSet : ∀ k e, alLookup k s.entries = some e → e.files.isSome = e.dir

theorem invFacts_of_inv {s : State} (h : Spec.Inv s) : InvFacts s := by
  unfold Spec.Inv Spec.invViolation at h
  simp only [] at h
  split at h
  · cases h
  split at h
  · cases h
  split at h
  · cases h
  split at h
  · cases h
  split at h
  · cases h
  split at h
  · cases h
  split at h
  · cases h
  split at h
  · cases h
  split at h
  · cases h
  split at h
  · cases h
  rename_i _ hroot _ _ _ _ hnamed _ hdata _ _ _ _ hpath _ hchild
  refine ⟨?_, fun k e he => ?_, fun k e fs n he hfs hn => ?_, fun k e he => ?_, fun k e he => ?_⟩
  · cases he : alLookup [] s.entries with
    | none => simp [he] at hroot
    | some e =>
      refine ⟨e, rfl, ?_⟩
      simpa [he] using hroot
  · have := List.find?_eq_none.mp hdata _ (alLookup_mem he)
    simpa using this
  · have := List.find?_eq_none.mp hnamed _ (alLookup_mem he)
    simp only [hfs, List.any_eq_true, not_exists, not_and] at this
    have := this n hn
    cases hx : alLookup (k ++ [n]) s.entries with
    | none => simp [hx] at this
    | some _ => rfl
  · have := List.find?_eq_none.mp hpath _ (alLookup_mem he)
    simpa using this
  · have := List.find?_eq_none.mp hchild _ (alLookup_mem he)
    simpa using this

theorem rootOk_of_inv {s : State} (h : Spec.Inv s) : RootOk s := by
  obtain ⟨e, he, _, hl⟩ := (invFacts_of_inv h).rootDir
  have hd := (invFacts_of_inv h).data [] e he
  intro hsome
  simp only [he]
  rw [hsome, hl] at hd
  simpa using hd

/-! ### handles -/

theorem handleWriteM_eq (id : Nat) (c : Bytes) (s : State) :
    handleWriteM id c s = (.ok (), { s with handles :=
      (s.handles.map (fun h => if h.id = id then { h with data := h.data ++ c } else h)) }) := rfl

theorem handleFlushM_eq (id : Nat) (s : State) :
    handleFlushM id s = match s.handles.find? (·.id = id) with
      | some h => syncM h.path h.data s
      | none => (.ok (), s) := by
  unfold handleFlushM
  simp only [get_bind]
  cases s.handles.find? (·.id = id) <;> rfl

theorem handleDropM_eq (id : Nat) (s : State) :
    handleDropM id s = match s.handles.find? (·.id = id) with
      | some h =>
        let s' := (syncM h.path h.data s).2
        (.ok (), { s' with handles := s'.handles.filter (·.id ≠ id) })
      | none => (.ok (), s) := by
  unfold handleDropM
  cases s.handles.find? (·.id = id) <;> rfl

/-- the key a handle operation can touch: the path of the first handle with that id -/
def handleKey (s : State) (id : Nat) : Option FsPath := (s.handles.find? (·.id = id)).map (·.path)

theorem handleWriteM_frame (id : Nat) (c : Bytes) (s : State) (k : FsPath) :
    Frame k s (handleWriteM id c s).2 := by
  rw [handleWriteM_eq]; exact Frame.of_files rfl (Or.inl rfl)

theorem handleFlushM_frame (id : Nat) (s : State) (q : FsPath) (hq : handleKey s id ≠ some q) :
    content (handleFlushM id s).2 q = content s q := by
  rw [handleFlushM_eq]
  unfold handleKey at hq
  cases hf : s.handles.find? (·.id = id) with
  | none => rfl
  | some h =>
    simp only [hf, Option.map_some, ne_eq, Option.some.injEq] at hq
    exact (syncM_Frame h.path h.data s).other q (fun e => hq e.symm)

theorem handleDropM_frame (id : Nat) (s : State) (q : FsPath) (hq : handleKey s id ≠ some q) :
    content (handleDropM id s).2 q = content s q := by
  rw [handleDropM_eq]
  unfold handleKey at hq
  cases hf : s.handles.find? (·.id = id) with
  | none => rfl
  | some h =>
    simp only [hf, Option.map_some, ne_eq, Option.some.injEq] at hq
    exact (syncM_Frame h.path h.data s).other q (fun e => hq e.symm)

/-- the invariant of an open write/append session on key `k` through handle `id`: entry and data
    are present and the first handle with this id points at `k` and carries `data` -/
def Sess (s : State) (k : FsPath) (id : Nat) (data : Bytes) : Prop :=
  (alLookup k s.entries).isSome = true ∧ (alLookup k s.files).isSome = true ∧
  ∃ h, s.handles.find? (·.id = id) = some h ∧ h.path = k ∧ h.data = data

theorem sess_put {s : State} {k : FsPath} {id : Nat} {data : Bytes} (c : Bytes)
    (h : Sess s k id data) : Sess (handleWriteM id c s).2 k id (data ++ c) := by
  obtain ⟨he, hf, hd, hfind, hp, hdat⟩ := h
  rw [handleWriteM_eq]
  refine ⟨he, hf, { hd with data := hd.data ++ c }, ?_, hp, by rw [← hdat]⟩
  have hid : hd.id = id := by simpa using List.find?_some hfind
  show List.find? _ (List.map _ s.handles) = _
  rw [List.find?_map]
  have : ((fun (x : Handle) => decide (x.id = id)) ∘
      (fun (h : Handle) => if h.id = id then { h with data := h.data ++ c } else h)) =
      (fun (x : Handle) => decide (x.id = id)) := by
    funext x
    by_cases hx : x.id = id <;> simp [hx]
  rw [this, hfind]
  simp [hid]

theorem sess_flush {s : State} {k : FsPath} {id : Nat} {data : Bytes}
    (h : Sess s k id data) :
    Sess (handleFlushM id s).2 k id data ∧ content (handleFlushM id s).2 k = some data ∧
      (handleFlushM id s).1 = .ok () := by
  obtain ⟨he, hf, hd, hfind, hp, hdat⟩ := h
  rw [handleFlushM_eq, hfind]
  simp only [hp, hdat]
  rw [syncM_present data he hf]
  refine ⟨⟨he, ?_, hd, hfind, hp, hdat⟩, alLookup_alInsert_self _ _ _, rfl⟩
  show (alLookup k (alInsert k data s.files)).isSome = true
  rw [alLookup_alInsert_self]; rfl

theorem sess_drop {s : State} {k : FsPath} {id : Nat} {data : Bytes}
    (h : Sess s k id data) : content (handleDropM id s).2 k = some data := by
  obtain ⟨he, hf, hd, hfind, hp, hdat⟩ := h
  rw [handleDropM_eq, hfind]
  simp only [hp, hdat]
  rw [syncM_present data he hf]
  exact alLookup_alInsert_self _ _ _

theorem find_head (id : Nat) (k : FsPath) (b : Bytes) (hs : List Handle) :
    List.find? (fun h => decide (h.id = id)) (⟨id, k, b⟩ :: hs) = some ⟨id, k, b⟩ := by
  simp [List.find?]

/-- a successfully opened write handle starts a session carrying no bytes -/
theorem openWriteAt_ok {k : FsPath} {id : Nat} {s s' : State} {u : Unit} (hroot : RootOk s)
    (h : openWriteAt k id s = (.ok u, s')) : Sess s' k id [] := by
  rcases add_mkFile k s with ⟨hk, ha⟩ | ⟨_, kind, ha⟩ | ⟨_, x, hx, hxf, ha⟩ |
      ⟨_, hn, o, s1, ha, hfiles, _, _, hent, ho, hflag⟩
  · subst hk
    rw [openWriteAt_of_add_ok ha] at h
    cases hb : alLookup [] s.files with
    | none => simp [hb] at h
    | some b =>
      obtain ⟨e, he, hef⟩ := rootOk_entry hroot hb
      simp only [hb, Option.isNone_some, Bool.false_eq_true, if_false, Prod.mk.injEq] at h
      rw [← h.2]
      exact ⟨by simp [he], by simp [hb], _, find_head _ _ _ _, rfl, rfl⟩
  · rw [openWriteAt_of_add_err ha] at h; simp at h
  · rw [openWriteAt_of_add_ok ha] at h
    cases hb : alLookup k s.files with
    | none => simp [hb] at h
    | some b =>
      simp only [hb, Option.isNone_some, Bool.false_eq_true, if_false, Prod.mk.injEq] at h
      rw [← h.2]
      exact ⟨by simp [hx], by simp [hb], _, find_head _ _ _ _, rfl, rfl⟩
  · rcases ho with ho | ho
    · subst ho
      rw [openWriteAt_of_add_ok ha] at h
      have hb : alLookup k s1.files = some [] := by rw [hfiles]; exact alLookup_alInsert_self _ _ _
      simp only [hb, Option.isNone_some, Bool.false_eq_true, if_false, Prod.mk.injEq] at h
      rw [← h.2]
      exact ⟨by simp [hent], by simp [hb], _, find_head _ _ _ _, rfl, rfl⟩
    · subst ho
      rw [openWriteAt_of_add_err ha] at h; simp at h

/-- a successfully opened append handle starts a session carrying the stored bytes: the old content
    if the entry existed, nothing if the path was fresh -/
theorem openAppendAt_ok {k : FsPath} {id : Nat} {s s' : State} {u : Unit} (hroot : RootOk s)
    (h : openAppendAt k id s = (.ok u, s')) :
    ∃ b, Sess s' k id b ∧ ((alLookup k s.entries).isSome → content s k = some b) ∧
      (alLookup k s.entries = none → b = []) := by
  rcases add_mkFile k s with ⟨hk, ha⟩ | ⟨_, kind, ha⟩ | ⟨_, x, hx, hxf, ha⟩ |
      ⟨_, hn, o, s1, ha, hfiles, _, _, hent, ho, hflag⟩
  · subst hk
    rw [openAppendAt_of_add_ok ha] at h
    cases hb : alLookup [] s.files with
    | none => simp [hb] at h
    | some b =>
      obtain ⟨e, he, hef⟩ := rootOk_entry hroot hb
      simp only [hb, Prod.mk.injEq] at h
      rw [← h.2]
      exact ⟨b, ⟨by simp [he], by simp [hb], _, find_head _ _ _ _, rfl, rfl⟩, fun _ => hb,
        fun hn => by simp [he] at hn⟩
  · rw [openAppendAt_of_add_err ha] at h; simp at h
  · rw [openAppendAt_of_add_ok ha] at h
    cases hb : alLookup k s.files with
    | none => simp [hb] at h
    | some b =>
      simp only [hb, Prod.mk.injEq] at h
      rw [← h.2]
      exact ⟨b, ⟨by simp [hx], by simp [hb], _, find_head _ _ _ _, rfl, rfl⟩, fun _ => hb,
        fun hn => by simp [hx] at hn⟩
  · rcases ho with ho | ho
    · subst ho
      rw [openAppendAt_of_add_ok ha] at h
      have hb : alLookup k s1.files = some [] := by rw [hfiles]; exact alLookup_alInsert_self _ _ _
      simp only [hb, Prod.mk.injEq] at h
      rw [← h.2]
      exact ⟨[], ⟨by simp [hent], by simp [hb], _, find_head _ _ _ _, rfl, rfl⟩,
        fun hs => by simp [hn] at hs, fun _ => rfl⟩
    · subst ho
      rw [openAppendAt_of_add_err ha] at h; simp at h

/-! ### from keys back to `step` -/

theorem mapVal_congr {α} (f : α → Val) {m m' : M α} {s : State} (h : m s = m' s) :
    mapVal f m s = mapVal f m' s := by
  unfold mapVal; rw [h]

/-- the key a path argument resolves to in state `s` (`none` when resolution fails) -/
def keyOf (env : Env) (s : State) (p : Str) : Option FsPath :=
  match absM env p s with
  | (.ok k, _) => some k
  | _ => none

theorem keyOf_of_abs {env : Env} {s : State} {p : Str} {k : FsPath} (h : absM env p s = (.ok k, s)) :
    keyOf env s p = some k := by
  unfold keyOf; rw [h]

theorem abs_of_keyOf {env : Env} {s : State} {p : Str} {k : FsPath} (h : keyOf env s p = some k) :
    absM env p s = (.ok k, s) := by
  unfold keyOf at h
  rw [absM_eq env p s] at h ⊢
  cases hr : (absM env p s).1 <;> simp_all

/-- a path operation whose key-level form has frame `k` leaves every other key's data alone,
    whether or not resolution (or the operation) succeeds -/
theorem path_op_frame {α} (f : FsPath → M α) (hf : ∀ k s, Frame k s (f k s).2)
    (env : Env) (p : Str) (s : State) (q : FsPath) (hq : keyOf env s p ≠ some q) :
    content ((absM env p >>= f) s).2 q = content s q := by
  rw [bind_apply]
  have h2 := absM_eq env p s
  cases hr : (absM env p s).1 with
  | ok k =>
    rw [hr] at h2
    rw [keyOf_of_abs h2] at hq
    rw [h2]
    exact (hf k s).other q (fun e => hq (by rw [e]))
  | err kind => rw [hr] at h2; rw [h2]
  | panic => rw [hr] at h2; rw [h2]
  | hang => rw [hr] at h2; rw [h2]

theorem writeAllM_frame (env : Env) (p : Str) (d : Bytes) (s : State) (q : FsPath)
    (hq : keyOf env s p ≠ some q) : content (writeAllM env p d s).2 q = content s q :=
  path_op_frame (fun k => writeAt k d) (fun k s => (writeAt_frame k d s).1) env p s q hq

theorem appendAllM_frame (env : Env) (p : Str) (d : Bytes) (s : State) (q : FsPath)
    (hq : keyOf env s p ≠ some q) : content (appendAllM env p d s).2 q = content s q :=
  path_op_frame (fun k => appendAt k d) (fun k s => (appendAt_frame k d s).1) env p s q hq

theorem writeLinesM_frame (env : Env) (p : Str) (ls : List Str) (s : State) (q : FsPath)
    (hq : keyOf env s p ≠ some q) : content (writeLinesM env p ls s).2 q = content s q := by
  unfold writeLinesM
  cases joinLines ls with
  | none => rfl
  | some b => exact writeAllM_frame env p b s q hq

theorem appendLinesM_frame (env : Env) (p : Str) (ls : List Str) (s : State) (q : FsPath)
    (hq : keyOf env s p ≠ some q) : content (appendLinesM env p ls s).2 q = content s q := by
  unfold appendLinesM
  cases joinLines ls with
  | none => rfl
  | some b => exact appendAllM_frame env p b s q hq

theorem appendLineM_frame (env : Env) (p : Str) (l : Str) (s : State) (q : FsPath)
    (hq : keyOf env s p ≠ some q) : content (appendLineM env p l s).2 q = content s q := by
  unfold appendLineM
  split
  · rfl
  · exact appendAllM_frame env p _ s q hq

theorem openWriteM_frame (env : Env) (p : Str) (id : Nat) (s : State) (q : FsPath)
    (hq : keyOf env s p ≠ some q) : content (openWriteM env p id s).2 q = content s q :=
  path_op_frame (fun k => openWriteAt k id) (fun k s => openWriteAt_frame k id s) env p s q hq

theorem openAppendM_frame (env : Env) (p : Str) (id : Nat) (s : State) (q : FsPath)
    (hq : keyOf env s p ≠ some q) : content (openAppendM env p id s).2 q = content s q :=
  path_op_frame (fun k => openAppendAt k id) (fun k s => openAppendAt_frame k id s) env p s q hq

/-- the operations that write file contents -/
def isContentOp : Op → Bool
  | .writeAll _ _ | .appendAll _ _ | .writeLines _ _ | .appendLines _ _ | .appendLine _ _
  | .hWrite _ _ | .hAppend _ _ | .hPut _ _ | .hFlush _ | .hDrop _ => true
  | _ => false

/-- the one key such an operation may touch: the resolved path, or the handle's path -/
def opKey (env : Env) (s : State) : Op → Option FsPath
  | .writeAll p _ | .appendAll p _ | .writeLines p _ | .appendLines p _ | .appendLine p _
  | .hWrite _ p | .hAppend _ p => keyOf env s p
  | .hFlush id | .hDrop id => handleKey s id
  | _ => none

theorem step_frame (env : Env) (s : State) (op : Op) (hop : isContentOp op = true) (q : FsPath)
    (hq : opKey env s op ≠ some q) : content (step env s op).2 q = content s q := by
  cases op <;> simp only [isContentOp, Bool.false_eq_true] at hop <;>
    simp only [step, mapVal_snd] <;> simp only [opKey] at hq
  · exact writeAllM_frame _ _ _ _ _ hq
  · exact appendAllM_frame _ _ _ _ _ hq
  · exact writeLinesM_frame _ _ _ _ _ hq
  · exact appendLinesM_frame _ _ _ _ _ hq
  · exact appendLineM_frame _ _ _ _ _ hq
  · exact openWriteM_frame _ _ _ _ _ hq
  · exact openAppendM_frame _ _ _ _ _ hq
  · rfl
  · exact handleFlushM_frame _ _ _ hq
  · exact handleDropM_frame _ _ _ hq

/-- a content operation never moves the working directory (so paths keep resolving to the same
    keys afterwards) -/
theorem path_op_cwd {α} (f : FsPath → M α) (hf : ∀ k s, (f k s).2.cwd = s.cwd)
    (env : Env) (p : Str) (s : State) : ((absM env p >>= f) s).2.cwd = s.cwd := by
  rw [bind_apply]
  have h2 := absM_eq env p s
  cases hr : (absM env p s).1 with
  | ok k => rw [hr] at h2; rw [h2]; exact hf k s
  | err kind => rw [hr] at h2; rw [h2]
  | panic => rw [hr] at h2; rw [h2]
  | hang => rw [hr] at h2; rw [h2]

/-! ### reading back through `step` -/

theorem cloneFileM_of_readable {env : Env} {p : Str} {s : State} {k : FsPath} {d : Bytes}
    (habs : absM env p s = (.ok k, s)) (hr : Readable s k d) : cloneFileM env p s = (.ok d, s) := by
  rw [cloneFileM_eq, absM_bind_ok _ habs, cloneAt_of_readable hr]

theorem step_read_of_readable {env : Env} {p : Str} {s : State} {k : FsPath} {d : Bytes}
    (habs : absM env p s = (.ok k, s)) (hr : Readable s k d) :
    step env s (.read p) = (.ok (.bytes d), s) :=
  mapVal_of_ok (cloneFileM_of_readable habs hr)

theorem step_readAll_of_readable {env : Env} {p : Str} {s : State} {k : FsPath} {d : Bytes}
    (habs : absM env p s = (.ok k, s)) (hr : Readable s k d) :
    step env s (.readAll p) = match decodeUtf8 d with
      | some str => (.ok (.str str), s)
      | none => (.err .ioInvalidData, s) := by
  have h : readAllM env p s = match decodeUtf8 d with
      | some str => (.ok str, s) | none => (.err .ioInvalidData, s) := by
    unfold readAllM
    rw [bind_ok (cloneFileM_of_readable habs hr)]
    cases decodeUtf8 d <;> rfl
  cases hd : decodeUtf8 d with
  | none => rw [hd] at h; exact mapVal_of_err h
  | some str => rw [hd] at h; exact mapVal_of_ok h

theorem step_readLines_of_readable {env : Env} {p : Str} {s : State} {k : FsPath} {d : Bytes}
    (habs : absM env p s = (.ok k, s)) (hr : Readable s k d) :
    step env s (.readLines p) = match decodeUtf8 d with
      | some str => (.ok (.strs (splitLines str)), s)
      | none => (.err .ioInvalidData, s) := by
  have h : readLinesM env p s = match decodeUtf8 d with
      | some str => (.ok (splitLines str), s) | none => (.err .ioInvalidData, s) := by
    unfold readLinesM
    rw [bind_ok (cloneFileM_of_readable habs hr)]
    cases decodeUtf8 d <;> rfl
  cases hd : decodeUtf8 d with
  | none => rw [hd] at h; exact mapVal_of_err h
  | some str => rw [hd] at h; exact mapVal_of_ok h

/-! ### write / append through `step` -/

theorem step_writeAll_ok {env : Env} {p : Str} {d : Bytes} {s s' : State} {k : FsPath} {v : Val}
    (habs : absM env p s = (.ok k, s)) (h : step env s (.writeAll p d) = (.ok v, s')) :
    ∃ u, writeAt k d s = (.ok u, s') := by
  obtain ⟨a, ha, _⟩ := mapVal_ok h
  rw [writeAllM_eq, absM_bind_ok _ habs] at ha
  exact ⟨a, ha⟩

theorem step_appendAll_ok {env : Env} {p : Str} {d : Bytes} {s s' : State} {k : FsPath} {v : Val}
    (habs : absM env p s = (.ok k, s)) (h : step env s (.appendAll p d) = (.ok v, s')) :
    ∃ u, appendAt k d s = (.ok u, s') := by
  obtain ⟨a, ha, _⟩ := mapVal_ok h
  rw [appendAllM_eq, absM_bind_ok _ habs] at ha
  exact ⟨a, ha⟩

theorem writeAt_cwd {k : FsPath} {d : Bytes} {s s' : State} {o : Outcome Unit}
    (h : writeAt k d s = (o, s')) : s'.cwd = s.cwd := by
  have := (writeAt_frame k d s).1.cwd; rw [h] at this; exact this

theorem appendAt_cwd {k : FsPath} {d : Bytes} {s s' : State} {o : Outcome Unit}
    (h : appendAt k d s = (o, s')) : s'.cwd = s.cwd := by
  have := (appendAt_frame k d s).1.cwd; rw [h] at this; exact this

/-! ### a whole handle session through `run` -/

/-- the `Op` a handle operation of C07's `WOp` corresponds to, for handle `id` -/
def wopToOp (id : Nat) : WOp → Op
  | .write c => .hPut id c
  | .flush => .hFlush id

theorem step_hPut_snd (env : Env) (s : State) (id : Nat) (c : Bytes) :
    (step env s (.hPut id c)).2 = (handleWriteM id c s).2 := mapVal_snd _ _ _
theorem step_hFlush_snd (env : Env) (s : State) (id : Nat) :
    (step env s (.hFlush id)).2 = (handleFlushM id s).2 := mapVal_snd _ _ _
theorem step_hDrop_snd (env : Env) (s : State) (id : Nat) :
    (step env s (.hDrop id)).2 = (handleDropM id s).2 := mapVal_snd _ _ _

/-- the session invariant is carried through any sequence of writes and flushes -/
theorem sess_run (env : Env) (id : Nat) (k : FsPath) (ops : List WOp) :
    ∀ (s : State) (data : Bytes), Sess s k id data →
      Sess (run env s (ops.map (wopToOp id))) k id (data ++ chunksOf ops) := by
  induction ops with
  | nil => intro s data h; simpa [run, chunksOf] using h
  | cons op rest ih =>
    intro s data h
    cases op with
    | write c =>
      simp only [List.map_cons, wopToOp, run, chunksOf, step_hPut_snd]
      rw [← List.append_assoc]
      exact ih _ _ (sess_put c h)
    | flush =>
      simp only [List.map_cons, wopToOp, run, chunksOf, step_hFlush_snd]
      exact ih _ _ (sess_flush h).1

theorem run_append (env : Env) (s : State) (a b : List Op) :
    run env s (a ++ b) = run env (run env s a) b := by
  induction a generalizing s with
  | nil => rfl
  | cons x r ih => simp only [List.cons_append, run]; exact ih _

/-- open … any writes/flushes … drop: the file holds what the handle carried -/
theorem session_drop (env : Env) (id : Nat) (k : FsPath) (ops : List WOp) (s : State) (data : Bytes)
    (h : Sess s k id data) :
    content (run env s (ops.map (wopToOp id) ++ [.hDrop id])) k = some (data ++ chunksOf ops) := by
  rw [run_append]
  simp only [run, step_hDrop_snd]
  exact sess_drop (sess_run env id k ops s data h)

/-- … and at every flush everything written so far is visible -/
theorem session_flush (env : Env) (id : Nat) (k : FsPath) (ops : List WOp) (s : State) (data : Bytes)
    (h : Sess s k id data) :
    content (run env s (ops.map (wopToOp id) ++ [.hFlush id])) k = some (data ++ chunksOf ops) := by
  rw [run_append]
  simp only [run, step_hFlush_snd]
  exact (sess_flush (sess_run env id k ops s data h)).2.1

theorem step_hWrite_ok {env : Env} {p : Str} {id : Nat} {s s' : State} {k : FsPath} {v : Val}
    (habs : absM env p s = (.ok k, s)) (h : step env s (.hWrite id p) = (.ok v, s')) :
    ∃ u, openWriteAt k id s = (.ok u, s') := by
  obtain ⟨a, ha, _⟩ := mapVal_ok h
  rw [openWriteM_eq, absM_bind_ok _ habs] at ha
  exact ⟨a, ha⟩

theorem step_hAppend_ok {env : Env} {p : Str} {id : Nat} {s s' : State} {k : FsPath} {v : Val}
    (habs : absM env p s = (.ok k, s)) (h : step env s (.hAppend id p) = (.ok v, s')) :
    ∃ u, openAppendAt k id s = (.ok u, s') := by
  obtain ⟨a, ha, _⟩ := mapVal_ok h
  rw [openAppendM_eq, absM_bind_ok _ habs] at ha
  exact ⟨a, ha⟩

/-! ### `RootOk` is preserved by every content operation (so the theorems chain over sequences) -/

theorem rootOk_iff (s : State) :
    RootOk s ↔ ((alLookup [] s.files).isSome = true →
      ((alLookup [] s.entries).map Entry.file).getD false = true) := by
  unfold RootOk
  cases alLookup [] s.entries <;> simp

theorem rootOk_congr {s s' : State}
    (hf : (alLookup [] s'.files).isSome = (alLookup [] s.files).isSome)
    (he : (alLookup [] s'.entries).map Entry.file = (alLookup [] s.entries).map Entry.file)
    (h : RootOk s) : RootOk s' := by
  rw [rootOk_iff] at h ⊢
  rw [hf, he]; exact h

theorem rootOk_setFile_present {s : State} {k : FsPath} (d : Bytes) (hp : (alLookup k s.files).isSome)
    (h : RootOk s) : RootOk { s with files := alInsert k d s.files } := by
  refine rootOk_congr (s := s) (s' := { s with files := alInsert k d s.files }) ?_ rfl h
  by_cases hk : k = []
  · subst hk
    show (alLookup [] (alInsert [] d s.files)).isSome = (alLookup [] s.files).isSome
    rw [alLookup_alInsert_self, hp]; rfl
  · show (alLookup [] (alInsert k d s.files)).isSome = (alLookup [] s.files).isSome
    rw [alLookup_alInsert_ne (Ne.symm hk)]

theorem rootOk_handles {s : State} (hs : List Handle) (h : RootOk s) :
    RootOk { s with handles := hs } := h

theorem syncM_rootOk (k : FsPath) (d : Bytes) {s : State} (h : RootOk s) : RootOk (syncM k d s).2 := by
  rw [syncM_eq]
  split
  · split
    · rename_i b hb; exact rootOk_setFile_present d (by simp [hb]) h
    · exact h
  · exact h

theorem add_mkFile_rootOk (k : FsPath) {s : State} (h : RootOk s) :
    RootOk (add (mkFileEntry k) s).2 := by
  rcases add_mkFile k s with ⟨_, ha⟩ | ⟨_, kind, ha⟩ | ⟨_, x, _, _, ha⟩ |
      ⟨hk, _, o, s1, ha, hfiles, _, _, _, _, hflag⟩
  · rw [ha]; exact h
  · rw [ha]; exact h
  · rw [ha]; exact h
  · rw [ha]
    refine rootOk_congr (s := s) (s' := s1) ?_ (hflag [] (Ne.symm hk)) h
    show (alLookup [] s1.files).isSome = (alLookup [] s.files).isSome
    rw [hfiles, alLookup_alInsert_ne (Ne.symm hk)]

theorem writeAt_rootOk (k : FsPath) (d : Bytes) {s : State} (h : RootOk s) :
    RootOk (writeAt k d s).2 := by
  have h1 := add_mkFile_rootOk k h
  obtain ⟨s1, _, _, ha | ⟨kind, ha⟩⟩ := add_mkFile_split k s
  · rw [ha] at h1
    rw [writeAt_of_add_ok ha]
    split
    · exact h1
    · exact syncM_rootOk k d h1
  · rw [ha] at h1; rw [writeAt_of_add_err ha]; exact h1

theorem appendAt_rootOk (k : FsPath) (d : Bytes) {s : State} (h : RootOk s) :
    RootOk (appendAt k d s).2 := by
  have h1 := add_mkFile_rootOk k h
  obtain ⟨s1, _, _, ha | ⟨kind, ha⟩⟩ := add_mkFile_split k s
  · rw [ha] at h1
    rw [appendAt_of_add_ok ha]
    split
    · exact h1
    · rename_i b hb
      split
      · exact h1
      · exact rootOk_setFile_present _ (by simp [hb]) h1
  · rw [ha] at h1; rw [appendAt_of_add_err ha]; exact h1

theorem openWriteAt_rootOk (k : FsPath) (id : Nat) {s : State} (h : RootOk s) :
    RootOk (openWriteAt k id s).2 := by
  have h1 := add_mkFile_rootOk k h
  obtain ⟨s1, _, _, ha | ⟨kind, ha⟩⟩ := add_mkFile_split k s
  · rw [ha] at h1
    rw [openWriteAt_of_add_ok ha]
    split
    · exact h1
    · exact h1
  · rw [ha] at h1; rw [openWriteAt_of_add_err ha]; exact h1

theorem openAppendAt_rootOk (k : FsPath) (id : Nat) {s : State} (h : RootOk s) :
    RootOk (openAppendAt k id s).2 := by
  have h1 := add_mkFile_rootOk k h
  obtain ⟨s1, _, _, ha | ⟨kind, ha⟩⟩ := add_mkFile_split k s
  · rw [ha] at h1
    rw [openAppendAt_of_add_ok ha]
    split
    · exact h1
    · exact h1
  · rw [ha] at h1; rw [openAppendAt_of_add_err ha]; exact h1

theorem path_op_rootOk {α} (f : FsPath → M α) (hf : ∀ k s, RootOk s → RootOk (f k s).2)
    (env : Env) (p : Str) {s : State} (h : RootOk s) : RootOk ((absM env p >>= f) s).2 := by
  rw [bind_apply]
  have h2 := absM_eq env p s
  cases hr : (absM env p s).1 with
  | ok k => rw [hr] at h2; rw [h2]; exact hf k s h
  | err kind => rw [hr] at h2; rw [h2]; exact h
  | panic => rw [hr] at h2; rw [h2]; exact h
  | hang => rw [hr] at h2; rw [h2]; exact h

theorem step_rootOk (env : Env) (s : State) (op : Op) (hop : isContentOp op = true)
    (h : RootOk s) : RootOk (step env s op).2 := by
  have hw : ∀ p d, RootOk (writeAllM env p d s).2 := fun p d =>
    path_op_rootOk (fun k => writeAt k d) (fun k s hs => writeAt_rootOk k d hs) env p h
  have hap : ∀ p d, RootOk (appendAllM env p d s).2 := fun p d =>
    path_op_rootOk (fun k => appendAt k d) (fun k s hs => appendAt_rootOk k d hs) env p h
  cases op <;> simp only [isContentOp, Bool.false_eq_true] at hop <;>
    simp only [step, mapVal_snd]
  · exact hw _ _
  · exact hap _ _
  · unfold writeLinesM; cases joinLines _ with
    | none => exact h
    | some b => exact hw _ _
  · unfold appendLinesM; cases joinLines _ with
    | none => exact h
    | some b => exact hap _ _
  · unfold appendLineM; split
    · exact h
    · exact hap _ _
  · exact path_op_rootOk (fun k => openWriteAt k _) (fun k s hs => openWriteAt_rootOk k _ hs) env _ h
  · exact path_op_rootOk (fun k => openAppendAt k _) (fun k s hs => openAppendAt_rootOk k _ hs) env _ h
  · exact h
  · rw [handleFlushM_eq]; split
    · exact syncM_rootOk _ _ h
    · exact h
  · rw [handleDropM_eq]; split
    · exact syncM_rootOk _ _ h
    · exact h

/-! ### any sequence of content operations on one path against the byte-vector model -/

/-- the path-based content operations -/
inductive COp where
  | writeAll (d : Bytes) | appendAll (d : Bytes)
  | writeLines (ls : List Str) | appendLines (ls : List Str) | appendLine (l : Str)
  deriving Repr, DecidableEq

def COp.toOp (p : Str) : COp → Op
  | .writeAll d => .writeAll p d
  | .appendAll d => .appendAll p d
  | .writeLines ls => .writeLines p ls
  | .appendLines ls => .appendLines p ls
  | .appendLine l => .appendLine p l

/-- the byte-vector model: a write replaces, an append extends, the line helpers hand over
    `joinLines` (and do nothing when that is empty) -/
def COp.apply (old : Bytes) : COp → Bytes
  | .writeAll d => d
  | .appendAll d => old ++ d
  | .writeLines ls => match joinLines ls with | some b => b | none => old
  | .appendLines ls => match joinLines ls with | some b => old ++ b | none => old
  | .appendLine l => if l = [] then old else old ++ (utf8 l ++ [nl])

/-- every call of the history returns `Ok` -/
def runOk (env : Env) : State → List Op → Prop
  | _, [] => True
  | s, op :: r => (step env s op).1.isOk = true ∧ runOk env (step env s op).2 r

instance runOk.decidable (env : Env) : ∀ (s : State) (ops : List Op), Decidable (runOk env s ops)
  | _, [] => isTrue trivial
  | s, op :: r =>
    have := runOk.decidable env (step env s op).2 r
    by unfold runOk; infer_instance

theorem isOk_iff {α} (o : Outcome α) : o.isOk = true ↔ ∃ v, o = .ok v := by
  cases o <;> simp [Outcome.isOk]

theorem appendAt_readable {k : FsPath} {d b : Bytes} {s s' : State} {u : Unit} (hroot : RootOk s)
    (hr : Readable s k b) (h : appendAt k d s = (.ok u, s')) : Readable s' k (b ++ d) := by
  obtain ⟨x, hx, _⟩ := hr.2
  obtain ⟨old, h1, h2⟩ := (appendAt_ok h).1 (by simp [hx])
  rw [hr.1] at h1; cases h1
  exact ⟨h2, (appendAt_ok h).2.2 hroot⟩

/-- the invariant of a history on path `p`: root clause, `p` still resolves to `k`, and `k` is a
    readable file holding `b` -/
structure Tracks (env : Env) (p : Str) (k : FsPath) (s : State) (b : Bytes) : Prop where
  root : RootOk s
  abs : absM env p s = (.ok k, s)
  readable : Readable s k b

theorem tracks_write {env : Env} {p : Str} {k : FsPath} {s : State} {b : Bytes} (d : Bytes)
    (h : Tracks env p k s b) (hok : ∃ v, (step env s (.writeAll p d)).1 = .ok v) :
    Tracks env p k (step env s (.writeAll p d)).2 d := by
  obtain ⟨v, hv⟩ := hok
  have hs : step env s (.writeAll p d) = (.ok v, (step env s (.writeAll p d)).2) := Prod.ext hv rfl
  obtain ⟨u, hu⟩ := step_writeAll_ok h.abs hs
  exact ⟨step_rootOk env s _ rfl h.root, absM_transport h.abs (writeAt_cwd hu), writeAt_ok h.root hu⟩

theorem tracks_append {env : Env} {p : Str} {k : FsPath} {s : State} {b : Bytes} (d : Bytes)
    (h : Tracks env p k s b) (hok : ∃ v, (step env s (.appendAll p d)).1 = .ok v) :
    Tracks env p k (step env s (.appendAll p d)).2 (b ++ d) := by
  obtain ⟨v, hv⟩ := hok
  have hs : step env s (.appendAll p d) = (.ok v, (step env s (.appendAll p d)).2) := Prod.ext hv rfl
  obtain ⟨u, hu⟩ := step_appendAll_ok h.abs hs
  exact ⟨step_rootOk env s _ rfl h.root, absM_transport h.abs (appendAt_cwd hu),
    appendAt_readable h.root h.readable hu⟩

theorem step_writeLines_eq (env : Env) (s : State) (p : Str) (ls : List Str) :
    step env s (.writeLines p ls) = match joinLines ls with
      | some b => step env s (.writeAll p b)
      | none => (.ok .unit, s) := by
  show mapVal _ (writeLinesM env p ls) s = _
  unfold writeLinesM
  cases joinLines ls <;> rfl

theorem step_appendLines_eq (env : Env) (s : State) (p : Str) (ls : List Str) :
    step env s (.appendLines p ls) = match joinLines ls with
      | some b => step env s (.appendAll p b)
      | none => (.ok .unit, s) := by
  show mapVal _ (appendLinesM env p ls) s = _
  unfold appendLinesM
  cases joinLines ls <;> rfl

theorem step_appendLine_eq (env : Env) (s : State) (p : Str) (l : Str) :
    step env s (.appendLine p l) =
      if l = [] then (.ok .unit, s) else step env s (.appendAll p (utf8 l ++ [nl])) := by
  show mapVal _ (appendLineM env p l) s = _
  unfold appendLineM
  split <;> rfl

theorem tracks_step {env : Env} {p : Str} {k : FsPath} {s : State} {b : Bytes} (c : COp)
    (h : Tracks env p k s b) (hok : ∃ v, (step env s (c.toOp p)).1 = .ok v) :
    Tracks env p k (step env s (c.toOp p)).2 (c.apply b) := by
  cases c with
  | writeAll d => exact tracks_write d h hok
  | appendAll d => exact tracks_append d h hok
  | writeLines ls =>
    simp only [COp.toOp, COp.apply, step_writeLines_eq] at hok ⊢
    revert hok
    cases joinLines ls with
    | none => intro _; exact h
    | some b' => intro hok; exact tracks_write b' h hok
  | appendLines ls =>
    simp only [COp.toOp, COp.apply, step_appendLines_eq] at hok ⊢
    revert hok
    cases joinLines ls with
    | none => intro _; exact h
    | some b' => intro hok; exact tracks_append b' h hok
  | appendLine l =>
    simp only [COp.toOp, COp.apply, step_appendLine_eq] at hok ⊢
    by_cases hl : l = []
    · simp only [hl, if_true]; exact h
    · simp only [hl, if_false] at hok ⊢; exact tracks_append _ h hok

/-- any history of content operations on `p`, all returning `Ok`: the file tracks the byte-vector
    model (`List.foldl COp.apply`) -/
theorem tracks_run {env : Env} {p : Str} {k : FsPath} (cs : List COp) :
    ∀ {s : State} {b : Bytes}, Tracks env p k s b → runOk env s (cs.map (COp.toOp p)) →
      Tracks env p k (run env s (cs.map (COp.toOp p))) (cs.foldl COp.apply b) := by
  induction cs with
  | nil => intro s b h _; exact h
  | cons c r ih =>
    intro s b h hok
    simp only [List.map_cons, runOk] at hok
    simp only [List.map_cons, run, List.foldl_cons]
    exact ih (tracks_step c h ((isOk_iff _).1 hok.1)) hok.2

end Rivia.Lemmas
