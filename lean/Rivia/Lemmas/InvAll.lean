/-
  Rivia.Lemmas.InvAll — C03, assembly of the three groups.

  * group A (`InvA`): read-only calls, mkfile / mkdir, content, handles, set_cwd, chmod, chown
  * group B (`InvB`): remove, remove_all, symlink, move_p
  * group C (`InvC`): copy, copy_b

  The strengthened invariant `Strong s = Inv s ∧ KeysWf s ∧ SortedKids s ∧ FlagsOk s` (group B's
  definitions) is inductive for EVERY constructor of `Op`:
  * `covered_all`        : `CoveredA op ∨ CoveredB op ∨ CoveredC op` for every `op`
  * `flagsOk_step_A/C`   : the part that the group files did not prove (`FlagsOk` for A and C)
  * `strong_step`        : one step, any op, outcome ≠ hang (the hypothesis is used for `moveP` only)
  * `strong_run`, `inv_reachable` : histories
  * `NoHangRun`          : the recursive form of "no call of the history hangs"
-/
import Rivia.Lemmas.InvA
import Rivia.Lemmas.InvB
import Rivia.Lemmas.InvC
import Rivia.Lemmas.InvCPlus

namespace Rivia.Lemmas.InvAll
open Rivia Rivia.Memfs Rivia.File Rivia.Spec Rivia.Lemmas

/-! ## 1. the namespaced copies of the auxiliary invariants agree -/

theorem keysWf_A_iff (s : State) : InvA.KeysWf s ↔ InvB.KeysWf s := Iff.rfl
theorem keysWf_C_iff (s : State) : InvC.KeysWf s ↔ InvB.KeysWf s := Iff.rfl
theorem sortedKids_A_iff (s : State) : InvA.SortedKids s ↔ InvB.SortedKids s := Iff.rfl
theorem sortedKids_C_iff (s : State) : InvC.SortedKids s ↔ InvB.SortedKids s := Iff.rfl
theorem invP_A_iff_B (s : State) : InvA.InvP s ↔ InvB.InvP s := (InvA.inv_iff s).symm.trans (InvB.inv_iff s)
theorem invP_C_iff_B (s : State) : InvC.InvP s ↔ InvB.InvP s := (InvC.inv_iff s).symm.trans (InvB.inv_iff s)
theorem invPlus_C_iff (s : State) : InvC.InvPlus s ↔ Spec.Inv s ∧ InvB.KeysWf s ∧ InvB.SortedKids s := Iff.rfl

/-! ## 2. the kind flags -/

/-- an entry is not flagged both file and directory -/
def FOk (e : Entry) : Prop := ¬ (e.file = true ∧ e.dir = true)

theorem flagsOk_iff (s : State) : InvB.FlagsOk s ↔ ∀ kv ∈ s.entries, FOk kv.2 := Iff.rfl

theorem fOk_mkDirEntry (p : FsPath) (m : Option Nat) : FOk (mkDirEntry p m) := by
  intro h; exact absurd h.1 (by simp [mkDirEntry])

theorem fOk_mkFileEntry (p : FsPath) : FOk (mkFileEntry p) := by
  intro h; exact absurd h.2 (by simp [mkFileEntry])

theorem fOk_setMode {e : Entry} (h : FOk e) (m : Nat) : FOk (e.setMode m) := h
theorem fOk_setOwner {e : Entry} (h : FOk e) (u g : Option Nat) : FOk (e.setOwner u g) := h
theorem fOk_rekey {e : Entry} (h : FOk e) (p : FsPath) (m : Nat) :
    FOk (({ e with path := p }).setMode m) := h

/-- `MemfsEntry::add(name)` only touches the child list -/
theorem fOk_addChild {d d' : Entry} {n : Str} {b : Bool} (hd : FOk d) (h : d.addChild n = .ok (b, d')) :
    FOk d' := by
  unfold Entry.addChild at h
  split at h
  · cases h
  · split at h
    · simp only [Outcome.ok.injEq, Prod.mk.injEq] at h
      obtain ⟨_, rfl⟩ := h
      exact hd
    · simp only [Outcome.ok.injEq, Prod.mk.injEq] at h
      obtain ⟨_, rfl⟩ := h
      exact hd

/-- the entry literal that `_symlink` builds: `file := !tIsDir`, `dir := tIsDir` -/
theorem fOk_linkEntry (l t : FsPath) (rel : Str) (b : Bool) :
    FOk { path := l, alt := some t, rel := rel, dir := b, file := !b, link := true,
          mode := optsMode true (!b) b none, uid := 1000, gid := 1000,
          follow := false, cached := false, files := if b then some [] else none } := by
  intro h
  cases b <;> simp at h

/-! ## 3. group A keeps `FlagsOk` (instance of the generic `StepAInv` framework) -/

section GroupA
open InvA

theorem FlagsOk.replace {s : State} (h : InvB.FlagsOk s) {k : FsPath} {e e' : Entry}
    (hk : alLookup k s.entries = some e) (hf : FOk e → FOk e') :
    InvB.FlagsOk { s with entries := alInsert k e' s.entries } := by
  intro kv hkv
  rcases InvA.mem_alInsert hkv with rfl | hkv
  · exact hf (h (k, e) (InvA.mem_of_alLookup hk))
  · exact h kv hkv

theorem FlagsOk.add (e : Entry) (he : FOk e) : InvA.Pres InvB.FlagsOk (Memfs.add e) := by
  constructor
  intro s h
  exact (InvA.add_allE (P := fun _ x => FOk x) e h he
    (fun d b d' hm hadd => fOk_addChild (h _ hm) hadd)).1

theorem flagsOk_stepAInv : InvA.StepAInv InvB.FlagsOk (fun _ => True) where
  addFile := fun p _ => FlagsOk.add _ (fOk_mkFileEntry p)
  mkdir := by
    intro p m _
    unfold Memfs.mkdirM
    apply InvA.Pres.forM
    intro q
    apply InvA.Pres.bind (FlagsOk.add _ (fOk_mkDirEntry q m))
    intro _; exact InvA.Pres.pure _
  sync := fun p b => ⟨fun s h => by
    unfold InvB.FlagsOk; rw [(InvA.syncM_entries p b s).1]; exact h⟩
  cwd := fun _ _ _ h => h
  handles := fun _ _ h => h
  setMode := fun _ _ _ m h hk => FlagsOk.replace h hk (fun he => fOk_setMode he m)
  setOwner := fun _ _ _ u g h hk => FlagsOk.replace h hk (fun he => fOk_setOwner he u g)

/-- group A keeps `FlagsOk` at every exit (no other hypothesis on the state) -/
theorem flagsOk_step_A (env : Env) (s : State) (op : Op) (hc : CoveredA op) (h : InvB.FlagsOk s) :
    InvB.FlagsOk (step env s op).2 :=
  flagsOk_stepAInv.step env s op hc (fun _ _ _ _ => trivial) h

end GroupA

/-! ## 4. group C keeps `FlagsOk`

  `InvC.PresG.copyM` asks the per-entry predicate to hold of EVERY childless entry under a good key
  (`hfresh`), which `FOk` does not; the variant below asks it only of the two literals `_copy`
  really builds (`mkDirEntry`, the symlink literal). The proof is the one of `PresG.copyM`. -/

section GroupC
open InvC
variable {R : FsPath → Entry → Prop} {C : FsPath → Prop}

theorem PresG.symlinkAbs' (hchild : ∀ k d n b d', R k d → Entry.addChild d n = .ok (b, d') → R k d')
    (l t : FsPath)
    (hl : ∀ (rel : Str) (b : Bool), R l
      { path := l, alt := some t, rel := rel, dir := b, file := !b, link := true,
        mode := optsMode true (!b) b none, uid := 1000, gid := 1000,
        follow := false, cached := false, files := if b then some [] else none }) :
    PresG (PG R C) (Memfs.symlinkAbs l t) := by
  unfold Memfs.symlinkAbs
  refine PresG.bind (PresG.getEntry _) fun x => ?_
  refine PresG.ite (PresG.fail _) ?_
  refine PresG.bind (PresG.dirOf _) fun ld => ?_
  refine PresG.bind (PresG.getEntry _) fun tx => ?_
  exact PresG.bind (PresG.add hchild _ (hl _ _)) fun _ => PresG.pure _

set_option linter.unusedSimpArgs false in
/-- `_copy` keeps `PG R C` at every exit, provided `R` is kept by `MemfsEntry::add`, holds of the
    fresh directory entries and of the symlink literal under good keys (`K`), is inherited by a
    re-keyed copy of a stored entry, and the destination keys are good -/
theorem PresG.copyM' (K : FsPath → Prop)
    (hchild : ∀ k d n b d', R k d → Entry.addChild d n = .ok (b, d') → R k d')
    (hdir : ∀ k mode, K k → R k (mkDirEntry k mode))
    (hlink : ∀ l t (rel : Str) (b : Bool), K l → R l
      { path := l, alt := some t, rel := rel, dir := b, file := !b, link := true,
        mode := optsMode true (!b) b none, uid := 1000, gid := 1000,
        follow := false, cached := false, files := if b then some [] else none })
    (hcopy : ∀ k (srcE : Entry) p m, R k srcE → K p → R p (({ srcE with path := p }).setMode m))
    (hKtake : ∀ k n, K k → K (List.take n k))
    (hKdst : ∀ a b c, K (dstOf a b c))
    (env : Env) (src dst : Str) (c : CopyOpts) : PresG (PG R C) (Memfs.copyM env src dst c) := by
  have hKpre : ∀ k, K k → ∀ q ∈ prefixes k, K q := by
    intro k hk q hq
    unfold Memfs.prefixes at hq
    obtain ⟨n, _, rfl⟩ := List.mem_map.1 hq
    exact hKtake k n hk
  have hKdrop : ∀ k, K k → K k.dropLast := by
    intro k hk; rw [List.dropLast_eq_take]; exact hKtake k _ hk
  have hmkdir : ∀ p mode, K p → PresG (PG R C) (Memfs.mkdirM p mode) := fun p mode hp =>
    PresG.mkdirM hchild p mode (fun q hq => hdir q _ (hKpre p hp q hq))
  unfold Memfs.copyM
  simp only [bind, pure]
  refine PresG.bind (PresG.absM _ _) fun srcRoot => ?_
  refine PresG.bind (PresG.absM _ _) fun dstRoot => ?_
  refine PresG.ite (PresG.pure _) ?_
  refine PresG.bind PresG.get fun s => ?_
  cases alLookup srcRoot s.entries with
  | none => exact PresG.fail_bind _ _
  | some rootE0 =>
    refine PresG.pure_bind _ _ ?_
    refine PresG.bind (PresG.liftO _) fun x => ?_
    intro st hst
    refine runIter_pres _ _ _ (PG R C) (noPre_pres _) _ _ ?_ _ _ _ hst
    intro e
    show PresG (PG R C) _
    refine PresG.ite (PresG.bind (PresG.dirOf _) fun pre => ?_) (PresG.pure_bind _ _ ?_)
    all_goals
      refine PresG.ite (PresG.bind (PresG.symlinkAbs' hchild _ _
        (fun rel b => hlink _ _ rel b (hKdst _ _ _))) fun _ => PresG.pure _) ?_
      refine PresG.getEntry_bind _ _ fun y hy => ?_
      cases y with
      | none => exact PresG.fail_bind _ _
      | some srcE =>
        have hc := hy srcE rfl
        refine PresG.pure_bind _ _ ?_
        refine PresG.ite (hmkdir _ _ (hKdst _ _ _)) ?_
        refine PresG.dirOf_bind _ _ ?_
        refine PresG.bind (PresG.getEntry _) fun z => ?_
        have hfile : ∀ p m, K p → PresG (PG R C)
            (M.bind (Memfs.add (({ srcE with path := p }).setMode m)) fun _ =>
              if (!srcE.link) = true then _ else M.pure ()) := fun p m hp =>
          PresG.bind (PresG.add hchild (({ srcE with path := p }).setMode m) (hcopy _ srcE p m hc hp))
            fun _ => PresG.ite (copyTail_presG p srcE.path srcE.file) (PresG.pure _)
        have hmk : ∀ p mode, K p → PresG (PG R C) (Memfs.mkdirM (List.dropLast p) mode) :=
          fun p mode hp => hmkdir _ mode (hKdrop _ hp)
        refine PresG.ite ?_ (hfile _ _ (hKdst _ _ _))
        split
        · exact PresG.pure_bind _ _ (PresG.bind (hmk _ _ (hKdst _ _ _)) fun _ => hfile _ _ (hKdst _ _ _))
        · refine PresG.bind (PresG.dirOf _) fun sd => ?_
          refine PresG.bind (PresG.getEntry _) fun z2 => ?_
          cases z2 with
          | none => exact PresG.fail_bind _ _
          | some pe => exact PresG.pure_bind _ _ (PresG.bind (hmk _ _ (hKdst _ _ _)) fun _ => hfile _ _ (hKdst _ _ _))

theorem flagsOk_iff_PG (s : State) : InvB.FlagsOk s ↔ PG (fun _ e => FOk e) (fun _ => True) s :=
  ⟨fun h => ⟨h, trivial⟩, fun h => h.1⟩

theorem flagsOk_copyM (env : Env) (src dst : Str) (c : CopyOpts) :
    PresG InvB.FlagsOk (copyM env src dst c) := by
  intro s h
  rw [flagsOk_iff_PG] at h ⊢
  refine PresG.copyM' (R := fun _ e => FOk e) (C := fun _ => True) (fun _ => True)
    ?_ ?_ ?_ ?_ (fun _ _ _ => trivial) (fun _ _ _ => trivial) env src dst c s h
  · intro k d n b d' hd hac; exact fOk_addChild hd hac
  · intro k mode _; exact fOk_mkDirEntry k mode
  · intro l t rel b _; exact fOk_linkEntry l t rel b
  · intro k srcE p m hs _; exact fOk_rekey hs p m

/-- `copy` / `copy_b` keep `FlagsOk` at every exit (no other hypothesis on the state) -/
theorem flagsOk_step_C (env : Env) (s : State) (op : Op) (hc : CoveredC op) (h : InvB.FlagsOk s) :
    InvB.FlagsOk (step env s op).2 := by
  cases op <;> try exact absurd hc id
  · unfold step; rw [InvC.mapVal_snd]; exact flagsOk_copyM _ _ _ _ s h
  · unfold step; rw [InvC.mapVal_snd]; exact flagsOk_copyM _ _ _ _ s h

end GroupC

/-! ## 5. coverage: the three groups exhaust `Op` -/

theorem covered_all (op : Op) : InvA.CoveredA op ∨ InvB.CoveredB op ∨ InvC.CoveredC op := by
  cases op <;>
    first
    | exact Or.inl rfl
    | exact Or.inr (Or.inl trivial)
    | exact Or.inr (Or.inr trivial)

/-- the groups are pairwise disjoint (so the case split of `strong_step` is a partition) -/
theorem covered_disjoint (op : Op) :
    ¬ (InvA.CoveredA op ∧ InvB.CoveredB op) ∧ ¬ (InvA.CoveredA op ∧ InvC.CoveredC op) ∧
    ¬ (InvB.CoveredB op ∧ InvC.CoveredC op) := by
  cases op <;> simp [InvA.CoveredA, InvA.coveredA, InvA.readOnlyOp, InvB.CoveredB, InvC.CoveredC]

/-! ## 6. the strengthened invariant is inductive for every operation -/

theorem strong_step_A (env : Env) (s : State) (op : Op) (hc : InvA.CoveredA op) (h : InvB.Strong s) :
    InvB.Strong (step env s op).2 :=
  ⟨InvA.inv_step_A' env s op hc h.1,
   InvA.keysWf_step_A env s op hc (InvB.absWf_of_keysWf env s h.2.1) h.2.1,
   InvA.sortedKids_step_A env s op hc h.2.2.1,
   flagsOk_step_A env s op hc h.2.2.2⟩

theorem strong_step_C (env : Env) (s : State) (op : Op) (hc : InvC.CoveredC op) (h : InvB.Strong s) :
    InvB.Strong (step env s op).2 :=
  ⟨InvC.inv_step_C' env s op hc h.1,
   InvC.keysWf_step_C env s op hc h.2.1,
   InvC.sortedKids_step_C env s op hc h.2.2.1,
   flagsOk_step_C env s op hc h.2.2.2⟩

/-- one call, ANY operation: the strengthened invariant is kept (the no-hang hypothesis is used for
    `moveP` only) -/
theorem strong_step (env : Env) (s : State) (op : Op) (h : InvB.Strong s)
    (hh : (step env s op).1 ≠ .hang) : InvB.Strong (step env s op).2 := by
  rcases covered_all op with hc | hc | hc
  · exact strong_step_A env s op hc h
  · exact InvB.strong_step_B env s op hc h hh
  · exact strong_step_C env s op hc h

/-- every operation except `moveP` keeps the strengthened invariant at every exit, `hang` included -/
theorem strong_step_any_outcome (env : Env) (s : State) (op : Op) (hm : ∀ a b, op ≠ .moveP a b)
    (h : InvB.Strong s) : InvB.Strong (step env s op).2 := by
  rcases covered_all op with hc | hc | hc
  · exact strong_step_A env s op hc h
  · rw [← InvB.good_true_iff] at h ⊢
    cases op <;> simp only [InvB.CoveredB] at hc
    · exact InvB.good_step_B3 env s _ trivial h
    · exact InvB.good_step_B3 env s _ trivial h
    · exact InvB.good_step_B3 env s _ trivial h
    · exact absurd rfl (hm _ _)
  · exact strong_step_C env s op hc h

theorem strong_init : InvB.Strong Memfs.init := by decide

/-! ## 7. histories -/

/-- no call of the history hangs (recursive form) -/
def NoHangRun (env : Env) : State → List Op → Prop
  | _, [] => True
  | s, op :: ops => (step env s op).1 ≠ .hang ∧ NoHangRun env (step env s op).2 ops

theorem run_append (env : Env) (s : State) (a b : List Op) : run env s (a ++ b) = run env (run env s a) b := by
  induction a generalizing s with
  | nil => rfl
  | cons op a ih => exact ih _

/-- the "every split" form of the no-hang hypothesis is the recursive one -/
theorem noHangRun_iff (env : Env) (s : State) (ops : List Op) :
    NoHangRun env s ops ↔
      ∀ pre op post, ops = pre ++ op :: post → (step env (run env s pre) op).1 ≠ .hang := by
  induction ops generalizing s with
  | nil =>
    refine ⟨fun _ pre op post h => ?_, fun _ => trivial⟩
    cases pre <;> cases h
  | cons o ops ih =>
    constructor
    · rintro ⟨h1, h2⟩ pre op post he
      cases pre with
      | nil =>
        simp only [List.nil_append, List.cons.injEq] at he
        obtain ⟨rfl, _⟩ := he
        exact h1
      | cons p pre =>
        simp only [List.cons_append, List.cons.injEq] at he
        obtain ⟨rfl, he⟩ := he
        exact (ih _).1 h2 pre op post he
    · intro h
      refine ⟨h [] o ops rfl, (ih _).2 fun pre op post he => ?_⟩
      exact h (o :: pre) op post (by rw [he]; rfl)

theorem strong_run (env : Env) (s : State) (ops : List Op) (h : InvB.Strong s)
    (hh : NoHangRun env s ops) : InvB.Strong (run env s ops) := by
  induction ops generalizing s with
  | nil => exact h
  | cons op ops ih => exact ih _ (strong_step env s op h hh.1) hh.2

/-- every state reachable from the fresh filesystem by calls that return is a well-formed tree -/
theorem strong_reachable (env : Env) (ops : List Op)
    (hh : ∀ pre op post, ops = pre ++ op :: post → (step env (run env Memfs.init pre) op).1 ≠ .hang) :
    InvB.Strong (run env Memfs.init ops) :=
  strong_run env _ ops strong_init ((noHangRun_iff env _ ops).2 hh)

/-! ## 8. calls that can never hang (used for the non-vacuity examples) -/

theorem boolQuery_ne_hang (env : Env) (p : Str) (f : Entry → Bool) (s : State) :
    (boolQuery env p f s).1 ≠ .hang ∧ (boolQuery env p f s).2 = s := by
  unfold boolQuery
  split <;> exact ⟨(fun h => by cases h), rfl⟩

/-- the queries `exists`, `is_file`, `is_dir`, `is_symlink`, `cwd`, `root` return in every state
    and leave it unchanged -/
def simpleQuery : Op → Bool
  | .exists _ | .isFile _ | .isDir _ | .isSymlink _ | .isSymlinkDir _ | .isSymlinkFile _
  | .isExec _ | .isReadonly _ | .cwd | .root => true
  | _ => false

theorem simpleQuery_step (env : Env) (s : State) (op : Op) (hq : simpleQuery op = true) :
    (step env s op).1 ≠ .hang ∧ (step env s op).2 = s := by
  cases op <;> simp only [simpleQuery, Bool.false_eq_true] at hq
  case cwd => exact ⟨(fun h => by cases h), rfl⟩
  case root => exact ⟨(fun h => by cases h), rfl⟩
  all_goals exact boolQuery_ne_hang env _ _ s

theorem noHangRun_simpleQueries (env : Env) (s : State) (ops : List Op)
    (hq : ∀ op ∈ ops, simpleQuery op = true) : NoHangRun env s ops := by
  induction ops with
  | nil => trivial
  | cons op ops ih =>
    have h := simpleQuery_step env s op (hq op List.mem_cons_self)
    refine ⟨h.1, ?_⟩
    rw [h.2]
    exact ih fun o ho => hq o (List.mem_cons_of_mem _ ho)

end Rivia.Lemmas.InvAll
