/-
  Rivia.Lemmas.CopyTree — copying a whole directory tree (no links) onto a free destination:
  `mkdir_m` on fresh paths, the per-entry state update, and the invariant of the copy loop.
-/
import Rivia.Lemmas.CopyFrame

set_option linter.unusedSimpArgs false

namespace Rivia.Lemmas
open Rivia Rivia.Str Rivia.Memfs Rivia.Spec Rivia.Spec.TreeFs Rivia.Memfs.M

/-! ### `mkdir_m` on a path whose proper prefixes all exist -/

/-- `_add` of a directory entry over an existing real directory changes nothing -/
theorem add_existing_dir {σ : State} {q : FsPath} (mode : Option Nat)
    (hq : q = [] ∨ ∃ d x, alLookup q.dropLast σ.entries = some d ∧ d.dir = true ∧ d.link = false ∧
      alLookup q σ.entries = some x ∧ x.dir = true) :
    add (mkDirEntry q mode) σ = (.ok q, σ) := by
  unfold add
  have hpath : (mkDirEntry q mode).path = q := rfl
  simp only [hpath]
  by_cases h0 : q = []
  · simp [h0]
  · rcases hq with h | ⟨d, x, hd, hdd, hdl, hx, hxd⟩
    · exact absurd h h0
    · simp only [h0, if_false, getEntry_bind_apply, hd, hdd, hdl, Bool.not_true, Bool.or_self,
        Bool.false_eq_true, hx]
      have h1 : (mkDirEntry q mode).file = false := rfl
      have h2 : (mkDirEntry q mode).link = false := rfl
      simp [h1, h2, hxd]

theorem forM_append_M {γ : Type} (l1 l2 : List γ) (f : γ → M PUnit) :
    (l1 ++ l2).forM f = (l1.forM f >>= fun _ => l2.forM f) := by
  induction l1 with
  | nil => rfl
  | cons a r ih =>
    show (f a >>= fun _ => (r ++ l2).forM f) = ((f a >>= fun _ => r.forM f) >>= fun _ => l2.forM f)
    rw [ih]
    funext s
    simp only [bind_apply]
    cases f a s with
    | mk o s' => cases o <;> rfl

/-- a `forM` whose every step is a successful no-op -/
theorem forM_noop {γ : Type} (l : List γ) (f : γ → M PUnit) (σ : State)
    (h : ∀ a ∈ l, f a σ = (.ok ⟨⟩, σ)) : l.forM f σ = (.ok ⟨⟩, σ) := by
  induction l with
  | nil => rfl
  | cons a r ih =>
    show (f a >>= fun _ => r.forM f) σ = _
    rw [bind_ok (h a (by simp))]
    exact ih (fun b hb => h b (List.mem_cons_of_mem _ hb))

theorem prefixes_snoc (p : FsPath) (hp : p ≠ []) : prefixes p = prefixes p.dropLast ++ [p] := by
  have h1 : prefixes p = (prefixes p).dropLast ++ [p] := by
    unfold prefixes
    rw [List.range_succ, List.map_append]
    simp
  rw [h1, prefixes_dropLast]
  congr 1
  unfold prefixes
  rw [List.length_dropLast]
  have hlen : p.length - 1 + 1 = p.length := by
    have : p.length ≠ 0 := fun h => hp (List.eq_nil_of_length_eq_zero h)
    omega
  rw [hlen]
  apply List.map_congr_left
  intro n hn
  rw [List.mem_range] at hn
  rw [List.dropLast_eq_take, List.take_take]
  congr 1
  omega

/-- `mkdir_m p` when every proper prefix of `p` is an existing real directory and `p` is absent:
    exactly one directory is created -/
theorem mkdirM_new {σ : State} {p : FsPath} {mode : Option Nat} {pe : Entry} {fs : List Str}
    (hp : p ≠ [])
    (hanc : ∀ q, q <+: p.dropLast → ∃ x, alLookup q σ.entries = some x ∧ x.dir = true ∧ x.link = false)
    (hpar : alLookup p.dropLast σ.entries = some pe) (hfs : pe.files = some fs)
    (hfree : alLookup p σ.entries = none) (hname : baseName p ∉ fs) :
    mkdirM p mode σ = (.ok (),
      { σ with entries := alInsert p.dropLast { pe with files := some (insertName (baseName p) fs).2 }
                  (alInsert p (mkDirEntry p mode) σ.entries) }) := by
  obtain ⟨x, hx, hxd, hxl⟩ := hanc p.dropLast (List.prefix_refl _)
  rw [hpar] at hx; cases hx
  unfold mkdirM
  rw [prefixes_snoc p hp, forM_append_M]
  have key : ∀ q ∈ prefixes p.dropLast,
      ((add (mkDirEntry q mode) >>= fun _ => Pure.pure PUnit.unit : M PUnit)) σ = (Outcome.ok PUnit.unit, σ) := by
    intro q hq
    have hqp := mem_prefixes hq
    have : add (mkDirEntry q mode) σ = (.ok q, σ) := by
      apply add_existing_dir
      by_cases h0 : q = []
      · exact Or.inl h0
      · right
        obtain ⟨x, hx, hxd, _⟩ := hanc q hqp
        obtain ⟨d, hd, hdd, hdl⟩ := hanc q.dropLast ((List.dropLast_prefix q).trans hqp)
        exact ⟨d, x, hd, hdd, hdl, hx, hxd⟩
    rw [bind_ok this]
    rfl
  rw [bind_ok (forM_noop _ _ σ key)]
  show ((add (mkDirEntry p mode) >>= fun _ => Pure.pure PUnit.unit) >>= fun _ => (Pure.pure PUnit.unit : M PUnit)) σ = _
  have hadd := add_new (s := σ) (e := mkDirEntry p mode) (d := pe) (fs := fs) hp hpar hxd hxl hfs hfree hname
  have hc : (!(mkDirEntry p mode).link && (mkDirEntry p mode).file) = false := rfl
  rw [hc] at hadd
  have h2 : (add (mkDirEntry p mode) >>= fun _ => (Pure.pure PUnit.unit : M PUnit)) σ = _ := bind_ok hadd
  rw [bind_ok h2]
  rfl

/-! ### one copied entry: the state update -/

/-- attach a new entry at `K` (with optional byte content) and list it in its parent `pe` -/
def attach (σ : State) (K : FsPath) (newE pe : Entry) (fs : List Str) (data : Option File.Bytes) :
    State :=
  { σ with
    entries := alInsert K.dropLast { pe with files := some (insertName (baseName K) fs).2 }
      (alInsert K newE σ.entries)
    files := match data with
      | some b => alInsert K b (alInsert K [] σ.files)
      | none => σ.files }

theorem fileCopied_eq_attach (σ : State) (K : FsPath) (c : CopyOpts) (srcE pe : Entry) (fs : List Str)
    (bytes : File.Bytes) :
    fileCopied σ K c srcE pe fs bytes =
      attach σ K (({ srcE with path := K }).setMode ((copyFileMode c).getD srcE.mode)) pe fs (some bytes) := rfl

theorem attach_entries (σ : State) (K : FsPath) (newE pe : Entry) (fs : List Str)
    (data : Option File.Bytes) (k : FsPath) :
    alLookup k (attach σ K newE pe fs data).entries =
      if K.dropLast = k then some { pe with files := some (insertName (baseName K) fs).2 }
      else if K = k then some newE else alLookup k σ.entries := by
  unfold attach
  simp only [alLookup_alInsert]

theorem attach_files (σ : State) (K : FsPath) (newE pe : Entry) (fs : List Str)
    (data : Option File.Bytes) (k : FsPath) :
    alLookup k (attach σ K newE pe fs data).files =
      if K = k then (match data with | some b => some b | none => alLookup k σ.files)
      else alLookup k σ.files := by
  unfold attach
  cases data with
  | none => simp
  | some b =>
    simp only [alLookup_alInsert]
    by_cases h : K = k <;> simp [h]

/-- away from the new key, the abstraction does not see the update -/
theorem nodeAt_attach_other {σ : State} {K : FsPath} {newE pe : Entry} {fs : List Str}
    {data : Option File.Bytes}
    (hpar : alLookup K.dropLast σ.entries = some pe) {k : FsPath} (hk : K ≠ k) :
    nodeAt (attach σ K newE pe fs data) k = nodeAt σ k := by
  unfold nodeAt
  rw [attach_entries]
  have hf : alLookup k (attach σ K newE pe fs data).files = alLookup k σ.files := by
    rw [attach_files, if_neg hk]
  by_cases h1 : K.dropLast = k
  · subst h1
    rw [if_pos rfl, hpar]
    exact congrArg some (absNode_eq_of rfl rfl rfl rfl rfl rfl (by rw [hf]))
  · rw [if_neg h1, if_neg hk]
    cases alLookup k σ.entries with
    | none => rfl
    | some e => exact congrArg some (absNode_eq_of rfl rfl rfl rfl rfl rfl (by rw [hf]))

/-- `copyStep` on a real directory whose destination slot is free and whose destination ancestors
    all exist: exactly one directory is created -/
theorem copyStep_dir_new {dk rootPath pre K : FsPath} {c : CopyOpts} {ci : Bool} {st : State}
    {e pe : Entry} {fs : List Str}
    (hfollow : c.follow = false)
    (hpre : if ci = true then rootPath ≠ [] ∧ pre = rootPath.dropLast else pre = rootPath)
    (hD : dstOf dk e.path pre = K) (hKne : K ≠ [])
    (he : alLookup e.path st.entries = some e) (hdir : e.dir = true) (hlink : e.link = false)
    (hanc : ∀ q, q <+: K.dropLast → ∃ x, alLookup q st.entries = some x ∧ x.dir = true ∧ x.link = false)
    (hpar : alLookup K.dropLast st.entries = some pe) (hpefs : pe.files = some fs)
    (hfree : alLookup K st.entries = none) (hname : baseName K ∉ fs) :
    copyStep dk c ci rootPath e st = (.ok (),
      attach st K (mkDirEntry K (some ((copyDirMode c).getD e.mode))) pe fs none) := by
  have hmk := mkdirM_new (mode := some ((copyDirMode c).getD e.mode)) hKne hanc hpar hpefs hfree hname
  have hdir' : (e.dir = true) = True := by simp [hdir]
  have hlink' : (e.link = true) = False := by simp [hlink]
  unfold copyStep
  cases ci with
  | true =>
    simp only [if_true] at hpre
    obtain ⟨h1, h2⟩ := hpre
    rw [h2] at hD
    simp only [if_true, dirOf_ne_nil h1, mpure_bind, hD, hfollow, Bool.not_false, true_and, hlink',
      if_false, getEntry_bind_apply, he, hdir']
    exact hmk
  | false =>
    simp only [Bool.false_eq_true, if_false] at hpre
    rw [hpre] at hD
    simp only [Bool.false_eq_true, if_false, mpure_bind, hD, hfollow, Bool.not_false, true_and, hlink',
      getEntry_bind_apply, he, hdir', if_true]
    exact hmk

/-! ### the invariant of the copy loop -/

/-- what the reference makes of a source node copied onto a free slot -/
def copiedNode (dm fm : Option Nat) (n : Node) : Node :=
  match n.kind with
  | .dir => { n with perm := dm.getD n.perm }
  | .file => { n with perm := fm.getD n.perm }
  | .link _ => n

/-- state `σ` after the entries `Ld` of the source subtree have been copied
    (`s` = state when the call started, `sk` source root, `D` destination root) -/
structure CopyInv (s : State) (sk D : FsPath) (dm fm : Option Nat) (σ : State) (Ld : List Entry) : Prop where
  frame : ∀ k, ¬ Cmp D k →
    alLookup k σ.entries = alLookup k s.entries ∧ alLookup k σ.files = alLookup k s.files
  cwd : σ.cwd = s.cwd
  anc : ∀ q, q <+: D.dropLast →
    (∃ x, alLookup q σ.entries = some x ∧ x.dir = true ∧ x.link = false) ∧ nodeAt σ q = nodeAt s q
  dparent : ∃ x fs, alLookup D.dropLast σ.entries = some x ∧ x.files = some fs ∧
    (baseName D ∈ fs → ∃ e ∈ Ld, e.path = sk)
  done : ∀ e ∈ Ld, ∀ r, e.path = sk ++ r →
    ∃ x, alLookup (D ++ r) σ.entries = some x ∧ x.dir = e.dir ∧ x.link = false ∧
      nodeAt σ (D ++ r) = some (copiedNode dm fm (absNode s (sk ++ r) e)) ∧
      (e.dir = true → ∃ fs, x.files = some fs ∧ ∀ n ∈ fs, ∃ e' ∈ Ld, e'.path = sk ++ (r ++ [n]))
  notdone : ∀ r, (∀ e ∈ Ld, e.path ≠ sk ++ r) →
    alLookup (D ++ r) σ.entries = none ∧ alLookup (D ++ r) σ.files = none

theorem ne_of_length_lt {a b : FsPath} (h : a.length < b.length) : a ≠ b := by
  intro e; rw [e] at h; omega

/-- attaching the copy of the next entry preserves the invariant -/
theorem copyInv_attach {s : State} {sk D : FsPath} {dm fm : Option Nat} {σ : State} {Ld : List Entry}
    {e newE pe : Entry} {r : FsPath} {fs : List Str} {data : Option File.Bytes}
    (hDne : D ≠ [])
    (hinv : CopyInv s sk D dm fm σ Ld) (hpath : e.path = sk ++ r)
    (hnew : ∀ e0 ∈ Ld, e0.path ≠ sk ++ r)
    (hclosed : r ≠ [] → ∃ e' ∈ Ld, e'.path = sk ++ r.dropLast)
    (hpar : alLookup (D ++ r).dropLast σ.entries = some pe) (hpefs : pe.files = some fs)
    (hpedir : pe.dir = true) (hpelink : pe.link = false)
    (hdir : newE.dir = e.dir) (hlink : newE.link = false) (hfiles : e.dir = true → newE.files = some [])
    (hnode : nodeAt (attach σ (D ++ r) newE pe fs data) (D ++ r) =
      some (copiedNode dm fm (absNode s (sk ++ r) e))) :
    CopyInv s sk D dm fm (attach σ (D ++ r) newE pe fs data) (Ld ++ [e]) := by
  have hKne : D ++ r ≠ [] := by simp [hDne]
  have hKdl : (D ++ r).dropLast ≠ D ++ r := dropLast_ne_self hKne
  have hcmpK : Cmp D (D ++ r) := cmp_ext D r
  have hcmpP : Cmp D (D ++ r).dropLast := cmp_dropLast hcmpK
  have hlenD : D.dropLast.length < D.length := by
    rw [List.length_dropLast]
    have : D.length ≠ 0 := fun h => hDne (List.eq_nil_of_length_eq_zero h)
    omega
  refine ⟨?_, hinv.cwd, ?_, ?_, ?_, ?_⟩
  · -- frame
    intro k hk
    have h1 : (D ++ r).dropLast ≠ k := fun h => hk (h ▸ hcmpP)
    have h2 : D ++ r ≠ k := fun h => hk (h ▸ hcmpK)
    rw [attach_entries, if_neg h1, if_neg h2, attach_files, if_neg h2]
    exact hinv.frame k hk
  · -- ancestors of the destination root
    intro q hq
    have hqlen : q.length ≤ D.dropLast.length := hq.length_le
    have h2 : D ++ r ≠ q := (ne_of_length_lt (by rw [List.length_append]; omega)).symm
    obtain ⟨⟨x, hx, hxd, hxl⟩, hn⟩ := hinv.anc q hq
    refine ⟨?_, by rw [nodeAt_attach_other hpar h2]; exact hn⟩
    rw [attach_entries]
    by_cases h1 : (D ++ r).dropLast = q
    · rw [if_pos h1]; exact ⟨_, rfl, hpedir, hpelink⟩
    · rw [if_neg h1, if_neg h2]; exact ⟨x, hx, hxd, hxl⟩
  · -- the parent of the destination root
    obtain ⟨x, fs0, hx, hfs0, himp⟩ := hinv.dparent
    have h2 : D ++ r ≠ D.dropLast := (ne_of_length_lt (by rw [List.length_append]; omega)).symm
    rw [attach_entries]
    by_cases h1 : (D ++ r).dropLast = D.dropLast
    · rw [if_pos h1]
      refine ⟨_, _, rfl, rfl, ?_⟩
      intro _
      have hr : r = [] := by
        by_cases hr : r = []
        · exact hr
        · rw [List.dropLast_append_of_ne_nil hr] at h1
          have := congrArg List.length h1
          rw [List.length_append] at this
          omega
      subst hr
      exact ⟨e, by simp, by rw [hpath, List.append_nil]⟩
    · rw [if_neg h1, if_neg h2]
      refine ⟨x, fs0, hx, hfs0, ?_⟩
      intro hb
      obtain ⟨e0, he0, hp0⟩ := himp hb
      exact ⟨e0, List.mem_append_left _ he0, hp0⟩
  · -- copied entries
    intro e0 he0 r0 hp0
    rcases List.mem_append.1 he0 with he0 | he0
    · have hr0 : r0 ≠ r := by
        intro h; subst h; exact hnew e0 he0 hp0
      have h2 : D ++ r ≠ D ++ r0 := fun h => hr0 (List.append_cancel_left h).symm
      obtain ⟨x, hx, hxd, hxl, hxn, hxf⟩ := hinv.done e0 he0 r0 hp0
      rw [attach_entries, nodeAt_attach_other hpar h2]
      by_cases h1 : (D ++ r).dropLast = D ++ r0
      · rw [if_pos h1]
        rw [h1, hx] at hpar
        cases hpar
        refine ⟨_, rfl, hxd, hxl, hxn, ?_⟩
        intro hd0
        refine ⟨_, rfl, ?_⟩
        intro n hn
        rw [mem_insertName] at hn
        have hrne : r ≠ [] := by
          intro hr; subst hr
          rw [List.append_nil] at h1
          have := congrArg List.length h1
          rw [List.length_append] at this
          omega
        rw [List.dropLast_append_of_ne_nil hrne] at h1
        have hr0' : r0 = r.dropLast := (List.append_cancel_left h1).symm
        rcases hn with hn | hn
        · refine ⟨e, by simp, ?_⟩
          rw [hpath, hn, baseName_append hrne, hr0', dropLast_append_baseName hrne]
        · obtain ⟨fs', hfs', hall⟩ := hxf hd0
          rw [hpefs] at hfs'
          cases hfs'
          obtain ⟨e', he', hp'⟩ := hall n hn
          exact ⟨e', List.mem_append_left _ he', hp'⟩
      · rw [if_neg h1, if_neg h2]
        refine ⟨x, hx, hxd, hxl, hxn, ?_⟩
        intro hd0
        obtain ⟨fs', hfs', hall⟩ := hxf hd0
        refine ⟨fs', hfs', ?_⟩
        intro n hn
        obtain ⟨e', he', hp'⟩ := hall n hn
        exact ⟨e', List.mem_append_left _ he', hp'⟩
    · simp only [List.mem_singleton] at he0
      subst he0
      have hr0 : r0 = r := List.append_cancel_left (hp0.symm.trans hpath)
      subst hr0
      rw [attach_entries, if_neg hKdl, if_pos rfl]
      refine ⟨newE, rfl, hdir, hlink, hnode, ?_⟩
      intro hd0
      exact ⟨[], hfiles hd0, by intro n hn; simp at hn⟩
  · -- slots of entries not copied yet
    intro r1 hr1
    have hr1r : r1 ≠ r := by
      intro h; subst h
      exact hr1 e (by simp) hpath
    have hr1old : ∀ e0 ∈ Ld, e0.path ≠ sk ++ r1 := fun e0 he0 => hr1 e0 (List.mem_append_left _ he0)
    have h2 : D ++ r ≠ D ++ r1 := fun h => hr1r (List.append_cancel_left h).symm
    have h1 : (D ++ r).dropLast ≠ D ++ r1 := by
      intro h
      by_cases hr : r = []
      · subst hr
        rw [List.append_nil] at h
        have := congrArg List.length h
        rw [List.length_append] at this
        omega
      · rw [List.dropLast_append_of_ne_nil hr] at h
        have : r1 = r.dropLast := (List.append_cancel_left h).symm
        obtain ⟨e', he', hp'⟩ := hclosed hr
        exact hr1old e' he' (this ▸ hp')
    rw [attach_entries, if_neg h1, if_neg h2, attach_files, if_neg h2]
    exact hinv.notdone r1 hr1old

/-! ### the abstract node of a freshly created directory -/

theorem mkDirEntry_mode {K : FsPath} {m : Nat} (hm : m ≠ 0) :
    (mkDirEntry K (some m)).mode = (m &&& 0o7777) ||| 0o40000 := by
  unfold mkDirEntry
  simp [ModeBits.optsMode_some, hm]

theorem or_sub_dirbit {x : Nat} (h : x < 0o40000) : (x ||| 0o40000) - 0o40000 = x := by
  have h1 : (0o40000 : Nat) = 2 ^ 14 * 1 := by decide
  have h2 := Nat.two_pow_add_eq_or_of_lt (i := 14) (b := x) (by simpa using h) 1
  rw [Nat.or_comm, h1, ← h2]
  omega

theorem typeBits_dir : typeBits Kind.dir = 0o40000 := rfl

theorem getD_dirperm_eq {m : Nat} (o : Option Nat) (hmode : (m &&& 0o7777) ||| 0o40000 = m)
    (hperm : ∀ x, o = some x → x < 0o10000) :
    o.getD m &&& 0o7777 = o.getD (m - 0o40000) :=
  getD_perm_eq' o (fun _ hx => or_sub_dirbit (Nat.lt_trans hx (by decide))) hmode hperm

/-- the abstract node of the directory created for the source directory `e` -/
theorem nodeAt_attach_dir {s σ : State} {sk K r : FsPath} {c : CopyOpts} {e pe : Entry} {fs : List Str}
    (hKne : K ≠ [])
    (hdir : e.dir = true) (hlink : e.link = false)
    (huid : e.uid = 1000) (hgid : e.gid = 1000)
    (hmode : (e.mode &&& 0o7777) ||| 0o40000 = e.mode)
    (hperm : ∀ x, copyDirMode c = some x → 0 < x ∧ x < 0o10000)
    (hsrcdata : alLookup (sk ++ r) s.files = none)
    (hfreeF : alLookup K σ.files = none) :
    nodeAt (attach σ K (mkDirEntry K (some ((copyDirMode c).getD e.mode))) pe fs none) K =
      some (copiedNode (copyDirMode c) (copyFileMode c) (absNode s (sk ++ r) e)) := by
  have hne0 : (copyDirMode c).getD e.mode ≠ 0 := by
    cases hc : copyDirMode c with
    | none =>
      simp only [Option.getD_none]
      intro h0
      rw [h0] at hmode
      exact absurd hmode (by decide)
    | some x =>
      simp only [Option.getD_some]
      have := (hperm x hc).1
      omega
  have hk : kindOf e = Kind.dir := (kindOf_dir_iff e).2 ⟨hdir, hlink⟩
  have hp := getD_dirperm_eq (m := e.mode) (copyDirMode c) hmode (fun x hx => (hperm x hx).2)
  have hKdl : K.dropLast ≠ K := dropLast_ne_self hKne
  unfold nodeAt
  rw [attach_entries, if_neg hKdl, if_pos rfl]
  simp only [Option.map_some]
  refine congrArg some ?_
  have hnk : kindOf (mkDirEntry K (some ((copyDirMode c).getD e.mode))) = Kind.dir :=
    (kindOf_dir_iff _).2 ⟨rfl, rfl⟩
  have hdata : alLookup K (attach σ K (mkDirEntry K (some ((copyDirMode c).getD e.mode))) pe fs none).files
      = none := by rw [attach_files, if_pos rfl]; exact hfreeF
  have hl1 : (mkDirEntry K (some ((copyDirMode c).getD e.mode))).link = false := rfl
  have hu1 : (mkDirEntry K (some ((copyDirMode c).getD e.mode))).uid = 1000 := rfl
  have hg1 : (mkDirEntry K (some ((copyDirMode c).getD e.mode))).gid = 1000 := rfl
  unfold absNode copiedNode
  rw [hnk, hk, hdata, hsrcdata, hl1, hlink, hu1, hg1, huid, hgid, mkDirEntry_mode hne0, typeBits_dir,
    or_sub_dirbit (Nat.lt_trans (ModeBits.and_perm_lt _) (by decide)), hp]
  rfl

/-! ### one step of the copy loop -/

/-- a source entry the tree theorem covers: no link; a directory has no file flag, a canonical mode
    (permission bits plus its type bit — what every `optsMode` result is) and the default owner; a
    non-directory is a regular file with a canonical mode -/
def SubOk (e : Entry) : Prop :=
  e.link = false ∧
  (e.dir = true → e.file = false ∧ (e.mode &&& 0o7777) ||| 0o40000 = e.mode ∧ e.uid = 1000 ∧ e.gid = 1000) ∧
  (e.dir = false → e.file = true ∧ (e.mode &&& 0o7777) ||| 0o100000 = e.mode)

instance (e : Entry) : Decidable (SubOk e) := by unfold SubOk; infer_instance

/-- the setting of the tree-copy theorem -/
structure TreeCtx (s : State) (sk dk : FsPath) (c : CopyOpts) : Prop where
  hi : InvF s
  hk : KeysWf s
  hdk : WfKey dk
  hfollow : c.follow = false
  skne : sk ≠ []
  dne : copyDst s sk dk ≠ []
  dfree : alLookup (copyDst s sk dk) s.entries = none
  dpar : ∃ pe, alLookup (copyDst s sk dk).dropLast s.entries = some pe ∧ pe.dir = true ∧ pe.link = false
  notUnder : ¬ sk <+: copyDst s sk dk
  subok : ∀ r e, alLookup (sk ++ r) s.entries = some e → SubOk e
  hpermD : ∀ x, copyDirMode c = some x → 0 < x ∧ x < 0o10000
  hpermF : ∀ x, c.mode = some x → x < 0o10000

theorem TreeCtx.hinc {s : State} {sk dk : FsPath} {c : CopyOpts} (h : TreeCtx s sk dk c)
    (r : FsPath) {e : Entry} (he : alLookup (sk ++ r) s.entries = some e) :
    ¬ Cmp (copyDst s sk dk) (sk ++ r) := by
  rintro (hc | hc)
  · exact h.notUnder ((List.prefix_append sk r).trans hc)
  · obtain ⟨t, ht⟩ := hc
    by_cases ht0 : t = []
    · subst ht0
      rw [List.append_nil] at ht
      rw [← ht, h.dfree] at he; cases he
    · rw [← ht] at he
      obtain ⟨x, hx, _⟩ := ancestor_is_dir h.hi t _ e he ht0
      rw [h.dfree] at hx; cases hx

theorem TreeCtx.dstOf_eq {s : State} {sk dk : FsPath} {c : CopyOpts} (h : TreeCtx s sk dk c)
    (hwsk : WfKey sk) {r : FsPath} (hr : WfKey r) (pre : FsPath)
    (hpre : if isDirP s dk = true then sk ≠ [] ∧ pre = sk.dropLast else pre = sk) :
    dstOf dk (sk ++ r) pre = copyDst s sk dk ++ r := by
  unfold copyDst
  cases hci : isDirP s dk with
  | false =>
    rw [hci] at hpre
    simp only [Bool.false_eq_true, if_false] at hpre ⊢
    rw [hpre]; exact dstOf_append h.hdk hr
  | true =>
    rw [hci] at hpre
    simp only [if_true] at hpre ⊢
    obtain ⟨hskne, hpre⟩ := hpre
    have h1 : sk ++ r = sk.dropLast ++ ([baseName sk] ++ r) := by
      rw [← List.append_assoc, dropLast_append_baseName hskne]
    have h2 : WfKey ([baseName sk] ++ r) :=
      WfKey.append (by intro n hn; simp at hn; subst hn; exact hwsk _ (baseName_mem hskne)) hr
    rw [hpre, h1, dstOf_append h.hdk h2, List.append_assoc]

theorem prefix_dropLast_of_ne {q D : FsPath} (h : q <+: D) (hne : q ≠ D) : q <+: D.dropLast := by
  obtain ⟨t, ht⟩ := h
  by_cases ht0 : t = []
  · subst ht0; rw [List.append_nil] at ht; exact absurd ht hne
  · rw [← ht, List.dropLast_append_of_ne_nil ht0]
    exact List.prefix_append _ _

theorem copiedNode_file {dm fm : Option Nat} {n : Node} (h : n.kind = Kind.file) :
    copiedNode dm fm n = { n with perm := fm.getD n.perm } := by
  unfold copiedNode; rw [h]

/-- **one step of the copy loop**: the next entry of the source subtree (all its proper ancestors
    already copied) is copied successfully and the invariant is re-established -/
theorem copy_step {s : State} {sk dk : FsPath} {c : CopyOpts} (ctx : TreeCtx s sk dk c)
    {σ : State} {Ld : List Entry} {e : Entry} {r : FsPath}
    (hinv : CopyInv s sk (copyDst s sk dk) (copyDirMode c) (copyFileMode c) σ Ld)
    (he : alLookup (sk ++ r) s.entries = some e)
    (hnew : ∀ e0 ∈ Ld, e0.path ≠ sk ++ r)
    (hclosed : ∀ r', r' <+: r → r' ≠ r →
      ∃ e' ∈ Ld, e'.path = sk ++ r' ∧ alLookup (sk ++ r') s.entries = some e') :
    ∃ σ', copyStep dk c (isDirP s dk) sk e σ = (.ok (), σ') ∧
      CopyInv s sk (copyDst s sk dk) (copyDirMode c) (copyFileMode c) σ' (Ld ++ [e]) := by
  have hi := ctx.hi
  have hp : e.path = sk ++ r := hi.path _ _ he
  have hwr : WfKey r := (ctx.hk.key he).right
  have hwsk : WfKey sk := (ctx.hk.key he).left
  obtain ⟨hlink, hsubD, hsubF⟩ := ctx.subok r e he
  have hfr := hinv.frame _ (ctx.hinc r he)
  have heσ : alLookup e.path σ.entries = some e := by rw [hp, hfr.1]; exact he
  generalize hDdef : copyDst s sk dk = D at *
  have hDne : D ≠ [] := hDdef ▸ ctx.dne
  have hKne : D ++ r ≠ [] := by simp [hDne]
  have hDK : dstOf dk e.path (if isDirP s dk = true then sk.dropLast else sk) = D ++ r := by
    rw [hp, ← hDdef]
    exact ctx.dstOf_eq hwsk hwr _ (by cases isDirP s dk <;> simp [ctx.skne])
  have hpre : if isDirP s dk = true then sk ≠ [] ∧
      (if isDirP s dk = true then sk.dropLast else sk) = sk.dropLast
      else (if isDirP s dk = true then sk.dropLast else sk) = sk := by
    cases isDirP s dk <;> simp [ctx.skne]
  obtain ⟨hfreeE, hfreeF⟩ := hinv.notdone r hnew
  -- an already copied proper ancestor `sk ++ r'` is a real directory at `D ++ r'`
  have hancDone : ∀ r', r' <+: r → r' ≠ r →
      ∃ x fs, alLookup (D ++ r') σ.entries = some x ∧ x.dir = true ∧ x.link = false ∧
        x.files = some fs ∧ ∀ n ∈ fs, ∃ e' ∈ Ld, e'.path = sk ++ (r' ++ [n]) := by
    intro r' hr' hne
    obtain ⟨e', he'L, he'p, he's⟩ := hclosed r' hr' hne
    obtain ⟨t, ht⟩ := hr'
    have ht0 : t ≠ [] := by
      intro h; subst h; rw [List.append_nil] at ht; exact hne ht
    have hed : e'.dir = true := by
      have he2 := he
      rw [← ht, ← List.append_assoc] at he2
      obtain ⟨x, hx, hxd, _⟩ := ancestor_is_dir hi t _ e he2 ht0
      rw [he's] at hx; cases hx; exact hxd
    obtain ⟨x, hx, hxd, hxl, _, hxf⟩ := hinv.done e' he'L r' he'p
    obtain ⟨fs, hfs, hall⟩ := hxf hed
    exact ⟨x, fs, hx, hxd.trans hed, hxl, hfs, hall⟩
  -- the destination parent
  have hparent : ∃ pe fs, alLookup (D ++ r).dropLast σ.entries = some pe ∧ pe.dir = true ∧
      pe.link = false ∧ pe.files = some fs ∧ baseName (D ++ r) ∉ fs := by
    by_cases hr : r = []
    · subst hr
      obtain ⟨x, fs, hx, hfs, himp⟩ := hinv.dparent
      obtain ⟨⟨x', hx', hxd, hxl⟩, _⟩ := hinv.anc D.dropLast (List.prefix_refl _)
      rw [hx] at hx'; cases hx'
      refine ⟨x, fs, by rw [List.append_nil]; exact hx, hxd, hxl, hfs, ?_⟩
      rw [List.append_nil]
      intro hb
      obtain ⟨e0, he0, hp0⟩ := himp hb
      exact hnew e0 he0 (by rw [List.append_nil]; exact hp0)
    · obtain ⟨x, fs, hx, hxd, hxl, hfs, hall⟩ := hancDone r.dropLast (List.dropLast_prefix r)
        (dropLast_ne_self hr)
      refine ⟨x, fs, by rw [List.dropLast_append_of_ne_nil hr]; exact hx, hxd, hxl, hfs, ?_⟩
      rw [baseName_append hr]
      intro hb
      obtain ⟨e0, he0, hp0⟩ := hall _ hb
      rw [dropLast_append_baseName hr] at hp0
      exact hnew e0 he0 hp0
  obtain ⟨pe, fs, hpar, hped, hpel, hpefs, hname⟩ := hparent
  have hclosed1 : r ≠ [] → ∃ e' ∈ Ld, e'.path = sk ++ r.dropLast := by
    intro hr
    obtain ⟨e', h1, h2, _⟩ := hclosed r.dropLast (List.dropLast_prefix r) (dropLast_ne_self hr)
    exact ⟨e', h1, h2⟩
  cases hdir : e.dir with
  | true =>
    obtain ⟨hnofile, hmode, huid, hgid⟩ := hsubD hdir
    have hanc : ∀ q, q <+: (D ++ r).dropLast →
        ∃ x, alLookup q σ.entries = some x ∧ x.dir = true ∧ x.link = false := by
      intro q hq
      by_cases hr : r = []
      · subst hr
        rw [List.append_nil] at hq
        exact (hinv.anc q hq).1
      · rw [List.dropLast_append_of_ne_nil hr] at hq
        rcases List.prefix_or_prefix_of_prefix hq (List.prefix_append D r.dropLast) with h | h
        · by_cases hqD : q = D
          · subst hqD
            obtain ⟨x, _, hx, hxd, hxl, _⟩ := hancDone [] (List.nil_prefix) (Ne.symm hr)
            rw [List.append_nil] at hx
            exact ⟨x, hx, hxd, hxl⟩
          · exact (hinv.anc q (prefix_dropLast_of_ne h hqD)).1
        · obtain ⟨r', rfl⟩ := h
          have hr' : r' <+: r.dropLast := (List.prefix_append_right_inj D).1 hq
          have hne : r' ≠ r := by
            intro h
            have := hr'.length_le
            rw [h, List.length_dropLast] at this
            have : r.length ≠ 0 := fun h0 => hr (List.eq_nil_of_length_eq_zero h0)
            omega
          obtain ⟨x, _, hx, hxd, hxl, _⟩ := hancDone r' (hr'.trans (List.dropLast_prefix r)) hne
          exact ⟨x, hx, hxd, hxl⟩
    have hstep := copyStep_dir_new (dk := dk) (rootPath := sk) (c := c) (ci := isDirP s dk) (st := σ)
      ctx.hfollow hpre hDK hKne heσ hdir hlink hanc hpar hpefs hfreeE hname
    refine ⟨_, hstep, ?_⟩
    have hsrcdata : alLookup (sk ++ r) s.files = none := by
      have := hi.data _ _ he
      rw [hnofile] at this
      cases h : alLookup (sk ++ r) s.files with
      | none => rfl
      | some b => rw [h] at this; simp at this
    refine copyInv_attach hDne hinv hp hnew hclosed1 hpar hpefs hped hpel (by rw [hdir]; rfl) rfl
      (fun _ => rfl) ?_
    exact nodeAt_attach_dir hKne hdir hlink huid hgid hmode ctx.hpermD hsrcdata hfreeF
  | false =>
    obtain ⟨hfile, hmode⟩ := hsubF hdir
    obtain ⟨bytes, hbytes⟩ : ∃ bytes, alLookup (sk ++ r) s.files = some bytes := by
      have := hi.data _ _ he
      rw [hfile, hlink] at this
      cases h : alLookup (sk ++ r) s.files with
      | none => rw [h] at this; simp at this
      | some b => exact ⟨b, rfl⟩
    have hdataσ : alLookup e.path σ.files = some bytes := by rw [hp, hfr.2]; exact hbytes
    have hsd : e.path ≠ D ++ r := by
      rw [hp]; intro h
      rw [← h, hfr.1, he] at hfreeE; cases hfreeE
    have hstep := copyStep_file_new (dk := dk) (rootPath := sk) (c := c) (ci := isDirP s dk) (st := σ)
      ctx.hfollow hpre hDK hKne heσ hfile hlink hdir hdataσ hpar hped hpel hpefs hfreeE hname hsd
    rw [← fileCopied] at hstep
    refine ⟨_, hstep, ?_⟩
    rw [fileCopied_eq_attach]
    refine copyInv_attach hDne hinv hp hnew hclosed1 hpar hpefs hped hpel (by first | rfl | (rw [hdir]; rfl)) hlink
      (fun h => by rw [hdir] at h; cases h) ?_
    rw [← fileCopied_eq_attach, nodeAt_fileCopied hKne hpar hfile hlink hdir, if_pos rfl,
      copiedFileNode_eq (s := s) (sk := sk ++ r) hlink hdir hbytes hmode ctx.hpermF,
      copiedNode_file ((kindOf_file_iff e).2 ⟨hdir, hlink⟩), copyFileMode_eq]

/-! ### the copy loop over a pre-order listing of the source subtree -/

/-- consume a list of entries, stopping at the first failure (what `for e in it { …? }` does) -/
def runList {σ : Type} (step : Entry → σ → Outcome Unit × σ) : List Entry → σ → Outcome Unit × σ
  | [], w => (.ok (), w)
  | e :: es, w =>
    match step e w with
    | (.ok (), w') => runList step es w'
    | r => r

/-- `L` lists the entries of the subtree of `sk` in state `s`: exactly those entries, each once,
    every proper ancestor (below or at `sk`) before its descendants -/
structure PreOrder (s : State) (sk : FsPath) (L : List Entry) : Prop where
  mem_src : ∀ e ∈ L, ∃ r, e.path = sk ++ r ∧ alLookup (sk ++ r) s.entries = some e
  complete : ∀ r e, alLookup (sk ++ r) s.entries = some e → e ∈ L
  nodup : (L.map (·.path)).Nodup
  parentsFirst : ∀ L1 e L2, L = L1 ++ e :: L2 → ∀ r r', e.path = sk ++ r → r' <+: r → r' ≠ r →
    ∃ e' ∈ L1, e'.path = sk ++ r'

theorem copyInv_init {s : State} {sk dk : FsPath} {c : CopyOpts} (ctx : TreeCtx s sk dk c) :
    CopyInv s sk (copyDst s sk dk) (copyDirMode c) (copyFileMode c) s [] := by
  have hi := ctx.hi
  obtain ⟨pe, hpe, hped, hpel⟩ := ctx.dpar
  refine ⟨fun _ _ => ⟨rfl, rfl⟩, rfl, ?_, ?_, ?_, ?_⟩
  · intro q hq
    refine ⟨?_, rfl⟩
    obtain ⟨t, ht⟩ := hq
    by_cases ht0 : t = []
    · subst ht0; rw [List.append_nil] at ht
      exact ⟨pe, by rw [ht]; exact hpe, hped, hpel⟩
    · rw [← ht] at hpe
      exact ancestor_is_dir hi t q pe hpe ht0
  · obtain ⟨fs, hfs⟩ : ∃ fs, pe.files = some fs := by
      have := hi.childset _ pe hpe
      rw [hped] at this
      cases hf : pe.files with
      | none => rw [hf] at this; cases this
      | some x => exact ⟨x, rfl⟩
    refine ⟨pe, fs, hpe, hfs, ?_⟩
    intro hb
    obtain ⟨x, hx⟩ := hi.child _ pe fs _ hpe hfs hb
    rw [dropLast_append_baseName ctx.dne, ctx.dfree] at hx
    cases hx
  · intro e he; simp at he
  · intro r _
    have hE : alLookup (copyDst s sk dk ++ r) s.entries = none := by
      by_cases hr : r = []
      · subst hr; rw [List.append_nil]; exact ctx.dfree
      · exact nothing_below hi (Or.inl ctx.dfree) hr
    exact ⟨hE, no_data_without_entry hi hE⟩

/-- the whole loop: every remaining entry is copied successfully -/
theorem runList_copy {s : State} {sk dk : FsPath} {c : CopyOpts} (ctx : TreeCtx s sk dk c)
    {L : List Entry} (hL : PreOrder s sk L) :
    ∀ (Lr Ld : List Entry) (σ : State), L = Ld ++ Lr →
      CopyInv s sk (copyDst s sk dk) (copyDirMode c) (copyFileMode c) σ Ld →
      ∃ σ', runList (copyStep dk c (isDirP s dk) sk) Lr σ = (.ok (), σ') ∧
        CopyInv s sk (copyDst s sk dk) (copyDirMode c) (copyFileMode c) σ' L := by
  intro Lr
  induction Lr with
  | nil =>
    intro Ld σ hsplit hinv
    rw [List.append_nil] at hsplit
    exact ⟨σ, rfl, hsplit ▸ hinv⟩
  | cons e Lr ih =>
    intro Ld σ hsplit hinv
    have heL : e ∈ L := by rw [hsplit]; simp
    obtain ⟨r, hp, he⟩ := hL.mem_src e heL
    have hnd := hL.nodup
    rw [hsplit, List.map_append, List.map_cons, List.nodup_append] at hnd
    have hnew : ∀ e0 ∈ Ld, e0.path ≠ sk ++ r := by
      intro e0 he0 h
      exact hnd.2.2 e0.path (List.mem_map.2 ⟨e0, he0, rfl⟩) e.path (by simp) (h.trans hp.symm)
    have hclosed : ∀ r', r' <+: r → r' ≠ r →
        ∃ e' ∈ Ld, e'.path = sk ++ r' ∧ alLookup (sk ++ r') s.entries = some e' := by
      intro r' h1 h2
      obtain ⟨e', he', hp'⟩ := hL.parentsFirst Ld e Lr hsplit r r' hp h1 h2
      obtain ⟨r'', hp'', hl''⟩ := hL.mem_src e' (by rw [hsplit]; exact List.mem_append_left _ he')
      have : r'' = r' := List.append_cancel_left (hp''.symm.trans hp')
      subst this
      exact ⟨e', he', hp', hl''⟩
    obtain ⟨σ1, hstep, hinv1⟩ := copy_step ctx hinv he hnew hclosed
    obtain ⟨σ', hrun, hinv'⟩ := ih (Ld ++ [e]) σ1 (by rw [hsplit]; simp) hinv1
    refine ⟨σ', ?_, hinv'⟩
    rw [runList, hstep]
    exact hrun

/-! ### the reference copy of a whole subtree onto a free destination -/

theorem copyOne_none (dm fm : Option Nat) (n : Node) :
    copyOne dm fm n none = .ok (copiedNode dm fm n) := by
  unfold copyOne copiedNode
  cases n.kind <;> rfl

/-- re-keyed and re-written copy of the subtree of `sk` (keys `D ++ rel`) -/
def subCopy (sk D : FsPath) (g : Node → Node) (l : List (FsPath × Node)) : List (FsPath × Node) :=
  (l.filter (fun kv => isPrefixOrEq sk kv.1)).map (fun kv => (D ++ kv.1.drop sk.length, g kv.2))

theorem alLookup_subCopy (sk D : FsPath) (g : Node → Node) (l : List (FsPath × Node)) (r : FsPath) :
    alLookup (D ++ r) (subCopy sk D g l) = (alLookup (sk ++ r) l).map g := by
  unfold subCopy
  induction l with
  | nil => rfl
  | cons x t ih =>
    obtain ⟨k1, v1⟩ := x
    simp only [List.filter_cons]
    cases h : isPrefixOrEq sk k1 with
    | true =>
      obtain ⟨r1, rfl⟩ := (isPrefixOrEq_iff _ _).1 h
      simp only [if_true, List.map_cons, List.drop_left, alLookup]
      by_cases hr : r1 = r
      · subst hr; simp
      · have h1 : ¬ D ++ r1 = D ++ r := fun hh => hr (List.append_cancel_left hh)
        have h2 : ¬ sk ++ r1 = sk ++ r := fun hh => hr (List.append_cancel_left hh)
        simp only [h1, h2, if_false]; exact ih
    | false =>
      have h2 : ¬ k1 = sk ++ r := (isPrefixOrEq_false_iff _ _).1 h r
      simp only [Bool.false_eq_true, if_false, alLookup, h2]
      exact ih

theorem alLookup_subCopy_other (sk D : FsPath) (g : Node → Node) (l : List (FsPath × Node))
    (k : FsPath) (hk : ∀ r, k ≠ D ++ r) : alLookup k (subCopy sk D g l) = none := by
  rw [alLookup_eq_none_iff]
  unfold subCopy
  simp only [List.map_map, List.mem_map, List.mem_filter, Function.comp]
  rintro ⟨kv, _, h⟩
  exact hk _ h.symm

theorem nodup_subCopy (sk D : FsPath) (g : Node → Node) {l : List (FsPath × Node)}
    (h : (l.map (·.1)).Nodup) : ((subCopy sk D g l).map (·.1)).Nodup := by
  unfold subCopy
  induction l with
  | nil => simp
  | cons x t ih =>
    obtain ⟨k1, v1⟩ := x
    simp only [List.map_cons, List.nodup_cons] at h
    simp only [List.filter_cons]
    cases hp : isPrefixOrEq sk k1 with
    | false => simp only [Bool.false_eq_true, if_false]; exact ih h.2
    | true =>
      simp only [if_true, List.map_cons, List.nodup_cons]
      refine ⟨?_, ih h.2⟩
      obtain ⟨r1, rfl⟩ := (isPrefixOrEq_iff _ _).1 hp
      simp only [List.drop_left, List.map_map, List.mem_map, List.mem_filter, Function.comp]
      rintro ⟨kv, ⟨hkv, hkp⟩, heq⟩
      obtain ⟨r2, hr2⟩ := (isPrefixOrEq_iff _ _).1 hkp
      rw [hr2, List.drop_left] at heq
      have : r2 = r1 := List.append_cancel_left heq
      apply h.1
      rw [← this, ← hr2]
      exact List.mem_map.2 ⟨kv, hkv, rfl⟩

theorem get_putOuts_ok (l : List (FsPath × Node)) (hn : (l.map (·.1)).Nodup) :
    ∀ (t : T) (k : FsPath),
      TreeFs.get (putOuts (l.map (fun kv => (kv.1, R.ok kv.2))) t) k =
        (alLookup k l).or (TreeFs.get t k) := by
  induction l with
  | nil => intro t k; rfl
  | cons x r ih =>
    intro t k
    obtain ⟨k1, v1⟩ := x
    simp only [List.map_cons, List.nodup_cons] at hn
    unfold putOuts
    simp only [List.map_cons, List.foldl_cons]
    have := ih hn.2 (put t k1 v1) k
    unfold putOuts at this
    rw [this, get_put]
    simp only [alLookup]
    by_cases h : k1 = k
    · subst h
      have : alLookup k1 r = none := alLookup_eq_none_iff.2 hn.1
      simp [this]
    · simp [h]

theorem putOuts_cwd (outs : List (FsPath × R Node)) : ∀ t : T, (putOuts outs t).cwd = t.cwd := by
  induction outs with
  | nil => intro t; rfl
  | cons o r ih =>
    intro t
    obtain ⟨k, v⟩ := o
    cases v with
    | ok n => exact ih (put t k n)
    | err e => exact ih t
    | unspecified => exact ih t

theorem any_unspec_ok (l : List (FsPath × Node)) :
    (l.map (fun kv => ((kv.1, R.ok kv.2) : FsPath × R Node))).any (fun o => o.2.isUnspecified) = false := by
  induction l with
  | nil => rfl
  | cons x r ih => simp only [List.map_cons, List.any_cons, R.isUnspecified, Bool.false_or]; exact ih

theorem any_err_ok (l : List (FsPath × Node)) :
    (l.map (fun kv => ((kv.1, R.ok kv.2) : FsPath × R Node))).any (fun o => o.2.isErr) = false := by
  induction l with
  | nil => rfl
  | cons x r ih => simp only [List.map_cons, List.any_cons, R.isErr, Bool.false_or]; exact ih

/-- the reference copy in the setting of the tree theorem: it succeeds, every node of the source
    subtree appears (re-written by the perm rule) at the corresponding destination key, and nothing
    else changes -/
theorem copySpec_tree {s : State} {sk dk : FsPath} {c : CopyOpts} (ctx : TreeCtx s sk dk c)
    {rootE : Entry} (hsrc : alLookup sk s.entries = some rootE) (hne : sk ≠ dk) :
    ∃ t2, copySpec (absS s) sk dk c.mode c.cdirs c.cfiles = (.ok (), t2) ∧ t2.cwd = s.cwd ∧
      (∀ r, TreeFs.get t2 (copyDst s sk dk ++ r) =
        (nodeAt s (sk ++ r)).map (copiedNode (dirPerm c.mode c.cdirs c.cfiles) (filePerm c.mode c.cdirs c.cfiles))) ∧
      (∀ k, (∀ r, k ≠ copyDst s sk dk ++ r) → TreeFs.get t2 k = nodeAt s k) := by
  have hi := ctx.hi
  have hget : TreeFs.get (absS s) sk = some (absNode s sk rootE) := by
    rw [get_absS]; unfold nodeAt; rw [hsrc]; rfl
  have hroot : (if isDir (absS s) dk = true then dk ++ [baseName sk] else dk) = copyDst s sk dk := by
    rw [isDir_absS]; rfl
  obtain ⟨pe, hpar, hped, hpel⟩ := ctx.dpar
  have hDne := ctx.dne
  have hfree := ctx.dfree
  have hnotUnder := ctx.notUnder
  generalize hDdef : copyDst s sk dk = D at *
  have hbelow : ∀ r, alLookup (D ++ r) s.entries = none := by
    intro r
    by_cases hr : r = []
    · subst hr; rw [List.append_nil]; exact hfree
    · exact nothing_below hi (Or.inl hfree) hr
  have hinc1 : isPrefixOrEq sk D = false := by
    rw [isPrefixOrEq_false_iff]
    intro t ht
    exact hnotUnder ⟨t, ht.symm⟩
  have hinc2 : isPrefixOrEq D sk = false := by
    rw [isPrefixOrEq_false_iff]
    intro t ht
    rw [ht, hbelow t] at hsrc; cases hsrc
  have hgetD : ∀ r, TreeFs.get (absS s) (D ++ r) = none := by
    intro r; rw [get_absS]; unfold nodeAt; rw [hbelow r]; rfl
  -- the destination slots of the source subtree are all free
  have houts : ((absS s).nodes.filter (fun kv => isPrefixOrEq sk kv.1)).map (fun kv =>
        (D ++ kv.1.drop sk.length,
          copyOne (dirPerm c.mode c.cdirs c.cfiles) (filePerm c.mode c.cdirs c.cfiles) kv.2
            (TreeFs.get (absS s) (D ++ kv.1.drop sk.length)))) =
      (subCopy sk D (copiedNode (dirPerm c.mode c.cdirs c.cfiles) (filePerm c.mode c.cdirs c.cfiles))
        (absS s).nodes).map (fun kv => (kv.1, R.ok kv.2)) := by
    unfold subCopy
    rw [List.map_map]
    apply List.map_congr_left
    intro kv _
    simp only [Function.comp, hgetD, copyOne_none]
  have hanc := ancestors_are_dirs hi hpar hped hpel
  have hancget : ∀ q ∈ (prefixes D).dropLast, ∃ n, TreeFs.get (absS s) q = some n ∧ n.kind = Kind.dir := by
    intro q hq
    obtain ⟨x, hx, hxd, hxl⟩ := hanc q hq
    refine ⟨absNode s q x, ?_, (kindOf_dir_iff x).2 ⟨hxd, hxl⟩⟩
    rw [get_absS]; unfold nodeAt; rw [hx]; rfl
  have hnodup : ((absS s).nodes.map (·.1)).Nodup := by
    show ((s.entries.map (fun kv => (kv.1, absNode s kv.1 kv.2))).map (·.1)).Nodup
    rw [List.map_map]
    exact hi.nodup
  refine ⟨putOuts ((subCopy sk D (copiedNode (dirPerm c.mode c.cdirs c.cfiles)
      (filePerm c.mode c.cdirs c.cfiles)) (absS s).nodes).map (fun kv => (kv.1, R.ok kv.2))) (absS s),
    ?_, ?_, ?_, ?_⟩
  · unfold copySpec
    simp only [hne, if_false, hget, ctx.skne, hroot, hinc1, hinc2, Bool.or_self, Bool.false_eq_true,
      houts, any_unspec_ok, any_err_ok]
    rw [mkAncestors_noop _ _ _ (fun q hq => by obtain ⟨n, hn, _⟩ := hancget q hq; exact ⟨n, hn⟩)]
    rw [if_neg]
    intro h
    rw [List.any_eq_true] at h
    obtain ⟨q, hq, hq2⟩ := h
    obtain ⟨n, hn, hk⟩ := hancget q hq
    simp [hn, hk] at hq2
  · rw [putOuts_cwd]; rfl
  · intro r
    rw [get_putOuts_ok _ (nodup_subCopy sk D _ hnodup), alLookup_subCopy, hgetD, Option.or_none]
    show Option.map _ (TreeFs.get (absS s) (sk ++ r)) = _
    rw [get_absS]
  · intro k hk
    rw [get_putOuts_ok _ (nodup_subCopy sk D _ hnodup), alLookup_subCopy_other _ _ _ _ _ hk, get_absS]
    rfl

/-- **tree copy against the reference** (conditional on the traversal yielding the pre-order
    listing `L`, hypothesis `htrav`): the copy succeeds, the reference copy succeeds, and the
    abstraction of the post-state is the reference's post-state -/
theorem copy_tree_refines {env : Env} {a b : Str} {c : CopyOpts} {s : State} {sk dk : FsPath}
    {rootE travRoot : Entry} {snap : Snap} {L : List Entry}
    (ctx : TreeCtx s sk dk c)
    (ha : absM env a s = (.ok sk, s)) (hb : absM env b s = (.ok dk, s)) (hne : sk ≠ dk)
    (hsrc : alLookup sk s.entries = some rootE)
    (hent : entriesOf s sk = .ok (travRoot, snap))
    (hL : PreOrder s sk L)
    (htrav : ∀ (step : Entry → State → Outcome Unit × State) (w : State),
      runIter snap (copyOpts false) noPre travRoot step (travFuel snap) {} w = runList step L w) :
    ∃ s', copyM env a b c s = (.ok (), s') ∧
      (copySpec (absS s) sk dk c.mode c.cdirs c.cfiles).1 = .ok () ∧
      TEquiv (absS s') (copySpec (absS s) sk dk c.mode c.cdirs c.cfiles).2 := by
  have hi := ctx.hi
  have hp : rootE.path = sk := hi.path sk rootE hsrc
  have hent' : entriesOf s (rootE.doFollow c.follow).path = .ok (travRoot, snap) := by
    rw [ctx.hfollow, doFollow_false, hp]; exact hent
  obtain ⟨σ', hrun, hinv⟩ := runList_copy ctx hL L [] s (by simp) (copyInv_init ctx)
  obtain ⟨t2, hspec, hcwd2, hdst2, hother2⟩ := copySpec_tree ctx hsrc hne
  refine ⟨σ', ?_, by rw [hspec], ?_⟩
  · rw [copyM_resolved ha hb hne hsrc hent', ctx.hfollow, doFollow_false, hp, htrav]
    exact hrun
  · rw [hspec]
    refine ⟨hinv.cwd.trans hcwd2.symm, ?_⟩
    intro k
    rw [get_absS]
    by_cases hk : ∃ r, k = copyDst s sk dk ++ r
    · obtain ⟨r, rfl⟩ := hk
      rw [hdst2 r]
      cases hl : alLookup (sk ++ r) s.entries with
      | none =>
        have hnd : ∀ e ∈ L, e.path ≠ sk ++ r := by
          intro e he hpe
          obtain ⟨r', hp', hl'⟩ := hL.mem_src e he
          have : r' = r := List.append_cancel_left (hp'.symm.trans hpe)
          subst this
          rw [hl] at hl'; cases hl'
        have h1 : nodeAt σ' (copyDst s sk dk ++ r) = none := by
          unfold nodeAt; rw [(hinv.notdone r hnd).1]; rfl
        have h2 : nodeAt s (sk ++ r) = none := by unfold nodeAt; rw [hl]; rfl
        rw [h1, h2]; rfl
      | some e =>
        obtain ⟨x, _, _, _, hn, _⟩ := hinv.done e (hL.complete r e hl) r (hi.path _ _ hl)
        have h2 : nodeAt s (sk ++ r) = some (absNode s (sk ++ r) e) := by unfold nodeAt; rw [hl]; rfl
        rw [hn, h2, copyDirMode_eq, copyFileMode_eq]; rfl
    · have hk' : ∀ r, k ≠ copyDst s sk dk ++ r := fun r h => hk ⟨r, h⟩
      rw [hother2 k hk']
      by_cases hc : Cmp (copyDst s sk dk) k
      · rcases hc with hc | ⟨t, ht⟩
        · have hneD : k ≠ copyDst s sk dk := fun h => hk' [] (by rw [List.append_nil]; exact h)
          exact (hinv.anc k (prefix_dropLast_of_ne hc hneD)).2
        · exact absurd ht.symm (hk' t)
      · obtain ⟨h1, h2⟩ := hinv.frame k hc
        exact nodeAt_eq_of_lookup h1 h2

end Rivia.Lemmas
