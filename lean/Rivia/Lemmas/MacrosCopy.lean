/-
  Rivia.Lemmas.MacrosCopy — `assert_vfs_copyfile!` against its specification (C20).
  Part 1: invariants of `_copy` (anything kept by `_add` and by storing file bytes is kept by `copy`);
          instance: no existing entry changes its kind.
  Part 2: the macro against `macroSpec` (it compares BYTES since the upstream repair of finding A6, so
          no condition on the content of the source is left).
-/
import Rivia.Lemmas.MacrosAct

set_option linter.unusedSimpArgs false

namespace Rivia.MacroLemmas
open Rivia Rivia.Memfs Rivia.Memfs.M Rivia.File Rivia.Spec Rivia.Spec.TreeFs Rivia.Macros
open Rivia.Spec.MacroSpec Rivia.Lemmas.RefineA
open Rivia.Lemmas.InvA (Pres)

variable {env : Env} {s : State}

/-! ### invariants of `_copy` -/

/-- what `_copy` does to the state: `_add` and storing bytes -/
structure CopyInv (I : State → Prop) : Prop where
  add : ∀ e, Pres I (Memfs.add e)
  setFile : ∀ p b, Pres I (Memfs.setFile p b)

namespace CopyInv
variable {I : State → Prop}

theorem mkdirM (h : CopyInv I) (p : FsPath) (mode : Option Nat) : Pres I (Memfs.mkdirM p mode) := by
  unfold Memfs.mkdirM
  refine Pres.forM _ _ fun q => Pres.bind (h.add _) fun _ => Pres.pure _

theorem symlinkAbs (h : CopyInv I) (l t : FsPath) : Pres I (Memfs.symlinkAbs l t) := by
  unfold Memfs.symlinkAbs
  have hA := h.add
  repeat (first
    | exact hA _ | exact Pres.pure _ | exact Pres.pure' _ | exact Pres.fail _ | exact Pres.getEntry _
    | exact Pres.dirOf _ | apply Pres.bind | intro _ | split | dsimp only)

set_option hygiene false in
macro "pci" : tactic => `(tactic| with_reducible first
  | exact hM _ _ | exact hL _ _ | exact hA _ | exact hS _ _
  | exact Pres.pure _ | exact Pres.pure' _ | exact Pres.fail _ | exact Pres.getEntry _ | exact Pres.getFile _
  | exact Pres.dirOf _
  | (refine Pres.bind ?_ (fun _ => ?_))
  | (refine Pres_ite ?_ ?_))

theorem copyBody (h : CopyInv I) (follow copyInto : Bool) (rootP dstRoot : FsPath)
    (dirMode fileMode : Option Nat) (e : Entry) :
    Pres I (MacroLemmas.copyBody follow copyInto rootP dstRoot dirMode fileMode e) := by
  have hM := h.mkdirM
  have hL := h.symlinkAbs
  have hA := h.add
  have hS := h.setFile
  unfold MacroLemmas.copyBody
  dsimp only
  repeat (first | pci | split)

theorem copyM (h : CopyInv I) (env : Env) (a b : Str) (o : CopyOpts) : Pres I (Memfs.copyM env a b o) := by
  rw [copyM_eq]
  unfold copyM'
  refine Pres.bind (Pres.absM _ _) fun sr => Pres.bind (Pres.absM _ _) fun dr => ?_
  refine Pres_ite (Pres.pure _) ?_
  refine Pres.bind Pres.get fun st => ?_
  dsimp only
  have leaf : ∀ (m0 : M Entry), Pres I m0 → Pres I (do
      let rootE0 ← m0
      let __x ← liftO (entriesOf st (rootE0.doFollow o.follow).path)
      fun st_1 =>
        runIter __x.snd { follow := o.follow } noPre __x.fst
          (fun e st_2 =>
            MacroLemmas.copyBody o.follow (isDirP st dr) (rootE0.doFollow o.follow).path dr
              (match o.mode with
              | some x => if o.cdirs = true ∨ (!o.cfiles) = true then some x else none
              | none => none)
              (match o.mode with
              | some x => if o.cfiles = true ∨ (!o.cdirs) = true then some x else none
              | none => none)
              e st_2)
          (travFuel __x.snd) { } st_1) := by
    intro m0 hm0
    refine Pres.bind hm0 fun rootE0 => Pres.bind (Pres.liftO _) fun tr => ?_
    constructor
    intro s0 hs0
    exact Lemmas.InvA.runIter_pres (I := I) _ _ _ (fun _ _ h => h) _ _
      (fun e w hw => (h.copyBody _ _ _ _ _ _ e).run w hw) _ _ _ hs0
  split
  · exact leaf _ (Pres.pure' _)
  · exact leaf _ (Pres.fail _)

theorem step_copy (h : CopyInv I) (env : Env) (s : State) (a b : Str) (hs : I s) :
    I (step env s (.copy a b)).2 := by
  show I (mapVal _ (Memfs.copyM env a b {}) s).2
  rw [Lemmas.InvA.mapVal_snd]
  exact (h.copyM env a b {}).run s hs

end CopyInv

/-! ### instance: existing entries keep their kind -/

/-- every entry of `s0` is still there with the same kind flags -/
def KeepsKinds (s0 st : State) : Prop :=
  ∀ k x, alLookup k s0.entries = some x →
    ∃ x', alLookup k st.entries = some x' ∧ x'.dir = x.dir ∧ x'.file = x.file ∧ x'.link = x.link

theorem addChild_flags {d d' : Entry} {n : Str} {b : Bool} (h : d.addChild n = .ok (b, d')) :
    d'.dir = d.dir ∧ d'.file = d.file ∧ d'.link = d.link := by
  unfold Entry.addChild at h
  split at h
  · cases h
  · split at h
    · simp only [Outcome.ok.injEq, Prod.mk.injEq] at h; rw [← h.2]; exact ⟨rfl, rfl, rfl⟩
    · simp only [Outcome.ok.injEq, Prod.mk.injEq] at h; rw [← h.2]; exact ⟨rfl, rfl, rfl⟩

theorem keepsKinds_copyInv (s0 : State) : CopyInv (KeepsKinds s0) where
  add := fun e => ⟨fun s hs => by
    rcases Lemmas.InvA.add_state_cases e s with h0 | ⟨d, b, d', hd, hnone, _, _, _, hadd, h0⟩
    · rw [h0]; exact hs
    · rw [h0]
      intro k x hk
      obtain ⟨x', hx', hf⟩ := hs k x hk
      simp only [alLookup_alInsert]
      by_cases h1 : e.path.dropLast = k
      · subst h1
        rw [if_pos rfl]
        rw [hd] at hx'
        simp only [Option.some.injEq] at hx'
        subst hx'
        obtain ⟨f1, f2, f3⟩ := addChild_flags hadd
        exact ⟨d', rfl, f1.trans hf.1, f2.trans hf.2.1, f3.trans hf.2.2⟩
      · rw [if_neg h1]
        by_cases h2 : e.path = k
        · subst h2; rw [hnone] at hx'; cases hx'
        · rw [if_neg h2]; exact ⟨x', hx', hf⟩⟩
  setFile := fun p b => ⟨fun s hs => hs⟩

theorem step_copy_keepsKinds (env : Env) (s : State) (a b : Str) :
    KeepsKinds s (step env s (.copy a b)).2 :=
  (keepsKinds_copyInv s).step_copy env s a b (fun _ x hk => ⟨x, hk, rfl, rfl, rfl⟩)

/-! ### `copyfile` against `macroSpec` -/

theorem step_copy_unres_src {src dst : Str} (hk : keyOf env s src = none) :
    ∃ k, step env s (.copy src dst) = (.err k, s) := by
  obtain ⟨kk, hkk⟩ := absM_of_none hk
  refine ⟨kk, ?_⟩
  simp only [step, copyM]
  msimp [hkk]

theorem step_copy_unres_dst {src dst : Str} {a : FsPath} (hk1 : keyOf env s src = some a)
    (hk : keyOf env s dst = none) : ∃ k, step env s (.copy src dst) = (.err k, s) := by
  obtain ⟨kk, hkk⟩ := absM_of_none hk
  refine ⟨kk, ?_⟩
  simp only [step, copyM]
  msimp [absM_of_key hk1, hkk]

/-- copying a source that has no entry: an error, or (source = destination) nothing at all -/
theorem step_copy_absent {src dst : Str} {a b : FsPath} (hk1 : keyOf env s src = some a)
    (hk2 : keyOf env s dst = some b) (hx : alLookup a s.entries = none) :
    (step env s (.copy src dst)).1.isOk = false ∨ (step env s (.copy src dst)).2 = s := by
  simp only [step, copyM]
  msimp [absM_of_key hk1, absM_of_key hk2]
  by_cases hab : a = b
  · right; simp [hab]
  · left; simp [hab, hx, Outcome.isOk]

theorem kind_file_flags {e : Entry} (h : e.dir = !e.file) : (kindOf e = Kind.file) ↔ (e.file && !e.link) = true := by
  unfold kindOf
  cases hl : e.link <;> cases hd : e.dir <;> cases hf : e.file <;> simp_all

/-- the source is not an existing regular file: the macro panics before acting, and the documented
    assertion is false as well -/
theorem copyfile_not_file {src dst : Str} {a b : FsPath} (hk1 : keyOf env s src = some a)
    (hs1 : Stable env s a) (hk2 : keyOf env s dst = some b)
    (hpost : StateOk (step env s (.copy src dst)).2)
    (hsrc : eAt s a (fun e => e.file && !e.link) = false) :
    (runMacro env s (.copyfile src dst)).1 ≠ .pass ∧ (macroSpec env s (.copyfile src dst)).1 = false := by
  constructor
  · simp only [runMacro, absK_eq, hk1, hk2, boolK_exists, boolK_isFile, eTest_stable hs1, hsrc]
    cases eAt s a fun _ => true <;> simp [pm]
  · rw [macroSpec_of_not_noop rfl]
    simp only [opOf]
    have hcwd := step_copy_cwd env s src dst
    have hkk := step_copy_keepsKinds env s src dst
    have hk1' : keyOf env (step env s (.copy src dst)).2 src = some a := by rw [keyOf_congr hcwd]; exact hk1
    unfold eAt at hsrc
    cases hx : alLookup a s.entries with
    | none =>
      rcases step_copy_absent hk1 hk2 hx with h | h
      · rw [h]; rfl
      · rw [h]; simp only [postSpec, nodeOf_key hk1, hx, Option.map, Bool.and_false]
    | some x =>
      rw [hx] at hsrc
      simp only at hsrc
      obtain ⟨x', hx', f1, f2, f3⟩ := hkk a x hx
      have hfl := (stateOk_lookup hpost hx').1
      have hnk : ¬ kindOf x' = Kind.file := by
        rw [kind_file_flags hfl, f2, f3, hsrc]; simp
      simp only [postSpec, nodeOf_key hk1', hx', Option.map, absNode, hnk, decide_false, Bool.false_and,
        Bool.and_false]

/-- **`assert_vfs_copyfile!` against its specification**, on the domain "the post-state is well
    formed" (any content of the source: the macro compares bytes) -/
theorem copyfile_agree {src dst : Str} (hst : StableArg env s src ∧ StableArg env s dst)
    (hpost : StateOk (step env s (.copy src dst)).2) :
    ((runMacro env s (.copyfile src dst)).1 = .pass ↔ (macroSpec env s (.copyfile src dst)).1 = true) ∧
    ((runMacro env s (.copyfile src dst)).1 = .pass →
      (runMacro env s (.copyfile src dst)).2 = (macroSpec env s (.copyfile src dst)).2) := by
  cases hk1 : keyOf env s src with
  | none =>
    obtain ⟨kk, hkk⟩ := step_copy_unres_src (dst := dst) hk1
    rw [macroSpec_of_not_noop rfl]
    simp [runMacro, absK_eq, hk1, opOf, hkk, pm, Outcome.isOk]
  | some a =>
    have hs1 := hst.1.of_key hk1
    cases hk2 : keyOf env s dst with
    | none =>
      obtain ⟨kk, hkk⟩ := step_copy_unres_dst hk1 hk2
      rw [macroSpec_of_not_noop rfl]
      simp [runMacro, absK_eq, hk1, hk2, opOf, hkk, pm, Outcome.isOk]
    | some b =>
      have hs2 := hst.2.of_key hk2
      cases hsrc : eAt s a fun e => e.file && !e.link with
      | false =>
        obtain ⟨h1, h2⟩ := copyfile_not_file hk1 hs1 hk2 hpost hsrc
        rw [h2]
        exact ⟨⟨fun h => absurd h h1, fun h => by cases h⟩, fun h => absurd h h1⟩
      | true =>
        obtain ⟨hstate, hpass⟩ := run_copyfile hk1 hs1 hk2 hs2 hsrc
        have hcwd := step_copy_cwd env s src dst
        have hkk := step_copy_keepsKinds env s src dst
        rw [macroSpec_of_not_noop rfl]
        simp only [opOf]
        refine ⟨?_, fun _ => hstate⟩
        rw [hpass]
        generalize hs' : (step env s (.copy src dst)).2 = s' at *
        generalize (step env s (.copy src dst)).1 = o at *
        have hk1' : keyOf env s' src = some a := by rw [keyOf_congr hcwd]; exact hk1
        have hk2' : keyOf env s' dst = some b := by rw [keyOf_congr hcwd]; exact hk2
        -- the source in the post-state
        unfold eAt at hsrc
        cases hx : alLookup a s.entries with
        | none => rw [hx] at hsrc; cases hsrc
        | some x =>
          rw [hx] at hsrc
          simp only at hsrc
          obtain ⟨x', hx', f1, f2, f3⟩ := hkk a x hx
          have hreg : (x'.file && !x'.link) = true := by rw [f2, f3]; exact hsrc
          obtain ⟨hfl, hdata⟩ := stateOk_lookup hpost hx'
          have hxf : x'.file = true := by cases hf : x'.file <;> simp_all
          have hxl : x'.link = false := by cases hl : x'.link <;> simp_all
          cases hbs : alLookup a s'.files with
          | none => rw [hbs] at hdata; exact absurd (hdata hreg) (by simp)
          | some bsrc =>
            have hkind : kindOf x' = Kind.file := (kind_file_flags hfl).2 hreg
            have htsrc : bytesOf env s' src = some bsrc := by
              unfold bytesOf
              rw [step_read_key hk1']
              simp only [hx', hxf, if_true, hbs]
            have hpostspec : postSpec env s' (.copyfile src dst) = pHasBytes env s' dst bsrc := by
              simp only [postSpec, nodeOf_key hk1', hx', Option.map, absNode, hkind, decide_true,
                Bool.true_and, hxl, hbs, Option.getD, Bool.false_eq_true, if_false]
            rw [hpostspec, htsrc]
            simp only [pHasBytes, nodeOf_key hk2', eAt]
            -- the destination in the post-state
            cases hy : alLookup b s'.entries with
            | none => simp
            | some y =>
              obtain ⟨hfly, hdatay⟩ := stateOk_lookup hpost hy
              cases hregy : (y.file && !y.link) with
              | false =>
                have hnk : ¬ kindOf y = Kind.file := by rw [kind_file_flags hfly, hregy]; simp
                simp [Option.map, absNode, hnk, hregy]
              | true =>
                have hyf : y.file = true := by cases hf : y.file <;> simp_all
                have hyl : y.link = false := by cases hl : y.link <;> simp_all
                have hkindy : kindOf y = Kind.file := (kind_file_flags hfly).2 hregy
                cases hbd : alLookup b s'.files with
                | none => rw [hbd] at hdatay; exact absurd (hdatay hregy) (by simp)
                | some bdst =>
                  have htdst : bytesOf env s' dst = some bdst := by
                    unfold bytesOf
                    rw [step_read_key hk2']
                    simp only [hy, hyf, if_true, hbd]
                  rw [htdst]
                  simp only [Option.map, absNode, hkindy, decide_true, Bool.true_and, hyl, hbd,
                    Option.getD, Bool.false_eq_true, if_false, hregy]
                  constructor
                  · rintro ⟨hok, ⟨x0, h1, h2⟩, _⟩
                    cases h1; cases h2
                    simp [hok]
                  · intro h
                    simp only [Bool.and_eq_true, decide_eq_true_eq] at h
                    obtain ⟨hok, heq⟩ := h
                    exact ⟨hok, ⟨bsrc, rfl, by rw [heq]⟩, by simp [hyf]⟩


/-! ### all acting macros -/

/-- the side conditions on the specified post-state: well-formedness where `is_file` has to be read off
    the reference view (`mkfile`, `write_all`, `copyfile`) -/
def ActOk (env : Env) (s : State) : MacroCall → Prop
  | .copyfile a b => StateOk (macroSpec env s (.copyfile a b)).2
  | m => PostOk env s m

instance (env : Env) (s : State) (m : MacroCall) : Decidable (ActOk env s m) := by
  cases m <;> unfold ActOk <;> infer_instance

theorem macroSpec_copyfile_state (env : Env) (s : State) (a b : Str) :
    (macroSpec env s (.copyfile a b)).2 = (step env s (.copy a b)).2 := by
  rw [macroSpec_of_not_noop rfl]; rfl

theorem acting_all (m : MacroCall) (hm : isChecking m = false) (hok : StateOk s)
    (hst : ArgsStable env s m) (hact : ActOk env s m) :
    ((runMacro env s m).1 = .pass ↔ (macroSpec env s m).1 = true) ∧
    ((runMacro env s m).1 = .pass → (runMacro env s m).2 = (macroSpec env s m).2) := by
  cases m
  case copyfile a b =>
    have h1 : StateOk (macroSpec env s (.copyfile a b)).2 := hact
    rw [macroSpec_copyfile_state] at h1
    exact copyfile_agree hst h1
  all_goals first
    | (simp only [isChecking, Bool.true_eq_false] at hm; done)
    | exact acting_agree _ rfl hok hst hact

end Rivia.MacroLemmas
