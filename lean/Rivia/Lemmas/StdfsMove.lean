/-
  Rivia.Lemmas.StdfsMove — C02 §4 (continued): `move_p` (one `rename(2)`) against the reference `moveP`.
-/
import Rivia.Lemmas.StdfsMkdir

namespace Rivia.Lemmas.StdfsL
open Rivia Rivia.Memfs Rivia.File Rivia.Spec Rivia.Spec.TreeFs Rivia.Posix Rivia.Stdfs
open Rivia.Lemmas.RefineA (TEquiv ResMatch get_put alLookup_alInsert mem_of_alLookup)
open Rivia.Stdfs.SM

variable {env : Env} {t : T}

set_option linter.unusedSimpArgs false

theorem filterMap_ext {α β} {f g : α → Option β} : ∀ {l : List α}, (∀ x ∈ l, f x = g x) →
    l.filterMap f = l.filterMap g
  | [], _ => rfl
  | x :: r, h => by
    simp only [List.filterMap_cons, h x List.mem_cons_self,
      filterMap_ext (l := r) (fun y hy => h y (List.mem_cons_of_mem _ hy))]

/-- with no link moved and the cwd outside, `rename` builds the tree the reference builds -/
theorem renameMove_eq {t : T} {s d : FsPath}
    (hnl : ∀ kv ∈ t.nodes, isPrefixOrEq s kv.1 = true → isLinkKind kv.2.kind = false)
    (hcwd : isPrefixOrEq s t.cwd = false) :
    renameMove t s d =
      { t with nodes := t.nodes.filter (fun kv => !(isPrefixOrEq s kv.1) && kv.1 ≠ d) ++
          t.nodes.filterMap (fun kv => if isPrefixOrEq s kv.1 then some (d ++ kv.1.drop s.length, kv.2) else none) } := by
  unfold renameMove
  simp only [hcwd, Bool.false_eq_true, if_false]
  congr 2
  apply filterMap_ext
  intro kv hkv
  by_cases hp : isPrefixOrEq s kv.1 = true
  · simp only [hp, if_true]
    have := hnl kv hkv hp
    cases hk : kv.2.kind with
    | link b => simp [hk, isLinkKind] at this
    | dir => rfl
    | file => rfl
  · simp only [hp, Bool.false_eq_true, if_false]

/-- `rename` once the cheap checks have passed -/
theorem rename_core {t : T} (h : WfFacts t) {s d : FsPath} {sn : Node} (hs0 : s ≠ []) (hd0 : d ≠ [])
    (hgs : get t s = some sn) (hwd : walkErr t d = none) (hsd : s ≠ d)
    (hpre : isPrefixOrEq s d = false) (hanc : isProperPrefix d s = false) :
    rename t s d = (match renameClash t sn d with
      | some e => .error e
      | none => .ok (renameMove t s d)) := by
  unfold rename
  simp only [hs0, hd0, or_self, if_false, walkErr_of_get h hgs, hwd, hgs, hsd, hpre, hanc,
    Bool.false_eq_true]
  cases renameClash t sn d <;> rfl

/-- every way `rename` can refuse -/
theorem rename_err_of {t : T} {s d : FsPath}
    (hbad : s = [] ∨ d = [] ∨ walkErr t d ≠ none ∨ get t s = none ∨
      (s ≠ d ∧ isPrefixOrEq s d = true) ∨ (s ≠ d ∧ isProperPrefix d s = true)) :
    ∃ e, rename t s d = .error e := by
  unfold rename
  by_cases h0 : s = [] ∨ d = []
  · simp only [h0, if_true]; exact ⟨_, rfl⟩
  · simp only [h0, if_false]
    have hs0 : s ≠ [] := fun e => h0 (Or.inl e)
    have hd0 : d ≠ [] := fun e => h0 (Or.inr e)
    cases hws : walkErr t s with
    | some e => exact ⟨e, rfl⟩
    | none =>
      cases hwd : walkErr t d with
      | some e => exact ⟨e, rfl⟩
      | none =>
        simp only
        cases hgs : get t s with
        | none => exact ⟨_, rfl⟩
        | some sn =>
          simp only
          rcases hbad with h1 | h1 | h1 | h1 | ⟨h1, h2⟩ | ⟨h1, h2⟩
          · exact absurd h1 hs0
          · exact absurd h1 hd0
          · exact absurd hwd h1
          · rw [hgs] at h1; cases h1
          · simp only [h1, if_false, h2, if_true]; exact ⟨_, rfl⟩
          · simp only [h1, if_false, h2, if_true]
            split <;> exact ⟨_, rfl⟩

theorem below_nonempty_of_mem {t : T} {d s : FsPath} {sn : Node} (hgs : get t s = some sn)
    (hanc : isProperPrefix d s = true) : (below t d).isEmpty = false := by
  have hm : s ∈ below t d := by
    unfold below
    rw [List.mem_filter]
    exact ⟨List.mem_map.2 ⟨(s, sn), mem_of_alLookup hgs, rfl⟩, hanc⟩
  cases hb : below t d with
  | nil => rw [hb] at hm; cases hm
  | cons x r => rfl

theorem isPrefixOrEq_self (a : FsPath) : isPrefixOrEq a a = true := (isPrefixOrEq_iff a a).2 (Or.inl rfl)

/-- `rename` against the reference, on keys -/
theorem sim_moveK (h : Ctx env t) (sa da : FsPath) (hok : moveOkB t sa da = true) :
    Sim (match rename t sa (moveDst t sa da) with
         | .ok t' => (.ok .unit, t')
         | .error e => (.err (ioErr e), t))
        (liftR (fun _ => .unit) (TreeFs.moveP t sa da)) := by
  unfold moveOkB at hok
  simp only [Bool.and_eq_true, List.all_eq_true, Bool.or_eq_true, Bool.not_eq_true',
    decide_eq_true_eq] at hok
  obtain ⟨⟨⟨_, hnl0⟩, hcwd⟩, hdl⟩ := hok
  have hnl : ∀ kv ∈ t.nodes, isPrefixOrEq sa kv.1 = true → isLinkKind kv.2.kind = false := by
    intro kv hkv hp
    rcases hnl0 kv hkv with h1 | h1
    · rw [hp] at h1; cases h1
    · exact h1
  unfold TreeFs.moveP
  have hdst : (if isDir t da = true then da ++ [baseName sa] else da) = moveDst t sa da := rfl
  cases hgs : get t sa with
  | none =>
    obtain ⟨e, he⟩ := rename_err_of (t := t) (s := sa) (d := moveDst t sa da)
      (Or.inr (Or.inr (Or.inr (Or.inl hgs))))
    simp only [he, liftR]; exact sim_err _ _ (TEquiv.refl _)
  | some sn =>
    simp only [hdst]
    generalize moveDst t sa da = dst at hdl ⊢
    have hsnl : isLinkKind sn.kind = false := hnl (sa, sn) (mem_of_alLookup hgs) (isPrefixOrEq_self sa)
    by_cases hs0 : sa = []
    · simp only [hs0, if_true, liftR]; exact sim_unspec _ _
    · simp only [hs0, if_false]
      by_cases hsd : sa = dst
      · subst hsd
        have : rename t sa sa = .ok t := by
          unfold rename
          simp only [hs0, or_self, if_false, walkErr_of_get h.wf hgs, hgs, if_true]
        simp only [this, if_true, liftR]; exact sim_same (by simp)
      · simp only [hsd, if_false]
        by_cases hpre : isPrefixOrEq sa dst = true
        · obtain ⟨e, he⟩ := rename_err_of (t := t) (s := sa) (d := dst)
            (Or.inr (Or.inr (Or.inr (Or.inr (Or.inl ⟨hsd, hpre⟩)))))
          simp only [he, hpre, if_true, liftR]; exact sim_err _ _ (TEquiv.refl _)
        · have hpre' : isPrefixOrEq sa dst = false := by simpa using hpre
          simp only [hpre', Bool.false_eq_true, if_false]
          by_cases hd0 : dst = []
          · subst hd0
            obtain ⟨e, he⟩ := rename_err_of (t := t) (s := sa) (d := []) (Or.inr (Or.inl rfl))
            simp only [he, if_true, liftR]; exact sim_err _ _ (TEquiv.refl _)
          · simp only [hd0, if_false]
            by_cases hpd : isDir t dst.dropLast = true
            · simp only [hpd, Bool.not_true, Bool.false_eq_true, if_false]
              have hwd : walkErr t dst = none := (walkErr_none_iff h.wf dst).2 (Or.inr hpd)
              by_cases hanc : isProperPrefix dst sa = true
              · -- moving something onto one of its ancestors
                obtain ⟨e, he⟩ := rename_err_of (t := t) (s := sa) (d := dst)
                  (Or.inr (Or.inr (Or.inr (Or.inr (Or.inr ⟨hsd, hanc⟩)))))
                obtain ⟨dn, hgd, hdk⟩ := isDir_iff.1 (ancestor_isDir h.wf hgs hanc)
                have hbe := below_nonempty_of_mem hgs hanc
                simp only [he, hgd, hdk, hbe, Bool.and_false, Bool.false_eq_true, if_false, liftR]
                cases hsk : sn.kind <;> simp_all [isLinkKind] <;> exact sim_err _ _ (TEquiv.refl _)
              · have hanc' : isProperPrefix dst sa = false := by simpa using hanc
                rw [rename_core h.wf hs0 hd0 hgs hwd hsd hpre' hanc']
                unfold renameClash
                cases hgd : get t dst with
                | none =>
                  simp only [renameMove_eq hnl hcwd, Bool.false_eq_true, if_false, Bool.not_true, liftR]
                  exact sim_same (by simp)
                | some dn =>
                  have hdnl : isLinkKind dn.kind = false := by
                    unfold isLink at hdl; rw [hgd] at hdl
                    cases hk : dn.kind <;> simp_all [isLinkKind]
                  cases hsk : sn.kind with
                  | link b => simp [hsk, isLinkKind] at hsnl
                  | dir =>
                    cases hdk : dn.kind with
                    | link b => simp [hdk, isLinkKind] at hdnl
                    | dir =>
                      cases hbe : (below t dst).isEmpty with
                      | true =>
                        simp only [hsk, hdk, hbe, if_true, decide_true, Bool.and_self, liftR]
                        exact sim_unspec _ _
                      | false =>
                        simp only [hsk, hdk, hbe, if_true, Bool.false_eq_true, if_false, decide_true,
                          Bool.and_false, reduceCtorEq, decide_false, Bool.and_self, Bool.not_false, liftR]
                        exact sim_err _ _ (TEquiv.refl _)
                    | file =>
                      simp only [hsk, hdk, if_true, reduceCtorEq, if_false, decide_true, decide_false,
                        Bool.and_false, Bool.false_and, Bool.false_eq_true, Bool.not_false, Bool.true_and, liftR]
                      exact sim_err _ _ (TEquiv.refl _)
                  | file =>
                    cases hdk : dn.kind with
                    | link b => simp [hdk, isLinkKind] at hdnl
                    | dir =>
                      simp only [hsk, hdk, reduceCtorEq, if_false, if_true, decide_true, decide_false,
                        Bool.and_false, Bool.false_and, Bool.false_eq_true, Bool.not_false, liftR]
                      exact sim_err _ _ (TEquiv.refl _)
                    | file =>
                      simp only [hsk, hdk, reduceCtorEq, if_false, decide_true, decide_false, Bool.and_self,
                        Bool.false_and, Bool.false_eq_true, Bool.not_true, renameMove_eq hnl hcwd, liftR]
                      exact sim_same (by simp)
            · have hpd' : isDir t dst.dropLast = false := by simpa using hpd
              have hwd : walkErr t dst ≠ none := by
                intro hw
                rcases (walkErr_none_iff h.wf dst).1 hw with h1 | h1
                · exact hd0 h1
                · rw [h1] at hpd'; cases hpd'
              obtain ⟨e, he⟩ := rename_err_of (t := t) (s := sa) (d := dst) (Or.inr (Or.inr (Or.inl hwd)))
              simp only [he, hpd', Bool.not_false, if_true, liftR]; exact sim_err _ _ (TEquiv.refl _)

/-- `move_p`: covered on the domain `moveOkB` -/
theorem sim_moveP (h : Ctx env t) (a b : Str)
    (hdom : ∀ sa da, resolve env t a = .ok sa → resolve env t b = .ok da → moveOkB t sa da = true) :
    Sim (Stdfs.step env t (.moveP a b)) (withPath env t a fun sa => withPath env t b fun da =>
      liftR (fun _ => .unit) (TreeFs.moveP t sa da)) := by
  simp only [Stdfs.step, Stdfs.moveP]
  refine sim_withPath h.cwd a _ _ _ ?_
  intro sa hsa
  refine sim_withPath h.cwd b _ _ _ ?_
  intro da hda
  have hok := hdom sa da hsa hda
  have hmash : isDir t da = true → toPath (mash (renderP da) (baseName sa)) = da ++ [baseName sa] := by
    unfold moveOkB at hok
    simp only [Bool.and_eq_true, decide_eq_true_eq] at hok
    exact hok.1.1.1
  have hdst : (if isDir t da = true then toPath (mash (renderP da) (baseName sa)) else da) = moveDst t sa da := by
    unfold moveDst
    by_cases hd : isDir t da = true
    · simp only [hd, if_true, hmash hd]
    · simp only [hd, Bool.false_eq_true, if_false]
  ssimp [isDirK_eq h.wf, hdst]
  have key := sim_moveK h sa da hok
  cases hr : rename t sa (moveDst t sa da) with
  | ok t' => rw [hr] at key; exact key
  | error e => rw [hr] at key; exact key

end Rivia.Lemmas.StdfsL
