/-
  Rivia.Lemmas.ReturnsWf — the abstraction of a well-formed Memfs state is a well-formed tree in the
  sense of the Stdfs refinement (`StdfsL.Wf`: distinct keys, `/` a directory, the parent of every other
  key a directory).
-/
import Rivia.Lemmas.Stdfs
import Rivia.Lemmas.SimStep
import Rivia.Lemmas.ReachInv

namespace Rivia.Lemmas.RetWf
open Rivia Rivia.Memfs Rivia.Spec Rivia.Spec.TreeFs Rivia.Lemmas

theorem wf_of_nodup_anc {t : T} (hn : Sim.NodupK t) (ha : Sim.AncDir t) (hr : isDir t [] = true) :
    StdfsL.Wf t := by
  unfold StdfsL.Wf StdfsL.wfB
  simp only [Bool.and_eq_true, decide_eq_true_eq, List.all_eq_true, Bool.or_eq_true]
  refine ⟨⟨hn, hr⟩, fun kv hkv => ?_⟩
  by_cases h0 : kv.1 = []
  · exact Or.inl h0
  · refine Or.inr ?_
    obtain ⟨v, hv⟩ := Reach.lookup_some_of_mem hkv
    have hsnoc : kv.1.dropLast ++ [kv.1.getLast h0] = kv.1 := List.dropLast_concat_getLast h0
    apply ha kv.1.dropLast (kv.1.getLast h0) []
    rw [hsnoc]
    unfold TreeFs.get
    rw [hv]
    rfl

theorem wf_absS_of_inv {s : State} (h : Spec.Inv s) : StdfsL.Wf (absS s) := by
  refine wf_of_nodup_anc (Sim.nodupK_absS h) (Sim.ancDir_absS h) ?_
  obtain ⟨e, he, hd, hl⟩ := (RefineB.inv_props h).root
  rw [RefineB.isDir_absS, he]
  simp [hd, hl]

end Rivia.Lemmas.RetWf
