/-
  Rivia.Lemmas.Abs — lemmas about `absWith` (Memfs::_abs) / `absStdWith` (Stdfs::abs):
  equality of the two transcriptions, totality (no panic / hang), the walk `absLoop` on clean
  absolute directories, the result as a lexical join (`goClean (push cwd x)`), the error
  characterisation, and idempotence on results without `~` / `$`.
-/
import Rivia.Model.Path
import Rivia.Spec.GoClean
import Rivia.Spec.PathLaws
import Rivia.Lemmas.PathBasics
import Rivia.Lemmas.Components
import Rivia.Lemmas.Clean
import Rivia.Lemmas.Protocol
import Rivia.Lemmas.Relative
import Rivia.Lemmas.PathLaws

namespace Rivia.Lemmas
open Rivia Rivia.Str Rivia.Spec

/-! ### the two transcriptions agree -/

theorem absLoopStd_eq (f : Nat) : ∀ curr p : Str, absLoopStd f curr p = absLoop f curr p := by
  induction f with
  | zero => intro curr p; rfl
  | succ f ih =>
    intro curr p
    unfold absLoopStd absLoop
    cases h : (components p).head? with
    | none => rfl
    | some c =>
      cases c with
      | root => rfl
      | normal n => rfl
      | cur => simp only [ih]
      | parent =>
        simp only
        split
        · rfl
        · cases dir curr <;> simp only [ih]

theorem absStdWith_eq (env : Env) (cwd s : Str) : absStdWith env cwd s = absWith env cwd s := by
  unfold absStdWith absWith
  have he : (isEmpty s = true) ↔ s = [] := by simp [isEmpty]
  by_cases hs : s = []
  · rw [if_pos (he.2 hs), if_pos hs]
  · rw [if_neg (fun h => hs (he.1 h)), if_neg hs]
    cases expand env s with
    | ok p =>
      simp only
      cases cleanO (trimProtocol p) with
      | none => rfl
      | some c => simp only [absLoopStd_eq]
    | err k => rfl
    | panic => rfl
    | hang => rfl

/-! ### totality: `expand` and `abs` never panic or hang; the error kinds of `expand` -/

/-- An outcome that is `ok` or `err`. -/
def Outcome.Total {α} (o : Outcome α) : Prop := o ≠ .panic ∧ o ≠ .hang

theorem Outcome.total_ok {α} (a : α) : Outcome.Total (Outcome.ok a) := ⟨by simp, by simp⟩
theorem Outcome.total_err {α} (k : ErrKind) : Outcome.Total (Outcome.err k : Outcome α) :=
  ⟨by simp, by simp⟩

/-- what `expand` can return: a string, or one of its three error kinds -/
def ExpOut : Outcome Str → Prop
  | .ok _ => True
  | .err k => k = .multipleHomeSymbols ∨ k = .invalidExpansion ∨ k = .var
  | .panic => False
  | .hang => False

theorem ExpOut.total {o : Outcome Str} (h : ExpOut o) : Outcome.Total o := by
  cases o with
  | ok a => exact Outcome.total_ok _
  | err k => exact Outcome.total_err _
  | panic => exact absurd h (by simp [ExpOut])
  | hang => exact absurd h (by simp [ExpOut])

theorem ExpOut.err_kind {o : Outcome Str} (h : ExpOut o) {k : ErrKind} (hk : o = .err k) :
    k = .multipleHomeSymbols ∨ k = .invalidExpansion ∨ k = .var := by
  subst hk; exact h

theorem expOut_ok (a : Str) : ExpOut (.ok a) := trivial
theorem expOut_multi : ExpOut (.err .multipleHomeSymbols) := Or.inl rfl
theorem expOut_invalid : ExpOut (.err .invalidExpansion) := Or.inr (Or.inl rfl)
theorem expOut_var : ExpOut (.err .var) := Or.inr (Or.inr rfl)

theorem expandSeg_tail_out (env : Env) (f : Nat)
    (ih : ∀ cs acc : Str, ExpOut (expandSeg env f cs acc)) (var rest acc : Str) :
    ExpOut (if var = [] then Outcome.err ErrKind.invalidExpansion
      else match env var with
        | none => Outcome.err ErrKind.var
        | some v => expandSeg env f rest (acc ++ v)) := by
  split
  · exact expOut_invalid
  · cases env var with
    | none => exact expOut_var
    | some v => exact ih _ _

theorem expandSeg_out (env : Env) (f : Nat) :
    ∀ cs acc : Str, ExpOut (expandSeg env f cs acc) := by
  induction f with
  | zero => intro cs acc; unfold expandSeg; exact expOut_ok _
  | succ f ih =>
    intro cs acc
    cases cs with
    | nil => unfold expandSeg; exact expOut_ok _
    | cons c cs =>
      unfold expandSeg
      simp only
      split
      · exact expOut_ok _
      · exact expandSeg_tail_out env f ih _ _ _

theorem expandComps_out (env : Env) (cs : List Comp) :
    ∀ buf : Str, ExpOut (expandComps env cs buf) := by
  induction cs with
  | nil => intro buf; unfold expandComps; exact expOut_ok _
  | cons c cs ih =>
    intro buf
    cases c with
    | normal y =>
      unfold expandComps
      have := expandSeg_out env (y.length + 1) y []
      cases h : expandSeg env (y.length + 1) y [] with
      | ok s => exact ih _
      | err k => rw [h] at this; exact this
      | panic => rw [h] at this; exact absurd this (by simp [ExpOut])
      | hang => rw [h] at this; exact absurd this (by simp [ExpOut])
    | root => unfold expandComps; exact ih _
    | cur => unfold expandComps; exact ih _
    | parent => unfold expandComps; exact ih _

theorem dropBytes_tilde_slash (r : Str) : dropBytes ('~' :: '/' :: r) 2 = some r := by
  have h1 : ('~' : Char).utf8Size = 1 := by decide
  have h2 : ('/' : Char).utf8Size = 1 := by decide
  unfold dropBytes
  rw [if_pos (by rw [h1]; omega), h1]
  show dropBytes ('/' :: r) 1 = some r
  unfold dropBytes
  rw [if_pos (by rw [h2]; omega), h2]
  exact dropBytes_zero r

theorem homeDir_out (env : Env) : ExpOut (homeDir env) := by
  unfold homeDir
  cases env (proto "HOME")
  · exact expOut_var
  · exact expOut_ok _

theorem hasPrefix_tilde_slash {s : Str} (h : hasPrefix s ['~', '/'] = true) :
    ∃ r, s = '~' :: '/' :: r := by
  obtain ⟨b, hb⟩ := (hasPrefix_iff s ['~', '/']).1 h
  exact ⟨b, by simpa using hb⟩

/-- the `~` stage of `expand` -/
def expandStage1 (env : Env) (s : Str) : Outcome Str :=
  let cnt := s.count '~'
  if cnt > 1 then .err .multipleHomeSymbols
  else if cnt = 1 ∧ !(hasPrefix s ['~', '/']) ∧ s ≠ ['~'] then .err .invalidExpansion
  else if cnt = 1 ∧ s = ['~'] then homeDir env
  else if cnt = 1 then
    match homeDir env with
    | .ok h => match dropBytes s 2 with
      | some r => .ok (mash h r)
      | none => .panic
    | o => o
  else .ok s

theorem expand_eq (env : Env) (s : Str) :
    expand env s = match expandStage1 env s with
      | .ok p => if p.any (· == '$') then expandComps env (components p) [] else .ok p
      | o => o := rfl

theorem expandStage1_out (env : Env) (s : Str) : ExpOut (expandStage1 env s) := by
  unfold expandStage1
  simp only
  split
  · exact expOut_multi
  · split
    · exact expOut_invalid
    · next h2 =>
      split
      · exact homeDir_out env
      · next h3 =>
        split
        · next h4 =>
          have hp : hasPrefix s ['~', '/'] = true := by
            cases hh : hasPrefix s ['~', '/'] with
            | true => rfl
            | false =>
              exfalso
              apply h2
              refine ⟨h4, by simp [hh], ?_⟩
              intro hs
              exact h3 ⟨h4, hs⟩
          obtain ⟨r, rfl⟩ := hasPrefix_tilde_slash hp
          have ht := homeDir_out env
          cases hd : homeDir env with
          | ok h => simp only [dropBytes_tilde_slash]; exact expOut_ok _
          | err k => rw [hd] at ht; exact ht
          | panic => rw [hd] at ht; exact absurd ht (by simp [ExpOut])
          | hang => rw [hd] at ht; exact absurd ht (by simp [ExpOut])
        · exact expOut_ok _

/-- `expand` returns a string or fails with MultipleHomeSymbols / InvalidExpansion / Var; it
    never panics (the byte slice `&s[2..]` is only taken of strings starting with `~/`). -/
theorem expand_out (env : Env) (s : Str) : ExpOut (expand env s) := by
  rw [expand_eq]
  have h1 := expandStage1_out env s
  cases h : expandStage1 env s with
  | ok p =>
    simp only
    split
    · exact expandComps_out env _ _
    · exact expOut_ok _
  | err k => rw [h] at h1; exact h1
  | panic => rw [h] at h1; exact absurd h1 (by simp [ExpOut])
  | hang => rw [h] at h1; exact absurd h1 (by simp [ExpOut])

theorem expand_total (env : Env) (s : Str) : Outcome.Total (expand env s) := (expand_out env s).total

theorem expand_ne_parentNotFound (env : Env) (s : Str) : expand env s ≠ .err .parentNotFound := by
  intro h
  rcases (expand_out env s).err_kind h with h | h | h <;> cases h

theorem dir_total (s : Str) : Outcome.Total (dir s) := by
  unfold dir
  cases parentStr s
  · exact Outcome.total_err _
  · exact Outcome.total_ok _

/-- `absLoop` (any directory string): it never panics or hangs and its only error is
    `ParentNotFound`. -/
theorem absLoop_total (f : Nat) : ∀ curr p : Str,
    Outcome.Total (absLoop f curr p) ∧ ∀ k, absLoop f curr p = .err k → k = .parentNotFound := by
  induction f with
  | zero => intro curr p; unfold absLoop; exact ⟨Outcome.total_ok _, by simp⟩
  | succ f ih =>
    intro curr p
    unfold absLoop
    cases h : (components p).head? with
    | none => exact ⟨Outcome.total_ok _, by simp⟩
    | some c =>
      cases c with
      | root => exact ⟨Outcome.total_ok _, by simp⟩
      | normal n => exact ⟨Outcome.total_ok _, by simp⟩
      | cur => exact ih _ _
      | parent =>
        simp only
        split
        · exact ⟨Outcome.total_err _, by simp⟩
        · have hd := dir_total curr
          cases hdir : dir curr with
          | ok d => exact ih _ _
          | err k =>
            refine ⟨Outcome.total_err _, ?_⟩
            intro k' hk'
            unfold dir at hdir
            cases hp : parentStr curr with
            | none => rw [hp] at hdir; simp at hdir hk'; rw [← hk', ← hdir]
            | some d => rw [hp] at hdir; simp at hdir
          | panic => exact absurd hdir hd.1
          | hang => exact absurd hdir hd.2

/-- `abs` after expansion and protocol trimming: clean, then walk the leading `.`/`..` against
    the current directory. -/
def absCore (cwd x : Str) : Outcome Str :=
  if isRooted (goClean x) = true then .ok (goClean x)
  else absLoop ((components (goClean x)).length + 1) cwd (goClean x)

theorem absWith_eq (env : Env) (cwd s : Str) :
    absWith env cwd s =
      if s = [] then .err .empty
      else match expand env s with
        | .ok p => absCore cwd (trimProtocol p)
        | .err k => .err k
        | .panic => .panic
        | .hang => .hang := by
  unfold absWith
  split
  · rfl
  · cases expand env s with
    | ok p => simp only [cleanO_eq_goClean]; rfl
    | err k => rfl
    | panic => rfl
    | hang => rfl

theorem absCore_total (cwd x : Str) :
    Outcome.Total (absCore cwd x) ∧ ∀ k, absCore cwd x = .err k → k = .parentNotFound := by
  unfold absCore
  split
  · exact ⟨Outcome.total_ok _, by simp⟩
  · exact absLoop_total _ _ _

theorem absWith_total (env : Env) (cwd s : Str) : Outcome.Total (absWith env cwd s) := by
  rw [absWith_eq]
  split
  · exact Outcome.total_err _
  · have he := expand_total env s
    cases h : expand env s with
    | ok p => exact (absCore_total _ _).1
    | err k => exact Outcome.total_err _
    | panic => exact absurd h he.1
    | hang => exact absurd h he.2

/-- error shape of `abs` for an arbitrary `cwd` string -/
theorem absWith_err_cases {env : Env} {cwd s : Str} {k : ErrKind} (h : absWith env cwd s = .err k) :
    (s = [] ∧ k = .empty) ∨ expand env s = .err k ∨
      (k = .parentNotFound ∧ s ≠ [] ∧ ∃ e, expand env s = .ok e ∧
        absCore cwd (trimProtocol e) = .err .parentNotFound) := by
  rw [absWith_eq] at h
  split at h
  · next hs => left; simp at h; exact ⟨hs, h.symm⟩
  · next hs =>
    cases he : expand env s with
    | ok p =>
      rw [he] at h
      simp only at h
      have hk := (absCore_total _ _).2 k h
      subst hk
      exact Or.inr (Or.inr ⟨rfl, hs, p, rfl, h⟩)
    | err k' => rw [he] at h; simp at h; right; left; rw [h]
    | panic => rw [he] at h; simp at h
    | hang => rw [he] at h; simp at h

theorem absWith_ok_cases {env : Env} {cwd s p : Str} (h : absWith env cwd s = .ok p) :
    s ≠ [] ∧ ∃ e, expand env s = .ok e ∧ absCore cwd (trimProtocol e) = .ok p := by
  rw [absWith_eq] at h
  split at h
  · simp at h
  · next hs =>
    refine ⟨hs, ?_⟩
    cases he : expand env s with
    | ok e => rw [he] at h; exact ⟨e, rfl, h⟩
    | err k' => rw [he] at h; simp at h
    | panic => rw [he] at h; simp at h
    | hang => rw [he] at h; simp at h

theorem absWith_of_expand {env : Env} {cwd s e : Str} (hs : s ≠ []) (he : expand env s = .ok e) :
    absWith env cwd s = absCore cwd (trimProtocol e) := by
  rw [absWith_eq, if_neg hs, he]

/-! ### clean absolute directories: `bufOf true ns` with well-formed names -/

theorem wf_isBody {n : Str} (h : Wf n) : isBody n = true := isBody_eq_true h.1 h.2.2.1

theorem bufOf_true_ne_nil (ns : List Str) : bufOf true ns ≠ [] := by simp [bufOf]

theorem bufOf_true_eq_root_iff {ns : List Str} (h : ∀ n ∈ ns, Wf n) :
    bufOf true ns = ['/'] ↔ ns = [] := by
  constructor
  · intro he
    cases ns with
    | nil => rfl
    | cons a as =>
      exfalso
      obtain ⟨X, hX⟩ := joinWith_cons_eq_append '/' a as
      have ha := (h a (by simp)).1
      simp only [bufOf, if_true, hX, List.cons_append, List.nil_append, List.cons.injEq, true_and,
        List.append_eq_nil_iff] at he
      exact ha he.1
  · rintro rfl; rfl

theorem dir_bufOf_snoc {ns : List Str} {t : Str} (h : ∀ n ∈ ns ++ [t], Wf n) :
    dir (bufOf true (ns ++ [t])) = .ok (bufOf true ns) := by
  have hb : ∀ q ∈ ns ++ [t], BodyPiece q := fun q hq => (h q hq).bodyPiece
  have hsplit := splitSlash_bufOf (rooted := true) (ps := ns ++ [t]) (by simp) hb
  have hroot : isRooted (bufOf true (ns ++ [t])) = true := isRooted_abs _
  have := parentStr_of_split (s := bufOf true (ns ++ [t])) (p0 := []) (mid := ns) (top := t)
    (by simpa using hsplit) (fun x hx => wf_isBody (h x (by simp [hx]))) (wf_isBody (h t (by simp)))
  unfold dir
  rw [this, hroot]
  by_cases hns : ns = []
  · subst hns; simp [bufOf, joinWith]
  · simp [hns, bufOf, joinWith_cons_of_ne_nil '/' [] hns]

theorem bodyComps_stripSlashes (p : Str) : bodyComps (stripSlashes p) = bodyComps p := by
  induction p with
  | nil => rfl
  | cons c cs ih =>
    by_cases hc : c = '/'
    · subst hc
      have h1 : stripSlashes ('/' :: cs) = stripSlashes cs := by simp [stripSlashes]
      rw [h1, ih]
      unfold bodyComps splitSlash
      rw [splitOn_cons_sep]
      simp [bodyComp]
    · have h1 : stripSlashes (c :: cs) = c :: cs := by
        unfold stripSlashes
        split
        · next heq => simp only [List.cons.injEq] at heq; exact absurd heq.1 hc
        · rfl
      rw [h1]

theorem components_eq_bodyComps_of_head {p : Str} {c : Comp} (h : (components p).head? = some c)
    (h1 : c ≠ .root) (h2 : c ≠ .cur) : components p = bodyComps p := by
  unfold components at h ⊢
  unfold bodyComps
  split
  · next hr => rw [if_pos hr] at h; simp at h; exact absurd h.symm h1
  · next hr =>
    rw [if_neg hr] at h
    split
    · next hd => rw [if_pos hd] at h; simp at h; exact absurd h.symm h2
    · rfl

theorem mash_eq_render (d p : Str) (hd : d ≠ []) :
    mash d p = render (components d ++ bodyComps p) := by
  rw [← mash_canonical, mash_components]
  unfold mashComps
  rw [if_neg hd, bodyComps_stripSlashes]

/-- `mash` of a clean absolute directory and a path whose components are all normal names. -/
theorem mash_bufOf {ns qs : List Str} {p : Str} (hns : ∀ n ∈ ns, Wf n) (hqs : ∀ q ∈ qs, Wf q)
    (hp : bodyComps p = qs.map Comp.normal) :
    mash (bufOf true ns) p = bufOf true (ns ++ qs) := by
  rw [mash_eq_render _ _ (bufOf_true_ne_nil ns), hp, components_abs hns, List.cons_append,
    ← List.map_append]
  apply render_root_normals
  intro n hn
  rcases List.mem_append.1 hn with h | h
  · exact hns n h
  · exact hqs n h

/-- **The walk**: against a clean absolute directory with names `ns`, a path whose components are
    `m` parents followed by the normal names `qs` resolves to the directory `m` levels up extended
    by `qs`; it fails (ParentNotFound) exactly when `m` exceeds the depth. -/
theorem absLoop_bufOf {qs : List Str} (hqs : ∀ q ∈ qs, Wf q) :
    ∀ (m : Nat) (ns : List Str) (fuel : Nat) (p : Str), (∀ n ∈ ns, Wf n) →
      components p = List.replicate m Comp.parent ++ qs.map Comp.normal → m + 1 ≤ fuel →
      absLoop fuel (bufOf true ns) p =
        if ns.length < m then .err .parentNotFound
        else .ok (bufOf true (ns.take (ns.length - m) ++ qs)) := by
  intro m
  induction m with
  | zero =>
    intro ns fuel p hns hp hf
    obtain ⟨f, rfl⟩ : ∃ f, fuel = f + 1 := ⟨fuel - 1, by omega⟩
    simp only [List.replicate_zero, List.nil_append] at hp
    rw [if_neg (by omega), Nat.sub_zero, List.take_length]
    unfold absLoop
    cases qs with
    | nil =>
      rw [hp]; simp
    | cons q qs' =>
      have hh : (components p).head? = some (.normal q) := by rw [hp]; rfl
      rw [hh]
      simp only
      rw [mash_bufOf hns hqs]
      rw [← components_eq_bodyComps_of_head hh (by simp) (by simp), hp]
  | succ m ih =>
    intro ns fuel p hns hp hf
    obtain ⟨f, rfl⟩ : ∃ f, fuel = f + 1 := ⟨fuel - 1, by omega⟩
    have hh : (components p).head? = some .parent := by rw [hp]; rfl
    unfold absLoop
    rw [hh]
    simp only
    rcases eq_nil_or_snoc ns with rfl | ⟨ns', t, rfl⟩
    · rw [if_pos (by rfl), if_pos (by simp)]
    · rw [if_neg (by
        intro he
        have := (bufOf_true_eq_root_iff hns).1 he
        simp at this)]
      rw [dir_bufOf_snoc hns]
      simp only
      have hns' : ∀ n ∈ ns', Wf n := fun n hn => hns n (by simp [hn])
      rw [ih ns' f (trimFirst p) hns' (by rw [trimFirst_is_tail, hp]; rfl) (by omega)]
      have hlen : (ns' ++ [t]).length = ns'.length + 1 := by simp
      rw [hlen]
      by_cases hlt : ns'.length < m
      · rw [if_pos hlt, if_pos (by omega)]
      · rw [if_neg hlt, if_neg (by omega)]
        have e : ns'.length + 1 - (m + 1) = ns'.length - m := by omega
        rw [e, List.take_append_of_le_length (by omega)]

/-! ### Go's stack of a relative path, replayed on top of a directory -/

/-- the non-`..` elements of a (reversed) stack -/
def names : List Str → List Str
  | [] => []
  | a :: r => if a = dotdot then names r else a :: names r

/-- the number of `..` elements of a stack -/
def ups : List Str → Nat
  | [] => 0
  | a :: r => if a = dotdot then ups r + 1 else ups r

/-- `..` only at the bottom of a reversed stack -/
def DDBottom (stk : List Str) : Prop := stk.Pairwise (fun a b => a = dotdot → b = dotdot)

/-- the stack `stk` of a relative path replayed on the directory stack `st` -/
def onto (st stk : List Str) : List Str := names stk ++ st.drop (ups stk)

theorem names_ups_all_dd {l : List Str} (h : ∀ b ∈ l, b = dotdot) :
    names l = [] ∧ ups l = l.length := by
  induction l with
  | nil => exact ⟨rfl, rfl⟩
  | cons a r ih =>
    have ha : a = dotdot := h a (by simp)
    have := ih (fun b hb => h b (by simp [hb]))
    simp [names, ups, ha, this.1, this.2]

theorem ddBottom_cons_dd {below : List Str} (h : DDBottom (dotdot :: below)) :
    ∀ b ∈ below, b = dotdot := fun b hb => (List.pairwise_cons.1 h).1 b hb rfl

theorem ddBottom_tail {a : Str} {r : List Str} (h : DDBottom (a :: r)) : DDBottom r :=
  (List.pairwise_cons.1 h).2

theorem stack_decomp {stk : List Str} (h : DDBottom stk) :
    stk = names stk ++ List.replicate (ups stk) dotdot := by
  induction stk with
  | nil => rfl
  | cons a r ih =>
    by_cases ha : a = dotdot
    · subst ha
      have hall := ddBottom_cons_dd h
      have := names_ups_all_dd hall
      simp only [names, ups, if_true, this.1, this.2, List.nil_append]
      rw [List.replicate_succ]
      congr 1
      exact List.eq_replicate_iff.2 ⟨rfl, hall⟩
    · simp only [names, ups, if_neg ha, List.cons_append]
      congr 1
      exact ih (ddBottom_tail h)

theorem names_ne_dd (stk : List Str) : ∀ q ∈ names stk, q ≠ dotdot := by
  induction stk with
  | nil => simp [names]
  | cons a r ih =>
    by_cases ha : a = dotdot
    · simpa [names, ha] using ih
    · intro q hq
      simp only [names, if_neg ha, List.mem_cons] at hq
      rcases hq with rfl | hq
      · exact ha
      · exact ih q hq

theorem names_subset (stk : List Str) : ∀ q ∈ names stk, q ∈ stk := by
  induction stk with
  | nil => simp [names]
  | cons a r ih =>
    intro q hq
    by_cases ha : a = dotdot
    · simp only [names, if_pos ha] at hq
      exact List.mem_cons_of_mem _ (ih q hq)
    · simp only [names, if_neg ha, List.mem_cons] at hq
      rcases hq with rfl | hq
      · simp
      · exact List.mem_cons_of_mem _ (ih q hq)

theorem names_wf {stk : List Str} (h : ∀ q ∈ stk, BodyPiece q) : ∀ q ∈ names stk, Wf q := by
  intro q hq
  have hb := h q (names_subset stk q hq)
  exact ⟨hb.1, hb.2.2, hb.2.1, names_ne_dd stk q hq⟩

theorem dotdot_not_skip : ¬ (dotdot = [] ∨ dotdot = ['.']) := by decide

theorem goStep_true_dd {L : List Str} (h : ∀ q ∈ L, q ≠ dotdot) :
    goStep true L dotdot = L.drop 1 := by
  unfold goStep
  rw [if_neg dotdot_not_skip, if_pos rfl]
  cases L with
  | nil => rfl
  | cons top below => simp [h top (by simp)]

theorem goStep_onto {st : List Str} (hst : ∀ q ∈ st, q ≠ dotdot) {stk : List Str}
    (hok : DDBottom stk) (p : Str) :
    goStep true (onto st stk) p = onto st (goStep false stk p) := by
  by_cases hp0 : p = [] ∨ p = ['.']
  · simp [goStep, hp0]
  by_cases hdd : p = dotdot
  · subst hdd
    cases stk with
    | nil =>
      have h1 : goStep false [] dotdot = [dotdot] := by
        unfold goStep; rw [if_neg dotdot_not_skip, if_pos rfl]; rfl
      rw [h1]
      simp only [onto, names, ups, List.nil_append, List.drop_zero, if_true]
      exact goStep_true_dd hst
    | cons top below =>
      by_cases ht : top = dotdot
      · subst ht
        have hall := ddBottom_cons_dd hok
        have hnu := names_ups_all_dd hall
        have h1 : goStep false (dotdot :: below) dotdot = dotdot :: dotdot :: below := by
          unfold goStep; rw [if_neg dotdot_not_skip, if_pos rfl]; simp
        rw [h1]
        simp only [onto, names, ups, if_true, hnu.1, hnu.2, List.nil_append]
        rw [goStep_true_dd (fun q hq => hst q (List.mem_of_mem_drop hq)), List.drop_drop]
      · have h1 : goStep false (top :: below) dotdot = below := by
          unfold goStep; rw [if_neg dotdot_not_skip, if_pos rfl]; simp [ht]
        rw [h1]
        simp only [onto, names, ups, if_neg ht, List.cons_append]
        unfold goStep
        rw [if_neg dotdot_not_skip, if_pos rfl]
        simp [ht]
  · have h1 : ∀ r L, goStep r L p = p :: L := by
      intro r L; unfold goStep; rw [if_neg hp0, if_neg hdd]
    rw [h1, h1]
    simp [onto, names, ups, hdd]

theorem goStep_ddBottom {stk : List Str} (h : DDBottom stk) (p : Str) :
    DDBottom (goStep false stk p) :=
  (goStep_stackOK (rooted := false) p ⟨by simp, h⟩).2

theorem foldl_onto {st : List Str} (hst : ∀ q ∈ st, q ≠ dotdot) (pieces : List Str) :
    ∀ stk : List Str, DDBottom stk →
      pieces.foldl (goStep true) (onto st stk) = onto st (pieces.foldl (goStep false) stk) := by
  induction pieces with
  | nil => intro stk _; rfl
  | cons p ps ih =>
    intro stk hok
    rw [List.foldl_cons, List.foldl_cons, goStep_onto hst hok, ih _ (goStep_ddBottom hok p)]

/-! ### the lexical join -/

theorem goStack_ddBottom_rel {x : Str} (_hx : isRooted x = false) : DDBottom (goStack x) := by
  have := (goStack_stackOK x).2
  exact this

theorem wf_ne_dd {ns : List Str} (h : ∀ n ∈ ns, Wf n) : ∀ q ∈ ns.reverse, q ≠ dotdot := by
  intro q hq
  exact (h q (List.mem_reverse.1 hq)).2.2.2

theorem splitOn_push_bufOf {ns : List Str} (hns : ∀ n ∈ ns, Wf n) {x : Str}
    (hx : isRooted x = false) :
    isRooted (push (bufOf true ns) x) = true ∧
      splitOn '/' (push (bufOf true ns) x) = ([] :: ns) ++ splitOn '/' x := by
  have hb : ∀ q ∈ ns, BodyPiece q := fun q hq => (hns q hq).bodyPiece
  unfold push
  rw [hx]
  simp only [Bool.false_eq_true, if_false]
  rcases eq_nil_or_snoc ns with rfl | ⟨mid, t, rfl⟩
  · have h1 : bufOf true [] = ['/'] := rfl
    rw [h1, if_neg (by simp [endsWithSlash])]
    refine ⟨by simp [isRooted_cons], ?_⟩
    simp [splitOn_cons_sep]
  · rw [if_pos ⟨bufOf_true_ne_nil _, endsWithSlash_bufOf_snoc (hb t (by simp))⟩]
    refine ⟨by rw [isRooted_append (bufOf_true_ne_nil _)]; exact isRooted_abs _, ?_⟩
    rw [splitOn_append_cons_sep]
    have := splitSlash_bufOf (rooted := true) (ps := mid ++ [t]) (by simp) hb
    unfold splitSlash at this
    rw [this]
    simp

/-- Go-cleaning the join of a clean absolute directory and a relative path: replay the stack
    of the relative path on the directory. -/
theorem goClean_push_rel {ns : List Str} (hns : ∀ n ∈ ns, Wf n) {x : Str}
    (hx : isRooted x = false) :
    goClean (push (bufOf true ns) x) = bufOf true (onto ns.reverse (goStack x)).reverse := by
  obtain ⟨hr, hsp⟩ := splitOn_push_bufOf hns hx
  have hstack : goStack (push (bufOf true ns) x) = onto ns.reverse (goStack x) := by
    unfold goStack
    rw [hr, hsp, hx, List.foldl_append, List.foldl_cons]
    have h0 : goStep true [] [] = [] := by simp [goStep]
    rw [h0, foldl_goStep_wf true hns []]
    have h1 : ns.reverse ++ [] = onto ns.reverse [] := by simp [onto, names, ups]
    rw [h1, foldl_onto (wf_ne_dd hns) _ [] List.Pairwise.nil]
  rw [goClean_eq, hstack, hr, if_neg (bufOf_true_ne_nil _)]

theorem onto_reverse (ns stk : List Str) :
    (onto ns.reverse stk).reverse = ns.take (ns.length - ups stk) ++ (names stk).reverse := by
  unfold onto
  rw [List.reverse_append, List.reverse_drop, List.reverse_reverse, List.length_reverse]

theorem bodyComp_dotdot : bodyComp dotdot = some Comp.parent := by decide

theorem filterMap_replicate_dd (m : Nat) :
    (List.replicate m dotdot).filterMap bodyComp = List.replicate m Comp.parent := by
  induction m with
  | zero => rfl
  | succ m ih => rw [List.replicate_succ, List.filterMap_cons_some bodyComp_dotdot, ih]; rfl

/-- components of a cleaned relative path, from its stack -/
theorem components_bufOf_rel {stk : List Str} (hne : stk ≠ []) (hb : ∀ q ∈ stk, BodyPiece q)
    (hok : DDBottom stk) :
    components (bufOf false stk.reverse) =
      List.replicate (ups stk) Comp.parent ++ (names stk).reverse.map Comp.normal := by
  have hb' : ∀ q ∈ stk.reverse, BodyPiece q := fun q hq => hb q (List.mem_reverse.1 hq)
  have hne' : stk.reverse ≠ [] := by simpa using hne
  have hsp := splitSlash_bufOf (rooted := false) hne' hb'
  have hr := isRooted_bufOf (rooted := false) hb'
  simp only [Bool.false_eq_true, if_false, List.nil_append] at hsp
  unfold components
  rw [hr, hsp]
  simp only [Bool.false_eq_true, if_false]
  have hhead : ¬ stk.reverse.head? = some ['.'] := by
    intro hh
    have : ['.'] ∈ stk.reverse := List.mem_of_head? hh
    exact (hb' _ this).2.1 rfl
  rw [if_neg hhead, List.nil_append]
  have hd := stack_decomp hok
  have hrev : stk.reverse = List.replicate (ups stk) dotdot ++ (names stk).reverse := by
    conv => lhs; rw [hd]
    rw [List.reverse_append, List.reverse_replicate]
  rw [hrev, List.filterMap_append, filterMap_replicate_dd,
    filterMap_bodyComp_wf (fun n hn => names_wf hb n (List.mem_reverse.1 hn))]

theorem absLoop_dot (cwd : Str) : absLoop 2 cwd ['.'] = .ok cwd := by
  have h1 : (components ['.']).head? = some Comp.cur := by decide
  have h2 : (components (trimFirst ['.'])).head? = none := by decide
  unfold absLoop
  rw [h1]
  simp only
  unfold absLoop
  rw [h2]

/-- **`abs` on a relative argument** against a clean absolute directory: the lexical join, unless
    the cleaned argument starts with more `..` than the directory is deep. -/
theorem absCore_rel {ns : List Str} (hns : ∀ n ∈ ns, Wf n) {x : Str} (hx : isRooted x = false) :
    absCore (bufOf true ns) x =
      if ns.length < ups (goStack x) then .err .parentNotFound
      else .ok (goClean (push (bufOf true ns) x)) := by
  have hb := goStack_bodyPiece x
  have hok := goStack_ddBottom_rel hx
  have hnr : ¬ isRooted (goClean x) = true := by rw [goClean_rooted, hx]; simp
  rw [goClean_push_rel hns hx, onto_reverse]
  unfold absCore
  rw [if_neg hnr, goClean_eq, hx]
  cases hst : goStack x with
  | nil =>
    have h0 : bufOf false ([] : List Str).reverse = [] := rfl
    rw [if_pos h0]
    have hc : (components ['.']).length + 1 = 2 := by decide
    rw [hc, absLoop_dot]
    simp [ups, names]
  | cons top below =>
    rw [hst] at hb hok
    have hne : bufOf false (top :: below).reverse ≠ [] := by
      rw [List.reverse_cons]; exact bufOf_snoc_ne_nil (hb top (by simp)).1
    rw [if_neg hne]
    have hcomp := components_bufOf_rel (stk := top :: below) (by simp) hb hok
    have hqs : ∀ q ∈ (names (top :: below)).reverse, Wf q :=
      fun n hn => names_wf hb n (List.mem_reverse.1 hn)
    exact absLoop_bufOf hqs (ups (top :: below)) ns _ _ hns hcomp (by rw [hcomp]; simp)

theorem absCore_abs (cwd : Str) {x : Str} (hx : isRooted x = true) :
    absCore cwd x = .ok (goClean (push cwd x)) := by
  unfold absCore
  rw [if_pos (by rw [goClean_rooted, hx])]
  unfold push
  rw [if_pos hx]

/-! ### statements over clean absolute strings -/

/-- A clean absolute path is `/` followed by `/`-joined well-formed names. -/
theorem rooted_normalForm {t : Str} (hr : isRooted t = true) (hn : NormalForm t) :
    ∃ ns, (∀ n ∈ ns, Wf n) ∧ t = bufOf true ns := by
  rcases hn with rfl | rfl | ⟨h1, h2, _⟩
  · exact absurd hr (by decide)
  · exact ⟨[], by simp, rfl⟩
  · refine ⟨bodyPieces t, ?_, ?_⟩
    · intro n hn
      have hmem : n ∈ splitOn '/' t := by
        unfold bodyPieces at hn
        rw [if_pos hr] at hn
        exact List.mem_of_mem_drop hn
      exact ⟨(h1 n hn).1, not_mem_of_mem_splitOn '/' t n hmem, (h1 n hn).2, h2 hr n hn⟩
    · have := bufOf_bodyPieces t
      rw [hr] at this
      exact this.symm

theorem normalForm_of_wf {ns : List Str} (h : ∀ n ∈ ns, Wf n) :
    isRooted (bufOf true ns) = true ∧ NormalForm (bufOf true ns) :=
  ⟨isRooted_abs ns, normalForm_abs h⟩

/-- number of names of an absolute path (its depth below the root) -/
def depth (cwd : Str) : Nat := ((splitOn '/' cwd).filter (· ≠ [])).length

/-- length of the leading run of `..` pieces -/
def upCount (c : Str) : Nat := ((splitOn '/' c).takeWhile (· = dotdot)).length

theorem depth_bufOf {ns : List Str} (h : ∀ n ∈ ns, Wf n) : depth (bufOf true ns) = ns.length := by
  unfold depth
  cases ns with
  | nil => decide
  | cons a as =>
    have hb : ∀ q ∈ a :: as, BodyPiece q := fun q hq => (h q hq).bodyPiece
    have := splitSlash_bufOf (rooted := true) (ps := a :: as) (by simp) hb
    unfold splitSlash at this
    rw [this]
    simp only [if_true, List.cons_append, List.nil_append]
    rw [List.filter_cons_of_neg (by simp)]
    rw [List.filter_eq_self.2]
    intro q hq
    simpa using (h q hq).1

theorem takeWhile_dd_names (m : Nat) {qs : List Str} (h : ∀ q ∈ qs, q ≠ dotdot) :
    ((List.replicate m dotdot ++ qs).takeWhile (· = dotdot)).length = m := by
  rw [List.takeWhile_append_of_pos (by
    intro a ha
    simp [(List.mem_replicate.1 ha).2])]
  cases qs with
  | nil => simp
  | cons q qs' =>
    have : q ≠ dotdot := h q (by simp)
    simp [this]

theorem upCount_goClean_rel {x : Str} (hx : isRooted x = false) :
    upCount (goClean x) = ups (goStack x) := by
  have hb := goStack_bodyPiece x
  have hok := goStack_ddBottom_rel hx
  rw [goClean_eq, hx]
  unfold upCount
  cases hst : goStack x with
  | nil =>
    have h0 : bufOf false ([] : List Str).reverse = [] := rfl
    rw [if_pos h0]
    decide
  | cons top below =>
    rw [hst] at hb hok
    have hne : bufOf false (top :: below).reverse ≠ [] := by
      rw [List.reverse_cons]; exact bufOf_snoc_ne_nil (hb top (by simp)).1
    rw [if_neg hne]
    have hb' : ∀ q ∈ (top :: below).reverse, BodyPiece q := fun q hq => hb q (List.mem_reverse.1 hq)
    have hsp := splitSlash_bufOf (rooted := false) (ps := (top :: below).reverse) (by simp) hb'
    unfold splitSlash at hsp
    rw [hsp]
    simp only [Bool.false_eq_true, if_false, List.nil_append]
    have hd := stack_decomp hok
    have hrev : (top :: below).reverse =
        List.replicate (ups (top :: below)) dotdot ++ (names (top :: below)).reverse := by
      conv => lhs; rw [hd]
      rw [List.reverse_append, List.reverse_replicate]
    rw [hrev]
    exact takeWhile_dd_names _ (fun q hq => names_ne_dd _ q (List.mem_reverse.1 hq))

/-- **`abs` after expansion, against a clean absolute `cwd`** -/
theorem absCore_eq {cwd : Str} (hr : isRooted cwd = true) (hn : NormalForm cwd) (x : Str) :
    absCore cwd x =
      if isRooted x = false ∧ depth cwd < upCount (goClean x) then .err .parentNotFound
      else .ok (goClean (push cwd x)) := by
  obtain ⟨ns, hns, rfl⟩ := rooted_normalForm hr hn
  cases hx : isRooted x with
  | true => rw [absCore_abs _ hx, if_neg (by simp)]
  | false =>
    rw [absCore_rel hns hx, depth_bufOf hns, upCount_goClean_rel hx]
    simp

theorem isRooted_push {cwd : Str} (hr : isRooted cwd = true) (x : Str) :
    isRooted (push cwd x) = true := by
  have hne : cwd ≠ [] := by rintro rfl; simp [isRooted] at hr
  unfold push
  split
  · assumption
  · split
    · rw [isRooted_append hne]; exact hr
    · rw [isRooted_append hne]; exact hr

/-! ### idempotence on results without `~` / `$` -/

/-- neither `~` nor `$` occurs -/
def NoSpecial (p : Str) : Prop := '~' ∉ p ∧ '$' ∉ p

instance (p : Str) : Decidable (NoSpecial p) := by unfold NoSpecial; infer_instance

theorem expand_noSpecial (env : Env) {p : Str} (h : NoSpecial p) : expand env p = .ok p := by
  have hc : p.count '~' = 0 := List.count_eq_zero.2 h.1
  have hany : p.any (· == '$') = false := by
    rw [List.any_eq_false]
    intro c hc hd
    have : c = '$' := by simpa using hd
    exact h.2 (this ▸ hc)
  have h1 : expandStage1 env p = .ok p := by
    unfold expandStage1
    simp [hc]
  rw [expand_eq, h1]
  simp only [hany]
  rfl

theorem findIdx_some_split {s : Str} {i : Nat} (h : findIdx s SS = some i) :
    ∃ a b, s = a ++ '/' :: '/' :: b := by
  induction s generalizing i with
  | nil => cases h
  | cons c cs ih =>
    rw [findIdx_cons_SS] at h
    split at h
    · next hp =>
      obtain ⟨r, hr⟩ := List.isPrefixOf_iff_prefix.1 hp
      exact ⟨[], r, by rw [← hr]; rfl⟩
    · cases hf : findIdx cs SS with
      | none => rw [hf] at h; cases h
      | some j =>
        obtain ⟨a, b, hab⟩ := ih hf
        exact ⟨c :: a, b, by rw [hab]; rfl⟩

theorem nil_mem_bodyPieces_of_dslash (a b : Str) : [] ∈ bodyPieces (a ++ '/' :: '/' :: b) := by
  have hsp : splitOn '/' (a ++ '/' :: '/' :: b) = splitOn '/' a ++ [] :: splitOn '/' b := by
    rw [splitOn_append_cons_sep, splitOn_cons_sep]
  unfold bodyPieces
  rw [hsp]
  split
  · cases hs : splitOn '/' a with
    | nil => exact absurd hs (splitOn_ne_nil '/' a)
    | cons h tl => simp
  · simp

/-- a normal form has no `//` -/
theorem normalForm_findIdx_none {t : Str} (h : NormalForm t) : findIdx t SS = none := by
  rcases h with rfl | rfl | ⟨h1, _, _⟩
  · decide
  · decide
  · cases hf : findIdx t SS with
    | none => rfl
    | some i =>
      exfalso
      obtain ⟨a, b, rfl⟩ := findIdx_some_split hf
      exact (h1 [] (nil_mem_bodyPieces_of_dslash a b)).1 rfl

theorem trimProtocol_normalForm {t : Str} (h : NormalForm t) : trimProtocol t = t := by
  rw [trimProtocol_unfold, normalForm_findIdx_none h]

/-- `abs` fixes every clean absolute path without `~` / `$` (any `cwd`). -/
theorem absWith_fixed (env : Env) (cwd : Str) {p : Str} (hr : isRooted p = true)
    (hn : NormalForm p) (hs : NoSpecial p) : absWith env cwd p = .ok p := by
  have hne : p ≠ [] := by rintro rfl; simp [isRooted] at hr
  rw [absWith_of_expand hne (expand_noSpecial env hs), trimProtocol_normalForm hn]
  unfold absCore
  rw [goClean_of_normalForm hn, if_pos hr]

/-! ### summary statements for a clean absolute `cwd` -/

/-- the `..` run of the cleaned relative argument `x` climbs above the root from `cwd` -/
def ClimbsAboveRoot (cwd x : Str) : Prop :=
  isRooted x = false ∧ depth cwd < upCount (goClean x)

instance (cwd x : Str) : Decidable (ClimbsAboveRoot cwd x) := by
  unfold ClimbsAboveRoot; infer_instance

theorem absCore_eq' {cwd : Str} (hr : isRooted cwd = true) (hn : NormalForm cwd) (x : Str) :
    absCore cwd x =
      if ClimbsAboveRoot cwd x then .err .parentNotFound else .ok (goClean (push cwd x)) :=
  absCore_eq hr hn x

theorem absWith_ok_join {env : Env} {cwd s p : Str} (hr : isRooted cwd = true)
    (hn : NormalForm cwd) (h : absWith env cwd s = .ok p) :
    ∃ e, expand env s = .ok e ∧ ¬ ClimbsAboveRoot cwd (trimProtocol e) ∧
      p = goClean (push cwd (trimProtocol e)) := by
  obtain ⟨_, e, he, hc⟩ := absWith_ok_cases h
  rw [absCore_eq' hr hn] at hc
  split at hc
  · cases hc
  · next hnc => exact ⟨e, he, hnc, by simpa using hc.symm⟩

theorem absWith_shape {env : Env} {cwd s p : Str} (hr : isRooted cwd = true)
    (hn : NormalForm cwd) (h : absWith env cwd s = .ok p) : isRooted p = true ∧ NormalForm p := by
  obtain ⟨e, _, _, rfl⟩ := absWith_ok_join hr hn h
  exact ⟨by rw [goClean_rooted]; exact isRooted_push hr _, goClean_normalForm _⟩

theorem absWith_parentNotFound_iff {env : Env} {cwd s : Str} (hr : isRooted cwd = true)
    (hn : NormalForm cwd) :
    absWith env cwd s = .err .parentNotFound ↔
      s ≠ [] ∧ ∃ e, expand env s = .ok e ∧ ClimbsAboveRoot cwd (trimProtocol e) := by
  constructor
  · intro h
    rcases absWith_err_cases h with ⟨_, hk⟩ | hk | ⟨_, hs, e, he, hc⟩
    · cases hk
    · exact absurd hk (expand_ne_parentNotFound env s)
    · refine ⟨hs, e, he, ?_⟩
      rw [absCore_eq' hr hn] at hc
      split at hc
      · assumption
      · cases hc
  · rintro ⟨hs, e, he, hc⟩
    rw [absWith_of_expand hs he, absCore_eq' hr hn, if_pos hc]

theorem absWith_idem {env : Env} {cwd raw a : Str} (hr : isRooted cwd = true)
    (hn : NormalForm cwd) (h : absWith env cwd raw = .ok a) (hs : NoSpecial a) :
    absWith env cwd a = .ok a :=
  absWith_fixed env cwd (absWith_shape hr hn h).1 (absWith_shape hr hn h).2 hs

/-! ### the finding: a home directory containing `~` -/

/-- the smallest environment with such a home directory -/
def envTildeHome : Env := fun k => if k = "HOME".toList then some "/h~x".toList else none

theorem expand_tilde_envTildeHome : expand envTildeHome ['~'] = .ok "/h~x".toList := by decide

theorem expand_home_envTildeHome :
    expand envTildeHome "/h~x".toList = .err .invalidExpansion := by decide

theorem abs_tilde_envTildeHome (cwd : Str) :
    absWith envTildeHome cwd ['~'] = .ok "/h~x".toList := by
  have hn : NormalForm "/h~x".toList := by decide
  rw [absWith_of_expand (by simp) expand_tilde_envTildeHome, trimProtocol_normalForm hn]
  unfold absCore
  rw [goClean_of_normalForm hn, if_pos (by decide)]

theorem abs_home_envTildeHome (cwd : Str) :
    absWith envTildeHome cwd "/h~x".toList = .err .invalidExpansion := by
  rw [absWith_eq, if_neg (by decide), expand_home_envTildeHome]


end Rivia.Lemmas
