/-
  Rivia.Lemmas.StdfsWfStepOps — every operation of the Stdfs model keeps the tree well-formed.
-/
import Rivia.Lemmas.StdfsWfStepMove

namespace Rivia.Lemmas.StdfsWf
open Rivia Rivia.Memfs Rivia.File Rivia.Spec Rivia.Spec.TreeFs Rivia.Posix Rivia.Stdfs
open Rivia.Lemmas.StdfsL
open Rivia.Stdfs.SM

theorem pres_createFileMap (k : FsPath) : Pres (sysM fun t => (createFile t k).map (·.2)) :=
  pres_sysM fun t t' h e => by
    cases hc : createFile t k with
    | error er => rw [hc] at e; cases e
    | ok x =>
      obtain ⟨fk, t1⟩ := x
      rw [hc] at e
      have : t1 = t' := by simpa [Except.map] using e
      subst this
      exact wf_createFile h hc

/-- structural part of a preservation proof: monad plumbing and case splits -/
macro "pres_auto" : tactic => `(tactic| repeat' (first
  | with_reducible exact pres_pure _ | with_reducible exact pres_pure' _ | with_reducible exact pres_fail _
  | with_reducible exact pres_getT | with_reducible exact pres_liftO _
  | with_reducible exact pres_qry _ | with_reducible exact pres_absM _ _ | with_reducible exact pres_dirOf _
  | with_reducible exact pres_sysM (fun _ _ h e => wf_mkdir h e)
  | with_reducible exact pres_sysM (fun _ _ h e => wf_chmod h e)
  | with_reducible exact pres_sysM (fun _ _ h e => wf_chown h e)
  | with_reducible exact pres_sysM (fun _ _ h e => wf_unlink h e)
  | with_reducible exact pres_sysM (fun _ _ h e => wf_rmdir h e)
  | with_reducible exact pres_sysM (fun _ _ h e => wf_removeDirAll h e)
  | with_reducible exact pres_sysM (fun _ _ h e => wf_symlinkat h e)
  | with_reducible exact pres_sysM (fun _ _ h e => wf_chdir h e)
  | with_reducible exact pres_sysM (fun _ _ h e => wf_rename h e)
  | with_reducible exact pres_sysM (fun _ _ h e => wf_copyFile h e)
  | with_reducible exact pres_sysM (fun _ _ h e => wf_createDirAll _ _ _ _ h e)
  | with_reducible exact pres_createFileMap _
  | with_reducible refine pres_forM (fun _ => ?_) _
  | with_reducible refine pres_bind ?_ (fun _ => ?_) | with_reducible apply pres_mapVal
  | split
  | dsimp only))


/-! ### creators, content, remove, links, cwd, move -/

theorem pres_mkfile (env : Env) (p : Str) : Pres (Stdfs.mkfile env p) := by
  unfold Stdfs.mkfile
  pres_auto

theorem pres_mkfileM (env : Env) (p : Str) (m : Nat) : Pres (Stdfs.mkfileM env p m) := by
  unfold Stdfs.mkfileM
  refine pres_bind (pres_mkfile env p) fun k => ?_
  pres_auto

theorem pres_mkdirM (env : Env) (p : Str) (m : Nat) : Pres (Stdfs.mkdirM env p m) := by
  unfold Stdfs.mkdirM
  pres_auto

theorem pres_mkdirP (env : Env) (p : Str) : Pres (Stdfs.mkdirP env p) := by
  unfold Stdfs.mkdirP
  pres_auto

theorem pres_createWrite (k : FsPath) (data : Bytes) :
    Pres (fun t => match createFile t k with
      | .ok (fk, t1) => ((.ok () : Outcome Unit), writeFd t1 fk data)
      | .error e => (.err (ioErr e), t)) := by
  intro t hw
  dsimp only
  split
  · rename_i fk t1 hc; exact wf_of_facts (wf_writeFd (wf_createFile (wf_facts hw) hc) _ _)
  · exact hw

theorem pres_writeAll (env : Env) (p : Str) (d : Bytes) : Pres (Stdfs.writeAll env p d) := by
  unfold Stdfs.writeAll
  pres_auto
  all_goals exact pres_createWrite _ _

theorem pres_appendWrite (k : FsPath) (data : Bytes) :
    Pres (fun t => match openAppend t k with
      | .ok fk => ((.ok () : Outcome Unit), writeFd t fk data)
      | .error e => (.err (ioErr e), t)) := by
  intro t hw
  dsimp only
  split
  · exact wf_of_facts (wf_writeFd (wf_facts hw) _ _)
  · exact hw

theorem pres_appendAll (env : Env) (p : Str) (d : Bytes) : Pres (Stdfs.appendAll env p d) := by
  unfold Stdfs.appendAll
  refine pres_bind (pres_mkfile env p) fun _ => ?_
  pres_auto
  all_goals exact pres_appendWrite _ _

theorem pres_writeLines (env : Env) (p : Str) (ls : List Str) : Pres (Stdfs.writeLines env p ls) := by
  unfold Stdfs.writeLines
  split
  · exact pres_writeAll _ _ _
  · exact pres_pure' _

theorem pres_appendLines (env : Env) (p : Str) (ls : List Str) : Pres (Stdfs.appendLines env p ls) := by
  unfold Stdfs.appendLines
  split
  · exact pres_appendAll _ _ _
  · exact pres_pure' _

theorem pres_appendLine (env : Env) (p : Str) (l : Str) : Pres (Stdfs.appendLine env p l) := by
  unfold Stdfs.appendLine
  split
  · exact pres_pure' _
  · exact pres_appendAll _ _ _

theorem pres_readAll (env : Env) (p : Str) : Pres (Stdfs.readAll env p) := by
  unfold Stdfs.readAll
  pres_auto

theorem pres_read (env : Env) (p : Str) : Pres (Stdfs.read env p) := by
  unfold Stdfs.read
  pres_auto

theorem pres_readLines (env : Env) (p : Str) : Pres (Stdfs.readLines env p) := by
  unfold Stdfs.readLines
  refine pres_bind (pres_read env p) fun _ => ?_
  pres_auto

theorem pres_rmdirS (k : FsPath) :
    Pres (fun t => match rmdir t k with
      | .ok t' => ((.ok () : Outcome Unit), t')
      | .error .ENOTEMPTY => (.err .dirContainsFiles, t)
      | .error e => (.err (ioErr e), t)) := by
  intro t hw
  dsimp only
  split
  · rename_i t' hc; exact wf_of_facts (wf_rmdir (wf_facts hw) hc)
  · exact hw
  · exact hw

theorem pres_remove (env : Env) (p : Str) : Pres (Stdfs.remove env p) := by
  unfold Stdfs.remove
  pres_auto
  all_goals exact pres_rmdirS _

theorem pres_removeAll (env : Env) (p : Str) : Pres (Stdfs.removeAll env p) := by
  unfold Stdfs.removeAll
  pres_auto

theorem pres_symlink (env : Env) (l tg : Str) : Pres (Stdfs.symlink env l tg) := by
  unfold Stdfs.symlink
  pres_auto

theorem pres_readlinkS (env : Env) (p : Str) : Pres (Stdfs.readlinkS env p) := by
  unfold Stdfs.readlinkS
  pres_auto

theorem pres_readlinkAbs (env : Env) (p : Str) : Pres (Stdfs.readlinkAbs env p) := by
  refine pres_same fun t => ?_
  unfold Stdfs.readlinkAbs
  split <;> rfl

theorem pres_setCwd (env : Env) (p : Str) : Pres (Stdfs.setCwd env p) := by
  unfold Stdfs.setCwd
  pres_auto

theorem pres_moveP (env : Env) (a b : Str) : Pres (Stdfs.moveP env a b) := by
  unfold Stdfs.moveP
  pres_auto

/-! ### listings -/

theorem pres_listing1 (env : Env) (p : Str) (w : SEntry → Bool) : Pres (Stdfs.listing1 env p w) := by
  refine pres_same fun t => ?_
  unfold Stdfs.listing1
  split
  · rfl
  · split <;> rfl

theorem pres_listingAll (env : Env) (p : Str) (w : SEntry → Bool) : Pres (Stdfs.listingAll env p w) := by
  refine pres_same fun t => ?_
  unfold Stdfs.listingAll
  split
  · split
    · rfl
    · split <;> rfl
  · rfl
  · rfl
  · rfl

end Rivia.Lemmas.StdfsWf
