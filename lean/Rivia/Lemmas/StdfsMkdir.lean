/-
  Rivia.Lemmas.StdfsMkdir — C02 §4 (continued): `mkdir_p` (`fs::create_dir_all`) against the reference
  `mkdir` (every prefix top-down).
-/
import Rivia.Lemmas.StdfsMut

namespace Rivia.Lemmas.StdfsL
open Rivia Rivia.Memfs Rivia.File Rivia.Spec Rivia.Spec.TreeFs Rivia.Posix Rivia.Stdfs
open Rivia.Lemmas.RefineA (TEquiv ResMatch get_put alLookup_alInsert mem_of_alLookup)
open Rivia.Stdfs.SM

variable {env : Env} {t : T}

/-! ### prefixes -/

theorem mem_prefixes {q k : FsPath} : q ∈ prefixes k ↔ ∃ i, i ≤ k.length ∧ q = k.take i := by
  unfold prefixes
  simp only [List.mem_map, List.mem_range]
  constructor
  · rintro ⟨i, hi, rfl⟩; exact ⟨i, by omega, rfl⟩
  · rintro ⟨i, hi, rfl⟩; exact ⟨i, by omega, rfl⟩

theorem self_mem_prefixes (k : FsPath) : k ∈ prefixes k :=
  mem_prefixes.2 ⟨k.length, Nat.le_refl _, by simp⟩

theorem prefixes_snoc (d : FsPath) (x : Str) : prefixes (d ++ [x]) = prefixes d ++ [d ++ [x]] := by
  unfold prefixes
  simp only [List.length_append, List.length_cons, List.length_nil, Nat.zero_add]
  rw [List.range_succ, List.map_append]
  congr 1
  · apply List.map_congr_left
    intro n hn
    rw [List.mem_range] at hn
    rw [List.take_append_of_le_length (by omega)]
  · simp only [List.map_cons, List.map_nil]
    rw [List.take_of_length_le (by simp)]

theorem prefixes_dropLast {k : FsPath} (hne : k ≠ []) : prefixes k = prefixes k.dropLast ++ [k] := by
  have := List.dropLast_concat_getLast hne
  conv => lhs; rw [← this]
  rw [prefixes_snoc, this]

theorem mem_prefixes_dropLast {q k : FsPath} (h : q ∈ prefixes k.dropLast) : q ∈ prefixes k := by
  by_cases hne : k = []
  · subst hne; simpa using h
  · rw [prefixes_dropLast hne]; exact List.mem_append_left _ h

theorem not_mem_prefixes_dropLast {k : FsPath} (hne : k ≠ []) : k ∉ prefixes k.dropLast := by
  intro h
  obtain ⟨i, hi, he⟩ := mem_prefixes.1 h
  have := congrArg List.length he
  have hl : 0 < k.length := List.length_pos_iff.mpr hne
  simp only [List.length_take, List.length_dropLast] at this hi
  omega

/-! ### mkdirLoop -/

theorem mkdirLoop_append (perm : Nat) (l1 l2 : List FsPath) (t : T) :
    mkdirLoop perm (l1 ++ l2) t =
      match mkdirLoop perm l1 t with
      | (none, t1) => mkdirLoop perm l2 t1
      | (some e, t1) => (some e, t1) := by
  induction l1 generalizing t with
  | nil => simp [mkdirLoop]
  | cons q qs ih =>
    simp only [List.cons_append, mkdirLoop]
    cases hg : get t q with
    | none => simp only [ih]
    | some n =>
      by_cases hk : n.kind = .dir
      · simp only [hk, if_true, ih]
      · simp only [hk, if_false]

theorem mkdirLoop_all_dirs (perm : Nat) (qs : List FsPath) (t : T) (h : ∀ q ∈ qs, isDir t q = true) :
    mkdirLoop perm qs t = (none, t) := by
  induction qs with
  | nil => rfl
  | cons q qs ih =>
    obtain ⟨n, hn, hk⟩ := isDir_iff.1 (h q List.mem_cons_self)
    simp only [mkdirLoop, hn, hk, if_true]
    exact ih (fun q' hq' => h q' (List.mem_cons_of_mem _ hq'))

theorem prefixes_dirs {t : T} (h : WfFacts t) {d : FsPath} (hd : isDir t d = true) :
    ∀ q ∈ prefixes d, isDir t q = true := by
  intro q hq
  obtain ⟨i, _, rfl⟩ := mem_prefixes.1 hq
  exact wf_take_dir h _ d rfl hd i

/-! ### the walk, precisely -/

theorem walkFrom_append (t : T) (r1 r2 : List Str) (cur : FsPath) :
    walkFrom t cur (r1 ++ r2) =
      match walkFrom t cur r1 with
      | some e => some e
      | none => walkFrom t (cur ++ r1) r2 := by
  induction r1 generalizing cur with
  | nil => simp [walkFrom]
  | cons n r ih =>
    simp only [List.cons_append, walkFrom]
    cases get t cur with
    | none => rfl
    | some nd =>
      by_cases hk : nd.kind = .dir
      · simp only [hk, if_true, ih]; simp
      · simp only [hk, if_false]

/-- the walk to `k` = the walk to its parent, then one look at the parent -/
theorem walkErr_step (t : T) {k : FsPath} (hne : k ≠ []) :
    walkErr t k =
      match walkErr t k.dropLast with
      | some e => some e
      | none => match get t k.dropLast with
        | none => some .ENOENT
        | some nd => if nd.kind = .dir then none else some .ENOTDIR := by
  unfold walkErr
  conv => lhs; rw [← List.dropLast_concat_getLast hne]
  rw [walkFrom_append]
  simp only [List.nil_append, walkFrom]
  cases walkFrom t [] k.dropLast with
  | some e => rfl
  | none =>
    simp only
    cases get t k.dropLast with
    | none => rfl
    | some nd => by_cases hk : nd.kind = .dir <;> simp [hk]

/-! ### create_dir_all -/

/-- no existing prefix of `k` is anything but a directory -/
def NoBad (t : T) (k : FsPath) : Prop := ∀ q ∈ prefixes k, ∀ n, get t q = some n → n.kind = .dir

theorem noBad_dropLast {t : T} {k : FsPath} (h : NoBad t k) : NoBad t k.dropLast :=
  fun q hq n hn => h q (mem_prefixes_dropLast hq) n hn

theorem applyUmask_777 : applyUmask 0o777 = 0o755 := by decide

/-- what a successful `create_dir_all` leaves behind -/
structure MkRes (t : T) (k : FsPath) (t' : T) : Prop where
  wf : WfFacts t'
  dir : isDir t' k = true
  frame : ∀ q, get t q = none → q ∉ prefixes k → get t' q = none
  cwd : t'.cwd = t.cwd

theorem alInsert_keys_new {β} {k : FsPath} (v : β) {l : List (FsPath × β)} (hk : k ∉ l.map (·.1)) :
    (alInsert k v l).map (·.1) = l.map (·.1) ++ [k] := by
  induction l with
  | nil => simp [alInsert]
  | cons kv r ih =>
    obtain ⟨k0, v0⟩ := kv
    simp only [List.map_cons, List.mem_cons, not_or] at hk
    have h0 : k0 ≠ k := fun e => hk.1 e.symm
    simp only [alInsert, h0, if_false, List.map_cons, ih hk.2, List.cons_append]

theorem wf_put_new {t : T} (h : WfFacts t) {k : FsPath} (x : Node) (hg : get t k = none)
    (hd : k ≠ [] → isDir t k.dropLast = true) : WfFacts (put t k x) := by
  refine ⟨?_, ?_, ?_⟩
  · -- keys stay distinct
    have hk : k ∉ t.nodes.map (·.1) := by
      intro hm
      obtain ⟨v, hv⟩ := alLookup_isSome_of_mem hm
      unfold TreeFs.get at hg; rw [hg] at hv; cases hv
    unfold put; simp only
    rw [alInsert_keys_new x hk, List.nodup_append]
    refine ⟨h.nodup, by simp, ?_⟩
    intro a ha b hb
    simp only [List.mem_singleton] at hb
    subst hb
    intro e; subst e; exact hk ha
  · exact isDir_put_new hg h.root
  · intro q n hq hne
    rw [get_put] at hq
    by_cases hkq : k = q
    · subst hkq; exact isDir_put_new hg (hd hne)
    · simp only [hkq, if_false] at hq
      exact isDir_put_new hg (h.parent q n hq hne)

theorem mkdir_new {t : T} (h : WfFacts t) {k : FsPath} (hne : k ≠ []) (hd : isDir t k.dropLast = true)
    (hg : get t k = none) (mode : Nat) :
    Posix.mkdir t k mode = .ok (put t k (newDir (applyUmask mode))) := by
  unfold Posix.mkdir
  simp only [hne, if_false, (walkErr_none_iff h k).2 (Or.inr hd), hg]

theorem mkdir_exists {t : T} (h : WfFacts t) {k : FsPath} {n : Node} (hg : get t k = some n) (mode : Nat) :
    Posix.mkdir t k mode = .error .EEXIST := by
  unfold Posix.mkdir
  by_cases hne : k = []
  · simp [hne]
  · simp only [hne, if_false, walkErr_of_get h hg, hg]

theorem statIsDir_of_dir {t : T} (h : WfFacts t) {k : FsPath} {n : Node} (hg : get t k = some n)
    (hk : n.kind = .dir) : statIsDir t k = true := by
  unfold statIsDir
  rw [stat_nonlink h hg (by simp [hk, isLinkKind])]
  simp [hk]

theorem mkRes_refl {t : T} (h : WfFacts t) {k : FsPath} (hd : isDir t k = true) : MkRes t k t :=
  ⟨h, hd, fun _ hq _ => hq, rfl⟩

/-- with no bad prefix the walk can only fail on a MISSING prefix -/
theorem walkErr_noBad (t : T) : ∀ (n : Nat) (k : FsPath), k.length = n → NoBad t k →
    walkErr t k = none ∨ walkErr t k = some .ENOENT := by
  intro n
  induction n with
  | zero =>
    intro k hk _
    have : k = [] := List.eq_nil_of_length_eq_zero hk
    subst this; left; rfl
  | succ n ih =>
    intro k hk hnb
    have hne : k ≠ [] := by intro h0; subst h0; simp at hk
    rw [walkErr_step t hne]
    rcases ih k.dropLast (by simp [hk]) (noBad_dropLast hnb) with h1 | h1
    · rw [h1]
      cases hgd : get t k.dropLast with
      | none => right; rfl
      | some nd =>
        have := hnb _ (mem_prefixes_dropLast (self_mem_prefixes _)) nd hgd
        left; simp [this]
    · rw [h1]; right; rfl

/-- `create_dir_all` on a path none of whose existing prefixes is a non-directory: it succeeds and
    leaves exactly what the reference's top-down loop leaves -/
theorem createDirAll_ok {t : T} (h : WfFacts t) : ∀ (f : Nat) (k : FsPath), k.length < f → NoBad t k →
    createDirAll t f k = .ok (mkdirLoop 0o755 (prefixes k) t).2 ∧
      (mkdirLoop 0o755 (prefixes k) t).1 = none ∧ MkRes t k (mkdirLoop 0o755 (prefixes k) t).2 := by
  intro f
  induction f with
  | zero => intro k hk; omega
  | succ f ih =>
    intro k hlen hnb
    rw [createDirAll]
    by_cases hne : k = []
    · subst hne
      obtain ⟨n, hn, hk⟩ := isDir_iff.1 h.root
      have hl : mkdirLoop 0o755 (prefixes []) t = (none, t) :=
        mkdirLoop_all_dirs _ _ _ (prefixes_dirs h h.root)
      rw [hl, mkdir_exists h hn]
      simp only [statIsDir_of_dir h hn hk, if_true]
      exact ⟨trivial, trivial, mkRes_refl h h.root⟩
    · rw [prefixes_dropLast hne, mkdirLoop_append]
      by_cases hd : isDir t k.dropLast = true
      · -- the parent is there
        rw [mkdirLoop_all_dirs _ _ _ (prefixes_dirs h hd)]
        simp only [mkdirLoop]
        cases hg : get t k with
        | none =>
          rw [mkdir_new h hne hd hg, applyUmask_777]
          refine ⟨rfl, rfl, wf_put_new h _ hg (fun _ => hd), ?_, ?_, rfl⟩
          · exact isDir_iff.2 ⟨_, get_put_self _ _ _, rfl⟩
          · intro q hq hnq
            have : k ≠ q := by intro e; subst e; exact hnq (self_mem_prefixes _)
            rw [get_put, if_neg this]; exact hq
        | some n =>
          have hk := hnb k (self_mem_prefixes k) n hg
          rw [mkdir_exists h hg]
          simp only [statIsDir_of_dir h hg hk, if_true, hk]
          exact ⟨trivial, trivial, mkRes_refl h (isDir_of_get hg hk)⟩
      · -- the parent is missing: `ENOENT`, create it first
        have hd' : isDir t k.dropLast = false := by simpa using hd
        have hgk : get t k = none := by
          cases hgk : get t k with
          | none => rfl
          | some n => rw [h.parent k n hgk hne] at hd'; cases hd'
        have hlen' : k.dropLast.length < f := by
          have : 0 < k.length := List.length_pos_iff.mpr hne
          simp only [List.length_dropLast]; omega
        obtain ⟨ih1, ih2, ih3⟩ := ih k.dropLast hlen' (noBad_dropLast hnb)
        -- the first `mkdir` fails with ENOENT
        have hw : walkErr t k = some .ENOENT := by
          rcases walkErr_noBad t _ k rfl hnb with h1 | h1
          · rcases (walkErr_none_iff h k).1 h1 with h2 | h2
            · exact absurd h2 hne
            · rw [h2] at hd'; cases hd'
          · exact h1
        have hm1 : Posix.mkdir t k 0o777 = .error .ENOENT := by
          unfold Posix.mkdir; simp only [hne, if_false, hw]
        rw [hm1]
        simp only [hne, if_false, ih1]
        -- the second `mkdir`, in the tree with the parent
        generalize hres : mkdirLoop 0o755 (prefixes k.dropLast) t = res at ih1 ih2 ih3 ⊢
        obtain ⟨e1, t1⟩ := res
        simp only at ih2 ih3 ⊢
        subst ih2
        have hgk1 : get t1 k = none := ih3.frame k hgk (not_mem_prefixes_dropLast hne)
        rw [mkdir_new ih3.wf hne ih3.dir hgk1, applyUmask_777]
        simp only [mkdirLoop, hgk1]
        refine ⟨trivial, trivial, wf_put_new ih3.wf _ hgk1 (fun _ => ih3.dir), ?_, ?_, ih3.cwd⟩
        · exact isDir_iff.2 ⟨_, get_put_self _ _ _, rfl⟩
        · intro q hq hnq
          have hqk : k ≠ q := by intro e; subst e; exact hnq (self_mem_prefixes _)
          rw [get_put, if_neg hqk]
          exact ih3.frame q hq (fun hm => hnq (mem_prefixes_dropLast hm))

theorem statIsDir_missing {t : T} {k : FsPath} (hg : get t k = none) : statIsDir t k = false := by
  unfold statIsDir
  obtain ⟨e, he⟩ := stat_missing hg
  rw [he]

/-- `create_dir_all` below something that is not a directory fails -/
theorem createDirAll_bad {t : T} (h : WfFacts t) : ∀ (f : Nat) (k : FsPath), get t k = none →
    (∃ q ∈ prefixes k, ∃ n, get t q = some n ∧ n.kind ≠ .dir) → ∃ e, createDirAll t f k = .error e := by
  intro f
  induction f with
  | zero => intro k _ _; exact ⟨_, rfl⟩
  | succ f ih =>
    intro k hg ⟨q, hq, n, hn, hk⟩
    have hne : k ≠ [] := by
      intro h0; subst h0
      obtain ⟨m, hm, _⟩ := isDir_iff.1 h.root
      rw [hg] at hm; cases hm
    have hqd : q ∈ prefixes k.dropLast := by
      rw [prefixes_dropLast hne, List.mem_append] at hq
      rcases hq with h1 | h1
      · exact h1
      · simp only [List.mem_singleton] at h1; subst h1; rw [hg] at hn; cases hn
    rw [createDirAll]
    cases hw : walkErr t k with
    | none =>
      exfalso
      rcases (walkErr_none_iff h k).1 hw with h0 | h0
      · exact hne h0
      · obtain ⟨m, hm, hmk⟩ := isDir_iff.1 (prefixes_dirs h h0 q hqd)
        rw [hn] at hm; cases hm; exact hk hmk
    | some e =>
      have hm1 : Posix.mkdir t k 0o777 = .error e := by
        unfold Posix.mkdir; simp only [hne, if_false, hw]
      rw [hm1]
      by_cases he : e = .ENOENT
      · subst he
        simp only [hne, if_false]
        have hgd : get t k.dropLast = none := by
          cases hgd : get t k.dropLast with
          | none => rfl
          | some nd =>
            exfalso
            rw [walkErr_step t hne, walkErr_of_get h hgd] at hw
            simp only [hgd] at hw
            by_cases hkd : nd.kind = .dir <;> simp [hkd] at hw
        obtain ⟨e', he'⟩ := ih k.dropLast hgd ⟨q, hqd, n, hn, hk⟩
        rw [he']; exact ⟨e', rfl⟩
      · have hs := statIsDir_missing hg
        cases e <;> first | exact absurd rfl he | (simp only [hs, Bool.false_eq_true, if_false]; exact ⟨_, rfl⟩)

theorem mkdir_noBad {t : T} {k : FsPath} (perm : Nat) (hl : isLinkToDir t k = false) (h : NoBad t k) :
    TreeFs.mkdir t k perm =
      (match mkdirLoop perm (prefixes k) t with
       | (none, t') => (.ok k, t')
       | (some e, _) => (.err (some e), t)) := by
  unfold TreeFs.mkdir
  simp only [hl, Bool.false_eq_true, if_false]
  split
  · rename_i val hf
    have hm := List.mem_of_find?_eq_some hf
    have hp := List.find?_some hf
    exfalso
    cases hg : get t val with
    | none => simp [hg] at hp
    | some n => simp [hg, h val hm n hg] at hp
  · rfl

theorem mkdir_bad {t : T} {k : FsPath} (perm : Nat) (hl : isLinkToDir t k = false)
    (h : ∃ q ∈ prefixes k, ∃ n, get t q = some n ∧ n.kind ≠ .dir) :
    TreeFs.mkdir t k perm = (.err (some .isNotDir), t) := by
  unfold TreeFs.mkdir
  simp only [hl, Bool.false_eq_true, if_false]
  split
  · rfl
  · rename_i hf
    exfalso
    rw [List.find?_eq_none] at hf
    obtain ⟨q, hq, n, hn, hk⟩ := h
    have := hf q hq
    simp [hn, hk] at this

theorem noBad_or_bad (t : T) (k : FsPath) :
    NoBad t k ∨ ∃ q ∈ prefixes k, ∃ n, get t q = some n ∧ n.kind ≠ .dir := by
  by_cases h : ∃ q ∈ prefixes k, ∃ n, get t q = some n ∧ n.kind ≠ .dir
  · exact Or.inr h
  · left
    intro q hq n hn
    by_cases hk : n.kind = .dir
    · exact hk
    · exact absurd ⟨q, hq, n, hn, hk⟩ h

theorem noBad_of_dir {t : T} (h : WfFacts t) {k : FsPath} (hd : isDir t k = true) : NoBad t k := by
  intro q hq n hn
  obtain ⟨m, hm, hk⟩ := isDir_iff.1 (prefixes_dirs h hd q hq)
  rw [hn] at hm; cases hm; exact hk

/-- `stat(q).is_dir()` of an existing node: a directory, or a link recorded as "to a directory" -/
theorem statIsDir_of_get (hc : Ctx env t) {q : FsPath} {n : Node} (hg : get t q = some n) :
    statIsDir t q = (decide (n.kind = .dir) || decide (n.kind = .link true)) := by
  have := statIsDir_eq hc q
  rw [hg] at this; exact this

theorem sim_mkdirP (h : Ctx env t) (p : Str) :
    Sim (Stdfs.step env t (.mkdirP p)) (withPath env t p fun a => liftR .path (TreeFs.mkdir t a 0o755)) := by
  simp only [Stdfs.step, Stdfs.mkdirP]
  refine sim_withPath h.cwd p _ _ _ ?_
  intro a _
  ssimp [exists_eq_isSome h.wf h.links]
  cases hg : get t a with
  | none =>
    have hl : isLinkToDir t a = false := by unfold isLinkToDir; rw [hg]
    ssimp [Option.isSome_none]
    rcases noBad_or_bad t a with hnb | hbad
    · obtain ⟨h1, h2, _⟩ := createDirAll_ok h.wf (a.length + 1) a (Nat.lt_succ_self _) hnb
      rw [mkdir_noBad _ hl hnb, h1]
      generalize mkdirLoop 0o755 (prefixes a) t = res at h2 ⊢
      obtain ⟨e1, t1⟩ := res
      simp only at h2; subst h2
      simp only [liftR]
      exact sim_same (by simp)
    · obtain ⟨e, he⟩ := createDirAll_bad h.wf (a.length + 1) a hg hbad
      rw [mkdir_bad _ hl hbad, he]
      simp only [liftR]
      exact sim_err _ _ (TEquiv.refl _)
  | some n =>
    ssimp [Option.isSome_some, statIsDir_of_get h hg]
    cases hk : n.kind with
    | dir =>
      have hd : isDir t a = true := isDir_of_get hg hk
      have hl : isLinkToDir t a = false := by unfold isLinkToDir; simp [hg, hk]
      have hnb := noBad_of_dir h.wf hd
      rw [mkdir_noBad _ hl hnb]
      ssimp [decide_true, Bool.true_or, mkdirLoop_all_dirs _ _ _ (prefixes_dirs h.wf hd), liftR]
      exact sim_same (by simp)
    | file =>
      have hl : isLinkToDir t a = false := by unfold isLinkToDir; simp [hg, hk]
      rw [mkdir_bad _ hl ⟨a, self_mem_prefixes a, n, hg, by simp [hk]⟩]
      ssimp [reduceCtorEq, decide_false, Bool.or_self, liftR]
      exact sim_err _ _ (TEquiv.refl _)
    | link b =>
      cases b with
      | true =>
        have hl : isLinkToDir t a = true := by unfold isLinkToDir; simp [hg, hk]
        unfold TreeFs.mkdir
        simp only [hl, if_true, liftR]
        exact sim_unspec _ _
      | false =>
        have hl : isLinkToDir t a = false := by unfold isLinkToDir; simp [hg, hk]
        rw [mkdir_bad _ hl ⟨a, self_mem_prefixes a, n, hg, by simp [hk]⟩]
        ssimp [reduceCtorEq, decide_false, Bool.or_self, Kind.link.injEq, Bool.false_eq_true, liftR]
        exact sim_err _ _ (TEquiv.refl _)

/-! ### mkdir_m -/

/-- what the reference's loop leaves behind when it succeeds -/
structure MkKeep (t : T) (k : FsPath) (t' : T) : Prop where
  wf : WfFacts t'
  dir : isDir t' k = true
  frame : ∀ q, get t q = none → q ∉ prefixes k → get t' q = none
  keep : ∀ q n, get t q = some n → get t' q = some n

theorem mkdirLoop_res {t : T} (h : WfFacts t) (perm : Nat) : ∀ (n : Nat) (k : FsPath), k.length = n → NoBad t k →
    (mkdirLoop perm (prefixes k) t).1 = none ∧ MkKeep t k (mkdirLoop perm (prefixes k) t).2 := by
  intro n
  induction n with
  | zero =>
    intro k hk _
    have : k = [] := List.eq_nil_of_length_eq_zero hk
    subst this
    rw [mkdirLoop_all_dirs _ _ _ (prefixes_dirs h h.root)]
    exact ⟨rfl, h, h.root, fun _ hq _ => hq, fun _ _ hq => hq⟩
  | succ n ih =>
    intro k hk hnb
    have hne : k ≠ [] := by intro h0; subst h0; simp at hk
    obtain ⟨ih1, ih2⟩ := ih k.dropLast (by simp [hk]) (noBad_dropLast hnb)
    rw [prefixes_dropLast hne, mkdirLoop_append]
    generalize mkdirLoop perm (prefixes k.dropLast) t = res at ih1 ih2 ⊢
    obtain ⟨e1, t1⟩ := res
    simp only at ih1 ih2 ⊢
    subst ih1
    simp only [mkdirLoop]
    cases hg1 : get t1 k with
    | none =>
      refine ⟨rfl, wf_put_new ih2.wf _ hg1 (fun _ => ih2.dir), ?_, ?_, ?_⟩
      · exact isDir_iff.2 ⟨_, get_put_self _ _ _, rfl⟩
      · intro q hq hnq
        have hqk : k ≠ q := by intro e; subst e; exact hnq (self_mem_prefixes _)
        rw [get_put, if_neg hqk]
        exact ih2.frame q hq (fun hm => hnq (mem_prefixes_dropLast hm))
      · intro q m hq
        have hqk : k ≠ q := by
          intro e; subst e
          rw [ih2.keep _ m hq] at hg1; cases hg1
        rw [get_put, if_neg hqk]
        exact ih2.keep q m hq
    | some m =>
      have hmk : m.kind = .dir := by
        cases hg : get t k with
        | none => rw [ih2.frame k hg (not_mem_prefixes_dropLast hne)] at hg1; cases hg1
        | some m' =>
          have := ih2.keep k m' hg
          rw [hg1] at this; cases this
          exact hnb k (self_mem_prefixes k) m hg
      simp only [hmk, if_true]
      refine ⟨trivial, ih2.wf, isDir_of_get hg1 hmk, ?_, ih2.keep⟩
      intro q hq hnq
      exact ih2.frame q hq (fun hm => hnq (mem_prefixes_dropLast hm))

theorem sforM_nil_apply (f : FsPath → SM Unit) (t : T) : ([] : List FsPath).forM f t = (.ok (), t) := rfl

theorem sforM_cons_apply (f : FsPath → SM Unit) (q : FsPath) (qs : List FsPath) (t : T) :
    (q :: qs).forM f t = match f q t with
      | (.ok _, t') => qs.forM f t'
      | (.err k, t') => (.err k, t')
      | (.panic, t') => (.panic, t')
      | (.hang, t') => (.hang, t') := by
  show (f q >>= fun _ => qs.forM f) t = _
  rw [SM_bind_apply]
  rcases f q t with ⟨o, t'⟩
  cases o <;> rfl

theorem sforM_append_apply (f : FsPath → SM Unit) (l1 l2 : List FsPath) (t : T) :
    (l1 ++ l2).forM f t = match l1.forM f t with
      | (.ok _, t') => l2.forM f t'
      | (.err k, t') => (.err k, t')
      | (.panic, t') => (.panic, t')
      | (.hang, t') => (.hang, t') := by
  induction l1 generalizing t with
  | nil => simp only [List.nil_append, sforM_nil_apply]
  | cons q qs ih =>
    simp only [List.cons_append, sforM_cons_apply]
    rcases f q t with ⟨o, t'⟩
    cases o <;> simp only [ih]

/-- the body of the loop of `Stdfs::mkdir_m` -/
def mkStepS (mode : Nat) (q : FsPath) : SM Unit := do
  let t ← getT
  if !(Posix.exists t q) then
    sysM (Posix.mkdir · q 0o777)
    sysM (Posix.chmod · q mode)
  else if !(statIsDir t q) then SM.fail .isNotDir

theorem mkdirM_eq (p : Str) (mode : Nat) :
    Stdfs.mkdirM env p mode = (do
      let k ← Stdfs.absM env p
      (prefixes k).forM (mkStepS mode)
      return k) := rfl

theorem and_7777 {m : Nat} (h : m < 0o10000) : m &&& 0o7777 = m := by
  have := Nat.and_two_pow_sub_one_eq_mod m 12
  simp at this
  omega

theorem exists_of_nonlink {t : T} (h : WfFacts t) {k : FsPath} {n : Node} (hg : get t k = some n)
    (hk : isLinkKind n.kind = false) : Posix.exists t k = true := by
  unfold Posix.exists; rw [stat_nonlink h hg hk]

theorem exists_missing {t : T} {k : FsPath} (hg : get t k = none) : Posix.exists t k = false := by
  unfold Posix.exists
  obtain ⟨e, he⟩ := stat_missing hg
  rw [he]

theorem mkStepS_skip {t : T} {q : FsPath} (mode : Nat) (hx : Posix.exists t q = true)
    (hd : statIsDir t q = true) : mkStepS mode q t = (.ok (), t) := by
  unfold mkStepS
  ssimp [hx, hd]

theorem mkStepS_notDir {t : T} {q : FsPath} (mode : Nat) (hx : Posix.exists t q = true)
    (hd : statIsDir t q = false) : mkStepS mode q t = (.err .isNotDir, t) := by
  unfold mkStepS
  ssimp [hx, hd]

theorem mkStepS_new {t : T} (h : WfFacts t) {q : FsPath} {mode : Nat} (hm : mode < 0o10000)
    (hne : q ≠ []) (hd : isDir t q.dropLast = true) (hg : get t q = none) :
    mkStepS mode q t = (.ok (), put t q (newDir mode)) := by
  unfold mkStepS
  have hwf' := wf_put_new h (newDir 0o755) hg (fun _ => hd)
  have hch : Posix.chmod (put t q (newDir 0o755)) q mode = .ok (put t q (newDir mode)) := by
    unfold Posix.chmod linkFuel
    rw [followFinal_nonlink hwf' (get_put_self _ _ _) rfl]
    simp only [get_put_self, put_put, and_7777 hm]
    rfl
  ssimp [exists_missing hg, mkdir_new h hne hd hg, applyUmask_777, hch]

/-- the loop of `mkdir_m` with no bad prefix = the reference's loop -/
theorem mkdirM_loop_ok {t : T} (h : WfFacts t) {mode : Nat} (hm : mode < 0o10000) : ∀ (n : Nat) (k : FsPath),
    k.length = n → NoBad t k →
    (prefixes k).forM (mkStepS mode) t = (.ok (), (mkdirLoop mode (prefixes k) t).2) := by
  intro n
  induction n with
  | zero =>
    intro k hk _
    have : k = [] := List.eq_nil_of_length_eq_zero hk
    subst this
    rw [mkdirLoop_all_dirs _ _ _ (prefixes_dirs h h.root)]
    obtain ⟨m, hm', hk'⟩ := isDir_iff.1 h.root
    show ([[]] : List FsPath).forM (mkStepS mode) t = _
    rw [sforM_cons_apply, mkStepS_skip _ (exists_of_nonlink h hm' (by simp [hk', isLinkKind]))
      (statIsDir_of_dir h hm' hk')]
    rfl
  | succ n ih =>
    intro k hk hnb
    have hne : k ≠ [] := by intro h0; subst h0; simp at hk
    have ih1 := ih k.dropLast (by simp [hk]) (noBad_dropLast hnb)
    obtain ⟨r1, r2⟩ := mkdirLoop_res h mode _ k.dropLast rfl (noBad_dropLast hnb)
    rw [prefixes_dropLast hne, sforM_append_apply, ih1, mkdirLoop_append]
    generalize mkdirLoop mode (prefixes k.dropLast) t = res at r1 r2 ⊢
    obtain ⟨e1, t1⟩ := res
    simp only at r1 r2 ⊢
    subst r1
    simp only [mkdirLoop, sforM_cons_apply, sforM_nil_apply]
    cases hg1 : get t1 k with
    | none => rw [mkStepS_new r2.wf hm hne r2.dir hg1]
    | some m =>
      have hmk : m.kind = .dir := by
        cases hg : get t k with
        | none => rw [r2.frame k hg (not_mem_prefixes_dropLast hne)] at hg1; cases hg1
        | some m' =>
          have := r2.keep k m' hg
          rw [hg1] at this; cases this
          exact hnb k (self_mem_prefixes k) m hg
      rw [mkStepS_skip _ (exists_of_nonlink r2.wf hg1 (by simp [hmk, isLinkKind]))
        (statIsDir_of_dir r2.wf hg1 hmk)]
      simp only [hmk, if_true]

/-- the loop of `mkdir_m` fails, before changing anything, as soon as an existing prefix (the path
    itself included) is not a directory -/
theorem mkdirM_loop_bad (hc : Ctx env t) {mode : Nat} (hm : mode < 0o10000) : ∀ (n : Nat) (k : FsPath),
    k.length = n → (∀ m, get t k = some m → m.kind ≠ .link true) →
    (∃ q ∈ prefixes k, ∃ m, get t q = some m ∧ m.kind ≠ .dir) →
    ∃ e, (prefixes k).forM (mkStepS mode) t = (.err e, t) := by
  have h := hc.wf
  intro n
  induction n with
  | zero =>
    intro k hk _ ⟨q, hq, m, hqm, hmk⟩
    have : k = [] := List.eq_nil_of_length_eq_zero hk
    subst this
    exfalso
    obtain ⟨m', hm', hmk'⟩ := isDir_iff.1 (prefixes_dirs h h.root q hq)
    rw [hqm] at hm'; cases hm'; exact hmk hmk'
  | succ n ih =>
    intro k hk hnl ⟨q, hq, m, hqm, hmk⟩
    have hne : k ≠ [] := by intro h0; subst h0; simp at hk
    rw [prefixes_dropLast hne, sforM_append_apply]
    cases hgk : get t k with
    | some mk =>
      -- the path itself exists: everything above it is a directory and is skipped
      have hpd : isDir t k.dropLast = true := h.parent k mk hgk hne
      have h1 := mkdirM_loop_ok h hm _ k.dropLast rfl (noBad_of_dir h hpd)
      rw [mkdirLoop_all_dirs _ _ _ (prefixes_dirs h hpd)] at h1
      have hmkd : mk.kind ≠ .dir := by
        intro hd
        rw [prefixes_dropLast hne, List.mem_append] at hq
        rcases hq with h2 | h2
        · obtain ⟨m', hm', hmk'⟩ := isDir_iff.1 (prefixes_dirs h hpd q h2)
          rw [hqm] at hm'; cases hm'; exact hmk hmk'
        · simp only [List.mem_singleton] at h2; subst h2
          rw [hgk] at hqm; cases hqm; exact hmk hd
      have hx : Posix.exists t k = true := by rw [exists_eq_isSome h hc.links, hgk]; rfl
      have hsd : statIsDir t k = false := by
        rw [statIsDir_of_get hc hgk]
        simp [hmkd, hnl mk hgk]
      rw [h1]
      simp only [sforM_cons_apply, mkStepS_notDir _ hx hsd]
      exact ⟨_, rfl⟩
    | none =>
      have hqd : q ∈ prefixes k.dropLast := by
        rw [prefixes_dropLast hne, List.mem_append] at hq
        rcases hq with h1 | h1
        · exact h1
        · simp only [List.mem_singleton] at h1; subst h1; rw [hgk] at hqm; cases hqm
      cases hgd : get t k.dropLast with
      | none =>
        obtain ⟨e, he⟩ := ih k.dropLast (by simp [hk]) (fun m hm' => by rw [hgd] at hm'; cases hm')
          ⟨q, hqd, m, hqm, hmk⟩
        rw [he]; exact ⟨e, rfl⟩
      | some nd =>
        by_cases hnd : nd.kind = .dir
        · exfalso
          obtain ⟨m', hm', hmk'⟩ := isDir_iff.1 (prefixes_dirs h (isDir_of_get hgd hnd) q hqd)
          rw [hqm] at hm'; cases hm'; exact hmk hmk'
        · by_cases hlt : nd.kind = .link true
          · -- the parent is a link to a directory: skipped, then `mkdir` fails in the walk
            have hdne : k.dropLast ≠ [] := ne_nil_of_not_dir hc hgd hnd
            have hpp : isDir t k.dropLast.dropLast = true := h.parent _ nd hgd hdne
            have h1 := mkdirM_loop_ok h hm _ k.dropLast.dropLast rfl (noBad_of_dir h hpp)
            rw [mkdirLoop_all_dirs _ _ _ (prefixes_dirs h hpp)] at h1
            have hxd : Posix.exists t k.dropLast = true := by
              rw [exists_eq_isSome h hc.links, hgd]; rfl
            have hsd : statIsDir t k.dropLast = true := by
              rw [statIsDir_of_get hc hgd]; simp [hlt]
            rw [prefixes_dropLast hdne, sforM_append_apply, h1]
            simp only [sforM_cons_apply, sforM_nil_apply, mkStepS_skip _ hxd hsd]
            have hw : walkErr t k = some .ENOTDIR := by
              rw [walkErr_step t hne, walkErr_of_get h hgd]
              simp only [hgd, hnd, if_false]
            refine ⟨ioErr .ENOTDIR, ?_⟩
            unfold mkStepS
            ssimp [exists_missing hgk, Posix.mkdir, hne, hw]
          · -- the parent exists and is neither a directory nor a link to one: the loop stops there
            obtain ⟨e, he⟩ := ih k.dropLast (by simp [hk]) (fun m hm' => by rw [hgd] at hm'; cases hm'; exact hlt)
              ⟨k.dropLast, self_mem_prefixes _, nd, hgd, hnd⟩
            rw [he]; exact ⟨e, rfl⟩

theorem sim_mkdirM (h : Ctx env t) (p : Str) (m : Nat) (hm : permOk m = true) :
    Sim (Stdfs.step env t (.mkdirM p m)) (withPath env t p fun a => liftR .path (TreeFs.mkdir t a m)) := by
  have hm' : m < 0o10000 := by simpa [permOk] using hm
  simp only [Stdfs.step, mkdirM_eq]
  refine sim_withPath h.cwd p _ _ _ ?_
  intro a _
  ssimp
  by_cases hl : isLinkToDir t a = true
  · unfold TreeFs.mkdir
    simp only [hl, if_true, liftR]
    exact sim_unspec _ _
  · have hl' : isLinkToDir t a = false := by simpa using hl
    have hnl : ∀ n, get t a = some n → n.kind ≠ .link true := by
      intro n hg hk
      unfold isLinkToDir at hl'; simp [hg, hk] at hl'
    rcases noBad_or_bad t a with hnb | hbad
    · obtain ⟨r1, _⟩ := mkdirLoop_res h.wf m _ a rfl hnb
      rw [mkdir_noBad _ hl' hnb, mkdirM_loop_ok h.wf hm' _ a rfl hnb]
      generalize mkdirLoop m (prefixes a) t = res at r1 ⊢
      obtain ⟨e1, t1⟩ := res
      simp only at r1; subst r1
      simp only [liftR]
      exact sim_same (by simp)
    · obtain ⟨e, he⟩ := mkdirM_loop_bad h hm' _ a rfl hnl hbad
      rw [mkdir_bad _ hl' hbad, he]
      simp only [liftR]
      exact sim_err _ _ (TEquiv.refl _)

end Rivia.Lemmas.StdfsL
