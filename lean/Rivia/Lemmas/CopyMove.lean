/-
  Rivia.Lemmas.CopyMove — helper lemmas for C09 (copy / move_p on the Memfs model).
  Part 1: the string-level computation of destination keys (`dstOf`).
-/
import Rivia.Spec.MemfsJudge
import Rivia.Lemmas.User

namespace Rivia.Lemmas
open Rivia Rivia.Str Rivia.Memfs

/-! ### keys and their string form -/

/-- every name of a key is a well-formed component name -/
def WfKey (p : FsPath) : Prop := ∀ n ∈ p, Wf n

instance (n : Str) : Decidable (Wf n) := by unfold Wf; infer_instance
instance (p : FsPath) : Decidable (WfKey p) := by unfold WfKey; infer_instance

theorem WfKey.append {p q : FsPath} (hp : WfKey p) (hq : WfKey q) : WfKey (p ++ q) := by
  intro n hn
  rcases List.mem_append.1 hn with h | h
  · exact hp n h
  · exact hq n h

theorem WfKey.left {p q : FsPath} (h : WfKey (p ++ q)) : WfKey p :=
  fun n hn => h n (List.mem_append_left _ hn)

theorem WfKey.right {p q : FsPath} (h : WfKey (p ++ q)) : WfKey q :=
  fun n hn => h n (List.mem_append_right _ hn)

theorem WfKey.bodyPiece {p : FsPath} (h : WfKey p) : ∀ q ∈ p, BodyPiece q :=
  fun q hq => (h q hq).bodyPiece

theorem renderP_eq_bufOf (p : FsPath) : renderP p = bufOf true p := rfl

theorem renderP_ne_nil (p : FsPath) : renderP p ≠ [] := by simp [renderP]

theorem toPath_renderP {p : FsPath} (h : WfKey p) : toPath (renderP p) = p := by
  unfold toPath
  by_cases hp : p = []
  · subst hp; decide
  · rw [renderP_eq_bufOf, splitSlash_bufOf hp h.bodyPiece]
    simp only [if_true, List.singleton_append, List.filter_cons, ne_eq, not_true_eq_false,
      decide_false, Bool.false_eq_true, if_false]
    rw [List.filter_eq_self]
    intro a ha
    simpa using (h a ha).1

/-! ### `trimPrefix` on rendered keys -/

theorem isPrefixOf_append_self (a b : Str) : a.isPrefixOf (a ++ b) = true := by
  induction a with
  | nil => simp
  | cons c cs ih => simp

theorem trimPrefix_append (a b : Str) : trimPrefix (a ++ b) a = b := by
  unfold trimPrefix
  rw [isPrefixOf_append_self]
  simp

/-- stripping a non-empty prefix key leaves `/` + the remaining names -/
theorem trimPrefix_renderP {pre r : FsPath} (hpre : pre ≠ []) (hr : r ≠ []) :
    trimPrefix (renderP (pre ++ r)) (renderP pre) = '/' :: joinWith '/' r := by
  have : renderP (pre ++ r) = renderP pre ++ '/' :: joinWith '/' r := by
    unfold renderP
    rw [joinWith_append '/' hpre hr]
    rfl
  rw [this, trimPrefix_append]

theorem trimPrefix_renderP_self (pre : FsPath) : trimPrefix (renderP pre) (renderP pre) = [] := by
  have := trimPrefix_append (renderP pre) []
  simpa using this

/-- stripping the root key `/` -/
theorem trimPrefix_renderP_root (r : FsPath) :
    trimPrefix (renderP r) (renderP []) = joinWith '/' r := by
  show trimPrefix (['/'] ++ joinWith '/' r) ['/'] = _
  exact trimPrefix_append _ _

/-! ### `mash` of a rendered key and a relative body -/

theorem stripSlashes_joinWith {r : FsPath} (h : WfKey r) :
    stripSlashes (joinWith '/' r) = joinWith '/' r := by
  cases r with
  | nil => rfl
  | cons x xs =>
    have hx := h x (by simp)
    obtain ⟨X, hX⟩ := joinWith_cons_eq_append '/' x xs
    rw [hX]
    cases x with
    | nil => exact absurd rfl hx.1
    | cons c cs =>
      have hc : c ≠ '/' := fun e => hx.2.1 (by simp [e])
      show stripSlashes (c :: (cs ++ X)) = _
      unfold stripSlashes
      split
      · rename_i heq
        simp only [List.cons.injEq] at heq
        exact absurd heq.1 hc
      · rfl

theorem stripSlashes_slash_joinWith {r : FsPath} (h : WfKey r) :
    stripSlashes ('/' :: joinWith '/' r) = joinWith '/' r := by
  rw [stripSlashes]
  exact stripSlashes_joinWith h

theorem render_components_renderP {p : FsPath} (h : WfKey p) :
    render (components (renderP p)) = renderP p := by
  rw [renderP_eq_bufOf, components_abs h, render_root_normals h]

/-- `mash` with a non-empty relative body of well-formed names appends the names -/
theorem mash_renderP_rel {d r : FsPath} (hd : WfKey d) (hr : WfKey r) (hne : r ≠ []) :
    mash (renderP d) (joinWith '/' r) = renderP (d ++ r) := by
  unfold mash
  rw [stripSlashes_joinWith hr]
  have : push (renderP d) (joinWith '/' r) = renderP (d ++ r) := by
    have := push_abs_rel hd.bodyPiece hr.bodyPiece hne
    simpa [renderP_eq_bufOf, bufOf] using this
  rw [this, render_components_renderP (hd.append hr)]

theorem mash_renderP_slash_rel {d r : FsPath} (hd : WfKey d) (hr : WfKey r) (hne : r ≠ []) :
    mash (renderP d) ('/' :: joinWith '/' r) = renderP (d ++ r) := by
  have := mash_renderP_rel hd hr hne
  unfold mash at this ⊢
  rw [stripSlashes_slash_joinWith hr]
  rw [stripSlashes_joinWith hr] at this
  exact this

/-- `mash` with the empty string re-collects the directory itself -/
theorem mash_renderP_nil {d : FsPath} (hd : WfKey d) : mash (renderP d) [] = renderP d := by
  unfold mash
  show render (components (push (renderP d) [])) = _
  rcases eq_nil_or_snoc d with rfl | ⟨mid, t, rfl⟩
  · decide
  · have ht : BodyPiece t := (hd t (by simp)).bodyPiece
    have h1 : renderP (mid ++ [t]) ≠ [] := renderP_ne_nil _
    have h2 : endsWithSlash (renderP (mid ++ [t])) = false := by
      rw [renderP_eq_bufOf]; exact endsWithSlash_bufOf_snoc ht
    have hp : push (renderP (mid ++ [t])) [] = renderP (mid ++ [t]) ++ ['/'] := by
      simp [push, isRooted, h1, h2]
    rw [hp]
    have hc : components (renderP (mid ++ [t]) ++ ['/']) = components (renderP (mid ++ [t])) := by
      rw [components_eq_compsOf, components_eq_compsOf, isRooted_append h1]
      unfold splitSlash
      rw [splitOn_append_sep', splitOn_nil, compsOf_snoc_nil _ (splitOn_ne_nil _ _)]
    rw [hc, render_components_renderP hd]

/-- `dst.mash(name)` for one well-formed name -/
theorem mash_renderP_name {d : FsPath} {n : Str} (hd : WfKey d) (hn : Wf n) :
    toPath (mash (renderP d) n) = d ++ [n] := by
  have h := mash_renderP_rel hd (r := [n]) (by intro x hx; simp at hx; subst hx; exact hn) (by simp)
  rw [show joinWith '/' [n] = n from rfl] at h
  rw [h, toPath_renderP]
  exact hd.append (by intro x hx; simp at hx; subst hx; exact hn)

/-! ### `dstOf` -/

/-- destination of the entry `pre ++ r` when the prefix `pre` is re-rooted at `dstRoot` -/
theorem dstOf_append {dstRoot pre r : FsPath} (hd : WfKey dstRoot) (hr : WfKey r) :
    dstOf dstRoot (pre ++ r) pre = dstRoot ++ r := by
  unfold dstOf
  by_cases hr0 : r = []
  · subst hr0
    rw [List.append_nil, trimPrefix_renderP_self, mash_renderP_nil hd, toPath_renderP hd,
      List.append_nil]
  · by_cases hp0 : pre = []
    · subst hp0
      rw [List.nil_append, trimPrefix_renderP_root, mash_renderP_rel hd hr hr0,
        toPath_renderP (hd.append hr)]
    · rw [trimPrefix_renderP hp0 hr0, mash_renderP_slash_rel hd hr hr0,
        toPath_renderP (hd.append hr)]

theorem dstOf_self {dstRoot pre : FsPath} (hd : WfKey dstRoot) : dstOf dstRoot pre pre = dstRoot := by
  have := dstOf_append (pre := pre) hd (r := []) (by intro n hn; simp at hn)
  simpa using this

end Rivia.Lemmas

namespace Rivia.Lemmas
open Rivia Rivia.Str Rivia.Memfs Rivia.Spec

/-! ## Part 2: association lists -/

section AL
variable {β : Type}

theorem alLookup_mem {k : FsPath} {v : β} {l : List (FsPath × β)} (h : alLookup k l = some v) :
    (k, v) ∈ l := by
  induction l with
  | nil => simp [alLookup] at h
  | cons x r ih =>
    obtain ⟨k', v'⟩ := x
    unfold alLookup at h
    split at h
    · rename_i hk; subst hk; cases h; simp
    · exact List.mem_cons_of_mem _ (ih h)

theorem alLookup_of_mem {k : FsPath} {v : β} {l : List (FsPath × β)}
    (hn : (l.map (·.1)).Nodup) (h : (k, v) ∈ l) : alLookup k l = some v := by
  induction l with
  | nil => simp at h
  | cons x r ih =>
    obtain ⟨k', v'⟩ := x
    simp only [List.map_cons, List.nodup_cons] at hn
    unfold alLookup
    rcases List.mem_cons.1 h with h | h
    · cases h; simp
    · have : k' ≠ k := by
        intro e; subst e
        exact hn.1 (List.mem_map.2 ⟨(k', v), h, rfl⟩)
      rw [if_neg this]
      exact ih hn.2 h

theorem alLookup_isSome_iff_mem_keys {k : FsPath} {l : List (FsPath × β)} :
    (alLookup k l).isSome = true ↔ k ∈ l.map (·.1) := by
  induction l with
  | nil => simp [alLookup]
  | cons x r ih =>
    obtain ⟨k', v'⟩ := x
    unfold alLookup
    by_cases hk : k' = k
    · subst hk; simp
    · rw [if_neg hk, ih]
      simp [Ne.symm hk]

theorem alLookup_eq_none_iff {k : FsPath} {l : List (FsPath × β)} :
    alLookup k l = none ↔ k ∉ l.map (·.1) := by
  rw [← alLookup_isSome_iff_mem_keys]
  cases alLookup k l <;> simp

theorem alLookup_alInsert (k k' : FsPath) (v : β) (l : List (FsPath × β)) :
    alLookup k (alInsert k' v l) = if k' = k then some v else alLookup k l := by
  induction l with
  | nil => simp [alInsert, alLookup]
  | cons x r ih =>
    obtain ⟨k1, v1⟩ := x
    unfold alInsert
    by_cases h1 : k1 = k'
    · subst h1
      rw [if_pos rfl]
      by_cases h2 : k1 = k
      · simp [alLookup, h2]
      · simp [alLookup, h2]
    · rw [if_neg h1]
      by_cases h2 : k1 = k
      · subst h2
        have : ¬ k' = k1 := fun e => h1 e.symm
        simp [alLookup, this]
      · simp only [alLookup, h2, if_false]
        exact ih

theorem alLookup_alInsert_self (k : FsPath) (v : β) (l : List (FsPath × β)) :
    alLookup k (alInsert k v l) = some v := by
  rw [alLookup_alInsert, if_pos rfl]

theorem alLookup_alInsert_ne {k k' : FsPath} (h : k' ≠ k) (v : β) (l : List (FsPath × β)) :
    alLookup k (alInsert k' v l) = alLookup k l := by
  rw [alLookup_alInsert, if_neg h]

theorem alLookup_alErase_ne {k k' : FsPath} (h : k' ≠ k) (l : List (FsPath × β)) :
    alLookup k (alErase k' l) = alLookup k l := by
  induction l with
  | nil => rfl
  | cons x r ih =>
    obtain ⟨k1, v1⟩ := x
    unfold alErase
    by_cases h1 : k1 = k'
    · subst h1
      rw [if_pos rfl]
      simp [alLookup, h]
    · rw [if_neg h1]
      unfold alLookup
      by_cases h2 : k1 = k
      · simp [h2]
      · simp only [h2, if_false]; exact ih

theorem keys_alInsert (k : FsPath) (v : β) (l : List (FsPath × β)) :
    (alInsert k v l).map (·.1) = if k ∈ l.map (·.1) then l.map (·.1) else l.map (·.1) ++ [k] := by
  induction l with
  | nil => simp [alInsert]
  | cons x r ih =>
    obtain ⟨k1, v1⟩ := x
    unfold alInsert
    by_cases h1 : k1 = k
    · subst h1; simp
    · rw [if_neg h1]
      simp only [List.map_cons, ih, List.mem_cons]
      have : ¬ k = k1 := fun e => h1 e.symm
      by_cases h2 : k ∈ r.map (·.1)
      · simp [h2]
      · simp [h2, this]

theorem nodup_alInsert {k : FsPath} {v : β} {l : List (FsPath × β)} (h : (l.map (·.1)).Nodup) :
    ((alInsert k v l).map (·.1)).Nodup := by
  rw [keys_alInsert]
  split
  · exact h
  · rename_i hk
    rw [List.nodup_append]
    refine ⟨h, by simp, ?_⟩
    intro a ha b hb
    simp at hb; subst hb
    intro e; subst e; exact hk ha

theorem keys_alErase_sublist (k : FsPath) (l : List (FsPath × β)) :
    ((alErase k l).map (·.1)).Sublist (l.map (·.1)) := by
  induction l with
  | nil => simp [alErase]
  | cons x r ih =>
    obtain ⟨k1, v1⟩ := x
    unfold alErase
    split
    · simp
    · simpa using ih

theorem nodup_alErase {k : FsPath} {l : List (FsPath × β)} (h : (l.map (·.1)).Nodup) :
    ((alErase k l).map (·.1)).Nodup := (keys_alErase_sublist k l).nodup h

theorem alLookup_alErase_self {k : FsPath} {l : List (FsPath × β)} (h : (l.map (·.1)).Nodup) :
    alLookup k (alErase k l) = none := by
  induction l with
  | nil => rfl
  | cons x r ih =>
    obtain ⟨k1, v1⟩ := x
    simp only [List.map_cons, List.nodup_cons] at h
    unfold alErase
    by_cases h1 : k1 = k
    · subst h1
      rw [if_pos rfl, alLookup_eq_none_iff]
      exact h.1
    · rw [if_neg h1]
      simp only [alLookup, h1, if_false]
      exact ih h.2

theorem alLookup_alErase {k k' : FsPath} {l : List (FsPath × β)} (h : (l.map (·.1)).Nodup) :
    alLookup k (alErase k' l) = if k' = k then none else alLookup k l := by
  by_cases hk : k' = k
  · subst hk; rw [if_pos rfl, alLookup_alErase_self h]
  · rw [if_neg hk, alLookup_alErase_ne hk]

/-- number of keys satisfying a predicate -/
def keyCount (p : FsPath → Bool) (l : List (FsPath × β)) : Nat := (l.filter (fun kv => p kv.1)).length

theorem keyCount_le (p : FsPath → Bool) (l : List (FsPath × β)) : keyCount p l ≤ l.length :=
  List.length_filter_le _ _

theorem keyCount_alInsert_false {p : FsPath → Bool} {k : FsPath} (hk : p k = false) (v : β)
    (l : List (FsPath × β)) : keyCount p (alInsert k v l) = keyCount p l := by
  induction l with
  | nil => simp [alInsert, keyCount, hk]
  | cons x r ih =>
    obtain ⟨k1, v1⟩ := x
    unfold alInsert
    by_cases h1 : k1 = k
    · subst h1
      simp [keyCount, hk]
    · rw [if_neg h1]
      unfold keyCount at ih ⊢
      simp only [List.filter_cons]
      split <;> simp [ih]

theorem keyCount_alErase_true {p : FsPath → Bool} {k : FsPath} (hk : p k = true)
    {l : List (FsPath × β)} (hm : k ∈ l.map (·.1)) :
    keyCount p (alErase k l) + 1 = keyCount p l := by
  induction l with
  | nil => simp at hm
  | cons x r ih =>
    obtain ⟨k1, v1⟩ := x
    unfold alErase
    by_cases h1 : k1 = k
    · subst h1
      simp [keyCount, hk]
    · rw [if_neg h1]
      have hm' : k ∈ r.map (·.1) := by
        simp only [List.map_cons, List.mem_cons] at hm
        rcases hm with h | h
        · exact absurd h.symm h1
        · exact h
      have := ih hm'
      unfold keyCount at this ⊢
      simp only [List.filter_cons]
      split
      · simp only [List.length_cons]; omega
      · exact this

end AL

/-! ### `insertName` -/

theorem insertName_fst_of_not_mem {n : Str} {l : List Str} (h : n ∉ l) : (insertName n l).1 = true := by
  induction l with
  | nil => rfl
  | cons x xs ih =>
    unfold insertName
    have h1 : n ≠ x := fun e => h (by simp [e])
    have h2 : n ∉ xs := fun e => h (by simp [e])
    rw [if_neg h1]
    split
    · rfl
    · simp [ih h2]

theorem mem_insertName {n m : Str} {l : List Str} : m ∈ (insertName n l).2 ↔ m = n ∨ m ∈ l := by
  induction l with
  | nil => simp [insertName]
  | cons x xs ih =>
    unfold insertName
    split
    · rename_i h; subst h; simp
    · split
      · simp
      · simp only [List.mem_cons, ih]
        constructor
        · rintro (h | h | h) <;> simp [h]
        · rintro (h | h | h) <;> simp [h]

end Rivia.Lemmas

namespace Rivia.Lemmas
open Rivia Rivia.Str Rivia.Memfs Rivia.Spec

/-! ## Part 3: the invariant, clause by clause -/

/-- every name in every key and in cwd is a well-formed component name -/
def KeysWf (s : State) : Prop := (∀ kv ∈ s.entries, WfKey kv.1) ∧ WfKey s.cwd

instance (s : State) : Decidable (KeysWf s) := by unfold KeysWf; infer_instance

theorem KeysWf.key {s : State} (h : KeysWf s) {k : FsPath} {e : Entry}
    (hk : alLookup k s.entries = some e) : WfKey k := h.1 (k, e) (alLookup_mem hk)

/-- the clauses of `Spec.Inv` in lookup form -/
structure InvF (s : State) : Prop where
  nodup : (s.entries.map (·.1)).Nodup
  root : ∃ e, alLookup [] s.entries = some e ∧ e.dir = true ∧ e.link = false
  parent : ∀ k e, alLookup k s.entries = some e → k ≠ [] →
    ∃ pe fs, alLookup k.dropLast s.entries = some pe ∧ pe.dir = true ∧ pe.link = false ∧
      pe.files = some fs ∧ baseName k ∈ fs
  child : ∀ k e fs n, alLookup k s.entries = some e → e.files = some fs → n ∈ fs →
    ∃ c, alLookup (k ++ [n]) s.entries = some c
  data : ∀ k e, alLookup k s.entries = some e → (alLookup k s.files).isSome = (e.file && !e.link)
  dangling : ∀ k b, alLookup k s.files = some b → ∃ e, alLookup k s.entries = some e
  fnodup : (s.files.map (·.1)).Nodup
  path : ∀ k e, alLookup k s.entries = some e → e.path = k
  childset : ∀ k e, alLookup k s.entries = some e → e.files.isSome = e.dir
  childnodup : ∀ k e fs, alLookup k s.entries = some e → e.files = some fs → fs.Nodup

theorem invF_of_inv {s : State} (h : Spec.Inv s) : InvF s := by
  unfold Spec.Inv invViolation at h
  dsimp only at h
  split at h
  · cases h
  split at h
  · cases h
  split at h
  · cases h
  split at h
  · cases h
  split at h
  · cases h
  split at h
  · cases h
  split at h
  · cases h
  split at h
  · cases h
  split at h
  · cases h
  split at h
  · cases h
  split at h
  · cases h
  rename_i h1 h2 h3 _ h4 _ h5 _ h6 _ h7 h8 _ h9 _ h10 _ h11
  simp only [Bool.not_eq_eq_eq_not, Bool.not_true, decide_eq_false_iff_not,
    Decidable.not_not] at h1
  have hn : (s.entries.map (·.1)).Nodup := h1
  rw [List.find?_eq_none] at h4 h5 h6 h7 h9 h10
  rw [List.find?_eq_none] at h11
  refine ⟨hn, ?_, ?_, ?_, ?_, ?_, ?_, ?_, ?_, ?_⟩
  · cases hr : alLookup [] s.entries with
    | none => simp [hr] at h2
    | some e =>
      refine ⟨e, rfl, ?_⟩
      simp [hr] at h2
      exact h2
  · intro k e hk hne
    have := h4 (k, e) (alLookup_mem hk)
    cases hp : alLookup k.dropLast s.entries with
    | none => simp [hp, hne] at this
    | some pe =>
      cases hf : pe.files with
      | none => simp [hp, hf, hne] at this
      | some fs =>
        simp [hp, hf, hne] at this
        exact ⟨pe, fs, rfl, this.1.1, this.1.2, hf, this.2⟩
  · intro k e fs n hk hf hn'
    have := h5 (k, e) (alLookup_mem hk)
    simp only [hf, List.any_eq_true, Option.isNone_iff_eq_none, not_exists, not_and] at this
    have := this n hn'
    cases hc : alLookup (k ++ [n]) s.entries with
    | none => exact absurd hc this
    | some c => exact ⟨c, rfl⟩
  · intro k e hk
    have := h6 (k, e) (alLookup_mem hk)
    simp at this
    exact this.symm
  · intro k b hk
    have := h7 (k, b) (alLookup_mem hk)
    cases hc : alLookup k s.entries with
    | none => simp [hc] at this
    | some c => exact ⟨c, rfl⟩
  · simpa using h8
  · intro k e hk
    have := h9 (k, e) (alLookup_mem hk)
    simpa using this
  · intro k e hk
    have := h10 (k, e) (alLookup_mem hk)
    simpa using this
  · intro k e fs hk hf
    have := h11 (k, e) (alLookup_mem hk)
    simpa [hf] using this

end Rivia.Lemmas

namespace Rivia.Lemmas
open Rivia Rivia.Str Rivia.Memfs Rivia.Spec Rivia.Memfs.M

/-! ## Part 4: symbolic execution of the state monad `M` -/

section Monad
variable {α β : Type}

theorem bind_apply (m : M α) (f : α → M β) (s : State) :
    (m >>= f) s = match m s with
      | (.ok a, s') => f a s'
      | (.err k, s') => (.err k, s')
      | (.panic, s') => (.panic, s')
      | (.hang, s') => (.hang, s') := rfl

theorem bind_ok {m : M α} {f : α → M β} {s s' : State} {a : α} (h : m s = (.ok a, s')) :
    (m >>= f) s = f a s' := by rw [bind_apply, h]

theorem bind_err {m : M α} {f : α → M β} {s s' : State} {k : ErrKind} (h : m s = (.err k, s')) :
    (m >>= f) s = (.err k, s') := by rw [bind_apply, h]

@[simp] theorem pure_bind' (a : α) (f : α → M β) : ((Pure.pure a : M α) >>= f) = f a := rfl
@[simp] theorem mpure_bind (a : α) (f : α → M β) : (M.pure a >>= f) = f a := rfl
@[simp] theorem fail_bind (k : ErrKind) (f : α → M β) : ((M.fail k : M α) >>= f) = M.fail k := rfl
@[simp] theorem hang_bind (f : α → M β) : ((M.hang : M α) >>= f) = M.hang := rfl
@[simp] theorem liftO_ok_bind (a : α) (f : α → M β) : (M.liftO (.ok a) >>= f) = f a := rfl
@[simp] theorem liftO_err_bind (k : ErrKind) (f : α → M β) : ((M.liftO (.err k) : M α) >>= f) = M.fail k := rfl
@[simp] theorem pure_apply (a : α) (s : State) : (Pure.pure a : M α) s = (.ok a, s) := rfl
@[simp] theorem mpure_apply (a : α) (s : State) : (M.pure a : M α) s = (.ok a, s) := rfl
@[simp] theorem fail_apply (k : ErrKind) (s : State) : (M.fail k : M α) s = (.err k, s) := rfl
@[simp] theorem hang_apply (s : State) : (M.hang : M α) s = (.hang, s) := rfl

@[simp] theorem get_bind_apply (f : State → M β) (s : State) : (M.get >>= f) s = f s s := rfl
@[simp] theorem getEntry_bind_apply (p : FsPath) (f : Option Entry → M β) (s : State) :
    (getEntry p >>= f) s = f (alLookup p s.entries) s := rfl
@[simp] theorem getFile_bind_apply (p : FsPath) (f : Option File.Bytes → M β) (s : State) :
    (getFile p >>= f) s = f (alLookup p s.files) s := rfl
@[simp] theorem setEntry_bind_apply (p : FsPath) (e : Entry) (f : Unit → M β) (s : State) :
    (setEntry p e >>= f) s = f () { s with entries := alInsert p e s.entries } := rfl
@[simp] theorem setFile_bind_apply (p : FsPath) (b : File.Bytes) (f : Unit → M β) (s : State) :
    (setFile p b >>= f) s = f () { s with files := alInsert p b s.files } := rfl
@[simp] theorem removeEntry_bind_apply (p : FsPath) (f : Option Entry → M β) (s : State) :
    (removeEntry p >>= f) s = f (alLookup p s.entries) { s with entries := alErase p s.entries } := rfl
@[simp] theorem removeFile_bind_apply (p : FsPath) (f : Option File.Bytes → M β) (s : State) :
    (removeFile p >>= f) s = f (alLookup p s.files) { s with files := alErase p s.files } := rfl
@[simp] theorem setEntry_apply (p : FsPath) (e : Entry) (s : State) :
    setEntry p e s = (.ok (), { s with entries := alInsert p e s.entries }) := rfl
@[simp] theorem setFile_apply (p : FsPath) (b : File.Bytes) (s : State) :
    setFile p b s = (.ok (), { s with files := alInsert p b s.files }) := rfl
@[simp] theorem getEntry_apply (p : FsPath) (s : State) :
    getEntry p s = (.ok (alLookup p s.entries), s) := rfl
@[simp] theorem getFile_apply (p : FsPath) (s : State) :
    getFile p s = (.ok (alLookup p s.files), s) := rfl

theorem dirOf_ne_nil {p : FsPath} (h : p ≠ []) : dirOf p = M.pure p.dropLast := by
  unfold dirOf; rw [if_neg h]

theorem dirOf_nil : dirOf [] = M.fail .parentNotFound := rfl

end Monad

theorem dropLast_ne_self {p : FsPath} (h : p ≠ []) : p.dropLast ≠ p := by
  intro e
  have := congrArg List.length e
  rw [List.length_dropLast] at this
  have : p.length ≠ 0 := fun h0 => h (List.eq_nil_of_length_eq_zero h0)
  omega

theorem dropLast_append_baseName {p : FsPath} (h : p ≠ []) : p.dropLast ++ [baseName p] = p := by
  rcases eq_nil_or_snoc p with rfl | ⟨mid, t, rfl⟩
  · exact absurd rfl h
  · simp [baseName]

theorem baseName_snoc (p : FsPath) (n : Str) : baseName (p ++ [n]) = n := by simp [baseName]

/-! ### `add` -/

/-- `_add` of a new entry under an existing real directory -/
theorem add_new {s : State} {e d : Entry} {fs : List Str} (hp : e.path ≠ [])
    (hd : alLookup e.path.dropLast s.entries = some d) (hdir : d.dir = true) (hlink : d.link = false)
    (hfs : d.files = some fs) (hnew : alLookup e.path s.entries = none)
    (hname : baseName e.path ∉ fs) :
    add e s = (.ok e.path,
      { s with
        entries := alInsert e.path.dropLast { d with files := some (insertName (baseName e.path) fs).2 }
                    (alInsert e.path e s.entries)
        files := if (!e.link && e.file) = true then alInsert e.path [] s.files else s.files }) := by
  unfold add
  simp only [hp, if_false, getEntry_bind_apply, hd, hdir, hlink, Bool.not_true, Bool.or_self,
    Bool.false_eq_true, hnew]
  have hne : e.path ≠ e.path.dropLast := fun h => dropLast_ne_self hp h.symm
  by_cases hf : (!e.link && e.file) = true
  · simp only [hf, if_true, setFile_bind_apply, setEntry_bind_apply, getEntry_bind_apply,
      alLookup_alInsert_ne hne, hd, Entry.addChild, hdir, Bool.not_true, Bool.false_eq_true, if_false, hfs,
      liftO_ok_bind, insertName_fst_of_not_mem hname, pure_apply]
    simp [hlink]
  · simp only [hf, if_false, setEntry_bind_apply, getEntry_bind_apply,
      alLookup_alInsert_ne hne, hd, Entry.addChild, hdir, Bool.not_true, Bool.false_eq_true, hfs,
      liftO_ok_bind, insertName_fst_of_not_mem hname, pure_apply]
    simp [hlink]

end Rivia.Lemmas
