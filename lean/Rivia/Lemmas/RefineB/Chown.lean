/-
  Rivia.Lemmas.RefineB.Chown — refinement of `chown` / `chown_b` without follow (C01, group B).
-/
import Rivia.Lemmas.RefineB.Traverse
namespace Rivia.Lemmas.RefineB
open Rivia Rivia.Memfs Rivia.Spec Rivia.Spec.TreeFs M

/-! ### `chown` -/

def chownG (c : ChownOpts) (k : FsPath) (st : State) : State :=
  match alLookup k st.entries with
  | some e => { st with entries := alInsert k (e.setOwner c.uid c.gid) st.entries }
  | none => st

def chownStep (c : ChownOpts) : Entry → State → Outcome Unit × State := fun src st =>
  match alLookup src.path st.entries with
  | some e => (.ok (), { st with entries := alInsert src.path (e.setOwner c.uid c.gid) st.entries })
  | none => (.ok (), st)

def chownOpts (c : ChownOpts) : Opts :=
  ({ follow := c.follow } : Opts).setMax (if c.recursive then 2 ^ 64 - 1 else 0)

def chownK (c : ChownOpts) (p : FsPath) : M Unit := do
  let s ← get
  let (rootE, snap) ← liftO (entriesOf s p)
  fun st => runIter snap (chownOpts c) noPre rootE (chownStep c) (travFuel snap) {} st

theorem chownM_eq (env : Env) (path : Str) (c : ChownOpts) : chownM env path c = (absM env path >>= chownK c) := rfl

theorem chownStep_eq (c : ChownOpts) (e : Entry) (w : State) : chownStep c e w = (.ok (), chownG c e.path w) := by
  unfold chownStep chownG
  cases alLookup e.path w.entries <;> rfl

theorem chownK_err {c : ChownOpts} {p : FsPath} {s : State} {k : ErrKind} (h : entriesOf s p = .err k) :
    chownK c p s = (.err k, s) := by
  unfold chownK
  rw [get_bind, h]; rfl

theorem chownK_ok {c : ChownOpts} {p : FsPath} {s : State} {e : Entry} {snap : Snap} (h : entriesOf s p = .ok (e, snap)) :
    chownK c p s = runIter snap (chownOpts c) noPre e (chownStep c) (travFuel snap) {} s := by
  unfold chownK
  rw [get_bind, h]; rfl

theorem setOwner_idem (e : Entry) (u g : Option Nat) : (e.setOwner u g).setOwner u g = e.setOwner u g := by
  unfold Entry.setOwner
  cases u <;> cases g <;> rfl

/-- the state after chowning the keys `ks` in turn -/
theorem chown_fold (c : ChownOpts) : ∀ (ks : List FsPath) (w : State),
    (ks.foldl (fun w k => chownG c k w) w).files = w.files ∧
    (ks.foldl (fun w k => chownG c k w) w).cwd = w.cwd ∧
    ∀ k, alLookup k (ks.foldl (fun w k => chownG c k w) w).entries =
      if k ∈ ks then (alLookup k w.entries).map (fun e => e.setOwner c.uid c.gid) else alLookup k w.entries := by
  intro ks
  induction ks with
  | nil => intro w; simp
  | cons a ks ih =>
    intro w
    have h1 : (chownG c a w).files = w.files := by unfold chownG; split <;> rfl
    have h2 : (chownG c a w).cwd = w.cwd := by unfold chownG; split <;> rfl
    have h3 : ∀ k, alLookup k (chownG c a w).entries =
        if k = a then (alLookup k w.entries).map (fun e => e.setOwner c.uid c.gid) else alLookup k w.entries := by
      intro k
      unfold chownG
      cases ha : alLookup a w.entries with
      | none =>
        simp only
        split
        · next h => subst h; rw [ha]; rfl
        · rfl
      | some e =>
        simp only [alLookup_alInsert]
        by_cases h : k = a
        · subst h; simp [ha]
        · have : ¬ a = k := fun e => h e.symm
          simp [h, this]
    obtain ⟨i1, i2, i3⟩ := ih (chownG c a w)
    simp only [List.foldl_cons]
    refine ⟨by rw [i1, h1], by rw [i2, h2], ?_⟩
    intro k
    rw [i3 k, h3 k]
    by_cases hka : k = a
    · subst hka
      simp only [List.mem_cons, true_or, if_true]
      split
      · cases alLookup k w.entries with
        | none => rfl
        | some e => simp [setOwner_idem]
      · rfl
    · simp only [List.mem_cons, hka, false_or, if_false]

theorem alLookup_map_if {β} (P : FsPath → Bool) (f : β → β) (k : FsPath) (l : List (FsPath × β)) :
    alLookup k (l.map (fun kv => if P kv.1 then (kv.1, f kv.2) else kv)) =
      (alLookup k l).map (fun v => if P k then f v else v) := by
  induction l with
  | nil => rfl
  | cons x xs ih =>
    obtain ⟨a, b⟩ := x
    simp only [List.map_cons]
    by_cases h : a = k
    · subst h
      cases hp : P a <;> simp [alLookup]
    · cases hp : P a <;> simp [alLookup, h, ih]

/-- every key has fewer than `usize::MAX` components (the traversal's depth limit is never reached) -/
def DepthOk (s : State) : Prop := ∀ kv ∈ s.entries, kv.1.length < 2 ^ 64 - 1

instance (s : State) : Decidable (DepthOk s) := by unfold DepthOk; infer_instance

theorem chownOpts_trav {s : State} {p : FsPath} {snap : Snap} {c : ChownOpts} (hP : InvP s) (hS : SnapOk s p snap)
    (hf : c.follow = false) (hr : c.recursive = true) (hD : DepthOk s) : TravCtx s p snap (chownOpts c) := by
  refine ⟨hP, hS, ?_, ?_, ?_, ?_, ?_, ?_, ?_⟩ <;> simp only [chownOpts, Opts.setMax, hf, hr, if_true]
  intro k hk
  simp only [Nat.not_lt_zero, if_false]
  obtain ⟨kv, hkv, rfl⟩ := List.mem_map.1 ((alLookup_isSome_iff _ _).1 hk)
  exact hD kv hkv

theorem chownOpts_flat {c : ChownOpts} (hf : c.follow = false) (hr : c.recursive = false) : FlatOpts (chownOpts c) := by
  refine ⟨?_, ?_, ?_, ?_, ?_, ?_⟩ <;> simp [chownOpts, Opts.setMax, hf, hr]

theorem absNode_setOwner (s : State) (k : FsPath) (e : Entry) (u g : Option Nat) :
    absNode s k (e.setOwner u g) = { absNode s k e with uid := u.getD (absNode s k e).uid, gid := g.getD (absNode s k e).gid } := rfl

theorem absNode_files_congr {s s' : State} (h : s'.files = s.files) (k : FsPath) (e : Entry) :
    absNode s' k e = absNode s k e := by
  unfold absNode; rw [h]

/-- the abstract effect of chowning exactly the selected live keys -/
theorem chown_tequiv {s : State} {p : FsPath} (c : ChownOpts) (rec : Bool) (ks : List FsPath)
    (hks : ∀ k, (alLookup k s.entries).isSome →
      (k ∈ ks ↔ (decide (k = p) || (rec && isProperPrefix p k && isDir (absS s) p)) = true)) :
    TEquiv (absS (ks.foldl (fun w k => chownG c k w) s))
      { absS s with nodes := (absS s).nodes.map (fun kv =>
          if (decide (kv.1 = p) || (rec && isProperPrefix p kv.1 && isDir (absS s) p))
          then (kv.1, { kv.2 with uid := c.uid.getD kv.2.uid, gid := c.gid.getD kv.2.gid }) else kv) } := by
  obtain ⟨h1, h2, h3⟩ := chown_fold c ks s
  refine ⟨h2, fun k => ?_⟩
  rw [get_absS, h3 k]
  show _ = alLookup k _
  simp only
  rw [alLookup_map_if (fun q => decide (q = p) || (rec && isProperPrefix p q && isDir (absS s) p))
    (fun n : Node => { n with uid := c.uid.getD n.uid, gid := c.gid.getD n.gid })]
  show _ = Option.map _ (get (absS s) k)
  rw [get_absS]
  cases hk : alLookup k s.entries with
  | none => simp
  | some e =>
    have := hks k (by rw [hk]; rfl)
    by_cases hin : k ∈ ks
    · simp only [hin, if_true, Option.map_some, this.1 hin, absNode_files_congr h1, absNode_setOwner]
    · have hsel : (decide (k = p) || (rec && isProperPrefix p k && isDir (absS s) p)) = false := by
        cases hh : (decide (k = p) || (rec && isProperPrefix p k && isDir (absS s) p)) with
        | false => rfl
        | true => exact absurd (this.2 hh) hin
      simp only [hin, if_false, Option.map_some, hsel, absNode_files_congr h1, Bool.false_eq_true]

theorem isDir_absS (s : State) (p : FsPath) :
    isDir (absS s) p = match alLookup p s.entries with | some e => e.dir && !e.link | none => false := by
  unfold isDir
  rw [get_absS]
  cases alLookup p s.entries with
  | none => rfl
  | some e =>
    simp only [Option.map_some]
    have := kind_dir_iff s p e
    cases hd : e.dir <;> cases hl : e.link <;> simp_all

theorem chownK_sim {s : State} {p : FsPath} {c : ChownOpts} (hP : InvP s) (hf : c.follow = false)
    (hD : c.recursive = true → DepthOk s) :
    Sim (mapVal (fun _ => Val.unit) (chownK c p) s)
      (liftR (fun _ => Val.unit) (chown (absS s) p c.uid c.gid c.recursive)) := by
  unfold mapVal chown
  rw [get_absS]
  cases hp : alLookup p s.entries with
  | none =>
    rw [chownK_err (entriesOf_none hp)]
    simp only [Option.map_none, liftR]
    exact sim_err_some (TEquiv.refl _)
  | some e =>
    obtain ⟨snap, hE, hS⟩ := entriesOf_ok hP hp
    rw [chownK_ok hE]
    simp only [Option.map_some, liftR]
    have hpath : e.path = p := hP.pathField p e hp
    -- the keys that get chowned
    have hks : ∃ ks : List FsPath,
        runIter snap (chownOpts c) noPre e (chownStep c) (travFuel snap) {} s =
          (.ok (), ks.foldl (fun w k => chownG c k w) s) ∧
        ∀ k, (alLookup k s.entries).isSome →
          (k ∈ ks ↔ (decide (k = p) || (c.recursive && isProperPrefix p k && isDir (absS s) p)) = true) := by
      cases hr : c.recursive with
      | false =>
        refine ⟨[p], ?_, ?_⟩
        · rw [runIter_flat (chownOpts_flat hf hr) e (chownG c) (chownStep c) (chownStep_eq c) _
            (by unfold travFuel; have : 2 ≤ (snap.length + 2) * (snap.length + 2) :=
                  Nat.le_trans (by omega) (Nat.le_mul_of_pos_left _ (by omega))
                have h3 : 64 * (snap.length + 2) * (snap.length + 2) = 64 * ((snap.length + 2) * (snap.length + 2)) :=
                  Nat.mul_assoc _ _ _
                omega), hpath]
          rfl
        · intro k _; simp
      | true =>
        obtain ⟨ks, h1, h2⟩ := runIter_root (chownOpts_trav hP hS hf hr (hD hr)) hp (chownG c) (chownStep c)
          (chownStep_eq c) (travFuel snap) (travFuel_ge hP hS) s
        refine ⟨ks, h1, ?_⟩
        intro k hk
        rw [h2 k]
        simp only [Bool.true_and, Bool.or_eq_true, decide_eq_true_eq, Bool.and_eq_true]
        constructor
        · intro ⟨hpk, _⟩
          by_cases hkp : k = p
          · exact Or.inl hkp
          · right
            obtain ⟨t, ht⟩ := hpk
            cases t with
            | nil => simp at ht; exact absurd ht.symm hkp
            | cons n r =>
              obtain ⟨pe, fs, g1, g2, g3, _, _⟩ := anc hP r.length r p n rfl (by rw [ht]; exact hk)
              refine ⟨(isProperPrefix_iff _ _).2 ⟨⟨n :: r, ht⟩, by rw [← ht]; simp⟩, ?_⟩
              rw [isDir_absS, g1]; simp [g2, g3]
        · intro h
          refine ⟨?_, hk⟩
          rcases h with h | h
          · rw [h]; exact List.prefix_refl _
          · exact ((isProperPrefix_iff _ _).1 h.1).1
    obtain ⟨ks, h1, h2⟩ := hks
    rw [h1]
    apply sim_ok
    exact chown_tequiv c c.recursive ks h2

theorem chownB_refines (env : Env) (s : State) (p : Str) (c : ChownOpts) (hI : Inv s) (_hW : KeysWf s)
    (_hc : classOf s env (.chownB p c) = "-") (hD : c.recursive = true → DepthOk s) :
    Refines env s (.chownB p c) := by
  rw [refines_iff]
  intro y hy
  simp only [specStep] at hy
  split at hy
  · cases hy
  next hf =>
  simp only [Option.some.injEq] at hy
  subst hy
  show Sim (mapVal (fun _ => Val.unit) (chownM env p c) s) _
  rw [chownM_eq]
  apply sim_withPath
  intro a _
  exact chownK_sim (inv_props hI) (by simpa using hf) hD

theorem chown_refines (env : Env) (s : State) (p : Str) (u g : Nat) (hI : Inv s) (_hW : KeysWf s)
    (_hc : classOf s env (.chown p u g) = "-") (hD : DepthOk s) :
    Refines env s (.chown p u g) := by
  rw [refines_iff]
  intro y hy
  simp only [specStep, Option.some.injEq] at hy
  subst hy
  show Sim (mapVal (fun _ => Val.unit) (chownM env p { uid := some u, gid := some g }) s) _
  rw [chownM_eq]
  apply sim_withPath
  intro a _
  exact chownK_sim (c := { uid := some u, gid := some g }) (inv_props hI) rfl (fun _ => hD)

end Rivia.Lemmas.RefineB
