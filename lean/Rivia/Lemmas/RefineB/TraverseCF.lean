/-
  Rivia.Lemmas.RefineB.TraverseCF — the contents-first / sorted / dirs-first traversal of `runIter` with a
  `pre_op` closure (the configuration `chmod` uses), over a good snapshot: within `travFuel` every live key
  at or below the root is handed to the consumer, nothing else is, and `pre_op`s only run on such keys.
-/
import Rivia.Lemmas.RefineB.Traverse
namespace Rivia.Lemmas.RefineB
open Rivia Rivia.Memfs Rivia.Spec Rivia.Spec.TreeFs M

/-! ### the contents-first, sorted, dirs-first traversal with a `pre_op` (the one `chmod` uses) -/

structure CfCtx (s : State) (p : FsPath) (snap : Snap) (o : Opts) : Prop where
  inv : InvP s
  snapOk : SnapOk s p snap
  follow : o.follow = false
  minDepth : o.minDepth = 0
  cf : o.contentsFirst = true
  files : o.files = false
  dirs : o.dirs = false
  sorted : o.sorted = true
  dirsFirst : o.dirsFirst = true
  deep : ∀ k, (alLookup k s.entries).isSome → k.length < o.maxDepth

/-! #### sorting is a permutation -/

theorem insertSorted_perm (le : Entry → Entry → Bool) (x : Entry) (l : List Entry) :
    (insertSorted le x l).Perm (x :: l) := by
  induction l with
  | nil => exact List.Perm.refl _
  | cons y ys ih =>
    unfold insertSorted
    split
    · exact List.Perm.refl _
    · exact (List.Perm.cons y ih).trans (List.Perm.swap x y ys)

theorem sortEntries_perm (le : Entry → Entry → Bool) (l : List Entry) : (sortEntries le l).Perm l := by
  induction l with
  | nil => exact List.Perm.refl _
  | cons x xs ih =>
    unfold sortEntries
    rw [List.foldr_cons]
    exact (insertSorted_perm _ x _).trans (List.Perm.cons x ih)

/-- the items of a directory iterator in this configuration -/
def cfItems (s : State) (x : Entry) : List Entry :=
  sortEntries nameLe ((kidEntries s x).filter (·.dir)) ++ sortEntries nameLe ((kidEntries s x).filter (fun y => !y.dir))

theorem cfItems_perm (s : State) (x : Entry) : (cfItems s x).Perm (kidEntries s x) := by
  unfold cfItems
  exact (List.Perm.append (sortEntries_perm _ _) (sortEntries_perm _ _)).trans (List.filter_append_perm _ _)

theorem mem_cfItems {s : State} {x y : Entry} : y ∈ cfItems s x ↔ y ∈ kidEntries s x := (cfItems_perm s x).mem_iff

theorem itemsSize_cfItems (s : State) (x : Entry) : itemsSize s (cfItems s x) = itemsSize s (kidEntries s x) := by
  unfold itemsSize
  exact ((cfItems_perm s x).map _).sum_nat

variable {s : State} {p : FsPath} {snap : Snap} {o : Opts}

theorem mkIter_cf (hC : CfCtx s p snap o) {x : Entry} (hx : alLookup x.path s.entries = some x)
    (hpx : p <+: x.path) : mkIter snap o x.path = .ok ⟨x.path, true, cfItems s x⟩ := by
  have hsx : alLookup x.path snap = some x := by
    rw [hC.snapOk.complete x.path hpx (by rw [hx]; rfl), hx]
  unfold mkIter
  simp only [hsx, hC.sorted, hC.dirsFirst, if_true, hC.follow]
  have hk : ∀ k ∈ cloneKids x.path x, alLookup k snap = alLookup k s.entries := by
    intro k hk
    have hpres := kids_present hC.inv hx k hk
    refine hC.snapOk.complete k ?_ hpres
    unfold cloneKids at hk
    cases hf : x.files with
    | none => rw [hf] at hk; cases hk
    | some fs =>
      rw [hf] at hk
      obtain ⟨n, _, rfl⟩ := List.mem_map.1 hk
      exact hpx.trans (List.prefix_append _ _)
  have hraw : (List.filterMap id (List.takeWhile Option.isSome (List.map (fun k => alLookup k snap) (cloneKids x.path x)))) =
      kidEntries s x := by
    rw [takeWhile_isSome_all, filterMap_id_map]
    · unfold kidEntries
      exact filterMap_congr' hk
    · intro a ha
      obtain ⟨k, hk', rfl⟩ := List.mem_map.1 ha
      rw [hk k hk']; exact kids_present hC.inv hx k hk'
  have : (List.map (fun x => x.doFollow false) (kidEntries s x)) = kidEntries s x := by
    rw [List.map_congr_left (fun a _ => doFollow_false a), List.map_id']
  show Outcome.ok (EIter.mk x.path true
    (sortEntries nameLe (List.filter (·.dir) (List.map (fun x => x.doFollow false) (List.filterMap id
      (List.takeWhile Option.isSome (List.map (fun k => alLookup k snap) (cloneKids x.path x)))))) ++
     sortEntries nameLe (List.filter (fun x => !x.dir) (List.map (fun x => x.doFollow false) (List.filterMap id
      (List.takeWhile Option.isSome (List.map (fun k => alLookup k snap) (cloneKids x.path x)))))))) = _
  rw [hraw, this]; rfl

section proc
variable {σ : Type} (pre : Entry → σ → Outcome Unit × σ) (gPre : Entry → σ → σ)
  (hpre : ∀ x w, pre x w = (.ok (), gPre x w))
include hpre

/-- a real directory: the `pre_op` runs, its iterator is pushed and the entry is deferred -/
theorem process_cf_dir (hC : CfCtx s p snap o) (st : ISt) {x : Entry} (hx : alLookup x.path s.entries = some x)
    (hpx : p <+: x.path) (hd : x.dir = true) (hl : x.link = false) (hdepth : st.iters.length < o.maxDepth) (w : σ) :
    process snap o pre st x w =
      (none, { st with iters := ⟨x.path, true, cfItems s x⟩ :: st.iters,
                       deferred := (st.iters.length, x) :: st.deferred }, gPre x w) := by
  unfold process
  simp only [hd, hl, Bool.not_false, true_or, and_self, if_true, Bool.false_eq_true, false_and, if_false, hdepth, hpre,
    mkIter_cf hC hx hpx, hC.sorted, hC.minDepth, Nat.not_lt_zero, hC.cf, hC.files, hC.dirs, and_false, or_self]

omit hpre in
/-- a link to a directory: not descended into, deferred -/
theorem process_cf_dirlink (hC : CfCtx s p snap o) (st : ISt) {x : Entry} (hd : x.dir = true) (hl : x.link = true)
    (w : σ) : process snap o pre st x w = (none, { st with deferred := (st.iters.length, x) :: st.deferred }, w) := by
  unfold process
  simp only [hd, hl, Bool.not_true, hC.follow, Bool.false_eq_true, or_self, and_false, if_false, hC.minDepth,
    Nat.not_lt_zero, hC.cf, and_self, if_true, hC.files, hC.dirs, false_and]

omit hpre in
/-- anything else is yielded at once -/
theorem process_cf_leaf (hC : CfCtx s p snap o) (st : ISt) {x : Entry} (hd : x.dir = false) (w : σ) :
    process snap o pre st x w = (some (.ok x), st, w) := by
  unfold process
  simp only [hd, Bool.false_eq_true, false_and, if_false, hC.minDepth, Nat.not_lt_zero, hC.files, hC.dirs,
    Bool.not_false, and_false, or_self]

end proc

/-! #### `nextLoop` with `contents_first` -/

/-- the depths recorded in the deferred stack (`min_depth = 0`): the directory found at depth `i`
    is the `i`-th from the bottom -/
def DepthsOk : List (Nat × Entry) → Prop
  | [] => True
  | (d, _) :: ds => d = ds.length ∧ DepthsOk ds

/-- with these depths the release test of the repaired `next()` is the old one: the stack of
    open directories is lower than the deferred stack -/
theorem ready_eq {df : List (Nat × Entry)} (h : DepthsOk df) (n : Nat) :
    deferredReady n df = decide (n < df.length) := by
  cases df with
  | nil => simp [deferredReady]
  | cons d ds =>
    obtain ⟨dd, de⟩ := d
    obtain ⟨h1, _⟩ := h
    simp only [deferredReady, List.length_cons, h1]
    congr 1
    exact propext ⟨fun h => by omega, fun h => by omega⟩

theorem nlc_def {σ} (hcf : o.contentsFirst = true) (pre : Entry → σ → Outcome Unit × σ) (g : Nat) (st : ISt) (w : σ)
    {d : Nat × Entry} {ds : List (Nat × Entry)} (hk : DepthsOk st.deferred)
    (h : st.iters.length < st.deferred.length) (hd : st.deferred = d :: ds) :
    nextLoop snap o pre (g + 1) st w = (some (.ok d.2), { st with deferred := ds }, w) := by
  have hr := ready_eq hk st.iters.length
  rw [decide_eq_true h, hd] at hr
  rw [nextLoop]
  cases hi : st.iters with
  | nil =>
    simp only [hcf, if_true, hd]
  | cons top below =>
    rw [hi] at hr
    simp only [hcf, hd, hr, and_self, if_true]

theorem nlc_nil {σ} (pre : Entry → σ → Outcome Unit × σ) (g : Nat) (st : ISt) (w : σ)
    (hi : st.iters = []) (hd : st.deferred = []) : nextLoop snap o pre (g + 1) st w = (none, st, w) := by
  rw [nextLoop]
  simp only [hi, hd]
  split <;> rfl

theorem nlc_pop {σ} (pre : Entry → σ → Outcome Unit × σ) (g : Nat) (st : ISt) (w : σ)
    {top : EIter} {below : List EIter} (hk : DepthsOk st.deferred) (hi : st.iters = top :: below)
    (h : ¬ st.iters.length < st.deferred.length)
    (ht : top.items = []) :
    nextLoop snap o pre (g + 1) st w =
      nextLoop snap o pre g { st with iters := below, openDesc := if top.cached then st.openDesc else st.openDesc - 1 } w := by
  have hr := ready_eq hk st.iters.length
  rw [decide_eq_false h, hi] at hr
  rw [nextLoop]
  simp only [hi, hr, Bool.false_eq_true, and_false, if_false, ht]

theorem nlc_item {σ} (pre : Entry → σ → Outcome Unit × σ) (g : Nat) (st : ISt) (w : σ)
    {top : EIter} {below : List EIter} {x : Entry} {xs : List Entry} (hk : DepthsOk st.deferred)
    (hi : st.iters = top :: below)
    (h : ¬ st.iters.length < st.deferred.length) (ht : top.items = x :: xs) :
    nextLoop snap o pre (g + 1) st w =
      match process snap o pre { st with iters := { top with items := xs } :: below } (x.doFollow o.follow) w with
      | (some r, st2, w2) => (some r, st2, w2)
      | (none, st2, w2) => nextLoop snap o pre g st2 w2 := by
  have hr := ready_eq hk st.iters.length
  rw [decide_eq_false h, hi] at hr
  rw [nextLoop]
  simp only [hi, hr, Bool.false_eq_true, and_false, if_false, ht]
  rfl

/-! #### invariant, remaining keys, potential -/

structure CfInv (s : State) (p : FsPath) (st : ISt) : Prop where
  started : st.started = true
  stack : StackOk s p st.iters
  defOk : ∀ d ∈ st.deferred.map (·.2), ItemOk s p d
  stk : DepthsOk st.deferred
  len : st.deferred.length = st.iters.length ∨ st.deferred.length = st.iters.length + 1

/-- `k` is live and at or below the item `x` -/
def Cov (s : State) (x : Entry) (k : FsPath) : Prop := x.path <+: k ∧ (alLookup k s.entries).isSome

def RemCf (s : State) (st : ISt) (k : FsPath) : Prop :=
  RemK s st.iters k ∨ ∃ d ∈ st.deferred.map (·.2), d.path = k

def potCf (s : State) (st : ISt) : Nat := 3 * remSize s st.iters + st.iters.length + st.deferred.length

theorem remK_cons (s : State) (it : EIter) (below : List EIter) (k : FsPath) :
    RemK s (it :: below) k ↔ (∃ x ∈ it.items, Cov s x k) ∨ RemK s below k := by
  unfold RemK Cov
  constructor
  · intro ⟨it', hit, x, hx, h⟩
    rcases List.mem_cons.1 hit with rfl | h'
    · exact Or.inl ⟨x, hx, h⟩
    · exact Or.inr ⟨it', h', x, hx, h⟩
  · intro h
    rcases h with ⟨x, hx, h⟩ | ⟨it', hit, x, hx, h⟩
    · exact ⟨it, by simp, x, hx, h⟩
    · exact ⟨it', by simp [hit], x, hx, h⟩

/-- the live keys at or below an item: itself and what its listed children cover -/
theorem cov_item (hP : InvP s) {x : Entry} (hx : ItemOk s p x) (k : FsPath) :
    Cov s x k ↔ (k = x.path ∨ (x.dir = true ∧ x.link = false ∧ ∃ y ∈ kidEntries s x, Cov s y k)) := by
  unfold Cov
  constructor
  · intro ⟨⟨t, ht⟩, hk⟩
    cases t with
    | nil => left; simpa using ht.symm
    | cons n r =>
      right
      obtain ⟨pe, fs, g1, g2, g3, g4, g5⟩ := anc hP r.length r x.path n rfl (by rw [ht]; exact hk)
      rw [hx.1] at g1; cases g1
      obtain ⟨z, hz, hzp⟩ := kidEntries_of_name hP hx.1 g4 g5
      exact ⟨g2, g3, z, hz, by rw [hzp]; exact ⟨r, by rw [← ht]; simp⟩, hk⟩
  · intro h
    rcases h with rfl | ⟨_, _, y, hy, hyk, hk⟩
    · exact ⟨List.prefix_refl _, by rw [hx.1]; rfl⟩
    · obtain ⟨fs, n, _, _, hyp, _⟩ := kidEntries_mem hP hx.1 hy
      exact ⟨(hyp ▸ List.prefix_append x.path [n] : x.path <+: y.path).trans hyk, hk⟩

theorem itemOk_kid (hP : InvP s) {x y : Entry} (hx : ItemOk s p x) (hy : y ∈ kidEntries s x) :
    ItemOk s p y ∧ y.path.length = x.path.length + 1 := by
  obtain ⟨fs, n, _, _, hyp, hyl⟩ := kidEntries_mem hP hx.1 hy
  refine ⟨⟨hyl, ?_⟩, ?_⟩
  · rw [hyp]; exact hx.2.trans (List.prefix_append _ _)
  · rw [hyp]; simp

section main
variable {σ : Type} (pre : Entry → σ → Outcome Unit × σ) (gPre : Entry → σ → σ)
  (hpre : ∀ x w, pre x w = (.ok (), gPre x w))
include hpre

/-- up to the next yield: some real directories get their `pre_op`, then one remaining entry is yielded -/
theorem nextLoop_cf (hC : CfCtx s p snap o) : ∀ (g : Nat) (st : ISt) (w : σ), CfInv s p st → potCf s st + 1 ≤ g →
    (∃ st', nextLoop snap o pre g st w = (none, st', w) ∧ ∀ k, ¬ RemCf s st k) ∨
    (∃ (pres : List Entry) (y : Entry) (st' : ISt),
      nextLoop snap o pre g st w = (some (.ok y), st', pres.foldl (fun w x => gPre x w) w) ∧
      (∀ x ∈ pres, ItemOk s p x) ∧ CfInv s p st' ∧ potCf s st' + 1 ≤ potCf s st ∧ ItemOk s p y ∧
      ∀ k, RemCf s st k ↔ (k = y.path ∨ RemCf s st' k)) := by
  intro g
  induction g with
  | zero => intro st w _ h; omega
  | succ g ih =>
    intro st w hI hg
    by_cases hlt : st.iters.length < st.deferred.length
    · -- a deferred directory is due
      cases hd : st.deferred with
      | nil => rw [hd] at hlt; simp at hlt
      | cons d ds =>
        right
        refine ⟨[], d.2, { st with deferred := ds }, nlc_def hC.cf pre g st w hI.stk hlt hd, by simp,
          ⟨hI.started, hI.stack, fun x hx => hI.defOk x (by rw [hd]; simp only [List.map_cons]; exact List.mem_cons_of_mem _ hx),
            (by have := hI.stk; rw [hd] at this; exact this.2), ?_⟩, ?_,
          hI.defOk d.2 (by rw [hd]; simp), ?_⟩
        · have := hI.len
          rw [hd] at this hlt
          simp only [List.length_cons] at this hlt ⊢
          left; omega
        · unfold potCf; rw [hd]; simp only [List.length_cons]; omega
        · intro k
          unfold RemCf
          rw [hd]
          simp only [List.map_cons, List.mem_cons, exists_eq_or_imp]
          (try grind)
    · have hlen : st.deferred.length = st.iters.length := by
        rcases hI.len with h | h
        · exact h
        · omega
      cases hi : st.iters with
      | nil =>
        left
        have hd : st.deferred = [] := by
          rw [hi] at hlen; exact List.length_eq_zero_iff.1 hlen
        refine ⟨st, nlc_nil pre g st w hi hd, ?_⟩
        intro k hk
        unfold RemCf RemK at hk
        rw [hi, hd] at hk
        rcases hk with ⟨it, hit, _⟩ | ⟨d, hd', _⟩
        · cases hit
        · cases hd'
      | cons top below =>
        have hstk : StackOk s p (top :: below) := hi ▸ hI.stack
        cases hti : top.items with
        | nil =>
          -- drop the exhausted iterator
          rw [nlc_pop pre g st w hI.stk hi hlt hti]
          have hI1 : CfInv s p { st with iters := below, openDesc := if top.cached then st.openDesc else st.openDesc - 1 } :=
            ⟨hI.started, hstk.2, hI.defOk, hI.stk, Or.inr (by rw [hlen, hi]; rfl)⟩
          have hpot : potCf s { st with iters := below, openDesc := if top.cached then st.openDesc else st.openDesc - 1 } + 1
              = potCf s st := by
            unfold potCf
            simp only [hi, remSize, hti, itemsSize, List.map_nil, List.sum_nil, List.length_cons]
            omega
          have hrem : ∀ k, RemCf s st k ↔
              RemCf s { st with iters := below, openDesc := if top.cached then st.openDesc else st.openDesc - 1 } k := by
            intro k
            unfold RemCf
            simp only [hi, remK_cons, hti, List.not_mem_nil, false_and, exists_false, false_or]
          rcases ih _ w hI1 (by omega) with ⟨st', h1, h2⟩ | ⟨pres, y, st', h1, h2, h3, h4, h5, h6⟩
          · exact Or.inl ⟨st', h1, fun k hk => h2 k ((hrem k).1 hk)⟩
          · exact Or.inr ⟨pres, y, st', h1, h2, h3, by omega, h5, fun k => (hrem k).trans (h6 k)⟩
        | cons x xs =>
          rw [nlc_item pre g st w hI.stk hi hlt hti, hC.follow, doFollow_false]
          have hxo := hstk.1 x (by rw [hti]; simp)
          have hxsok : ∀ y ∈ xs, ItemOk s p y ∧ y.path.length = p.length + below.length + 1 :=
            fun y hy => hstk.1 y (by rw [hti]; simp [hy])
          have hpos := sizeAt_pos (s := s) (w := x.path) (by rw [hxo.1.1]; rfl)
          have hrs : remSize s st.iters = sizeAt s x.path + itemsSize s xs + remSize s below := by
            rw [hi]; simp only [remSize, hti, itemsSize_cons]
          -- the state with `x` taken off its iterator
          have hrem1 : ∀ k, RemCf s st k ↔ (Cov s x k ∨
              RemCf s { st with iters := { top with items := xs } :: below } k) := by
            intro k
            unfold RemCf
            simp only [hi, remK_cons, hti, List.mem_cons, exists_eq_or_imp]
            (try grind)
          cases hxd : x.dir with
          | false =>
            -- yielded at once
            rw [process_cf_leaf pre hC _ hxd w]
            right
            refine ⟨[], x, _, rfl, by simp, ⟨hI.started, ⟨hxsok, hstk.2⟩, hI.defOk, hI.stk, Or.inl (by rw [hlen, hi]; rfl)⟩, ?_,
              hxo.1, ?_⟩
            · unfold potCf; rw [hrs]; simp only [remSize, hi, List.length_cons]; omega
            · intro k
              rw [hrem1 k, cov_item hC.inv hxo.1 k]
              simp [hxd]
          | true =>
            cases hxl : x.link with
            | true =>
              -- a link to a directory: deferred, and yielded by the next iteration
              rw [process_cf_dirlink pre hC _ hxd hxl w]
              dsimp only
              have hI2 : CfInv s p { st with iters := { top with items := xs } :: below, deferred := (({ top with items := xs } :: below).length, x) :: st.deferred } :=
                ⟨hI.started, ⟨hxsok, hstk.2⟩, fun d hd => by
                    rcases List.mem_cons.1 hd with rfl | h
                    · exact hxo.1
                    · exact hI.defOk d h,
                  ⟨by simp only [List.length_cons]; rw [hlen, hi]; rfl, hI.stk⟩,
                  Or.inr (by simp only [List.length_cons]; rw [hlen, hi]; rfl)⟩
              have hpot2 : potCf s { st with iters := { top with items := xs } :: below, deferred := (({ top with items := xs } :: below).length, x) :: st.deferred } + 1
                  ≤ potCf s st := by
                unfold potCf; rw [hrs]; simp only [remSize, hi, List.length_cons]; omega
              have hrem2 : ∀ k, RemCf s st k ↔
                  RemCf s { st with iters := { top with items := xs } :: below, deferred := (({ top with items := xs } :: below).length, x) :: st.deferred } k := by
                intro k
                rw [hrem1 k, cov_item hC.inv hxo.1 k]
                unfold RemCf
                simp only [hxl, Bool.true_eq_false, false_and, and_false, or_false, List.map_cons, List.mem_cons, exists_eq_or_imp]
                (try grind)
              rcases ih _ w hI2 (by omega) with ⟨st', _, h2⟩ | ⟨pres, y, st', h1, h2, h3, h4, h5, h6⟩
              · exact absurd (Or.inr ⟨x, by simp, rfl⟩) (h2 x.path)
              · exact Or.inr ⟨pres, y, st', h1, h2, h3, by omega, h5, fun k => (hrem2 k).trans (h6 k)⟩
            | false =>
              -- a real directory: `pre_op`, descend, defer
              have hdeep := hC.deep x.path (by rw [hxo.1.1]; rfl)
              rw [process_cf_dir pre gPre hpre hC _ hxo.1.1 hxo.1.2 hxd hxl
                (by simp only [List.length_cons]; omega) w]
              dsimp only
              have hI2 : CfInv s p { st with
                  iters := ⟨x.path, true, cfItems s x⟩ :: { top with items := xs } :: below,
                  deferred := (({ top with items := xs } :: below).length, x) :: st.deferred } :=
                ⟨hI.started,
                  ⟨fun y hy => by
                      obtain ⟨h1, h2⟩ := itemOk_kid hC.inv hxo.1 (mem_cfItems.1 hy)
                      exact ⟨h1, by simp only [List.length_cons]; omega⟩,
                    hxsok, hstk.2⟩,
                  fun d hd => by
                    rcases List.mem_cons.1 hd with rfl | h
                    · exact hxo.1
                    · exact hI.defOk d h,
                  ⟨by simp only [List.length_cons]; rw [hlen, hi]; rfl, hI.stk⟩,
                  Or.inl (by simp only [List.length_cons]; rw [hlen, hi]; rfl)⟩
              have hsz := kidEntries_size hC.inv hxo.1.1
              have hpot2 : potCf s { st with
                  iters := ⟨x.path, true, cfItems s x⟩ :: { top with items := xs } :: below,
                  deferred := (({ top with items := xs } :: below).length, x) :: st.deferred } + 1 ≤ potCf s st := by
                unfold potCf; rw [hrs]
                simp only [remSize, hi, List.length_cons, itemsSize_cfItems]; omega
              have hrem2 : ∀ k, RemCf s st k ↔ RemCf s { st with
                  iters := ⟨x.path, true, cfItems s x⟩ :: { top with items := xs } :: below,
                  deferred := (({ top with items := xs } :: below).length, x) :: st.deferred } k := by
                intro k
                rw [hrem1 k, cov_item hC.inv hxo.1 k]
                unfold RemCf
                simp only [hxd, hxl, true_and, remK_cons, List.map_cons, List.mem_cons, exists_eq_or_imp, mem_cfItems]
                (try grind)
              rcases ih _ (gPre x w) hI2 (by omega) with ⟨st', _, h2⟩ | ⟨pres, y, st', h1, h2, h3, h4, h5, h6⟩
              · exact absurd (Or.inr ⟨x, by simp, rfl⟩) (h2 x.path)
              · refine Or.inr ⟨x :: pres, y, st', by rw [h1]; rfl, ?_, h3, by omega, h5,
                  fun k => (hrem2 k).trans (h6 k)⟩
                intro z hz
                rcases List.mem_cons.1 hz with rfl | h
                · exact hxo.1
                · exact h2 z h

variable (gStep : Entry → σ → σ) (stepF : Entry → σ → Outcome Unit × σ)
  (hstep : ∀ x w, stepF x w = (.ok (), gStep x w))
include hstep

/-- a `pre_op` (`false`) or a consumer step (`true`) on an entry -/
def cfAct {σ : Type} (gPre gStep : Entry → σ → σ) (w : σ) (a : Bool × Entry) : σ :=
  if a.1 then gStep a.2 w else gPre a.2 w

omit hpre hstep in
theorem foldl_pres (pres : List Entry) (w : σ) :
    pres.foldl (fun w x => gPre x w) w = (pres.map (fun x => (false, x))).foldl (cfAct gPre gStep) w := by
  induction pres generalizing w with
  | nil => rfl
  | cons x xs ih => simp only [List.foldl_cons, List.map_cons]; rw [ih]; rfl

theorem runIter_cf_started (hC : CfCtx s p snap o) (rootE : Entry) :
    ∀ (F : Nat) (st : ISt) (w : σ), CfInv s p st → potCf s st + 2 ≤ F →
      ∃ acts : List (Bool × Entry),
        runIter snap o pre rootE stepF F st w = (.ok (), acts.foldl (cfAct gPre gStep) w) ∧
        (∀ a ∈ acts, ItemOk s p a.2) ∧
        ∀ k, RemCf s st k ↔ ∃ a ∈ acts, a.1 = true ∧ a.2.path = k := by
  intro F
  induction F with
  | zero => intro st w _ h; omega
  | succ F ih =>
    intro st w hI hF
    rcases nextLoop_cf pre gPre hpre hC (F + 1) st w hI (by omega) with
      ⟨st', h1, h2⟩ | ⟨pres, y, st', h1, h2, h3, h4, h5, h6⟩
    · refine ⟨[], ?_, by simp, ?_⟩
      · rw [runIter_none pre rootE stepF F st st' w w (by rw [nextE_started _ _ _ _ _ hI.started]; exact h1)]; rfl
      · intro k; simp only [List.not_mem_nil, false_and, exists_false, iff_false]; exact h2 k
    · have hnext : nextE snap o pre rootE (F + 1) st w = (some (.ok y), st', pres.foldl (fun w x => gPre x w) w) := by
        rw [nextE_started _ _ _ _ _ hI.started]; exact h1
      rw [runIter_yield pre rootE stepF F st st' w _ _ y hnext (hstep y _)]
      obtain ⟨acts', a1, a2, a3⟩ := ih st' (gStep y (pres.foldl (fun w x => gPre x w) w)) h3 (by omega)
      refine ⟨pres.map (fun x => (false, x)) ++ (true, y) :: acts', ?_, ?_, ?_⟩
      · rw [a1, List.foldl_append, List.foldl_cons, ← foldl_pres gPre gStep]; rfl
      · intro a ha
        rcases List.mem_append.1 ha with h | h
        · obtain ⟨x, hx, rfl⟩ := List.mem_map.1 h; exact h2 x hx
        · rcases List.mem_cons.1 h with rfl | h
          · exact h5
          · exact a2 a h
      · intro k
        rw [h6 k, a3 k]
        constructor
        · rintro (rfl | ⟨a, ha, hb⟩)
          · exact ⟨(true, y), by simp, rfl, rfl⟩
          · exact ⟨a, by simp [ha], hb⟩
        · rintro ⟨a, ha, hb1, hb2⟩
          rcases List.mem_append.1 ha with h | h
          · obtain ⟨x, _, rfl⟩ := List.mem_map.1 h; cases hb1
          · rcases List.mem_cons.1 h with rfl | h
            · exact Or.inl hb2.symm
            · exact Or.inr ⟨a, h, hb1, hb2⟩

omit hpre hstep in
theorem runIter_fresh_none (rootE : Entry) (F : Nat) (w w' : σ) (st' : ISt)
    (h : process snap o pre { ({} : ISt) with started := true } (rootE.doFollow o.follow) w = (none, st', w'))
    (hs : st'.started = true) :
    runIter snap o pre rootE stepF (F + 1) {} w = runIter snap o pre rootE stepF (F + 1) st' w' := by
  have h1 : nextE snap o pre rootE (F + 1) {} w = nextLoop snap o pre (F + 1) st' w' := by
    unfold nextE
    simp only [Bool.not_false, if_true, h]
  rw [runIter, runIter, h1, nextE_started _ _ _ _ _ hs]

/-- from a fresh iterator: every live key at or below the root gets the consumer step (and only those);
    `pre_op`s only touch such keys -/
theorem runIter_cf_root (hC : CfCtx s p snap o) {e : Entry} (he : alLookup p s.entries = some e)
    (F : Nat) (hF : 3 * sizeAt s p + 3 ≤ F) (w : σ) :
    ∃ acts : List (Bool × Entry),
      runIter snap o pre e stepF F {} w = (.ok (), acts.foldl (cfAct gPre gStep) w) ∧
      (∀ a ∈ acts, ItemOk s p a.2) ∧
      ∀ k, (p <+: k ∧ (alLookup k s.entries).isSome) ↔ ∃ a ∈ acts, a.1 = true ∧ a.2.path = k := by
  have hpath : e.path = p := hC.inv.pathField p e he
  have hio : ItemOk s p e := ⟨by rw [hpath]; exact he, by rw [hpath]; exact List.prefix_refl _⟩
  obtain ⟨F', rfl⟩ : ∃ F', F = F' + 1 := ⟨F - 1, by omega⟩
  have hcov : ∀ k, (p <+: k ∧ (alLookup k s.entries).isSome) ↔ Cov s e k := by
    intro k; unfold Cov; rw [hpath]
  cases hed : e.dir with
  | false =>
    have hproc := process_cf_leaf pre hC { ({} : ISt) with started := true } hed w
    have hnext : nextE snap o pre e (F' + 1) {} w = (some (.ok e), { ({} : ISt) with started := true }, w) := by
      apply nextE_fresh; rw [hC.follow, doFollow_false]; exact hproc
    rw [runIter_yield pre e stepF F' {} _ w w _ e hnext (hstep e w)]
    obtain ⟨acts', a1, a2, a3⟩ := runIter_cf_started pre gPre hpre gStep stepF hstep hC e F'
      { ({} : ISt) with started := true } (gStep e w)
      ⟨rfl, trivial, (by intro d hd; cases hd), trivial, Or.inl rfl⟩ (by unfold potCf; simp [remSize]; omega)
    refine ⟨(true, e) :: acts', by rw [a1]; rfl, ?_, ?_⟩
    · intro a ha
      rcases List.mem_cons.1 ha with rfl | h
      · exact hio
      · exact a2 a h
    · intro k
      rw [hcov k, cov_item hC.inv hio k]
      simp only [hed, Bool.false_eq_true, false_and, or_false, List.mem_cons, exists_eq_or_imp, true_and]
      have : ∀ k, ¬ RemCf s { ({} : ISt) with started := true } k := by
        intro k hk
        rcases hk with ⟨it, hit, _⟩ | ⟨d, hd, _⟩
        · cases hit
        · cases hd
      constructor
      · intro h; exact Or.inl h.symm
      · rintro (h | h)
        · exact h.symm
        · exact absurd ((a3 k).2 h) (this k)
  | true =>
    cases hel : e.link with
    | true =>
      have hproc : process snap o pre { ({} : ISt) with started := true } (e.doFollow o.follow) w =
          (none, { ({} : ISt) with started := true, deferred := [(0, e)] }, w) := by
        rw [hC.follow, doFollow_false]
        exact process_cf_dirlink pre hC { ({} : ISt) with started := true } hed hel w
      rw [runIter_fresh_none pre stepF e F' w w _ hproc rfl]
      obtain ⟨acts', a1, a2, a3⟩ := runIter_cf_started pre gPre hpre gStep stepF hstep hC e (F' + 1)
        { ({} : ISt) with started := true, deferred := [(0, e)] } w
        ⟨rfl, trivial, fun d hd => by simp at hd; subst hd; exact hio, ⟨rfl, trivial⟩, Or.inr rfl⟩
        (by unfold potCf; simp [remSize]; omega)
      refine ⟨acts', a1, a2, ?_⟩
      intro k
      rw [← a3 k, hcov k, cov_item hC.inv hio k]
      unfold RemCf RemK
      simp [hel]
      exact eq_comm
    | false =>
      have hdeep := hC.deep e.path (by rw [hio.1]; rfl)
      have hproc := process_cf_dir pre gPre hpre hC { ({} : ISt) with started := true } hio.1 hio.2 hed hel
        (by simp only [List.length_nil]; omega) w
      have hproc' : process snap o pre { ({} : ISt) with started := true } (e.doFollow o.follow) w =
          (none, { ({} : ISt) with started := true, iters := [⟨e.path, true, cfItems s e⟩], deferred := [(0, e)] },
            gPre e w) := by
        rw [hC.follow, doFollow_false]; exact hproc
      rw [runIter_fresh_none pre stepF e F' w _ _ hproc' rfl]
      have hsz := kidEntries_size hC.inv hio.1
      rw [hpath] at hsz
      obtain ⟨acts', a1, a2, a3⟩ := runIter_cf_started pre gPre hpre gStep stepF hstep hC e (F' + 1)
        { ({} : ISt) with started := true, iters := [⟨e.path, true, cfItems s e⟩], deferred := [(0, e)] } (gPre e w)
        ⟨rfl, ⟨fun y hy => by
            obtain ⟨h1, h2⟩ := itemOk_kid hC.inv hio (mem_cfItems.1 hy)
            exact ⟨h1, by rw [h2, hpath]; simp⟩, trivial⟩,
          fun d hd => by simp at hd; subst hd; exact hio, ⟨rfl, trivial⟩, Or.inl rfl⟩
        (by unfold potCf; simp only [remSize, itemsSize_cfItems, List.length_cons, List.length_nil]; omega)
      refine ⟨(false, e) :: acts', by rw [a1]; rfl, ?_, ?_⟩
      · intro a ha
        rcases List.mem_cons.1 ha with rfl | h
        · exact hio
        · exact a2 a h
      · intro k
        have h3 := a3 k
        rw [hcov k, cov_item hC.inv hio k]
        simp only [hed, hel, true_and, List.mem_cons, exists_eq_or_imp, Bool.false_eq_true, false_and, false_or]
        rw [← h3]
        unfold RemCf
        simp only [remK_cons, mem_cfItems, List.mem_cons, List.not_mem_nil, or_false, exists_eq_left]
        unfold RemK
        simp only [List.not_mem_nil, false_and, exists_false, or_false, List.map_cons, List.map_nil, List.mem_cons,
          exists_eq_left]
        constructor
        · rintro (h | h)
          · exact Or.inr h.symm
          · exact Or.inl h
        · rintro (h | h)
          · exact Or.inr h
          · exact Or.inl h.symm

end main

end Rivia.Lemmas.RefineB
