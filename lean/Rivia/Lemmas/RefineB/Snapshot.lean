/-
  Rivia.Lemmas.RefineB.Snapshot — `_clone_entries` (`cloneLoop`/`cloneEntries`/`entriesOf`): under the
  invariant the snapshot succeeds within its fuel, only holds live entries, and holds the whole
  subtree below the requested root.
-/
import Rivia.Lemmas.RefineB.RemoveAll
namespace Rivia.Lemmas.RefineB
open Rivia Rivia.Memfs Rivia.Spec Rivia.Spec.TreeFs M

/-! ### counting -/

theorem countP_add_one_le {α} {P Q : α → Bool} {K : List α} {w : α} (hPQ : ∀ k ∈ K, P k = true → Q k = true)
    (hw : w ∈ K) (hQ : Q w = true) (hP : P w = false) : K.countP P + 1 ≤ K.countP Q := by
  induction K with
  | nil => cases hw
  | cons k K' ih =>
    rw [List.countP_cons, List.countP_cons]
    rcases List.mem_cons.1 hw with h | h
    · subst h
      have := List.countP_mono_left (l := K') (p := P) (q := Q) (fun x hx => hPQ x (List.mem_cons_of_mem _ hx))
      simp only [hP, hQ, if_true, Bool.false_eq_true, if_false]
      omega
    · have := ih (fun x hx => hPQ x (List.mem_cons_of_mem _ hx)) h
      have h2 : P k = true → Q k = true := hPQ k (by simp)
      cases hp : P k <;> cases hq : Q k <;> simp_all <;> omega

theorem countP_disjoint_add_le {α} {P Q R : α → Bool} {K : List α}
    (hd : ∀ k ∈ K, ¬ (P k = true ∧ Q k = true)) (hP : ∀ k ∈ K, P k = true → R k = true)
    (hQ : ∀ k ∈ K, Q k = true → R k = true) : K.countP P + K.countP Q ≤ K.countP R := by
  induction K with
  | nil => simp
  | cons k K' ih =>
    rw [List.countP_cons, List.countP_cons, List.countP_cons]
    have := ih (fun x hx => hd x (List.mem_cons_of_mem _ hx)) (fun x hx => hP x (List.mem_cons_of_mem _ hx))
      (fun x hx => hQ x (List.mem_cons_of_mem _ hx))
    have h1 := hd k (by simp)
    have h2 := hP k (by simp)
    have h3 := hQ k (by simp)
    cases hp : P k <;> cases hq : Q k <;> cases hr : R k <;> simp_all <;> omega

def keysOf (s : State) : List FsPath := s.entries.map (·.1)

/-- number of keys at or below `w` -/
def sizeAt (s : State) (w : FsPath) : Nat := (keysOf s).countP (fun k => isPrefixOrEq w k)

theorem sizeAt_le (s : State) (w : FsPath) : sizeAt s w ≤ s.entries.length := by
  unfold sizeAt keysOf
  have := List.countP_le_length (p := fun k => isPrefixOrEq w k) (l := s.entries.map (·.1))
  simpa using this

theorem sizeAt_pos {s : State} {w : FsPath} (h : (alLookup w s.entries).isSome) : 1 ≤ sizeAt s w := by
  unfold sizeAt
  have hm := (alLookup_isSome_iff _ _).1 h
  have : 0 < (keysOf s).countP (fun k => isPrefixOrEq w k) :=
    List.countP_pos_iff.2 ⟨w, hm, (isPrefixOrEq_iff w w).2 (List.prefix_refl _)⟩
  omega

theorem snoc_prefix_inj {w k : FsPath} {a b : Str} (ha : (w ++ [a]) <+: k) (hb : (w ++ [b]) <+: k) : a = b := by
  obtain ⟨t1, h1⟩ := ha
  obtain ⟨t2, h2⟩ := hb
  rw [← h2] at h1
  simp only [List.append_assoc] at h1
  have := List.append_cancel_left h1
  simp at this
  exact this.1

/-- the subtrees of distinct children are disjoint parts of the parent's subtree -/
theorem kids_size_le (s : State) (w : FsPath) (hw : w ∈ keysOf s) :
    ∀ fs : List Str, fs.Nodup → (fs.map (fun n => sizeAt s (w ++ [n]))).sum + 1 ≤ sizeAt s w := by
  have key : ∀ fs : List Str, fs.Nodup → (fs.map (fun n => sizeAt s (w ++ [n]))).sum ≤
      (keysOf s).countP (fun k => fs.any (fun n => isPrefixOrEq (w ++ [n]) k)) := by
    intro fs
    induction fs with
    | nil => intro _; simp
    | cons a fs ih =>
      intro hnd
      have hnd' := List.nodup_cons.1 hnd
      rw [List.map_cons, List.sum_cons]
      have := ih hnd'.2
      refine Nat.le_trans (Nat.add_le_add_left this _) ?_
      unfold sizeAt
      apply countP_disjoint_add_le
      · intro k _ ⟨h1, h2⟩
        rw [List.any_eq_true] at h2
        obtain ⟨b, hb, h2⟩ := h2
        have := snoc_prefix_inj ((isPrefixOrEq_iff _ _).1 h1) ((isPrefixOrEq_iff _ _).1 h2)
        exact hnd'.1 (this ▸ hb)
      · intro k _ h; simp [h]
      · intro k _ h
        rw [List.any_eq_true] at h ⊢
        obtain ⟨b, hb, h2⟩ := h
        exact ⟨b, by simp [hb], h2⟩
  intro fs hnd
  refine Nat.le_trans (Nat.add_le_add_right (key fs hnd) 1) ?_
  unfold sizeAt
  apply countP_add_one_le (w := w)
  · intro k _ h
    rw [List.any_eq_true] at h
    obtain ⟨b, _, h2⟩ := h
    exact (isPrefixOrEq_iff _ _).2 ((List.prefix_append w [b]).trans ((isPrefixOrEq_iff _ _).1 h2))
  · exact hw
  · exact (isPrefixOrEq_iff _ _).2 (List.prefix_refl _)
  · cases h : fs.any (fun n => isPrefixOrEq (w ++ [n]) w) with
    | false => rfl
    | true =>
      rw [List.any_eq_true] at h
      obtain ⟨b, _, h2⟩ := h
      exact absurd ((isPrefixOrEq_iff _ _).1 h2) (prefix_snoc_not_self w b)

/-! ### the snapshot worklist -/

/-- keys not yet in the snapshot -/
def unv (s : State) (acc : Snap) : Nat := (keysOf s).countP (fun k => (alLookup k acc).isNone)

theorem unv_le (s : State) (acc : Snap) : unv s acc ≤ s.entries.length := by
  unfold unv keysOf
  have := List.countP_le_length (p := fun k => (alLookup k acc).isNone) (l := s.entries.map (·.1))
  simpa using this

theorem unv_insert_le (s : State) (acc : Snap) (p : FsPath) (e : Entry) : unv s (alInsert p e acc) ≤ unv s acc := by
  unfold unv
  apply List.countP_mono_left
  intro k _ h
  rw [alLookup_alInsert] at h
  split at h
  · cases h
  · exact h

theorem unv_insert_lt {s : State} {acc : Snap} {p : FsPath} (e : Entry) (hp : p ∈ keysOf s)
    (hn : alLookup p acc = none) : unv s (alInsert p e acc) + 1 ≤ unv s acc := by
  unfold unv
  apply countP_add_one_le (w := p)
  · intro k _ h
    rw [alLookup_alInsert] at h
    split at h
    · cases h
    · exact h
  · exact hp
  · rw [hn]; rfl
  · rw [alLookup_alInsert_self]; rfl

def cloneKids (p : FsPath) (e : Entry) : List FsPath :=
  match e.files with | some fs => fs.map (fun n => p ++ [n]) | none => []

def clonePot (s : State) (work : List FsPath) (acc : Snap) : Nat :=
  (work.map (sizeAt s)).sum + (s.entries.length + 1) * unv s acc

structure CloneInv (s : State) (work : List FsPath) (acc : Snap) : Prop where
  workEx : ∀ w ∈ work, (alLookup w s.entries).isSome
  accOk : ∀ k e, alLookup k acc = some e → alLookup k s.entries = some e
  links : ∀ k e a, alLookup k acc = some e → e.link = true → e.alt = some a →
    (alLookup a s.entries).isSome → (alLookup a acc).isSome ∨ work.head? = some a

theorem cloneLoop_step (ents : List (FsPath × Entry)) (f : Nat) (p : FsPath) (work : List FsPath) (acc : Snap)
    (e : Entry) (h : alLookup p ents = some e) :
    cloneLoop ents (f + 1) (p :: work) acc =
      cloneLoop ents f
        (match e.alt with
          | some a => if e.link ∧ (alLookup a ents).isSome ∧ (alLookup a (alInsert e.path e acc)).isNone
              then a :: ((cloneKids e.path e).reverse ++ work) else (cloneKids e.path e).reverse ++ work
          | none => (cloneKids e.path e).reverse ++ work)
        (alInsert e.path e acc) := by
  rw [cloneLoop]
  simp only [h]
  rfl

theorem kids_sum_le {s : State} (hP : InvP s) {p : FsPath} {e : Entry} (hp : alLookup p s.entries = some e) :
    ((cloneKids p e).map (sizeAt s)).sum + 1 ≤ sizeAt s p := by
  unfold cloneKids
  cases hf : e.files with
  | none => simpa using sizeAt_pos (by rw [hp]; rfl)
  | some fs =>
    have := kids_size_le s p ((alLookup_isSome_iff _ _).1 (by rw [hp]; rfl)) fs (hP.childNodup p e fs hp hf)
    rw [List.map_map]; exact this

theorem cloneLoop_ok {s : State} (hP : InvP s) : ∀ (f : Nat) (work : List FsPath) (acc : Snap),
    CloneInv s work acc → clonePot s work acc ≤ f →
    ∃ snap, cloneLoop s.entries f work acc = .ok snap ∧
      (∀ k e, alLookup k snap = some e → alLookup k s.entries = some e) ∧
      (∀ k e, alLookup k acc = some e → alLookup k snap = some e) ∧
      (∀ w ∈ work, ∀ k, w <+: k → (alLookup k s.entries).isSome → alLookup k snap = alLookup k s.entries) := by
  intro f
  induction f with
  | zero =>
    intro work acc hC hpot
    cases work with
    | nil => exact ⟨acc, rfl, hC.accOk, fun _ _ h => h, fun w hw => by cases hw⟩
    | cons p work =>
      have := sizeAt_pos (hC.workEx p (by simp))
      unfold clonePot at hpot
      simp only [List.map_cons, List.sum_cons] at hpot
      omega
  | succ f ih =>
    intro work acc hC hpot
    cases work with
    | nil => exact ⟨acc, rfl, hC.accOk, fun _ _ h => h, fun w hw => by cases hw⟩
    | cons p work =>
      have hex := hC.workEx p (by simp)
      cases hpe : alLookup p s.entries with
      | none => rw [hpe] at hex; cases hex
      | some e =>
        have hpath : e.path = p := hP.pathField p e hpe
        have hpk : p ∈ keysOf s := (alLookup_isSome_iff _ _).1 (by rw [hpe]; rfl)
        rw [cloneLoop_step s.entries f p work acc e hpe, hpath]
        -- the kids exist
        have hkidsEx : ∀ w ∈ cloneKids p e, (alLookup w s.entries).isSome := by
          intro w hw
          unfold cloneKids at hw
          cases hf : e.files with
          | none => rw [hf] at hw; cases hw
          | some fs =>
            rw [hf] at hw
            obtain ⟨n, hn, rfl⟩ := List.mem_map.1 hw
            exact hP.listed p e fs n hpe hf hn
        have hsum := kids_sum_le hP hpe
        have hwork1 : (((cloneKids p e).reverse ++ work).map (sizeAt s)).sum + 1 ≤
            ((p :: work).map (sizeAt s)).sum := by
          rw [List.map_append, List.sum_append_nat, List.map_reverse, List.sum_reverse_nat, List.map_cons, List.sum_cons]
          omega
        have haccOk1 : ∀ k e', alLookup k (alInsert p e acc) = some e' → alLookup k s.entries = some e' := by
          intro k e' h
          rw [alLookup_alInsert] at h
          split at h
          · next hk => cases h; rw [← hk]; exact hpe
          · exact hC.accOk k e' h
        have hsub1 : ∀ k e', alLookup k acc = some e' → alLookup k (alInsert p e acc) = some e' := by
          intro k e' h
          rw [alLookup_alInsert]
          split
          · next hk => subst hk; have := hC.accOk _ _ h; rw [hpe] at this; exact this
          · exact h
        -- which worklist comes next
        have hnext : ∀ work2, (∀ w ∈ work2, (alLookup w s.entries).isSome) →
            (∀ w ∈ (cloneKids p e).reverse ++ work, w ∈ work2) →
            (∀ k e' a, alLookup k (alInsert p e acc) = some e' → e'.link = true → e'.alt = some a →
              (alLookup a s.entries).isSome → (alLookup a (alInsert p e acc)).isSome ∨ work2.head? = some a) →
            clonePot s work2 (alInsert p e acc) ≤ f →
            ∃ snap, cloneLoop s.entries f work2 (alInsert p e acc) = .ok snap ∧
              (∀ k e, alLookup k snap = some e → alLookup k s.entries = some e) ∧
              (∀ k e, alLookup k acc = some e → alLookup k snap = some e) ∧
              (∀ w ∈ p :: work, ∀ k, w <+: k → (alLookup k s.entries).isSome →
                alLookup k snap = alLookup k s.entries) := by
          intro work2 hex2 hsub2 hlinks2 hpot2
          obtain ⟨snap, h1, h2, h3, h4⟩ := ih work2 (alInsert p e acc) ⟨hex2, haccOk1, hlinks2⟩ hpot2
          refine ⟨snap, h1, h2, fun k e' h => h3 k e' (hsub1 k e' h), ?_⟩
          intro w hw k hwk hk
          rcases List.mem_cons.1 hw with hw | hw
          · subst hw
            obtain ⟨t, ht⟩ := hwk
            cases t with
            | nil =>
              simp at ht; subst ht
              rw [h3 w e (alLookup_alInsert_self _ _ _), hpe]
            | cons x r =>
              obtain ⟨pe, fs, g1, _, _, g4, g5⟩ := anc hP r.length r w x rfl (by rw [ht]; exact hk)
              rw [hpe] at g1; cases g1
              have hmem : w ++ [x] ∈ cloneKids w e := by
                unfold cloneKids; rw [g4]; exact List.mem_map.2 ⟨x, g5, rfl⟩
              refine h4 (w ++ [x]) (hsub2 _ (by simp [hmem])) k ?_ hk
              exact ⟨r, by rw [← ht]; simp⟩
          · exact h4 w (hsub2 w (by simp [hw])) k hwk hk
        have hlinksOld : ∀ k e' a, alLookup k acc = some e' → e'.link = true → e'.alt = some a →
            (alLookup a s.entries).isSome → (alLookup a (alInsert p e acc)).isSome := by
          intro k e' a h hl ha hae
          rcases hC.links k e' a h hl ha hae with h' | h'
          · cases hh : alLookup a acc with
            | none => rw [hh] at h'; cases h'
            | some ea => rw [hsub1 a ea hh]; rfl
          · simp only [List.head?_cons, Option.some.injEq] at h'
            subst h'; rw [alLookup_alInsert_self]; rfl
        cases halt : e.alt with
        | none =>
          simp only
          apply hnext
          · intro w hw
            rcases List.mem_append.1 hw with hw | hw
            · exact hkidsEx w (List.mem_reverse.1 hw)
            · exact hC.workEx w (by simp [hw])
          · exact fun w hw => hw
          · intro k e' a h hl ha hae
            rw [alLookup_alInsert] at h
            split at h
            · cases h; rw [halt] at ha; cases ha
            · exact Or.inl (hlinksOld k e' a h hl ha hae)
          · unfold clonePot at hpot ⊢
            have := unv_insert_le s acc p e
            have := Nat.mul_le_mul_left (s.entries.length + 1) this
            omega
        | some a =>
          simp only
          split
          · next hcond =>
            obtain ⟨hl, hae, han⟩ := hcond
            -- `p` cannot have been in the snapshot already
            have hpn : alLookup p acc = none := by
              cases hh : alLookup p acc with
              | none => rfl
              | some e0 =>
                have := hC.accOk p e0 hh
                rw [hpe] at this; cases this
                rcases hC.links p e a hh hl halt hae with h' | h'
                · cases hh2 : alLookup a acc with
                  | none => rw [hh2] at h'; cases h'
                  | some ea => rw [hsub1 a ea hh2] at han; cases han
                · simp only [List.head?_cons, Option.some.injEq] at h'
                  subst h'; rw [alLookup_alInsert_self] at han; cases han
            apply hnext
            · intro w hw
              rcases List.mem_cons.1 hw with hw | hw
              · subst hw; exact hae
              rcases List.mem_append.1 hw with hw | hw
              · exact hkidsEx w (List.mem_reverse.1 hw)
              · exact hC.workEx w (by simp [hw])
            · exact fun w hw => List.mem_cons_of_mem _ hw
            · intro k e' a' h hl' ha' hae'
              rw [alLookup_alInsert] at h
              split at h
              · cases h; rw [halt] at ha'; cases ha'; exact Or.inr rfl
              · exact Or.inl (hlinksOld k e' a' h hl' ha' hae')
            · unfold clonePot at hpot ⊢
              have h1 := unv_insert_lt e hpk hpn
              have h2 := Nat.mul_le_mul_left (s.entries.length + 1) h1
              have h3 := sizeAt_le s a
              simp only [List.map_cons, List.sum_cons] at hpot hwork1 ⊢
              rw [Nat.mul_add] at h2
              omega
          · next hcond =>
            apply hnext
            · intro w hw
              rcases List.mem_append.1 hw with hw | hw
              · exact hkidsEx w (List.mem_reverse.1 hw)
              · exact hC.workEx w (by simp [hw])
            · exact fun w hw => hw
            · intro k e' a' h hl' ha' hae'
              rw [alLookup_alInsert] at h
              split at h
              · cases h; rw [halt] at ha'; cases ha'
                left
                cases hh : alLookup a (alInsert p e acc) with
                | some _ => rfl
                | none => exact absurd ⟨hl', hae', by rw [hh]; rfl⟩ hcond
              · exact Or.inl (hlinksOld k e' a' h hl' ha' hae')
            · unfold clonePot at hpot ⊢
              have := unv_insert_le s acc p e
              have := Nat.mul_le_mul_left (s.entries.length + 1) this
              omega

/-- what the traversals need from a snapshot rooted at `p` -/
structure SnapOk (s : State) (p : FsPath) (snap : Snap) : Prop where
  sound : ∀ k e, alLookup k snap = some e → alLookup k s.entries = some e
  complete : ∀ k, p <+: k → (alLookup k s.entries).isSome → alLookup k snap = alLookup k s.entries

theorem entriesOf_none {s : State} {p : FsPath} (h : alLookup p s.entries = none) :
    entriesOf s p = .err .doesNotExist := by
  unfold entriesOf; rw [h]

theorem entriesOf_ok {s : State} (hP : InvP s) {p : FsPath} {e : Entry} (h : alLookup p s.entries = some e) :
    ∃ snap, entriesOf s p = .ok (e, snap) ∧ SnapOk s p snap := by
  have hC : CloneInv s [p] [] :=
    ⟨fun w hw => by simp at hw; subst hw; rw [h]; rfl, fun k e h => by simp [alLookup] at h,
      fun k e a h => by simp [alLookup] at h⟩
  have hpot : clonePot s [p] [] ≤ 4 * (s.entries.length + 1) * (s.entries.length + 1) := by
    unfold clonePot
    have h1 := sizeAt_le s p
    have h2 := Nat.mul_le_mul_left (s.entries.length + 1) (unv_le s [])
    simp only [List.map_cons, List.map_nil, List.sum_cons, List.sum_nil]
    have h3 : (s.entries.length + 1) * s.entries.length ≤ (s.entries.length + 1) * (s.entries.length + 1) :=
      Nat.mul_le_mul_left _ (by omega)
    have h4 : 4 * (s.entries.length + 1) * (s.entries.length + 1) =
        4 * ((s.entries.length + 1) * (s.entries.length + 1)) := Nat.mul_assoc _ _ _
    have h5 : s.entries.length ≤ (s.entries.length + 1) * (s.entries.length + 1) :=
      Nat.le_trans (by omega) (Nat.le_mul_of_pos_left _ (by omega))
    omega
  obtain ⟨snap, h1, h2, _, h4⟩ := cloneLoop_ok hP _ [p] [] hC hpot
  refine ⟨snap, ?_, ⟨h2, fun k hk hk' => h4 p (by simp) k hk hk'⟩⟩
  unfold entriesOf cloneEntries
  rw [h, h1]

end Rivia.Lemmas.RefineB
