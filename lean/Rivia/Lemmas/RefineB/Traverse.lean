/-
  Rivia.Lemmas.RefineB.Traverse — the plain pre-order traversal of `runIter` (no follow, unsorted,
  not contents-first, no filter, no pre_op) over a good snapshot: every live key at or below the
  root is yielded, nothing else, within `travFuel`.
-/
import Rivia.Lemmas.RefineB.Snapshot
namespace Rivia.Lemmas.RefineB
open Rivia Rivia.Memfs Rivia.Spec Rivia.Spec.TreeFs M

/-! ### the plain pre-order traversal (no follow, unsorted, not contents-first, no filter) -/

structure TravCtx (s : State) (p : FsPath) (snap : Snap) (o : Opts) : Prop where
  inv : InvP s
  snapOk : SnapOk s p snap
  follow : o.follow = false
  minDepth : o.minDepth = 0
  cf : o.contentsFirst = false
  files : o.files = false
  dirs : o.dirs = false
  sorted : o.sorted = false
  deep : ∀ k, (alLookup k s.entries).isSome → k.length < o.maxDepth

theorem doFollow_false (e : Entry) : e.doFollow false = e := by
  unfold Entry.doFollow; simp

/-- the entries of the listed children -/
def kidEntries (s : State) (x : Entry) : List Entry :=
  (cloneKids x.path x).filterMap (fun k => alLookup k s.entries)

theorem takeWhile_isSome_all {α} {l : List (Option α)} (h : ∀ a ∈ l, a.isSome = true) :
    l.takeWhile Option.isSome = l := by
  induction l with
  | nil => rfl
  | cons a l ih =>
    rw [List.takeWhile_cons, if_pos (h a (by simp)), ih (fun b hb => h b (List.mem_cons_of_mem _ hb))]

theorem filterMap_id_map {α β} (f : α → Option β) (l : List α) : (l.map f).filterMap id = l.filterMap f := by
  induction l with
  | nil => rfl
  | cons a l ih => simp [List.filterMap_cons, ih]

theorem filterMap_congr' {α β} {f g : α → Option β} {l : List α} (h : ∀ a ∈ l, f a = g a) :
    l.filterMap f = l.filterMap g := by
  induction l with
  | nil => rfl
  | cons a l ih =>
    rw [List.filterMap_cons, List.filterMap_cons, h a (by simp), ih (fun b hb => h b (List.mem_cons_of_mem _ hb))]

variable {s : State} {p : FsPath} {snap : Snap} {o : Opts}

theorem kids_present (hP : InvP s) {x : Entry} (hx : alLookup x.path s.entries = some x) :
    ∀ k ∈ cloneKids x.path x, (alLookup k s.entries).isSome := by
  intro k hk
  unfold cloneKids at hk
  cases hf : x.files with
  | none => rw [hf] at hk; cases hk
  | some fs =>
    rw [hf] at hk
    obtain ⟨n, hn, rfl⟩ := List.mem_map.1 hk
    exact hP.listed _ x fs n hx hf hn

theorem mkIter_ok (hC : TravCtx s p snap o) {x : Entry} (hx : alLookup x.path s.entries = some x)
    (hpx : p <+: x.path) : mkIter snap o x.path = .ok ⟨x.path, false, kidEntries s x⟩ := by
  have hsx : alLookup x.path snap = some x := by
    rw [hC.snapOk.complete x.path hpx (by rw [hx]; rfl), hx]
  unfold mkIter
  simp only [hsx, hC.sorted, Bool.false_eq_true, if_false, hC.follow]
  have hk : ∀ k ∈ cloneKids x.path x, alLookup k snap = alLookup k s.entries := by
    intro k hk
    have hpres := kids_present hC.inv hx k hk
    refine hC.snapOk.complete k ?_ hpres
    unfold cloneKids at hk
    cases hf : x.files with
    | none => rw [hf] at hk; cases hk
    | some fs =>
      rw [hf] at hk
      obtain ⟨n, _, rfl⟩ := List.mem_map.1 hk
      exact hpx.trans (List.prefix_append _ _)
  have hraw : (List.filterMap id (List.takeWhile Option.isSome (List.map (fun k => alLookup k snap) (cloneKids x.path x)))) =
      kidEntries s x := by
    rw [takeWhile_isSome_all, filterMap_id_map]
    · unfold kidEntries
      exact filterMap_congr' hk
    · intro a ha
      obtain ⟨k, hk', rfl⟩ := List.mem_map.1 ha
      rw [hk k hk']; exact kids_present hC.inv hx k hk'
  have : (List.map (fun x => x.doFollow false) (kidEntries s x)) = kidEntries s x := by
    rw [List.map_congr_left (fun a _ => doFollow_false a), List.map_id']
  show Outcome.ok (EIter.mk x.path false (List.map (fun x => x.doFollow false) (List.filterMap id
    (List.takeWhile Option.isSome (List.map (fun k => alLookup k snap) (cloneKids x.path x)))))) = _
  rw [hraw, this]

theorem process_leaf {σ} (hC : TravCtx s p snap o) (st : ISt) (x : Entry) (w : σ)
    (h : ¬ (x.dir = true ∧ x.link = false)) :
    process snap o noPre st x w = (some (.ok x), st, w) := by
  unfold process
  have h' : ¬ (x.dir = true ∧ ((!x.link) = true ∨ o.follow = true)) := by
    rw [hC.follow]; intro ⟨h1, h2⟩; apply h
    refine ⟨h1, ?_⟩
    rcases h2 with h2 | h2
    · simpa using h2
    · cases h2
  simp only [h', if_false, hC.minDepth, Nat.not_lt_zero, hC.cf, Bool.false_eq_true, and_false, hC.files, hC.dirs,
    false_and, Bool.not_false, or_self]

theorem process_dir {σ} (hC : TravCtx s p snap o) (st : ISt) {x : Entry} (hx : alLookup x.path s.entries = some x)
    (hpx : p <+: x.path) (hd : x.dir = true) (hl : x.link = false) (hdepth : st.iters.length < o.maxDepth) (w : σ) :
    ∃ st', process snap o noPre st x w = (some (.ok x), st', w) ∧ st'.started = st.started ∧
      ∃ c, st'.iters = ⟨x.path, c, kidEntries s x⟩ :: st.iters := by
  unfold process
  simp only [hd, hl, Bool.not_false, true_or, and_self, if_true, Bool.false_eq_true, false_and, if_false, hdepth, noPre,
    mkIter_ok hC hx hpx, hC.sorted, false_or]
  by_cases hod : st.openDesc + 1 > o.maxDesc
  · simp only [hod, if_true, hC.minDepth, Nat.not_lt_zero, if_false, hC.cf, Bool.false_eq_true, and_false, hC.files,
      hC.dirs, false_and, Bool.not_false, or_self]
    exact ⟨_, rfl, rfl, _, rfl⟩
  · simp only [hod, if_false, hC.minDepth, Nat.not_lt_zero, hC.cf, Bool.false_eq_true, and_false, hC.files,
      hC.dirs, false_and, Bool.not_false, or_self]
    exact ⟨_, rfl, rfl, _, rfl⟩

/-! ### `nextLoop` -/

theorem nextLoop_nil {σ} (hcf : o.contentsFirst = false) (pre : Entry → σ → Outcome Unit × σ) (g : Nat) (st : ISt) (w : σ)
    (h : st.iters = []) : nextLoop snap o pre (g + 1) st w = (none, st, w) := by
  rw [nextLoop]
  simp only [h, hcf, Bool.false_eq_true, false_and, if_false]

theorem nextLoop_pop {σ} (hcf : o.contentsFirst = false) (pre : Entry → σ → Outcome Unit × σ) (g : Nat) (st : ISt) (w : σ)
    {top : EIter} {below : List EIter} (h : st.iters = top :: below) (ht : top.items = []) :
    nextLoop snap o pre (g + 1) st w =
      nextLoop snap o pre g { st with iters := below, openDesc := if top.cached then st.openDesc else st.openDesc - 1 } w := by
  rw [nextLoop]
  simp only [h, hcf, Bool.false_eq_true, false_and, if_false, ht]

theorem nextLoop_item {σ} (hcf : o.contentsFirst = false) (pre : Entry → σ → Outcome Unit × σ) (g : Nat) (st : ISt) (w : σ)
    {top : EIter} {below : List EIter} {x : Entry} {xs : List Entry} (h : st.iters = top :: below)
    (ht : top.items = x :: xs) :
    nextLoop snap o pre (g + 1) st w =
      match process snap o pre { st with iters := { top with items := xs } :: below } (x.doFollow o.follow) w with
      | (some r, st2, w2) => (some r, st2, w2)
      | (none, st2, w2) => nextLoop snap o pre g st2 w2 := by
  rw [nextLoop]
  simp only [h, hcf, Bool.false_eq_true, false_and, if_false, ht]
  rfl

def ItemOk (s : State) (p : FsPath) (x : Entry) : Prop := alLookup x.path s.entries = some x ∧ p <+: x.path

def StackOk (s : State) (p : FsPath) : List EIter → Prop
  | [] => True
  | it :: below => (∀ x ∈ it.items, ItemOk s p x ∧ x.path.length = p.length + below.length + 1) ∧ StackOk s p below

def AllEmpty (l : List EIter) : Prop := ∀ it ∈ l, it.items = []

/-- processing an item of a well-formed stack always yields it -/
theorem process_item {σ} (hC : TravCtx s p snap o) (st : ISt) {x : Entry} (hx : ItemOk s p x)
    (hlen : x.path.length = p.length + st.iters.length) (w : σ) :
    ∃ st', process snap o noPre st x w = (some (.ok x), st', w) ∧ st'.started = st.started ∧
      ((¬ (x.dir = true ∧ x.link = false) ∧ st'.iters = st.iters) ∨
       ((x.dir = true ∧ x.link = false) ∧ ∃ c, st'.iters = ⟨x.path, c, kidEntries s x⟩ :: st.iters)) := by
  by_cases h : x.dir = true ∧ x.link = false
  · have hdeep := hC.deep x.path (by rw [hx.1]; rfl)
    obtain ⟨st', h1, h2, h3⟩ := process_dir hC st hx.1 hx.2 h.1 h.2 (by omega) w
    exact ⟨st', h1, h2, Or.inr ⟨h, h3⟩⟩
  · exact ⟨st, process_leaf hC st x w h, rfl, Or.inl ⟨h, rfl⟩⟩

theorem allEmpty_nil : AllEmpty [] := by intro it h; cases h

theorem nextLoop_spec {σ} (hC : TravCtx s p snap o) : ∀ (iters : List EIter) (g : Nat) (st : ISt) (w : σ),
    st.iters = iters → iters.length + 1 ≤ g → StackOk s p iters →
    (AllEmpty iters ∧ ∃ st', nextLoop snap o noPre g st w = (none, st', w)) ∨
    (∃ E top below x xs od, iters = E ++ top :: below ∧ AllEmpty E ∧ top.items = x :: xs ∧
      nextLoop snap o noPre g st w =
        process snap o noPre { st with iters := { top with items := xs } :: below, openDesc := od } x w) := by
  intro iters
  induction iters with
  | nil =>
    intro g st w hst hg _
    obtain ⟨g', rfl⟩ : ∃ g', g = g' + 1 := ⟨g - 1, by simp at hg; omega⟩
    exact Or.inl ⟨allEmpty_nil, st, nextLoop_nil hC.cf noPre g' st w hst⟩
  | cons top below ih =>
    intro g st w hst hg hok
    obtain ⟨g', rfl⟩ : ∃ g', g = g' + 1 := ⟨g - 1, by simp at hg; omega⟩
    cases hti : top.items with
    | nil =>
      rw [nextLoop_pop hC.cf noPre g' st w hst hti]
      rcases ih g' { st with iters := below, openDesc := if top.cached then st.openDesc else st.openDesc - 1 } w rfl
        (by simp at hg; omega) hok.2 with ⟨h1, h2⟩ | ⟨E, top', below', x, xs, od, h1, h2, h3, h4⟩
      · left
        refine ⟨?_, h2⟩
        intro it hit
        rcases List.mem_cons.1 hit with h | h
        · subst h; exact hti
        · exact h1 it h
      · right
        refine ⟨top :: E, top', below', x, xs, od, by rw [h1]; rfl, ?_, h3, h4⟩
        intro it hit
        rcases List.mem_cons.1 hit with h | h
        · subst h; exact hti
        · exact h2 it h
    | cons x xs =>
      right
      refine ⟨[], top, below, x, xs, st.openDesc, rfl, allEmpty_nil, hti, ?_⟩
      rw [nextLoop_item hC.cf noPre g' st w hst hti, hC.follow, doFollow_false]
      have hxo := hok.1 x (by rw [hti]; simp)
      obtain ⟨st', h1, _⟩ := process_item hC { st with iters := { top with items := xs } :: below } hxo.1
        (by simp only [List.length_cons]; omega) w
      rw [h1]

/-! ### the yields of `runIter` -/

def itemsSize (s : State) (xs : List Entry) : Nat := (xs.map (fun x => sizeAt s x.path)).sum

def remSize (s : State) : List EIter → Nat
  | [] => 0
  | it :: below => itemsSize s it.items + remSize s below

def RemK (s : State) (iters : List EIter) (k : FsPath) : Prop :=
  ∃ it ∈ iters, ∃ x ∈ it.items, x.path <+: k ∧ (alLookup k s.entries).isSome

theorem remSize_append (s : State) (a b : List EIter) : remSize s (a ++ b) = remSize s a + remSize s b := by
  induction a with
  | nil => simp [remSize]
  | cons it a ih => simp [remSize, ih]; omega

theorem remSize_allEmpty (s : State) {E : List EIter} (h : AllEmpty E) : remSize s E = 0 := by
  induction E with
  | nil => rfl
  | cons it E ih =>
    have h1 : it.items = [] := h it (by simp)
    simp [remSize, h1, itemsSize, ih (fun x hx => h x (List.mem_cons_of_mem _ hx))]

theorem stackOk_suffix : ∀ (E l : List EIter), StackOk s p (E ++ l) → StackOk s p l := by
  intro E
  induction E with
  | nil => intro l h; exact h
  | cons it E ih => intro l h; exact ih l h.2

theorem filterMap_paths {f : FsPath → Option Entry} : ∀ {l : List FsPath},
    (∀ k ∈ l, ∃ e, f k = some e ∧ e.path = k) → (l.filterMap f).map (·.path) = l := by
  intro l
  induction l with
  | nil => intro _; rfl
  | cons k l ih =>
    intro h
    obtain ⟨e, h1, h2⟩ := h k (by simp)
    rw [List.filterMap_cons, h1]
    simp only [List.map_cons, h2]
    rw [ih (fun k' hk' => h k' (List.mem_cons_of_mem _ hk'))]

theorem kidEntries_paths (hP : InvP s) {x : Entry} (hx : alLookup x.path s.entries = some x) :
    (kidEntries s x).map (·.path) = cloneKids x.path x := by
  unfold kidEntries
  apply filterMap_paths
  intro k hk
  have := kids_present hP hx k hk
  cases hh : alLookup k s.entries with
  | none => rw [hh] at this; cases this
  | some e => exact ⟨e, rfl, hP.pathField k e hh⟩

theorem kidEntries_size (hP : InvP s) {x : Entry} (hx : alLookup x.path s.entries = some x) :
    itemsSize s (kidEntries s x) + 1 ≤ sizeAt s x.path := by
  have := kids_sum_le hP hx
  rw [← kidEntries_paths hP hx, List.map_map] at this
  exact this

theorem kidEntries_mem (hP : InvP s) {x y : Entry} (_hx : alLookup x.path s.entries = some x)
    (hy : y ∈ kidEntries s x) :
    ∃ fs n, x.files = some fs ∧ n ∈ fs ∧ y.path = x.path ++ [n] ∧ alLookup y.path s.entries = some y := by
  unfold kidEntries at hy
  obtain ⟨k, hk, hky⟩ := List.mem_filterMap.1 hy
  unfold cloneKids at hk
  cases hf : x.files with
  | none => rw [hf] at hk; cases hk
  | some fs =>
    rw [hf] at hk
    obtain ⟨n, hn, rfl⟩ := List.mem_map.1 hk
    have hp := hP.pathField _ y hky
    exact ⟨fs, n, rfl, hn, hp, by rw [hp]; exact hky⟩

theorem kidEntries_of_name (hP : InvP s) {x : Entry} (hx : alLookup x.path s.entries = some x)
    {fs : List Str} {n : Str} (hf : x.files = some fs) (hn : n ∈ fs) :
    ∃ y ∈ kidEntries s x, y.path = x.path ++ [n] := by
  have := hP.listed _ x fs n hx hf hn
  cases hh : alLookup (x.path ++ [n]) s.entries with
  | none => rw [hh] at this; cases this
  | some y =>
    refine ⟨y, ?_, hP.pathField _ y hh⟩
    unfold kidEntries
    refine List.mem_filterMap.2 ⟨x.path ++ [n], ?_, hh⟩
    unfold cloneKids; rw [hf]; exact List.mem_map.2 ⟨n, hn, rfl⟩

theorem runIter_none {σ} (pre : Entry → σ → Outcome Unit × σ) (rootE : Entry) (stepF : Entry → σ → Outcome Unit × σ)
    (F : Nat) (st st' : ISt) (w w' : σ) (h : nextE snap o pre rootE (F + 1) st w = (none, st', w')) :
    runIter snap o pre rootE stepF (F + 1) st w = (.ok (), w') := by
  rw [runIter, h]

theorem runIter_yield {σ} (pre : Entry → σ → Outcome Unit × σ) (rootE : Entry) (stepF : Entry → σ → Outcome Unit × σ)
    (F : Nat) (st st' : ISt) (w w' w'' : σ) (e : Entry) (h : nextE snap o pre rootE (F + 1) st w = (some (.ok e), st', w'))
    (hs : stepF e w' = (.ok (), w'')) :
    runIter snap o pre rootE stepF (F + 1) st w = runIter snap o pre rootE stepF F st' w'' := by
  rw [runIter, h]
  simp only [hs]

theorem nextE_started {σ} (pre : Entry → σ → Outcome Unit × σ) (rootE : Entry) (g : Nat) (st : ISt) (w : σ)
    (h : st.started = true) : nextE snap o pre rootE g st w = nextLoop snap o pre g st w := by
  unfold nextE; simp [h]

theorem itemsSize_cons (s : State) (x : Entry) (xs : List Entry) :
    itemsSize s (x :: xs) = sizeAt s x.path + itemsSize s xs := by
  simp [itemsSize]

theorem runIter_started {τ} (hC : TravCtx s p snap o) (rootE : Entry) (g : FsPath → τ → τ)
    (stepF : Entry → τ → Outcome Unit × τ) (hstep : ∀ e w, stepF e w = (.ok (), g e.path w)) :
    ∀ (F : Nat) (st : ISt) (w : τ), st.started = true → StackOk s p st.iters →
      2 * remSize s st.iters + st.iters.length + 2 ≤ F →
      ∃ ks : List FsPath, runIter snap o noPre rootE stepF F st w = (.ok (), ks.foldl (fun w k => g k w) w) ∧
        ∀ k, k ∈ ks ↔ RemK s st.iters k := by
  intro F
  induction F with
  | zero => intro st w _ _ h; omega
  | succ F ih =>
    intro st w hst hok hF
    rcases nextLoop_spec hC st.iters (F + 1) st w rfl (by omega) hok with
      ⟨h1, st', h2⟩ | ⟨E, top, below, x, xs, od, h1, h2, h3, h4⟩
    · refine ⟨[], ?_, ?_⟩
      · rw [runIter_none noPre rootE stepF F st st' w w (by rw [nextE_started _ _ _ _ _ hst]; exact h2)]; rfl
      · intro k
        constructor
        · intro h; cases h
        · intro ⟨it, hit, y, hy, _⟩
          rw [h1 it hit] at hy; cases hy
    · -- the item `x` is processed next
      have hok' : StackOk s p (top :: below) := stackOk_suffix E _ (h1 ▸ hok)
      have hxo := hok'.1 x (by rw [h3]; simp)
      obtain ⟨st2, hp1, hp2, hp3⟩ := process_item hC
        { st with iters := { top with items := xs } :: below, openDesc := od } hxo.1
        (by simp only [List.length_cons]; omega) w
      have hnext : nextE snap o noPre rootE (F + 1) st w = (some (.ok x), st2, w) := by
        rw [nextE_started _ _ _ _ _ hst, h4, hp1]
      rw [runIter_yield noPre rootE stepF F st st2 w w (g x.path w) x hnext (hstep x w)]
      have hrs : remSize s st.iters = sizeAt s x.path + itemsSize s xs + remSize s below := by
        rw [h1, remSize_append, remSize_allEmpty s h2]
        simp only [remSize, h3, itemsSize_cons]; omega
      have hlen : below.length + 1 ≤ st.iters.length := by rw [h1]; simp
      have hxsok : ∀ y ∈ xs, ItemOk s p y ∧ y.path.length = p.length + below.length + 1 :=
        fun y hy => hok'.1 y (by rw [h3]; simp [hy])
      have hpos := sizeAt_pos (s := s) (w := x.path) (by rw [hxo.1.1]; rfl)
      -- the inductive call
      have hcall : ∃ ks' : List FsPath, runIter snap o noPre rootE stepF F st2 (g x.path w) =
          (.ok (), ks'.foldl (fun w k => g k w) (g x.path w)) ∧ ∀ k, k ∈ ks' ↔ RemK s st2.iters k := by
        apply ih st2 (g x.path w) (by rw [hp2]; exact hst)
        · rcases hp3 with ⟨_, h⟩ | ⟨_, c, h⟩
          · rw [h]; exact ⟨hxsok, hok'.2⟩
          · rw [h]
            refine ⟨?_, hxsok, hok'.2⟩
            intro y hy
            obtain ⟨fs, n, _, _, hyp, hyl⟩ := kidEntries_mem hC.inv hxo.1.1 hy
            refine ⟨⟨hyl, ?_⟩, ?_⟩
            · rw [hyp]; exact hxo.1.2.trans (List.prefix_append _ _)
            · rw [hyp]; simp only [List.length_append, List.length_cons, List.length_nil]; omega
        · rcases hp3 with ⟨_, h⟩ | ⟨_, c, h⟩
          · rw [h]; simp only [remSize, List.length_cons]; omega
          · rw [h]
            have := kidEntries_size hC.inv hxo.1.1
            simp only [remSize, List.length_cons]; omega
      obtain ⟨ks', hr, hmem⟩ := hcall
      refine ⟨x.path :: ks', by rw [hr]; rfl, ?_⟩
      intro k
      have htop_mem : top ∈ st.iters := by rw [h1]; simp
      constructor
      · intro hk
        rcases List.mem_cons.1 hk with hk | hk
        · subst hk
          exact ⟨top, htop_mem, x, by rw [h3]; simp, List.prefix_refl _, by rw [hxo.1.1]; rfl⟩
        · obtain ⟨it, hit, y, hy, hyk, hkp⟩ := (hmem k).1 hk
          have hcase : it ∈ { top with items := xs } :: below → RemK s st.iters k := by
            intro hit'
            rcases List.mem_cons.1 hit' with h | h
            · subst h
              exact ⟨top, htop_mem, y, by rw [h3]; exact List.mem_cons_of_mem _ hy, hyk, hkp⟩
            · exact ⟨it, by rw [h1]; simp [h], y, hy, hyk, hkp⟩
          rcases hp3 with ⟨_, h⟩ | ⟨_, c, h⟩
          · rw [h] at hit; exact hcase hit
          · rw [h] at hit
            rcases List.mem_cons.1 hit with h' | h'
            · subst h'
              obtain ⟨fs, n, _, _, hyp, _⟩ := kidEntries_mem hC.inv hxo.1.1 hy
              refine ⟨top, htop_mem, x, by rw [h3]; simp, ?_, hkp⟩
              exact (hyp ▸ List.prefix_append x.path [n] : x.path <+: y.path).trans hyk
            · exact hcase h'
      · intro ⟨it, hit, y, hy, hyk, hkp⟩
        have hrest : y ∈ xs ∨ it ∈ below → k ∈ x.path :: ks' := by
          intro hh
          refine List.mem_cons_of_mem _ ((hmem k).2 ?_)
          have hin : ∀ it', it' ∈ { top with items := xs } :: below → it' ∈ st2.iters := by
            intro it' hit'
            rcases hp3 with ⟨_, h⟩ | ⟨_, c, h⟩
            · rw [h]; exact hit'
            · rw [h]; exact List.mem_cons_of_mem _ hit'
          rcases hh with hy' | h
          · exact ⟨{ top with items := xs }, hin _ (by simp), y, hy', hyk, hkp⟩
          · exact ⟨it, hin _ (List.mem_cons_of_mem _ h), y, hy, hyk, hkp⟩
        rw [h1] at hit
        rcases List.mem_append.1 hit with h | h
        · rw [h2 it h] at hy; cases hy
        · rcases List.mem_cons.1 h with h | h
          · subst h
            rw [h3] at hy
            rcases List.mem_cons.1 hy with hy | hy
            · subst hy
              obtain ⟨t, ht⟩ := hyk
              cases t with
              | nil => simp at ht; subst ht; simp
              | cons n r =>
                obtain ⟨pe, fs, g1, g2, g3, g4, g5⟩ := anc hC.inv r.length r y.path n rfl (by rw [ht]; exact hkp)
                rw [hxo.1.1] at g1; cases g1
                rcases hp3 with ⟨hnd, _⟩ | ⟨_, c, h⟩
                · exact absurd ⟨g2, g3⟩ hnd
                · obtain ⟨z, hz, hzp⟩ := kidEntries_of_name hC.inv hxo.1.1 g4 g5
                  refine List.mem_cons_of_mem _ ((hmem k).2 ⟨⟨y.path, c, kidEntries s y⟩, by rw [h]; simp, z, hz, ?_, hkp⟩)
                  rw [hzp]; exact ⟨r, by rw [← ht]; simp⟩
            · exact hrest (Or.inl hy)
          · exact hrest (Or.inr h)

theorem nextE_fresh {σ} (pre : Entry → σ → Outcome Unit × σ) (rootE : Entry) (g : Nat) (w : σ) {r : Outcome Entry}
    {st' : ISt} {w' : σ}
    (h : process snap o pre { ({} : ISt) with started := true } (rootE.doFollow o.follow) w = (some r, st', w')) :
    nextE snap o pre rootE g {} w = (some r, st', w') := by
  unfold nextE
  simp only [Bool.not_false, if_true, h]

/-- from a fresh iterator: every live key at or below the root is yielded (and nothing else) -/
theorem runIter_root {τ} (hC : TravCtx s p snap o) {e : Entry} (he : alLookup p s.entries = some e)
    (g : FsPath → τ → τ) (stepF : Entry → τ → Outcome Unit × τ) (hstep : ∀ e w, stepF e w = (.ok (), g e.path w))
    (F : Nat) (hF : 2 * sizeAt s p + 2 ≤ F) (w : τ) :
    ∃ ks : List FsPath, runIter snap o noPre e stepF F {} w = (.ok (), ks.foldl (fun w k => g k w) w) ∧
      ∀ k, k ∈ ks ↔ (p <+: k ∧ (alLookup k s.entries).isSome) := by
  have hpath : e.path = p := hC.inv.pathField p e he
  have hio : ItemOk s p e := ⟨by rw [hpath]; exact he, by rw [hpath]; exact List.prefix_refl _⟩
  obtain ⟨F', rfl⟩ : ∃ F', F = F' + 1 := ⟨F - 1, by omega⟩
  obtain ⟨st2, hp1, hp2, hp3⟩ := process_item hC { ({} : ISt) with started := true } hio (by rw [hpath]; rfl) w
  have hnext : nextE snap o noPre e (F' + 1) {} w = (some (.ok e), st2, w) := by
    apply nextE_fresh
    rw [hC.follow, doFollow_false]; exact hp1
  rw [runIter_yield noPre e stepF F' {} st2 w w (g e.path w) e hnext (hstep e w)]
  have hsz := kidEntries_size hC.inv hio.1
  rw [hpath] at hsz
  have hcall : ∃ ks' : List FsPath, runIter snap o noPre e stepF F' st2 (g e.path w) =
      (.ok (), ks'.foldl (fun w k => g k w) (g e.path w)) ∧ ∀ k, k ∈ ks' ↔ RemK s st2.iters k := by
    apply runIter_started hC e g stepF hstep F' st2 (g e.path w) (by rw [hp2])
    · rcases hp3 with ⟨_, h⟩ | ⟨_, c, h⟩
      · rw [h]; trivial
      · rw [h]
        refine ⟨?_, trivial⟩
        intro y hy
        obtain ⟨fs, n, _, _, hyp, hyl⟩ := kidEntries_mem hC.inv hio.1 hy
        refine ⟨⟨hyl, ?_⟩, ?_⟩
        · rw [hyp, hpath]; exact List.prefix_append _ _
        · rw [hyp, hpath]; simp
    · rcases hp3 with ⟨_, h⟩ | ⟨_, c, h⟩
      · rw [h]; simp only [remSize, List.length_nil]; omega
      · rw [h]; simp only [remSize, List.length_cons, List.length_nil]; omega
  obtain ⟨ks', hr, hmem⟩ := hcall
  refine ⟨p :: ks', by rw [hr, hpath]; rfl, ?_⟩
  intro k
  constructor
  · intro hk
    rcases List.mem_cons.1 hk with hk | hk
    · subst hk; exact ⟨List.prefix_refl _, by rw [he]; rfl⟩
    · obtain ⟨it, hit, y, hy, hyk, hkp⟩ := (hmem k).1 hk
      refine ⟨?_, hkp⟩
      rcases hp3 with ⟨_, h⟩ | ⟨_, c, h⟩
      · rw [h] at hit; cases hit
      · rw [h] at hit
        simp only [List.mem_cons, List.not_mem_nil, or_false] at hit
        subst hit
        obtain ⟨fs, n, _, _, hyp, _⟩ := kidEntries_mem hC.inv hio.1 hy
        rw [hpath] at hyp
        exact (hyp ▸ List.prefix_append p [n] : p <+: y.path).trans hyk
  · intro ⟨⟨t, ht⟩, hkp⟩
    cases t with
    | nil => simp at ht; subst ht; simp
    | cons n r =>
      obtain ⟨pe, fs, g1, g2, g3, g4, g5⟩ := anc hC.inv r.length r p n rfl (by rw [ht]; exact hkp)
      rw [he] at g1; cases g1
      rcases hp3 with ⟨hnd, _⟩ | ⟨_, c, h⟩
      · exact absurd ⟨g2, g3⟩ hnd
      · obtain ⟨z, hz, hzp⟩ := kidEntries_of_name hC.inv hio.1 g4 g5
        refine List.mem_cons_of_mem _ ((hmem k).2 ⟨⟨e.path, c, kidEntries s e⟩, by rw [h]; simp, z, hz, ?_, hkp⟩)
        rw [hzp, hpath]; exact ⟨r, by rw [← ht]; simp⟩

theorem sizeAt_le_snap (hP : InvP s) (hS : SnapOk s p snap) : sizeAt s p ≤ snap.length := by
  unfold sizeAt
  rw [List.countP_eq_length_filter]
  have h1 : ((keysOf s).filter (fun k => isPrefixOrEq p k)).Nodup := hP.nodup.filter _
  have h2 : (keysOf s).filter (fun k => isPrefixOrEq p k) ⊆ snap.map (·.1) := by
    intro k hk
    rw [List.mem_filter] at hk
    have hpres : (alLookup k s.entries).isSome := (alLookup_isSome_iff _ _).2 hk.1
    rw [← alLookup_isSome_iff, hS.complete k ((isPrefixOrEq_iff _ _).1 hk.2) hpres]
    exact hpres
  have := h1.length_le_of_subset h2
  simpa using this

theorem travFuel_ge (hP : InvP s) (hS : SnapOk s p snap) : 2 * sizeAt s p + 2 ≤ travFuel snap := by
  have := sizeAt_le_snap hP hS
  unfold travFuel
  have h2 : (snap.length + 2) ≤ (snap.length + 2) * (snap.length + 2) := Nat.le_mul_of_pos_left _ (by omega)
  have h3 : 64 * (snap.length + 2) * (snap.length + 2) = 64 * ((snap.length + 2) * (snap.length + 2)) :=
    Nat.mul_assoc _ _ _
  omega

/-! ### depth 0: only the root is yielded -/

structure FlatOpts (o : Opts) : Prop where
  follow : o.follow = false
  minDepth : o.minDepth = 0
  maxDepth : o.maxDepth = 0
  cf : o.contentsFirst = false
  files : o.files = false
  dirs : o.dirs = false

theorem process_flat {σ} (hO : FlatOpts o) (st : ISt) (hst : st.iters = []) (x : Entry) (w : σ) :
    process snap o noPre st x w = (some (.ok x), st, w) := by
  unfold process
  simp only [hst, List.length_nil, hO.maxDepth, Nat.lt_irrefl, if_false, List.any_nil, Bool.false_eq_true, and_false,
    ite_self, hO.minDepth, hO.cf, hO.files, hO.dirs, false_and, Bool.not_false, or_self]

theorem runIter_flat {τ} (hO : FlatOpts o) (e : Entry) (g : FsPath → τ → τ) (stepF : Entry → τ → Outcome Unit × τ)
    (hstep : ∀ e w, stepF e w = (.ok (), g e.path w)) (F : Nat) (hF : 2 ≤ F) (w : τ) :
    runIter snap o noPre e stepF F {} w = (.ok (), g e.path w) := by
  obtain ⟨F', rfl⟩ : ∃ F', F = F' + 2 := ⟨F - 2, by omega⟩
  have hnext : nextE snap o noPre e (F' + 1 + 1) {} w = (some (.ok e), { ({} : ISt) with started := true }, w) := by
    apply nextE_fresh
    rw [hO.follow, doFollow_false]
    exact process_flat hO _ rfl e w
  rw [runIter_yield noPre e stepF (F' + 1) {} _ w w (g e.path w) e hnext (hstep e w)]
  apply runIter_none noPre e stepF F' _ { ({} : ISt) with started := true }
  rw [nextE_started _ _ _ _ _ rfl]
  exact nextLoop_nil hO.cf noPre F' _ _ rfl

end Rivia.Lemmas.RefineB
