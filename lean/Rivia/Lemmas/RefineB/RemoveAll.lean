/-
  Rivia.Lemmas.RefineB.RemoveAll — refinement of `remove_all` (C01, group B): the worklist of
  `removeAllLoop` erases exactly the keys below the target, within its fuel.
-/
import Rivia.Lemmas.RefineB.Symlink
namespace Rivia.Lemmas.RefineB
open Rivia Rivia.Memfs Rivia.Spec Rivia.Spec.TreeFs M

/-! ### one iteration of the `remove_all` worklist -/

theorem loop_nil (f : Nat) (s : State) : removeAllLoop (f + 1) [] s = (.ok (), s) := rfl

theorem loop_absent {f : Nat} {p : FsPath} {W : List FsPath} {s : State} (hk : alLookup p s.entries = none) :
    removeAllLoop (f + 1) (p :: W) s = removeAllLoop f W s := by
  rw [removeAllLoop]
  simp only [getEntry_bind, hk]

theorem loop_push {f : Nat} {p : FsPath} {W : List FsPath} {s : State} {e : Entry} {n : Str} {ns : List Str}
    (hk : alLookup p s.entries = some e) (hf : e.files = some (n :: ns)) :
    removeAllLoop (f + 1) (p :: W) s =
      removeAllLoop f (((n :: ns).map (fun x => p ++ [x])).reverse ++ p :: W) s := by
  rw [removeAllLoop]
  simp only [getEntry_bind, hk, hf]

/-- the state after the worklist drops a leaf -/
def rmLeaf (s : State) (p : FsPath) (pe' : Entry) : State :=
  { s with entries := alErase p (alInsert p.dropLast pe' s.entries), files := alErase p s.files }

theorem loop_leaf {f : Nat} {p : FsPath} {W : List FsPath} {s : State} {e pe : Entry} (hne : p ≠ [])
    (hk : alLookup p s.entries = some e) (hf : e.files = none ∨ e.files = some [])
    (hd : alLookup p.dropLast s.entries = some pe) (hpd : pe.dir = true) :
    removeAllLoop (f + 1) (p :: W) s = removeAllLoop f W (rmLeaf s p (rmName pe (baseName p))) := by
  rw [removeAllLoop]
  rcases hf with hf | hf <;>
  · simp only [getEntry_bind, hk, hf, dirOf_bind, hne, if_false, hd, removeChild_eq, hpd, if_true, liftO_ok_bind,
      setEntry_bind, removeFile_bind, removeEntry_bind]
    rfl

/-! ### the part of the invariant the worklist depends on -/

structure LInv (s : State) : Prop where
  nodup : (s.entries.map (·.1)).Nodup
  parent : ∀ k e, alLookup k s.entries = some e → k ≠ [] →
    ∃ pe fs, alLookup k.dropLast s.entries = some pe ∧ pe.dir = true ∧ pe.files = some fs ∧ baseName k ∈ fs
  listed : ∀ k e fs n, alLookup k s.entries = some e → e.files = some fs → n ∈ fs →
    (alLookup (k ++ [n]) s.entries).isSome
  childNodup : ∀ k e fs, alLookup k s.entries = some e → e.files = some fs → fs.Nodup

theorem InvP.linv {s : State} (h : InvP s) : LInv s :=
  ⟨h.nodup, fun k e hk hne => by
      obtain ⟨pe, fs, h1, h2, _, h4, h5⟩ := h.parent k e hk hne
      exact ⟨pe, fs, h1, h2, h4, h5⟩,
    h.listed, h.childNodup⟩

theorem snoc_baseName {k : FsPath} (hne : k ≠ []) : k.dropLast ++ [baseName k] = k := by
  unfold baseName
  rw [List.getLast?_eq_some_getLast hne]
  exact List.dropLast_concat_getLast hne

/-- `anc` from the smaller invariant -/
theorem anc' {s : State} (hI : LInv s) : ∀ (n : Nat) (r : List Str) (p : FsPath) (x : Str), r.length = n →
    (alLookup (p ++ x :: r) s.entries).isSome →
    ∃ pe fs, alLookup p s.entries = some pe ∧ pe.dir = true ∧ pe.files = some fs ∧ x ∈ fs := by
  intro n
  induction n with
  | zero =>
    intro r p x hr hk
    have : r = [] := List.length_eq_zero_iff.1 hr
    subst this
    cases hke : alLookup (p ++ [x]) s.entries with
    | none => simp [hke] at hk
    | some e =>
      obtain ⟨pe, fs, h1, h2, h4, h5⟩ := hI.parent _ e hke (by simp)
      rw [List.dropLast_concat] at h1
      rw [baseName_snoc] at h5
      exact ⟨pe, fs, h1, h2, h4, h5⟩
  | succ n ih =>
    intro r p x hr hk
    rcases eq_nil_or_snoc r with h | ⟨mid, y, h⟩
    · subst h; simp at hr
    · subst h
      cases hke : alLookup (p ++ x :: (mid ++ [y])) s.entries with
      | none => simp [hke] at hk
      | some e =>
        obtain ⟨pe, fs, h1, _⟩ := hI.parent _ e hke (by simp)
        have : (p ++ x :: (mid ++ [y])).dropLast = p ++ x :: mid := by
          rw [show p ++ x :: (mid ++ [y]) = (p ++ x :: mid) ++ [y] by simp, List.dropLast_concat]
        rw [this] at h1
        exact ih mid p x (by simpa using hr) (by simp [h1])

/-- nothing lives below an entry without listed children -/
theorem no_desc {s : State} (hI : LInv s) {p : FsPath} {e : Entry} (hp : alLookup p s.entries = some e)
    (hf : e.files = none ∨ e.files = some []) (x : Str) (r : List Str) :
    alLookup (p ++ x :: r) s.entries = none := by
  cases h : alLookup (p ++ x :: r) s.entries with
  | none => rfl
  | some e' =>
    obtain ⟨pe, fs, h1, _, h4, h5⟩ := anc' hI r.length r p x rfl (by simp [h])
    rw [hp] at h1; cases h1
    rcases hf with hf | hf <;> rw [hf] at h4 <;> cases h4
    simp at h5

theorem lookup_rm' {l : List (FsPath × Entry)} (hn : (l.map (·.1)).Nodup) (k : FsPath) (pe' : Entry) (x : FsPath) :
    alLookup x (alErase k (alInsert k.dropLast pe' l)) =
      if k = x then none else if k.dropLast = x then some pe' else alLookup x l := by
  rw [alLookup_alErase (nodup_alInsert hn), alLookup_alInsert]

theorem rmName_files {pe : Entry} {fs : List Str} (n : Str) (h : pe.files = some fs) :
    (rmName pe n).files = some (fs.filter (· ≠ n)) := by
  unfold rmName; rw [h]

theorem rmName_files_none {pe : Entry} (n : Str) (h : pe.files = none) : rmName pe n = pe := by
  unfold rmName; rw [h]

theorem rmName_dir (pe : Entry) (n : Str) : (rmName pe n).dir = pe.dir := (sameCore_rmName pe n).2.1

theorem snoc_ne_self (k : FsPath) (n : Str) : k ++ [n] ≠ k := by
  intro e; have := congrArg List.length e; simp at this

/-- dropping a leaf keeps the worklist invariant -/
theorem linv_rmLeaf {s : State} (hI : LInv s) {p : FsPath} {e pe : Entry} (hne : p ≠ [])
    (hk : alLookup p s.entries = some e) (hf : e.files = none ∨ e.files = some [])
    (hd : alLookup p.dropLast s.entries = some pe) :
    LInv (rmLeaf s p (rmName pe (baseName p))) := by
  have hL : ∀ x, alLookup x (rmLeaf s p (rmName pe (baseName p))).entries =
      if p = x then none else if p.dropLast = x then some (rmName pe (baseName p)) else alLookup x s.entries :=
    fun x => lookup_rm' hI.nodup p _ x
  have hpp := snoc_baseName hne
  refine ⟨nodup_alErase (nodup_alInsert hI.nodup), ?_, ?_, ?_⟩
  · intro k e' hk' hkne
    rw [hL] at hk'
    by_cases h1 : p = k
    · simp [h1] at hk'
    · -- the entry existed before
      have hex : ∃ e0, alLookup k s.entries = some e0 := by
        by_cases h2 : p.dropLast = k
        · exact ⟨pe, by rw [← h2]; exact hd⟩
        · simp only [h1, h2, if_false] at hk'; exact ⟨e', hk'⟩
      obtain ⟨e0, he0⟩ := hex
      obtain ⟨pe0, fs0, g1, g2, g3, g4⟩ := hI.parent k e0 he0 hkne
      have hkk := snoc_baseName hkne
      have h3 : p ≠ k.dropLast := by
        intro h3
        have := no_desc hI hk hf (baseName k) []
        rw [h3, hkk, he0] at this; cases this
      rw [hL, if_neg h3]
      by_cases h4 : p.dropLast = k.dropLast
      · rw [if_pos h4]
        rw [← h4, hd] at g1; cases g1
        refine ⟨_, _, rfl, by rw [rmName_dir]; exact g2, rmName_files _ g3, ?_⟩
        rw [List.mem_filter]
        refine ⟨g4, ?_⟩
        simp only [ne_eq, decide_not, Bool.not_eq_eq_eq_not, Bool.not_true, decide_eq_false_iff_not]
        intro h5
        apply h1
        rw [← hpp, ← hkk, h4, h5]
      · rw [if_neg h4]
        exact ⟨pe0, fs0, g1, g2, g3, g4⟩
  · intro k e' fs n hk' hfs hn
    rw [hL] at hk'
    by_cases h1 : p = k
    · simp [h1] at hk'
    · rw [if_neg h1] at hk'
      by_cases h2 : p.dropLast = k
      · rw [if_pos h2] at hk'
        cases hk'
        cases hpf : pe.files with
        | none => rw [rmName_files_none _ hpf, hpf] at hfs; cases hfs
        | some fs0 =>
          rw [rmName_files _ hpf] at hfs; cases hfs
          rw [List.mem_filter] at hn
          have hn2 : n ≠ baseName p := by simpa using hn.2
          have h3 : p ≠ k ++ [n] := by
            intro h3; apply hn2
            rw [h3, baseName_snoc]
          rw [hL, if_neg h3]
          split
          · rfl
          · rw [← h2]; exact hI.listed _ pe fs0 n hd hpf hn.1
      · rw [if_neg h2] at hk'
        have h3 : p ≠ k ++ [n] := by
          intro h3; apply h2; rw [h3, List.dropLast_concat]
        rw [hL, if_neg h3]
        split
        · rfl
        · exact hI.listed k e' fs n hk' hfs hn
  · intro k e' fs hk' hfs
    rw [hL] at hk'
    by_cases h1 : p = k
    · simp [h1] at hk'
    · rw [if_neg h1] at hk'
      by_cases h2 : p.dropLast = k
      · rw [if_pos h2] at hk'
        cases hk'
        cases hpf : pe.files with
        | none => rw [rmName_files_none _ hpf, hpf] at hfs; cases hfs
        | some fs0 =>
          rw [rmName_files _ hpf] at hfs; cases hfs
          exact (hI.childNodup _ pe fs0 hd hpf).filter _
      · rw [if_neg h2] at hk'
        exact hI.childNodup k e' fs hk' hfs

/-! ### filtered child sets -/

def filtNames (e : Entry) (P : Str → Bool) : Entry :=
  match e.files with
  | some fs => { e with files := some (fs.filter P) }
  | none => e

theorem rmName_eq_filt (e : Entry) (n : Str) : rmName e n = filtNames e (fun x => decide (x ≠ n)) := rfl

theorem filtNames_filtNames (e : Entry) (P Q : Str → Bool) :
    filtNames (filtNames e P) Q = filtNames e (fun x => P x && Q x) := by
  obtain ⟨path, alt, rel, dir, file, link, mode, uid, gid, follow, cached, files⟩ := e
  cases files with
  | none => rfl
  | some fs =>
    simp only [filtNames, List.filter_filter]
    congr 3
    funext x; exact Bool.and_comm _ _

theorem filtNames_true (e : Entry) : filtNames e (fun _ => true) = e := by
  obtain ⟨path, alt, rel, dir, file, link, mode, uid, gid, follow, cached, files⟩ := e
  cases files with
  | none => rfl
  | some fs => simp [filtNames]

theorem filtNames_files {e : Entry} {fs : List Str} (P : Str → Bool) (h : e.files = some fs) :
    (filtNames e P).files = some (fs.filter P) := by
  unfold filtNames; rw [h]

theorem sameCore_filtNames (e : Entry) (P : Str → Bool) : SameCore e (filtNames e P) := by
  unfold filtNames; split <;> exact ⟨rfl, rfl, rfl, rfl, rfl, rfl⟩

/-! ### removing a whole subtree -/

/-- `s'` is `s` without the subtree at `w`, seen through lookups -/
structure RmSub (s s' : State) (w : FsPath) : Prop where
  gone : ∀ k, w <+: k → alLookup k s'.entries = none
  kept : ∀ k, ¬ w <+: k → alLookup k s'.entries =
    (alLookup k s.entries).map (fun e => if k = w.dropLast then rmName e (baseName w) else e)
  files : ∀ k, ¬ w <+: k → alLookup k s'.files = alLookup k s.files
  cwd : s'.cwd = s.cwd

/-- `s'` is `s` without the subtrees at the children `xs` of `w` -/
structure RmKids (s s' : State) (w : FsPath) (xs : List Str) : Prop where
  gone : ∀ k, (∃ x ∈ xs, (w ++ [x]) <+: k) → alLookup k s'.entries = none
  kept : ∀ k, ¬ (∃ x ∈ xs, (w ++ [x]) <+: k) → alLookup k s'.entries =
    (alLookup k s.entries).map (fun e => if k = w then filtNames e (fun y => decide (y ∉ xs)) else e)
  files : ∀ k, ¬ (∃ x ∈ xs, (w ++ [x]) <+: k) → alLookup k s'.files = alLookup k s.files
  cwd : s'.cwd = s.cwd

theorem RmSub.isSome_of {s s' : State} {w : FsPath} (h : RmSub s s' w) {k : FsPath}
    (hk : (alLookup k s'.entries).isSome) : (alLookup k s.entries).isSome := by
  by_cases hw : w <+: k
  · rw [h.gone k hw] at hk; cases hk
  · rw [h.kept k hw] at hk; simpa using hk

def SubStmt (n : Nat) : Prop :=
  ∀ (s : State) (w : FsPath) (e : Entry), LInv s → w ≠ [] → alLookup w s.entries = some e →
    (∀ k, (alLookup k s.entries).isSome → k.length ≤ w.length + n) →
    ∃ s' c, RmSub s s' w ∧ LInv s' ∧ c + 1 + 2 * s'.entries.length ≤ 2 * s.entries.length ∧
      ∀ f W, removeAllLoop (f + c) (w :: W) s = removeAllLoop f W s'

theorem prefix_snoc_not_self (w : FsPath) (x : Str) : ¬ (w ++ [x]) <+: w := by
  intro h; have := h.length_le; simp at this; omega

theorem rmKids_lemma {n : Nat} (IH : SubStmt n) (w : FsPath) :
    ∀ (xs : List Str) (s : State) (e : Entry) (fs : List Str), LInv s → alLookup w s.entries = some e →
      e.files = some fs → (∀ x ∈ xs, x ∈ fs) → xs.Nodup →
      (∀ k, (alLookup k s.entries).isSome → k.length ≤ w.length + 1 + n) →
      ∃ s' c, RmKids s s' w xs ∧ LInv s' ∧ c + xs.length + 2 * s'.entries.length ≤ 2 * s.entries.length ∧
        ∀ f W, removeAllLoop (f + c) (xs.map (fun x => w ++ [x]) ++ W) s = removeAllLoop f W s' := by
  intro xs
  induction xs with
  | nil =>
    intro s e fs hI hw hf _ _ _
    refine ⟨s, 0, ⟨?_, ?_, ?_, rfl⟩, hI, by simp, fun f W => rfl⟩
    · intro k ⟨x, hx, _⟩; cases hx
    · intro k _
      cases alLookup k s.entries with
      | none => rfl
      | some e' =>
        simp only [Option.map_some, List.not_mem_nil, not_false_eq_true, decide_true, filtNames_true, ite_self]
    · intro k _; rfl
  | cons x xs ih =>
    intro s e fs hI hw hf hsub hnd hb
    have hx : x ∈ fs := hsub x (by simp)
    have hxs := hI.listed w e fs x hw hf hx
    cases hex : alLookup (w ++ [x]) s.entries with
    | none => rw [hex] at hxs; cases hxs
    | some ex =>
      obtain ⟨s1, c1, hR1, hI1, hc1, hrun1⟩ := IH s (w ++ [x]) ex hI (by simp) hex
        (fun k hk => by have := hb k hk; simp; omega)
      have hw1 : alLookup w s1.entries = some (rmName e x) := by
        rw [hR1.kept w (prefix_snoc_not_self w x), hw]
        simp [baseName_snoc]
      have hnd' := List.nodup_cons.1 hnd
      obtain ⟨s2, c2, hR2, hI2, hc2, hrun2⟩ := ih s1 (rmName e x) (fs.filter (· ≠ x)) hI1 hw1 (rmName_files x hf)
        (fun y hy => by
          rw [List.mem_filter]
          refine ⟨hsub y (by simp [hy]), ?_⟩
          have : y ≠ x := fun h => hnd'.1 (h ▸ hy)
          simpa using this)
        hnd'.2 (fun k hk => hb k (hR1.isSome_of hk))
      refine ⟨s2, c1 + c2, ⟨?_, ?_, ?_, ?_⟩, hI2, by simp only [List.length_cons]; omega, ?_⟩
      · intro k ⟨y, hy, hyk⟩
        by_cases h2 : ∃ y ∈ xs, (w ++ [y]) <+: k
        · exact hR2.gone k h2
        · rw [hR2.kept k h2]
          rcases List.mem_cons.1 hy with h | h
          · subst h; rw [hR1.gone k hyk]; rfl
          · exact absurd ⟨y, h, hyk⟩ h2
      · intro k hk
        have h2 : ¬ ∃ y ∈ xs, (w ++ [y]) <+: k := fun ⟨y, hy, hyk⟩ => hk ⟨y, by simp [hy], hyk⟩
        have h1 : ¬ (w ++ [x]) <+: k := fun h => hk ⟨x, by simp, h⟩
        rw [hR2.kept k h2, hR1.kept k h1]
        cases alLookup k s.entries with
        | none => rfl
        | some e' =>
          simp only [Option.map_some, List.dropLast_concat, baseName_snoc]
          by_cases hkw : k = w
          · simp only [hkw, if_true, rmName_eq_filt, filtNames_filtNames]
            congr 2
            funext y
            simp only [List.mem_cons, not_or]
            by_cases a1 : y = x <;> by_cases a2 : y ∈ xs <;> simp [a1, a2]
          · simp only [hkw, if_false]
      · intro k hk
        have h2 : ¬ ∃ y ∈ xs, (w ++ [y]) <+: k := fun ⟨y, hy, hyk⟩ => hk ⟨y, by simp [hy], hyk⟩
        have h1 : ¬ (w ++ [x]) <+: k := fun h => hk ⟨x, by simp, h⟩
        rw [hR2.files k h2, hR1.files k h1]
      · rw [hR2.cwd, hR1.cwd]
      · intro f W
        rw [List.map_cons, List.cons_append, show f + (c1 + c2) = (f + c2) + c1 by omega, hrun1, hrun2]

theorem length_alErase_of_mem {β} {k : FsPath} {l : List (FsPath × β)} (h : k ∈ l.map (·.1)) :
    (alErase k l).length + 1 = l.length := by
  induction l with
  | nil => simp at h
  | cons x xs ih =>
    obtain ⟨a, b⟩ := x
    unfold alErase
    by_cases h1 : a = k
    · simp [h1]
    · have : k ∈ xs.map (·.1) := by
        simp only [List.map_cons, List.mem_cons] at h
        rcases h with h | h
        · exact absurd h.symm h1
        · exact h
      simp [h1, ih this]

theorem length_rmLeaf {s : State} {p : FsPath} {e pe : Entry} (pe' : Entry)
    (hk : alLookup p s.entries = some e) (hd : alLookup p.dropLast s.entries = some pe) :
    (rmLeaf s p pe').entries.length + 1 = s.entries.length := by
  unfold rmLeaf
  have h1 : p.dropLast ∈ s.entries.map (·.1) := (alLookup_isSome_iff _ _).1 (by simp [hd])
  have h2 : p ∈ (alInsert p.dropLast pe' s.entries).map (·.1) := by
    rw [keys_alInsert, if_pos h1]; exact (alLookup_isSome_iff _ _).1 (by simp [hk])
  have := length_alErase_of_mem h2
  rw [length_alInsert_of_mem h1] at this
  exact this

theorem prefix_dropLast_not {w : FsPath} (hne : w ≠ []) : ¬ w <+: w.dropLast := by
  intro h; have := h.length_le; simp at this
  have : w.length ≠ 0 := by simpa using hne
  omega

/-- the leaf case of the subtree lemma -/
theorem sub_leaf {s : State} {w : FsPath} {e : Entry} (hI : LInv s) (hne : w ≠ [])
    (hk : alLookup w s.entries = some e) (hf : e.files = none ∨ e.files = some []) :
    ∃ s' c, RmSub s s' w ∧ LInv s' ∧ c + 1 + 2 * s'.entries.length ≤ 2 * s.entries.length ∧
      ∀ f W, removeAllLoop (f + c) (w :: W) s = removeAllLoop f W s' := by
  obtain ⟨pe, fs, hd, hpd, _, _⟩ := hI.parent w e hk hne
  have hL : ∀ x, alLookup x (rmLeaf s w (rmName pe (baseName w))).entries =
      if w = x then none else if w.dropLast = x then some (rmName pe (baseName w)) else alLookup x s.entries :=
    fun x => lookup_rm' hI.nodup w _ x
  refine ⟨rmLeaf s w (rmName pe (baseName w)), 1, ⟨?_, ?_, ?_, rfl⟩, linv_rmLeaf hI hne hk hf hd, ?_, ?_⟩
  · intro k hwk
    rw [hL]
    by_cases h1 : w = k
    · rw [if_pos h1]
    · rw [if_neg h1]
      obtain ⟨t, ht⟩ := hwk
      cases t with
      | nil => simp at ht; exact absurd ht h1
      | cons x r =>
        have hnone := no_desc hI hk hf x r
        rw [ht] at hnone
        have : w.dropLast ≠ k := by
          intro h2
          have := congrArg List.length ht
          rw [← h2] at this; simp at this; omega
        rw [if_neg this, hnone]
  · intro k hwk
    have h1 : w ≠ k := fun h => hwk (h ▸ List.prefix_refl _)
    rw [hL, if_neg h1]
    by_cases h2 : w.dropLast = k
    · subst h2; rw [if_pos rfl, hd]; simp
    · rw [if_neg h2]
      have : k ≠ w.dropLast := fun h => h2 h.symm
      cases alLookup k s.entries <;> simp [this]
  · intro k hwk
    have h1 : w ≠ k := fun h => hwk (h ▸ List.prefix_refl _)
    exact alLookup_alErase_ne h1 _
  · have := length_rmLeaf (rmName pe (baseName w)) hk hd
    omega
  · intro f W
    exact loop_leaf hne hk hf hd hpd

theorem filter_not_mem_reverse (L : List Str) : L.filter (fun y => decide (y ∉ L.reverse)) = [] := by
  rw [List.filter_eq_nil_iff]
  intro a ha
  simp [ha]

/-- the inner-node case of the subtree lemma -/
theorem sub_internal {n : Nat} (IH : SubStmt n) {s : State} {w : FsPath} {e : Entry} {x : Str} {xs : List Str}
    (hI : LInv s) (hne : w ≠ []) (hk : alLookup w s.entries = some e) (hf : e.files = some (x :: xs))
    (hb : ∀ k, (alLookup k s.entries).isSome → k.length ≤ w.length + (n + 1)) :
    ∃ s' c, RmSub s s' w ∧ LInv s' ∧ c + 1 + 2 * s'.entries.length ≤ 2 * s.entries.length ∧
      ∀ f W, removeAllLoop (f + c) (w :: W) s = removeAllLoop f W s' := by
  obtain ⟨sm, cm, hRm, hIm, hcm, hrunm⟩ := rmKids_lemma IH w (x :: xs).reverse s e (x :: xs) hI hk hf
    (fun y hy => List.mem_reverse.1 hy) ((List.reverse_perm _).symm.nodup (hI.childNodup w e _ hk hf))
    (fun k hk' => by have := hb k hk'; omega)
  have hwnot : ¬ ∃ y ∈ (x :: xs).reverse, (w ++ [y]) <+: w := fun ⟨y, _, h⟩ => prefix_snoc_not_self w y h
  have hwm : alLookup w sm.entries = some (filtNames e (fun y => decide (y ∉ (x :: xs).reverse))) := by
    rw [hRm.kept w hwnot, hk]; simp
  have hfm : (filtNames e (fun y => decide (y ∉ (x :: xs).reverse))).files = some [] := by
    rw [filtNames_files _ hf, filter_not_mem_reverse]
  obtain ⟨s', c, hR, hI', hc, hrun⟩ := sub_leaf hIm hne hwm (Or.inr hfm)
  refine ⟨s', 1 + cm + c, ⟨?_, ?_, ?_, ?_⟩, hI', by simp only [List.length_reverse, List.length_cons] at hcm; omega, ?_⟩
  · exact hR.gone
  · intro k hwk
    have hnk : ¬ ∃ y ∈ (x :: xs).reverse, (w ++ [y]) <+: k := by
      intro ⟨y, _, h⟩
      exact hwk ((List.prefix_append w [y]).trans h)
    rw [hR.kept k hwk, hRm.kept k hnk]
    have : k ≠ w := fun h => hwk (h ▸ List.prefix_refl _)
    cases alLookup k s.entries <;> simp [this]
  · intro k hwk
    have hnk : ¬ ∃ y ∈ (x :: xs).reverse, (w ++ [y]) <+: k := by
      intro ⟨y, _, h⟩
      exact hwk ((List.prefix_append w [y]).trans h)
    rw [hR.files k hwk, hRm.files k hnk]
  · rw [hR.cwd, hRm.cwd]
  · intro f W
    rw [show f + (1 + cm + c) = (f + c + cm) + 1 by omega, loop_push hk hf, ← List.map_reverse, hrunm, hrun]

theorem subStmt_all : ∀ n, SubStmt n := by
  intro n
  induction n with
  | zero =>
    intro s w e hI hne hk hb
    cases hf : e.files with
    | none => exact sub_leaf hI hne hk (Or.inl hf)
    | some fs =>
      cases fs with
      | nil => exact sub_leaf hI hne hk (Or.inr hf)
      | cons x xs =>
        have := hb _ (hI.listed w e _ x hk hf (by simp))
        simp at this; omega
  | succ n ih =>
    intro s w e hI hne hk hb
    cases hf : e.files with
    | none => exact sub_leaf hI hne hk (Or.inl hf)
    | some fs =>
      cases fs with
      | nil => exact sub_leaf hI hne hk (Or.inr hf)
      | cons x xs => exact sub_internal ih hI hne hk hf hb

/-! ### `remove_all` -/

def removeAllK (p : FsPath) : M Unit := do
  let s ← get
  removeAllLoop (4 * (s.entries.length + 2)) [p]

theorem removeAllM_eq (env : Env) (path : Str) : removeAllM env path = (absM env path >>= removeAllK) := rfl

def keyBound {β} (l : List (FsPath × β)) : Nat := (l.map (·.1.length)).foldr (· + ·) 0

theorem le_keyBound {β} {l : List (FsPath × β)} {k : FsPath} (h : k ∈ l.map (·.1)) : k.length ≤ keyBound l := by
  induction l with
  | nil => simp at h
  | cons x xs ih =>
    simp only [List.map_cons, List.mem_cons] at h
    unfold keyBound
    simp only [List.map_cons, List.foldr_cons]
    rcases h with h | h
    · subst h; omega
    · have := ih h; unfold keyBound at this; omega

theorem get_filter_absS (s : State) (p k : FsPath) :
    get { absS s with nodes := (absS s).nodes.filter (fun kv => !(isPrefixOrEq p kv.1)) } k =
      if p <+: k then none else get (absS s) k := by
  unfold TreeFs.get
  simp only
  rw [alLookup_filter_key k (fun q => !(isPrefixOrEq p q))]
  by_cases h : p <+: k
  · simp [(isPrefixOrEq_iff p k).2 h, h]
  · have : isPrefixOrEq p k = false := by
      cases hh : isPrefixOrEq p k with
      | false => rfl
      | true => exact absurd ((isPrefixOrEq_iff p k).1 hh) h
    simp [this, h]

theorem removeAllK_sim {s : State} {p : FsPath} (hP : InvP s) (hne : p ≠ []) :
    Sim (mapVal (fun _ => Val.unit) (removeAllK p) s) (liftR (fun _ => Val.unit) (removeAll (absS s) p)) := by
  have hI := hP.linv
  unfold removeAll
  simp only [hne, if_false, liftR]
  unfold mapVal removeAllK
  rw [get_bind]
  cases hk : alLookup p s.entries with
  | none =>
    rw [show 4 * (s.entries.length + 2) = (4 * s.entries.length + 6) + 1 + 1 by omega, loop_absent hk, loop_nil]
    apply sim_ok
    refine ⟨rfl, fun k => ?_⟩
    rw [get_filter_absS]
    split
    · next hpk =>
      rw [get_absS]
      obtain ⟨t, ht⟩ := hpk
      cases t with
      | nil => simp at ht; subst ht; rw [hk]; rfl
      | cons x r =>
        cases hh : alLookup k s.entries with
        | none => rfl
        | some e' =>
          obtain ⟨pe, _, h1, _⟩ := anc' hI r.length r p x rfl (by rw [ht, hh]; rfl)
          rw [hk] at h1; cases h1
    · rfl
  | some e =>
    obtain ⟨s', c, hR, _, hc, hrun⟩ := subStmt_all (keyBound s.entries) s p e hI hne hk
      (fun k hk' => by have := le_keyBound ((alLookup_isSome_iff _ _).1 hk'); omega)
    obtain ⟨f', hf'⟩ : ∃ f', 4 * (s.entries.length + 2) = (f' + 1) + c := ⟨4 * (s.entries.length + 2) - c - 1, by omega⟩
    rw [hf', hrun, loop_nil]
    apply sim_ok
    refine ⟨hR.cwd, fun k => ?_⟩
    rw [get_filter_absS]
    split
    · next hpk => rw [get_absS, hR.gone k hpk]; rfl
    · next hpk =>
      apply get_absS_congr
      · intro e' he'
        rw [hR.kept k hpk, he']
        refine ⟨_, rfl, ?_, fun _ => hR.files k hpk⟩
        split
        · exact sameCore_rmName _ _
        · exact SameCore.rfl' _
      · intro hn
        rw [hR.kept k hpk, hn]; rfl

theorem removeAll_refines (env : Env) (s : State) (p : Str) (hI : Inv s) (_hW : KeysWf s)
    (hc : classOf s env (.removeAll p) = "-") : Refines env s (.removeAll p) := by
  rw [refines_iff]
  intro y hy
  simp only [specStep, Option.some.injEq] at hy
  subst hy
  show Sim (mapVal (fun _ => Val.unit) (removeAllM env p) s) _
  rw [removeAllM_eq]
  apply sim_withPath
  intro a ha
  apply removeAllK_sim (inv_props hI)
  intro h0
  simp only [classOf, entryAt_ok ha, h0] at hc
  exact absurd hc (by decide)

end Rivia.Lemmas.RefineB
