/-
  Rivia.Lemmas.RefineB.Symlink — refinement of `symlink` (C01, group B).
-/
import Rivia.Lemmas.RefineB.Remove
namespace Rivia.Lemmas.RefineB
open Rivia Rivia.Memfs Rivia.Spec Rivia.Spec.TreeFs M

theorem insertName_false {n : Str} : ∀ {fs : List Str}, (insertName n fs).1 = false → n ∈ fs := by
  intro fs
  induction fs with
  | nil => intro h; simp [insertName] at h
  | cons x xs ih =>
    intro h
    unfold insertName at h
    split at h
    · next e => subst e; simp
    · split at h
      · simp at h
      · simp only at h
        exact List.mem_cons_of_mem _ (ih h)

theorem addChild_dir {d : Entry} (n : Str) (hd : d.dir = true) :
    ∃ b d', d.addChild n = .ok (b, d') ∧ SameCore d d' ∧ (b = false → ∃ fs, d.files = some fs ∧ n ∈ fs) := by
  obtain ⟨path, alt, rel, dir, file, link, mode, uid, gid, follow, cached, files⟩ := d
  simp only at hd; subst hd
  cases files with
  | none => exact ⟨true, _, rfl, ⟨rfl, rfl, rfl, rfl, rfl, rfl⟩, by simp⟩
  | some fs =>
    exact ⟨(insertName n fs).1, _, rfl, ⟨rfl, rfl, rfl, rfl, rfl, rfl⟩, fun h => ⟨fs, rfl, insertName_false h⟩⟩

/-- `_add` of a link entry at a fresh key whose parent is a real directory -/
theorem add_link_fresh {s : State} (hI : InvP s) {e d : Entry} {l : FsPath} (hp : e.path = l) (hne : l ≠ [])
    (hl : e.link = true) (hk : alLookup l s.entries = none) (hd : alLookup l.dropLast s.entries = some d)
    (hdd : d.dir = true) (hdl : d.link = false) :
    ∃ d', SameCore d d' ∧
      add e s = (.ok l, { s with entries := alInsert l.dropLast d' (alInsert l e s.entries) }) := by
  obtain ⟨b, d', h1, h2, h3⟩ := addChild_dir (baseName l) hdd
  refine ⟨d', h2, ?_⟩
  have hb : b = true := by
    cases b with
    | true => rfl
    | false =>
      obtain ⟨fs, hf, hn⟩ := h3 rfl
      have := hI.listed _ d fs _ hd hf hn
      have hh : l.dropLast ++ [baseName l] = l := by
        unfold baseName
        rw [List.getLast?_eq_some_getLast hne]
        exact List.dropLast_concat_getLast hne
      rw [hh, hk] at this; cases this
  subst hb
  unfold add
  have hdk := dropLast_ne_self hne
  simp only [hp, hne, if_false, getEntry_bind, hd, hdd, hdl, Bool.not_true, Bool.or_self, Bool.false_eq_true, hk, hl,
    Bool.false_and, setEntry_bind, alLookup_alInsert_ne (Ne.symm hdk), h1, liftO_ok_bind]
  rfl

def symlinkK2 (l t : FsPath) : M FsPath := do
  let ldir ← dirOf l
  let rel := relative (renderP t) (renderP ldir)
  let tIsDir := match (← getEntry t) with | some x => x.dir | none => false
  let e : Entry := { path := l, alt := some t, rel := rel, dir := tIsDir, file := !tIsDir, link := true,
                     mode := optsMode true (!tIsDir) tIsDir none, uid := 1000, gid := 1000,
                     follow := false, cached := false, files := if tIsDir then some [] else none }
  let _ ← add e
  return l

def symlinkK (env : Env) (target : Str) (l : FsPath) : M FsPath := do
  if (← getEntry l).isSome then fail .existsAlready else
  let tstr ← if isAbsolute target then M.pure target else do
    let d ← dirOf l
    M.pure (mash (renderP d) target)
  let t ← absM env tstr
  symlinkK2 l t

theorem symlinkM_eq (env : Env) (link target : Str) :
    symlinkM env link target = (absM env link >>= symlinkK env target) := rfl

theorem symlinkK_exists {env : Env} {target : Str} {l : FsPath} {s : State} {e : Entry}
    (hk : alLookup l s.entries = some e) : symlinkK env target l s = (.err .existsAlready, s) := by
  unfold symlinkK
  simp only [getEntry_bind, hk, Option.isSome_some, if_true, fail_apply]

theorem dirOf_ne {l : FsPath} (hne : l ≠ []) : dirOf l = M.pure l.dropLast := by
  unfold dirOf; rw [if_neg hne]

theorem symlinkK_fresh {env : Env} {target : Str} {l : FsPath} {s : State} (hne : l ≠ [])
    (hk : alLookup l s.entries = none) :
    symlinkK env target l s =
      (absM env (if isAbsolute target then target else mash (renderP l.dropLast) target) >>= symlinkK2 l) s := by
  unfold symlinkK
  simp only [getEntry_bind, hk, Option.isSome_none, Bool.false_eq_true, if_false, dirOf_ne hne, mpure_bind]
  cases isAbsolute target with
  | true => simp only [if_true]
  | false => simp only [Bool.false_eq_true, if_false]

theorem get_put (t : T) (l x : FsPath) (n : Node) : get (put t l n) x = if l = x then some n else get t x := by
  unfold put TreeFs.get; exact alLookup_alInsert _ _ _ _

/-- what `MemfsEntry::opts(&link).file().link_to(&target)` builds -/
def mkLink (l t : FsPath) (tIsDir : Bool) : Entry :=
  { path := l, alt := some t, rel := relative (renderP t) (renderP l.dropLast), dir := tIsDir, file := !tIsDir,
    link := true, mode := optsMode true (!tIsDir) tIsDir none, uid := 1000, gid := 1000,
    follow := false, cached := false, files := if tIsDir then some [] else none }

def tdir (s : State) (t : FsPath) : Bool := match alLookup t s.entries with | some x => x.dir | none => false

theorem symlinkK2_eq {l t : FsPath} (s : State) (hne : l ≠ []) :
    symlinkK2 l t s = (add (mkLink l t (tdir s t)) >>= fun _ => Pure.pure l) s := by
  unfold symlinkK2
  simp only [dirOf_ne hne, mpure_bind, getEntry_bind]
  rfl

theorem add_noparent {s : State} {e : Entry} (hne : e.path ≠ []) (hd : alLookup e.path.dropLast s.entries = none) :
    add e s = (.err .doesNotExist, s) := by
  unfold add
  simp only [hne, if_false, getEntry_bind, hd, fail_apply]

theorem add_parent_notdir {s : State} {e d : Entry} (hne : e.path ≠ [])
    (hd : alLookup e.path.dropLast s.entries = some d) (hdd : (!d.dir || d.link) = true) :
    add e s = (.err .isNotDir, s) := by
  unfold add
  simp only [hne, if_false, getEntry_bind, hd, hdd, if_true, fail_apply]

theorem absNode_mkLink (s : State) (l t : FsPath) (b : Bool) :
    absNode s l (mkLink l t b) = ⟨.link b, 0o777, 1000, 1000, some t, []⟩ := by
  cases b <;> simp [absNode, mkLink, kindOf, optsMode, defaultMode, typeBits]

theorem kind_toDir (s : State) (k : FsPath) (x : Entry) :
    (decide ((absNode s k x).kind = Kind.dir) || decide ((absNode s k x).kind = Kind.link true)) = x.dir := by
  obtain ⟨path, alt, rel, dir, file, link, mode, uid, gid, follow, cached, files⟩ := x
  cases link <;> cases dir <;> simp [absNode, kindOf]

/-- the recorded kind of a new link -/
def toDirOf (t : T) (ta : FsPath) : Bool :=
  match get t ta with | some n => decide (n.kind = Kind.dir) || decide (n.kind = Kind.link true) | none => false

theorem symlink_unfold (t : T) (l ta : FsPath) :
    symlink t l ta = if l = [] then (.err none, t) else
      match parentCheck t l with
      | some e => (.err e, t)
      | none =>
        match get t l with
        | some _ => (.err none, t)
        | none => (.ok l, put t l ⟨.link (toDirOf t ta), 0o777, 1000, 1000, some ta, []⟩) := by
  unfold symlink toDirOf
  cases get t ta <;> rfl

theorem toDirOf_absS (s : State) (ta : FsPath) : toDirOf (absS s) ta = tdir s ta := by
  unfold toDirOf tdir
  rw [get_absS]
  cases alLookup ta s.entries with
  | none => rfl
  | some x => simp only [Option.map_some, kind_toDir]

theorem symlinkK2_sim {s : State} (hI : InvP s) {l ta : FsPath} (hne : l ≠ []) (hk : alLookup l s.entries = none) :
    Sim (mapVal Val.path (symlinkK2 l ta) s) (liftR Val.path (symlink (absS s) l ta)) := by
  rw [symlink_unfold, toDirOf_absS]
  unfold mapVal parentCheck
  simp only [hne, if_false]
  rw [get_absS, get_absS, hk, symlinkK2_eq s hne, bind_apply]
  have hp : (mkLink l ta (tdir s ta)).path = l := rfl
  cases hd : alLookup l.dropLast s.entries with
  | none =>
    rw [add_noparent (by rw [hp]; exact hne) (by rw [hp]; exact hd)]
    simp only [Option.map_none, liftR]
    exact sim_err_some (TEquiv.refl _)
  | some d =>
    simp only [Option.map_some, Option.map_none, kind_dir_iff]
    by_cases hdd : d.dir = true ∧ d.link = false
    · obtain ⟨d', hsc, hadd⟩ := add_link_fresh hI hp hne rfl hk hd hdd.1 hdd.2
      rw [hadd]
      simp only [hdd, and_self, if_true, liftR]
      apply sim_ok
      refine ⟨rfl, fun x => ?_⟩
      rw [get_put]
      by_cases hlx : l = x
      · subst hlx
        rw [get_absS]
        simp only [alLookup_alInsert, dropLast_ne_self hne, if_false, if_true, Option.map_some, absNode_mkLink]
      · rw [if_neg hlx]
        apply get_absS_congr
        · intro e he
          simp only [alLookup_alInsert, hlx, if_false]
          by_cases hdx : l.dropLast = x
          · subst hdx; rw [hd] at he; cases he
            exact ⟨d', by simp, hsc, fun _ => trivial⟩
          · exact ⟨e, by simp [hdx, he], SameCore.rfl' e, fun _ => trivial⟩
        · intro hn
          simp only [alLookup_alInsert, hlx, if_false]
          have : l.dropLast ≠ x := by intro e; subst e; rw [hd] at hn; cases hn
          simp [this, hn]
    · rw [add_parent_notdir (by rw [hp]; exact hne) (by rw [hp]; exact hd)
        (by cases h1 : d.dir <;> cases h2 : d.link <;> simp_all)]
      simp only [hdd, if_false, liftR]
      exact sim_err_some (TEquiv.refl _)

theorem symlink_refines (env : Env) (s : State) (l tg : Str) (hI : Inv s) (_hW : KeysWf s)
    (_hc : classOf s env (.symlink l tg) = "-") : Refines env s (.symlink l tg) := by
  have hP := inv_props hI
  rw [refines_iff]
  intro y hy
  simp only [specStep, Option.some.injEq] at hy
  subst hy
  show Sim (mapVal Val.path (symlinkM env l tg) s) _
  rw [symlinkM_eq]
  apply sim_withPath
  intro a _
  rw [get_absS]
  cases hk : alLookup (toPath a) s.entries with
  | some e =>
    simp only [Option.map_some, Option.isSome_some, or_true, if_true]
    unfold mapVal
    rw [symlinkK_exists hk]
    exact sim_err_none (TEquiv.refl _)
  | none =>
    have hne : toPath a ≠ [] := by
      intro h0; obtain ⟨e, he, _⟩ := hP.root; rw [h0, he] at hk; cases hk
    simp only [Option.map_none, Option.isSome_none, Bool.false_eq_true, or_false, hne, if_false]
    have : mapVal Val.path (symlinkK env tg (toPath a)) s =
        mapVal Val.path (absM env (if isAbsolute tg then tg else mash (renderP (toPath a).dropLast) tg) >>=
          symlinkK2 (toPath a)) s := by
      unfold mapVal; rw [symlinkK_fresh hne hk]
    rw [this]
    apply sim_withPath
    intro b _
    exact symlinkK2_sim hP hne hk

end Rivia.Lemmas.RefineB
