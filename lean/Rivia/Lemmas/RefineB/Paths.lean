/-
  Rivia.Lemmas.RefineB.Paths — the string pipeline of `move_p` on keys with proper names:
  `toPath (renderP p) = p`, `mash`, `trimPrefix`, `dstOf`.
-/
import Rivia.Lemmas.RefineB.Base
namespace Rivia.Lemmas.RefineB
open Rivia Rivia.Str Rivia.Memfs Rivia.Spec Rivia.Spec.TreeFs

/-! ### string forms of keys -/

theorem renderP_eq (p : FsPath) : renderP p = bufOf true p := by
  unfold renderP bufOf; simp

theorem wf_body {p : FsPath} (h : ∀ n ∈ p, Wf n) : ∀ n ∈ p, BodyPiece n := fun n hn => (h n hn).bodyPiece

theorem toPath_renderP {p : FsPath} (h : ∀ n ∈ p, BodyPiece n) : toPath (renderP p) = p := by
  rw [renderP_eq]
  unfold toPath
  cases p with
  | nil => decide
  | cons a as =>
    rw [splitSlash_bufOf (by simp) h]
    simp only [if_true, List.cons_append, List.nil_append]
    rw [List.filter_cons_of_neg (by simp)]
    rw [List.filter_eq_self]
    intro n hn
    have := (h n hn).1
    simpa using this

theorem bodyComp_str' {p : Str} {c : Comp} (h : bodyComp p = some c) : c.str = p := by
  unfold bodyComp at h
  split at h
  · cases h
  · split at h
    · next hp => cases h; exact hp.symm
    · cases h; rfl

theorem filterMap_bodyComp_str {ps : List Str} (h : ∀ n ∈ ps, BodyPiece n) :
    (ps.filterMap bodyComp).map Comp.str = ps := by
  induction ps with
  | nil => rfl
  | cons a as ih =>
    have ha := h a (by simp)
    cases hc : bodyComp a with
    | none =>
      rw [bodyComp_of_bodyPiece ha] at hc
      split at hc <;> cases hc
    | some c =>
      rw [List.filterMap_cons, hc]
      simp only [List.map_cons, bodyComp_str' hc, ih (fun n hn => h n (by simp [hn]))]

theorem render_components_renderP {p : FsPath} (h : ∀ n ∈ p, BodyPiece n) :
    render (components (renderP p)) = renderP p := by
  rw [renderP_eq, components_bufOf h]
  simp only [if_true, List.singleton_append]
  rw [render_root_body (bodyCU_filterMap (fun n hn => (h n hn).2.2)), filterMap_bodyComp_str h]

/-- `mash` of a key with a relative path made of proper names -/
theorem mash_renderP {d q : FsPath} {X : Str} (hd : ∀ n ∈ d, BodyPiece n) (hq : ∀ n ∈ q, BodyPiece n) (hne : q ≠ [])
    (hX : stripSlashes X = joinWith '/' q) : mash (renderP d) X = renderP (d ++ q) := by
  unfold mash
  rw [hX]
  have : joinWith '/' q = bufOf false q := by unfold bufOf; simp
  rw [this, renderP_eq, push_abs_rel hd hq hne, ← renderP_eq]
  exact render_components_renderP (fun n hn => by
    rcases List.mem_append.1 hn with h | h
    · exact hd n h
    · exact hq n h)

theorem mash_renderP_nil {d : FsPath} (hd : ∀ n ∈ d, BodyPiece n) (hne : d ≠ []) : mash (renderP d) [] = renderP d := by
  unfold mash
  have hs : stripSlashes [] = [] := by unfold stripSlashes; rfl
  rw [hs]
  obtain ⟨mid, t, rfl⟩ : ∃ mid t, d = mid ++ [t] := by
    rcases eq_nil_or_snoc d with h | h
    · exact absurd h hne
    · exact h
  have ht : BodyPiece t := hd t (by simp)
  have h1 : renderP (mid ++ [t]) ≠ [] := by rw [renderP_eq]; exact bufOf_snoc_ne_nil ht.1
  have h2 : endsWithSlash (renderP (mid ++ [t])) = false := by rw [renderP_eq]; exact endsWithSlash_bufOf_snoc ht
  have hp : push (renderP (mid ++ [t])) [] = renderP (mid ++ [t]) ++ ['/'] := by
    unfold push
    simp [isRooted, h1, h2]
  rw [hp]
  have hc : components (renderP (mid ++ [t]) ++ ['/']) = components (renderP (mid ++ [t])) := by
    rw [components_eq_compsOf, components_eq_compsOf, isRooted_append h1]
    unfold splitSlash
    rw [splitOn_append_sep', splitOn_nil, compsOf_snoc_nil _ (splitOn_ne_nil _ _)]
  rw [hc]
  exact render_components_renderP hd

theorem stripSlashes_of_head {y : Str} (h : y.head? ≠ some '/') : stripSlashes y = y := by
  cases y with
  | nil => unfold stripSlashes; rfl
  | cons c cs =>
    have hc : c ≠ '/' := fun e => h (by simp [e])
    unfold stripSlashes
    split
    · next heq => simp only [List.cons.injEq] at heq; exact absurd heq.1 hc
    · rfl

theorem joinWith_head {q : FsPath} (hq : ∀ n ∈ q, BodyPiece n) : (joinWith '/' q).head? ≠ some '/' := by
  cases q with
  | nil => simp [joinWith]
  | cons a as =>
    have ha := hq a (by simp)
    cases a with
    | nil => exact absurd rfl ha.1
    | cons c cs =>
      have hc : c ≠ '/' := fun e => ha.2.2 (by simp [e])
      cases as with
      | nil => simpa [joinWith] using hc
      | cons b bs => simpa [joinWith] using hc

theorem renderP_append {pre q : FsPath} (hp : pre ≠ []) (hq : q ≠ []) :
    renderP (pre ++ q) = renderP pre ++ '/' :: joinWith '/' q := by
  unfold renderP
  rw [joinWith_append '/' hp hq]; rfl

/-- what `path.trim_prefix(pre)` leaves, up to leading separators -/
theorem strip_trim {pre q : FsPath} (hq : ∀ n ∈ q, BodyPiece n) (hne : q ≠ []) :
    stripSlashes (trimPrefix (renderP (pre ++ q)) (renderP pre)) = joinWith '/' q := by
  by_cases hp : pre = []
  · subst hp
    have : trimPrefix (renderP ([] ++ q)) (renderP []) = joinWith '/' q := by
      unfold trimPrefix renderP
      simp [joinWith]
    rw [this]
    exact stripSlashes_of_head (joinWith_head hq)
  · have : trimPrefix (renderP (pre ++ q)) (renderP pre) = '/' :: joinWith '/' q := by
      unfold trimPrefix
      rw [renderP_append hp hne]
      have hpre : (renderP pre).isPrefixOf (renderP pre ++ '/' :: joinWith '/' q) = true := by
        rw [List.isPrefixOf_iff_prefix]; exact List.prefix_append _ _
      rw [if_pos hpre, List.drop_left]
    rw [this]
    unfold stripSlashes
    exact stripSlashes_of_head (joinWith_head hq)

theorem trimPrefix_self (x : Str) : trimPrefix x x = [] := by
  unfold trimPrefix
  have : x.isPrefixOf x = true := by rw [List.isPrefixOf_iff_prefix]; exact List.prefix_refl _
  rw [if_pos this]; simp

theorem wf_append {a b : FsPath} (ha : ∀ n ∈ a, BodyPiece n) (hb : ∀ n ∈ b, BodyPiece n) :
    ∀ n ∈ a ++ b, BodyPiece n := by
  intro n hn
  rcases List.mem_append.1 hn with h | h
  · exact ha n h
  · exact hb n h

/-- the destination key of an entry below the moved root -/
theorem dstOf_sub {d pre q : FsPath} (hd : ∀ n ∈ d, BodyPiece n) (hq : ∀ n ∈ q, BodyPiece n) (hne : q ≠ []) :
    dstOf d (pre ++ q) pre = d ++ q := by
  unfold dstOf
  rw [mash_renderP hd hq hne (strip_trim hq hne), toPath_renderP (wf_append hd hq)]

theorem dstOf_self {d s : FsPath} (hd : ∀ n ∈ d, BodyPiece n) (hne : d ≠ []) : dstOf d s s = d := by
  unfold dstOf
  rw [trimPrefix_self, mash_renderP_nil hd hne, toPath_renderP hd]

/-- `dst_root.mash(src.base())` -/
theorem toPath_mash_base {d : FsPath} {b : Str} (hd : ∀ n ∈ d, BodyPiece n) (hb : BodyPiece b) :
    toPath (mash (renderP d) b) = d ++ [b] := by
  have hq : ∀ n ∈ [b], BodyPiece n := by intro n hn; simp at hn; subst hn; exact hb
  rw [mash_renderP hd hq (by simp) (X := b)]
  · exact toPath_renderP (wf_append hd hq)
  · rw [stripSlashes_of_not_mem hb.2.2]; rfl

/-! ### resolved paths are keys with proper pieces (after the sibling development in C03) -/

/-- `a` is the string form of a key whose names are body pieces -/
def AbsKey (a : Str) : Prop := ∃ ps : List Str, (∀ p ∈ ps, BodyPiece p) ∧ a = bufOf true ps

theorem absKey_renderP {k : FsPath} (h : ∀ p ∈ k, BodyPiece p) : AbsKey (renderP k) := ⟨k, h, renderP_eq k⟩

theorem AbsKey.rooted {a : Str} (h : AbsKey a) : isRooted a = true := by
  obtain ⟨ps, hps, rfl⟩ := h
  exact isRooted_bufOf hps

theorem AbsKey.toPath_bp {a : Str} (h : AbsKey a) : ∀ n ∈ toPath a, BodyPiece n := by
  obtain ⟨ps, hps, rfl⟩ := h
  rw [← renderP_eq, toPath_renderP hps]; exact hps

theorem isRooted_stripSlashes (p : Str) : isRooted (stripSlashes p) = false := by
  induction p with
  | nil => rfl
  | cons c cs ih =>
    by_cases h : c = '/'
    · subst h; simpa [stripSlashes] using ih
    · have : stripSlashes (c :: cs) = c :: cs := by
        unfold stripSlashes
        split
        · next heq => simp only [List.cons.injEq] at heq; exact absurd heq.1 h
        · rfl
      rw [this, isRooted_cons]; simp [h]

theorem isRooted_push {d q : Str} (hd : isRooted d = true) (hq : isRooted q = false) :
    isRooted (push d q) = true := by
  have hne : d ≠ [] := by rintro rfl; simp [isRooted] at hd
  unfold push
  rw [hq]
  simp only [Bool.false_eq_true, if_false]
  split
  · rw [isRooted_append hne]; exact hd
  · rw [isRooted_append hne]; exact hd

theorem absKey_render_components {x : Str} (hx : isRooted x = true) : AbsKey (render (components x)) := by
  have hc : components x = .root :: (splitSlash x).filterMap bodyComp := by
    unfold components; rw [hx]; rfl
  have hb : ∀ c ∈ (splitSlash x).filterMap bodyComp, BodyCU c := bodyCU_filterMap (not_mem_of_mem_splitOn '/' x)
  rw [hc, render_root_body hb]
  exact ⟨_, bodyPiece_map_str hb, rfl⟩

theorem absKey_mash {d p : Str} (hd : isRooted d = true) : AbsKey (mash d p) := by
  unfold mash
  exact absKey_render_components (isRooted_push hd (isRooted_stripSlashes p))

theorem absKey_clean {x c : Str} (h : cleanO x = some c) (ha : isAbsolute c = true) : AbsKey c := by
  rw [cleanO_eq_goClean] at h
  cases h
  have hr : isRooted x = true := by rw [← goClean_rooted]; exact ha
  rw [goClean_eq] at ha ⊢
  split
  · next h0 => rw [if_pos h0] at ha; cases ha
  · rw [hr]; exact ⟨_, goStack_rev_bodyPiece x, rfl⟩

theorem absKey_dir {curr d : Str} (hc : AbsKey curr) (h : dir curr = .ok d) : AbsKey d := by
  obtain ⟨ps, hps, rfl⟩ := hc
  unfold dir at h
  cases hp : parentStr (bufOf true ps) with
  | none => rw [hp] at h; cases h
  | some q =>
    rw [hp] at h; cases h
    rcases eq_nil_or_snoc ps with rfl | ⟨mid, t, rfl⟩
    · have : parentStr (bufOf true []) = none := by decide
      rw [this] at hp; cases hp
    · have := pop_bufOf (rooted := true) hps
      unfold pop at this
      rw [hp] at this
      exact ⟨mid, fun q hq => hps q (by simp [hq]), this⟩

theorem absKey_absLoop : ∀ (f : Nat) (curr p a : Str), AbsKey curr → absLoop f curr p = .ok a → AbsKey a := by
  intro f
  induction f with
  | zero => intro curr p a hc h; simp only [absLoop] at h; cases h; exact hc
  | succ f ih =>
    intro curr p a hc h
    rw [absLoop] at h
    split at h
    · cases h; exact hc
    · exact ih _ _ _ hc h
    · split at h
      · cases h
      · split at h
        · next d hd => exact ih _ _ _ (absKey_dir hc hd) h
        · cases h
        · cases h
        · cases h
    · cases h; exact absKey_mash hc.rooted

theorem absKey_absWith {env : Env} {cwd s a : Str} (hc : AbsKey cwd) (h : absWith env cwd s = .ok a) : AbsKey a := by
  unfold absWith at h
  split at h
  · cases h
  · split at h
    · split at h
      · cases h
      · next c hcl =>
        split at h
        · next ha => cases h; exact absKey_clean hcl ha
        · exact absKey_absLoop _ _ _ _ hc h
    · cases h
    · cases h
    · cases h

/-- `_abs` relative to a cwd of proper names only returns keys of body pieces -/
theorem absWith_bp {env : Env} {cwd : FsPath} {raw a : Str} (hc : ∀ n ∈ cwd, BodyPiece n)
    (h : absWith env (renderP cwd) raw = .ok a) : ∀ n ∈ toPath a, BodyPiece n :=
  (absKey_absWith (absKey_renderP hc) h).toPath_bp

end Rivia.Lemmas.RefineB
