/-
  Rivia.Lemmas.RefineB.Move — refinement of `move_p` (C01, group B): validation in `moveM` against the
  conditions of the reference, then the re-keying of the subtree.
-/
import Rivia.Lemmas.RefineB.MoveRoot
namespace Rivia.Lemmas.RefineB
open Rivia Rivia.Memfs Rivia.Spec Rivia.Spec.TreeFs M

/-! ### the reference `move_p`, pointwise -/

theorem alLookup_append {β} (k : FsPath) (l1 l2 : List (FsPath × β)) :
    alLookup k (l1 ++ l2) = match alLookup k l1 with | some v => some v | none => alLookup k l2 := by
  induction l1 with
  | nil => rfl
  | cons x xs ih =>
    obtain ⟨a, b⟩ := x
    by_cases h : a = k
    · simp [alLookup, h]
    · simp [alLookup, h, ih]

/-- the re-keyed part of the node list -/
theorem alLookup_moved {β} (s dst : FsPath) (l : List (FsPath × β)) (r : List Str) :
    alLookup (dst ++ r) (l.filterMap (fun kv => if isPrefixOrEq s kv.1 then some (dst ++ kv.1.drop s.length, kv.2) else none))
      = alLookup (s ++ r) l := by
  induction l with
  | nil => rfl
  | cons x xs ih =>
    obtain ⟨a, b⟩ := x
    rw [List.filterMap_cons]
    by_cases hp : isPrefixOrEq s a = true
    · simp only [hp, if_true]
      obtain ⟨t, rfl⟩ := (isPrefixOrEq_iff s a).1 hp
      simp only [List.drop_left]
      by_cases ht : t = r
      · subst ht; simp [alLookup]
      · have h1 : ¬ dst ++ t = dst ++ r := fun h => ht (List.append_cancel_left h)
        have h2 : ¬ s ++ t = s ++ r := fun h => ht (List.append_cancel_left h)
        simp [alLookup, h1, h2, ih]
    · have hp' : isPrefixOrEq s a = false := by cases h : isPrefixOrEq s a <;> simp_all
      simp only [hp', Bool.false_eq_true, if_false]
      have h2 : ¬ a = s ++ r := by
        intro h; rw [h] at hp
        exact hp ((isPrefixOrEq_iff _ _).2 (List.prefix_append _ _))
      simp [alLookup, h2, ih]

theorem alLookup_moved_none {β} (s dst : FsPath) (l : List (FsPath × β)) (k : FsPath) (hk : ¬ dst <+: k) :
    alLookup k (l.filterMap (fun kv => if isPrefixOrEq s kv.1 then some (dst ++ kv.1.drop s.length, kv.2) else none))
      = none := by
  induction l with
  | nil => rfl
  | cons x xs ih =>
    obtain ⟨a, b⟩ := x
    rw [List.filterMap_cons]
    by_cases hp : isPrefixOrEq s a = true
    · simp only [hp, if_true]
      have : ¬ dst ++ List.drop s.length a = k := fun h => hk (h ▸ List.prefix_append _ _)
      simp [alLookup, this, ih]
    · have hp' : isPrefixOrEq s a = false := by cases h : isPrefixOrEq s a <;> simp_all
      simp only [hp', Bool.false_eq_true, if_false]
      exact ih

def okDstOf (t : T) (sn : Node) (dst : FsPath) : Bool :=
  match get t dst with
  | none => true
  | some dn => (sn.kind = Kind.file && dn.kind = Kind.file)

def emptyOntoOf (t : T) (sn : Node) (dst : FsPath) : Bool :=
  match get t dst with
  | some dn => sn.kind = Kind.dir && dn.kind = Kind.dir && (below t dst).isEmpty
  | none => false

def movedNodes (t : T) (s dst : FsPath) : T :=
  { t with nodes :=
      t.nodes.filter (fun kv => !(isPrefixOrEq s kv.1) && kv.1 ≠ dst) ++
      t.nodes.filterMap (fun kv => if isPrefixOrEq s kv.1 then some (dst ++ kv.1.drop s.length, kv.2) else none) }

theorem moveP_eq (t : T) (s d : FsPath) :
    moveP t s d = match get t s with
      | none => (.err (some .doesNotExist), t)
      | some sn =>
        if s = [] then (.unspecified, t)
        else if s = (if isDir t d then d ++ [baseName s] else d) then (.ok (), t)
        else if isPrefixOrEq s (if isDir t d then d ++ [baseName s] else d) then (.err none, t)
        else if (if isDir t d then d ++ [baseName s] else d) = [] then (.err none, t)
        else if !isDir t (if isDir t d then d ++ [baseName s] else d).dropLast then (.err none, t)
        else if emptyOntoOf t sn (if isDir t d then d ++ [baseName s] else d) then (.unspecified, t)
        else if !okDstOf t sn (if isDir t d then d ++ [baseName s] else d) then (.err none, t)
        else (.ok (), movedNodes t s (if isDir t d then d ++ [baseName s] else d)) := by
  unfold moveP okDstOf emptyOntoOf movedNodes
  cases get t s <;> rfl

theorem get_movedNodes (t : T) (s dst k : FsPath) :
    get (movedNodes t s dst) k =
      if ¬ s <+: k ∧ k ≠ dst ∧ (get t k).isSome then get t k
      else if dst <+: k then get t (s ++ k.drop dst.length) else none := by
  unfold movedNodes TreeFs.get
  simp only
  rw [alLookup_append, alLookup_filter_key k (fun q => !(isPrefixOrEq s q) && decide (q ≠ dst))]
  by_cases h1 : s <+: k
  · have : isPrefixOrEq s k = true := (isPrefixOrEq_iff _ _).2 h1
    simp only [this, Bool.not_true, Bool.false_and, Bool.false_eq_true, if_false, h1, not_true_eq_false, false_and]
    by_cases h2 : dst <+: k
    · obtain ⟨r, rfl⟩ := h2
      simp only [List.prefix_append, if_true, List.drop_left]
      exact alLookup_moved s dst t.nodes r
    · simp only [h2, if_false]
      exact alLookup_moved_none s dst t.nodes k h2
  · have : isPrefixOrEq s k = false := by
      cases h : isPrefixOrEq s k with
      | false => rfl
      | true => exact absurd ((isPrefixOrEq_iff _ _).1 h) h1
    simp only [this, Bool.not_false, Bool.true_and, h1, not_false_eq_true, true_and]
    by_cases h3 : k = dst
    · subst h3
      simp only [ne_eq, not_true_eq_false, decide_false, Bool.false_eq_true, if_false, false_and, List.prefix_refl,
        if_true, List.drop_length]
      have := alLookup_moved s k t.nodes []
      simpa using this
    · simp only [ne_eq, h3, not_false_eq_true, decide_true, if_true, true_and]
      cases hg : alLookup k t.nodes with
      | some v => simp
      | none =>
        simp only [Option.isSome_none, Bool.false_eq_true, if_false]
        by_cases h2 : dst <+: k
        · obtain ⟨r, rfl⟩ := h2
          simp only [List.prefix_append, if_true, List.drop_left]
          exact alLookup_moved s dst t.nodes r
        · simp only [h2, if_false]
          exact alLookup_moved_none s dst t.nodes k h2

theorem get_absS_of_lk {σ s0 : State} {k : FsPath} (h : lk σ k = lk s0 k) : get (absS σ) k = get (absS s0) k := by
  unfold lk at h
  obtain ⟨h1, h2⟩ := Prod.mk.inj h
  apply get_absS_congr
  · intro e he; exact ⟨e, by rw [h1, he], SameCore.rfl' e, fun _ => h2⟩
  · intro hn; rw [h1, hn]

/-- the abstract effect of a completed `move_p` worklist -/
theorem move_tequiv {s0 σf : State} {sr d dst : FsPath} {ci : Bool} (hC : MvCtx s0 sr d dst ci) {e : Entry}
    (he0 : alLookup sr s0.entries = some e)
    (hfresh : ∀ r', r' ≠ [] → alLookup (dst ++ r') s0.entries = none)
    (hdata : (alLookup sr s0.files).isSome ∨ alLookup dst s0.files = none)
    (hcwd : σf.cwd = s0.cwd)
    (F1 : ∀ k, sr <+: k → lk σf k = (none, none))
    (F2 : ∀ r', lk σf (dst ++ r') = mvImg (lk s0 (sr ++ r')) (lk s0 (dst ++ r')) (dst ++ r'))
    (F3 : ∀ k, ¬ sr <+: k → ¬ dst <+: k → k ≠ sr.dropLast → k ≠ dst.dropLast → lk σf k = lk s0 k)
    (F4 : ∀ k, k = sr.dropLast ∨ k = dst.dropLast →
      (lk σf k).2 = (lk s0 k).2 ∧ SameCoreO (lk s0 k).1 (lk σf k).1) :
    TEquiv (absS σf) (movedNodes (absS s0) sr dst) := by
  have hP := hC.inv
  refine ⟨hcwd, fun k => ?_⟩
  rw [get_movedNodes]
  by_cases h1 : sr <+: k
  · have hnd : ¬ dst <+: k := by
      intro ⟨b, hb⟩
      obtain ⟨a, ha⟩ := h1
      exact hC.disj b a (by rw [hb, ha])
    simp only [h1, not_true_eq_false, false_and, if_false, hnd]
    rw [get_absS]
    have := F1 k h1
    unfold lk at this
    rw [(Prod.mk.inj this).1]; rfl
  · by_cases h2 : dst <+: k
    · obtain ⟨r', rfl⟩ := h2
      have hspec : (if ¬ sr <+: dst ++ r' ∧ dst ++ r' ≠ dst ∧ (get (absS s0) (dst ++ r')).isSome = true
          then get (absS s0) (dst ++ r')
          else if dst <+: dst ++ r' then get (absS s0) (sr ++ List.drop dst.length (dst ++ r')) else none) =
          get (absS s0) (sr ++ r') := by
        have hcond : ¬ (¬ sr <+: dst ++ r' ∧ dst ++ r' ≠ dst ∧ (get (absS s0) (dst ++ r')).isSome = true) := by
          intro ⟨_, g2, g3⟩
          have hr : r' ≠ [] := fun h => g2 (by rw [h]; simp)
          rw [get_absS, hfresh r' hr] at g3; cases g3
        rw [if_neg hcond, if_pos (List.prefix_append _ _), List.drop_left]
      rw [hspec, get_absS, get_absS]
      have hF := F2 r'
      unfold lk mvImg at hF
      obtain ⟨hF1, hF2⟩ := Prod.mk.inj hF
      rw [hF1]
      cases hsrc : alLookup (sr ++ r') s0.entries with
      | none =>
        simp only [Option.map_none]
        have hr : r' ≠ [] := by
          intro h; rw [h, List.append_nil, he0] at hsrc; cases hsrc
        rw [hfresh r' hr]; rfl
      | some e' =>
        simp only [Option.map_some]
        congr 1
        unfold absNode
        simp only [kindOf]
        cases hl : e'.link with
        | true => simp
        | false =>
          simp only [Bool.false_eq_true, if_false]
          congr 1
          rw [hF2]
          cases hsd : alLookup (sr ++ r') s0.files with
          | some b => rfl
          | none =>
            simp only
            by_cases hr : r' = []
            · subst hr
              rw [List.append_nil] at hsd ⊢
              rcases hdata with h | h
              · rw [hsd] at h; cases h
              · rw [h]
            · have := (lk_absent hP (hfresh r' hr))
              unfold lk at this
              rw [(Prod.mk.inj this).2]
    · have hne : k ≠ dst := fun h => h2 (h ▸ List.prefix_refl _)
      have hspec : (if ¬ sr <+: k ∧ k ≠ dst ∧ (get (absS s0) k).isSome = true then get (absS s0) k
          else if dst <+: k then get (absS s0) (sr ++ List.drop dst.length k) else none) = get (absS s0) k := by
        by_cases hp : (get (absS s0) k).isSome = true
        · rw [if_pos ⟨h1, hne, hp⟩]
        · rw [if_neg (fun h => hp h.2.2), if_neg h2]
          cases hg : get (absS s0) k with
          | none => rfl
          | some _ => rw [hg] at hp; exact absurd rfl hp
      rw [hspec]
      by_cases hx : k = sr.dropLast ∨ k = dst.dropLast
      · obtain ⟨g1, g2⟩ := F4 k hx
        unfold lk at g1 g2
        simp only at g1 g2
        apply get_absS_congr
        · intro e1 he1
          rw [he1] at g2
          cases hh : alLookup k σf.entries with
          | none => rw [hh] at g2; exact absurd g2 (by simp [SameCoreO])
          | some e2 => rw [hh] at g2; exact ⟨e2, rfl, g2, fun _ => g1⟩
        · intro hn
          rw [hn] at g2
          cases hh : alLookup k σf.entries with
          | none => rfl
          | some e2 => rw [hh] at g2; exact absurd g2 (by simp [SameCoreO])
      · exact get_absS_of_lk (F3 k h1 h2 (fun h => hx (Or.inl h)) (fun h => hx (Or.inr h)))

/-! ### `move_p` -/

def moveK (s d : FsPath) : M Unit := do
  let st ← get
  let copyInto := isDirP st d
  let srcE ← match (← getEntry s) with
    | some x => M.pure x
    | none => fail .doesNotExist
  let dstFinal := if copyInto then toPath (mash (renderP d) (baseName s)) else d
  if dstFinal = s then return ()
  if s.isPrefixOf dstFinal then fail .ioInvalidInput
  let dd ← dirOf dstFinal
  match (← getEntry dd) with
  | some x => if x.dir && !x.link then M.pure () else fail .isNotDir
  | none => fail .doesNotExist
  match (← getEntry dstFinal) with
  | some x => if x.file && !x.link && srcE.file && !srcE.link then M.pure () else fail .existsAlready
  | none => M.pure ()
  moveLoop s d copyInto (8 * (st.entries.length + 2)) [s]

theorem moveM_eq (env : Env) (src dst : Str) :
    moveM env src dst = (absM env src >>= fun s => absM env dst >>= fun d => moveK s d) := rfl

/-- non-link entries are a file or a directory, not both -/
def FlagsOk (s : State) : Prop := ∀ kv ∈ s.entries, kv.2.link = false → kv.2.file = !kv.2.dir

instance (s : State) : Decidable (FlagsOk s) := by unfold FlagsOk; infer_instance

theorem isDirP_eq (s : State) (p : FsPath) : isDirP s p = isDir (absS s) p := by
  rw [isDir_absS]; rfl

theorem moveK_nosrc {s : State} {sk d : FsPath} (hs : alLookup sk s.entries = none) :
    moveK sk d s = (.err .doesNotExist, s) := by
  unfold moveK
  simp only [get_bind, getEntry_bind, hs, fail_bind]

section
variable {s : State} {sk d dst : FsPath} {e : Entry} (hs : alLookup sk s.entries = some e)
  (hdst : (if isDirP s d then toPath (mash (renderP d) (baseName sk)) else d) = dst)
include hs hdst

theorem moveK_same (h1 : dst = sk) : moveK sk d s = (.ok (), s) := by
  unfold moveK
  simp only [get_bind, getEntry_bind, hs, mpure_bind, hdst, h1, if_true]
  rfl

theorem moveK_into (h1 : dst ≠ sk) (h2 : sk.isPrefixOf dst = true) : moveK sk d s = (.err .ioInvalidInput, s) := by
  unfold moveK
  simp only [get_bind, getEntry_bind, hs, mpure_bind, hdst, h1, if_false, h2, if_true, fail_bind]

theorem moveK_root (h1 : dst ≠ sk) (h2 : sk.isPrefixOf dst = false) (h3 : dst = []) :
    moveK sk d s = (.err .parentNotFound, s) := by
  subst h3
  unfold moveK
  simp only [get_bind, getEntry_bind, hs, mpure_bind, hdst, h1, if_false, h2, Bool.false_eq_true, dirOf_bind, if_true]

theorem moveK_noparent (h1 : dst ≠ sk) (h2 : sk.isPrefixOf dst = false) (h3 : dst ≠ [])
    (h4 : alLookup dst.dropLast s.entries = none) : moveK sk d s = (.err .doesNotExist, s) := by
  unfold moveK
  simp only [get_bind, getEntry_bind, hs, mpure_bind, hdst, h1, if_false, h2, Bool.false_eq_true, dirOf_ne h3, h4,
    fail_bind]

theorem moveK_parent_notdir {x : Entry} (h1 : dst ≠ sk) (h2 : sk.isPrefixOf dst = false) (h3 : dst ≠ [])
    (h4 : alLookup dst.dropLast s.entries = some x) (h5 : (x.dir && !x.link) = false) :
    moveK sk d s = (.err .isNotDir, s) := by
  unfold moveK
  simp only [get_bind, getEntry_bind, hs, mpure_bind, hdst, h1, if_false, h2, Bool.false_eq_true, dirOf_ne h3, h4, h5,
    fail_bind]

theorem moveK_exists {x y : Entry} (h1 : dst ≠ sk) (h2 : sk.isPrefixOf dst = false) (h3 : dst ≠ [])
    (h4 : alLookup dst.dropLast s.entries = some x) (h5 : (x.dir && !x.link) = true)
    (h6 : alLookup dst s.entries = some y) (h7 : (y.file && !y.link && e.file && !e.link) = false) :
    moveK sk d s = (.err .existsAlready, s) := by
  unfold moveK
  simp only [get_bind, getEntry_bind, hs, mpure_bind, hdst, h1, if_false, h2, Bool.false_eq_true, dirOf_ne h3, h4, h5,
    if_true, h6, h7, fail_bind]

theorem moveK_go {x : Entry} (h1 : dst ≠ sk) (h2 : sk.isPrefixOf dst = false) (h3 : dst ≠ [])
    (h4 : alLookup dst.dropLast s.entries = some x) (h5 : (x.dir && !x.link) = true)
    (h6 : ∀ y, alLookup dst s.entries = some y → (y.file && !y.link && e.file && !e.link) = true) :
    moveK sk d s = moveLoop sk d (isDirP s d) (8 * (s.entries.length + 2)) [sk] s := by
  unfold moveK
  simp only [get_bind, getEntry_bind, hs, mpure_bind, hdst, h1, if_false, h2, Bool.false_eq_true, dirOf_ne h3, h4, h5,
    if_true]
  cases h : alLookup dst s.entries with
  | none => simp only
  | some y => simp only [h6 y h, if_true]

end

theorem keys_bp {s : State} (hW : KeysWf s) {k : FsPath} (hk : (alLookup k s.entries).isSome) :
    ∀ n ∈ k, BodyPiece n := by
  obtain ⟨kv, hkv, rfl⟩ := List.mem_map.1 ((alLookup_isSome_iff _ _).1 hk)
  exact fun n hn => (hW.1 kv hkv n hn).bodyPiece

theorem kind_file_iff (s : State) (k : FsPath) (e : Entry) :
    (absNode s k e).kind = Kind.file ↔ (e.dir = false ∧ e.link = false) := by
  unfold absNode kindOf
  cases e.link <;> cases e.dir <;> simp

theorem moveK_sim {s : State} {sk d : FsPath} (hP : InvP s) (hW : KeysWf s) (hFl : FlagsOk s)
    (hd : ∀ n ∈ d, BodyPiece n) :
    Sim (mapVal (fun _ => Val.unit) (moveK sk d) s) (liftR (fun _ => Val.unit) (moveP (absS s) sk d)) := by
  rw [moveP_eq, get_absS]
  unfold mapVal
  cases hs : alLookup sk s.entries with
  | none =>
    rw [moveK_nosrc hs]
    exact sim_err_some (TEquiv.refl _)
  | some e =>
    simp only [Option.map_some]
    by_cases h0 : sk = []
    · rw [if_pos h0]; exact sim_unspec _ _
    rw [if_neg h0]
    have hskbp := keys_bp hW (k := sk) (by rw [hs]; rfl)
    have hbn : BodyPiece (baseName sk) := hskbp _ (by
      have h := snoc_baseName h0
      have : baseName sk ∈ sk.dropLast ++ [baseName sk] := List.mem_append_right _ (List.mem_singleton_self _)
      rwa [h] at this)
    -- the destination key, identically on both sides
    obtain ⟨dst, hdstS⟩ : ∃ dst, (if isDir (absS s) d then d ++ [baseName sk] else d) = dst := ⟨_, rfl⟩
    have hdst : (if isDirP s d then toPath (mash (renderP d) (baseName sk)) else d) = dst := by
      rw [isDirP_eq, ← hdstS]
      cases isDir (absS s) d with
      | true => simp only [if_true]; exact toPath_mash_base hd hbn
      | false => rfl
    rw [hdstS]
    by_cases h1 : sk = dst
    · rw [if_pos h1, moveK_same hs hdst h1.symm]
      exact sim_ok (TEquiv.refl _)
    rw [if_neg h1]
    have h1' : dst ≠ sk := fun h => h1 h.symm
    by_cases h2 : isPrefixOrEq sk dst = true
    · rw [if_pos h2, moveK_into hs hdst h1' (List.isPrefixOf_iff_prefix.2 ((isPrefixOrEq_iff _ _).1 h2))]
      exact sim_err_none (TEquiv.refl _)
    rw [if_neg h2]
    have h2p : ¬ sk <+: dst := fun h => h2 ((isPrefixOrEq_iff _ _).2 h)
    have h2' : sk.isPrefixOf dst = false := by
      cases h : sk.isPrefixOf dst with
      | false => rfl
      | true => exact absurd (List.isPrefixOf_iff_prefix.1 h) h2p
    by_cases h3 : dst = []
    · rw [if_pos h3, moveK_root hs hdst h1' h2' h3]
      exact sim_err_none (TEquiv.refl _)
    rw [if_neg h3, isDir_absS]
    cases h4 : alLookup dst.dropLast s.entries with
    | none =>
      simp only [Bool.not_false, if_true]
      rw [moveK_noparent hs hdst h1' h2' h3 h4]
      exact sim_err_none (TEquiv.refl _)
    | some x =>
      simp only
      by_cases h5 : (x.dir && !x.link) = true
      case neg =>
        have h5' : (x.dir && !x.link) = false := by
          cases hh : (x.dir && !x.link) with
          | false => rfl
          | true => exact absurd hh h5
        simp only [h5', Bool.not_false, if_true]
        rw [moveK_parent_notdir hs hdst h1' h2' h3 h4 h5']
        exact sim_err_none (TEquiv.refl _)
      case pos =>
        simp only [h5, Bool.not_true, Bool.false_eq_true, if_false]
        have hxd : x.dir = true := by
          cases hh : x.dir with
          | true => rfl
          | false => rw [hh] at h5; cases h5
        -- when the destination exists, the model accepts only file over file
        have hflag : ∀ y, alLookup dst s.entries = some y → y.link = false → y.file = !y.dir :=
          fun y hy => hFl (dst, y) (alLookup_some_mem hy)
        have hflagE : e.link = false → e.file = !e.dir := hFl (sk, e) (alLookup_some_mem hs)
        by_cases hgo : ∀ y, alLookup dst s.entries = some y → (y.file && !y.link && e.file && !e.link) = true
        · -- the move happens
          have hnotdir : ∀ y, alLookup dst s.entries = some y → ¬ (y.dir = true ∧ y.link = false) := by
            intro y hy ⟨g1, g2⟩
            have := hgo y hy
            have hf := hflag y hy g2
            rw [g1] at hf
            simp [hf] at this
          have hdisj : ∀ r r', dst ++ r ≠ sk ++ r' := by
            intro r r' heq
            rcases List.prefix_or_prefix_of_prefix (List.prefix_append dst r) (heq ▸ List.prefix_append sk r') with h | h
            · obtain ⟨t, ht⟩ := h
              cases t with
              | nil => simp at ht; exact h1' ht
              | cons z t =>
                obtain ⟨pe, fs, g1, g2, g3, _, _⟩ := anc hP t.length t dst z rfl (by rw [ht, hs]; rfl)
                exact hnotdir pe g1 ⟨g2, g3⟩
            · exact h2p h
          have hfresh : ∀ r', r' ≠ [] → alLookup (dst ++ r') s.entries = none := by
            intro r' hr
            cases r' with
            | nil => exact absurd rfl hr
            | cons z t =>
              cases hh : alLookup (dst ++ z :: t) s.entries with
              | none => rfl
              | some e' =>
                obtain ⟨pe, fs, g1, g2, g3, _, _⟩ := anc hP t.length t dst z rfl (by rw [hh]; rfl)
                exact absurd ⟨g2, g3⟩ (hnotdir pe g1)
          have hC : MvCtx s sk d dst (isDirP s d) := by
            refine ⟨hP, h0, ?_, hdisj⟩
            intro r hr
            have hbp := keys_bp hW hr
            have hrbp : ∀ n ∈ r, BodyPiece n := fun n hn => hbp n (by simp [hn])
            rw [isDirP_eq]
            unfold mvPre
            cases hci : isDir (absS s) d with
            | true =>
              rw [hci] at hdstS
              simp only [if_true] at hdstS ⊢
              have : sk ++ r = sk.dropLast ++ (baseName sk :: r) := by
                rw [← List.singleton_append, ← List.append_assoc, snoc_baseName h0]
              rw [this, dstOf_sub hd (q := baseName sk :: r)
                (by intro n hn; rcases List.mem_cons.1 hn with h | h; exact h ▸ hbn; exact hrbp n h) (by simp),
                ← hdstS]
              simp
            | false =>
              rw [hci] at hdstS
              simp only [Bool.false_eq_true, if_false] at hdstS ⊢
              subst hdstS
              by_cases hr0 : r = []
              · subst hr0; simp only [List.append_nil]; exact dstOf_self hd h3
              · exact dstOf_sub hd hrbp hr0
          rw [moveK_go hs hdst h1' h2' h3 h4 h5 hgo]
          obtain ⟨σf, hrun, hcwd, F1, F2, F3, F4⟩ := moveLoop_full hC hs h3 h4 hxd (8 * (s.entries.length + 2))
            (by have := sizeAt_le s sk; omega)
          rw [hrun]
          -- the reference accepts the move as well
          have hspec1 : emptyOntoOf (absS s) (absNode s sk e) dst = false := by
            unfold emptyOntoOf
            rw [get_absS]
            cases h6 : alLookup dst s.entries with
            | none => rfl
            | some y =>
              simp only [Option.map_some]
              have := hgo y h6
              have hk : (absNode s sk e).kind ≠ Kind.dir := by
                rw [Ne, kind_dir_iff]
                intro ⟨g1, g2⟩
                have hf := hflagE g2
                rw [g1] at hf
                simp [hf] at this
              simp [hk]
          have hspec2 : okDstOf (absS s) (absNode s sk e) dst = true := by
            unfold okDstOf
            rw [get_absS]
            cases h6 : alLookup dst s.entries with
            | none => rfl
            | some y =>
              simp only [Option.map_some]
              have := hgo y h6
              simp only [Bool.and_eq_true, Bool.not_eq_eq_eq_not, Bool.not_true] at this
              obtain ⟨⟨⟨g1, g2⟩, g3⟩, g4⟩ := this
              have k1 : (absNode s sk e).kind = Kind.file := by
                rw [kind_file_iff]
                have hf := hflagE g4
                rw [g3] at hf
                exact ⟨(by cases hh : e.dir with | false => rfl | true => rw [hh] at hf; cases hf), g4⟩
              have k2 : (absNode s dst y).kind = Kind.file := by
                rw [kind_file_iff]
                have hf := hflag y h6 g2
                rw [g1] at hf
                exact ⟨(by cases hh : y.dir with | false => rfl | true => rw [hh] at hf; cases hf), g2⟩
              simp [k1, k2]
          simp only [hspec1, Bool.false_eq_true, if_false, hspec2, Bool.not_true, liftR]
          apply sim_ok
          apply move_tequiv hC hs hfresh ?_ hcwd F1 F2 F3 F4
          cases h6 : alLookup dst s.entries with
          | none =>
            right
            cases hb : alLookup dst s.files with
            | none => rfl
            | some b => have := hP.dangling dst (by rw [hb]; rfl); rw [h6] at this; cases this
          | some y =>
            left
            have := hgo y h6
            simp only [Bool.and_eq_true, Bool.not_eq_eq_eq_not, Bool.not_true] at this
            rw [← hP.data sk e hs, this.1.2, this.2]; rfl
        · -- the model refuses: the destination exists and it is not file over file
          have hex : ∃ y, alLookup dst s.entries = some y ∧ (y.file && !y.link && e.file && !e.link) = false := by
            cases h6 : alLookup dst s.entries with
            | none => exact absurd (fun y hy => by rw [h6] at hy; cases hy) hgo
            | some y =>
              refine ⟨y, rfl, ?_⟩
              cases hc : (y.file && !y.link && e.file && !e.link) with
              | false => rfl
              | true => exact absurd (fun y' hy' => by rw [h6] at hy'; cases hy'; exact hc) hgo
          obtain ⟨y, h6, h7⟩ := hex
          rw [moveK_exists hs hdst h1' h2' h3 h4 h5 h6 h7]
          by_cases hem : emptyOntoOf (absS s) (absNode s sk e) dst = true
          · rw [if_pos hem]; exact sim_unspec _ _
          rw [if_neg hem]
          have hok : okDstOf (absS s) (absNode s sk e) dst = false := by
            unfold okDstOf
            rw [get_absS, h6]
            simp only [Option.map_some]
            cases hk : (decide ((absNode s sk e).kind = Kind.file) && decide ((absNode s dst y).kind = Kind.file)) with
            | false => rfl
            | true =>
              exfalso
              simp only [Bool.and_eq_true, decide_eq_true_eq] at hk
              obtain ⟨k1, k2⟩ := hk
              rw [kind_file_iff] at k1 k2
              have f1 := hflagE k1.2
              have f2 := hflag y h6 k2.2
              rw [k1.1] at f1; rw [k2.1] at f2
              simp [f1, f2, k1.2, k2.2] at h7
          simp only [hok, Bool.not_false, if_true, liftR]
          exact sim_err_none (TEquiv.refl _)

theorem moveP_refines (env : Env) (s : State) (a b : Str) (hI : Inv s) (hW : KeysWf s)
    (_hc : classOf s env (.moveP a b) = "-") (hFl : FlagsOk s) : Refines env s (.moveP a b) := by
  rw [refines_iff]
  intro y hy
  simp only [specStep, Option.some.injEq] at hy
  subst hy
  show Sim (mapVal (fun _ => Val.unit) (moveM env a b) s) _
  rw [moveM_eq]
  apply sim_withPath env s a (fun sk => absM env b >>= fun d => moveK sk d)
  intro a1 _
  apply sim_withPath env s b (moveK (toPath a1))
  intro a2 ha2
  exact moveK_sim (inv_props hI) hW hFl (absWith_bp (fun n hn => (hW.2.2 n hn).bodyPiece) ha2)

end Rivia.Lemmas.RefineB
