/-
  Rivia.Lemmas.RefineB.Remove — refinement of `remove` (C01, group B).
-/
import Rivia.Lemmas.RefineB.Base

namespace Rivia.Lemmas.RefineB
open Rivia Rivia.Memfs Rivia.Spec Rivia.Spec.TreeFs M

/-! ### prefixes -/

theorem isPrefixOrEq_iff (p q : FsPath) : isPrefixOrEq p q = true ↔ p <+: q := by
  unfold isPrefixOrEq
  rw [List.prefix_iff_eq_take]
  simp only [Bool.and_eq_true, decide_eq_true_eq, beq_iff_eq]
  constructor
  · intro h; exact h.2.symm
  · intro h; refine ⟨?_, h.symm⟩
    have := congrArg List.length h
    simp at this; omega

theorem isProperPrefix_iff (p q : FsPath) : isProperPrefix p q = true ↔ p <+: q ∧ p.length < q.length := by
  unfold isProperPrefix
  rw [List.prefix_iff_eq_take]
  simp only [Bool.and_eq_true, decide_eq_true_eq, beq_iff_eq]
  constructor
  · intro h; exact ⟨h.2.symm, h.1⟩
  · intro h; exact ⟨h.2, h.1.symm⟩

theorem properPrefix_split {p q : FsPath} (h : isProperPrefix p q = true) : ∃ x r, q = p ++ x :: r := by
  obtain ⟨⟨t, ht⟩, hl⟩ := (isProperPrefix_iff p q).1 h
  cases t with
  | nil => simp at ht; subst ht; omega
  | cons x r => exact ⟨x, r, ht.symm⟩

/-! ### ancestors -/

theorem baseName_snoc (p : FsPath) (x : Str) : baseName (p ++ [x]) = x := by
  simp [baseName]

theorem anc {s : State} (hI : InvP s) : ∀ (n : Nat) (r : List Str) (p : FsPath) (x : Str), r.length = n →
    (alLookup (p ++ x :: r) s.entries).isSome →
    ∃ pe fs, alLookup p s.entries = some pe ∧ pe.dir = true ∧ pe.link = false ∧ pe.files = some fs ∧ x ∈ fs := by
  intro n
  induction n with
  | zero =>
    intro r p x hr hk
    have : r = [] := List.length_eq_zero_iff.1 hr
    subst this
    cases hke : alLookup (p ++ [x]) s.entries with
    | none => simp [hke] at hk
    | some e =>
      obtain ⟨pe, fs, h1, h2, h3, h4, h5⟩ := hI.parent _ e hke (by simp)
      rw [List.dropLast_concat] at h1
      rw [baseName_snoc] at h5
      exact ⟨pe, fs, h1, h2, h3, h4, h5⟩
  | succ n ih =>
    intro r p x hr hk
    rcases eq_nil_or_snoc r with h | ⟨mid, y, h⟩
    · subst h; simp at hr
    · subst h
      cases hke : alLookup (p ++ x :: (mid ++ [y])) s.entries with
      | none => simp [hke] at hk
      | some e =>
        obtain ⟨pe, fs, h1, _⟩ := hI.parent _ e hke (by simp)
        have : (p ++ x :: (mid ++ [y])).dropLast = p ++ x :: mid := by
          rw [show p ++ x :: (mid ++ [y]) = (p ++ x :: mid) ++ [y] by simp, List.dropLast_concat]
        rw [this] at h1
        exact ih mid p x (by simpa using hr) (by simp [h1])

/-- a directory entry whose child set is empty (or absent) has nothing below it -/
theorem below_isEmpty_iff {s : State} (hI : InvP s) {p : FsPath} {e : Entry}
    (hp : alLookup p s.entries = some e) :
    (below (absS s) p).isEmpty = true ↔ (e.files = none ∨ e.files = some []) := by
  unfold below absS
  simp only [List.map_map, List.isEmpty_iff, List.filter_eq_nil_iff, List.mem_map, Function.comp]
  constructor
  · intro h
    cases hf : e.files with
    | none => exact Or.inl rfl
    | some fs =>
      cases fs with
      | nil => exact Or.inr rfl
      | cons n ns =>
        exfalso
        have hl := hI.listed p e (n :: ns) n hp hf (by simp)
        rw [alLookup_isSome_iff] at hl
        obtain ⟨kv, hkv, hk⟩ := List.mem_map.1 hl
        refine h (p ++ [n]) ⟨kv, hkv, hk⟩ ?_
        rw [isProperPrefix_iff]; simp
  · intro h k ⟨kv, hkv, hk⟩ hpp
    obtain ⟨x, r, hq⟩ := properPrefix_split hpp
    subst hk
    have hs : (alLookup kv.1 s.entries).isSome := by
      rw [alLookup_isSome_iff]; exact List.mem_map.2 ⟨kv, hkv, rfl⟩
    rw [hq] at hs
    obtain ⟨pe, fs, h1, _, _, h4, h5⟩ := anc hI r.length r p x rfl hs
    rw [hp] at h1; cases h1
    rcases h with h | h <;> rw [h] at h4 <;> cases h4
    simp at h5

/-! ### `remove` -/

def removeK (p : FsPath) : M Unit := do
  match (← getEntry p) with
  | some e => match e.files with
    | some fs => if !fs.isEmpty then fail .dirContainsFiles else M.pure ()
    | none => M.pure ()
  | none => M.pure ()
  if (← getEntry p).isNone then return () else
  let d ← dirOf p
  match (← getEntry d) with
  | some pe =>
    let pe' ← liftO (pe.removeChild (baseName p))
    setEntry d pe'
  | none => M.pure ()
  match (← getEntry p) with
  | some e => if e.file then do let _ ← removeFile p
  | none => M.pure ()
  let _ ← removeEntry p
  return ()

theorem removeM_eq (env : Env) (path : Str) : removeM env path = (absM env path >>= removeK) := rfl

/-- `MemfsEntry::remove(name)` on the child set -/
def rmName (pe : Entry) (n : Str) : Entry :=
  match pe.files with
  | some fs => { pe with files := some (fs.filter (· ≠ n)) }
  | none => pe

theorem removeChild_eq (pe : Entry) (n : Str) :
    pe.removeChild n = if pe.dir then .ok (rmName pe n) else .err .isNotDir := by
  obtain ⟨path, alt, rel, dir, file, link, mode, uid, gid, follow, cached, files⟩ := pe
  cases dir <;> cases files <;> rfl

theorem sameCore_rmName (pe : Entry) (n : Str) : SameCore pe (rmName pe n) := by
  unfold rmName; split <;> exact ⟨rfl, rfl, rfl, rfl, rfl, rfl⟩

/-- a missing path: `Ok(())`, nothing touched (whatever its parent is; `k = []` included) -/
theorem removeK_absent {k : FsPath} {s : State} (hk : alLookup k s.entries = none) :
    removeK k s = (.ok (), s) := by
  unfold removeK
  simp only [getEntry_bind, hk, mpure_bind, Option.isNone_none, if_true]
  rfl

theorem dropLast_ne_self {k : FsPath} (hne : k ≠ []) : k.dropLast ≠ k := by
  intro e; have := congrArg List.length e; simp at this
  have : k.length ≠ 0 := by simpa using hne
  omega

theorem removeK_nonempty {k : FsPath} {s : State} {e : Entry} {n : Str} {ns : List Str}
    (hk : alLookup k s.entries = some e) (hf : e.files = some (n :: ns)) :
    removeK k s = (.err .dirContainsFiles, s) := by
  unfold removeK
  simp only [getEntry_bind, hk, hf, List.isEmpty_cons, Bool.not_false, if_true, fail_bind]

theorem removeK_present {k : FsPath} {s : State} {e pe : Entry} (hne : k ≠ [])
    (hk : alLookup k s.entries = some e) (hf : e.files = none ∨ e.files = some [])
    (hd : alLookup k.dropLast s.entries = some pe) (hpd : pe.dir = true) :
    removeK k s = (.ok (), { s with
      entries := alErase k (alInsert k.dropLast (rmName pe (baseName k)) s.entries),
      files := if e.file then alErase k s.files else s.files }) := by
  unfold removeK
  have hdk := dropLast_ne_self hne
  rcases hf with hf | hf <;>
  · simp only [getEntry_bind, hk, hf, mpure_bind, dirOf_bind, hne, if_false, hd, removeChild_eq, hpd, if_true,
      liftO_ok_bind, setEntry_bind, alLookup_alInsert_ne hdk, List.isEmpty_nil, Bool.not_true, Bool.false_eq_true,
      Option.isNone_some]
    cases e.file with
    | true => simp only [if_true, removeFile_bind, removeEntry_bind]; rfl
    | false => simp only [Bool.false_eq_true, if_false, removeEntry_bind]; rfl

theorem get_absS_congr {s s' : State} {x : FsPath}
    (h : ∀ e, alLookup x s.entries = some e → ∃ e', alLookup x s'.entries = some e' ∧ SameCore e e' ∧
      (e.link = false → alLookup x s'.files = alLookup x s.files))
    (hn : alLookup x s.entries = none → alLookup x s'.entries = none) :
    get (absS s') x = get (absS s) x := by
  rw [get_absS, get_absS]
  cases hx : alLookup x s.entries with
  | none => rw [hn hx]; rfl
  | some e =>
    obtain ⟨e', h1, h2, h3⟩ := h e hx
    rw [h1]; simp only [Option.map_some]; rw [absNode_congr h2 h3]

theorem kind_dir_iff (s : State) (k : FsPath) (e : Entry) :
    (absNode s k e).kind = Kind.dir ↔ (e.dir = true ∧ e.link = false) := by
  unfold absNode kindOf
  cases e.link <;> cases e.dir <;> simp

/-- entry lookups after a leaf removal with parent bookkeeping -/
theorem lookup_rm {s : State} (hI : InvP s) (k : FsPath) (pe' : Entry) (x : FsPath) :
    alLookup x (alErase k (alInsert k.dropLast pe' s.entries)) =
      if k = x then none else if k.dropLast = x then some pe' else alLookup x s.entries := by
  rw [alLookup_alErase (nodup_alInsert hI.nodup), alLookup_alInsert]

theorem get_del {s : State} (hI : InvP s) (k x : FsPath) :
    get (del (absS s) k) x = if k = x then none else get (absS s) x := by
  unfold del TreeFs.get
  rw [alLookup_alErase]
  unfold absS
  simp only [List.map_map]
  exact hI.nodup

/-- the abstract effect of removing the entry `k` (and possibly its data), with the child set of the
    parent updated -/
theorem get_rm {s : State} (hI : InvP s) {k : FsPath} {pe : Entry}
    (hd : alLookup k.dropLast s.entries = some pe) (n : Str) (fl : List (FsPath × File.Bytes))
    (hfl : ∀ x, x ≠ k → alLookup x fl = alLookup x s.files) (x : FsPath) :
    get (absS { s with entries := alErase k (alInsert k.dropLast (rmName pe n) s.entries), files := fl }) x =
      if k = x then none else get (absS s) x := by
  by_cases hkx : k = x
  · subst hkx
    rw [get_absS]; simp only [lookup_rm hI, if_true, Option.map_none]
  · rw [if_neg hkx]
    apply get_absS_congr
    · intro e he
      simp only [lookup_rm hI, hkx, if_false]
      by_cases hdx : k.dropLast = x
      · subst hdx
        rw [hd] at he; cases he
        exact ⟨rmName pe n, by simp, sameCore_rmName _ _, fun _ => hfl _ (fun e => hkx e.symm)⟩
      · exact ⟨e, by simp [hdx, he], SameCore.rfl' e, fun _ => hfl _ (fun e => hkx e.symm)⟩
    · intro hn
      simp only [lookup_rm hI, hkx, if_false]
      have : k.dropLast ≠ x := by intro e; subst e; rw [hd] at hn; cases hn
      simp [this, hn]

theorem removeK_sim {s : State} {k : FsPath} (hI : InvP s) (hne : k ≠ []) :
    Sim (mapVal (fun _ => Val.unit) (removeK k) s) (liftR (fun _ => Val.unit) (remove (absS s) k)) := by
  unfold mapVal remove
  rw [get_absS]
  cases hk : alLookup k s.entries with
  | none =>
    simp only [Option.map_none, hne, if_false]
    rw [removeK_absent hk]
    cases get (absS s) k.dropLast with
    | none => exact sim_ok (TEquiv.refl _)
    | some n =>
      by_cases hkd : n.kind = Kind.dir
      · simp only [hkd, if_true, liftR]; exact sim_ok (TEquiv.refl _)
      · simp only [hkd, if_false, liftR]; exact sim_unspec _ _
  | some e =>
    simp only [Option.map_some, hne, if_false]
    obtain ⟨pe, fs, hd, hpd, _, _, _⟩ := hI.parent k e hk hne
    cases hf : e.files with
    | some fs' =>
      cases fs' with
      | cons n ns =>
        rw [removeK_nonempty hk hf]
        have : (below (absS s) k).isEmpty = false := by
          cases hb : (below (absS s) k).isEmpty with
          | false => rfl
          | true => rcases (below_isEmpty_iff hI hk).1 hb with h | h <;> rw [hf] at h <;> cases h
        simp only [this, Bool.false_eq_true, if_false, liftR]
        exact sim_err_some (TEquiv.refl _)
      | nil =>
        rw [removeK_present hne hk (Or.inr hf) hd hpd]
        have : (below (absS s) k).isEmpty = true := (below_isEmpty_iff hI hk).2 (Or.inr hf)
        simp only [this, if_true, liftR]
        apply sim_ok
        refine ⟨rfl, fun x => ?_⟩
        rw [get_del hI, get_rm hI hd]
        intro x hx; split
        · exact alLookup_alErase_ne (fun e => hx e.symm) _
        · rfl
    | none =>
      rw [removeK_present hne hk (Or.inl hf) hd hpd]
      have : (below (absS s) k).isEmpty = true := (below_isEmpty_iff hI hk).2 (Or.inl hf)
      simp only [this, if_true, liftR]
      apply sim_ok
      refine ⟨rfl, fun x => ?_⟩
      rw [get_del hI, get_rm hI hd]
      intro x hx; split
      · exact alLookup_alErase_ne (fun e => hx e.symm) _
      · rfl

theorem entryAt_ok {s : State} {env : Env} {p a : Str} (ha : absWith env (renderP s.cwd) p = .ok a) :
    entryAt s env p = some (toPath a, alLookup (toPath a) s.entries) := by
  unfold entryAt; rw [ha]

theorem remove_refines (env : Env) (s : State) (p : Str) (hI : Inv s) (_hW : KeysWf s)
    (hc : classOf s env (.remove p) = "-") : Refines env s (.remove p) := by
  rw [refines_iff]
  intro y hy
  simp only [specStep, Option.some.injEq] at hy
  subst hy
  show Sim (mapVal (fun _ => Val.unit) (removeM env p) s) _
  rw [removeM_eq]
  apply sim_withPath
  intro a ha
  apply removeK_sim (inv_props hI)
  intro h0
  simp only [classOf, entryAt_ok ha, h0] at hc
  exact absurd hc (by decide)

end Rivia.Lemmas.RefineB
