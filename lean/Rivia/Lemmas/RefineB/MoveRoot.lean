/-
  Rivia.Lemmas.RefineB.MoveRoot — the root iteration of `moveLoop` (parent bookkeeping) and the whole
  worklist run from the moved root.
-/
import Rivia.Lemmas.RefineB.MoveLoop
namespace Rivia.Lemmas.RefineB
open Rivia Rivia.Memfs Rivia.Spec Rivia.Spec.TreeFs M

/-- the state after the root iteration -/
def mvRootSt (σ : State) (w k' : FsPath) (e op np' : Entry) : State :=
  let A := mvOne σ w k' e
  { A with entries := alInsert k'.dropLast np' (alInsert w.dropLast (rmName op (baseName w)) A.entries) }

/-- the root iteration: the entry is re-keyed and both parents' child sets are updated -/
theorem loop_move_root {sr d : FsPath} {ci : Bool} (hsr : sr ≠ []) {σ : State} {w k' : FsPath} {e op np np' : Entry}
    {b : Bool} (f : Nat) (W : List FsPath) (hw : w ≠ []) (hk' : k' ≠ []) (hdst : dstOf d w (mvPre sr ci) = k')
    (he : alLookup w σ.entries = some e)
    (hop : alLookup w.dropLast (mvOne σ w k' e).entries = some op) (hopd : op.dir = true)
    (hnp : alLookup k'.dropLast (alInsert w.dropLast (rmName op (baseName w)) (mvOne σ w k' e).entries) = some np)
    (hadd : np.addChild (baseName k') = .ok (b, np')) :
    moveLoop sr d ci (f + 1) (w :: W) σ =
      moveLoop sr d ci f ((cloneKids e.path e).reverse ++ W) (mvRootSt σ w k' e op np') := by
  subst hdst
  have hop' : alLookup w.dropLast (alInsert (dstOf d w (mvPre sr ci))
      { e with path := dstOf d w (mvPre sr ci), rel := movedRel e (dstOf d w (mvPre sr ci)) } (alErase w σ.entries)) = some op := hop
  have hnp' : alLookup (dstOf d w (mvPre sr ci)).dropLast (alInsert w.dropLast (rmName op (baseName w))
      (alInsert (dstOf d w (mvPre sr ci)) { e with path := dstOf d w (mvPre sr ci), rel := movedRel e (dstOf d w (mvPre sr ci)) } (alErase w σ.entries))) = some np := hnp
  rw [moveLoop_succ_cons]
  cases ci <;>
  · simp only [mvPre, Bool.false_eq_true, if_true, if_false] at hk'
    simp only [mvPre, Bool.false_eq_true, if_true, if_false, dirOf_ne hsr, mpure_bind, removeEntry_bind, he,
      movedRelM_eq_pure (movedOk_of_ne hk'), setEntry_bind, removeFile_bind] at hop' hnp' hadd ⊢
    cases hb : alLookup w σ.files with
    | none =>
      simp only [mpure_bind, dirOf_ne hw, getEntry_bind, hop', removeChild_eq, hopd, if_true, liftO_ok_bind,
        setEntry_bind, dirOf_ne hk', hnp', hadd]
      unfold mvRootSt mvOne cloneKids
      simp only [hb]
      rfl
    | some bb =>
      simp only [setFile_bind, mpure_bind, dirOf_ne hw, getEntry_bind, hop', removeChild_eq, hopd, if_true,
        liftO_ok_bind, setEntry_bind, dirOf_ne hk', hnp', hadd]
      unfold mvRootSt mvOne cloneKids
      simp only [hb]
      rfl

variable {s0 : State} {sr d dst : FsPath} {ci : Bool}

theorem absent_of_not_listed (hP : InvP s0) {w : FsPath} {e : Entry} (he0 : alLookup w s0.entries = some e)
    {z : Str} (hz : ∀ fs, e.files = some fs → z ∉ fs) (t : List Str) : alLookup (w ++ z :: t) s0.entries = none := by
  cases hh : alLookup (w ++ z :: t) s0.entries with
  | none => rfl
  | some e' =>
    obtain ⟨pe, fs, g1, _, _, g4, g5⟩ := anc hP t.length t w z rfl (by rw [hh]; rfl)
    rw [he0] at g1; cases g1
    exact absurd g5 (hz fs g4)

/-- after the entry `w` itself has been re-keyed (state `σ1`, possibly with bookkeeping at the keys `X`),
    the worklist re-keys everything below it -/
theorem mv_sub_after (hC : MvCtx s0 sr d dst ci) {σ σ1 : State} {w k' : FsPath} {e : Entry}
    (hpair : Paired sr dst w k') (he0 : alLookup w s0.entries = some e) (hag : Agree s0 σ w)
    (X : FsPath → Prop) (hX : ∀ k, X k → ¬ w <+: k ∧ ¬ k' <+: k)
    (h1 : lk σ1 w = (none, none)) (h2 : lk σ1 k' = mvImg (lk s0 w) (lk σ k') k')
    (h3 : ∀ k, k ≠ w → k ≠ k' → ¬ X k → lk σ1 k = lk σ k) (h4 : NodupSt σ1) :
    ∃ σ' c, (∀ k, w <+: k → lk σ' k = (none, none)) ∧
      (∀ r', lk σ' (k' ++ r') = mvImg (lk s0 (w ++ r')) (lk σ (k' ++ r')) (k' ++ r')) ∧
      (∀ k, ¬ w <+: k → ¬ k' <+: k → ¬ X k → lk σ' k = lk σ k) ∧
      (∀ k, X k → lk σ' k = lk σ1 k) ∧
      NodupSt σ' ∧ σ'.cwd = σ1.cwd ∧ c + 1 ≤ sizeAt s0 w ∧
      ∀ f W, moveLoop sr d ci (f + c) ((cloneKids w e).reverse ++ W) σ1 = moveLoop sr d ci f W σ' := by
  have hS3 : ∀ t, t ≠ [] → lk σ1 (w ++ t) = lk σ (w ++ t) ∧ lk σ1 (k' ++ t) = lk σ (k' ++ t) := by
    intro t ht
    have hl : ∀ a : FsPath, (a ++ t).length ≠ a.length := by
      intro a; cases t with
      | nil => exact absurd rfl ht
      | cons _ _ => simp
    refine ⟨h3 _ (fun h => hl w (congrArg List.length h)) (fun h => hC.img_ne hpair [] t (by simpa using h.symm))
        (fun hx => (hX _ hx).1 (List.prefix_append _ _)),
      h3 _ (fun h => hC.img_ne hpair t [] (by simpa using h)) (fun h => hl k' (congrArg List.length h))
        (fun hx => (hX _ hx).2 (List.prefix_append _ _))⟩
  -- the listed children (possibly none)
  obtain ⟨L, hL, hLf⟩ : ∃ L : List Str, cloneKids w e = L.map (fun y => w ++ [y]) ∧
      ((L = [] ∧ (e.files = none ∨ e.files = some [])) ∨ (L ≠ [] ∧ e.files = some L)) := by
    unfold cloneKids
    cases hf : e.files with
    | none => exact ⟨[], rfl, Or.inl ⟨rfl, Or.inl rfl⟩⟩
    | some fs =>
      cases fs with
      | nil => exact ⟨[], rfl, Or.inl ⟨rfl, Or.inr rfl⟩⟩
      | cons x xs => exact ⟨x :: xs, rfl, Or.inr ⟨by simp, rfl⟩⟩
  have hnotL : ∀ z, z ∉ L → ∀ fs, e.files = some fs → z ∉ fs := by
    intro z hz fs hfs
    rcases hLf with ⟨rfl, h | h⟩ | ⟨_, h⟩
    · rw [h] at hfs; cases hfs
    · rw [h] at hfs; cases hfs; simp
    · rw [h] at hfs; cases hfs; exact hz
  -- run the children
  have hkidsrun : ∃ σ2 c2, (∀ y ∈ L, ∀ k, (w ++ [y]) <+: k → lk σ2 k = (none, none)) ∧
      (∀ y ∈ L, ∀ r', lk σ2 (k' ++ y :: r') = mvImg (lk s0 (w ++ y :: r')) (lk σ1 (k' ++ y :: r')) (k' ++ y :: r')) ∧
      (∀ k, (∀ y ∈ L, ¬ (w ++ [y]) <+: k ∧ ¬ (k' ++ [y]) <+: k) → lk σ2 k = lk σ1 k) ∧
      NodupSt σ2 ∧ σ2.cwd = σ1.cwd ∧ c2 + 1 ≤ sizeAt s0 w ∧
      ∀ f W, moveLoop sr d ci (f + c2) ((cloneKids w e).reverse ++ W) σ1 = moveLoop sr d ci f W σ2 := by
    rcases hLf with ⟨rfl, _⟩ | ⟨_, hf⟩
    · refine ⟨σ1, 0, ?_, ?_, fun k _ => rfl, h4, rfl, sizeAt_pos (by rw [he0]; rfl), ?_⟩
      · intro y hy; cases hy
      · intro y hy; cases hy
      · intro f W; rw [hL]; rfl
    · obtain ⟨σ2, c2, k1, k2, k3, k4, k5, k6, k7⟩ := mv_kids hC (mvStmt_all hC (keyBound s0.entries)) hpair he0 hf
        L.reverse σ1 (fun y hy => List.mem_reverse.1 hy)
        ((List.reverse_perm _).symm.nodup (hC.inv.childNodup w e _ he0 hf))
        (fun y _ k hk => by
          obtain ⟨t, rfl⟩ := hk
          rw [List.append_assoc, (hS3 _ (by simp)).1]
          exact hag _ ⟨[y] ++ t, rfl⟩)
        (by unfold lk at h1; exact (Prod.mk.inj h1).1) h4
        (fun k hk => by have := le_keyBound ((alLookup_isSome_iff _ _).1 hk); omega)
      refine ⟨σ2, c2, fun y hy => k1 y (List.mem_reverse.2 hy), fun y hy => k2 y (List.mem_reverse.2 hy),
        fun k hk => k3 k (fun y hy => hk y (List.mem_reverse.1 hy)), k4, k5, ?_, ?_⟩
      · have := kids_sum_le hC.inv he0
        rw [hL, List.map_map] at this
        rw [List.map_reverse, List.sum_reverse_nat] at k6
        exact Nat.le_trans (Nat.add_le_add_right k6 1) this
      · intro f W
        rw [hL, ← List.map_reverse]; exact k7 f W
  obtain ⟨σ2, c2, k1, k2, k3, k4, k5, k6, k7⟩ := hkidsrun
  have hK3 : ∀ k, (∀ y, ¬ (w ++ [y]) <+: k) → (∀ y, ¬ (k' ++ [y]) <+: k) → lk σ2 k = lk σ1 k :=
    fun k g1 g2 => k3 k (fun y _ => ⟨g1 y, g2 y⟩)
  refine ⟨σ2, c2, ?_, ?_, ?_, ?_, k4, k5, k6, k7⟩
  · intro k ⟨t, ht⟩
    cases t with
    | nil =>
      simp at ht; subst ht
      rw [hK3 w (fun y => prefix_snoc_not_self w y) (fun y h => hC.img_not_prefix hpair [y] [] (by simpa using h))]
      exact h1
    | cons z t =>
      subst ht
      by_cases hz : z ∈ L
      · exact k1 z hz _ ⟨t, by simp⟩
      · rw [k3, (hS3 (z :: t) (by simp)).1, hag _ ⟨z :: t, rfl⟩,
          lk_absent hC.inv (absent_of_not_listed hC.inv he0 (hnotL z hz) t)]
        intro y hy
        refine ⟨fun h => ?_, fun h => hC.img_not_prefix hpair _ _ h⟩
        have : y = z := snoc_prefix_inj h ⟨t, by simp⟩
        exact hz (this ▸ hy)
  · intro r'
    cases r' with
    | nil =>
      rw [List.append_nil, List.append_nil,
        hK3 k' (fun y h => hC.src_not_prefix hpair [y] [] (by simpa using h)) (fun y => prefix_snoc_not_self k' y)]
      exact h2
    | cons z t =>
      by_cases hz : z ∈ L
      · rw [k2 z hz t, (hS3 (z :: t) (by simp)).2]
      · rw [lk_absent hC.inv (absent_of_not_listed hC.inv he0 (hnotL z hz) t), mvImg_none, k3,
          (hS3 (z :: t) (by simp)).2]
        intro y hy
        refine ⟨fun h => hC.src_not_prefix hpair _ _ h, fun h => ?_⟩
        have : y = z := snoc_prefix_inj h ⟨t, by simp⟩
        exact hz (this ▸ hy)
  · intro k g1 g2 gx
    rw [hK3 k (fun y h => g1 ((List.prefix_append w [y]).trans h)) (fun y h => g2 ((List.prefix_append k' [y]).trans h))]
    exact h3 k (fun h => g1 (h ▸ List.prefix_refl _)) (fun h => g2 (h ▸ List.prefix_refl _)) gx
  · intro k hx
    exact hK3 k (fun y h => (hX k hx).1 ((List.prefix_append w [y]).trans h))
      (fun y h => (hX k hx).2 ((List.prefix_append k' [y]).trans h))

theorem moveLoop_nil (sr d : FsPath) (ci : Bool) (f : Nat) (σ : State) :
    moveLoop sr d ci (f + 1) [] σ = (.ok (), σ) := rfl

/-- core-equality of optional entries -/
def SameCoreO : Option Entry → Option Entry → Prop
  | some a, some b => SameCore a b
  | none, none => True
  | _, _ => False

theorem SameCore.trans' {a b c : Entry} (h1 : SameCore a b) (h2 : SameCore b c) : SameCore a c := by
  obtain ⟨a1, a2, a3, a4, a5, a6⟩ := h1
  obtain ⟨b1, b2, b3, b4, b5, b6⟩ := h2
  exact ⟨b1.trans a1, b2.trans a2, b3.trans a3, b4.trans a4, b5.trans a5, b6.trans a6⟩

/-- the whole worklist of `move_p` from the root -/
theorem moveLoop_full (hC : MvCtx s0 sr d dst ci) {e np0 : Entry} (he0 : alLookup sr s0.entries = some e)
    (hdne : dst ≠ []) (hnp0 : alLookup dst.dropLast s0.entries = some np0) (hnpd : np0.dir = true)
    (F : Nat) (hF : sizeAt s0 sr + 1 ≤ F) :
    ∃ σf, moveLoop sr d ci F [sr] s0 = (.ok (), σf) ∧ σf.cwd = s0.cwd ∧
      (∀ k, sr <+: k → lk σf k = (none, none)) ∧
      (∀ r', lk σf (dst ++ r') = mvImg (lk s0 (sr ++ r')) (lk s0 (dst ++ r')) (dst ++ r')) ∧
      (∀ k, ¬ sr <+: k → ¬ dst <+: k → k ≠ sr.dropLast → k ≠ dst.dropLast → lk σf k = lk s0 k) ∧
      (∀ k, k = sr.dropLast ∨ k = dst.dropLast →
        (lk σf k).2 = (lk s0 k).2 ∧ SameCoreO (lk s0 k).1 (lk σf k).1) := by
  have hP := hC.inv
  have hsr := hC.srne
  have hpair : Paired sr dst sr dst := ⟨[], by simp, by simp⟩
  obtain ⟨op, fs, hop, hopd, _, _, _⟩ := hP.parent sr e he0 hsr
  -- the four keys are distinct where it matters
  have hds : dst ≠ sr := by have := hC.disj [] []; simpa using this
  have hsd_sr : sr.dropLast ≠ sr := dropLast_ne_self hsr
  have hsd_dst : sr.dropLast ≠ dst := by
    intro h
    have := hC.disj [baseName sr] []
    rw [← h, snoc_baseName hsr] at this; simp at this
  have hdd_dst : dst.dropLast ≠ dst := dropLast_ne_self hdne
  have hdd_sr : dst.dropLast ≠ sr := by
    intro h
    have := hC.disj [] [baseName dst]
    rw [← h, snoc_baseName hdne] at this; simp at this
  have hN0 : NodupSt s0 := ⟨hP.nodup, hP.filesNodup⟩
  have hLA := lk_mvOne hN0 hds e he0
  have hNA := nodup_mvOne hN0 sr dst e
  -- parents as seen during the root iteration
  have hopA : alLookup sr.dropLast (mvOne s0 sr dst e).entries = some op := by
    have := hLA sr.dropLast
    rw [if_neg hsd_sr, if_neg hsd_dst] at this
    unfold lk at this
    rw [(Prod.mk.inj this).1]; exact hop
  have hddA : alLookup dst.dropLast (mvOne s0 sr dst e).entries = some np0 := by
    have := hLA dst.dropLast
    rw [if_neg hdd_sr, if_neg hdd_dst] at this
    unfold lk at this
    rw [(Prod.mk.inj this).1]; exact hnp0
  obtain ⟨np, hnp, hnpdir, hnpcore⟩ : ∃ np, alLookup dst.dropLast (alInsert sr.dropLast (rmName op (baseName sr))
      (mvOne s0 sr dst e).entries) = some np ∧ np.dir = true ∧ SameCore np0 np := by
    rw [alLookup_alInsert]
    by_cases h : sr.dropLast = dst.dropLast
    · rw [if_pos h]
      have : op = np0 := by rw [h, hnp0] at hop; cases hop; rfl
      subst this
      exact ⟨_, rfl, by rw [rmName_dir]; exact hopd, sameCore_rmName _ _⟩
    · rw [if_neg h]; exact ⟨np0, hddA, hnpd, SameCore.rfl' _⟩
  obtain ⟨b, np', hadd, hnpc, _⟩ := addChild_dir (baseName dst) hnpdir
  obtain ⟨F', rfl⟩ : ∃ F', F = F' + 1 := ⟨F - 1, by omega⟩
  have hroot := loop_move_root (d := d) (ci := ci) hsr F' [] hsr hdne
    (by have := hC.img [] (by simpa using (show (alLookup sr s0.entries).isSome by rw [he0]; rfl)); simpa using this)
    he0 hopA hopd hnp hadd
  rw [hP.pathField sr e he0] at hroot
  -- lookups in the state after the root iteration
  have hL1 : ∀ k, lk (mvRootSt s0 sr dst e op np') k =
      (if dst.dropLast = k then some np' else if sr.dropLast = k then some (rmName op (baseName sr))
        else (lk (mvOne s0 sr dst e) k).1, (lk (mvOne s0 sr dst e) k).2) := by
    intro k
    unfold mvRootSt lk
    simp only [alLookup_alInsert]
  have hN1 : NodupSt (mvRootSt s0 sr dst e op np') :=
    ⟨nodup_alInsert (nodup_alInsert hNA.ents), hNA.files⟩
  have hX : ∀ k, k = sr.dropLast ∨ k = dst.dropLast → ¬ sr <+: k ∧ ¬ dst <+: k := by
    intro k hk
    rcases hk with rfl | rfl
    · refine ⟨prefix_dropLast_not hsr, ?_⟩
      intro ⟨t, ht⟩
      have := hC.disj (t ++ [baseName sr]) []
      rw [← List.append_assoc, ht, snoc_baseName hsr] at this; simp at this
    · refine ⟨?_, prefix_dropLast_not hdne⟩
      intro ⟨t, ht⟩
      have := hC.disj [] (t ++ [baseName dst])
      rw [← List.append_assoc, ht, snoc_baseName hdne] at this; simp at this
  obtain ⟨σf, c, c1, c2, c3, c4, c5, c6, c7, c8⟩ := mv_sub_after hC (σ := s0) (σ1 := mvRootSt s0 sr dst e op np') hpair he0
    (fun k _ => rfl) (fun k => k = sr.dropLast ∨ k = dst.dropLast) hX
    (by rw [hL1, if_neg hdd_sr, if_neg hsd_sr, hLA]; simp)
    (by rw [hL1, if_neg hdd_dst, if_neg hsd_dst, hLA, if_neg hds, if_pos rfl])
    (by
      intro k g1 g2 g3
      rw [hL1, if_neg (fun h => g3 (Or.inr h.symm)), if_neg (fun h => g3 (Or.inl h.symm)), hLA, if_neg g1, if_neg g2])
    hN1
  obtain ⟨f', hf'⟩ : ∃ f', F' = (f' + 1) + c := ⟨F' - c - 1, by omega⟩
  refine ⟨σf, ?_, by rw [c6]; rfl, c1, ?_, ?_, ?_⟩
  · rw [hroot, hf']
    rw [c8 (f' + 1) [], moveLoop_nil]
  · intro r'; exact c2 r'
  · intro k g1 g2 g3 g4
    exact c3 k g1 g2 (fun h => h.elim g3 g4)
  · intro k hk
    rw [c4 k hk, hL1]
    have hk1 : k ≠ sr := fun h => (hX k hk).1 (h ▸ List.prefix_refl _)
    have hk2 : k ≠ dst := fun h => (hX k hk).2 (h ▸ List.prefix_refl _)
    rw [hLA, if_neg hk1, if_neg hk2]
    refine ⟨rfl, ?_⟩
    simp only
    by_cases h1 : dst.dropLast = k
    · rw [if_pos h1]
      subst h1
      unfold lk; simp only [hnp0]
      exact (hnpcore.trans' hnpc)
    · rw [if_neg h1]
      have h2 : sr.dropLast = k := by
        rcases hk with h | h
        · exact h.symm
        · exact absurd h.symm h1
      rw [if_pos h2]
      subst h2
      unfold lk; simp only [hop]
      exact sameCore_rmName _ _

end Rivia.Lemmas.RefineB
