/-
  Rivia.Lemmas.RefineB.Chmod — refinement of the octal `chmod` / `chmod_b` without follow (C01, group B):
  the `pre_op` closure and the consumer both write the same mode, so only which keys are visited matters.
-/
import Rivia.Lemmas.RefineB.TraverseCF
import Rivia.Lemmas.RefineB.Move
namespace Rivia.Lemmas.RefineB
open Rivia Rivia.Memfs Rivia.Spec Rivia.Spec.TreeFs M

/-! ### depth 0 in the contents-first configuration: only the root reaches the consumer -/

structure FlatCf (o : Opts) : Prop where
  follow : o.follow = false
  minDepth : o.minDepth = 0
  maxDepth : o.maxDepth = 0
  cf : o.contentsFirst = true
  files : o.files = false
  dirs : o.dirs = false

variable {snap : Snap} {o : Opts}

theorem process_flat_dir {σ} (pre : Entry → σ → Outcome Unit × σ) (hO : FlatCf o) (st : ISt) (hst : st.iters = [])
    {x : Entry} (hd : x.dir = true) (w : σ) :
    process snap o pre st x w = (none, { st with deferred := (0, x) :: st.deferred }, w) := by
  unfold process
  simp only [hst, List.length_nil, hO.maxDepth, Nat.lt_irrefl, if_false, List.any_nil, Bool.false_eq_true, and_false,
    ite_self, hO.minDepth, hO.cf, hd, and_self, if_true, hO.files, hO.dirs, false_and, or_self]

theorem process_flat_leaf {σ} (pre : Entry → σ → Outcome Unit × σ) (hO : FlatCf o) (st : ISt) (hst : st.iters = [])
    {x : Entry} (hd : x.dir = false) (w : σ) :
    process snap o pre st x w = (some (.ok x), st, w) := by
  unfold process
  simp only [hd, Bool.false_eq_true, false_and, if_false, hst, List.length_nil, hO.minDepth, Nat.lt_irrefl, hO.files,
    hO.dirs, Bool.not_false, and_false, or_self]

theorem runIter_cf_flat {σ : Type} (pre : Entry → σ → Outcome Unit × σ) (hO : FlatCf o) (e : Entry) (gStep : Entry → σ → σ)
    (stepF : Entry → σ → Outcome Unit × σ) (hstep : ∀ x w, stepF x w = (.ok (), gStep x w)) (F : Nat) (hF : 3 ≤ F)
    (w : σ) : runIter snap o pre e stepF F {} w = (.ok (), gStep e w) := by
  obtain ⟨F', rfl⟩ : ∃ F', F = F' + 3 := ⟨F - 3, by omega⟩
  cases hd : e.dir with
  | false =>
    have hnext : nextE snap o pre e (F' + 2 + 1) {} w = (some (.ok e), { ({} : ISt) with started := true }, w) := by
      apply nextE_fresh
      rw [hO.follow, doFollow_false]
      exact process_flat_leaf pre hO _ rfl hd w
    show runIter snap o pre e stepF (F' + 2 + 1) {} w = _
    rw [runIter_yield pre e stepF (F' + 2) {} _ w w _ e hnext (hstep e w)]
    apply runIter_none pre e stepF (F' + 1) _ { ({} : ISt) with started := true }
    rw [nextE_started _ _ _ _ _ rfl]
    exact nlc_nil pre (F' + 1) _ _ rfl rfl
  | true =>
    have hproc : process snap o pre { ({} : ISt) with started := true } (e.doFollow o.follow) w =
        (none, { ({} : ISt) with started := true, deferred := [(0, e)] }, w) := by
      rw [hO.follow, doFollow_false]
      exact process_flat_dir pre hO _ rfl hd w
    show runIter snap o pre e stepF (F' + 2 + 1) {} w = _
    rw [runIter_fresh_none pre stepF e (F' + 2) w w _ hproc rfl]
    have hnext : nextE snap o pre e (F' + 2 + 1) { ({} : ISt) with started := true, deferred := [(0, e)] } w =
        (some (.ok e), { ({} : ISt) with started := true }, w) := by
      rw [nextE_started _ _ _ _ _ rfl]
      exact nlc_def (d := (0, e)) (ds := []) hO.cf pre (F' + 2)
        { ({} : ISt) with started := true, deferred := [(0, e)] } w ⟨rfl, trivial⟩ (by simp) rfl
    rw [runIter_yield pre e stepF (F' + 2) _ _ w w _ e hnext (hstep e w)]
    apply runIter_none pre e stepF (F' + 1) _ { ({} : ISt) with started := true }
    rw [nextE_started _ _ _ _ _ rfl]
    exact nlc_nil pre (F' + 1) _ _ rfl rfl

/-! ### `chmod` (octal) -/

def chmodPre (c : ChmodOpts) : Entry → State → Outcome Unit × State := fun x st =>
  match Chmod.mode (ekind x) x.mode c.dirs c.sym with
  | .ok m1 =>
    if (!x.link ∨ c.follow) ∧ x.dir ∧ m1 ≠ 0 ∧ !Chmod.revokingMode x.mode m1 ∧ x.mode ≠ m1 then
      match alLookup x.path st.entries with
      | some e => (.ok (), { st with entries := alInsert x.path (e.setMode m1) st.entries })
      | none => (.ok (), st)
    else (.ok (), st)
  | .err k => (.err k, st)
  | .panic => (.panic, st)
  | .hang => (.hang, st)

def chmodStepF (c : ChmodOpts) : Entry → State → Outcome Unit × State := fun src st =>
  let m2o : Outcome Nat :=
    if src.dir then Chmod.mode (ekind src) src.mode c.dirs c.sym
    else if src.file then Chmod.mode (ekind src) src.mode c.files c.sym
    else .ok 0
  match m2o with
  | .ok m2 =>
    if (!src.link ∨ c.follow) ∧ m2 ≠ src.mode ∧ m2 ≠ 0 then
      match alLookup src.path st.entries with
      | some e => (.ok (), { st with entries := alInsert src.path (e.setMode m2) st.entries })
      | none => (.ok (), st)
    else (.ok (), st)
  | .err k => (.err k, st)
  | .panic => (.panic, st)
  | .hang => (.hang, st)

def chmodOpts (c : ChmodOpts) : Opts :=
  ({ contentsFirst := true, follow := c.follow, dirsFirst := true, sorted := true } : Opts).setMax
    (if c.recursive then 2 ^ 64 - 1 else 0)

def chmodK (c : ChmodOpts) (p : FsPath) : M Unit := do
  let s ← get
  let (rootE, snap) ← liftO (entriesOf s p)
  fun st => runIter snap (chmodOpts c) (chmodPre c) rootE (chmodStepF c) (travFuel snap) {} st

theorem chmodM_eq (env : Env) (path : Str) (c : ChmodOpts) : chmodM env path c = (absM env path >>= chmodK c) := rfl

/-- set the mode of the live entry at `k` (if there is one) -/
def setAt (k : FsPath) (m : Nat) (w : State) : State :=
  match alLookup k w.entries with
  | some e => { w with entries := alInsert k (e.setMode m) w.entries }
  | none => w

/-- the mode a `pre_op` writes, if it writes -/
def preVal (c : ChmodOpts) (x : Entry) : Option Nat :=
  if (!x.link) ∧ x.dir ∧ c.dirs ≠ 0 ∧ !Chmod.revokingMode x.mode c.dirs ∧ x.mode ≠ c.dirs then some c.dirs else none

def stepMode (c : ChmodOpts) (x : Entry) : Nat := if x.dir then c.dirs else if x.file then c.files else 0

/-- the mode the consumer writes, if it writes -/
def stepVal (c : ChmodOpts) (x : Entry) : Option Nat :=
  if (!x.link) ∧ stepMode c x ≠ x.mode ∧ stepMode c x ≠ 0 then some (stepMode c x) else none

def applyVal (v : Option Nat) (k : FsPath) (w : State) : State :=
  match v with | some m => setAt k m w | none => w

theorem mode_octal (k : Chmod.EKind) (cur oct : Nat) : Chmod.mode k cur oct [] = .ok oct := by
  unfold Chmod.mode
  by_cases h : oct = 0
  · simp [h]
  · simp [h]

theorem chmodPre_eq {c : ChmodOpts} (hs : c.sym = []) (hf : c.follow = false) (x : Entry) (w : State) :
    chmodPre c x w = (.ok (), applyVal (preVal c x) x.path w) := by
  unfold chmodPre preVal applyVal setAt
  rw [hs, mode_octal]
  simp only [hf, Bool.false_eq_true, or_false]
  split
  · split <;> rfl
  · rfl

theorem chmodStepF_eq {c : ChmodOpts} (hs : c.sym = []) (hf : c.follow = false) (x : Entry) (w : State) :
    chmodStepF c x w = (.ok (), applyVal (stepVal c x) x.path w) := by
  have hm : (if x.dir then Chmod.mode (ekind x) x.mode c.dirs c.sym
      else if x.file then Chmod.mode (ekind x) x.mode c.files c.sym else Outcome.ok 0) = .ok (stepMode c x) := by
    unfold stepMode
    rw [hs, mode_octal, mode_octal]
    split
    · rfl
    · split <;> rfl
  unfold chmodStepF stepVal applyVal setAt
  simp only [hm, hf, Bool.false_eq_true, or_false]
  split
  · split <;> rfl
  · rfl

def actVal (c : ChmodOpts) (a : Bool × Entry) : Option Nat := if a.1 then stepVal c a.2 else preVal c a.2

theorem setMode_idem (e : Entry) (m : Nat) : (e.setMode m).setMode m = e.setMode m := rfl

theorem lookup_setAt (a : FsPath) (m : Nat) (w : State) (k : FsPath) :
    alLookup k (setAt a m w).entries =
      if k = a then (alLookup k w.entries).map (fun e => e.setMode m) else alLookup k w.entries := by
  unfold setAt
  cases ha : alLookup a w.entries with
  | none =>
    simp only
    split
    · next h => subst h; rw [ha]; rfl
    · rfl
  | some e =>
    simp only [alLookup_alInsert]
    by_cases h : k = a
    · subst h; simp [ha]
    · have : ¬ a = k := fun e => h e.symm
      simp [h, this]

theorem setAt_files (a : FsPath) (m : Nat) (w : State) : (setAt a m w).files = w.files ∧ (setAt a m w).cwd = w.cwd := by
  unfold setAt; split <;> exact ⟨rfl, rfl⟩

/-- the state after a run of `pre_op`s and consumer steps which all write the mode `tm k` at `k` -/
theorem chmod_fold (c : ChmodOpts) (tm : FsPath → Nat) : ∀ (acts : List (Bool × Entry)) (w : State),
    (∀ a ∈ acts, ∀ m, actVal c a = some m → m = tm a.2.path) →
    (acts.foldl (fun w a => applyVal (actVal c a) a.2.path w) w).files = w.files ∧
    (acts.foldl (fun w a => applyVal (actVal c a) a.2.path w) w).cwd = w.cwd ∧
    ∀ k, alLookup k (acts.foldl (fun w a => applyVal (actVal c a) a.2.path w) w).entries =
      if acts.any (fun a => (actVal c a).isSome && decide (a.2.path = k))
      then (alLookup k w.entries).map (fun e => e.setMode (tm k)) else alLookup k w.entries := by
  intro acts
  induction acts with
  | nil => intro w _; simp
  | cons a acts ih =>
    intro w hcons
    obtain ⟨i1, i2, i3⟩ := ih (applyVal (actVal c a) a.2.path w) (fun b hb => hcons b (List.mem_cons_of_mem _ hb))
    simp only [List.foldl_cons]
    cases hv : actVal c a with
    | none =>
      have h0 : applyVal (actVal c a) a.2.path w = w := by rw [hv]; rfl
      rw [h0] at i1 i2 i3
      rw [show applyVal none a.2.path w = w from rfl]
      refine ⟨i1, i2, ?_⟩
      intro k
      rw [i3 k]
      simp only [List.any_cons, hv, Option.isSome_none, Bool.false_and, Bool.false_or]
    | some m =>
      have hm : m = tm a.2.path := hcons a (by simp) m hv
      have h0 : applyVal (actVal c a) a.2.path w = setAt a.2.path m w := by rw [hv]; rfl
      rw [h0] at i1 i2 i3
      rw [show applyVal (some m) a.2.path w = setAt a.2.path m w from rfl]
      obtain ⟨f1, f2⟩ := setAt_files a.2.path m w
      refine ⟨by rw [i1, f1], by rw [i2, f2], ?_⟩
      intro k
      rw [i3 k, lookup_setAt]
      simp only [List.any_cons, hv, Option.isSome_some, Bool.true_and]
      by_cases hk : k = a.2.path
      · subst hk
        simp only [decide_true, Bool.true_or, if_true]
        split
        · cases alLookup a.2.path w.entries with
          | none => rfl
          | some e => simp [hm, setMode_idem]
        · rw [hm]
      · have : ¬ a.2.path = k := fun e => hk e.symm
        simp only [this, decide_false, Bool.false_or, hk, if_false]

/-! #### the reference side -/

def permFn (dP fP : Option Nat) (n : Node) : Node :=
  match n.kind, dP, fP with
  | .dir, some m, _ => { n with perm := m }
  | .file, _, some m => { n with perm := m }
  | _, _, _ => n

def selB (t : T) (p : FsPath) (rec : Bool) (k : FsPath) : Bool :=
  decide (k = p) || (rec && isProperPrefix p k && isDir t p)

theorem chmodOctal_eq (t : T) (p : FsPath) (dP fP : Option Nat) (rec : Bool) :
    chmodOctal t p dP fP rec = match get t p with
      | none => (.err (some .doesNotExist), t)
      | some _ => (.ok (), { t with nodes := t.nodes.map (fun kv =>
          if selB t p rec kv.1 then (kv.1, permFn dP fP kv.2) else kv) }) := by
  unfold chmodOctal
  cases get t p with
  | none => rfl
  | some _ =>
    simp only
    congr 3
    funext kv
    obtain ⟨k, n⟩ := kv
    obtain ⟨kind, perm, uid, gid, target, data⟩ := n
    unfold selB permFn
    cases kind <;> cases dP <;> cases fP <;> rfl

/-- every entry's mode carries type bits (so it differs from any permission value) -/
def ModeOk (s : State) : Prop := ∀ kv ∈ s.entries, 0o10000 ≤ kv.2.mode

instance (s : State) : Decidable (ModeOk s) := by unfold ModeOk; infer_instance

theorem or_sub_pow (m i : Nat) (h : m < 2 ^ i) : (m ||| 2 ^ i) - 2 ^ i = m := by
  have := Nat.two_pow_add_eq_or_of_lt h 1
  rw [Nat.mul_one] at this
  rw [Nat.or_comm, ← this]; omega

theorem or_sub_dir (m : Nat) (h : m < 4096) : (m ||| 16384) - 16384 = m := by
  have := or_sub_pow m 14 (by omega)
  simpa using this

theorem or_sub_file (m : Nat) (h : m < 4096) : (m ||| 32768) - 32768 = m := by
  have := or_sub_pow m 15 (by omega)
  simpa using this

theorem node_perm_congr (n : Node) (a b : Nat) (h : a = b) : { n with perm := a } = { n with perm := b } := by rw [h]

theorem setMode_perm (e : Entry) (m : Nat) (hl : e.link = false) (hfl : e.file = !e.dir) (hm : m < 4096) :
    (e.setMode m).mode - typeBits (kindOf e) = m := by
  unfold Entry.setMode kindOf
  simp only [ModeBits.optsMode_some]
  cases hd : e.dir with
  | true =>
    rw [hd] at hfl
    simp only [hl, hfl, Bool.false_eq_true, if_false, Bool.not_true, if_true, typeBits,
      ModeBits.and_perm_of_lt m hm]
    exact or_sub_dir m hm
  | false =>
    rw [hd] at hfl
    simp only [hl, hfl, Bool.false_eq_true, if_false, Bool.not_false, if_true, typeBits,
      ModeBits.and_perm_of_lt m hm]
    exact or_sub_file m hm

theorem absNode_setMode (s : State) (k : FsPath) (e : Entry) (m : Nat) (hl : e.link = false)
    (hfl : e.file = !e.dir) (hm : m < 4096) :
    absNode s k (e.setMode m) = { absNode s k e with perm := m } := by
  have h1 : absNode s k (e.setMode m) =
      { absNode s k e with perm := (e.setMode m).mode - typeBits (kindOf e) } := rfl
  rw [h1]
  exact node_perm_congr _ _ _ (setMode_perm e m hl hfl hm)

theorem selB_true_iff {s : State} (hP : InvP s) {p : FsPath} {k : FsPath} (hk : (alLookup k s.entries).isSome) :
    selB (absS s) p true k = true ↔ p <+: k := by
  unfold selB
  simp only [Bool.true_and, Bool.or_eq_true, decide_eq_true_eq, Bool.and_eq_true]
  constructor
  · intro h
    rcases h with h | h
    · rw [h]; exact List.prefix_refl _
    · exact ((isProperPrefix_iff _ _).1 h.1).1
  · intro hpk
    by_cases hkp : k = p
    · exact Or.inl hkp
    · right
      obtain ⟨t, ht⟩ := hpk
      cases t with
      | nil => simp at ht; exact absurd ht.symm hkp
      | cons n r =>
        obtain ⟨pe, fs, g1, g2, g3, _, _⟩ := anc hP r.length r p n rfl (by rw [ht]; exact hk)
        refine ⟨(isProperPrefix_iff _ _).2 ⟨⟨n :: r, ht⟩, by rw [← ht]; simp⟩, ?_⟩
        rw [isDir_absS, g1]; simp [g2, g3]

theorem chmodOpts_cf {s : State} {p : FsPath} {snap : Snap} {c : ChmodOpts} (hP : InvP s) (hS : SnapOk s p snap)
    (hf : c.follow = false) (hr : c.recursive = true) (hD : DepthOk s) : CfCtx s p snap (chmodOpts c) := by
  refine ⟨hP, hS, ?_, ?_, ?_, ?_, ?_, ?_, ?_, ?_⟩ <;> simp only [chmodOpts, Opts.setMax, hf, hr, if_true]
  intro k hk
  simp only [Nat.not_lt_zero, if_false]
  obtain ⟨kv, hkv, rfl⟩ := List.mem_map.1 ((alLookup_isSome_iff _ _).1 hk)
  exact hD kv hkv

theorem chmodOpts_flat {c : ChmodOpts} (hf : c.follow = false) (hr : c.recursive = false) : FlatCf (chmodOpts c) := by
  refine ⟨?_, ?_, ?_, ?_, ?_, ?_⟩ <;> simp [chmodOpts, Opts.setMax, hf, hr]

theorem chmodK_err {c : ChmodOpts} {p : FsPath} {s : State} {k : ErrKind} (h : entriesOf s p = .err k) :
    chmodK c p s = (.err k, s) := by
  unfold chmodK
  rw [get_bind, h]; rfl

theorem chmodK_ok {c : ChmodOpts} {p : FsPath} {s : State} {e : Entry} {snap : Snap} (h : entriesOf s p = .ok (e, snap)) :
    chmodK c p s = runIter snap (chmodOpts c) (chmodPre c) e (chmodStepF c) (travFuel snap) {} s := by
  unfold chmodK
  rw [get_bind, h]; rfl

theorem travFuel_ge3 {s : State} {p : FsPath} {snap : Snap} (hP : InvP s) (hS : SnapOk s p snap) :
    3 * sizeAt s p + 3 ≤ travFuel snap := by
  have := sizeAt_le_snap hP hS
  unfold travFuel
  have h2 : (snap.length + 2) ≤ (snap.length + 2) * (snap.length + 2) := Nat.le_mul_of_pos_left _ (by omega)
  have h3 : 64 * (snap.length + 2) * (snap.length + 2) = 64 * ((snap.length + 2) * (snap.length + 2)) :=
    Nat.mul_assoc _ _ _
  omega

/-- the mode every write at `k` uses -/
def tmOf (s : State) (c : ChmodOpts) (k : FsPath) : Nat :=
  match alLookup k s.entries with | some x => stepMode c x | none => 0

theorem chmod_acts {s : State} {p : FsPath} {c : ChmodOpts} {e : Entry} {snap : Snap} (hP : InvP s)
    (hp : alLookup p s.entries = some e) (hS : SnapOk s p snap) (hs : c.sym = []) (hf : c.follow = false)
    (hD : c.recursive = true → DepthOk s) :
    ∃ acts : List (Bool × Entry),
      runIter snap (chmodOpts c) (chmodPre c) e (chmodStepF c) (travFuel snap) {} s =
        (.ok (), acts.foldl (fun w a => applyVal (actVal c a) a.2.path w) s) ∧
      (∀ a ∈ acts, alLookup a.2.path s.entries = some a.2 ∧ selB (absS s) p c.recursive a.2.path = true) ∧
      ∀ k, (alLookup k s.entries).isSome →
        (selB (absS s) p c.recursive k = true ↔ ∃ a ∈ acts, a.1 = true ∧ a.2.path = k) := by
  have hpath : e.path = p := hP.pathField p e hp
  have hcf : cfAct (fun x w => applyVal (preVal c x) x.path w) (fun x w => applyVal (stepVal c x) x.path w) =
      fun w a => applyVal (actVal c a) a.2.path w := by
    funext w a; unfold cfAct actVal; split <;> rfl
  cases hr : c.recursive with
  | true =>
    obtain ⟨acts, h1, h2, h3⟩ := runIter_cf_root (chmodPre c) (fun x w => applyVal (preVal c x) x.path w)
      (chmodPre_eq hs hf) (fun x w => applyVal (stepVal c x) x.path w) (chmodStepF c) (chmodStepF_eq hs hf)
      (chmodOpts_cf hP hS hf hr (hD hr)) hp (travFuel snap) (travFuel_ge3 hP hS) s
    rw [hcf] at h1
    refine ⟨acts, h1, ?_, ?_⟩
    · intro a ha
      have := h2 a ha
      exact ⟨this.1, (selB_true_iff hP (by rw [this.1]; rfl)).2 this.2⟩
    · intro k hk
      rw [selB_true_iff hP hk, ← h3 k]
      exact ⟨fun h => ⟨h, hk⟩, fun h => h.1⟩
  | false =>
    refine ⟨[(true, e)], ?_, ?_, ?_⟩
    · rw [runIter_cf_flat (chmodPre c) (chmodOpts_flat hf hr) e (fun x w => applyVal (stepVal c x) x.path w)
        (chmodStepF c) (chmodStepF_eq hs hf) (travFuel snap) (by
          unfold travFuel
          have : 2 ≤ (snap.length + 2) * (snap.length + 2) :=
            Nat.le_trans (by omega) (Nat.le_mul_of_pos_left _ (by omega))
          have h3 : 64 * (snap.length + 2) * (snap.length + 2) = 64 * ((snap.length + 2) * (snap.length + 2)) :=
            Nat.mul_assoc _ _ _
          omega) s]
      rfl
    · intro a ha
      simp only [List.mem_singleton] at ha
      subst ha
      simp only [hpath, hp, selB, decide_true, Bool.true_or, and_self]
    · intro k _
      simp only [selB, Bool.false_and, Bool.or_false, decide_eq_true_eq, List.mem_singleton, exists_eq_left, true_and,
        hpath]
      exact eq_comm

theorem permFn_dir {n : Node} (h : n.kind = Kind.dir) (m : Nat) (fP : Option Nat) :
    permFn (some m) fP n = { n with perm := m } := by
  unfold permFn; rw [h]

theorem permFn_dir_none {n : Node} (h : n.kind = Kind.dir) (fP : Option Nat) : permFn none fP n = n := by
  unfold permFn; rw [h]

theorem permFn_file {n : Node} (h : n.kind = Kind.file) (dP : Option Nat) (m : Nat) :
    permFn dP (some m) n = { n with perm := m } := by
  unfold permFn; rw [h]

theorem permFn_file_none {n : Node} (h : n.kind = Kind.file) (dP : Option Nat) : permFn dP none n = n := by
  unfold permFn; rw [h]

theorem permFn_link {n : Node} {b : Bool} (h : n.kind = Kind.link b) (dP fP : Option Nat) : permFn dP fP n = n := by
  unfold permFn; rw [h]

theorem kind_link_of (s : State) (k : FsPath) (e : Entry) (h : e.link = true) : (absNode s k e).kind = Kind.link e.dir := by
  unfold absNode kindOf; simp [h]

theorem chmodK_sim {s : State} {p : FsPath} {c : ChmodOpts} (hP : InvP s) (hFl : FlagsOk s) (hMo : ModeOk s)
    (hs : c.sym = []) (hf : c.follow = false) (hpd : c.dirs < 4096) (hpf : c.files < 4096)
    (hD : c.recursive = true → DepthOk s) :
    Sim (mapVal (fun _ => Val.unit) (chmodK c p) s)
      (liftR (fun _ => Val.unit) (chmodOctal (absS s) p (if c.dirs = 0 then none else some c.dirs)
        (if c.files = 0 then none else some c.files) c.recursive)) := by
  rw [chmodOctal_eq, get_absS]
  unfold mapVal
  cases hp : alLookup p s.entries with
  | none =>
    rw [chmodK_err (entriesOf_none hp)]
    simp only [Option.map_none, liftR]
    exact sim_err_some (TEquiv.refl _)
  | some e =>
    obtain ⟨snap, hE, hS⟩ := entriesOf_ok hP hp
    rw [chmodK_ok hE]
    simp only [Option.map_some, liftR]
    obtain ⟨acts, h1, h2, h3⟩ := chmod_acts hP hp hS hs hf hD
    rw [h1]
    apply sim_ok
    have hsm : ∀ x : Entry, stepMode c x < 4096 := by
      intro x; unfold stepMode; split
      · exact hpd
      · split
        · exact hpf
        · omega
    -- every write at a key uses the same mode
    have hcons : ∀ a ∈ acts, ∀ m, actVal c a = some m → m = tmOf s c a.2.path := by
      intro a ha m hm
      unfold tmOf
      rw [(h2 a ha).1]
      unfold actVal at hm
      split at hm
      · unfold stepVal at hm
        split at hm
        · exact (Option.some.inj hm).symm
        · cases hm
      · unfold preVal at hm
        split at hm
        · next hc =>
          have : a.2.dir = true := hc.2.1
          simp only [stepMode, this, if_true]
          exact (Option.some.inj hm).symm
        · cases hm
    obtain ⟨f1, f2, f3⟩ := chmod_fold c (tmOf s c) acts s hcons
    refine ⟨f2, fun k => ?_⟩
    rw [get_absS, f3 k]
    show _ = alLookup k _
    simp only
    rw [alLookup_map_if (selB (absS s) p c.recursive)
      (permFn (if c.dirs = 0 then none else some c.dirs) (if c.files = 0 then none else some c.files))]
    show _ = Option.map _ (get (absS s) k)
    rw [get_absS]
    cases hk : alLookup k s.entries with
    | none => simp
    | some x =>
      have hkp : (alLookup k s.entries).isSome := by rw [hk]; rfl
      have hxfl : x.link = false → x.file = !x.dir := hFl (k, x) (alLookup_some_mem hk)
      have hxmo : 4096 ≤ x.mode := hMo (k, x) (alLookup_some_mem hk)
      have htm : tmOf s c k = stepMode c x := by unfold tmOf; rw [hk]
      cases htouch : acts.any (fun a => (actVal c a).isSome && decide (a.2.path = k)) with
      | true =>
        rw [List.any_eq_true] at htouch
        obtain ⟨a, ha, hav⟩ := htouch
        simp only [Bool.and_eq_true, decide_eq_true_eq] at hav
        obtain ⟨hav, hak⟩ := hav
        have hax : a.2 = x := by
          have := (h2 a ha).1
          rw [hak, hk] at this
          exact (Option.some.inj this).symm
        have hsel : selB (absS s) p c.recursive k = true := hak ▸ (h2 a ha).2
        -- a write happens only on a non-link entry with a non-zero target mode
        have hwr : x.link = false ∧ stepMode c x ≠ 0 := by
          unfold actVal at hav
          split at hav
          · unfold stepVal at hav
            split at hav
            · next hc => rw [hax] at hc; exact ⟨by simpa using hc.1, hc.2.2⟩
            · cases hav
          · unfold preVal at hav
            split at hav
            · next hc =>
              rw [hax] at hc
              refine ⟨by simpa using hc.1, ?_⟩
              simp only [stepMode, hc.2.1, if_true]; exact hc.2.2.1
            · cases hav
        simp only [if_true, Option.map_some, hsel, htm, absNode_files_congr f1]
        rw [absNode_setMode s k x _ hwr.1 (hxfl hwr.1) (hsm x)]
        congr 1
        cases hxd : x.dir with
        | true =>
          have hkd : (absNode s k x).kind = Kind.dir := (kind_dir_iff s k x).2 ⟨hxd, hwr.1⟩
          have hne : c.dirs ≠ 0 := by have := hwr.2; simpa [stepMode, hxd] using this
          simp only [stepMode, hxd, if_true, hne, if_false]
          rw [permFn_dir hkd]
        | false =>
          have hxf : x.file = true := by rw [hxfl hwr.1, hxd]; rfl
          have hkd : (absNode s k x).kind = Kind.file := (kind_file_iff s k x).2 ⟨hxd, hwr.1⟩
          have hne : c.files ≠ 0 := by have := hwr.2; simpa [stepMode, hxd, hxf] using this
          simp only [stepMode, hxd, hxf, Bool.false_eq_true, if_false, if_true, hne]
          rw [permFn_file hkd]
      | false =>
        simp only [Bool.false_eq_true, if_false, Option.map_some, absNode_files_congr f1]
        congr 1
        cases hsel : selB (absS s) p c.recursive k with
        | false => simp
        | true =>
          simp only [if_true]
          obtain ⟨a, ha, ha1, hak⟩ := (h3 k hkp).1 hsel
          have hax : a.2 = x := by
            have := (h2 a ha).1
            rw [hak, hk] at this
            exact (Option.some.inj this).symm
          -- the consumer step did not write
          have hnone : stepVal c x = none := by
            have hnt : ((actVal c a).isSome && decide (a.2.path = k)) = false := by
              cases hh : ((actVal c a).isSome && decide (a.2.path = k)) with
              | false => rfl
              | true =>
                have : acts.any (fun a => (actVal c a).isSome && decide (a.2.path = k)) = true :=
                  List.any_eq_true.2 ⟨a, ha, hh⟩
                rw [htouch] at this; cases this
            simp only [hak, decide_true, Bool.and_true] at hnt
            unfold actVal at hnt
            rw [ha1, if_pos rfl, hax] at hnt
            cases hv : stepVal c x with
            | none => rfl
            | some _ => rw [hv] at hnt; cases hnt
          unfold stepVal at hnone
          split at hnone
          · cases hnone
          · next hc =>
            have hmne : stepMode c x ≠ x.mode := by have := hsm x; omega
            cases hxl : x.link with
            | true => exact (permFn_link (kind_link_of s k x hxl) _ _).symm
            | false =>
              have hz : stepMode c x = 0 := by
                cases Nat.decEq (stepMode c x) 0 with
                | isTrue h => exact h
                | isFalse h => exact absurd ⟨by simp [hxl], hmne, h⟩ hc
              cases hxd : x.dir with
              | true =>
                have hkd : (absNode s k x).kind = Kind.dir := (kind_dir_iff s k x).2 ⟨hxd, hxl⟩
                have : c.dirs = 0 := by simpa [stepMode, hxd] using hz
                simp only [this, if_true]
                exact (permFn_dir_none hkd _).symm
              | false =>
                have hxf : x.file = true := by rw [hxfl hxl, hxd]; rfl
                have hkd : (absNode s k x).kind = Kind.file := (kind_file_iff s k x).2 ⟨hxd, hxl⟩
                have : c.files = 0 := by simpa [stepMode, hxd, hxf] using hz
                simp only [this, if_true]
                exact (permFn_file_none hkd _).symm

theorem chmod_refines (env : Env) (s : State) (p : Str) (m : Nat) (hI : Inv s) (_hW : KeysWf s)
    (hc : classOf s env (.chmod p m) = "-") (hFl : FlagsOk s) (hMo : ModeOk s) (hD : DepthOk s) :
    Refines env s (.chmod p m) := by
  rw [refines_iff]
  intro y hy
  simp only [specStep] at hy
  split at hy
  next hperm =>
    simp only [Option.some.injEq] at hy
    subst hy
    have hm0 : m ≠ 0 := by
      intro h0
      simp only [classOf, h0, if_true] at hc
      exact absurd hc (by decide)
    have hm : m < 4096 := by simpa [permOk] using hperm
    show Sim (mapVal (fun _ => Val.unit) (chmodM env p { dirs := m, files := m }) s) _
    rw [chmodM_eq]
    apply sim_withPath
    intro a _
    have := chmodK_sim (c := { dirs := m, files := m }) (p := toPath a) (inv_props hI) hFl hMo rfl rfl hm hm
      (fun _ => hD)
    simpa [hm0] using this
  · cases hy

theorem chmodB_refines (env : Env) (s : State) (p : Str) (c : ChmodOpts) (hI : Inv s) (_hW : KeysWf s)
    (_hc : classOf s env (.chmodB p c) = "-") (hsym : c.sym = []) (hFl : FlagsOk s) (hMo : ModeOk s)
    (hD : c.recursive = true → DepthOk s) : Refines env s (.chmodB p c) := by
  rw [refines_iff]
  intro y hy
  simp only [specStep, hsym, if_true] at hy
  split at hy
  · cases hy
  next hf =>
  split at hy
  next hperm =>
    simp only [Option.some.injEq] at hy
    subst hy
    have hpd : c.dirs < 4096 := by simpa [permOk] using hperm.1
    have hpf : c.files < 4096 := by simpa [permOk] using hperm.2
    show Sim (mapVal (fun _ => Val.unit) (chmodM env p c) s) _
    rw [chmodM_eq]
    apply sim_withPath
    intro a _
    exact chmodK_sim (inv_props hI) hFl hMo hsym (by simpa using hf) hpd hpf hD
  · cases hy

end Rivia.Lemmas.RefineB
