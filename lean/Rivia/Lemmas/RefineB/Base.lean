/-
  Rivia.Lemmas.RefineB.Base — common notions of the group-B refinement proofs (C01):
  `TEquiv`, `ResMatch`, `KeysWf`, association-list lemmas, the Prop-level reading `InvP` of the
  decidable invariant `Inv`, `get (absS s) k`, and the glue for path resolution.
-/
import Rivia.Spec.MemfsJudge
import Rivia.Lemmas.User
import Rivia.Lemmas.ModeBits

namespace Rivia.Lemmas.RefineB
open Rivia Rivia.Memfs Rivia.Spec Rivia.Spec.TreeFs

/-! ### the notions of the refinement statement -/

def TEquiv (a b : T) : Prop := a.cwd = b.cwd ∧ ∀ k, get a k = get b k

theorem TEquiv.refl (a : T) : TEquiv a a := ⟨rfl, fun _ => rfl⟩

def ResMatch : Outcome Val → R Val → Prop
  | _, .unspecified => True
  | .ok v, .ok w => v = w
  | .err k, .err (some k') => k = k'
  | .err _, .err none => True
  | _, _ => False

/-- every name of every key of the entry map, of the data map and of the cwd is a proper name -/
def KeysWf (s : State) : Prop :=
  (∀ kv ∈ s.entries, ∀ n ∈ kv.1, Wf n) ∧ (∀ kv ∈ s.files, ∀ n ∈ kv.1, Wf n) ∧ ∀ n ∈ s.cwd, Wf n

/-- the shape of every per-operation refinement theorem -/
def Refines (env : Env) (s : State) (op : Op) : Prop :=
  ∀ r t', specStep env (absS s) op = some (r, t') →
    ResMatch (step env s op).1 r ∧ (r ≠ .unspecified → TEquiv (absS (step env s op).2) t')

/-! ### association lists -/

section AL
variable {β : Type}

theorem alLookup_alInsert (k k' : FsPath) (v : β) (l : List (FsPath × β)) :
    alLookup k (alInsert k' v l) = if k' = k then some v else alLookup k l := by
  induction l with
  | nil => simp [alInsert, alLookup]
  | cons x xs ih =>
    obtain ⟨a, b⟩ := x
    unfold alInsert
    by_cases h : a = k'
    · subst h; simp only [if_true]
      by_cases h2 : a = k
      · simp [alLookup, h2]
      · simp [alLookup, h2]
    · simp only [h, if_false]
      by_cases h2 : a = k
      · subst h2
        have : ¬ k' = a := fun e => h e.symm
        simp [alLookup, this]
      · simp [alLookup, h2, ih]

theorem alLookup_alInsert_ne {k k' : FsPath} (h : k' ≠ k) (v : β) (l : List (FsPath × β)) :
    alLookup k (alInsert k' v l) = alLookup k l := by
  rw [alLookup_alInsert, if_neg h]

theorem alLookup_alInsert_self (k : FsPath) (v : β) (l : List (FsPath × β)) :
    alLookup k (alInsert k v l) = some v := by
  rw [alLookup_alInsert, if_pos rfl]

theorem alLookup_eq_none_iff (k : FsPath) (l : List (FsPath × β)) :
    alLookup k l = none ↔ k ∉ l.map (·.1) := by
  induction l with
  | nil => simp [alLookup]
  | cons x xs ih =>
    obtain ⟨a, b⟩ := x
    by_cases h : a = k
    · simp [alLookup, h]
    · have h' : ¬ k = a := fun e => h e.symm
      simp [alLookup, h, h', ih]

theorem alLookup_some_mem {k : FsPath} {v : β} {l : List (FsPath × β)} (h : alLookup k l = some v) :
    (k, v) ∈ l := by
  induction l with
  | nil => simp [alLookup] at h
  | cons x xs ih =>
    obtain ⟨a, b⟩ := x
    by_cases h2 : a = k
    · subst h2; simp [alLookup] at h; subst h; simp
    · simp [alLookup, h2] at h; exact List.mem_cons_of_mem _ (ih h)

theorem alLookup_isSome_iff (k : FsPath) (l : List (FsPath × β)) :
    (alLookup k l).isSome ↔ k ∈ l.map (·.1) := by
  have := alLookup_eq_none_iff k l
  cases h : alLookup k l with
  | none => simp [h] at this; simp [this]
  | some v => simp [h] at this; simp; simpa using this

theorem alLookup_of_mem_nodup {k : FsPath} {v : β} {l : List (FsPath × β)}
    (hn : (l.map (·.1)).Nodup) (h : (k, v) ∈ l) : alLookup k l = some v := by
  induction l with
  | nil => simp at h
  | cons x xs ih =>
    obtain ⟨a, b⟩ := x
    simp only [List.map_cons, List.nodup_cons] at hn
    rcases List.mem_cons.1 h with h | h
    · cases h; simp [alLookup]
    · have : a ≠ k := by
        intro e; subst e
        exact hn.1 (List.mem_map.2 ⟨(a, v), h, rfl⟩)
      simp [alLookup, this, ih hn.2 h]

theorem alLookup_alErase_ne {k k' : FsPath} (h : k' ≠ k) (l : List (FsPath × β)) :
    alLookup k (alErase k' l) = alLookup k l := by
  induction l with
  | nil => rfl
  | cons x xs ih =>
    obtain ⟨a, b⟩ := x
    unfold alErase
    by_cases h1 : a = k'
    · subst h1; simp [alLookup, h]
    · simp only [h1, if_false]
      by_cases h2 : a = k
      · simp [alLookup, h2]
      · simp [alLookup, h2, ih]

theorem alErase_of_not_mem {k : FsPath} {l : List (FsPath × β)} (h : k ∉ l.map (·.1)) :
    alErase k l = l := by
  induction l with
  | nil => rfl
  | cons x xs ih =>
    obtain ⟨a, b⟩ := x
    simp only [List.map_cons, List.mem_cons, not_or] at h
    have : ¬ a = k := fun e => h.1 e.symm
    simp [alErase, this, ih h.2]

theorem alLookup_alErase_self {k : FsPath} {l : List (FsPath × β)} (hn : (l.map (·.1)).Nodup) :
    alLookup k (alErase k l) = none := by
  induction l with
  | nil => rfl
  | cons x xs ih =>
    obtain ⟨a, b⟩ := x
    simp only [List.map_cons, List.nodup_cons] at hn
    unfold alErase
    by_cases h1 : a = k
    · subst h1; simp only [if_true]
      exact (alLookup_eq_none_iff _ _).2 hn.1
    · simp [h1, alLookup, ih hn.2]

theorem alLookup_alErase {k k' : FsPath} {l : List (FsPath × β)} (hn : (l.map (·.1)).Nodup) :
    alLookup k (alErase k' l) = if k' = k then none else alLookup k l := by
  by_cases h : k' = k
  · subst h; simp [alLookup_alErase_self hn]
  · simp [h, alLookup_alErase_ne h]

theorem keys_alErase (k : FsPath) (l : List (FsPath × β)) :
    (alErase k l).map (·.1) = (l.map (·.1)).erase k := by
  induction l with
  | nil => rfl
  | cons x xs ih =>
    obtain ⟨a, b⟩ := x
    unfold alErase
    by_cases h1 : a = k
    · subst h1; simp
    · simp [h1, ih, List.erase_cons_tail]

theorem nodup_alErase {k : FsPath} {l : List (FsPath × β)} (hn : (l.map (·.1)).Nodup) :
    ((alErase k l).map (·.1)).Nodup := by
  rw [keys_alErase]; exact hn.erase _

theorem keys_alInsert (k : FsPath) (v : β) (l : List (FsPath × β)) :
    (alInsert k v l).map (·.1) = if k ∈ l.map (·.1) then l.map (·.1) else l.map (·.1) ++ [k] := by
  induction l with
  | nil => simp [alInsert]
  | cons x xs ih =>
    obtain ⟨a, b⟩ := x
    unfold alInsert
    by_cases h1 : a = k
    · subst h1; simp
    · have h1' : ¬ k = a := fun e => h1 e.symm
      simp only [h1, if_false, List.map_cons, ih, List.mem_cons, h1', false_or]
      split <;> simp

theorem nodup_alInsert {k : FsPath} {v : β} {l : List (FsPath × β)} (hn : (l.map (·.1)).Nodup) :
    ((alInsert k v l).map (·.1)).Nodup := by
  rw [keys_alInsert]
  split
  · exact hn
  · next h => exact List.nodup_append.2 ⟨hn, by simp, by intro a ha b hb; simp at hb; subst hb; intro e; subst e; exact h ha⟩

theorem length_alInsert_of_mem {k : FsPath} {v : β} {l : List (FsPath × β)} (h : k ∈ l.map (·.1)) :
    (alInsert k v l).length = l.length := by
  have := congrArg List.length (keys_alInsert k v l)
  simpa [h] using this

theorem alLookup_map (k : FsPath) {γ : Type} (f : FsPath → β → γ) (l : List (FsPath × β)) :
    alLookup k (l.map (fun kv => (kv.1, f kv.1 kv.2))) = (alLookup k l).map (f k) := by
  induction l with
  | nil => rfl
  | cons x xs ih =>
    obtain ⟨a, b⟩ := x
    by_cases h : a = k
    · subst h; simp [alLookup]
    · simp [alLookup, h, ih]

theorem alLookup_filter_key (k : FsPath) (P : FsPath → Bool) (l : List (FsPath × β)) :
    alLookup k (l.filter (fun kv => P kv.1)) = if P k then alLookup k l else none := by
  induction l with
  | nil => simp [alLookup]
  | cons x xs ih =>
    obtain ⟨a, b⟩ := x
    by_cases hp : P a = true
    · rw [List.filter_cons_of_pos (by simpa using hp)]
      by_cases h : a = k
      · subst h; simp [alLookup, hp]
      · simp [alLookup, h, ih]
    · rw [List.filter_cons_of_neg (by simpa using hp)]
      by_cases h : a = k
      · subst h; simp [hp, ih]
      · simp [alLookup, h, ih]

end AL

/-! ### the abstraction, pointwise -/

theorem get_absS (s : State) (k : FsPath) :
    get (absS s) k = (alLookup k s.entries).map (absNode s k) := by
  unfold TreeFs.get absS
  exact alLookup_map k (absNode s) s.entries

theorem absS_cwd (s : State) : (absS s).cwd = s.cwd := rfl

/-- the fields of an entry the abstraction looks at -/
def SameCore (e e' : Entry) : Prop :=
  e'.link = e.link ∧ e'.dir = e.dir ∧ e'.mode = e.mode ∧ e'.uid = e.uid ∧ e'.gid = e.gid ∧ e'.alt = e.alt

theorem SameCore.rfl' (e : Entry) : SameCore e e := ⟨rfl, rfl, rfl, rfl, rfl, rfl⟩

theorem absNode_congr {s s' : State} {k : FsPath} {e e' : Entry} (hc : SameCore e e')
    (hf : e.link = false → alLookup k s'.files = alLookup k s.files) : absNode s' k e' = absNode s k e := by
  obtain ⟨h1, h2, h3, h4, h5, h6⟩ := hc
  unfold absNode kindOf
  rw [h1, h2, h3, h4, h5, h6]
  cases hl : e.link with
  | true => simp
  | false => simp [hf hl]

/-! ### the invariant as a conjunction of universally quantified facts -/

structure InvP (s : State) : Prop where
  nodup : (s.entries.map (·.1)).Nodup
  root : ∃ e, alLookup [] s.entries = some e ∧ e.dir = true ∧ e.link = false
  parent : ∀ k e, alLookup k s.entries = some e → k ≠ [] →
    ∃ pe fs, alLookup k.dropLast s.entries = some pe ∧ pe.dir = true ∧ pe.link = false ∧
      pe.files = some fs ∧ baseName k ∈ fs
  listed : ∀ k e fs n, alLookup k s.entries = some e → e.files = some fs → n ∈ fs →
    (alLookup (k ++ [n]) s.entries).isSome
  data : ∀ k e, alLookup k s.entries = some e → (e.file && !e.link) = (alLookup k s.files).isSome
  pathField : ∀ k e, alLookup k s.entries = some e → e.path = k
  dirFiles : ∀ k e, alLookup k s.entries = some e → e.files.isSome = e.dir
  childNodup : ∀ k e fs, alLookup k s.entries = some e → e.files = some fs → fs.Nodup
  filesNodup : (s.files.map (·.1)).Nodup
  dangling : ∀ k, (alLookup k s.files).isSome → (alLookup k s.entries).isSome

theorem inv_props {s : State} (h : Inv s) : InvP s := by
  unfold Spec.Inv invViolation at h
  simp only at h
  split at h
  · cases h
  next h1 =>
  split at h
  · cases h
  next h2 =>
  split at h
  · cases h
  next h3 =>
  split at h
  · cases h
  next h4 =>
  split at h
  · cases h
  next h5 =>
  split at h
  · cases h
  next h6 =>
  split at h
  · cases h
  next h7 =>
  split at h
  · cases h
  next h8 =>
  split at h
  · cases h
  next h9 =>
  split at h
  · cases h
  next h10 =>
  split at h
  · cases h
  next h11 =>
  have hnd : (s.entries.map (·.1)).Nodup := by simpa using h1
  rw [List.find?_eq_none] at h4 h5 h6 h7 h9 h10 h11
  refine ⟨hnd, ?_, ?_, ?_, ?_, ?_, ?_, ?_, by simpa using h8, ?_⟩
  · cases hr : alLookup [] s.entries with
    | none => simp [hr] at h2
    | some e =>
      refine ⟨e, rfl, ?_⟩
      simp [hr] at h2
      exact h2
  · intro k e hk hne
    have := h4 (k, e) (alLookup_some_mem hk)
    simp only [hne, ne_eq, not_false_eq_true, decide_true, Bool.true_and] at this
    cases hp : alLookup k.dropLast s.entries with
    | none => simp [hp] at this
    | some pe =>
      simp only [hp] at this
      cases hf : pe.files with
      | none => simp [hf] at this
      | some fs =>
        simp [hf] at this
        exact ⟨pe, fs, rfl, this.1.1, this.1.2, hf, this.2⟩
  · intro k e fs n hk hf hn
    have := h5 (k, e) (alLookup_some_mem hk)
    simp only [hf] at this
    simp at this
    have := this n hn
    cases hh : alLookup (k ++ [n]) s.entries with
    | none => exact absurd hh this
    | some _ => rfl
  · intro k e hk
    have := h6 (k, e) (alLookup_some_mem hk)
    simpa using this
  · intro k e hk
    have := h9 (k, e) (alLookup_some_mem hk)
    simpa using this
  · intro k e hk
    have := h10 (k, e) (alLookup_some_mem hk)
    simpa using this
  · intro k e fs hk hf
    have := h11 (k, e) (alLookup_some_mem hk)
    simp only [hf] at this
    simpa using this
  · intro k hk
    cases hb : alLookup k s.files with
    | none => rw [hb] at hk; cases hk
    | some b =>
      have := h7 (k, b) (alLookup_some_mem hb)
      cases he : alLookup k s.entries with
      | none => simp [he] at this
      | some _ => rfl

/-! ### the state monad, pointwise -/

theorem bind_apply {α β} (m : M α) (f : α → M β) (s : State) :
    (m >>= f) s = match m s with
      | (.ok a, s') => f a s'
      | (.err k, s') => (.err k, s')
      | (.panic, s') => (.panic, s')
      | (.hang, s') => (.hang, s') := rfl

theorem pure_apply {α} (a : α) (s : State) : (pure a : M α) s = (.ok a, s) := rfl
theorem mpure_apply {α} (a : α) (s : State) : (M.pure a : M α) s = (.ok a, s) := rfl
theorem pure_bind' {α β} (a : α) (f : α → M β) : (pure a >>= f : M β) = f a := rfl
theorem mpure_bind {α β} (a : α) (f : α → M β) : (M.pure a >>= f : M β) = f a := rfl
theorem fail_bind {α β} (k : ErrKind) (f : α → M β) (s : State) : ((M.fail k : M α) >>= f) s = (.err k, s) := rfl
theorem fail_apply {α} (k : ErrKind) (s : State) : (M.fail k : M α) s = (.err k, s) := rfl
theorem getEntry_bind {β} (p : FsPath) (f : Option Entry → M β) (s : State) :
    (getEntry p >>= f) s = f (alLookup p s.entries) s := rfl
theorem setEntry_bind {β} (p : FsPath) (e : Entry) (f : Unit → M β) (s : State) :
    (setEntry p e >>= f) s = f () { s with entries := alInsert p e s.entries } := rfl
theorem removeEntry_bind {β} (p : FsPath) (f : Option Entry → M β) (s : State) :
    (removeEntry p >>= f) s = f (alLookup p s.entries) { s with entries := alErase p s.entries } := rfl
theorem getFile_bind {β} (p : FsPath) (f : Option File.Bytes → M β) (s : State) :
    (getFile p >>= f) s = f (alLookup p s.files) s := rfl
theorem setFile_bind {β} (p : FsPath) (b : File.Bytes) (f : Unit → M β) (s : State) :
    (setFile p b >>= f) s = f () { s with files := alInsert p b s.files } := rfl
theorem removeFile_bind {β} (p : FsPath) (f : Option File.Bytes → M β) (s : State) :
    (removeFile p >>= f) s = f (alLookup p s.files) { s with files := alErase p s.files } := rfl
theorem get_bind {β} (f : State → M β) (s : State) : (M.get >>= f) s = f s s := rfl
theorem modify_bind {β} (g : State → State) (f : Unit → M β) (s : State) :
    (M.modify g >>= f) s = f () (g s) := rfl
theorem dirOf_bind {β} (p : FsPath) (f : FsPath → M β) (s : State) :
    (dirOf p >>= f) s = if p = [] then (.err .parentNotFound, s) else f p.dropLast s := by
  unfold dirOf; split <;> rfl
theorem liftO_ok_bind {α β} (a : α) (f : α → M β) : (M.liftO (.ok a) >>= f : M β) = f a := rfl
theorem liftO_err_bind {α β} (k : ErrKind) (f : α → M β) (s : State) :
    (M.liftO (.err k : Outcome α) >>= f) s = (.err k, s) := rfl

theorem absM_apply (env : Env) (p : Str) (s : State) :
    absM env p s = match absWith env (renderP s.cwd) p with
      | .ok a => (.ok (toPath a), s)
      | .err k => (.err k, s)
      | .panic => (.panic, s)
      | .hang => (.hang, s) := rfl

/-! ### simulation of one call -/

/-- model result/state vs reference result/state -/
def Sim (x : Outcome Val × State) (y : SR) : Prop :=
  ResMatch x.1 y.1 ∧ (y.1 ≠ .unspecified → TEquiv (absS x.2) y.2)

theorem refines_iff (env : Env) (s : State) (op : Op) :
    Refines env s op ↔ ∀ y, specStep env (absS s) op = some y → Sim (step env s op) y := by
  unfold Refines Sim
  constructor
  · intro h y hy; exact h y.1 y.2 hy
  · intro h r t hy; exact h (r, t) hy

theorem sim_unspec (x : Outcome Val × State) (t : T) : Sim x (.unspecified, t) :=
  ⟨by unfold ResMatch; split <;> simp_all, fun h => absurd rfl h⟩

theorem sim_err_some {k : ErrKind} {s' : State} {t : T} (h : TEquiv (absS s') t) :
    Sim (.err k, s') (.err (some k), t) := ⟨by simp [ResMatch], fun _ => h⟩

theorem sim_err_none {k : ErrKind} {s' : State} {t : T} (h : TEquiv (absS s') t) :
    Sim (.err k, s') (.err none, t) := ⟨by simp [ResMatch], fun _ => h⟩

theorem sim_ok {v : Val} {s' : State} {t : T} (h : TEquiv (absS s') t) :
    Sim (.ok v, s') (.ok v, t) := ⟨by simp [ResMatch], fun _ => h⟩

/-- resolution of the (first) path argument happens identically on both sides -/
theorem sim_withPath {α} (env : Env) (s : State) (p : Str) (K : FsPath → M α) (f : α → Val)
    (k : FsPath → SR) (h : ∀ a, absWith env (renderP s.cwd) p = .ok a →
      Sim (mapVal f (K (toPath a)) s) (k (toPath a))) :
    Sim (mapVal f (absM env p >>= K) s) (withPath env (absS s) p k) := by
  unfold withPath resolve
  rw [absS_cwd]
  unfold mapVal
  rw [bind_apply, absM_apply]
  cases hr : absWith env (renderP s.cwd) p with
  | ok a =>
    have := h a hr
    unfold mapVal at this
    exact this
  | err e => exact sim_err_some (TEquiv.refl _)
  | panic => exact sim_unspec _ _
  | hang => exact sim_unspec _ _

end Rivia.Lemmas.RefineB
