/-
  Rivia.Lemmas.RefineB.MoveLoop — the worklist of `move_p` (`moveLoop`) below the moved root: every
  entry (and its data) of a subtree whose parent is already gone is re-keyed to its image, within
  `sizeAt` iterations, and nothing else changes.
-/
import Rivia.Lemmas.RefineB.Chown
import Rivia.Lemmas.RefineB.Paths
import Rivia.Lemmas.MovedEntry
namespace Rivia.Lemmas.RefineB
open Rivia Rivia.Memfs Rivia.Spec Rivia.Spec.TreeFs M

/-! ### one iteration of the `move_p` worklist -/

/-- both maps at a key -/
def lk (σ : State) (k : FsPath) : Option Entry × Option File.Bytes := (alLookup k σ.entries, alLookup k σ.files)

/-- what arrives at the image key `k'` when the source held `src` and the image held `old` -/
def mvImg (src old : Option Entry × Option File.Bytes) (k' : FsPath) : Option Entry × Option File.Bytes :=
  (match src.1 with | some e => some { e with path := k', rel := movedRel e k' } | none => old.1,
   match src.2 with | some b => some b | none => old.2)

/-- re-key one entry (and its data) from `w` to `k'` -/
def mvOne (σ : State) (w k' : FsPath) (e : Entry) : State :=
  { σ with
    entries := alInsert k' { e with path := k', rel := movedRel e k' } (alErase w σ.entries),
    files := match alLookup w σ.files with
      | some b => alInsert k' b (alErase w σ.files)
      | none => alErase w σ.files }

structure NodupSt (σ : State) : Prop where
  ents : (σ.entries.map (·.1)).Nodup
  files : (σ.files.map (·.1)).Nodup

theorem lk_mvOne {σ : State} (hN : NodupSt σ) {w k' : FsPath} (hne : k' ≠ w) (e : Entry)
    (he : alLookup w σ.entries = some e) (k : FsPath) :
    lk (mvOne σ w k' e) k =
      if k = w then (none, none)
      else if k = k' then mvImg (lk σ w) (lk σ k') k' else lk σ k := by
  unfold lk mvOne mvImg
  simp only [he]
  by_cases h1 : k = w
  · subst h1
    have hne' : ¬ k' = k := hne
    simp only [if_true, alLookup_alInsert, hne', if_false, alLookup_alErase_self hN.ents]
    cases hb : alLookup k σ.files with
    | none => simp only [alLookup_alErase_self hN.files]
    | some b => simp only [alLookup_alInsert, hne', if_false, alLookup_alErase_self hN.files]
  · have h1' : ¬ w = k := fun h => h1 h.symm
    simp only [h1, if_false]
    by_cases h2 : k = k'
    · subst h2
      simp only [if_true, alLookup_alInsert_self]
      cases hb : alLookup w σ.files with
      | none => simp only [alLookup_alErase_ne h1']
      | some b => simp only [alLookup_alInsert_self]
    · have h2' : ¬ k' = k := fun h => h2 h.symm
      simp only [h2, if_false, alLookup_alInsert, h2', alLookup_alErase_ne h1']
      cases hb : alLookup w σ.files with
      | none => simp only [alLookup_alErase_ne h1']
      | some b => simp only [alLookup_alInsert, h2', if_false, alLookup_alErase_ne h1']

theorem nodup_mvOne {σ : State} (hN : NodupSt σ) (w k' : FsPath) (e : Entry) : NodupSt (mvOne σ w k' e) := by
  refine ⟨nodup_alInsert (nodup_alErase hN.ents), ?_⟩
  unfold mvOne
  simp only
  split
  · exact nodup_alInsert (nodup_alErase hN.files)
  · exact nodup_alErase hN.files

def mvPre (sr : FsPath) (ci : Bool) : FsPath := if ci then sr.dropLast else sr

theorem loop_move_desc {sr d : FsPath} {ci : Bool} (hsr : sr ≠ []) {σ : State} {w : FsPath} {e : Entry}
    (f : Nat) (W : List FsPath) (hw : w ≠ []) (he : alLookup w σ.entries = some e)
    (hdne : dstOf d w (mvPre sr ci) ≠ [])
    (hpar : alLookup w.dropLast (mvOne σ w (dstOf d w (mvPre sr ci)) e).entries = none) :
    moveLoop sr d ci (f + 1) (w :: W) σ =
      moveLoop sr d ci f ((cloneKids e.path e).reverse ++ W) (mvOne σ w (dstOf d w (mvPre sr ci)) e) := by
  have hpar' : alLookup w.dropLast (alInsert (dstOf d w (mvPre sr ci))
      { e with path := dstOf d w (mvPre sr ci), rel := movedRel e (dstOf d w (mvPre sr ci)) } (alErase w σ.entries)) = none := hpar
  rw [moveLoop_succ_cons]
  cases ci <;>
  · simp only [mvPre, Bool.false_eq_true, if_true, if_false] at hdne
    simp only [mvPre, Bool.false_eq_true, if_true, if_false, dirOf_ne hsr, mpure_bind, removeEntry_bind, he,
      movedRelM_eq_pure (movedOk_of_ne hdne), setEntry_bind, removeFile_bind] at hpar' ⊢
    cases hb : alLookup w σ.files with
    | none =>
      simp only [mpure_bind, dirOf_ne hw, getEntry_bind, hpar']
      unfold mvOne cloneKids
      simp only [hb]
      rfl
    | some b =>
      simp only [setFile_bind, dirOf_ne hw, mpure_bind, getEntry_bind, hpar']
      unfold mvOne cloneKids
      simp only [hb]
      rfl

/-! ### re-keying a subtree -/

structure MvCtx (s0 : State) (sr d dst : FsPath) (ci : Bool) : Prop where
  inv : InvP s0
  srne : sr ≠ []
  img : ∀ r, (alLookup (sr ++ r) s0.entries).isSome → dstOf d (sr ++ r) (mvPre sr ci) = dst ++ r
  disj : ∀ r r', dst ++ r ≠ sr ++ r'

/-- `w` is below the moved root and `k'` is its image -/
def Paired (sr dst w k' : FsPath) : Prop := ∃ r, w = sr ++ r ∧ k' = dst ++ r

theorem Paired.snoc {sr dst w k' : FsPath} (h : Paired sr dst w k') (t : List Str) :
    Paired sr dst (w ++ t) (k' ++ t) := by
  obtain ⟨r, rfl, rfl⟩ := h
  exact ⟨r ++ t, by simp, by simp⟩

variable {s0 : State} {sr d dst : FsPath} {ci : Bool}

theorem MvCtx.img_ne (hC : MvCtx s0 sr d dst ci) {w k' : FsPath} (h : Paired sr dst w k') (a b : List Str) :
    k' ++ a ≠ w ++ b := by
  obtain ⟨r, rfl, rfl⟩ := h
  rw [List.append_assoc, List.append_assoc]
  exact hC.disj _ _

theorem MvCtx.img_not_prefix (hC : MvCtx s0 sr d dst ci) {w k' : FsPath} (h : Paired sr dst w k') (a b : List Str) :
    ¬ (k' ++ a) <+: (w ++ b) := by
  intro ⟨t, ht⟩
  rw [List.append_assoc] at ht
  exact hC.img_ne h _ _ ht

theorem MvCtx.src_not_prefix (hC : MvCtx s0 sr d dst ci) {w k' : FsPath} (h : Paired sr dst w k') (a b : List Str) :
    ¬ (w ++ a) <+: (k' ++ b) := by
  intro ⟨t, ht⟩
  rw [List.append_assoc] at ht
  exact hC.img_ne h _ _ ht.symm

def Agree (s0 σ : State) (w : FsPath) : Prop := ∀ k, w <+: k → lk σ k = lk s0 k

theorem lk_absent {s : State} (hP : InvP s) {k : FsPath} (h : alLookup k s.entries = none) : lk s k = (none, none) := by
  unfold lk
  rw [h]
  cases hb : alLookup k s.files with
  | none => rfl
  | some b =>
    have := hP.dangling k (by rw [hb]; rfl)
    rw [h] at this; cases this

theorem prefix_snoc_ne {w : FsPath} {x y : Str} (h : x ≠ y) (r' : List Str) : ¬ (w ++ [x]) <+: (w ++ y :: r') := by
  intro hx
  have hy : (w ++ [y]) <+: (w ++ y :: r') := ⟨r', by simp⟩
  exact h (snoc_prefix_inj hx hy)

theorem not_prefix_longer {a b : FsPath} (h : b.length < a.length) : ¬ a <+: b := by
  intro hp; have := hp.length_le; omega

/-- the effect of the first half of an iteration on an entry whose parent is already gone -/
theorem mv_step (hC : MvCtx s0 sr d dst ci) {σ : State} {w k' : FsPath} {e : Entry} (hpair : Paired sr dst w k')
    (hdl : ∃ r0, w.dropLast = sr ++ r0) (hw : w ≠ []) (he0 : alLookup w s0.entries = some e) (hag : Agree s0 σ w)
    (hpar : alLookup w.dropLast σ.entries = none) (hN : NodupSt σ) :
    lk (mvOne σ w k' e) w = (none, none) ∧
    lk (mvOne σ w k' e) k' = mvImg (lk s0 w) (lk σ k') k' ∧
    (∀ k, k ≠ w → k ≠ k' → lk (mvOne σ w k' e) k = lk σ k) ∧
    NodupSt (mvOne σ w k' e) ∧ (mvOne σ w k' e).cwd = σ.cwd ∧
    ∀ f W, moveLoop sr d ci (f + 1) (w :: W) σ =
      moveLoop sr d ci f ((cloneKids w e).reverse ++ W) (mvOne σ w k' e) := by
  have hkw : k' ≠ w := by
    have := hC.img_ne hpair [] []
    simpa using this
  have heσ : alLookup w σ.entries = some e := by
    have := hag w (List.prefix_refl _)
    unfold lk at this
    rw [← he0]; exact (Prod.mk.inj this).1
  have hL := lk_mvOne hN hkw e heσ
  refine ⟨?_, ?_, ?_, nodup_mvOne hN _ _ _, rfl, ?_⟩
  · rw [hL]; simp
  · rw [hL, if_neg hkw, if_pos rfl, hag w (List.prefix_refl _)]
  · intro k h1 h2; rw [hL, if_neg h1, if_neg h2]
  · intro f W
    have himg : dstOf d w (mvPre sr ci) = k' := by
      obtain ⟨r, rfl, rfl⟩ := hpair
      exact hC.img r (by rw [he0]; rfl)
    have hpath : e.path = w := hC.inv.pathField w e he0
    have hk'ne : k' ≠ [] := by
      obtain ⟨r, _, rfl⟩ := hpair
      intro h0
      have hd0 : dst = [] := (List.append_eq_nil_iff.1 h0).1
      have := hC.disj sr []
      rw [hd0] at this
      simp at this
    have := loop_move_desc (d := d) (ci := ci) hC.srne f W hw heσ (by rw [himg]; exact hk'ne) (by
      rw [himg]
      have h3 := hL w.dropLast
      obtain ⟨r0, hr0⟩ := hdl
      have h4 : w.dropLast ≠ k' := by
        obtain ⟨r, _, rfl⟩ := hpair
        rw [hr0]; exact (hC.disj _ _).symm
      rw [if_neg (dropLast_ne_self hw), if_neg h4] at h3
      unfold lk at h3
      rw [(Prod.mk.inj h3).1]; exact hpar)
    rw [himg, hpath] at this
    exact this

def MvStmt (s0 : State) (sr d dst : FsPath) (ci : Bool) (n : Nat) : Prop :=
  ∀ (σ : State) (w k' : FsPath) (e : Entry), Paired sr dst w k' → (∃ r0, w.dropLast = sr ++ r0) → w ≠ [] →
    alLookup w s0.entries = some e → Agree s0 σ w → alLookup w.dropLast σ.entries = none → NodupSt σ →
    (∀ k, (alLookup k s0.entries).isSome → k.length ≤ w.length + n) →
    ∃ σ' c, (∀ k, w <+: k → lk σ' k = (none, none)) ∧
      (∀ r', lk σ' (k' ++ r') = mvImg (lk s0 (w ++ r')) (lk σ (k' ++ r')) (k' ++ r')) ∧
      (∀ k, ¬ w <+: k → ¬ k' <+: k → lk σ' k = lk σ k) ∧
      NodupSt σ' ∧ σ'.cwd = σ.cwd ∧ c ≤ sizeAt s0 w ∧
      ∀ f W, moveLoop sr d ci (f + c) (w :: W) σ = moveLoop sr d ci f W σ'

theorem mvImg_none (old : Option Entry × Option File.Bytes) (k' : FsPath) : mvImg (none, none) old k' = old := by
  unfold mvImg; rfl

/-- an entry without children -/
theorem mv_leaf (hC : MvCtx s0 sr d dst ci) {σ : State} {w k' : FsPath} {e : Entry} (hpair : Paired sr dst w k')
    (hdl : ∃ r0, w.dropLast = sr ++ r0) (hw : w ≠ []) (he0 : alLookup w s0.entries = some e) (hag : Agree s0 σ w)
    (hpar : alLookup w.dropLast σ.entries = none) (hN : NodupSt σ) (hf : e.files = none ∨ e.files = some []) :
    ∃ σ' c, (∀ k, w <+: k → lk σ' k = (none, none)) ∧
      (∀ r', lk σ' (k' ++ r') = mvImg (lk s0 (w ++ r')) (lk σ (k' ++ r')) (k' ++ r')) ∧
      (∀ k, ¬ w <+: k → ¬ k' <+: k → lk σ' k = lk σ k) ∧
      NodupSt σ' ∧ σ'.cwd = σ.cwd ∧ c ≤ sizeAt s0 w ∧
      ∀ f W, moveLoop sr d ci (f + c) (w :: W) σ = moveLoop sr d ci f W σ' := by
  obtain ⟨h1, h2, h3, h4, h5, h6⟩ := mv_step hC hpair hdl hw he0 hag hpar hN
  have hkids : cloneKids w e = [] := by
    unfold cloneKids; rcases hf with hf | hf <;> rw [hf] <;> rfl
  have habs : ∀ x r', lk s0 (w ++ x :: r') = (none, none) :=
    fun x r' => lk_absent hC.inv (no_desc hC.inv.linv he0 hf x r')
  refine ⟨mvOne σ w k' e, 1, ?_, ?_, ?_, h4, h5, sizeAt_pos (by rw [he0]; rfl), ?_⟩
  · intro k ⟨t, ht⟩
    cases t with
    | nil => simp at ht; subst ht; exact h1
    | cons x r' =>
      subst ht
      rw [h3 _ (by intro h; have := congrArg List.length h; simp at this) (fun h => hC.img_ne hpair [] _ (by simpa using h.symm)),
        hag _ ⟨x :: r', rfl⟩, habs]
  · intro r'
    cases r' with
    | nil => simpa using h2
    | cons x r' =>
      rw [habs, mvImg_none]
      exact h3 _ (fun h => hC.img_ne hpair _ [] (by simpa using h))
        (by intro h; have := congrArg List.length h; simp at this)
  · intro k hk1 hk2
    exact h3 k (fun h => hk1 (h ▸ List.prefix_refl _)) (fun h => hk2 (h ▸ List.prefix_refl _))
  · intro f W
    rw [h6 f W, hkids]; rfl

theorem dropLast_snoc_paired {w : FsPath} (y : Str) (h : ∃ r, w = sr ++ r) : ∃ r0, (w ++ [y]).dropLast = sr ++ r0 := by
  obtain ⟨r, rfl⟩ := h
  exact ⟨r, by rw [List.dropLast_concat]⟩

/-- the children `ys` of an already moved entry `w`, in turn -/
theorem mv_kids (hC : MvCtx s0 sr d dst ci) {n : Nat} (IH : MvStmt s0 sr d dst ci n) {w k' : FsPath} {e : Entry}
    (hpair : Paired sr dst w k') (he0 : alLookup w s0.entries = some e) {fs : List Str} (hfs : e.files = some fs) :
    ∀ (ys : List Str) (σ : State), (∀ y ∈ ys, y ∈ fs) → ys.Nodup → (∀ y ∈ ys, Agree s0 σ (w ++ [y])) →
      alLookup w σ.entries = none → NodupSt σ →
      (∀ k, (alLookup k s0.entries).isSome → k.length ≤ w.length + 1 + n) →
      ∃ σ' c, (∀ y ∈ ys, ∀ k, (w ++ [y]) <+: k → lk σ' k = (none, none)) ∧
        (∀ y ∈ ys, ∀ r', lk σ' (k' ++ y :: r') =
          mvImg (lk s0 (w ++ y :: r')) (lk σ (k' ++ y :: r')) (k' ++ y :: r')) ∧
        (∀ k, (∀ y ∈ ys, ¬ (w ++ [y]) <+: k ∧ ¬ (k' ++ [y]) <+: k) → lk σ' k = lk σ k) ∧
        NodupSt σ' ∧ σ'.cwd = σ.cwd ∧ c ≤ (ys.map (fun y => sizeAt s0 (w ++ [y]))).sum ∧
        ∀ f W, moveLoop sr d ci (f + c) (ys.map (fun y => w ++ [y]) ++ W) σ = moveLoop sr d ci f W σ' := by
  intro ys
  induction ys with
  | nil =>
    intro σ _ _ _ _ hN _
    refine ⟨σ, 0, ?_, ?_, fun k _ => rfl, hN, rfl, by simp, fun f W => rfl⟩
    · intro y hy; cases hy
    · intro y hy; cases hy
  | cons y ys ih =>
    intro σ hsub hnd hag hwabs hN hb
    have hnd' := List.nodup_cons.1 hnd
    have hy : y ∈ fs := hsub y (by simp)
    have hyex := hC.inv.listed w e fs y he0 hfs hy
    cases hye : alLookup (w ++ [y]) s0.entries with
    | none => rw [hye] at hyex; cases hyex
    | some ey =>
      have hpair_y : Paired sr dst (w ++ [y]) (k' ++ [y]) := hpair.snoc [y]
      obtain ⟨σ1, c1, a1, a2, a3, a4, a5, a6, a7⟩ := IH σ (w ++ [y]) (k' ++ [y]) ey hpair_y
        (dropLast_snoc_paired y (by obtain ⟨r, h, _⟩ := hpair; exact ⟨r, h⟩)) (by simp) hye (hag y (by simp))
        (by rw [List.dropLast_concat]; exact hwabs) hN
        (fun k hk => by have := hb k hk; simp only [List.length_append, List.length_cons, List.length_nil]; omega)
      -- the state after the first child still satisfies the hypotheses for the others
      have hother : ∀ z, z ≠ y → ∀ k, (w ++ [z]) <+: k → lk σ1 k = lk σ k := by
        intro z hz k hk
        obtain ⟨t, rfl⟩ := hk
        apply a3
        · rw [List.append_assoc]; exact prefix_snoc_ne (Ne.symm hz) _
        · rw [List.append_assoc]; exact hC.img_not_prefix hpair _ _
      have hag1 : ∀ z ∈ ys, Agree s0 σ1 (w ++ [z]) := by
        intro z hz k hk
        rw [hother z (fun h => hnd'.1 (h ▸ hz)) k hk]
        exact hag z (by simp [hz]) k hk
      have hwabs1 : alLookup w σ1.entries = none := by
        have := a3 w (prefix_snoc_not_self w y) (by
          have := hC.img_not_prefix hpair [y] []
          simpa using this)
        unfold lk at this
        rw [(Prod.mk.inj this).1]; exact hwabs
      obtain ⟨σ2, c2, b1, b2, b3, b4, b5, b6, b7⟩ := ih σ1 (fun z hz => hsub z (by simp [hz])) hnd'.2 hag1 hwabs1 a4 hb
      refine ⟨σ2, c1 + c2, ?_, ?_, ?_, b4, by rw [b5, a5], ?_, ?_⟩
      · intro z hz k hk
        rcases List.mem_cons.1 hz with h | h
        · subst h
          rw [b3 k, a1 k hk]
          intro z' hz'
          obtain ⟨t, rfl⟩ := hk
          refine ⟨?_, ?_⟩
          · rw [List.append_assoc]; exact prefix_snoc_ne (fun (h : z' = z) => hnd'.1 (h ▸ hz')) _
          · rw [List.append_assoc]; exact hC.img_not_prefix hpair _ _
        · exact b1 z h k hk
      · intro z hz r'
        rcases List.mem_cons.1 hz with h | h
        · subst h
          rw [b3 (k' ++ z :: r')]
          · have := a2 r'
            simpa [List.append_assoc] using this
          · intro z' hz'
            refine ⟨?_, ?_⟩
            · exact hC.src_not_prefix hpair _ _
            · exact prefix_snoc_ne (fun (h : z' = z) => hnd'.1 (h ▸ hz')) _
        · rw [b2 z h r']
          congr 1
          apply a3
          · exact hC.src_not_prefix hpair _ _
          · exact prefix_snoc_ne (fun (h' : y = z) => hnd'.1 (h' ▸ h)) _
      · intro k hk
        rw [b3 k (fun z hz => hk z (by simp [hz]))]
        exact a3 k (hk y (by simp)).1 (hk y (by simp)).2
      · simp only [List.map_cons, List.sum_cons]; omega
      · intro f W
        rw [List.map_cons, List.cons_append, show f + (c1 + c2) = (f + c2) + c1 by omega, a7, b7]

theorem snoc_lt_prefix_absurd {a : FsPath} {y : Str} {b : FsPath} (h : (a ++ [y]) <+: b) (hb : b = a) : False := by
  subst hb; exact prefix_snoc_not_self _ _ h

/-- an entry with children -/
theorem mv_internal (hC : MvCtx s0 sr d dst ci) {n : Nat} (IH : MvStmt s0 sr d dst ci n) {σ : State} {w k' : FsPath}
    {e : Entry} (hpair : Paired sr dst w k') (hdl : ∃ r0, w.dropLast = sr ++ r0) (hw : w ≠ [])
    (he0 : alLookup w s0.entries = some e) (hag : Agree s0 σ w) (hpar : alLookup w.dropLast σ.entries = none)
    (hN : NodupSt σ) {x : Str} {xs : List Str} (hf : e.files = some (x :: xs))
    (hb : ∀ k, (alLookup k s0.entries).isSome → k.length ≤ w.length + (n + 1)) :
    ∃ σ' c, (∀ k, w <+: k → lk σ' k = (none, none)) ∧
      (∀ r', lk σ' (k' ++ r') = mvImg (lk s0 (w ++ r')) (lk σ (k' ++ r')) (k' ++ r')) ∧
      (∀ k, ¬ w <+: k → ¬ k' <+: k → lk σ' k = lk σ k) ∧
      NodupSt σ' ∧ σ'.cwd = σ.cwd ∧ c ≤ sizeAt s0 w ∧
      ∀ f W, moveLoop sr d ci (f + c) (w :: W) σ = moveLoop sr d ci f W σ' := by
  obtain ⟨h1, h2, h3, h4, h5, h6⟩ := mv_step hC hpair hdl hw he0 hag hpar hN
  have hnd := hC.inv.childNodup w e _ he0 hf
  have hkids : (cloneKids w e).reverse = (x :: xs).reverse.map (fun y => w ++ [y]) := by
    unfold cloneKids; rw [hf]; simp only [List.map_reverse]
  have hS3 : ∀ t, t ≠ [] → lk (mvOne σ w k' e) (w ++ t) = lk σ (w ++ t) ∧
      lk (mvOne σ w k' e) (k' ++ t) = lk σ (k' ++ t) := by
    intro t ht
    have hl : ∀ a : FsPath, (a ++ t).length ≠ a.length := by
      intro a; cases t with
      | nil => exact absurd rfl ht
      | cons _ _ => simp
    refine ⟨h3 _ (fun h => hl w (congrArg List.length h)) (fun h => hC.img_ne hpair [] t (by simpa using h.symm)),
      h3 _ (fun h => hC.img_ne hpair t [] (by simpa using h)) (fun h => hl k' (congrArg List.length h))⟩
  obtain ⟨σ2, c2, k1, k2, k3, k4, k5, k6, k7⟩ := mv_kids hC IH hpair he0 hf (x :: xs).reverse (mvOne σ w k' e)
    (fun y hy => List.mem_reverse.1 hy) ((List.reverse_perm _).symm.nodup hnd)
    (fun y _ k hk => by
      obtain ⟨t, rfl⟩ := hk
      rw [List.append_assoc, (hS3 _ (by simp)).1]
      exact hag _ ⟨[y] ++ t, rfl⟩)
    (by unfold lk at h1; exact (Prod.mk.inj h1).1) h4 (fun k hk => by have := hb k hk; omega)
  have hsum : c2 + 1 ≤ sizeAt s0 w := by
    have := kids_sum_le hC.inv he0
    unfold cloneKids at this
    rw [hf] at this
    simp only [List.map_map] at this
    rw [List.map_reverse, List.sum_reverse_nat] at k6
    exact Nat.le_trans (Nat.add_le_add_right k6 1) this
  -- keys that are neither below a child nor below a child's image
  have hK3 : ∀ k, (∀ y, ¬ (w ++ [y]) <+: k) → (∀ y, ¬ (k' ++ [y]) <+: k) → lk σ2 k = lk (mvOne σ w k' e) k :=
    fun k g1 g2 => k3 k (fun y _ => ⟨g1 y, g2 y⟩)
  refine ⟨σ2, 1 + c2, ?_, ?_, ?_, k4, by rw [k5, h5], by omega, ?_⟩
  · intro k ⟨t, ht⟩
    cases t with
    | nil =>
      simp at ht; subst ht
      rw [hK3 w (fun y => prefix_snoc_not_self w y) (fun y h => hC.img_not_prefix hpair [y] [] (by simpa using h))]
      exact h1
    | cons z t =>
      subst ht
      by_cases hz : z ∈ x :: xs
      · exact k1 z (List.mem_reverse.2 hz) _ ⟨t, by simp⟩
      · have habs : alLookup (w ++ z :: t) s0.entries = none := by
          cases hh : alLookup (w ++ z :: t) s0.entries with
          | none => rfl
          | some e' =>
            obtain ⟨pe, fs, g1, _, _, g4, g5⟩ := anc hC.inv t.length t w z rfl (by rw [hh]; rfl)
            rw [he0] at g1; cases g1; rw [hf] at g4; cases g4
            exact absurd g5 hz
        rw [k3, (hS3 (z :: t) (by simp)).1, hag _ ⟨z :: t, rfl⟩, lk_absent hC.inv habs]
        intro y hy
        refine ⟨fun h => ?_, fun h => hC.img_not_prefix hpair _ _ h⟩
        have : y = z := snoc_prefix_inj h ⟨t, by simp⟩
        exact hz (this ▸ List.mem_reverse.1 hy)
  · intro r'
    cases r' with
    | nil =>
      rw [List.append_nil, List.append_nil,
        hK3 k' (fun y h => hC.src_not_prefix hpair [y] [] (by simpa using h)) (fun y => prefix_snoc_not_self k' y)]
      exact h2
    | cons z t =>
      by_cases hz : z ∈ x :: xs
      · rw [k2 z (List.mem_reverse.2 hz) t, (hS3 (z :: t) (by simp)).2]
      · have habs : alLookup (w ++ z :: t) s0.entries = none := by
          cases hh : alLookup (w ++ z :: t) s0.entries with
          | none => rfl
          | some e' =>
            obtain ⟨pe, fs, g1, _, _, g4, g5⟩ := anc hC.inv t.length t w z rfl (by rw [hh]; rfl)
            rw [he0] at g1; cases g1; rw [hf] at g4; cases g4
            exact absurd g5 hz
        rw [lk_absent hC.inv habs, mvImg_none, k3, (hS3 (z :: t) (by simp)).2]
        intro y hy
        refine ⟨fun h => hC.src_not_prefix hpair _ _ h, fun h => ?_⟩
        have : y = z := snoc_prefix_inj h ⟨t, by simp⟩
        exact hz (this ▸ List.mem_reverse.1 hy)
  · intro k g1 g2
    rw [hK3 k (fun y h => g1 ((List.prefix_append w [y]).trans h)) (fun y h => g2 ((List.prefix_append k' [y]).trans h))]
    exact h3 k (fun h => g1 (h ▸ List.prefix_refl _)) (fun h => g2 (h ▸ List.prefix_refl _))
  · intro f W
    rw [show f + (1 + c2) = (f + c2) + 1 by omega, h6, hkids, k7]

theorem mvStmt_all (hC : MvCtx s0 sr d dst ci) : ∀ n, MvStmt s0 sr d dst ci n := by
  intro n
  induction n with
  | zero =>
    intro σ w k' e hpair hdl hw he0 hag hpar hN hb
    cases hf : e.files with
    | none => exact mv_leaf hC hpair hdl hw he0 hag hpar hN (Or.inl hf)
    | some fs =>
      cases fs with
      | nil => exact mv_leaf hC hpair hdl hw he0 hag hpar hN (Or.inr hf)
      | cons x xs =>
        have := hb _ (hC.inv.listed w e _ x he0 hf (by simp))
        simp at this; omega
  | succ n ih =>
    intro σ w k' e hpair hdl hw he0 hag hpar hN hb
    cases hf : e.files with
    | none => exact mv_leaf hC hpair hdl hw he0 hag hpar hN (Or.inl hf)
    | some fs =>
      cases fs with
      | nil => exact mv_leaf hC hpair hdl hw he0 hag hpar hN (Or.inr hf)
      | cons x xs => exact mv_internal hC ih hpair hdl hw he0 hag hpar hN hf hb

end Rivia.Lemmas.RefineB
