/-
  Rivia.Lemmas.NoopPath — the string side of C01 (second sentence) for `move_p`: on keys whose names
  are regular, `dst_root.mash(path.trim_prefix(prefix))` is list concatenation, and every path
  produced by `abs` has regular names.  Concludes `noop_moveM`.
-/
import Rivia.Lemmas.Noop
import Rivia.Lemmas.User

namespace Rivia.Lemmas.Noop
open Rivia Rivia.Str Rivia.Memfs Rivia.Spec Rivia.Memfs.M

/-! ### the string computation of destinations -/

theorem splitSlash_ne_nil' (s : Str) : splitSlash s ≠ [] := splitOn_ne_nil '/' s

theorem renderP_eq (ps : FsPath) : renderP ps = bufOf true ps := by
  simp [renderP, bufOf]

theorem toPath_bufOf {ps : List Str} (h : ∀ p ∈ ps, BodyPiece p) : toPath (bufOf true ps) = ps := by
  cases ps with
  | nil => decide
  | cons a as =>
    unfold toPath
    rw [splitSlash_bufOf (by simp) h]
    simp only [if_true, List.cons_append, List.nil_append]
    rw [List.filter_cons_of_neg (by simp)]
    exact List.filter_eq_self.2 (fun p hp => by simpa using (h p hp).1)

theorem bodyComp_str' {p : Str} {c : Comp} (h : bodyComp p = some c) : c.str = p := by
  unfold bodyComp at h
  split at h
  · cases h
  · split at h
    · next h2 => cases h; exact h2.symm
    · cases h; rfl

theorem map_str_filterMap_bodyComp {ps : List Str} (h : ∀ p ∈ ps, BodyPiece p) :
    (ps.filterMap bodyComp).map Comp.str = ps := by
  induction ps with
  | nil => rfl
  | cons a as ih =>
    have ha := h a (by simp)
    cases hc : bodyComp a with
    | none =>
      rcases bodyComp_eq_none hc with h1 | h1
      · exact absurd h1 ha.1
      · exact absurd h1 ha.2.1
    | some c =>
      rw [List.filterMap_cons_some hc, List.map_cons, bodyComp_str' hc,
        ih (fun p hp => h p (by simp [hp]))]

theorem render_components_bufOf {ps : List Str} (h : ∀ p ∈ ps, BodyPiece p) :
    render (components (bufOf true ps)) = bufOf true ps := by
  rw [components_bufOf h]
  simp only [if_true, List.cons_append, List.nil_append]
  rw [render_root_body (bodyCU_filterMap (fun p hp => (h p hp).2.2)), map_str_filterMap_bodyComp h]

theorem components_append_slash {buf : Str} (hb : buf ≠ []) :
    components (buf ++ ['/']) = components buf := by
  rw [components_eq_compsOf, components_eq_compsOf, isRooted_append hb]
  have : splitSlash (buf ++ ['/']) = splitSlash buf ++ [[]] := by
    unfold splitSlash
    rw [splitOn_append_sep']; rfl
  rw [this, compsOf_snoc_nil _ (splitSlash_ne_nil' buf)]

theorem mash_bufOf {d t : List Str} (hd : ∀ p ∈ d, BodyPiece p) (ht : ∀ p ∈ t, BodyPiece p) {X : Str}
    (hX : stripSlashes X = bufOf false t) : mash (bufOf true d) X = bufOf true (d ++ t) := by
  unfold mash; rw [hX]
  by_cases htn : t = []
  · subst htn
    have h0 : bufOf false [] = [] := by decide
    rw [h0, List.append_nil]
    rcases eq_nil_or_snoc d with rfl | ⟨mid, x, rfl⟩
    · decide
    · have hx := hd x (by simp)
      have : push (bufOf true (mid ++ [x])) [] = bufOf true (mid ++ [x]) ++ ['/'] := by
        simp [push, isRooted_nil, bufOf_snoc_ne_nil hx.1, endsWithSlash_bufOf_snoc hx]
      rw [this, components_append_slash (bufOf_snoc_ne_nil hx.1), render_components_bufOf hd]
  · rw [push_abs_rel hd ht htn, render_components_bufOf]
    intro p hp
    rcases List.mem_append.1 hp with h | h
    · exact hd p h
    · exact ht p h

theorem stripSlashes_join {t : List Str} (ht : ∀ p ∈ t, BodyPiece p) :
    stripSlashes (joinWith '/' t) = joinWith '/' t := by
  cases t with
  | nil => rfl
  | cons x r =>
    obtain ⟨X, hX⟩ := joinWith_cons_eq_append '/' x r
    have hx := ht x (by simp)
    rw [hX]
    cases x with
    | nil => exact absurd rfl hx.1
    | cons c cs =>
      have hc : c ≠ '/' := fun e => hx.2.2 (by simp [e])
      simp only [List.cons_append]
      unfold stripSlashes
      split
      · next heq => simp only [List.cons.injEq] at heq; exact absurd heq.1 hc
      · rfl

theorem isPrefixOf_append {α} [BEq α] [LawfulBEq α] (a b : List α) : a.isPrefixOf (a ++ b) = true :=
  List.isPrefixOf_iff_prefix.2 (List.prefix_append a b)

theorem trim_render {pre t : List Str} (ht : ∀ p ∈ t, BodyPiece p) :
    stripSlashes (trimPrefix (renderP (pre ++ t)) (renderP pre)) = bufOf false t := by
  have hb : bufOf false t = joinWith '/' t := by simp [bufOf]
  rw [hb]
  by_cases htn : t = []
  · subst htn
    rw [List.append_nil]
    unfold trimPrefix
    have := isPrefixOf_append (renderP pre) []
    rw [List.append_nil] at this
    rw [this]; simp [stripSlashes, joinWith]
  by_cases hpn : pre = []
  · subst hpn
    have : trimPrefix (renderP ([] ++ t)) (renderP []) = joinWith '/' t := by
      simp [trimPrefix, renderP, joinWith]
    rw [this, stripSlashes_join ht]
  · have : renderP (pre ++ t) = renderP pre ++ '/' :: joinWith '/' t := by
      unfold renderP; rw [joinWith_append '/' hpn htn]; simp
    rw [this]
    unfold trimPrefix
    rw [isPrefixOf_append, if_pos rfl, List.drop_left]
    show stripSlashes (joinWith '/' t) = _
    exact stripSlashes_join ht

/-- `dst_root.mash(path.trim_prefix(prefix))` on well-formed keys is list concatenation -/
theorem dstOf_eq {d pre t : List Str} (hd : ∀ p ∈ d, BodyPiece p) (ht : ∀ p ∈ t, BodyPiece p) :
    dstOf d (pre ++ t) pre = d ++ t := by
  unfold dstOf
  rw [renderP_eq d, mash_bufOf hd ht (trim_render ht), toPath_bufOf]
  intro p hp
  rcases List.mem_append.1 hp with h | h
  · exact hd p h
  · exact ht p h

/-! ### the names of a path produced by `abs` -/

theorem isRooted_push {d : Str} (hd : isRooted d = true) (x : Str) : isRooted (push d x) = true := by
  have hne : d ≠ [] := by intro h; rw [h] at hd; cases hd
  unfold push
  split
  · assumption
  · split
    · rw [isRooted_append hne]; exact hd
    · rw [isRooted_append hne]; exact hd

theorem toPath_mash_names {d b : Str} (hd : isRooted d = true) : ∀ n ∈ toPath (mash d b), BodyPiece n := by
  unfold mash
  have hr := isRooted_push hd (stripSlashes b)
  have hc : components (push d (stripSlashes b)) =
      .root :: (splitSlash (push d (stripSlashes b))).filterMap bodyComp := by
    unfold components; rw [hr]; rfl
  have hbody : ∀ c ∈ (splitSlash (push d (stripSlashes b))).filterMap bodyComp, BodyCU c :=
    bodyCU_filterMap (not_mem_of_mem_splitOn '/' (push d (stripSlashes b)))
  rw [hc, render_root_body hbody, toPath_bufOf (bodyPiece_map_str hbody)]
  exact bodyPiece_map_str hbody

theorem absLoop_names {a : Str} : ∀ (n : Nat) (q : List Str) (p : Str), (∀ x ∈ q, BodyPiece x) →
    absLoop n (bufOf true q) p = .ok a → ∀ x ∈ toPath a, BodyPiece x := by
  intro n
  induction n with
  | zero =>
    intro q p hq he
    simp only [absLoop] at he
    cases he
    rw [toPath_bufOf hq]; exact hq
  | succ n ih =>
    intro q p hq he
    rw [absLoop] at he
    split at he
    · cases he; rw [toPath_bufOf hq]; exact hq
    · exact ih q _ hq he
    · split at he
      · cases he
      · next hne =>
        rcases eq_nil_or_snoc q with rfl | ⟨mid, top, rfl⟩
        · exact absurd (by decide) hne
        · have hpop := pop_bufOf (rooted := true) hq
          unfold pop at hpop
          unfold dir at he
          cases hps : parentStr (bufOf true (mid ++ [top])) with
          | none => rw [hps] at he; cases he
          | some p' =>
            rw [hps] at he hpop
            simp only at he hpop
            rw [hpop] at he
            exact ih mid _ (fun x hx => hq x (by simp [hx])) he
    · cases he
      exact toPath_mash_names (isRooted_abs q)

theorem absWith_names {env : Env} {cwd : List Str} {s a : Str} (hcwd : ∀ x ∈ cwd, BodyPiece x)
    (he : absWith env (renderP cwd) s = .ok a) : ∀ x ∈ toPath a, BodyPiece x := by
  unfold absWith at he
  split at he
  · cases he
  · split at he
    · next p hp =>
      rw [cleanO_eq_goClean] at he
      simp only at he
      split at he
      · next hab =>
        cases he
        have hr : isRooted (trimProtocol p) = true := by
          rw [← goClean_rooted]; exact hab
        rw [goClean_eq, hr]
        have hne : bufOf true (goStack (trimProtocol p)).reverse ≠ [] := by simp [bufOf]
        rw [if_neg hne, toPath_bufOf (goStack_rev_bodyPiece _)]
        exact goStack_rev_bodyPiece _
      · rw [renderP_eq] at he
        exact absLoop_names _ cwd _ hcwd he
    · cases he
    · cases he
    · cases he

/-! ### `move_p` under the invariant and well-formed names -/

instance (n : Str) : Decidable (Wf n) := by unfold Wf; infer_instance

/-- every name of every key and of the working directory is non-empty, slash-free and neither
    `.` nor `..` -/
def KeysWf (s : State) : Prop := (∀ kv ∈ s.entries, ∀ n ∈ kv.1, Wf n) ∧ ∀ n ∈ s.cwd, Wf n

instance (s : State) : Decidable (KeysWf s) := by unfold KeysWf; infer_instance

theorem noop_moveM {st : State} (h : InvP st) (hfl : FlagsWf st) (hk : KeysWf st) (env : Env)
    (src dst : Str) : NoopM (moveM env src dst) st := by
  apply noop_moveM_core h hfl
  intro a ha S _ hSne D hD _ _ r hr
  have hdn : ∀ x ∈ toPath a, BodyPiece x := absWith_names (fun x hx => (hk.2 x hx).bodyPiece) ha
  have hSr : ∀ n ∈ S ++ r, BodyPiece n := by
    intro n hn
    cases hl : alLookup (S ++ r) st.entries with
    | none => rw [hl] at hr; cases hr
    | some e => exact (hk.1 (S ++ r, e) (mem_of_alLookup hl) n hn).bodyPiece
  cases hci : isDirP st (toPath a) with
  | false =>
    rw [hci] at hD
    simp only [Bool.false_eq_true, if_false] at hD
    subst hD
    simp only [preOf, Bool.false_eq_true, if_false]
    exact dstOf_eq hdn (fun p hp => hSr p (by simp [hp]))
  | true =>
    rw [hci] at hD
    simp only [if_true] at hD
    obtain ⟨m, x, rfl⟩ : ∃ m x, S = m ++ [x] := (eq_nil_or_snoc S).resolve_left hSne
    have hx : BodyPiece x := hSr x (by simp)
    have hX : stripSlashes x = bufOf false [x] := by
      rw [stripSlashes_of_not_mem hx.2.2]; simp [bufOf, joinWith]
    have hx1 : ∀ p ∈ [x], BodyPiece p := by simpa using hx
    have hall : ∀ p ∈ toPath a ++ [x], BodyPiece p := by
      intro p hp
      rcases List.mem_append.1 hp with h1 | h1
      · exact hdn p h1
      · exact hx1 p h1
    have hDeq : D = toPath a ++ [x] := by
      rw [hD, baseName_snoc, renderP_eq, mash_bufOf hdn hx1 hX, toPath_bufOf hall]
    simp only [preOf, if_true, List.dropLast_concat]
    rw [List.append_assoc m [x] r, dstOf_eq hdn (fun p hp => hSr p (by
      rw [List.append_assoc]; exact List.mem_append_right _ hp)), hDeq, List.append_assoc]

end Rivia.Lemmas.Noop
