/-
  Rivia.Lemmas.AbsMemfs — every Memfs operation reads its path arguments through `absM`;
  consequently a call with any spelling `raw` of a path behaves like the call with `abs raw`.
-/
import Rivia.Model.MemfsOps
import Rivia.Lemmas.Abs

namespace Rivia.Lemmas
open Rivia Rivia.Str Rivia.Spec Rivia.Memfs Rivia.Memfs.M

theorem isRooted_renderP (p : FsPath) : isRooted (renderP p) = true := rfl

/-- the hypotheses of spelling independence at a state: `a` is what `abs raw` returns there, it
    contains no `~` / `$`, and the current directory renders to a clean path -/
structure Spelling (env : Env) (st : State) (raw a : Str) : Prop where
  abs : absWith env (renderP st.cwd) raw = .ok a
  noSpecial : NoSpecial a
  cwdClean : NormalForm (renderP st.cwd)

theorem renderP_eq_bufOf (p : FsPath) : renderP p = bufOf true p := rfl

/-- a current directory made of well-formed names renders to a clean absolute path -/
theorem renderP_normalForm {p : FsPath} (h : ∀ n ∈ p, Wf n) : NormalForm (renderP p) := by
  rw [renderP_eq_bufOf]; exact normalForm_abs h

theorem absM_spelling {env : Env} {st : State} {raw a : Str} (h : Spelling env st raw a) :
    absM env raw st = absM env a st := by
  unfold absM
  rw [h.abs, absWith_idem (isRooted_renderP _) h.cwdClean h.abs h.noSpecial]

theorem bind_congr_at {α β} {m1 m2 : M α} (f : α → M β) {st : State} (h : m1 st = m2 st) :
    (m1 >>= f) st = (m2 >>= f) st := by
  show M.bind m1 f st = M.bind m2 f st
  unfold M.bind
  rw [h]

theorem mapVal_congr_at {α} (g : α → Val) {m1 m2 : M α} {st : State} (h : m1 st = m2 st) :
    mapVal g m1 st = mapVal g m2 st := by
  unfold mapVal
  rw [h]

theorem ite_congr_at {β} (c : Prop) [Decidable c] (m : M β) {m1 m2 : M β} {st : State}
    (h : m1 st = m2 st) : (if c then m else m1) st = (if c then m else m2) st := by
  split
  · rfl
  · exact h

theorem get_bind_at {β} (f : State → M β) (st : State) : (M.get >>= f) st = f st st := rfl

section
variable {env : Env} {st : State} {raw a : Str} (h : Spelling env st raw a)
include h

theorem step_mkfile : step env st (.mkfile raw) = step env st (.mkfile a) :=
  mapVal_congr_at _ (bind_congr_at _ (absM_spelling h))

theorem step_mkdirP : step env st (.mkdirP raw) = step env st (.mkdirP a) :=
  mapVal_congr_at _ (bind_congr_at _ (absM_spelling h))

theorem step_mkdirM (mode : Nat) : step env st (.mkdirM raw mode) = step env st (.mkdirM a mode) :=
  mapVal_congr_at _ (bind_congr_at _ (absM_spelling h))

theorem step_remove : step env st (.remove raw) = step env st (.remove a) :=
  mapVal_congr_at _ (bind_congr_at _ (absM_spelling h))

theorem step_removeAll : step env st (.removeAll raw) = step env st (.removeAll a) :=
  mapVal_congr_at _ (bind_congr_at _ (absM_spelling h))

theorem step_setCwd : step env st (.setCwd raw) = step env st (.setCwd a) :=
  mapVal_congr_at _ (bind_congr_at _ (absM_spelling h))

theorem step_writeAll (d : File.Bytes) : step env st (.writeAll raw d) = step env st (.writeAll a d) :=
  mapVal_congr_at _ (bind_congr_at _ (absM_spelling h))

theorem step_appendAll (d : File.Bytes) : step env st (.appendAll raw d) = step env st (.appendAll a d) :=
  mapVal_congr_at _ (bind_congr_at _ (absM_spelling h))

theorem step_read : step env st (.read raw) = step env st (.read a) :=
  mapVal_congr_at _ (bind_congr_at _ (absM_spelling h))

theorem step_readAll : step env st (.readAll raw) = step env st (.readAll a) :=
  mapVal_congr_at _ (bind_congr_at _ (bind_congr_at _ (absM_spelling h)))

theorem step_abs : step env st (.abs raw) = step env st (.abs a) :=
  mapVal_congr_at _ (absM_spelling h)

theorem step_mkfileM (mode : Nat) :
    step env st (.mkfileM raw mode) = step env st (.mkfileM a mode) :=
  mapVal_congr_at _ (bind_congr_at _ (bind_congr_at _ (absM_spelling h)))

theorem step_readLines : step env st (.readLines raw) = step env st (.readLines a) :=
  mapVal_congr_at _ (bind_congr_at _ (bind_congr_at _ (absM_spelling h)))

theorem step_writeLines (ls : List Str) :
    step env st (.writeLines raw ls) = step env st (.writeLines a ls) := by
  apply mapVal_congr_at
  unfold writeLinesM
  cases joinLines ls with
  | none => rfl
  | some b => exact bind_congr_at _ (absM_spelling h)

theorem step_appendLines (ls : List Str) :
    step env st (.appendLines raw ls) = step env st (.appendLines a ls) := by
  apply mapVal_congr_at
  unfold appendLinesM
  cases joinLines ls with
  | none => rfl
  | some b => exact bind_congr_at _ (absM_spelling h)

theorem step_appendLine (l : Str) :
    step env st (.appendLine raw l) = step env st (.appendLine a l) := by
  apply mapVal_congr_at
  unfold appendLineM
  split
  · rfl
  · exact bind_congr_at _ (absM_spelling h)

theorem step_symlink_link (t : Str) : step env st (.symlink raw t) = step env st (.symlink a t) :=
  mapVal_congr_at _ (bind_congr_at _ (absM_spelling h))

theorem step_readlink : step env st (.readlink raw) = step env st (.readlink a) :=
  mapVal_congr_at _ (bind_congr_at _ (absM_spelling h))

theorem step_readlinkAbs : step env st (.readlinkAbs raw) = step env st (.readlinkAbs a) :=
  mapVal_congr_at _ (bind_congr_at _ (absM_spelling h))

theorem boolQuery_spelling (f : Entry → Bool) : boolQuery env raw f st = boolQuery env a f st := by
  unfold boolQuery
  rw [absM_spelling h]

theorem step_exists : step env st (.exists raw) = step env st (.exists a) := boolQuery_spelling h _
theorem step_isFile : step env st (.isFile raw) = step env st (.isFile a) := boolQuery_spelling h _
theorem step_isDir : step env st (.isDir raw) = step env st (.isDir a) := boolQuery_spelling h _
theorem step_isSymlink : step env st (.isSymlink raw) = step env st (.isSymlink a) :=
  boolQuery_spelling h _
theorem step_isSymlinkDir : step env st (.isSymlinkDir raw) = step env st (.isSymlinkDir a) :=
  boolQuery_spelling h _
theorem step_isSymlinkFile : step env st (.isSymlinkFile raw) = step env st (.isSymlinkFile a) :=
  boolQuery_spelling h _
theorem step_isExec : step env st (.isExec raw) = step env st (.isExec a) := boolQuery_spelling h _
theorem step_isReadonly : step env st (.isReadonly raw) = step env st (.isReadonly a) :=
  boolQuery_spelling h _

theorem entryQuery_spelling {α} (f : Entry → α) : entryQuery env raw f st = entryQuery env a f st :=
  bind_congr_at _ (absM_spelling h)

theorem step_mode : step env st (.mode raw) = step env st (.mode a) :=
  mapVal_congr_at _ (entryQuery_spelling h _)
theorem step_uid : step env st (.uid raw) = step env st (.uid a) :=
  mapVal_congr_at _ (entryQuery_spelling h _)
theorem step_gid : step env st (.gid raw) = step env st (.gid a) :=
  mapVal_congr_at _ (entryQuery_spelling h _)
theorem step_owner : step env st (.owner raw) = step env st (.owner a) :=
  mapVal_congr_at _ (entryQuery_spelling h _)
theorem step_entry : step env st (.entry raw) = step env st (.entry a) :=
  mapVal_congr_at _ (entryQuery_spelling h _)

theorem listing_spelling (md : Option Nat) (d f : Bool) :
    listing env raw md d f st = listing env a md d f st := by
  unfold listing
  rw [get_bind_at, get_bind_at]
  simp only
  rw [absM_spelling h]
  exact ite_congr_at _ _ (bind_congr_at _ (absM_spelling h))

theorem step_paths : step env st (.paths raw) = step env st (.paths a) :=
  mapVal_congr_at _ (listing_spelling h _ _ _)
theorem step_dirs : step env st (.dirs raw) = step env st (.dirs a) :=
  mapVal_congr_at _ (listing_spelling h _ _ _)
theorem step_files : step env st (.files raw) = step env st (.files a) :=
  mapVal_congr_at _ (listing_spelling h _ _ _)
theorem step_allPaths : step env st (.allPaths raw) = step env st (.allPaths a) :=
  mapVal_congr_at _ (listing_spelling h _ _ _)
theorem step_allDirs : step env st (.allDirs raw) = step env st (.allDirs a) :=
  mapVal_congr_at _ (listing_spelling h _ _ _)
theorem step_allFiles : step env st (.allFiles raw) = step env st (.allFiles a) :=
  mapVal_congr_at _ (listing_spelling h _ _ _)

theorem step_chmod (mode : Nat) : step env st (.chmod raw mode) = step env st (.chmod a mode) :=
  mapVal_congr_at _ (bind_congr_at _ (absM_spelling h))
theorem step_chmodB (c : ChmodOpts) : step env st (.chmodB raw c) = step env st (.chmodB a c) :=
  mapVal_congr_at _ (bind_congr_at _ (absM_spelling h))
theorem step_chown (u g : Nat) : step env st (.chown raw u g) = step env st (.chown a u g) :=
  mapVal_congr_at _ (bind_congr_at _ (absM_spelling h))
theorem step_chownB (c : ChownOpts) : step env st (.chownB raw c) = step env st (.chownB a c) :=
  mapVal_congr_at _ (bind_congr_at _ (absM_spelling h))

theorem step_entries (r : TravReq) : step env st (.entries raw r) = step env st (.entries a r) :=
  bind_congr_at _ (absM_spelling h)

theorem step_hWrite (id : Nat) : step env st (.hWrite id raw) = step env st (.hWrite id a) :=
  mapVal_congr_at _ (bind_congr_at _ (absM_spelling h))
theorem step_hAppend (id : Nat) : step env st (.hAppend id raw) = step env st (.hAppend id a) :=
  mapVal_congr_at _ (bind_congr_at _ (absM_spelling h))

end

/-! ### operations with two path arguments -/

theorem absM_state (env : Env) (p : Str) (st : State) : (absM env p st).2 = st := by
  unfold absM
  cases absWith env (renderP st.cwd) p <;> rfl

theorem bind2_congr_at {β} {env : Env} {st : State} {r1 a1 r2 a2 : Str}
    (h1 : Spelling env st r1 a1) (h2 : Spelling env st r2 a2) (f : FsPath → FsPath → M β) :
    (absM env r1 >>= fun x => absM env r2 >>= f x) st =
      (absM env a1 >>= fun x => absM env a2 >>= f x) st := by
  rw [bind_congr_at _ (absM_spelling h1)]
  show M.bind (absM env a1) _ st = M.bind (absM env a1) _ st
  unfold M.bind
  have hst := absM_state env a1 st
  cases hm : absM env a1 st with
  | mk o st' =>
    rw [hm] at hst
    simp only at hst
    subst hst
    cases o with
    | ok x => exact bind_congr_at _ (absM_spelling h2)
    | err k => rfl
    | panic => rfl
    | hang => rfl

section
variable {env : Env} {st : State} {r1 a1 r2 a2 : Str}
  (h1 : Spelling env st r1 a1) (h2 : Spelling env st r2 a2)
include h1 h2

theorem step_copy : step env st (.copy r1 r2) = step env st (.copy a1 a2) :=
  mapVal_congr_at _ (bind2_congr_at h1 h2 _)

theorem step_copyB (c : CopyOpts) : step env st (.copyB r1 r2 c) = step env st (.copyB a1 a2 c) :=
  mapVal_congr_at _ (bind2_congr_at h1 h2 _)

theorem step_moveP : step env st (.moveP r1 r2) = step env st (.moveP a1 a2) :=
  mapVal_congr_at _ (bind2_congr_at h1 h2 _)

end

end Rivia.Lemmas
