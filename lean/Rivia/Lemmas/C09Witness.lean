/-
  Rivia.Lemmas.C09Witness — concrete states used by C09: the counterexample state for the
  statements without `KindWf`, and a small well-formed state on which every hypothesis of the tree
  theorem (the traversal hypothesis included) is proved.
-/
import Rivia.Lemmas.CopyTree

set_option linter.unusedSimpArgs false

namespace Rivia.Lemmas
open Rivia Rivia.Str Rivia.Memfs Rivia.Spec Rivia.Spec.TreeFs Rivia.Memfs.M

/-- an (unreachable) state satisfying `Inv` and `KeysWf` in which `/x` is flagged both directory
    and file, with a regular file `/x/x` below it -/
def weirdState : State :=
  { entries := [([], { mkDirEntry [] none with files := some [['x']] }),
                ([['x']], { mkDirEntry [['x']] none with file := true, files := some [['x']] }),
                ([['x'], ['x']], mkFileEntry [['x'], ['x']])],
    files := [([['x']], []), ([['x'], ['x']], [7])], cwd := [], root := [], handles := [] }


/-- a small well-formed state: `/a` (dir) with the file `/a/f`, and the empty dir `/d` -/
def smallState : State :=
  { entries := [([], { mkDirEntry [] none with files := some [['a'], ['d']] }),
                ([['a']], { mkDirEntry [['a']] none with files := some [['f']] }),
                ([['a'], ['f']], mkFileEntry [['a'], ['f']]),
                ([['d']], mkDirEntry [['d']] none)],
    files := [([['a'], ['f']], [1, 2, 3])], cwd := [], root := [], handles := [] }


def eA : Entry := { mkDirEntry [['a']] none with files := some [['f']] }
def eF : Entry := mkFileEntry [['a'], ['f']]
def snapA : Snap := [([['a']], eA), ([['a'], ['f']], eF)]

theorem entriesOf_small : entriesOf smallState [['a']] = .ok (eA, snapA) := by decide

def itA : EIter := ⟨[['a']], false, [eF]⟩
def stA : ISt := { started := true, openDesc := 1, iters := [itA], deferred := [] }
def stB : ISt := { started := true, openDesc := 1, iters := [{ itA with items := [] }], deferred := [] }

theorem procA (w : State) :
    process snapA (copyOpts false) (noPre (σ := State)) { started := true } eA w = (some (.ok eA), stA, w) := by
  rfl

theorem procF (w : State) :
    process snapA (copyOpts false) (noPre (σ := State)) stB eF w = (some (.ok eF), stB, w) := by
  rfl

theorem htrav_small (step : Entry → State → Outcome Unit × State) (w : State) :
    runIter snapA (copyOpts false) noPre eA step (travFuel snapA) {} w = runList step [eA, eF] w := by
  have hf : travFuel snapA = 1020 + 4 := by decide
  rw [hf, runIter]
  simp only [nextE, doFollow_false, copyOpts_follow, Bool.not_false, if_true, procA]
  simp only [runList]
  cases h1 : step eA w with
  | mk r1 w1 =>
    cases r1 with
    | ok u =>
      cases u
      simp only
      rw [runIter]
      simp only [nextE, stA, Bool.not_true, Bool.false_eq_true, if_false]
      rw [nextLoop]
      simp only [itA, copyOpts_cf, Bool.false_eq_true, false_and, if_false, doFollow_false, copyOpts_follow]
      have := procF w1
      simp only [stB, itA] at this
      simp only [this, Bool.false_eq_true, false_and, if_false]
      cases h2 : step eF w1 with
      | mk r2 w2 =>
        cases r2 with
        | ok u =>
          cases u
          simp only
          rw [runIter]
          simp only [nextE, Bool.not_true, Bool.false_eq_true, if_false]
          rw [nextLoop]
          simp only [copyOpts_cf, Bool.false_eq_true, false_and, if_false]
          rw [nextLoop]
          simp only [copyOpts_cf, Bool.false_eq_true, false_and, if_false]
        | err k => rfl
        | panic => rfl
        | hang => rfl
    | err k => rfl
    | panic => rfl
    | hang => rfl

theorem smallState_sub (r : FsPath) (e : Entry)
    (h : alLookup ([['a']] ++ r) smallState.entries = some e) :
    (r = [] ∧ e = eA) ∨ (r = [['f']] ∧ e = eF) := by
  have hm := alLookup_mem h
  simp only [smallState, List.mem_cons, Prod.mk.injEq, List.mem_nil_iff, or_false] at hm
  rcases hm with ⟨h1, _⟩ | ⟨h1, h2⟩ | ⟨h1, h2⟩ | ⟨h1, _⟩
  · simp at h1
  · left
    have : r = [] := by simpa using h1
    exact ⟨this, h2⟩
  · right
    have : r = [['f']] := by simpa using h1
    exact ⟨this, h2⟩
  · simp at h1

theorem preOrder_small : PreOrder smallState [['a']] [eA, eF] := by
  refine ⟨?_, ?_, by decide, ?_⟩
  · intro e he
    simp only [List.mem_cons, List.mem_nil_iff, or_false] at he
    rcases he with rfl | rfl
    · exact ⟨[], by decide, by decide⟩
    · exact ⟨[['f']], by decide, by decide⟩
  · intro r e h
    rcases smallState_sub r e h with ⟨_, rfl⟩ | ⟨_, rfl⟩ <;> simp
  · intro L1 e L2 hsplit r r' hp h1 h2
    match L1, hsplit with
    | [], hsplit =>
      simp only [List.nil_append, List.cons.injEq] at hsplit
      obtain ⟨rfl, _⟩ := hsplit
      have : r = [] := by
        have : ([['a']] : FsPath) = [['a']] ++ r := hp
        simpa using this
      subst this
      exact absurd (List.prefix_nil.1 h1) h2
    | [x], hsplit =>
      simp only [List.cons_append, List.nil_append, List.cons.injEq] at hsplit
      obtain ⟨rfl, rfl, _⟩ := hsplit
      have hr : r = [['f']] := by
        have : ([['a'], ['f']] : FsPath) = [['a']] ++ r := hp
        simpa using this.symm
      subst hr
      have hr' : r' = [] := by
        obtain ⟨t, ht⟩ := h1
        cases r' with
        | nil => rfl
        | cons y ys =>
          exfalso
          simp only [List.cons_append, List.cons.injEq] at ht
          obtain ⟨rfl, hys⟩ := ht
          have : ys = [] := by
            cases ys with
            | nil => rfl
            | cons z zs => simp at hys
          subst this
          exact h2 rfl
      subst hr'
      exact ⟨eA, by simp, by decide⟩
    | x :: y :: rest, hsplit =>
      have := congrArg List.length hsplit
      simp at this

theorem treeCtx_small : TreeCtx smallState [['a']] [['d']] {} := by
  have hD : copyDst smallState [['a']] [['d']] = [['d'], ['a']] := by decide
  refine ⟨invF_of_inv (by decide), by decide, by decide, rfl, by decide, by rw [hD]; decide,
    by rw [hD]; decide, ?_, by rw [hD]; decide, ?_, ?_, ?_⟩
  · rw [hD]
    exact ⟨mkDirEntry [['d']] none, by decide, by decide, by decide⟩
  · intro r e h
    rcases smallState_sub r e h with ⟨_, rfl⟩ | ⟨_, rfl⟩ <;> decide
  · intro x h; cases h
  · intro x h; cases h


end Rivia.Lemmas
