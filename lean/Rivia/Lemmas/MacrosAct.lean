/-
  Rivia.Lemmas.MacrosAct — helper lemmas for the acting `assert_vfs_*!` macros (C20).
  Part 1: the vfs calls the macros make never change the current directory.
-/
import Rivia.Lemmas.Macros
import Rivia.Lemmas.InvA

set_option linter.unusedSimpArgs false

namespace Rivia.MacroLemmas
open Rivia Rivia.Memfs Rivia.Memfs.M Rivia.File Rivia.Spec Rivia.Spec.TreeFs Rivia.Macros
open Rivia.Spec.MacroSpec Rivia.Lemmas.RefineA
open Rivia.Lemmas.InvA (Pres)
open Rivia.Lemmas (bind_ok pure_ok ite_ok getEntry_ok getFile_ok fail_ok liftO_ok setEntry_ok setFile_ok syncM_eq absM_ok)

variable {env : Env} {s : State}

/-! ### the current directory is `c` -/

def CwdIs (c : FsPath) (st : State) : Prop := st.cwd = c

theorem pres_setEntry (c : FsPath) (p : FsPath) (e : Entry) : Pres (CwdIs c) (setEntry p e) := ⟨fun _ h => h⟩
theorem pres_setFile (c : FsPath) (p : FsPath) (b : Bytes) : Pres (CwdIs c) (setFile p b) := ⟨fun _ h => h⟩
theorem pres_removeEntry (c : FsPath) (p : FsPath) : Pres (CwdIs c) (removeEntry p) := ⟨fun _ h => h⟩
theorem pres_removeFile (c : FsPath) (p : FsPath) : Pres (CwdIs c) (removeFile p) := ⟨fun _ h => h⟩

theorem pres_add (c : FsPath) (e : Entry) : Pres (CwdIs c) (add e) := by
  constructor
  intro s h
  rcases Lemmas.InvA.add_state_cases e s with h0 | ⟨d, b, d', _, _, _, _, _, _, h0⟩
  · rw [h0]; exact h
  · rw [h0]; exact h

theorem pres_syncM (c : FsPath) (p : FsPath) (b : Bytes) : Pres (CwdIs c) (syncM p b) :=
  ⟨fun s h => by unfold CwdIs at *; rw [(Lemmas.InvA.syncM_entries p b s).2]; exact h⟩

macro "cwd_step" : tactic => `(tactic| first
  | exact pres_add _ _ | exact pres_syncM _ _ _ | exact pres_setEntry _ _ _ | exact pres_setFile _ _ _
  | exact pres_removeEntry _ _ | exact pres_removeFile _ _
  | exact Pres.pure _ | exact Pres.pure' _ | exact Pres.fail _ | exact Pres.hang | exact Pres.get
  | exact Pres.liftO _ | exact Pres.getEntry _ | exact Pres.getFile _ | exact Pres.dirOf _
  | exact Pres.absM _ _ | exact Pres.const _ | assumption
  | apply Pres.bind | intro _ | split | dsimp only)

macro "cwd_tac" : tactic => `(tactic| repeat cwd_step)

theorem pres_mkdirM (c : FsPath) (p : FsPath) (mode : Option Nat) : Pres (CwdIs c) (mkdirM p mode) := by
  unfold Memfs.mkdirM
  refine Pres.forM _ _ fun q => ?_
  cwd_tac

theorem pres_mkdirOp (c : FsPath) (env : Env) (p : Str) (mode : Option Nat) :
    Pres (CwdIs c) (mkdirOp env p mode) := by
  unfold Memfs.mkdirOp
  refine Pres.bind (Pres.absM _ _) fun a => Pres.bind (pres_mkdirM _ _ _) fun _ => ?_
  cwd_tac

theorem pres_mkfileM (c : FsPath) (env : Env) (p : Str) : Pres (CwdIs c) (mkfileM env p) := by
  unfold Memfs.mkfileM
  cwd_tac

theorem pres_writeAllM (c : FsPath) (env : Env) (p : Str) (d : Bytes) : Pres (CwdIs c) (writeAllM env p d) := by
  unfold Memfs.writeAllM
  refine Pres.bind (Pres.absM _ _) fun a => Pres.bind (pres_add _ _) fun _ => Pres.bind (Pres.getFile _) fun o => ?_
  split
  · exact Pres.fail _
  · exact Pres.ignore (pres_syncM _ _ _)

theorem pres_symlinkM (c : FsPath) (env : Env) (l t : Str) : Pres (CwdIs c) (symlinkM env l t) := by
  unfold Memfs.symlinkM
  cwd_tac

theorem pres_removeM (c : FsPath) (env : Env) (p : Str) : Pres (CwdIs c) (removeM env p) := by
  unfold Memfs.removeM
  cwd_tac

theorem pres_removeAllLoop (c : FsPath) : ∀ (f : Nat) (work : List FsPath), Pres (CwdIs c) (removeAllLoop f work) := by
  intro f
  induction f with
  | zero => intro work; unfold Memfs.removeAllLoop; exact Pres.hang
  | succ f ih =>
    intro work
    cases work with
    | nil => unfold Memfs.removeAllLoop; exact Pres.pure' _
    | cons p work =>
      unfold Memfs.removeAllLoop
      refine Pres.bind (Pres.getEntry _) fun oe => ?_
      split
      · exact ih _
      · split
        · exact ih _
        · have := ih work
          cwd_tac

theorem pres_removeAllM (c : FsPath) (env : Env) (p : Str) : Pres (CwdIs c) (removeAllM env p) := by
  unfold Memfs.removeAllM
  refine Pres.bind (Pres.absM _ _) fun a => Pres.bind Pres.get fun st => pres_removeAllLoop _ _ _

/-! ### `step` level -/

theorem step_cwd_of {α} {m : M α} (f : α → Val) (h : ∀ c, Pres (CwdIs c) m) (s : State) :
    (mapVal f m s).2.cwd = s.cwd := by
  rw [Lemmas.InvA.mapVal_snd]
  exact (h s.cwd).run s rfl

theorem step_mkdirP_cwd (env : Env) (s : State) (q : Str) : (step env s (.mkdirP q)).2.cwd = s.cwd :=
  step_cwd_of _ (fun c => pres_mkdirOp c env q none) s
theorem step_mkdirM_cwd (env : Env) (s : State) (q : Str) (mode : Nat) :
    (step env s (.mkdirM q mode)).2.cwd = s.cwd :=
  step_cwd_of _ (fun c => pres_mkdirOp c env q (some mode)) s
theorem step_mkfile_cwd (env : Env) (s : State) (q : Str) : (step env s (.mkfile q)).2.cwd = s.cwd :=
  step_cwd_of _ (fun c => pres_mkfileM c env q) s
theorem step_writeAll_cwd (env : Env) (s : State) (q : Str) (d : Bytes) :
    (step env s (.writeAll q d)).2.cwd = s.cwd :=
  step_cwd_of _ (fun c => pres_writeAllM c env q d) s
theorem step_symlink_cwd (env : Env) (s : State) (l t : Str) : (step env s (.symlink l t)).2.cwd = s.cwd :=
  step_cwd_of _ (fun c => pres_symlinkM c env l t) s
theorem step_remove_cwd (env : Env) (s : State) (q : Str) : (step env s (.remove q)).2.cwd = s.cwd :=
  step_cwd_of _ (fun c => pres_removeM c env q) s
theorem step_removeAll_cwd (env : Env) (s : State) (q : Str) : (step env s (.removeAll q)).2.cwd = s.cwd :=
  step_cwd_of _ (fun c => pres_removeAllM c env q) s

/-! ### spelling: the macro calls `op(&target)`, the documentation says `op(path)` -/

theorem spell {p : Str} {a : FsPath} (hk : keyOf env s p = some a) (hs : Stable env s a) :
    absM env (renderP a) s = absM env p s := by
  rw [absM_of_key hk, absM_of_key hs]

theorem step_mkdirP_spell {p : Str} {a : FsPath} (hk : keyOf env s p = some a) (hs : Stable env s a) :
    step env s (.mkdirP (renderP a)) = step env s (.mkdirP p) :=
  Lemmas.mapVal_congr_at _ (Lemmas.bind_congr_at _ (spell hk hs))

/-- re-tag the result of a computation that returns a fixed value on success -/
def retag (v : Val) : Outcome Unit × State → Outcome Val × State
  | (.ok _, s1) => (.ok v, s1)
  | (.err k, s1) => (.err k, s1)
  | (.panic, s1) => (.panic, s1)
  | (.hang, s1) => (.hang, s1)

theorem retag_ok {v w : Val} {r : Outcome Unit × State} {s' : State} (h : retag v r = (.ok w, s')) : w = v := by
  obtain ⟨o, s1⟩ := r
  cases o <;> simp [retag] at h
  exact h.1.symm

theorem step_mkdirP_key {p : Str} {a : FsPath} (hk : keyOf env s p = some a) :
    step env s (.mkdirP p) = retag (.path a) (mkdirM a none s) := by
  simp only [step, mkdirOp]
  msimp [absM_of_key hk]
  cases mkdirM a none s with
  | mk o s1 => cases o <;> rfl

theorem step_mkdirP_ret {p : Str} {a : FsPath} (hk : keyOf env s p = some a) {v : Val} {s' : State}
    (h : step env s (.mkdirP p) = (.ok v, s')) : v = .path a := by
  rw [step_mkdirP_key hk] at h
  exact retag_ok h

theorem step_mkdirP_unres {p : Str} (hk : keyOf env s p = none) :
    ∃ k, step env s (.mkdirP p) = (.err k, s) := by
  obtain ⟨kk, hkk⟩ := absM_of_none hk
  refine ⟨kk, ?_⟩
  simp only [step, mkdirOp]
  msimp [hkk]

theorem act_mkdirP {p : Str} (hst : StableArg env s p) :
    (runMacro env s (.mkdirP p)).2 = (macroSpec env s (.mkdirP p)).2 ∧
    ((runMacro env s (.mkdirP p)).1 = .pass ↔ (macroSpec env s (.mkdirP p)).1 = true) := by
  have hno : documentedNoop env s (.mkdirP p) = false := rfl
  cases hk : keyOf env s p with
  | none =>
    obtain ⟨kk, hkk⟩ := step_mkdirP_unres hk
    simp [runMacro, absK_eq, hk, macroSpec_of_not_noop hno, opOf, hkk, pm, Outcome.isOk]
  | some a =>
    have hs := hst.of_key hk
    cases hr : step env s (.mkdirP p) with
    | mk o s' =>
      have hc : s'.cwd = s.cwd := by have := step_mkdirP_cwd env s p; rw [hr] at this; exact this
      have hk' : keyOf env s' p = some a := by rw [keyOf_congr hc]; exact hk
      have hs' : Stable env s' a := hs.congr hc
      simp only [runMacro, absK_eq, hk, macroSpec_of_not_noop hno, opOf, postSpec, hr,
        call_of ((step_mkdirP_spell hk hs).trans hr)]
      cases o with
      | ok v =>
        have hv := step_mkdirP_ret hk hr
        subst hv
        simp only [contOf, ne_eq, not_true_eq_false, if_false, boolK_isDir, eTest_stable hs',
          pIsDir_key hk', Outcome.isOk, Bool.true_and]
        cases eAt s' a fun e => e.dir && !e.link <;> simp [pm]
      | err k => simp [contOf, Outcome.isOk]
      | panic => simp [contOf, Outcome.isOk]
      | hang => simp [contOf, Outcome.isOk]

/-! ### mkdir_m -/

theorem step_mkdirM_spell {p : Str} {a : FsPath} (mode : Nat) (hk : keyOf env s p = some a) (hs : Stable env s a) :
    step env s (.mkdirM (renderP a) mode) = step env s (.mkdirM p mode) :=
  Lemmas.mapVal_congr_at _ (Lemmas.bind_congr_at _ (spell hk hs))

theorem step_mkdirM_key {p : Str} {a : FsPath} (mode : Nat) (hk : keyOf env s p = some a) :
    step env s (.mkdirM p mode) = retag (.path a) (mkdirM a (some mode) s) := by
  simp only [step, mkdirOp]
  msimp [absM_of_key hk]
  cases mkdirM a (some mode) s with
  | mk o s1 => cases o <;> rfl

theorem step_mkdirM_unres {p : Str} (mode : Nat) (hk : keyOf env s p = none) :
    ∃ k, step env s (.mkdirM p mode) = (.err k, s) := by
  obtain ⟨kk, hkk⟩ := absM_of_none hk
  refine ⟨kk, ?_⟩
  simp only [step, mkdirOp]
  msimp [hkk]

theorem step_mode_key {q : Str} {a : FsPath} (hk : keyOf env s q = some a) :
    step env s (.mode q) =
      ((match alLookup a s.entries with
        | some e => Outcome.ok (Val.nat e.mode)
        | none => .err .doesNotExist), s) := by
  simp only [step, entryQuery]
  msimp [absM_of_key hk]
  cases alLookup a s.entries <;> rfl

theorem act_mkdirM {p : Str} {mode : Nat} (hst : StableArg env s p) :
    (runMacro env s (.mkdirM p mode)).2 = (macroSpec env s (.mkdirM p mode)).2 ∧
    ((runMacro env s (.mkdirM p mode)).1 = .pass ↔ (macroSpec env s (.mkdirM p mode)).1 = true) := by
  have hno : documentedNoop env s (.mkdirM p mode) = false := rfl
  cases hk : keyOf env s p with
  | none =>
    obtain ⟨kk, hkk⟩ := step_mkdirM_unres mode hk
    simp [runMacro, absK_eq, hk, macroSpec_of_not_noop hno, opOf, hkk, pm, Outcome.isOk]
  | some a =>
    have hs := hst.of_key hk
    cases hr : step env s (.mkdirM p mode) with
    | mk o s' =>
      have hc : s'.cwd = s.cwd := by have := step_mkdirM_cwd env s p mode; rw [hr] at this; exact this
      have hk' : keyOf env s' p = some a := by rw [keyOf_congr hc]; exact hk
      have hs' : Stable env s' a := hs.congr hc
      simp only [runMacro, absK_eq, hk, macroSpec_of_not_noop hno, opOf, postSpec, hr,
        call_of ((step_mkdirM_spell mode hk hs).trans hr)]
      cases o with
      | ok v =>
        have hv : v = .path a := by rw [step_mkdirM_key mode hk] at hr; exact retag_ok hr
        subst hv
        simp only [contOf, ne_eq, not_true_eq_false, if_false, boolK_isDir, eTest_stable hs',
          pIsDir_key hk', Outcome.isOk, Bool.true_and, call_of (step_mode_key hs'), step_mode_key hk']
        unfold eAt
        cases he : alLookup a s'.entries with
        | none => simp
        | some e =>
          by_cases hm : e.mode = mode
          · cases hd : e.dir <;> cases hl : e.link <;> simp [pm, hm, hd, hl, eTest_stable hs', eAt, he]
          · simp [pm, hm]
      | err k => simp [contOf, Outcome.isOk]
      | panic => simp [contOf, Outcome.isOk]
      | hang => simp [contOf, Outcome.isOk]

/-! ### remove_all -/

theorem step_removeAll_spell {p : Str} {a : FsPath} (hk : keyOf env s p = some a) (hs : Stable env s a) :
    step env s (.removeAll (renderP a)) = step env s (.removeAll p) :=
  Lemmas.mapVal_congr_at _ (Lemmas.bind_congr_at _ (spell hk hs))

theorem step_removeAll_unres {p : Str} (hk : keyOf env s p = none) :
    ∃ k, step env s (.removeAll p) = (.err k, s) := by
  obtain ⟨kk, hkk⟩ := absM_of_none hk
  refine ⟨kk, ?_⟩
  simp only [step, removeAllM]
  msimp [hkk]

theorem act_removeAll {p : Str} (hst : StableArg env s p) :
    (runMacro env s (.removeAll p)).2 = (macroSpec env s (.removeAll p)).2 ∧
    ((runMacro env s (.removeAll p)).1 = .pass ↔ (macroSpec env s (.removeAll p)).1 = true) := by
  have hno : documentedNoop env s (.removeAll p) = false := rfl
  cases hk : keyOf env s p with
  | none =>
    obtain ⟨kk, hkk⟩ := step_removeAll_unres hk
    simp [runMacro, absK_eq, hk, macroSpec_of_not_noop hno, opOf, hkk, pm, Outcome.isOk]
  | some a =>
    have hs := hst.of_key hk
    cases hr : step env s (.removeAll p) with
    | mk o s' =>
      have hc : s'.cwd = s.cwd := by have := step_removeAll_cwd env s p; rw [hr] at this; exact this
      have hk' : keyOf env s' p = some a := by rw [keyOf_congr hc]; exact hk
      have hs' : Stable env s' a := hs.congr hc
      simp only [runMacro, absK_eq, hk, macroSpec_of_not_noop hno, opOf, postSpec, hr,
        call_of ((step_removeAll_spell hk hs).trans hr)]
      cases o with
      | ok v =>
        simp only [contOf, boolK_exists, eTest_stable hs', pExists_key hk', resolvable_key hk',
          Outcome.isOk, Bool.true_and]
        cases eAt s' a fun _ => true <;> simp [pm]
      | err k => simp [contOf, Outcome.isOk, pm]
      | panic => simp [contOf, Outcome.isOk]
      | hang => simp [contOf, Outcome.isOk]

/-! ### remove -/

theorem step_remove_spell {p : Str} {a : FsPath} (hk : keyOf env s p = some a) (hs : Stable env s a) :
    step env s (.remove (renderP a)) = step env s (.remove p) :=
  Lemmas.mapVal_congr_at _ (Lemmas.bind_congr_at _ (spell hk hs))

/-- `assert_vfs_remove!` on a path that exists: `remove` is performed -/
theorem act_remove {p : Str} (hst : StableArg env s p) (hex : pExists env s p = true) :
    (runMacro env s (.remove p)).2 = (macroSpec env s (.remove p)).2 ∧
    ((runMacro env s (.remove p)).1 = .pass ↔ (macroSpec env s (.remove p)).1 = true) := by
  have hno : documentedNoop env s (.remove p) = false := by
    show (resolvable env s p && !pExists env s p) = false
    rw [hex]; simp
  cases hk : keyOf env s p with
  | none => simp [pExists, nodeOf_none hk] at hex
  | some a =>
    have hs := hst.of_key hk
    rw [pExists_key hk] at hex
    cases hr : step env s (.remove p) with
    | mk o s' =>
      have hc : s'.cwd = s.cwd := by have := step_remove_cwd env s p; rw [hr] at this; exact this
      have hk' : keyOf env s' p = some a := by rw [keyOf_congr hc]; exact hk
      have hs' : Stable env s' a := hs.congr hc
      simp only [runMacro, absK_eq, hk, macroSpec_of_not_noop hno, opOf, postSpec, hr, boolK_exists, boolK_isDir,
        eTest_stable hs, hex, if_true, call_of ((step_remove_spell hk hs).trans hr)]
      cases o with
      | ok v =>
        simp only [contOf, boolK_exists, eTest_stable hs', pExists_key hk', resolvable_key hk',
          Outcome.isOk, Bool.true_and]
        cases eAt s' a fun _ => true <;> cases eAt s a fun e => e.dir && !e.link <;> simp [pm]
      | err k => cases eAt s a fun e => e.dir && !e.link <;> simp [contOf, Outcome.isOk, pm]
      | panic => cases eAt s a fun e => e.dir && !e.link <;> simp [contOf, Outcome.isOk]
      | hang => cases eAt s a fun e => e.dir && !e.link <;> simp [contOf, Outcome.isOk]

/-- `assert_vfs_remove!` on a path that does not exist: nothing is called, the macro passes -/
theorem remove_absent {p : Str} (hst : StableArg env s p) (hr : resolvable env s p = true)
    (hex : pExists env s p = false) : runMacro env s (.remove p) = (.pass, s) := by
  cases hk : keyOf env s p with
  | none => simp [resolvable, hk] at hr
  | some a =>
    have hs := hst.of_key hk
    rw [pExists_key hk] at hex
    simp [runMacro, absK_eq, hk, boolK_exists, eTest_stable hs, hex]

/-- `_add` returns the path of the entry it was given -/
theorem add_ok_path {e : Entry} {r : FsPath} {s s1 : State} (h : add e s = (.ok r, s1)) : r = e.path := by
  unfold add at h
  rcases ite_ok h with ⟨_, h2⟩ | ⟨_, h2⟩
  · exact (pure_ok h2).1.symm
  · clear h
    obtain ⟨od, s2, h1, h3⟩ := bind_ok h2
    clear h2
    obtain ⟨rfl, rfl⟩ := getEntry_ok h1
    cases hd : alLookup (List.dropLast e.path) s.entries with
    | none => rw [hd] at h3; exact (fail_ok h3).elim
    | some d =>
      rw [hd] at h3
      simp only at h3
      rcases ite_ok h3 with ⟨_, h4⟩ | ⟨_, h4⟩
      · exact (fail_ok h4).elim
      · clear h3
        obtain ⟨ox, s2, h5, h6⟩ := bind_ok h4
        clear h4
        obtain ⟨rfl, rfl⟩ := getEntry_ok h5
        cases hx : alLookup e.path s.entries with
        | some x =>
          rw [hx] at h6
          simp only at h6
          rcases ite_ok h6 with ⟨_, h7⟩ | ⟨_, h7⟩
          · exact (fail_ok h7).elim
          rcases ite_ok h7 with ⟨_, h8⟩ | ⟨_, h8⟩
          · exact (fail_ok h8).elim
          rcases ite_ok h8 with ⟨_, h9⟩ | ⟨_, h9⟩
          · exact (fail_ok h9).elim
          exact (pure_ok h9).1.symm
        | none =>
          rw [hx] at h6
          simp only at h6
          have tail : ∀ {s0 s9 : State},
              (do
                setEntry e.path e
                match (← getEntry e.path.dropLast) with
                | some parent =>
                  let (isNew, parent') ← liftO (parent.addChild (baseName e.path))
                  setEntry e.path.dropLast parent'
                  if !isNew then fail .existsAlready else return e.path
                | none => return e.path : M FsPath) s0 = (.ok r, s9) → r = e.path := by
            intro s0 s9 h8
            obtain ⟨u2, s3, h9, h10⟩ := bind_ok h8
            obtain ⟨op, s4, h11, h12⟩ := bind_ok h10
            obtain ⟨rfl, rfl⟩ := getEntry_ok h11
            cases hp : alLookup (List.dropLast e.path) s3.entries with
            | none =>
              simp only [hp] at h12
              exact (pure_ok h12).1.symm
            | some parent =>
              simp only [hp] at h12
              obtain ⟨x, s5, h13, h14⟩ := bind_ok h12
              obtain ⟨u3, s6, h15, h16⟩ := bind_ok h14
              rcases ite_ok h16 with ⟨_, h17⟩ | ⟨_, h17⟩
              · exact (fail_ok h17).elim
              exact (pure_ok h17).1.symm
          rcases ite_ok h6 with ⟨_, h7⟩ | ⟨_, h7⟩
          · obtain ⟨u1, s2, _, h8⟩ := bind_ok h7
            exact tail h8
          · exact tail h7

theorem mapVal_ok' {α} {f : α → Val} {m : M α} {s s' : State} {v : Val}
    (h : mapVal f m s = (.ok v, s')) : ∃ a, m s = (.ok a, s') ∧ v = f a := by
  unfold mapVal at h
  split at h
  · rename_i a s1 hm
    simp only [Prod.mk.injEq, Outcome.ok.injEq] at h
    exact ⟨a, by rw [hm, h.2], h.1.symm⟩
  all_goals simp at h

theorem absM_key_ok {p : Str} {a k : FsPath} {s1 : State} (hk : keyOf env s p = some a)
    (h : absM env p s = (.ok k, s1)) : k = a ∧ s1 = s := by
  rw [absM_of_key hk] at h
  simp only [Prod.mk.injEq, Outcome.ok.injEq] at h
  exact ⟨h.1.symm, h.2.symm⟩

/-! ### mkfile -/

theorem step_mkfile_ret {p : Str} {a : FsPath} (hk : keyOf env s p = some a) {v : Val} {s' : State}
    (h : step env s (.mkfile p) = (.ok v, s')) : v = .path a := by
  obtain ⟨r, hm, rfl⟩ := mapVal_ok' h
  unfold mkfileM at hm
  obtain ⟨k, s1, h1, h2⟩ := bind_ok hm
  obtain ⟨rfl, rfl⟩ := absM_key_ok hk h1
  obtain ⟨r1, s2, h3, h4⟩ := bind_ok h2
  have hr1 := add_ok_path h3
  obtain ⟨ob, s3, h5, h6⟩ := bind_ok h4
  rcases ite_ok h6 with ⟨_, h7⟩ | ⟨_, h7⟩
  · exact (fail_ok h7).elim
  · rw [← (pure_ok h7).1, hr1]; rfl

theorem step_mkfile_spell {p : Str} {a : FsPath} (hk : keyOf env s p = some a) (hs : Stable env s a) :
    step env s (.mkfile (renderP a)) = step env s (.mkfile p) :=
  Lemmas.mapVal_congr_at _ (Lemmas.bind_congr_at _ (spell hk hs))

theorem step_mkfile_unres {p : Str} (hk : keyOf env s p = none) :
    ∃ k, step env s (.mkfile p) = (.err k, s) := by
  obtain ⟨kk, hkk⟩ := absM_of_none hk
  refine ⟨kk, ?_⟩
  simp only [step, mkfileM]
  msimp [hkk]

/-- `assert_vfs_mkfile!` on a path that does not exist: `mkfile` is performed -/
theorem act_mkfile {p : Str} (hst : StableArg env s p) (hab : pExists env s p = false)
    (hok' : StateOk (macroSpec env s (.mkfile p)).2) :
    (runMacro env s (.mkfile p)).2 = (macroSpec env s (.mkfile p)).2 ∧
    ((runMacro env s (.mkfile p)).1 = .pass ↔ (macroSpec env s (.mkfile p)).1 = true) := by
  have hno : documentedNoop env s (.mkfile p) = false := by
    show pIsFile env s p = false
    cases hf : pIsFile env s p with
    | false => rfl
    | true => rw [pIsFile_exists hf] at hab; cases hab
  rw [macroSpec_of_not_noop hno] at hok'
  simp only [opOf] at hok'
  cases hk : keyOf env s p with
  | none =>
    obtain ⟨kk, hkk⟩ := step_mkfile_unres hk
    simp [runMacro, absK_eq, hk, macroSpec_of_not_noop hno, opOf, hkk, pm, Outcome.isOk]
  | some a =>
    have hs := hst.of_key hk
    rw [pExists_key hk] at hab
    cases hr : step env s (.mkfile p) with
    | mk o s' =>
      rw [hr] at hok'
      have hc : s'.cwd = s.cwd := by have := step_mkfile_cwd env s p; rw [hr] at this; exact this
      have hk' : keyOf env s' p = some a := by rw [keyOf_congr hc]; exact hk
      have hs' : Stable env s' a := hs.congr hc
      simp only [runMacro, absK_eq, hk, macroSpec_of_not_noop hno, opOf, postSpec, hr, boolK_exists, eTest_stable hs, hab,
        Bool.false_eq_true, if_false, call_of ((step_mkfile_spell hk hs).trans hr)]
      cases o with
      | ok v =>
        have hv := step_mkfile_ret hk hr
        subst hv
        simp only [contOf, ne_eq, not_true_eq_false, if_false, boolK_isFile, eTest_stable hs',
          pIsFile_key hok' hk', Outcome.isOk, Bool.true_and]
        cases eAt s' a fun e => e.file && !e.link <;> simp [pm]
      | err k => simp [contOf, Outcome.isOk, pm]
      | panic => simp [contOf, Outcome.isOk]
      | hang => simp [contOf, Outcome.isOk]

/-- `assert_vfs_mkfile!` on a path that exists ("If the file exists no change is made") -/
theorem mkfile_present {p : Str} (hok : StateOk s) (hst : StableArg env s p) (hex : pExists env s p = true) :
    (runMacro env s (.mkfile p)).2 = s ∧
    ((runMacro env s (.mkfile p)).1 = .pass ↔ pIsFile env s p = true) := by
  cases hk : keyOf env s p with
  | none => simp [pExists, nodeOf_none hk] at hex
  | some a =>
    have hs := hst.of_key hk
    rw [pExists_key hk] at hex
    simp only [runMacro, absK_eq, hk, boolK_exists, boolK_isFile, eTest_stable hs, hex, if_true,
      pIsFile_key hok hk]
    cases eAt s a fun e => e.file && !e.link <;> simp [pm]

/-! ### write_all -/

theorem step_writeAll_spell {p : Str} {a : FsPath} (d : Bytes) (hk : keyOf env s p = some a) (hs : Stable env s a) :
    step env s (.writeAll (renderP a) d) = step env s (.writeAll p d) :=
  Lemmas.mapVal_congr_at _ (Lemmas.bind_congr_at _ (spell hk hs))

theorem step_writeAll_unres {p : Str} (d : Bytes) (hk : keyOf env s p = none) :
    ∃ k, step env s (.writeAll p d) = (.err k, s) := by
  obtain ⟨kk, hkk⟩ := absM_of_none hk
  refine ⟨kk, ?_⟩
  simp only [step, writeAllM]
  msimp [hkk]

/-- after a successful `write_all`, an entry under the key has exactly the written bytes -/
theorem step_writeAll_content {p : Str} {a : FsPath} {d : Bytes} (hk : keyOf env s p = some a) {v : Val}
    {s' : State} (h : step env s (.writeAll p d) = (.ok v, s')) {e : Entry}
    (he : alLookup a s'.entries = some e) : alLookup a s'.files = some d := by
  obtain ⟨r, hm, -⟩ := mapVal_ok' h
  unfold writeAllM at hm
  obtain ⟨k, s1, h1, h2⟩ := bind_ok hm
  obtain ⟨rfl, rfl⟩ := absM_key_ok hk h1
  obtain ⟨r1, s2, h3, h4⟩ := bind_ok h2
  obtain ⟨ob, s3, h5, h6⟩ := bind_ok h4
  obtain ⟨rfl, rfl⟩ := getFile_ok h5
  rcases ite_ok h6 with ⟨_, h7⟩ | ⟨hsome, h7⟩
  · exact (fail_ok h7).elim
  · rw [syncM_eq] at h7
    cases he2 : alLookup k s2.entries with
    | none =>
      rw [he2] at h7
      simp only [Prod.mk.injEq, true_and] at h7
      subst h7
      rw [he2] at he; cases he
    | some e2 =>
      cases hf2 : alLookup k s2.files with
      | none => simp [hf2] at hsome
      | some b =>
        rw [he2, hf2] at h7
        simp only [Prod.mk.injEq, true_and] at h7
        subst h7
        exact Lemmas.alLookup_alInsert_self _ _ _

/-- `_add` of an entry whose key is taken changes nothing -/
theorem add_existing_state {e x : Entry} {s : State} (h : alLookup e.path s.entries = some x) :
    (add e s).2 = s := by
  rcases Lemmas.InvA.add_state_cases e s with h0 | ⟨d, b, d', _, hn, _⟩
  · exact h0
  · rw [h] at hn; cases hn

/-- `write_all` onto a key that has an entry never touches the entry map -/
theorem step_writeAll_entries {p : Str} {a : FsPath} {d : Bytes} {x : Entry} (hk : keyOf env s p = some a)
    (hx : alLookup a s.entries = some x) : (step env s (.writeAll p d)).2.entries = s.entries := by
  simp only [step, writeAllM]
  rw [Lemmas.InvA.mapVal_snd]
  simp only [M_bind_apply, absM_of_key hk]
  have hadd := add_existing_state (e := mkFileEntry a) (s := s) hx
  cases h1 : add (mkFileEntry a) s with
  | mk o s1 =>
    rw [h1] at hadd
    simp only at hadd
    subst hadd
    cases o with
    | ok r =>
      simp only [getFile]
      split
      · rfl
      · exact (Lemmas.InvA.syncM_entries a d s1).1
    | err k => rfl
    | panic => rfl
    | hang => rfl

/-- `assert_vfs_write_all!`: a path that exists as something other than a regular file makes the
    macro panic before anything is written; in every other case `write_all` is performed -/
theorem act_writeAll {p : Str} {d : Bytes} (hst : StableArg env s p)
    (hok' : StateOk (macroSpec env s (.writeAll p d)).2) :
    ((runMacro env s (.writeAll p d)).1 = .pass ↔ (macroSpec env s (.writeAll p d)).1 = true) ∧
    ((runMacro env s (.writeAll p d)).1 = .pass →
      (runMacro env s (.writeAll p d)).2 = (macroSpec env s (.writeAll p d)).2) := by
  have hno : documentedNoop env s (.writeAll p d) = false := rfl
  rw [macroSpec_of_not_noop hno] at hok' ⊢
  simp only [opOf] at hok' ⊢
  cases hk : keyOf env s p with
  | none =>
    obtain ⟨kk, hkk⟩ := step_writeAll_unres d hk
    simp [runMacro, absK_eq, hk, hkk, pm, Outcome.isOk]
  | some a =>
    have hs := hst.of_key hk
    cases hr : step env s (.writeAll p d) with
    | mk o s' =>
      rw [hr] at hok'
      have hc : s'.cwd = s.cwd := by have := step_writeAll_cwd env s p d; rw [hr] at this; exact this
      have hk' : keyOf env s' p = some a := by rw [keyOf_congr hc]; exact hk
      have hs' : Stable env s' a := hs.congr hc
      -- the write itself
      have hwrite :
          ((call env s (.writeAll (renderP a) d) fun r s =>
              match r with
              | some _ =>
                if !(eTest env s (renderP a) fun e => e.file && !e.link) then
                  (pm "assert_vfs_write_all!" "is not a file", s) else (.pass, s)
              | none => (pm "assert_vfs_write_all!" "failed while writing file", s)).1 = .pass ↔
            (o.isOk && postSpec env s' (.writeAll p d)) = true) ∧
          (call env s (.writeAll (renderP a) d) fun r s =>
              match r with
              | some _ =>
                if !(eTest env s (renderP a) fun e => e.file && !e.link) then
                  (pm "assert_vfs_write_all!" "is not a file", s) else (.pass, s)
              | none => (pm "assert_vfs_write_all!" "failed while writing file", s)).2 = s' := by
        simp only [postSpec, call_of ((step_writeAll_spell d hk hs).trans hr)]
        cases o with
        | ok v =>
          simp only [contOf, boolK_isFile, eTest_stable hs', pHasBytes, nodeOf_key hk', Outcome.isOk,
            Bool.true_and]
          unfold eAt
          cases he : alLookup a s'.entries with
          | none => simp [pm]
          | some e =>
            have hcont := step_writeAll_content hk hr he
            have hfl := (stateOk_lookup hok' he).1
            cases hf : e.file <;> cases hl : e.link <;> cases hd : e.dir <;>
              simp_all [pm, absNode, kindOf]
        | err k => simp [contOf, Outcome.isOk, pm]
        | panic => simp [contOf, Outcome.isOk]
        | hang => simp [contOf, Outcome.isOk]
      simp only [runMacro, absK_eq, hk, hr, boolK_exists, boolK_isFile, eTest_stable hs]
      cases hex : eAt s a fun _ => true
      · simp only [Bool.false_eq_true, if_false]
        exact ⟨hwrite.1, fun _ => hwrite.2⟩
      · cases hisf : eAt s a fun e => e.file && !e.link
        · -- exists, not a regular file: the macro panics; the documented assertion is false as well
          simp only [if_true, Bool.not_false, pm]
          refine ⟨⟨(fun h => by cases h), fun h => ?_⟩, (fun h => by cases h)⟩
          exfalso
          unfold eAt at hex hisf
          cases hx : alLookup a s.entries with
          | none => rw [hx] at hex; cases hex
          | some x =>
            rw [hx] at hisf
            have hent : s'.entries = s.entries := by
              have := step_writeAll_entries (d := d) hk hx; rw [hr] at this; exact this
            have hx' : alLookup a s'.entries = some x := by rw [hent]; exact hx
            have hfl := (stateOk_lookup hok' hx').1
            simp only [postSpec, pHasBytes, nodeOf_key hk', hx', Option.map, absNode, kindOf,
              Bool.and_eq_true, decide_eq_true_eq] at h
            cases hf : x.file <;> cases hl : x.link <;> cases hd : x.dir <;> simp_all
        · simp only [if_true, Bool.not_true, Bool.false_eq_true, if_false]
          exact ⟨hwrite.1, fun _ => hwrite.2⟩

/-- a successful `_add` of an entry whose (non-root) key was free stores exactly that entry -/
theorem add_ok_new {e : Entry} {r : FsPath} {s s1 : State} (h : add e s = (.ok r, s1))
    (hnew : alLookup e.path s.entries = none) (hne : e.path ≠ []) :
    alLookup e.path s1.entries = some e := by
  have hdl : e.path.dropLast ≠ e.path := Lemmas.InvA.dropLast_ne_self hne
  unfold add at h
  rcases ite_ok h with ⟨h0, _⟩ | ⟨_, h2⟩
  · exact absurd h0 hne
  · clear h
    obtain ⟨od, s2, h1, h3⟩ := bind_ok h2
    clear h2
    obtain ⟨rfl, rfl⟩ := getEntry_ok h1
    cases hd : alLookup (List.dropLast e.path) s.entries with
    | none => rw [hd] at h3; exact (fail_ok h3).elim
    | some d =>
      rw [hd] at h3
      simp only at h3
      rcases ite_ok h3 with ⟨_, h4⟩ | ⟨_, h4⟩
      · exact (fail_ok h4).elim
      · clear h3
        obtain ⟨ox, s2, h5, h6⟩ := bind_ok h4
        clear h4
        obtain ⟨rfl, rfl⟩ := getEntry_ok h5
        rw [hnew] at h6
        simp only at h6
        have tail : ∀ {s0 s9 : State},
            (do
              setEntry e.path e
              match (← getEntry e.path.dropLast) with
              | some parent =>
                let (isNew, parent') ← liftO (parent.addChild (baseName e.path))
                setEntry e.path.dropLast parent'
                if !isNew then fail .existsAlready else return e.path
              | none => return e.path : M FsPath) s0 = (.ok r, s9) →
            alLookup e.path s9.entries = some e := by
          intro s0 s9 h8
          obtain ⟨u2, s3, h9, h10⟩ := bind_ok h8
          have e3 := setEntry_ok h9
          subst e3
          obtain ⟨op, s4, h11, h12⟩ := bind_ok h10
          obtain ⟨rfl, rfl⟩ := getEntry_ok h11
          cases hp : alLookup (List.dropLast e.path) (alInsert e.path e s0.entries) with
          | none =>
            simp only [hp] at h12
            obtain ⟨-, rfl⟩ := pure_ok h12
            exact Lemmas.alLookup_alInsert_self _ _ _
          | some parent =>
            simp only [hp] at h12
            obtain ⟨x, s5, h13, h14⟩ := bind_ok h12
            obtain ⟨-, rfl⟩ := liftO_ok h13
            obtain ⟨u3, s6, h15, h16⟩ := bind_ok h14
            have e6 := setEntry_ok h15
            subst e6
            rcases ite_ok h16 with ⟨_, h17⟩ | ⟨_, h17⟩
            · exact (fail_ok h17).elim
            obtain ⟨-, rfl⟩ := pure_ok h17
            simp only [alLookup_alInsert, hdl, if_false, if_true]
        rcases ite_ok h6 with ⟨_, h7⟩ | ⟨_, h7⟩
        · obtain ⟨u1, s2, _, h8⟩ := bind_ok h7
          exact tail h8
        · exact tail h7

theorem dirOf_ok {p d : FsPath} {s s1 : State} (h : dirOf p s = (.ok d, s1)) : p ≠ [] ∧ d = p.dropLast ∧ s1 = s := by
  unfold dirOf at h
  by_cases hp : p = []
  · rw [if_pos hp] at h; exact (fail_ok h).elim
  · rw [if_neg hp] at h
    simp only [M.pure, Prod.mk.injEq, Outcome.ok.injEq] at h
    exact ⟨hp, h.1.symm, h.2.symm⟩

/-- what a successful `symlink(link, target)` leaves under the link's key -/
theorem symlinkM_ok {l t : Str} {a r : FsPath} {s s' : State} (hk : keyOf env s l = some a)
    (h : symlinkM env l t s = (.ok r, s')) :
    r = a ∧ ∃ ta e, keyOf env s (linkTargetStr a t) = some ta ∧ alLookup a s'.entries = some e ∧
      e.link = true ∧ e.alt = some ta := by
  unfold symlinkM at h
  obtain ⟨k, s1, h1, h2⟩ := bind_ok h
  obtain ⟨rfl, rfl⟩ := absM_key_ok hk h1
  obtain ⟨oe, s2, h3, h4⟩ := bind_ok h2
  obtain ⟨rfl, rfl⟩ := getEntry_ok h3
  rcases ite_ok h4 with ⟨_, h5⟩ | ⟨hfree, h5⟩
  · exact (fail_ok h5).elim
  have hfree' : alLookup k s1.entries = none := by
    cases hx : alLookup k s1.entries with
    | none => rfl
    | some x => simp [hx] at hfree
  have key : ∀ tstr : Str, tstr = linkTargetStr k t →
      (do
        let t ← absM env tstr
        let ldir ← dirOf k
        let rel := relative (renderP t) (renderP ldir)
        let tIsDir := match (← getEntry t) with | some x => x.dir | none => false
        let e : Entry := { path := k, alt := some t, rel := rel, dir := tIsDir, file := !tIsDir, link := true,
                           mode := optsMode true (!tIsDir) tIsDir none, uid := 1000, gid := 1000,
                           follow := false, cached := false, files := if tIsDir then some [] else none }
        let _ ← add e
        return k : M FsPath) s1 = (.ok r, s') →
      r = k ∧ ∃ ta e, keyOf env s1 (linkTargetStr k t) = some ta ∧ alLookup k s'.entries = some e ∧
        e.link = true ∧ e.alt = some ta := by
    intro tstr htstr h7
    subst htstr
    obtain ⟨ta, s4, h8, h9⟩ := bind_ok h7
    have hs4 := absM_ok h8
    subst hs4
    have hkt : keyOf env s1 (linkTargetStr k t) = some ta := by
      cases hq : keyOf env s1 (linkTargetStr k t) with
      | some b => rw [absM_of_key hq] at h8; simp only [Prod.mk.injEq, Outcome.ok.injEq] at h8; rw [h8.1]
      | none => obtain ⟨kk, hkk⟩ := absM_of_none hq; rw [hkk] at h8; simp at h8
    obtain ⟨ldir, s5, h10, h11⟩ := bind_ok h9
    obtain ⟨hne, rfl, rfl⟩ := dirOf_ok h10
    obtain ⟨ot, s6, h12, h13⟩ := bind_ok h11
    obtain ⟨rfl, rfl⟩ := getEntry_ok h12
    obtain ⟨r1, s7, h14, h15⟩ := bind_ok h13
    obtain ⟨rfl, rfl⟩ := pure_ok h15
    exact ⟨rfl, ta, _, hkt, add_ok_new h14 hfree' hne, rfl, rfl⟩
  simp only at h5
  rcases ite_ok h5 with ⟨hc, h6⟩ | ⟨hc, h6⟩
  · obtain ⟨tstr, s3, h7, h8⟩ := bind_ok h6
    simp only [M.pure, Prod.mk.injEq, Outcome.ok.injEq] at h7
    obtain ⟨rfl, rfl⟩ := h7
    exact key _ (by unfold linkTargetStr; rw [if_pos hc]) h8
  · obtain ⟨d, s3, h7, h8⟩ := bind_ok h6
    obtain ⟨_, rfl, rfl⟩ := dirOf_ok h7
    obtain ⟨tstr, s4, h9, h10⟩ := bind_ok h8
    simp only [M.pure, Prod.mk.injEq, Outcome.ok.injEq] at h9
    obtain ⟨rfl, rfl⟩ := h9
    exact key _ (by unfold linkTargetStr; rw [if_neg hc]) h10

/-! ### symlink -/

theorem step_symlink_spell {l : Str} {a : FsPath} (t : Str) (hk : keyOf env s l = some a) (hs : Stable env s a) :
    step env s (.symlink (renderP a) t) = step env s (.symlink l t) :=
  Lemmas.mapVal_congr_at _ (Lemmas.bind_congr_at _ (spell hk hs))

theorem step_symlink_unres {l : Str} (t : Str) (hk : keyOf env s l = none) :
    ∃ k, step env s (.symlink l t) = (.err k, s) := by
  obtain ⟨kk, hkk⟩ := absM_of_none hk
  refine ⟨kk, ?_⟩
  simp only [step, symlinkM]
  msimp [hkk]

/-- `assert_vfs_symlink!` on a path that does not exist: `symlink` is performed -/
theorem act_symlink {l t : Str} (hst : StableArg env s l) (hab : pExists env s l = false) :
    (runMacro env s (.symlink l t)).2 = (macroSpec env s (.symlink l t)).2 ∧
    ((runMacro env s (.symlink l t)).1 = .pass ↔ (macroSpec env s (.symlink l t)).1 = true) := by
  have hno : documentedNoop env s (.symlink l t) = false := by
    show pIsLink env s l = false
    cases hf : pIsLink env s l with
    | false => rfl
    | true =>
      have : pExists env s l = true := by
        unfold pIsLink at hf; unfold pExists
        cases hn : nodeOf env s l with
        | none => rw [hn] at hf; cases hf
        | some n => rfl
      rw [this] at hab; cases hab
  cases hk : keyOf env s l with
  | none =>
    obtain ⟨kk, hkk⟩ := step_symlink_unres t hk
    simp [runMacro, absK_eq, hk, macroSpec_of_not_noop hno, opOf, hkk, pm, Outcome.isOk]
  | some a =>
    have hs := hst.of_key hk
    rw [pExists_key hk] at hab
    cases hr : step env s (.symlink l t) with
    | mk o s' =>
      have hc : s'.cwd = s.cwd := by have := step_symlink_cwd env s l t; rw [hr] at this; exact this
      have hk' : keyOf env s' l = some a := by rw [keyOf_congr hc]; exact hk
      have hs' : Stable env s' a := hs.congr hc
      simp only [runMacro, absK_eq, hk, macroSpec_of_not_noop hno, opOf, postSpec, hr, boolK_exists, eTest_stable hs, hab,
        Bool.false_eq_true, if_false, call_of ((step_symlink_spell t hk hs).trans hr)]
      cases o with
      | ok v =>
        obtain ⟨r, hm, rfl⟩ := mapVal_ok' hr
        obtain ⟨rfl, ta, e, hkt, he, hl, halt⟩ := symlinkM_ok hk hm
        have hkt' : keyOf env s' (linkTargetStr r t) = some ta := by rw [keyOf_congr hc]; exact hkt
        simp only [contOf, ne_eq, not_true_eq_false, if_false, boolK_isSymlink, eTest_stable hs', hk', hkt',
          pLinksTo, nodeOf_key hk', Outcome.isOk, Bool.true_and, eAt, he, hl, Option.map, absNode, halt,
          kindOf, isLinkKind]
        simp
      | err k => simp [contOf, Outcome.isOk, pm]
      | panic => simp [contOf, Outcome.isOk]
      | hang => simp [contOf, Outcome.isOk]

/-- (A1) `assert_vfs_symlink!` on a path that exists: nothing is created or retargeted; any link is
    accepted ("If the symlink exists no change is made") -/
theorem symlink_present {l t : Str} (hst : StableArg env s l) (hex : pExists env s l = true) :
    (runMacro env s (.symlink l t)).2 = s ∧
    ((runMacro env s (.symlink l t)).1 = .pass ↔ pIsLink env s l = true) := by
  cases hk : keyOf env s l with
  | none => simp [pExists, nodeOf_none hk] at hex
  | some a =>
    have hs := hst.of_key hk
    rw [pExists_key hk] at hex
    simp only [runMacro, absK_eq, hk, boolK_exists, boolK_isSymlink, eTest_stable hs, hex, if_true,
      pIsLink_key hk]
    cases eAt s a (·.link) <;> simp [pm]

/-! ### `copy` never changes the current directory -/

/-- the consumer closure of `_copy`, with the values it captures as parameters
    (verbatim from `copyM`) -/
def copyBody (follow copyInto : Bool) (rootP dstRoot : FsPath) (dirMode fileMode : Option Nat) (e : Entry) : M Unit := do
      let pre ← if copyInto then dirOf rootP else M.pure rootP
      let dstPath := dstOf dstRoot e.path pre
      if !follow ∧ e.link then
        let _ ← symlinkAbs dstPath (e.alt.getD [])
      else
        let srcE ← match (← getEntry e.path) with
          | some x => M.pure x
          | none => fail .doesNotExist
        if srcE.dir then
          mkdirM dstPath (some (dirMode.getD srcE.mode))
        else
          let dd ← dirOf dstPath
          if (← getEntry dd).isNone then
            let pm ← match dirMode with
              | some x => M.pure x
              | none => do
                let sd ← dirOf srcE.path
                match (← getEntry sd) with
                | some x => M.pure x.mode
                | none => fail .doesNotExist
            mkdirM dd (some pm)
          let dstE := ({ srcE with path := dstPath }).setMode (fileMode.getD srcE.mode)
          let _ ← add dstE
          if !srcE.link then
            -- `_clone_file(src.path())` then `insert_file`
            if (← getFile dstPath).isNone then fail .isNotFile
            if !srcE.file then fail .isNotFile
            match (← getFile srcE.path) with
            | some b => setFile dstPath b
            | none => fail .doesNotExist

/-- `copyM` with its closure named -/
def copyM' (env : Env) (src dst : Str) (c : CopyOpts) : M Unit := do
  let srcRoot ← absM env src
  let dstRoot ← absM env dst
  if srcRoot = dstRoot then return ()
  let dirMode := match c.mode with | some x => if c.cdirs ∨ !c.cfiles then some x else none | none => none
  let fileMode := match c.mode with | some x => if c.cfiles ∨ !c.cdirs then some x else none | none => none
  let s ← get
  let copyInto := isDirP s dstRoot
  let rootE0 ← match alLookup srcRoot s.entries with
    | some e => M.pure e
    | none => fail .doesNotExist
  let rootE := rootE0.doFollow c.follow
  let (travRoot, snap) ← liftO (entriesOf s rootE.path)
  let o : Opts := { follow := c.follow }
  let step : Entry → State → Outcome Unit × State := fun e st =>
    copyBody c.follow copyInto rootE.path dstRoot dirMode fileMode e st
  fun st => runIter snap o noPre travRoot step (travFuel snap) {} st

theorem copyM_eq (env : Env) (src dst : Str) (c : CopyOpts) : copyM env src dst c = copyM' env src dst c := by
  unfold copyM copyM' copyBody
  rfl

theorem pres_symlinkAbs (c : FsPath) (l t : FsPath) : Pres (CwdIs c) (symlinkAbs l t) := by
  unfold Memfs.symlinkAbs
  cwd_tac

theorem Pres_ite {α} {I : State → Prop} {c : Prop} [Decidable c] {a b : M α} (ha : Pres I a) (hb : Pres I b) :
    Pres I (if c then a else b) := by
  split <;> assumption

macro "pc" : tactic => `(tactic| with_reducible first
  | exact pres_mkdirM _ _ _ | exact pres_symlinkAbs _ _ _ | exact pres_add _ _ | exact pres_setFile _ _ _
  | exact Pres.pure _ | exact Pres.pure' _ | exact Pres.fail _ | exact Pres.getEntry _ | exact Pres.getFile _
  | exact Pres.dirOf _
  | (refine Pres.bind ?_ (fun _ => ?_))
  | (refine Pres_ite ?_ ?_))

theorem pres_copyBody (c : FsPath) (follow copyInto : Bool) (rootP dstRoot : FsPath)
    (dirMode fileMode : Option Nat) (e : Entry) :
    Pres (CwdIs c) (copyBody follow copyInto rootP dstRoot dirMode fileMode e) := by
  unfold copyBody
  dsimp only
  repeat (first | pc | split)

theorem pres_copyM (c : FsPath) (env : Env) (a b : Str) (o : CopyOpts) : Pres (CwdIs c) (copyM env a b o) := by
  rw [copyM_eq]
  unfold copyM'
  refine Pres.bind (Pres.absM _ _) fun sr => Pres.bind (Pres.absM _ _) fun dr => ?_
  refine Pres_ite (Pres.pure _) ?_
  refine Pres.bind Pres.get fun st => ?_
  dsimp only
  have leaf : ∀ (m0 : M Entry), Pres (CwdIs c) m0 → ∀ (f : Entry → Str), Pres (CwdIs c) (do
      let rootE0 ← m0
      let __x ← liftO (entriesOf st (rootE0.doFollow o.follow).path)
      fun st_1 =>
        runIter __x.snd { follow := o.follow } noPre __x.fst
          (fun e st_2 =>
            copyBody o.follow (isDirP st dr) (rootE0.doFollow o.follow).path dr
              (match o.mode with
              | some x => if o.cdirs = true ∨ (!o.cfiles) = true then some x else none
              | none => none)
              (match o.mode with
              | some x => if o.cfiles = true ∨ (!o.cdirs) = true then some x else none
              | none => none)
              e st_2)
          (travFuel __x.snd) { } st_1) := by
    intro m0 hm0 _
    refine Pres.bind hm0 fun rootE0 => Pres.bind (Pres.liftO _) fun tr => ?_
    constructor
    intro s0 hs0
    exact Lemmas.InvA.runIter_pres (I := CwdIs c) _ _ _ (fun _ _ h => h) _ _
      (fun e w hw => (pres_copyBody c _ _ _ _ _ _ e).run w hw) _ _ _ hs0
  split
  · exact leaf _ (Pres.pure' _) (fun _ => [])
  · exact leaf _ (Pres.fail _) (fun _ => [])

theorem step_copy_cwd (env : Env) (s : State) (a b : Str) : (step env s (.copy a b)).2.cwd = s.cwd :=
  step_cwd_of _ (fun c => pres_copyM c env a b {}) s

/-! ### copyfile -/

theorem step_copy_spell {src dst : Str} {a b : FsPath} (hk1 : keyOf env s src = some a)
    (hs1 : Stable env s a) (hk2 : keyOf env s dst = some b) (hs2 : Stable env s b) :
    step env s (.copy (renderP a) (renderP b)) = step env s (.copy src dst) := by
  simp only [step, copyM]
  apply Lemmas.mapVal_congr_at
  simp only [M_bind_apply, absM_of_key hk1, absM_of_key hk2, absM_of_key hs1, absM_of_key hs2]

theorem call_ro {op : Op} (h : (step env s op).2 = s) (k : Option Val → State → MR) :
    call env s op k = contOf k (step env s op).1 s := by
  apply call_of
  cases hh : step env s op with
  | mk o s1 => rw [hh] at h; simp only at h; rw [h]

theorem step_read_spell {p : Str} {a : FsPath} (hk : keyOf env s p = some a) (hs : Stable env s a) :
    step env s (.read (renderP a)) = step env s (.read p) := by
  rw [step_read_key hk, step_read_key hs]

/-- the bytes `read` + `read_to_end` return, if `read` opens the file -/
def bytesOf (env : Env) (s : State) (p : Str) : Option Bytes :=
  match (step env s (.read p)).1 with
  | .ok (.bytes x) => some x
  | _ => none

/-- what `assert_vfs_copyfile!` decides once the source is an existing regular file: `copy` is
    performed; it passes iff the copy succeeded and afterwards both paths read back as the same
    BYTES and the destination is a regular file -/
theorem run_copyfile {src dst : Str} {a b : FsPath} (hk1 : keyOf env s src = some a)
    (hs1 : Stable env s a) (hk2 : keyOf env s dst = some b) (hs2 : Stable env s b)
    (hsrc : eAt s a (fun e => e.file && !e.link) = true) :
    (runMacro env s (.copyfile src dst)).2 = (step env s (.copy src dst)).2 ∧
    ((runMacro env s (.copyfile src dst)).1 = .pass ↔
      ((step env s (.copy src dst)).1.isOk = true ∧
       (∃ x, bytesOf env (step env s (.copy src dst)).2 src = some x ∧
             bytesOf env (step env s (.copy src dst)).2 dst = some x) ∧
       eAt (step env s (.copy src dst)).2 b (fun e => e.file && !e.link) = true)) := by
  have hex : eAt s a (fun _ => true) = true := by
    unfold eAt at hsrc ⊢
    cases he : alLookup a s.entries with
    | none => rw [he] at hsrc; simp at hsrc
    | some e => rfl
  have hcwd := step_copy_cwd env s src dst
  cases hr : step env s (.copy src dst) with
  | mk o s' =>
    rw [hr] at hcwd
    simp only at hcwd
    have hk1' : keyOf env s' src = some a := by rw [keyOf_congr hcwd]; exact hk1
    have hk2' : keyOf env s' dst = some b := by rw [keyOf_congr hcwd]; exact hk2
    have hs1' : Stable env s' a := hs1.congr hcwd
    have hs2' : Stable env s' b := hs2.congr hcwd
    simp only [runMacro, absK_eq, hk1, hk2, boolK_exists, boolK_isFile, eTest_stable hs1, hex, hsrc,
      Bool.not_true, Bool.false_eq_true, if_false, call_of ((step_copy_spell hk1 hs1 hk2 hs2).trans hr)]
    cases o with
    | ok v =>
      simp only [contOf, call_ro (step_read_state _), step_read_spell hk1' hs1',
        step_read_spell hk2' hs2', bytesOf, Outcome.isOk, true_and]
      cases h1 : (step env s' (.read src)).1 with
      | ok v1 =>
        cases v1
        case bytes x =>
          simp only [contOf, call_ro (step_read_state _), step_read_spell hk2' hs2']
          cases h2 : (step env s' (.read dst)).1 with
          | ok v2 =>
            cases v2
            case bytes y =>
              by_cases hxy : x = y
              · subst hxy
                simp only [contOf, ne_eq, not_true_eq_false, if_false, boolK_isFile, eTest_stable hs2']
                cases eAt s' b fun e => e.file && !e.link <;> simp [pm]
              · simp only [contOf, ne_eq, hxy, not_false_eq_true, if_true]
                simp [pm]
                intro h; exact absurd h.symm hxy
            all_goals simp [contOf, pm]
          | err k => simp [contOf, pm]
          | panic => simp [contOf]
          | hang => simp [contOf]
        all_goals simp [contOf, pm]
      | err k => simp [contOf, pm]
      | panic => simp [contOf]
      | hang => simp [contOf]
    | err k => simp [contOf, Outcome.isOk, pm]
    | panic => simp [contOf, Outcome.isOk]
    | hang => simp [contOf, Outcome.isOk]

/-! ### the acting macros, together -/

theorem exists_entry_of_pExists {p : Str} {a : FsPath} (hk : keyOf env s p = some a)
    (hex : pExists env s p = true) : ∃ x, alLookup a s.entries = some x := by
  rw [pExists_key hk] at hex
  unfold eAt at hex
  cases hx : alLookup a s.entries with
  | none => rw [hx] at hex; cases hex
  | some x => exact ⟨x, rfl⟩

theorem key_of_pExists {p : Str} (hex : pExists env s p = true) : ∃ a, keyOf env s p = some a := by
  cases hk : keyOf env s p with
  | none => simp [pExists, nodeOf_none hk] at hex
  | some a => exact ⟨a, rfl⟩

/-- `mkfile` onto a key that has an entry changes nothing (whatever it returns) -/
theorem step_mkfile_existing_state {p : Str} {a : FsPath} {x : Entry} (hk : keyOf env s p = some a)
    (hx : alLookup a s.entries = some x) : (step env s (.mkfile p)).2 = s := by
  simp only [step, mkfileM]
  rw [Lemmas.InvA.mapVal_snd]
  simp only [M_bind_apply, absM_of_key hk]
  have hadd := add_existing_state (e := mkFileEntry a) (s := s) hx
  cases h1 : add (mkFileEntry a) s with
  | mk o s1 =>
    rw [h1] at hadd
    simp only at hadd
    subst hadd
    cases o with
    | ok r => simp only [getFile]; split <;> rfl
    | err k => rfl
    | panic => rfl
    | hang => rfl

/-- `symlink` onto a key that has an entry fails and changes nothing -/
theorem step_symlink_existing {l t : Str} {a : FsPath} {x : Entry} (hk : keyOf env s l = some a)
    (hx : alLookup a s.entries = some x) : step env s (.symlink l t) = (.err .existsAlready, s) := by
  simp only [step, symlinkM]
  msimp [absM_of_key hk, hx, Option.isSome]

/-- `assert_vfs_mkfile!`, every pre-state -/
theorem act_mkfile_all {p : Str} (hok : StateOk s) (hst : StableArg env s p)
    (hpost : StateOk (macroSpec env s (.mkfile p)).2) :
    (runMacro env s (.mkfile p)).2 = (macroSpec env s (.mkfile p)).2 ∧
    ((runMacro env s (.mkfile p)).1 = .pass ↔ (macroSpec env s (.mkfile p)).1 = true) := by
  cases hex : pExists env s p with
  | false => exact act_mkfile hst hex hpost
  | true =>
    obtain ⟨h1, h2⟩ := mkfile_present hok hst hex
    cases hf : pIsFile env s p with
    | true =>
      have hn : documentedNoop env s (.mkfile p) = true := hf
      rw [macroSpec_of_noop hn]
      exact ⟨h1, by rw [h2, hf]⟩
    | false =>
      have hn : documentedNoop env s (.mkfile p) = false := hf
      obtain ⟨a, hk⟩ := key_of_pExists hex
      obtain ⟨x, hx⟩ := exists_entry_of_pExists hk hex
      have hstate := step_mkfile_existing_state hk hx
      rw [macroSpec_of_not_noop hn]
      simp only [opOf, hstate, postSpec, hf, Bool.and_false]
      exact ⟨h1, by rw [h2, hf]⟩

/-- `assert_vfs_symlink!`, every pre-state -/
theorem act_symlink_all {l t : Str} (hst : StableArg env s l) :
    (runMacro env s (.symlink l t)).2 = (macroSpec env s (.symlink l t)).2 ∧
    ((runMacro env s (.symlink l t)).1 = .pass ↔ (macroSpec env s (.symlink l t)).1 = true) := by
  cases hex : pExists env s l with
  | false => exact act_symlink hst hex
  | true =>
    obtain ⟨h1, h2⟩ := symlink_present (t := t) hst hex
    cases hf : pIsLink env s l with
    | true =>
      have hn : documentedNoop env s (.symlink l t) = true := hf
      rw [macroSpec_of_noop hn]
      exact ⟨h1, by rw [h2, hf]⟩
    | false =>
      have hn : documentedNoop env s (.symlink l t) = false := hf
      obtain ⟨a, hk⟩ := key_of_pExists hex
      obtain ⟨x, hx⟩ := exists_entry_of_pExists hk hex
      rw [macroSpec_of_not_noop hn]
      simp only [opOf, step_symlink_existing hk hx, Outcome.isOk, Bool.false_and]
      exact ⟨h1, by rw [h2, hf]⟩

/-- `assert_vfs_remove!`, every pre-state -/
theorem act_remove_all {p : Str} (hst : StableArg env s p) :
    (runMacro env s (.remove p)).2 = (macroSpec env s (.remove p)).2 ∧
    ((runMacro env s (.remove p)).1 = .pass ↔ (macroSpec env s (.remove p)).1 = true) := by
  cases hex : pExists env s p with
  | true => exact act_remove hst hex
  | false =>
    cases hr : resolvable env s p with
    | true =>
      have hn : documentedNoop env s (.remove p) = true := by
        show (resolvable env s p && !pExists env s p) = true
        rw [hr, hex]; rfl
      rw [macroSpec_of_noop hn, remove_absent hst hr hex]
      exact ⟨rfl, by simp⟩
    | false =>
      have hn : documentedNoop env s (.remove p) = false := by
        show (resolvable env s p && !pExists env s p) = false
        rw [hr]; rfl
      have hk : keyOf env s p = none := by
        cases hk : keyOf env s p with
        | none => rfl
        | some a => simp [resolvable, hk] at hr
      obtain ⟨kk, hkk⟩ := absM_of_none hk
      have hstep : step env s (.remove p) = (.err kk, s) := by
        simp only [step, removeM]
        msimp [hkk]
      rw [macroSpec_of_not_noop hn]
      simp [runMacro, absK_eq, hk, opOf, hstep, pm, Outcome.isOk]

/-- the post-state keeps "exactly one of dir/file, regular files have bytes, links have targets"
    (needed to read `is_file` off the reference view; part of the C03 / C01 invariants) -/
def PostOk (env : Env) (s : State) : MacroCall → Prop
  | .mkfile p => StateOk (macroSpec env s (.mkfile p)).2
  | .writeAll p d => StateOk (macroSpec env s (.writeAll p d)).2
  | _ => True

instance (env : Env) (s : State) (m : MacroCall) : Decidable (PostOk env s m) := by
  cases m <;> unfold PostOk <;> infer_instance

/-- the acting macros other than `copyfile` -/
def actingSimple : MacroCall → Bool
  | .mkdirP _ | .mkdirM _ _ | .mkfile _ | .writeAll _ _ | .symlink _ _ | .remove _ | .removeAll _ => true
  | _ => false

/-- pass ⇔ specification; and whenever the macro passes the state is the specified one -/
theorem acting_agree (m : MacroCall) (hm : actingSimple m = true) (hok : StateOk s)
    (hst : ArgsStable env s m) (hpost : PostOk env s m) :
    ((runMacro env s m).1 = .pass ↔ (macroSpec env s m).1 = true) ∧
    ((runMacro env s m).1 = .pass → (runMacro env s m).2 = (macroSpec env s m).2) := by
  cases m <;> simp only [actingSimple, Bool.false_eq_true] at hm
  · exact ⟨(act_mkdirP hst).2, fun _ => (act_mkdirP hst).1⟩
  · exact ⟨(act_mkdirM hst).2, fun _ => (act_mkdirM hst).1⟩
  · exact ⟨(act_mkfile_all hok hst hpost).2, fun _ => (act_mkfile_all hok hst hpost).1⟩
  · exact act_writeAll hst hpost
  · exact ⟨(act_symlink_all hst).2, fun _ => (act_symlink_all hst).1⟩
  · exact ⟨(act_remove_all hst).2, fun _ => (act_remove_all hst).1⟩
  · exact ⟨(act_removeAll hst).2, fun _ => (act_removeAll hst).1⟩

/-- where the state agrees even when the macro panics: every case except `write_all` onto an
    existing non-file (which panics before writing) -/
def stateAlways : MacroCall → Bool
  | .mkdirP _ | .mkdirM _ _ | .mkfile _ | .symlink _ _ | .remove _ | .removeAll _ => true
  | _ => false

theorem acting_state (m : MacroCall) (hm : stateAlways m = true) (hok : StateOk s)
    (hst : ArgsStable env s m) (hpost : PostOk env s m) :
    (runMacro env s m).2 = (macroSpec env s m).2 := by
  cases m <;> simp only [stateAlways, Bool.false_eq_true] at hm
  · exact (act_mkdirP hst).1
  · exact (act_mkdirM hst).1
  · exact (act_mkfile_all hok hst hpost).1
  · exact (act_symlink_all hst).1
  · exact (act_remove_all hst).1
  · exact (act_removeAll hst).1

end Rivia.MacroLemmas
