/-
  Rivia.Lemmas.InvA — C03 (tree invariant), group A.

  1. association-list lemmas for `alLookup / alInsert / alErase` (general, reusable)
  2. `InvP` : the Prop-level form of `Rivia.Spec.Inv`, `inv_iff`
  3. `Pres I m` : every exit of `m` from an `I` state is an `I` state; combinators, `pres_tac`;
     all read-only pieces keep ANY predicate
  4. `insertName`, `dropLast` / `baseName` facts
  5. `InvP.congr`, `InvP.congr_entries` (`Entry.Same`), `InvP.replaceEntry`, `InvP.setFile_present`
  6. `InvP.addEntry`, `Pres.add` : `_add` of a childless entry keeps `InvP` at every exit
  7. `StepAInv I Q` : the closure conditions under which the group-A operations keep `I`
  8. `runIter_pres` : traversal with closures that keep `I` keeps `I`; `chmod`, `chown`
  9. `ReadOnlyOp`, `CoveredA`, `step_readonly`, `StepAInv.step`
  10. `inv_step_A` (instance `InvP`)
  11. `KeysWf`, `SortedKids`, `AbsWf`; `keysWf_step_A`, `sortedKids_step_A`; `strLt` order facts,
      `pairwise_insertName`; `add_state_cases`
-/
import Rivia.Spec.MemfsJudge
import Rivia.Lemmas.Clean

namespace Rivia.Lemmas.InvA
open Rivia Rivia.Memfs Rivia.Spec Rivia.Memfs.M

/-! ## 1. association lists -/

section AL
variable {β : Type}

/-- the keys of an association list, in order -/
abbrev alKeys (l : List (FsPath × β)) : List FsPath := l.map (·.1)

@[simp] theorem alLookup_nil (k : FsPath) : alLookup k ([] : List (FsPath × β)) = none := rfl

theorem alLookup_cons (k k' : FsPath) (v : β) (l : List (FsPath × β)) :
    alLookup k ((k', v) :: l) = if k' = k then some v else alLookup k l := rfl

/-- lookup is `some` exactly on the keys -/
theorem alLookup_isSome_iff (k : FsPath) (l : List (FsPath × β)) :
    (alLookup k l).isSome ↔ k ∈ alKeys l := by
  induction l with
  | nil => simp [alLookup]
  | cons kv r ih =>
    obtain ⟨k', v⟩ := kv
    simp only [alLookup, alKeys, List.map_cons, List.mem_cons]
    by_cases h : k' = k
    · simp [h]
    · simp only [h, if_false]
      rw [ih]
      constructor
      · exact Or.inr
      · rintro (h' | h')
        · exact absurd h'.symm h
        · exact h'

theorem alLookup_eq_none_iff (k : FsPath) (l : List (FsPath × β)) :
    alLookup k l = none ↔ k ∉ alKeys l := by
  rw [← alLookup_isSome_iff]
  cases alLookup k l <;> simp

theorem alLookup_isNone_iff (k : FsPath) (l : List (FsPath × β)) :
    (alLookup k l).isNone ↔ k ∉ alKeys l := by
  rw [← alLookup_isSome_iff]
  cases alLookup k l <;> simp

theorem mem_alKeys_of_alLookup {k : FsPath} {v : β} {l : List (FsPath × β)}
    (h : alLookup k l = some v) : k ∈ alKeys l := by
  rw [← alLookup_isSome_iff, h]; rfl

/-- what lookup finds is a member -/
theorem mem_of_alLookup {k : FsPath} {v : β} {l : List (FsPath × β)}
    (h : alLookup k l = some v) : (k, v) ∈ l := by
  induction l with
  | nil => simp [alLookup] at h
  | cons kv r ih =>
    obtain ⟨k', v'⟩ := kv
    simp only [alLookup] at h
    by_cases hk : k' = k
    · simp only [hk, if_true, Option.some.injEq] at h
      subst hk; subst h; exact List.mem_cons_self
    · simp only [hk, if_false] at h
      exact List.mem_cons_of_mem _ (ih h)

/-- with distinct keys every member is what lookup finds -/
theorem alLookup_of_mem {k : FsPath} {v : β} {l : List (FsPath × β)}
    (hn : (alKeys l).Nodup) (h : (k, v) ∈ l) : alLookup k l = some v := by
  induction l with
  | nil => simp at h
  | cons kv r ih =>
    obtain ⟨k', v'⟩ := kv
    simp only [alKeys, List.map_cons, List.nodup_cons] at hn
    simp only [List.mem_cons, Prod.mk.injEq] at h
    simp only [alLookup]
    rcases h with ⟨h1, h2⟩ | h
    · simp [h1, h2]
    · have : k' ≠ k := by
        intro e; subst e
        exact hn.1 (List.mem_map.mpr ⟨(k', v), h, rfl⟩)
      simp only [this, if_false]
      exact ih hn.2 h

theorem alLookup_eq_some_iff_mem {k : FsPath} {v : β} {l : List (FsPath × β)}
    (hn : (alKeys l).Nodup) : alLookup k l = some v ↔ (k, v) ∈ l :=
  ⟨mem_of_alLookup, alLookup_of_mem hn⟩

/-- lookup after insert -/
theorem alLookup_alInsert (k k' : FsPath) (v : β) (l : List (FsPath × β)) :
    alLookup k' (alInsert k v l) = if k' = k then some v else alLookup k' l := by
  induction l with
  | nil =>
    simp only [alInsert, alLookup]
    by_cases h : k' = k
    · simp [h]
    · have : ¬ k = k' := fun e => h e.symm
      simp [h, this]
  | cons kv r ih =>
    obtain ⟨k0, v0⟩ := kv
    simp only [alInsert]
    by_cases h0 : k0 = k
    · subst h0
      simp only [if_true, alLookup]
      by_cases h : k' = k0
      · subst h; simp
      · have : ¬ k0 = k' := fun e => h e.symm
        simp [h, this]
    · simp only [h0, if_false, alLookup, ih]
      by_cases h : k0 = k'
      · subst h; simp [h0]
      · simp [h]

@[simp] theorem alLookup_alInsert_self (k : FsPath) (v : β) (l : List (FsPath × β)) :
    alLookup k (alInsert k v l) = some v := by
  rw [alLookup_alInsert]; simp

theorem alLookup_alInsert_ne {k k' : FsPath} (h : k' ≠ k) (v : β) (l : List (FsPath × β)) :
    alLookup k' (alInsert k v l) = alLookup k' l := by
  rw [alLookup_alInsert]; simp [h]

/-- inserting at a present key keeps the key list -/
theorem alKeys_alInsert_of_mem {k : FsPath} (v : β) {l : List (FsPath × β)} (h : k ∈ alKeys l) :
    alKeys (alInsert k v l) = alKeys l := by
  induction l with
  | nil => simp at h
  | cons kv r ih =>
    obtain ⟨k0, v0⟩ := kv
    simp only [alInsert]
    by_cases h0 : k0 = k
    · simp [h0]
    · simp only [h0, if_false, alKeys, List.map_cons, List.cons.injEq, true_and]
      simp only [alKeys, List.map_cons, List.mem_cons] at h
      rcases h with h | h
      · exact absurd h.symm h0
      · exact ih h

/-- inserting at an absent key appends it -/
theorem alKeys_alInsert_of_not_mem {k : FsPath} (v : β) {l : List (FsPath × β)} (h : k ∉ alKeys l) :
    alKeys (alInsert k v l) = alKeys l ++ [k] := by
  induction l with
  | nil => simp [alInsert]
  | cons kv r ih =>
    obtain ⟨k0, v0⟩ := kv
    simp only [alKeys, List.map_cons, List.mem_cons, not_or] at h
    have h0 : ¬ k0 = k := fun e => h.1 e.symm
    simp only [alInsert, h0, if_false, alKeys, List.map_cons, List.cons_append, List.cons.injEq, true_and]
    exact ih h.2

theorem mem_alKeys_alInsert (k k' : FsPath) (v : β) (l : List (FsPath × β)) :
    k' ∈ alKeys (alInsert k v l) ↔ k' = k ∨ k' ∈ alKeys l := by
  rw [← alLookup_isSome_iff, ← alLookup_isSome_iff, alLookup_alInsert]
  by_cases h : k' = k <;> simp [h]

theorem nodup_alKeys_alInsert (k : FsPath) (v : β) {l : List (FsPath × β)} (h : (alKeys l).Nodup) :
    (alKeys (alInsert k v l)).Nodup := by
  by_cases hk : k ∈ alKeys l
  · rw [alKeys_alInsert_of_mem v hk]; exact h
  · rw [alKeys_alInsert_of_not_mem v hk]
    rw [List.nodup_append]
    refine ⟨h, by simp, ?_⟩
    intro a ha b hb
    simp only [List.mem_singleton] at hb
    subst hb
    intro e; subst e; exact hk ha

theorem alInsert_length_of_mem {k : FsPath} (v : β) {l : List (FsPath × β)} (h : k ∈ alKeys l) :
    (alInsert k v l).length = l.length := by
  have := congrArg List.length (alKeys_alInsert_of_mem v h)
  simpa [alKeys] using this

/-- erase removes the first occurrence of the key from the key list -/
theorem alKeys_alErase (k : FsPath) (l : List (FsPath × β)) :
    alKeys (alErase k l) = (alKeys l).erase k := by
  induction l with
  | nil => rfl
  | cons kv r ih =>
    obtain ⟨k0, v0⟩ := kv
    simp only [alErase, alKeys, List.map_cons]
    by_cases h0 : k0 = k
    · subst h0; simp
    · have : (k0 == k) = false := by simpa using h0
      simp only [h0, if_false, List.map_cons, List.erase_cons, this]
      exact congrArg _ ih

theorem nodup_alKeys_alErase (k : FsPath) {l : List (FsPath × β)} (h : (alKeys l).Nodup) :
    (alKeys (alErase k l)).Nodup := by
  rw [alKeys_alErase]; exact h.erase k

theorem alLookup_alErase_ne {k k' : FsPath} (h : k' ≠ k) (l : List (FsPath × β)) :
    alLookup k' (alErase k l) = alLookup k' l := by
  induction l with
  | nil => rfl
  | cons kv r ih =>
    obtain ⟨k0, v0⟩ := kv
    simp only [alErase]
    by_cases h0 : k0 = k
    · subst h0
      have : ¬ k0 = k' := fun e => h e.symm
      simp [alLookup, this]
    · simp only [h0, if_false, alLookup, ih]

theorem alLookup_alErase_self (k : FsPath) {l : List (FsPath × β)} (hn : (alKeys l).Nodup) :
    alLookup k (alErase k l) = none := by
  rw [alLookup_eq_none_iff, alKeys_alErase]
  exact fun h => (List.Nodup.mem_erase_iff hn).mp h |>.1 rfl

/-- lookup after erase (needs distinct keys: `alErase` removes only the first occurrence) -/
theorem alLookup_alErase (k k' : FsPath) {l : List (FsPath × β)} (hn : (alKeys l).Nodup) :
    alLookup k' (alErase k l) = if k' = k then none else alLookup k' l := by
  by_cases h : k' = k
  · subst h; simp [alLookup_alErase_self _ hn]
  · simp [h, alLookup_alErase_ne h]

theorem mem_alKeys_alErase (k k' : FsPath) {l : List (FsPath × β)} (hn : (alKeys l).Nodup) :
    k' ∈ alKeys (alErase k l) ↔ k' ≠ k ∧ k' ∈ alKeys l := by
  rw [alKeys_alErase]; exact List.Nodup.mem_erase_iff hn

theorem alErase_of_not_mem {k : FsPath} {l : List (FsPath × β)} (h : k ∉ alKeys l) :
    alErase k l = l := by
  induction l with
  | nil => rfl
  | cons kv r ih =>
    obtain ⟨k0, v0⟩ := kv
    simp only [alKeys, List.map_cons, List.mem_cons, not_or] at h
    have h0 : ¬ k0 = k := fun e => h.1 e.symm
    simp only [alErase, h0, if_false, List.cons.injEq, true_and]
    exact ih h.2

theorem alErase_length_of_mem {k : FsPath} {l : List (FsPath × β)} (h : k ∈ alKeys l) :
    (alErase k l).length + 1 = l.length := by
  have h1 := congrArg List.length (alKeys_alErase k l)
  simp only [alKeys, List.length_map] at h1
  rw [h1, List.length_erase_of_mem h]
  have : 0 < (List.map (fun x : FsPath × β => x.1) l).length := List.length_pos_of_mem h
  simp only [List.length_map] at this ⊢
  omega

/-- two association lists with distinct keys and the same lookups have the same members -/
theorem mem_iff_of_alLookup_eq {l l' : List (FsPath × β)} (hn : (alKeys l).Nodup)
    (hn' : (alKeys l').Nodup) (h : ∀ k, alLookup k l = alLookup k l') (kv : FsPath × β) :
    kv ∈ l ↔ kv ∈ l' := by
  obtain ⟨k, v⟩ := kv
  rw [← alLookup_eq_some_iff_mem hn, ← alLookup_eq_some_iff_mem hn', h]

end AL

/-! ## 2. the invariant as a proposition -/

/-- Prop-level form of the C03 invariant (`Rivia.Spec.Inv`) -/
structure InvP (s : State) : Prop where
  /-- entry keys are distinct -/
  keysNodup : (alKeys s.entries).Nodup
  /-- the root exists and is a real directory -/
  rootOk : ∃ e, alLookup [] s.entries = some e ∧ e.dir = true ∧ e.link = false
  /-- the root is `/` -/
  rootNil : s.root = []
  /-- every non-root key has a parent that is a real directory and lists it -/
  parent : ∀ k e, alLookup k s.entries = some e → k ≠ [] →
    ∃ pe fs, alLookup k.dropLast s.entries = some pe ∧ pe.dir = true ∧ pe.link = false ∧
      pe.files = some fs ∧ baseName k ∈ fs
  /-- every listed child exists -/
  child : ∀ k e fs n, alLookup k s.entries = some e → e.files = some fs → n ∈ fs →
    (alLookup (k ++ [n]) s.entries).isSome = true
  /-- exactly the regular non-link files have data -/
  data : ∀ k e, alLookup k s.entries = some e →
    ((e.file = true ∧ e.link = false) ↔ (alLookup k s.files).isSome = true)
  /-- every data key has an entry -/
  dataKey : ∀ k, (alLookup k s.files).isSome = true → (alLookup k s.entries).isSome = true
  /-- data keys are distinct -/
  dataNodup : (alKeys s.files).Nodup
  /-- every entry reports the key it is stored under -/
  pathField : ∀ k e, alLookup k s.entries = some e → e.path = k
  /-- child set iff dir flag -/
  filesDir : ∀ k e, alLookup k s.entries = some e → (e.files.isSome = true ↔ e.dir = true)
  /-- child names are distinct -/
  childNodup : ∀ k e fs, alLookup k s.entries = some e → e.files = some fs → fs.Nodup

theorem inv_imp (s : State) (h : Spec.Inv s) : InvP s := by
  unfold Spec.Inv invViolation at h
  simp only [] at h
  split at h
  · simp at h
  rename_i h1
  split at h
  · simp at h
  rename_i h2
  split at h
  · simp at h
  rename_i h3
  split at h
  · simp at h
  rename_i h4
  split at h
  · simp at h
  rename_i h5
  split at h
  · simp at h
  rename_i h6
  split at h
  · simp at h
  rename_i h7
  split at h
  · simp at h
  rename_i h8
  split at h
  · simp at h
  rename_i h9
  split at h
  · simp at h
  rename_i h10
  split at h
  · simp at h
  rename_i h11
  clear h
  have h1' : (alKeys s.entries).Nodup := by simpa using h1
  have h8' : (alKeys s.files).Nodup := by simpa using h8
  have h3' : s.root = [] := by simpa using h3
  rw [List.find?_eq_none] at h4 h5 h6 h7 h9 h10 h11
  have L : ∀ {k e}, alLookup k s.entries = some e → (k, e) ∈ s.entries := mem_of_alLookup
  refine ⟨h1', ?_, h3', ?_, ?_, ?_, ?_, h8', ?_, ?_, ?_⟩
  · cases hr : alLookup [] s.entries with
    | none => simp [hr] at h2
    | some e =>
      simp only [hr, Option.map_some] at h2
      have : (e.dir && !e.link) = true := by simpa using h2
      simp only [Bool.and_eq_true, Bool.not_eq_true'] at this
      exact ⟨e, rfl, this.1, this.2⟩
  · intro k e hk hne
    have := h4 _ (L hk)
    cases hpe : alLookup k.dropLast s.entries with
    | none => simp [hpe, hne] at this
    | some pe =>
      cases hfs : pe.files with
      | none => simp [hpe, hne, hfs] at this
      | some fs =>
        simp only [hpe, hfs] at this
        have : pe.dir = true ∧ pe.link = false ∧ baseName k ∈ fs := by
          have := by simpa using this
          have := this hne
          exact ⟨this.1.1, this.1.2, this.2⟩
        exact ⟨pe, fs, rfl, this.1, this.2.1, hfs, this.2.2⟩
  · intro k e fs n hk hfs hn
    have := h5 _ (L hk)
    simp only [hfs, List.any_eq_true, not_exists, not_and] at this
    have := this n hn
    cases hh : alLookup (k ++ [n]) s.entries <;> simp [hh] at this ⊢
  · intro k e hk
    have := h6 _ (L hk)
    simp only [bne_iff_ne, ne_eq, Decidable.not_not] at this
    rw [← this]
    simp
  · intro k hk
    rw [alLookup_isSome_iff] at hk
    obtain ⟨⟨k', b⟩, hm, rfl⟩ := List.mem_map.mp hk
    have := h7 _ hm
    cases hh : alLookup k' s.entries <;> simp [hh] at this ⊢
  · intro k e hk
    have := h9 _ (L hk)
    simpa using this
  · intro k e hk
    have := h10 _ (L hk)
    simp only [bne_iff_ne, ne_eq, Decidable.not_not] at this
    rw [this]
  · intro k e fs hk hfs
    have := h11 _ (L hk)
    simpa [hfs] using this

theorem imp_inv (s : State) (h : InvP s) : Spec.Inv s := by
  obtain ⟨h1, ⟨re, hr, hrd, hrl⟩, h3, h4, h5, h6, h7, h8, h9, h10, h11⟩ := h
  have L : ∀ {kv : FsPath × Entry}, kv ∈ s.entries → alLookup kv.1 s.entries = some kv.2 :=
    fun {kv} hm => alLookup_of_mem h1 hm
  have h1' : (List.map (fun x : FsPath × Entry => x.1) s.entries).Nodup := h1
  have h8' : (List.map (fun x : FsPath × File.Bytes => x.1) s.files).Nodup := h8
  unfold Spec.Inv invViolation
  simp only []
  rw [if_neg (by simp [h1']), if_neg (by simp [hr, hrd, hrl]), if_neg (by simp [h3])]
  split
  · rename_i kv hk
    exfalso
    have hp := List.find?_some hk
    have hm := L (List.mem_of_find?_eq_some hk)
    by_cases hne : kv.1 = []
    · simp [hne] at hp
    · obtain ⟨pe, fs, hpe, hd, hl, hfs, hb⟩ := h4 _ _ hm hne
      simp [hne, hpe, hd, hl, hfs, hb] at hp
  split
  · rename_i kv hk
    exfalso
    have hp := List.find?_some hk
    have hm := L (List.mem_of_find?_eq_some hk)
    split at hp
    · rename_i fs hfs
      simp only [List.any_eq_true] at hp
      obtain ⟨n, hn, hnone⟩ := hp
      have := h5 _ _ _ n hm hfs hn
      cases hh : alLookup (kv.1 ++ [n]) s.entries <;> simp [hh] at this hnone
    · simp at hp
  split
  · rename_i kv hk
    exfalso
    have hp := List.find?_some hk
    have hm := L (List.mem_of_find?_eq_some hk)
    have := h6 _ _ hm
    simp only [bne_iff_ne, ne_eq] at hp
    apply hp
    rw [Bool.eq_iff_iff, ← this]
    simp
  split
  · rename_i kv hk
    exfalso
    have hp := List.find?_some hk
    have hm := List.mem_of_find?_eq_some hk
    have : (alLookup kv.1 s.files).isSome = true := by
      rw [alLookup_isSome_iff]; exact List.mem_map.mpr ⟨kv, hm, rfl⟩
    have := h7 _ this
    cases hh : alLookup kv.1 s.entries <;> simp [hh] at this hp
  rw [if_neg (by simp [h8'])]
  split
  · rename_i kv hk
    exfalso
    have hp := List.find?_some hk
    have hm := L (List.mem_of_find?_eq_some hk)
    simp [h9 _ _ hm] at hp
  split
  · rename_i kv hk
    exfalso
    have hp := List.find?_some hk
    have hm := L (List.mem_of_find?_eq_some hk)
    have := h10 _ _ hm
    simp only [bne_iff_ne, ne_eq] at hp
    apply hp
    rw [Bool.eq_iff_iff]; exact this
  split
  · rename_i kv hk
    exfalso
    have hp := List.find?_some hk
    have hm := L (List.mem_of_find?_eq_some hk)
    split at hp
    · rename_i fs hfs
      simp [h11 _ _ _ hm hfs] at hp
    · simp at hp
  rfl

/-- the decidable invariant of the judge is the Prop-level invariant -/
theorem inv_iff (s : State) : Spec.Inv s ↔ InvP s := ⟨inv_imp s, imp_inv s⟩

/-! ## 3. preservation combinators for the monad `M` -/

/-- every exit of `m` (ok, error, panic or hang) from an `I` state is an `I` state -/
structure Pres {α} (I : State → Prop) (m : M α) : Prop where
  run : ∀ s, I s → I (m s).2

theorem Pres.bind {α β} {I : State → Prop} {m : M α} {f : α → M β}
    (hm : Pres I m) (hf : ∀ a, Pres I (f a)) : Pres I (m >>= f) := by
  constructor
  intro s hs
  show I (M.bind m f s).2
  unfold M.bind
  have := hm.run s hs
  split
  · rename_i a s' heq
    rw [heq] at this
    exact (hf a).run s' this
  all_goals (rename_i heq; rw [heq] at this; exact this)

theorem Pres.pure {α} {I : State → Prop} (a : α) : Pres I (Pure.pure a : M α) := ⟨fun _ h => h⟩
theorem Pres.pure' {α} {I : State → Prop} (a : α) : Pres I (M.pure a : M α) := ⟨fun _ h => h⟩
theorem Pres.fail {α} {I : State → Prop} (k : ErrKind) : Pres I (M.fail k : M α) := ⟨fun _ h => h⟩
theorem Pres.hang {α} {I : State → Prop} : Pres I (M.hang : M α) := ⟨fun _ h => h⟩
theorem Pres.get {I : State → Prop} : Pres I M.get := ⟨fun _ h => h⟩
theorem Pres.liftO {α} {I : State → Prop} (o : Outcome α) : Pres I (M.liftO o) := ⟨fun _ h => h⟩
theorem Pres.const {α} {I : State → Prop} (o : Outcome α) : Pres I (fun st => (o, st)) := ⟨fun _ h => h⟩
theorem Pres.getEntry {I : State → Prop} (p : FsPath) : Pres I (getEntry p) := ⟨fun _ h => h⟩
theorem Pres.getFile {I : State → Prop} (p : FsPath) : Pres I (getFile p) := ⟨fun _ h => h⟩
theorem Pres.dirOf {I : State → Prop} (p : FsPath) : Pres I (Memfs.dirOf p) := by
  unfold Memfs.dirOf; split
  · exact Pres.fail _
  · exact Pres.pure' _
theorem Pres.absM {I : State → Prop} (env : Env) (p : Str) : Pres I (absM env p) := by
  constructor
  intro s h; unfold Memfs.absM; split <;> exact h

theorem Pres.mapVal {α} {I : State → Prop} {m : M α} (f : α → Val) (h : Pres I m) : Pres I (mapVal f m) := by
  constructor
  intro s hs
  have := h.run s hs
  unfold Memfs.mapVal
  split <;> (rename_i heq; rw [heq] at this; exact this)

/-- a modification that keeps the invariant -/
theorem Pres.modify {I : State → Prop} (f : State → State) (h : ∀ s, I s → I (f s)) : Pres I (M.modify f) :=
  ⟨fun s hs => h s hs⟩

/-- one step of the structural preservation proof -/
macro "pres_step" : tactic => `(tactic| first
  | exact Pres.pure _ | exact Pres.pure' _ | exact Pres.fail _ | exact Pres.hang | exact Pres.get
  | exact Pres.liftO _ | exact Pres.getEntry _ | exact Pres.getFile _ | exact Pres.dirOf _
  | exact Pres.absM _ _ | exact Pres.const _ | assumption
  | apply Pres.bind | intro _ | split | dsimp only)

macro "pres_tac" : tactic => `(tactic| repeat pres_step)

theorem Pres.cloneFileM {I : State → Prop} (env : Env) (p : Str) : Pres I (cloneFileM env p) := by
  unfold Memfs.cloneFileM
  pres_tac

theorem Pres.readAllM {I : State → Prop} (env : Env) (p : Str) : Pres I (readAllM env p) := by
  unfold Memfs.readAllM
  apply Pres.bind (Pres.cloneFileM _ _)
  pres_tac

theorem Pres.readLinesM {I : State → Prop} (env : Env) (p : Str) : Pres I (readLinesM env p) := by
  unfold Memfs.readLinesM
  apply Pres.bind (Pres.cloneFileM _ _)
  pres_tac

theorem Pres.entryQuery {α} {I : State → Prop} (env : Env) (p : Str) (f : Entry → α) :
    Pres I (entryQuery env p f) := by
  unfold Memfs.entryQuery
  pres_tac

theorem Pres.boolQuery {I : State → Prop} (env : Env) (p : Str) (f : Entry → Bool) :
    Pres I (boolQuery env p f) := by
  constructor
  intro s h; unfold Memfs.boolQuery; split <;> exact h

theorem Pres.listing {I : State → Prop} (env : Env) (p : Str) (d : Option Nat) (a b : Bool) :
    Pres I (listing env p d a b) := by
  unfold Memfs.listing
  pres_tac

theorem Pres.travM {I : State → Prop} (env : Env) (p : Str) (r : TravReq) :
    Pres I (travM env p r) := by
  unfold Memfs.travM
  pres_tac

/-! ## 4. names, keys -/

theorem mem_insertName (n x : Str) (l : List Str) :
    x ∈ (insertName n l).2 ↔ x = n ∨ x ∈ l := by
  induction l with
  | nil => simp [insertName]
  | cons y ys ih =>
    simp only [insertName]
    split
    · rename_i h; subst h; simp
    · split
      · simp
      · simp only [List.mem_cons, ih]
        constructor
        · rintro (h | h | h) <;> simp [h]
        · rintro (h | h | h) <;> simp [h]

theorem insertName_fst_false {n : Str} {l : List Str} (h : (insertName n l).1 = false) : n ∈ l := by
  induction l with
  | nil => simp [insertName] at h
  | cons y ys ih =>
    simp only [insertName] at h
    split at h
    · rename_i h'; simp [h']
    · split at h
      · simp at h
      · exact List.mem_cons_of_mem _ (ih h)

theorem insertName_nodup {n : Str} {l : List Str} (hn : n ∉ l) (h : l.Nodup) :
    (insertName n l).2.Nodup := by
  induction l with
  | nil => simp [insertName]
  | cons y ys ih =>
    simp only [List.mem_cons, not_or] at hn
    simp only [insertName]
    split
    · exact h
    · split
      · exact List.nodup_cons.mpr ⟨by simp [hn.1, hn.2], h⟩
      · simp only [List.nodup_cons] at h ⊢
        refine ⟨?_, ih hn.2 h.2⟩
        rw [mem_insertName]
        rintro (h' | h')
        · exact hn.1 h'.symm
        · exact h.1 h'

theorem dropLast_append_baseName {p : FsPath} (h : p ≠ []) : p.dropLast ++ [baseName p] = p := by
  have := List.dropLast_concat_getLast h
  unfold baseName
  rw [List.getLast?_eq_some_getLast h]
  exact this

theorem dropLast_ne_self {p : FsPath} (h : p ≠ []) : p.dropLast ≠ p := by
  intro e
  have := congrArg List.length e
  simp only [List.length_dropLast] at this
  have : 0 < p.length := List.length_pos_iff.mpr h
  omega

theorem dropLast_dropLast_ne_self {p : FsPath} (h : p ≠ []) : p.dropLast.dropLast ≠ p := by
  intro e
  have := congrArg List.length e
  simp only [List.length_dropLast] at this
  have : 0 < p.length := List.length_pos_iff.mpr h
  omega

theorem dropLast_concat' (k : FsPath) (n : Str) : (k ++ [n]).dropLast = k := by simp

theorem baseName_concat (k : FsPath) (n : Str) : baseName (k ++ [n]) = n := by
  simp [baseName]

/-! ## 5. state changes that keep the invariant -/

/-- the invariant only reads `entries`, the key set of `files`, and `root` -/
theorem InvP.congr {s s' : State} (h : InvP s) (he : s'.entries = s.entries)
    (hf : alKeys s'.files = alKeys s.files) (hr : s'.root = s.root) : InvP s' := by
  have hl : ∀ k, (alLookup k s'.files).isSome = (alLookup k s.files).isSome := by
    intro k
    rw [Bool.eq_iff_iff, alLookup_isSome_iff, alLookup_isSome_iff, hf]
  obtain ⟨h1, h2, h3, h4, h5, h6, h7, h8, h9, h10, h11⟩ := h
  refine ⟨?_, ?_, ?_, ?_, ?_, ?_, ?_, ?_, ?_, ?_, ?_⟩
  · rw [he]; exact h1
  · rw [he]; exact h2
  · rw [hr]; exact h3
  · rw [he]; exact h4
  · rw [he]; exact h5
  · rw [he]; intro k e hk; rw [hl]; exact h6 k e hk
  · rw [he]; intro k hk; rw [hl] at hk; exact h7 k hk
  · rw [hf]; exact h8
  · rw [he]; exact h9
  · rw [he]; exact h10
  · rw [he]; exact h11

/-- overwriting the bytes of a key that already has bytes -/
theorem InvP.setFile_present {s : State} (h : InvP s) {p : FsPath} (b : File.Bytes)
    (hp : (alLookup p s.files).isSome = true) :
    InvP { s with files := alInsert p b s.files } :=
  h.congr rfl (alKeys_alInsert_of_mem b ((alLookup_isSome_iff _ _).mp hp)) rfl

/-- the fields of an entry the invariant reads -/
structure Entry.Same (e e' : Entry) : Prop where
  path : e'.path = e.path
  dir : e'.dir = e.dir
  file : e'.file = e.file
  link : e'.link = e.link
  files : e'.files = e.files

theorem Entry.Same.rfl' (e : Entry) : Entry.Same e e := ⟨rfl, rfl, rfl, rfl, rfl⟩
theorem Entry.Same.symm {e e' : Entry} (h : Entry.Same e e') : Entry.Same e' e :=
  ⟨h.path.symm, h.dir.symm, h.file.symm, h.link.symm, h.files.symm⟩

theorem Entry.same_setMode (e : Entry) (m : Nat) : Entry.Same e (e.setMode m) := ⟨rfl, rfl, rfl, rfl, rfl⟩
theorem Entry.same_setOwner (e : Entry) (u g : Option Nat) : Entry.Same e (e.setOwner u g) :=
  ⟨rfl, rfl, rfl, rfl, rfl⟩

/-- the invariant reads the entry map only through keys and the `Same` fields -/
theorem InvP.congr_entries {s s' : State} (h : InvP s)
    (hkeys : (alKeys s'.entries).Nodup)
    (hfw : ∀ k e, alLookup k s.entries = some e → ∃ e', alLookup k s'.entries = some e' ∧ Entry.Same e e')
    (hbw : ∀ k e', alLookup k s'.entries = some e' → ∃ e, alLookup k s.entries = some e ∧ Entry.Same e e')
    (hf : s'.files = s.files) (hr : s'.root = s.root) : InvP s' := by
  obtain ⟨h1, h2, h3, h4, h5, h6, h7, h8, h9, h10, h11⟩ := h
  refine ⟨hkeys, ?_, hr.trans h3, ?_, ?_, ?_, ?_, hf ▸ h8, ?_, ?_, ?_⟩
  · obtain ⟨e, he, hd, hl⟩ := h2
    obtain ⟨e', he', hs⟩ := hfw _ _ he
    exact ⟨e', he', hs.dir.trans hd, hs.link.trans hl⟩
  · intro k e' hk hne
    obtain ⟨e, he, hs⟩ := hbw _ _ hk
    obtain ⟨pe, fs, hpe, hd, hl, hfs, hb⟩ := h4 k e he hne
    obtain ⟨pe', hpe', hs'⟩ := hfw _ _ hpe
    exact ⟨pe', fs, hpe', hs'.dir.trans hd, hs'.link.trans hl, hs'.files.trans hfs, hb⟩
  · intro k e' fs n hk hfs hn
    obtain ⟨e, he, hs⟩ := hbw _ _ hk
    have := h5 k e fs n he (hs.files.symm.trans hfs) hn
    cases hc : alLookup (k ++ [n]) s.entries with
    | none => simp [hc] at this
    | some c =>
      obtain ⟨c', hc', _⟩ := hfw _ _ hc
      simp [hc']
  · intro k e' hk
    obtain ⟨e, he, hs⟩ := hbw _ _ hk
    rw [hf, hs.file, hs.link]
    exact h6 k e he
  · intro k hk
    rw [hf] at hk
    have := h7 k hk
    cases hc : alLookup k s.entries with
    | none => simp [hc] at this
    | some c =>
      obtain ⟨c', hc', _⟩ := hfw _ _ hc
      simp [hc']
  · intro k e' hk
    obtain ⟨e, he, hs⟩ := hbw _ _ hk
    exact hs.path.trans (h9 k e he)
  · intro k e' hk
    obtain ⟨e, he, hs⟩ := hbw _ _ hk
    rw [hs.files, hs.dir]
    exact h10 k e he
  · intro k e' fs hk hfs
    obtain ⟨e, he, hs⟩ := hbw _ _ hk
    exact h11 k e fs he (hs.files.symm.trans hfs)

/-- replacing an entry by one that differs only in fields the invariant does not read -/
theorem InvP.replaceEntry {s : State} (h : InvP s) {k : FsPath} {e e' : Entry}
    (hk : alLookup k s.entries = some e) (hs : Entry.Same e e') :
    InvP { s with entries := alInsert k e' s.entries } := by
  have hmem : k ∈ alKeys s.entries := mem_alKeys_of_alLookup hk
  refine h.congr_entries ?_ ?_ ?_ rfl rfl
  · show (alKeys (alInsert k e' s.entries)).Nodup
    rw [alKeys_alInsert_of_mem e' hmem]; exact h.keysNodup
  · intro k0 e0 hk0
    show ∃ e1, alLookup k0 (alInsert k e' s.entries) = some e1 ∧ _
    rw [alLookup_alInsert]
    by_cases hh : k0 = k
    · subst hh
      rw [hk] at hk0
      cases hk0
      exact ⟨e', by simp, hs⟩
    · exact ⟨e0, by simp [hh, hk0], Entry.Same.rfl' _⟩
  · intro k0 e1 hk0
    have hk0' : alLookup k0 (alInsert k e' s.entries) = some e1 := hk0
    rw [alLookup_alInsert] at hk0'
    by_cases hh : k0 = k
    · subst hh
      simp only [if_true, Option.some.injEq] at hk0'
      subst hk0'
      exact ⟨e, hk, hs⟩
    · simp only [hh, if_false] at hk0'
      exact ⟨e1, hk0', Entry.Same.rfl' _⟩

/-! ## 6. `_add` -/

/-- the state `_add` produces for a new key: data (for a regular file), the entry, the parent
    listing the new name -/
theorem InvP.addEntry {s : State} (h : InvP s) {p : FsPath} {e d : Entry} {fs : List Str}
    {F' : List (FsPath × File.Bytes)}
    (hp : p ≠ []) (habs : alLookup p s.entries = none)
    (hd : alLookup p.dropLast s.entries = some d) (hdd : d.dir = true) (hdl : d.link = false)
    (hdf : d.files = some fs)
    (hep : e.path = p) (hef : e.files = if e.dir then some [] else none)
    (hF : F' = if (!e.link && e.file) = true then alInsert p [] s.files else s.files) :
    InvP { s with files := F',
                  entries := alInsert p.dropLast { d with files := some (insertName (baseName p) fs).2 }
                    (alInsert p e s.entries) } := by
  obtain ⟨h1, h2, h3, h4, h5, h6, h7, h8, h9, h10, h11⟩ := h
  generalize hd' : ({ d with files := some (insertName (baseName p) fs).2 } : Entry) = d'
  have d'dir : d'.dir = true := by subst hd'; exact hdd
  have d'link : d'.link = false := by subst hd'; exact hdl
  have d'file : d'.file = d.file := by subst hd'; rfl
  have d'path : d'.path = d.path := by subst hd'; rfl
  have d'files : d'.files = some (insertName (baseName p) fs).2 := by subst hd'; rfl
  generalize hE : alInsert p.dropLast d' (alInsert p e s.entries) = E'
  have L : ∀ k, alLookup k E' = if k = p.dropLast then some d' else if k = p then some e else alLookup k s.entries := by
    intro k; subst hE; rw [alLookup_alInsert, alLookup_alInsert]
  have hne : p.dropLast ≠ p := dropLast_ne_self hp
  have hnb : baseName p ∉ fs := by
    intro hm
    have := h5 _ d fs _ hd hdf hm
    rw [dropLast_append_baseName hp, habs] at this
    simp at this
  have hmono : ∀ k, (alLookup k s.entries).isSome = true → (alLookup k E').isSome = true := by
    intro k hk; rw [L]; split
    · rfl
    · split
      · rfl
      · exact hk
  have LF : ∀ k, (alLookup k F').isSome = true ↔ ((!e.link && e.file) = true ∧ k = p) ∨ (alLookup k s.files).isSome = true := by
    intro k; subst hF
    split
    · rename_i hc
      rw [alLookup_alInsert]
      by_cases hk : k = p <;> simp [hk, hc]
    · rename_i hc; simp [hc]
  have C : ∀ k e0, alLookup k E' = some e0 →
      (k = p.dropLast ∧ e0 = d') ∨ (k = p ∧ e0 = e) ∨
        (k ≠ p.dropLast ∧ k ≠ p ∧ alLookup k s.entries = some e0) := by
    intro k e0 hk
    rw [L] at hk
    by_cases hk1 : k = p.dropLast
    · simp only [hk1, if_true, Option.some.injEq] at hk
      exact Or.inl ⟨hk1, hk.symm⟩
    · simp only [hk1, if_false] at hk
      by_cases hk2 : k = p
      · simp only [hk2, if_true, Option.some.injEq] at hk
        exact Or.inr (Or.inl ⟨hk2, hk.symm⟩)
      · simp only [hk2, if_false] at hk
        exact Or.inr (Or.inr ⟨hk1, hk2, hk⟩)
  have Ld : alLookup p.dropLast E' = some d' := by rw [L]; simp
  have Lp : alLookup p E' = some e := by rw [L]; simp [hne.symm]
  refine ⟨?_, ?_, h3, ?_, ?_, ?_, ?_, ?_, ?_, ?_, ?_⟩
  · subst hE; exact nodup_alKeys_alInsert _ _ (nodup_alKeys_alInsert _ _ h1)
  · show ∃ e0, alLookup [] E' = some e0 ∧ _
    rw [L]
    by_cases hr : [] = p.dropLast
    · exact ⟨d', by simp [hr], d'dir, d'link⟩
    · have : ¬ [] = p := fun e => hp e.symm
      simp only [hr, this, if_false]; exact h2
  · show ∀ k e0, alLookup k E' = some e0 → k ≠ [] → ∃ pe fs0, alLookup k.dropLast E' = some pe ∧ _
    intro k e0 hk hkne
    rcases C k e0 hk with ⟨hk1, _⟩ | ⟨hk2, _⟩ | ⟨hk1, hk2, hk⟩
    · obtain ⟨pe, fs0, hpe, r⟩ := h4 _ d hd (hk1 ▸ hkne)
      refine ⟨pe, fs0, ?_, hk1 ▸ r⟩
      rw [L, hk1, if_neg (dropLast_ne_self (hk1 ▸ hkne)), if_neg (dropLast_dropLast_ne_self hp)]
      exact hpe
    · subst hk2
      refine ⟨d', _, Ld, d'dir, d'link, d'files, ?_⟩
      rw [mem_insertName]; exact Or.inl rfl
    · obtain ⟨pe, fs0, hpe, hped, hpel, hpef, hb⟩ := h4 _ _ hk hkne
      by_cases hk3 : k.dropLast = p.dropLast
      · rw [hk3, hd] at hpe
        cases hpe
        rw [hdf] at hpef
        cases hpef
        refine ⟨d', _, hk3 ▸ Ld, d'dir, d'link, d'files, ?_⟩
        rw [mem_insertName]; exact Or.inr hb
      · have hk4 : k.dropLast ≠ p := by
          intro e; rw [e, habs] at hpe; cases hpe
        refine ⟨pe, fs0, ?_, hped, hpel, hpef, hb⟩
        rw [L]; simp only [hk3, hk4, if_false]; exact hpe
  · show ∀ k e0 fs0 n, alLookup k E' = some e0 → _ → _ → (alLookup (k ++ [n]) E').isSome = true
    intro k e0 fs0 n hk hfs hn
    rcases C k e0 hk with ⟨hk1, he0⟩ | ⟨hk2, he0⟩ | ⟨hk1, hk2, hk⟩
    · subst he0
      rw [d'files] at hfs
      cases hfs
      rw [mem_insertName] at hn
      rcases hn with hn | hn
      · rw [hk1, hn, dropLast_append_baseName hp, Lp]; rfl
      · exact hmono _ (hk1 ▸ h5 _ d fs n hd hdf hn)
    · subst he0
      rw [hef] at hfs
      split at hfs
      · cases hfs; simp at hn
      · cases hfs
    · exact hmono _ (h5 _ _ _ n hk hfs hn)
  · show ∀ k e0, alLookup k E' = some e0 → ((e0.file = true ∧ e0.link = false) ↔ (alLookup k F').isSome = true)
    intro k e0 hk
    rw [LF]
    rcases C k e0 hk with ⟨hk1, he0⟩ | ⟨hk2, he0⟩ | ⟨hk1, hk2, hk⟩
    · subst he0
      have := h6 _ d hd
      rw [d'file, d'link, hk1, ← this, hdl]
      simp [hne]
    · subst he0
      have hnf : (alLookup k s.files).isSome = false := by
        cases hh : (alLookup k s.files).isSome
        · rfl
        · exfalso; have := h7 _ hh; rw [hk2, habs] at this; simp at this
      rw [hnf]
      cases e0.link <;> cases e0.file <;> simp [hk2]
    · simp only [hk2, and_false, false_or]
      exact h6 _ _ hk
  · show ∀ k, (alLookup k F').isSome = true → (alLookup k E').isSome = true
    intro k hk
    rw [LF] at hk
    rcases hk with ⟨_, hk⟩ | hk
    · rw [hk, Lp]; rfl
    · exact hmono _ (h7 _ hk)
  · show (alKeys F').Nodup
    subst hF; split
    · exact nodup_alKeys_alInsert _ _ h8
    · exact h8
  · show ∀ k e0, alLookup k E' = some e0 → e0.path = k
    intro k e0 hk
    rcases C k e0 hk with ⟨hk1, he0⟩ | ⟨hk2, he0⟩ | ⟨hk1, hk2, hk⟩
    · subst he0; rw [d'path, hk1]; exact h9 _ _ hd
    · subst he0; rw [hep, hk2]
    · exact h9 _ _ hk
  · show ∀ k e0, alLookup k E' = some e0 → (e0.files.isSome = true ↔ e0.dir = true)
    intro k e0 hk
    rcases C k e0 hk with ⟨hk1, he0⟩ | ⟨hk2, he0⟩ | ⟨hk1, hk2, hk⟩
    · subst he0; simp [d'files, d'dir]
    · subst he0; rw [hef]; cases e0.dir <;> simp
    · exact h10 _ _ hk
  · show ∀ k e0 fs0, alLookup k E' = some e0 → e0.files = some fs0 → fs0.Nodup
    intro k e0 fs0 hk hfs
    rcases C k e0 hk with ⟨hk1, he0⟩ | ⟨hk2, he0⟩ | ⟨hk1, hk2, hk⟩
    · subst he0
      rw [d'files] at hfs
      cases hfs
      exact insertName_nodup hnb (h11 _ d fs hd hdf)
    · subst he0
      rw [hef] at hfs
      split at hfs
      · cases hfs; simp
      · cases hfs
    · exact h11 _ _ _ hk hfs

theorem bind_getEntry {β} (p : FsPath) (f : Option Entry → M β) (s : State) :
    M.bind (Memfs.getEntry p) f s = f (alLookup p s.entries) s := rfl
theorem bind_getFile {β} (p : FsPath) (f : Option File.Bytes → M β) (s : State) :
    M.bind (Memfs.getFile p) f s = f (alLookup p s.files) s := rfl
theorem bind_modify {β} (g : State → State) (f : Unit → M β) (s : State) :
    M.bind (M.modify g) f s = f () (g s) := rfl
theorem bind_liftO_ok {α β} (a : α) (f : α → M β) (s : State) :
    M.bind (M.liftO (.ok a)) f s = f a s := rfl
theorem bind_pure {α β} (a : α) (f : α → M β) (s : State) :
    M.bind (M.pure a) f s = f a s := rfl

/-- `_add` keeps the invariant at every exit, for any entry without children -/
theorem Pres.add (e : Entry) (hef : e.files = if e.dir then some [] else none) :
    Pres InvP (Memfs.add e) := by
  constructor
  intro s h
  by_cases hp : e.path = []
  · simp only [Memfs.add, hp, if_true]; exact h
  · simp only [Memfs.add, hp, if_false, Bind.bind]
    rw [bind_getEntry]
    cases hd : alLookup e.path.dropLast s.entries with
    | none => exact h
    | some d =>
      simp only []
      by_cases hc : (!d.dir || d.link) = true
      · rw [if_pos hc]; exact h
      · rw [if_neg hc, bind_getEntry]
        have hne : e.path.dropLast ≠ e.path := dropLast_ne_self hp
        cases hx : alLookup e.path s.entries with
        | some x =>
          simp only []
          split
          · exact h
          · split
            · exact h
            · split <;> exact h
        | none =>
          simp only [Bool.or_eq_true, Bool.not_eq_true', not_or, Bool.not_eq_false, Bool.not_eq_true] at hc
          obtain ⟨hdd, hdl⟩ := hc
          have hdf : ∃ fs, d.files = some fs := by
            have := (h.filesDir _ d hd).mpr hdd
            cases hf : d.files with
            | none => simp [hf] at this
            | some fs => exact ⟨fs, rfl⟩
          obtain ⟨fs, hdf⟩ := hdf
          have hadd : d.addChild (baseName e.path) =
              .ok ((insertName (baseName e.path) fs).1, { d with files := some (insertName (baseName e.path) fs).2 }) := by
            simp [Entry.addChild, hdd, hdf]
          have key := h.addEntry (e := e) hp hx hd hdd hdl hdf rfl hef rfl
          simp only []
          split
          · rename_i hc
            simp only [Memfs.setFile, Memfs.setEntry, bind_modify, bind_getEntry, alLookup_alInsert, hne, if_false, hd, hadd,
              bind_liftO_ok]
            rw [if_pos hc] at key
            split <;> exact key
          · rename_i hc
            simp only [Memfs.setEntry, bind_modify, bind_getEntry, alLookup_alInsert, hne, if_false, hd, hadd,
              bind_liftO_ok]
            rw [if_neg hc] at key
            split <;> exact key


/-! ## 7. group A over an arbitrary invariant

  `StepAInv I Q` collects what an invariant `I` must satisfy for the group-A operations to keep it;
  `Q` is a property of keys known for the result of the *first* `_abs` of the call (the only place
  a group-A operation gets new keys from). The invariant of C03 (`InvP`, `Q := True`) and the two
  auxiliary invariants needed by `move_p` (`KeysWf`, `SortedKids`) are instances. -/

theorem mkFileEntry_files (p : FsPath) :
    (mkFileEntry p).files = if (mkFileEntry p).dir then some [] else none := rfl
theorem mkDirEntry_files (p : FsPath) (m : Option Nat) :
    (mkDirEntry p m).files = if (mkDirEntry p m).dir then some [] else none := rfl

structure StepAInv (I : State → Prop) (Q : FsPath → Prop) : Prop where
  /-- `_add` of a fresh regular-file entry at a good key -/
  addFile : ∀ p, Q p → Pres I (Memfs.add (mkFileEntry p))
  /-- `_mkdir_m` at a good key -/
  mkdir : ∀ p m, Q p → Pres I (Memfs.mkdirM p m)
  /-- `sync` of a handle -/
  sync : ∀ p b, Pres I (Memfs.syncM p b)
  cwd : ∀ p s, Q p → I s → I { s with cwd := p }
  handles : ∀ hs s, I s → I { s with handles := hs }
  setMode : ∀ s k e m, I s → alLookup k s.entries = some e →
    I { s with entries := alInsert k (e.setMode m) s.entries }
  setOwner : ∀ s k e u g, I s → alLookup k s.entries = some e →
    I { s with entries := alInsert k (e.setOwner u g) s.entries }

theorem absM_snd (env : Env) (p : Str) (s : State) : (absM env p s).2 = s := by
  unfold Memfs.absM; split <;> rfl

theorem mapVal_snd {α} (f : α → Val) (m : M α) (s : State) : (mapVal f m s).2 = (m s).2 := by
  unfold Memfs.mapVal; split <;> (rename_i heq; rw [heq])

theorem mapVal_run {α} {I : State → Prop} (f : α → Val) {m : M α} {s : State} (h : I (m s).2) :
    I (mapVal f m s).2 := by rw [mapVal_snd]; exact h

/-- run `m`, then a continuation that keeps `I` -/
theorem Pres.bind_run {α β} {I : State → Prop} {m : M α} {f : α → M β} {s : State}
    (hm : I (m s).2) (hf : ∀ a, Pres I (f a)) : I ((m >>= f) s).2 := by
  show I (M.bind m f s).2
  unfold M.bind
  split
  · rename_i a s' heq; rw [heq] at hm; exact (hf a).run s' hm
  all_goals (rename_i heq; rw [heq] at hm; exact hm)

/-- the first `_abs` of a call: the continuation only has to keep `I` for keys `_abs` can return
    in this state -/
theorem absM_bind_run {β} {I : State → Prop} {Q : FsPath → Prop} {env : Env} {p : Str}
    {f : FsPath → M β} {s : State} (hs : I s)
    (hq : ∀ a s', absM env p s = (.ok a, s') → Q a) (hf : ∀ a, Q a → Pres I (f a)) :
    I ((absM env p >>= f) s).2 := by
  show I (M.bind (absM env p) f s).2
  unfold M.bind
  have h2 := absM_snd env p s
  split
  · rename_i a s' heq
    rw [heq] at h2
    simp only [] at h2
    subst h2
    exact (hf a (hq a _ heq)).run _ hs
  all_goals (rename_i heq; rw [heq] at h2; simp only [] at h2; subst h2; exact hs)

theorem Pres.forM_mem {α} {I : State → Prop} (l : List α) (f : α → M PUnit)
    (h : ∀ a ∈ l, Pres I (f a)) : Pres I (l.forM f) := by
  induction l with
  | nil => exact Pres.pure _
  | cons a as ih =>
    exact Pres.bind (h a List.mem_cons_self) (fun _ => ih (fun b hb => h b (List.mem_cons_of_mem _ hb)))

theorem Pres.forM {α} {I : State → Prop} (l : List α) (f : α → M PUnit) (h : ∀ a, Pres I (f a)) :
    Pres I (l.forM f) := Pres.forM_mem l f (fun a _ => h a)

/-- `let (_, s') := m s; (.ok (), s')`: run and forget the outcome -/
theorem Pres.ignore {α} {I : State → Prop} {m : M α} (h : Pres I m) :
    Pres I (fun s => let (_, s') := m s; ((.ok () : Outcome Unit), s')) :=
  ⟨fun s hs => h.run s hs⟩

namespace StepAInv
variable {I : State → Prop} {Q : FsPath → Prop}

/-- the hypothesis on the first `_abs` of a call in state `s` -/
abbrev AbsQ (Q : FsPath → Prop) (env : Env) (s : State) : Prop :=
  ∀ raw a s', absM env raw s = (.ok a, s') → Q a

theorem mkfileM (h : StepAInv I Q) (env : Env) (p : Str) {s : State} (hs : I s) (hq : AbsQ Q env s) :
    I (Memfs.mkfileM env p s).2 := by
  unfold Memfs.mkfileM
  refine absM_bind_run hs (hq p) (fun a ha => ?_)
  apply Pres.bind (h.addFile a ha); intro r
  pres_tac

theorem mkdirOp (h : StepAInv I Q) (env : Env) (p : Str) (m : Option Nat) {s : State} (hs : I s)
    (hq : AbsQ Q env s) : I (Memfs.mkdirOp env p m s).2 := by
  unfold Memfs.mkdirOp
  refine absM_bind_run hs (hq p) (fun a ha => ?_)
  apply Pres.bind (h.mkdir a m ha); intro r
  pres_tac

theorem writeAllM (h : StepAInv I Q) (env : Env) (p : Str) (d : File.Bytes) {s : State} (hs : I s)
    (hq : AbsQ Q env s) : I (Memfs.writeAllM env p d s).2 := by
  unfold Memfs.writeAllM
  refine absM_bind_run hs (hq p) (fun a ha => ?_)
  apply Pres.bind (h.addFile a ha); intro r
  apply Pres.bind (Pres.getFile _); intro r
  split
  · exact Pres.fail _
  · exact Pres.ignore (h.sync _ _)

theorem appendAllM (h : StepAInv I Q) (env : Env) (p : Str) (d : File.Bytes) {s : State} (hs : I s)
    (hq : AbsQ Q env s) : I (Memfs.appendAllM env p d s).2 := by
  unfold Memfs.appendAllM
  refine absM_bind_run hs (hq p) (fun a ha => ?_)
  apply Pres.bind (h.addFile a ha); intro r
  apply Pres.bind (Pres.getFile _); intro r
  split
  · apply Pres.bind (h.sync _ _); intro _
    exact Pres.ignore (h.sync _ _)
  · exact Pres.fail _

theorem writeLinesM (h : StepAInv I Q) (env : Env) (p : Str) (ls : List Str) {s : State} (hs : I s)
    (hq : AbsQ Q env s) : I (Memfs.writeLinesM env p ls s).2 := by
  unfold Memfs.writeLinesM
  cases joinLines ls with
  | some b => exact h.writeAllM env p _ hs hq
  | none => exact hs

theorem appendLinesM (h : StepAInv I Q) (env : Env) (p : Str) (ls : List Str) {s : State} (hs : I s)
    (hq : AbsQ Q env s) : I (Memfs.appendLinesM env p ls s).2 := by
  unfold Memfs.appendLinesM
  cases joinLines ls with
  | some b => exact h.appendAllM env p _ hs hq
  | none => exact hs

theorem appendLineM (h : StepAInv I Q) (env : Env) (p : Str) (l : Str) {s : State} (hs : I s)
    (hq : AbsQ Q env s) : I (Memfs.appendLineM env p l s).2 := by
  unfold Memfs.appendLineM
  split
  · exact hs
  · exact h.appendAllM env p _ hs hq

theorem setCwdM (h : StepAInv I Q) (env : Env) (p : Str) {s : State} (hs : I s)
    (hq : AbsQ Q env s) : I (Memfs.setCwdM env p s).2 := by
  unfold Memfs.setCwdM
  refine absM_bind_run hs (hq p) (fun a ha => ?_)
  apply Pres.bind (Pres.getEntry _); intro r
  split
  · exact Pres.fail _
  · split
    · exact Pres.fail _
    · apply Pres.bind
      · exact Pres.modify _ (fun s hs => h.cwd a s ha hs)
      · intro _; exact Pres.pure _

theorem openWriteM (h : StepAInv I Q) (env : Env) (p : Str) (id : Nat) {s : State} (hs : I s)
    (hq : AbsQ Q env s) : I (Memfs.openWriteM env p id s).2 := by
  unfold Memfs.openWriteM
  refine absM_bind_run hs (hq p) (fun a ha => ?_)
  apply Pres.bind (h.addFile a ha); intro r
  apply Pres.bind (Pres.getFile _); intro r
  split
  · exact Pres.fail _
  · exact Pres.modify _ (fun s hs => h.handles _ s hs)

theorem openAppendM (h : StepAInv I Q) (env : Env) (p : Str) (id : Nat) {s : State} (hs : I s)
    (hq : AbsQ Q env s) : I (Memfs.openAppendM env p id s).2 := by
  unfold Memfs.openAppendM
  refine absM_bind_run hs (hq p) (fun a ha => ?_)
  apply Pres.bind (h.addFile a ha); intro r
  apply Pres.bind (Pres.getFile _); intro r
  split
  · exact Pres.modify _ (fun s hs => h.handles _ s hs)
  · exact Pres.fail _

theorem handleWriteM (h : StepAInv I Q) (id : Nat) (c : File.Bytes) : Pres I (Memfs.handleWriteM id c) := by
  unfold Memfs.handleWriteM
  exact Pres.modify _ (fun s hs => h.handles _ s hs)

theorem handleFlushM (h : StepAInv I Q) (id : Nat) : Pres I (Memfs.handleFlushM id) := by
  unfold Memfs.handleFlushM
  apply Pres.bind Pres.get; intro s
  split
  · exact h.sync _ _
  · exact Pres.pure' _

theorem handleDropM (h : StepAInv I Q) (id : Nat) : Pres I (Memfs.handleDropM id) := by
  constructor
  intro s hs
  unfold Memfs.handleDropM
  split
  · exact h.handles _ _ ((h.sync _ _).run s hs)
  · exact hs

end StepAInv

/-! ## 8. traversal with mutating closures (`chmod`, `chown`) -/

section Iter
variable {σ : Type} {I : σ → Prop}

theorem process_pres (snap : Snap) (o : Opts) (preOp : Entry → σ → Outcome Unit × σ)
    (hpre : ∀ e w, I w → I (preOp e w).2) (st : ISt) (e : Entry) (w : σ) (hw : I w) :
    I (process snap o preOp st e w).2.2 := by
  have hp := hpre e w hw
  have D : ∀ (d : Option (Outcome Entry) × ISt × σ) (x : Option (Outcome Entry)) (st' : ISt) (w'' : σ),
      I d.2.2 → d = (x, st', w'') → I w'' := by
    intro d x st' w'' hd he; subst he; exact hd
  unfold process
  generalize preOp e w = r at hp
  obtain ⟨r1, w'⟩ := r
  cases r1 <;> simp only [] at hp ⊢
  all_goals
    split
    · rename_i r st' w'' heq
      refine D _ _ _ _ ?_ heq
      repeat' split
      all_goals first | exact hw | exact hp
    · rename_i st' w'' heq
      have : I w'' := by
        refine D _ _ _ _ ?_ heq
        repeat' split
        all_goals first | exact hw | exact hp
      repeat' split
      all_goals exact this

theorem nextLoop_pres (snap : Snap) (o : Opts) (preOp : Entry → σ → Outcome Unit × σ)
    (hpre : ∀ e w, I w → I (preOp e w).2) (f : Nat) (st : ISt) (w : σ) (hw : I w) :
    I (nextLoop snap o preOp f st w).2.2 := by
  induction f generalizing st w with
  | zero => exact hw
  | succ f ih =>
    unfold nextLoop
    split
    · repeat' split
      all_goals exact hw
    · split
      · repeat' split
        all_goals exact hw
      · split
        · rename_i x xs hx
          simp only []
          have hp := process_pres snap o preOp hpre
            { st with iters := { ‹EIter› with items := xs } :: ‹List EIter› } (x.doFollow o.follow) w hw
          split
          · rename_i heq; rw [heq] at hp; exact hp
          · rename_i heq; rw [heq] at hp; exact ih _ _ hp
        · exact ih _ _ hw

theorem nextE_pres (snap : Snap) (o : Opts) (preOp : Entry → σ → Outcome Unit × σ)
    (hpre : ∀ e w, I w → I (preOp e w).2) (rootE : Entry) (f : Nat) (st : ISt) (w : σ) (hw : I w) :
    I (nextE snap o preOp rootE f st w).2.2 := by
  unfold nextE
  split
  · have hp := process_pres snap o preOp hpre { st with started := true } (rootE.doFollow o.follow) w hw
    split
    · rename_i heq; rw [heq] at hp; exact hp
    · rename_i heq; rw [heq] at hp; exact nextLoop_pres snap o preOp hpre _ _ _ hp
  · exact nextLoop_pres snap o preOp hpre _ _ _ hw

/-- a traversal whose `pre_op` and consumer closures keep `I` at every outcome keeps `I` at every exit -/
theorem runIter_pres (snap : Snap) (o : Opts) (preOp : Entry → σ → Outcome Unit × σ)
    (hpre : ∀ e w, I w → I (preOp e w).2) (rootE : Entry) (step : Entry → σ → Outcome Unit × σ)
    (hstep : ∀ e w, I w → I (step e w).2) (f : Nat) (st : ISt) (w : σ) (hw : I w) :
    I (runIter snap o preOp rootE step f st w).2 := by
  induction f generalizing st w with
  | zero => exact hw
  | succ f ih =>
    unfold runIter
    have hn := nextE_pres snap o preOp hpre rootE (f + 1) st w hw
    split
    · rename_i heq; rw [heq] at hn; exact hn
    · rename_i e st' w' heq
      rw [heq] at hn
      have hs := hstep e w' hn
      split
      · rename_i heq2; rw [heq2] at hs; exact ih _ _ hs
      · exact hs
    all_goals (rename_i heq; rw [heq] at hn; exact hn)

end Iter


namespace StepAInv
variable {I : State → Prop} {Q : FsPath → Prop}

/-- `chmod`: both closures only replace an existing entry by `setMode` of itself -/
theorem chmodM (h : StepAInv I Q) (env : Env) (p : Str) (c : ChmodOpts) : Pres I (Memfs.chmodM env p c) := by
  unfold Memfs.chmodM
  apply Pres.bind (Pres.absM _ _); intro a
  apply Pres.bind Pres.get; intro s0
  apply Pres.bind (Pres.liftO _); intro rs
  obtain ⟨rootE, snap⟩ := rs
  constructor
  intro s hs
  apply runIter_pres (I := I)
  · intro x st hst
    split
    · split
      · cases hk : alLookup x.path st.entries with
        | none => exact hst
        | some e => exact h.setMode _ _ _ _ hst hk
      · exact hst
    all_goals exact hst
  · intro x st hst
    simp only []
    split
    · split
      · cases hk : alLookup x.path st.entries with
        | none => exact hst
        | some e => exact h.setMode _ _ _ _ hst hk
      · exact hst
    all_goals exact hst
  · exact hs

/-- `chown`: the consumer closure only replaces an existing entry by `setOwner` of itself -/
theorem chownM (h : StepAInv I Q) (env : Env) (p : Str) (c : ChownOpts) : Pres I (Memfs.chownM env p c) := by
  unfold Memfs.chownM
  apply Pres.bind (Pres.absM _ _); intro a
  apply Pres.bind Pres.get; intro s0
  apply Pres.bind (Pres.liftO _); intro rs
  obtain ⟨rootE, snap⟩ := rs
  constructor
  intro s hs
  apply runIter_pres (I := I)
  · intro x st hst; exact hst
  · intro x st hst
    cases hk : alLookup x.path st.entries with
    | none => exact hst
    | some e => exact h.setOwner _ _ _ _ _ hst hk
  · exact hs

end StepAInv

/-! ## 9. the step function -/

/-- the operations that never change the state -/
def readOnlyOp : Op → Bool
  | .readAll _ | .readLines _ | .read _ | .readlink _ | .readlinkAbs _ | .cwd | .root | .abs _
  | .exists _ | .isFile _ | .isDir _ | .isSymlink _ | .isSymlinkDir _ | .isSymlinkFile _
  | .isExec _ | .isReadonly _ | .mode _ | .uid _ | .gid _ | .owner _ | .entry _
  | .paths _ | .dirs _ | .files _ | .allPaths _ | .allDirs _ | .allFiles _ | .entries _ _ => true
  | _ => false

/-- `ReadOnlyOp op`: `op` is one of the query / read / listing / traversal operations -/
def ReadOnlyOp (op : Op) : Prop := readOnlyOp op = true
instance (op : Op) : Decidable (ReadOnlyOp op) := by unfold ReadOnlyOp; infer_instance

/-- group A: read-only ops, creation of files and directories, content, handles, cwd, chmod/chown -/
def coveredA : Op → Bool
  | .mkfile _ | .mkdirP _ | .mkdirM _ _ | .writeAll _ _ | .appendAll _ _ | .writeLines _ _
  | .appendLines _ _ | .appendLine _ _ | .hWrite _ _ | .hAppend _ _ | .hPut _ _ | .hFlush _ | .hDrop _
  | .setCwd _ | .chmod _ _ | .chmodB _ _ | .chown _ _ _ | .chownB _ _ | .mkfileM _ _ => true
  | op => readOnlyOp op

def CoveredA (op : Op) : Prop := coveredA op = true
instance (op : Op) : Decidable (CoveredA op) := by unfold CoveredA; infer_instance

/-- read-only operations keep any predicate on states -/
theorem step_readonly_pres {I : State → Prop} (env : Env) (s : State) (op : Op) (hr : ReadOnlyOp op)
    (h : I s) : I (step env s op).2 := by
  cases op <;> simp only [ReadOnlyOp, readOnlyOp, Bool.false_eq_true] at hr
  case readAll p => exact (Pres.mapVal _ (Pres.readAllM env p)).run s h
  case readLines p => exact (Pres.mapVal _ (Pres.readLinesM env p)).run s h
  case read p => exact (Pres.mapVal _ (Pres.cloneFileM env p)).run s h
  case readlink p =>
    refine (Pres.mapVal (I := I) _ ?_).run s h
    pres_tac
  case readlinkAbs p =>
    refine (Pres.mapVal (I := I) _ ?_).run s h
    pres_tac
  case cwd => exact h
  case root => exact h
  case abs p => exact (Pres.mapVal _ (Pres.absM env p)).run s h
  case «exists» p => exact (Pres.boolQuery env p _).run s h
  case isFile p => exact (Pres.boolQuery env p _).run s h
  case isDir p => exact (Pres.boolQuery env p _).run s h
  case isSymlink p => exact (Pres.boolQuery env p _).run s h
  case isSymlinkDir p => exact (Pres.boolQuery env p _).run s h
  case isSymlinkFile p => exact (Pres.boolQuery env p _).run s h
  case isExec p => exact (Pres.boolQuery env p _).run s h
  case isReadonly p => exact (Pres.boolQuery env p _).run s h
  case mode p => exact (Pres.mapVal _ (Pres.entryQuery env p _)).run s h
  case uid p => exact (Pres.mapVal _ (Pres.entryQuery env p _)).run s h
  case gid p => exact (Pres.mapVal _ (Pres.entryQuery env p _)).run s h
  case owner p => exact (Pres.mapVal _ (Pres.entryQuery env p _)).run s h
  case entry p => exact (Pres.mapVal _ (Pres.entryQuery env p _)).run s h
  case paths p => exact (Pres.mapVal _ (Pres.listing env p _ _ _)).run s h
  case dirs p => exact (Pres.mapVal _ (Pres.listing env p _ _ _)).run s h
  case files p => exact (Pres.mapVal _ (Pres.listing env p _ _ _)).run s h
  case allPaths p => exact (Pres.mapVal _ (Pres.listing env p _ _ _)).run s h
  case allDirs p => exact (Pres.mapVal _ (Pres.listing env p _ _ _)).run s h
  case allFiles p => exact (Pres.mapVal _ (Pres.listing env p _ _ _)).run s h
  case entries p r => exact (Pres.travM env p r).run s h

/-- read-only operations return the state they were given, whatever the outcome -/
theorem step_readonly (env : Env) (s : State) (op : Op) (hr : ReadOnlyOp op) :
    (step env s op).2 = s :=
  step_readonly_pres (I := fun t => t = s) env s op hr rfl

/-- group A keeps every invariant that satisfies `StepAInv`, at every exit (hang included) -/
theorem StepAInv.step {I : State → Prop} {Q : FsPath → Prop} (hI : StepAInv I Q) (env : Env) (s : State)
    (op : Op) (hc : CoveredA op) (hq : StepAInv.AbsQ Q env s) (h : I s) : I (step env s op).2 := by
  by_cases hr : ReadOnlyOp op
  · exact step_readonly_pres env s op hr h
  · cases op <;> simp only [ReadOnlyOp, readOnlyOp, not_true_eq_false] at hr <;>
      simp only [CoveredA, coveredA, readOnlyOp, Bool.false_eq_true] at hc
    case mkfile p => exact mapVal_run _ <| hI.mkfileM env p h hq
    case mkfileM p m =>
      refine mapVal_run _ ?_
      refine Pres.bind_run (hI.mkfileM env p h hq) (fun r => ?_)
      apply Pres.bind (hI.chmodM _ _ _); intro _
      exact Pres.pure _
    case mkdirP p => exact mapVal_run _ <| hI.mkdirOp env p _ h hq
    case mkdirM p m => exact mapVal_run _ <| hI.mkdirOp env p _ h hq
    case writeAll p d => exact mapVal_run _ <| hI.writeAllM env p d h hq
    case appendAll p d => exact mapVal_run _ <| hI.appendAllM env p d h hq
    case writeLines p d => exact mapVal_run _ <| hI.writeLinesM env p d h hq
    case appendLines p d => exact mapVal_run _ <| hI.appendLinesM env p d h hq
    case appendLine p d => exact mapVal_run _ <| hI.appendLineM env p d h hq
    case setCwd p => exact mapVal_run _ <| hI.setCwdM env p h hq
    case chmod p m => exact (Pres.mapVal _ (hI.chmodM env p _)).run s h
    case chmodB p c => exact (Pres.mapVal _ (hI.chmodM env p c)).run s h
    case chown p u g => exact (Pres.mapVal _ (hI.chownM env p _)).run s h
    case chownB p c => exact (Pres.mapVal _ (hI.chownM env p c)).run s h
    case hWrite id p => exact mapVal_run _ <| hI.openWriteM env p id h hq
    case hAppend id p => exact mapVal_run _ <| hI.openAppendM env p id h hq
    case hPut id d => exact (Pres.mapVal _ (hI.handleWriteM id d)).run s h
    case hFlush id => exact (Pres.mapVal _ (hI.handleFlushM id)).run s h
    case hDrop id => exact (Pres.mapVal _ (hI.handleDropM id)).run s h

/-! ## 10. the C03 invariant is a group-A invariant -/

theorem Pres.syncM (p : FsPath) (b : File.Bytes) : Pres InvP (Memfs.syncM p b) := by
  constructor
  intro s h
  simp only [Memfs.syncM, Bind.bind, bind_getEntry]
  cases alLookup p s.entries with
  | none => exact h
  | some e =>
    simp only [bind_getFile]
    cases hf : alLookup p s.files with
    | none => exact h
    | some b0 => exact h.setFile_present b (by rw [hf]; rfl)

theorem Pres.mkdirM (p : FsPath) (m : Option Nat) : Pres InvP (Memfs.mkdirM p m) := by
  unfold Memfs.mkdirM
  apply Pres.forM; intro a
  apply Pres.bind (Pres.add _ (mkDirEntry_files a m)); intro r
  pres_tac

theorem invP_stepAInv : StepAInv InvP (fun _ => True) where
  addFile := fun p _ => Pres.add _ (mkFileEntry_files p)
  mkdir := fun p m _ => Pres.mkdirM p m
  sync := Pres.syncM
  cwd := fun _ _ _ h => h.congr rfl rfl rfl
  handles := fun _ _ h => h.congr rfl rfl rfl
  setMode := fun _ _ e m h hk => h.replaceEntry hk (Entry.same_setMode e m)
  setOwner := fun _ _ e u g h hk => h.replaceEntry hk (Entry.same_setOwner e u g)

/-- group A keeps the Prop-level invariant at every exit (hang included) -/
theorem invP_step_A (env : Env) (s : State) (op : Op) (hc : CoveredA op) (h : InvP s) :
    InvP (step env s op).2 :=
  invP_stepAInv.step env s op hc (fun _ _ _ _ => trivial) h

/-- group A keeps the invariant at every exit; the hang hypothesis is not needed for this group -/
theorem inv_step_A' (env : Env) (s : State) (op : Op) (hc : CoveredA op) (h : Spec.Inv s) :
    Spec.Inv (step env s op).2 :=
  (inv_iff _).mpr (invP_step_A env s op hc ((inv_iff s).mp h))

theorem inv_step_A (env : Env) (s : State) (op : Op) (hc : CoveredA op) (h : Spec.Inv s)
    (_hh : (step env s op).1 ≠ .hang) : Spec.Inv (step env s op).2 :=
  inv_step_A' env s op hc h

/-! ## 11. two further invariants (`move_p` needs them): well-formed keys, sorted child lists -/

theorem mem_alInsert {β} {kv : FsPath × β} {k : FsPath} {v : β} {l : List (FsPath × β)}
    (h : kv ∈ alInsert k v l) : kv = (k, v) ∨ kv ∈ l := by
  induction l with
  | nil => simp only [alInsert, List.mem_singleton] at h; exact Or.inl h
  | cons x r ih =>
    obtain ⟨k0, v0⟩ := x
    simp only [alInsert] at h
    split at h
    · simp only [List.mem_cons] at h ⊢
      rcases h with h | h
      · exact Or.inl h
      · exact Or.inr (Or.inr h)
    · simp only [List.mem_cons] at h ⊢
      rcases h with h | h
      · exact Or.inr (Or.inl h)
      · rcases ih h with h | h
        · exact Or.inl h
        · exact Or.inr (Or.inr h)

/-- what `_add` does to the state: nothing, or (for a new key under a real directory) the three
    insertions -/
theorem add_state_cases (e : Entry) (s : State) :
    (Memfs.add e s).2 = s ∨
    ∃ d b d', alLookup e.path.dropLast s.entries = some d ∧ alLookup e.path s.entries = none ∧
      e.path ≠ [] ∧ d.dir = true ∧ d.link = false ∧ d.addChild (baseName e.path) = .ok (b, d') ∧
      (Memfs.add e s).2 =
        { s with files := if (!e.link && e.file) = true then alInsert e.path [] s.files else s.files,
                 entries := alInsert e.path.dropLast d' (alInsert e.path e s.entries) } := by
  by_cases hp : e.path = []
  · left; simp only [Memfs.add, hp, if_true]; rfl
  · simp only [Memfs.add, hp, if_false, Bind.bind]
    rw [bind_getEntry]
    cases hd : alLookup e.path.dropLast s.entries with
    | none => left; rfl
    | some d =>
      simp only []
      by_cases hc : (!d.dir || d.link) = true
      · rw [if_pos hc]; left; rfl
      · rw [if_neg hc, bind_getEntry]
        have hne : e.path.dropLast ≠ e.path := dropLast_ne_self hp
        cases hx : alLookup e.path s.entries with
        | some x =>
          left
          simp only []
          split
          · rfl
          · split
            · rfl
            · split <;> rfl
        | none =>
          right
          simp only [Bool.or_eq_true, Bool.not_eq_true', not_or, Bool.not_eq_false, Bool.not_eq_true] at hc
          obtain ⟨hdd, hdl⟩ := hc
          have hadd : ∃ b d', d.addChild (baseName e.path) = .ok (b, d') := by
            unfold Entry.addChild
            simp only [hdd, Bool.not_true, Bool.false_eq_true, if_false]
            cases d.files with
            | none => exact ⟨_, _, rfl⟩
            | some fs => exact ⟨_, _, rfl⟩
          obtain ⟨b, d', hadd⟩ := hadd
          refine ⟨d, b, d', rfl, rfl, hp, hdd, hdl, hadd, ?_⟩
          simp only []
          split
          · simp only [Memfs.setFile, Memfs.setEntry, bind_modify, bind_getEntry, alLookup_alInsert, hne, if_false, hd, hadd,
              bind_liftO_ok]
            split <;> rfl
          · simp only [Memfs.setEntry, bind_modify, bind_getEntry, alLookup_alInsert, hne, if_false, hd, hadd,
              bind_liftO_ok]
            split <;> rfl

/-- a property of every stored (key, entry) pair -/
def AllE (P : FsPath → Entry → Prop) (s : State) : Prop := ∀ kv ∈ s.entries, P kv.1 kv.2

theorem add_allE {P : FsPath → Entry → Prop} (e : Entry) {s : State} (h : AllE P s) (hnew : P e.path e)
    (hpar : ∀ d b d', (e.path.dropLast, d) ∈ s.entries → d.addChild (baseName e.path) = .ok (b, d') →
      P e.path.dropLast d') :
    AllE P (Memfs.add e s).2 ∧ (Memfs.add e s).2.cwd = s.cwd := by
  rcases add_state_cases e s with h0 | ⟨d, b, d', hd, _, _, _, _, hadd, h0⟩
  · rw [h0]; exact ⟨h, rfl⟩
  · rw [h0]
    refine ⟨?_, rfl⟩
    intro kv hkv
    rcases mem_alInsert hkv with rfl | hkv
    · exact hpar d b d' (mem_of_alLookup hd) hadd
    · rcases mem_alInsert hkv with rfl | hkv
      · exact hnew
      · exact h kv hkv

theorem syncM_entries (p : FsPath) (b : File.Bytes) (s : State) :
    (Memfs.syncM p b s).2.entries = s.entries ∧ (Memfs.syncM p b s).2.cwd = s.cwd := by
  simp only [Memfs.syncM, Bind.bind, bind_getEntry]
  cases alLookup p s.entries with
  | none => exact ⟨rfl, rfl⟩
  | some e =>
    simp only [bind_getFile]
    cases alLookup p s.files with
    | none => exact ⟨rfl, rfl⟩
    | some b0 => exact ⟨rfl, rfl⟩

theorem mem_prefixes {p q : FsPath} (h : q ∈ prefixes p) : ∃ n, q = p.take n := by
  unfold prefixes at h
  obtain ⟨n, _, rfl⟩ := List.mem_map.mp h
  exact ⟨n, rfl⟩

/-! ### well-formed keys -/

/-- every name in every key and in the cwd is a non-empty name other than `.` without `/` -/
def KeysWf (s : State) : Prop :=
  (∀ kv ∈ s.entries, ∀ n ∈ kv.1, BodyPiece n) ∧ (∀ n ∈ s.cwd, BodyPiece n)

/-- `_abs` in state `s` only returns well-formed keys (a consequence of `KeysWf s`, proved with the
    path-cleaning lemmas of group B / C05; taken as a hypothesis here) -/
def AbsWf (env : Env) (s : State) : Prop :=
  ∀ raw a, absWith env (renderP s.cwd) raw = .ok a → ∀ n ∈ toPath a, BodyPiece n

theorem AbsWf.absQ {env : Env} {s : State} (h : AbsWf env s) :
    StepAInv.AbsQ (fun p => ∀ n ∈ p, BodyPiece n) env s := by
  intro raw a s' ha
  unfold Memfs.absM at ha
  split at ha
  · rename_i x hx
    cases ha
    exact h raw x hx
  all_goals cases ha

theorem KeysWf.congr {s s' : State} (h : KeysWf s) (he : s'.entries = s.entries) (hc : s'.cwd = s.cwd) :
    KeysWf s' := by
  unfold KeysWf; rw [he, hc]; exact h

theorem KeysWf.replace {s : State} (h : KeysWf s) {k : FsPath} {e : Entry} (e' : Entry)
    (hk : alLookup k s.entries = some e) : KeysWf { s with entries := alInsert k e' s.entries } := by
  refine ⟨?_, h.2⟩
  intro kv hkv
  rcases mem_alInsert hkv with rfl | hkv
  · exact h.1 (k, e) (mem_of_alLookup hk)
  · exact h.1 kv hkv

theorem KeysWf.add (e : Entry) (hq : ∀ n ∈ e.path, BodyPiece n) : Pres KeysWf (Memfs.add e) := by
  constructor
  intro s h
  have := add_allE (P := fun k _ => ∀ n ∈ k, BodyPiece n) e h.1 hq
    (fun d b d' hm _ => h.1 _ hm)
  exact ⟨this.1, this.2 ▸ h.2⟩

theorem keysWf_stepAInv : StepAInv KeysWf (fun p => ∀ n ∈ p, BodyPiece n) where
  addFile := fun p hp => KeysWf.add _ hp
  mkdir := by
    intro p m hp
    unfold Memfs.mkdirM
    apply Pres.forM_mem
    intro q hq
    obtain ⟨n, rfl⟩ := mem_prefixes hq
    apply Pres.bind (KeysWf.add _ (fun x hx => hp x (List.mem_of_mem_take hx)))
    intro _; exact Pres.pure _
  sync := fun p b => ⟨fun s h => h.congr (syncM_entries p b s).1 (syncM_entries p b s).2⟩
  cwd := fun p s hp h => ⟨h.1, hp⟩
  handles := fun _ _ h => h
  setMode := fun _ _ _ _ h hk => h.replace _ hk
  setOwner := fun _ _ _ _ _ h hk => h.replace _ hk

/-- group A keeps `KeysWf` (every exit), provided `_abs` returns well-formed keys in the pre-state -/
theorem keysWf_step_A (env : Env) (s : State) (op : Op) (hc : CoveredA op) (ha : AbsWf env s)
    (h : KeysWf s) : KeysWf (step env s op).2 :=
  keysWf_stepAInv.step env s op hc ha.absQ h

/-! ### sorted child lists -/

theorem strLt_irrefl (a : Str) : strLt a a = false := by
  induction a with
  | nil => rfl
  | cons x xs ih =>
    simp only [strLt, ih]
    have : ¬ x.val < x.val := UInt32.lt_irrefl _
    simp [this]

theorem strLt_asymm {a b : Str} (h : strLt a b = true) : strLt b a = false := by
  induction a generalizing b with
  | nil => cases b <;> simp [strLt] at h ⊢
  | cons x xs ih =>
    cases b with
    | nil => simp [strLt] at h
    | cons y ys =>
      simp only [strLt] at h ⊢
      by_cases h1 : x.val < y.val
      · have h2 : ¬ y.val < x.val := UInt32.lt_asymm h1
        have h3 : y.val > x.val := h1
        simp [h2, h3]
      · by_cases h2 : y.val < x.val
        · have : x.val > y.val := h2
          simp [h1, this] at h
        · have h3 : ¬ x.val > y.val := h2
          have h4 : ¬ y.val > x.val := h1
          simp only [h1, h3, if_false] at h
          simp only [h2, h4, if_false]
          exact ih h

theorem strLt_trans {a b c : Str} (h1 : strLt a b = true) (h2 : strLt b c = true) : strLt a c = true := by
  induction a generalizing b c with
  | nil =>
    cases b with
    | nil => simp [strLt] at h1
    | cons y ys => cases c <;> simp [strLt] at h2 ⊢
  | cons x xs ih =>
    cases b with
    | nil => simp [strLt] at h1
    | cons y ys =>
      cases c with
      | nil => simp [strLt] at h2
      | cons z zs =>
        simp only [strLt] at h1 h2 ⊢
        simp only [gt_iff_lt, UInt32.lt_iff_toNat_lt] at h1 h2 ⊢
        by_cases hxy : x.val.toNat < y.val.toNat
        · by_cases hyz : y.val.toNat < z.val.toNat
          · have : x.val.toNat < z.val.toNat := by omega
            rw [if_pos this]
          · by_cases hzy : z.val.toNat < y.val.toNat
            · rw [if_neg hyz, if_pos hzy] at h2; cases h2
            · have : x.val.toNat < z.val.toNat := by omega
              rw [if_pos this]
        · by_cases hyx : y.val.toNat < x.val.toNat
          · rw [if_neg hxy, if_pos hyx] at h1; cases h1
          · rw [if_neg hxy, if_neg hyx] at h1
            by_cases hyz : y.val.toNat < z.val.toNat
            · have : x.val.toNat < z.val.toNat := by omega
              rw [if_pos this]
            · by_cases hzy : z.val.toNat < y.val.toNat
              · rw [if_neg hyz, if_pos hzy] at h2; cases h2
              · rw [if_neg hyz, if_neg hzy] at h2
                have e1 : ¬ x.val.toNat < z.val.toNat := by omega
                have e2 : ¬ z.val.toNat < x.val.toNat := by omega
                rw [if_neg e1, if_neg e2]
                exact ih h1 h2

/-- child lists are kept in non-decreasing `strLt` order -/
abbrev SortedNames (l : List Str) : Prop := l.Pairwise (fun a b => strLt b a = false)

/-- `insertName` keeps a sorted list sorted -/
theorem pairwise_insertName (n : Str) {l : List Str} (h : SortedNames l) :
    SortedNames (insertName n l).2 := by
  induction l with
  | nil => simp [insertName, SortedNames]
  | cons x xs ih =>
    simp only [insertName]
    split
    · exact h
    · rename_i hne
      split
      · rename_i hlt
        refine List.pairwise_cons.mpr ⟨?_, h⟩
        intro y hy
        rcases List.mem_cons.mp hy with rfl | hy
        · exact strLt_asymm hlt
        · have hxy : strLt y x = false := (List.pairwise_cons.mp h).1 y hy
          cases hyn : strLt y n with
          | false => rfl
          | true => rw [strLt_trans hyn hlt] at hxy; cases hxy
      · rename_i hlt
        have hx := List.pairwise_cons.mp h
        refine List.pairwise_cons.mpr ⟨?_, ih hx.2⟩
        intro y hy
        rw [mem_insertName] at hy
        rcases hy with rfl | hy
        · simpa using hlt
        · exact hx.1 y hy

def SortedKids (s : State) : Prop :=
  ∀ kv ∈ s.entries, ∀ fs, kv.2.files = some fs → fs.Pairwise (fun a b => strLt b a = false)

theorem SortedKids.congr {s s' : State} (h : SortedKids s) (he : s'.entries = s.entries) : SortedKids s' := by
  unfold SortedKids; rw [he]; exact h

theorem SortedKids.replace {s : State} (h : SortedKids s) {k : FsPath} {e e' : Entry}
    (hk : alLookup k s.entries = some e) (hf : e'.files = e.files) :
    SortedKids { s with entries := alInsert k e' s.entries } := by
  intro kv hkv
  rcases mem_alInsert hkv with rfl | hkv
  · intro fs hfs; exact h (k, e) (mem_of_alLookup hk) fs (hf ▸ hfs)
  · exact h kv hkv

theorem addChild_sorted {d d' : Entry} {n : Str} {b : Bool}
    (hd : ∀ fs, d.files = some fs → SortedNames fs) (h : d.addChild n = .ok (b, d')) :
    ∀ fs, d'.files = some fs → SortedNames fs := by
  unfold Entry.addChild at h
  split at h
  · cases h
  · split at h
    · rename_i fs0 hfs0
      simp only [Outcome.ok.injEq, Prod.mk.injEq] at h
      obtain ⟨_, rfl⟩ := h
      intro fs hfs
      simp only [Option.some.injEq] at hfs
      subst hfs
      exact pairwise_insertName n (hd fs0 hfs0)
    · simp only [Outcome.ok.injEq, Prod.mk.injEq] at h
      obtain ⟨_, rfl⟩ := h
      intro fs hfs
      simp only [Option.some.injEq] at hfs
      subst hfs
      simp [SortedNames]

theorem SortedKids.add (e : Entry) (he : ∀ fs, e.files = some fs → SortedNames fs) :
    Pres SortedKids (Memfs.add e) := by
  constructor
  intro s h
  exact (add_allE (P := fun _ x => ∀ fs, x.files = some fs → SortedNames fs) e h he
    (fun d b d' hm hadd => addChild_sorted (h _ hm) hadd)).1

theorem sortedKids_stepAInv : StepAInv SortedKids (fun _ => True) where
  addFile := fun p _ => SortedKids.add _ (fun fs hfs => by cases hfs)
  mkdir := by
    intro p m _
    unfold Memfs.mkdirM
    apply Pres.forM
    intro q
    apply Pres.bind (SortedKids.add _ (fun fs hfs => by cases hfs; simp [SortedNames]))
    intro _; exact Pres.pure _
  sync := fun p b => ⟨fun s h => h.congr (syncM_entries p b s).1⟩
  cwd := fun _ _ _ h => h
  handles := fun _ _ h => h
  setMode := fun _ _ _ _ h hk => h.replace hk rfl
  setOwner := fun _ _ _ _ _ h hk => h.replace hk rfl

/-- group A keeps `SortedKids` (every exit) -/
theorem sortedKids_step_A (env : Env) (s : State) (op : Op) (hc : CoveredA op) (h : SortedKids s) :
    SortedKids (step env s op).2 :=
  sortedKids_stepAInv.step env s op hc (fun _ _ _ _ => trivial) h

end Rivia.Lemmas.InvA
