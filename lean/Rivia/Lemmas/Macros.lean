/-
  Rivia.Lemmas.Macros — helper lemmas for C20 (the `assert_vfs_*!` macros as test oracles).

  Part 1: how the macro combinators (`call`, `absK`, `boolK`) evaluate.
  Part 2: the checking macros, in closed form.
-/
import Rivia.Spec.MacroSpec
import Rivia.Lemmas.Abs
import Rivia.Lemmas.RefineA
import Rivia.Lemmas.AbsMemfs
import Rivia.Lemmas.NoopPath
import Rivia.Lemmas.Conc
import Rivia.Lemmas.InvC

set_option linter.unusedSimpArgs false

namespace Rivia.MacroLemmas
open Rivia Rivia.Memfs Rivia.Memfs.M Rivia.File Rivia.Spec Rivia.Spec.TreeFs Rivia.Macros
open Rivia.Spec.MacroSpec Rivia.Lemmas.RefineA

variable {env : Env} {s : State}

/-! ### path resolution -/

theorem keyOf_eq (env : Env) (s : State) (p : Str) :
    keyOf env s p =
      match absWith env (renderP s.cwd) p with
      | .ok a => some (toPath a)
      | _ => none := by
  unfold keyOf resolve
  have hc : (absS s).cwd = s.cwd := rfl
  rw [hc]
  cases absWith env (renderP s.cwd) p <;> rfl

/-- resolution depends on the current directory only -/
theorem keyOf_congr {s s' : State} (h : s'.cwd = s.cwd) (p : Str) : keyOf env s' p = keyOf env s p := by
  rw [keyOf_eq, keyOf_eq, h]

theorem absM_of_key {p : Str} {a : FsPath} (h : keyOf env s p = some a) : absM env p s = (.ok a, s) := by
  rw [keyOf_eq] at h
  unfold absM
  cases hh : absWith env (renderP s.cwd) p <;> rw [hh] at h <;> simp_all

theorem absM_of_none {p : Str} (h : keyOf env s p = none) : ∃ k, absM env p s = (.err k, s) := by
  rw [keyOf_eq] at h
  have ht := Lemmas.absWith_total env (renderP s.cwd) p
  unfold absM
  cases hh : absWith env (renderP s.cwd) p with
  | ok a => rw [hh] at h; cases h
  | err k => exact ⟨k, rfl⟩
  | panic => exact absurd hh ht.1
  | hang => exact absurd hh ht.2

theorem absK_eq (p : Str) (n msg : String) (k : FsPath → State → MR) :
    absK env s p n msg k =
      match keyOf env s p with
      | some a => k a s
      | none => (pm n msg, s) := by
  cases h : keyOf env s p with
  | some a => simp only [absK, call, step, mapVal, absM_of_key h]
  | none =>
    obtain ⟨kk, hk⟩ := absM_of_none h
    simp only [absK, call, step, mapVal, hk]

/-- `f` evaluated on the entry a user path denotes (`false` when there is none) -/
def eTest (env : Env) (s : State) (p : Str) (f : Entry → Bool) : Bool :=
  match keyOf env s p with
  | some a => (match alLookup a s.entries with | some e => f e | none => false)
  | none => false

theorem boolQuery_eq (p : Str) (f : Entry → Bool) :
    boolQuery env p f s = (.ok (.bool (eTest env s p f)), s) := by
  unfold boolQuery eTest
  cases h : keyOf env s p with
  | some a => rw [absM_of_key h]; rfl
  | none => obtain ⟨kk, hk⟩ := absM_of_none h; rw [hk]

theorem boolK_eq {op : Op} {p : Str} {f : Entry → Bool} (hop : step env s op = boolQuery env p f s)
    (k : Bool → State → MR) : boolK env s op k = k (eTest env s p f) s := by
  unfold boolK call
  rw [hop, boolQuery_eq]

theorem boolK_exists (p : Str) (k : Bool → State → MR) :
    boolK env s (.exists p) k = k (eTest env s p fun _ => true) s := boolK_eq rfl k
theorem boolK_isDir (p : Str) (k : Bool → State → MR) :
    boolK env s (.isDir p) k = k (eTest env s p fun e => e.dir && !e.link) s := boolK_eq rfl k
theorem boolK_isFile (p : Str) (k : Bool → State → MR) :
    boolK env s (.isFile p) k = k (eTest env s p fun e => e.file && !e.link) s := boolK_eq rfl k
theorem boolK_isSymlink (p : Str) (k : Bool → State → MR) :
    boolK env s (.isSymlink p) k = k (eTest env s p (·.link)) s := boolK_eq rfl k

/-! ### the domain: re-resolving a resolved key gives the key back -/

/-- the macros hand `&target` (an already resolved path) back to the vfs, which resolves it again -/
def Stable (env : Env) (s : State) (a : FsPath) : Prop := keyOf env s (renderP a) = some a

instance (env : Env) (s : State) (a : FsPath) : Decidable (Stable env s a) := by
  unfold Stable; infer_instance

theorem Stable.congr {s s' : State} {a : FsPath} (h : Stable env s a) (hc : s'.cwd = s.cwd) :
    Stable env s' a := by
  unfold Stable at *; rw [keyOf_congr hc]; exact h

/-- `f` on the entry stored under a key -/
def eAt (s : State) (a : FsPath) (f : Entry → Bool) : Bool :=
  match alLookup a s.entries with | some e => f e | none => false

theorem eTest_stable {a : FsPath} (h : Stable env s a) (f : Entry → Bool) :
    eTest env s (renderP a) f = eAt s a f := by
  unfold eTest eAt; rw [h]

theorem eTest_key {p : Str} {a : FsPath} (h : keyOf env s p = some a) (f : Entry → Bool) :
    eTest env s p f = eAt s a f := by
  unfold eTest eAt; rw [h]

/-- a clean absolute result without `~` / `$`, under a current directory of well-formed names, is
    stable: the domain contains every path the unit tests of the crate use -/
theorem stable_of_noSpecial {p : Str} {a : FsPath} (hc : ∀ n ∈ s.cwd, Lemmas.Wf n)
    (hk : keyOf env s p = some a) (hs : Lemmas.NoSpecial (renderP a)) : Stable env s a := by
  rw [keyOf_eq] at hk
  cases hh : absWith env (renderP s.cwd) p with
  | ok astr =>
    rw [hh] at hk
    have ha : toPath astr = a := by simpa using hk
    have hr : isRooted (renderP s.cwd) = true := rfl
    have hn : Lemmas.NormalForm (renderP s.cwd) := Lemmas.renderP_normalForm hc
    obtain ⟨hr', hn'⟩ := Lemmas.absWith_shape hr hn hh
    obtain ⟨ns, hns, rfl⟩ := Lemmas.rooted_normalForm hr' hn'
    have hns' : toPath (Lemmas.bufOf true ns) = ns := Lemmas.Noop.toPath_bufOf (fun q hq => (hns q hq).bodyPiece)
    rw [hns'] at ha
    subst ha
    have hfix : absWith env (renderP s.cwd) (renderP ns) = .ok (renderP ns) :=
      Lemmas.absWith_fixed env _ hr' hn' hs
    unfold Stable
    rw [keyOf_eq, hfix]
    exact congrArg some hns'
  | err k => rw [hh] at hk; cases hk
  | panic => rw [hh] at hk; cases hk
  | hang => rw [hh] at hk; cases hk

/-! ### per-entry well-formedness the statements need (decidable) -/

/-- exactly one of `dir` / `file`; a regular file has stored bytes (clause (4) of `Spec.Inv`);
    a link has a target -/
def entryWfB (s : State) (k : FsPath) (e : Entry) : Bool :=
  decide (e.dir = !e.file) && (!(e.file && !e.link) || (alLookup k s.files).isSome) &&
    (!e.link || e.alt.isSome)

def StateOk (s : State) : Prop := s.entries.all (fun kv => entryWfB s kv.1 kv.2) = true

instance (s : State) : Decidable (StateOk s) := by unfold StateOk; infer_instance

theorem stateOk_lookup (h : StateOk s) {k : FsPath} {e : Entry} (hk : alLookup k s.entries = some e) :
    e.dir = (!e.file) ∧ ((e.file && !e.link) = true → (alLookup k s.files).isSome = true) := by
  have hm := Lemmas.RefineA.mem_of_alLookup hk
  have h1 := List.all_eq_true.mp h _ hm
  simp only [entryWfB, Bool.and_eq_true, decide_eq_true_eq, Bool.or_eq_true, Bool.not_eq_true'] at h1
  refine ⟨h1.1.1, fun hf => ?_⟩
  rcases h1.1.2 with h2 | h2
  · rw [hf] at h2; cases h2
  · exact h2

theorem stateOk_link (h : StateOk s) {k : FsPath} {e : Entry} (hk : alLookup k s.entries = some e)
    (hl : e.link = true) : ∃ t, e.alt = some t := by
  have hm := Lemmas.RefineA.mem_of_alLookup hk
  have h1 := List.all_eq_true.mp h _ hm
  simp only [entryWfB, Bool.and_eq_true, decide_eq_true_eq, Bool.or_eq_true, Bool.not_eq_true'] at h1
  rcases h1.2 with h2 | h2
  · rw [hl] at h2; cases h2
  · cases ha : e.alt with
    | none => rw [ha] at h2; cases h2
    | some t => exact ⟨t, rfl⟩

/-! ### the reference view of the entry a path denotes -/

theorem nodeOf_key {p : Str} {a : FsPath} (hk : keyOf env s p = some a) :
    nodeOf env s p = (alLookup a s.entries).map (absNode s a) := by
  unfold nodeOf; rw [hk]; exact Lemmas.RefineA.get_absS s a

theorem nodeOf_none {p : Str} (hk : keyOf env s p = none) : nodeOf env s p = none := by
  unfold nodeOf; rw [hk]

theorem pExists_key {p : Str} {a : FsPath} (hk : keyOf env s p = some a) :
    pExists env s p = eAt s a fun _ => true := by
  unfold pExists eAt; rw [nodeOf_key hk]; cases alLookup a s.entries <;> rfl

theorem pIsDir_key {p : Str} {a : FsPath} (hk : keyOf env s p = some a) :
    pIsDir env s p = eAt s a fun e => e.dir && !e.link := by
  unfold pIsDir eAt; rw [nodeOf_key hk]
  cases alLookup a s.entries with
  | none => rfl
  | some e => simp only [Option.map, absNode, kindOf]; cases e.dir <;> cases e.link <;> simp

theorem pIsLink_key {p : Str} {a : FsPath} (hk : keyOf env s p = some a) :
    pIsLink env s p = eAt s a (·.link) := by
  unfold pIsLink eAt; rw [nodeOf_key hk]
  cases alLookup a s.entries with
  | none => rfl
  | some e => simp only [Option.map, absNode, kindOf]; cases e.dir <;> cases e.link <;> simp [isLinkKind]

theorem pIsFile_key (hok : StateOk s) {p : Str} {a : FsPath} (hk : keyOf env s p = some a) :
    pIsFile env s p = eAt s a fun e => e.file && !e.link := by
  unfold pIsFile eAt; rw [nodeOf_key hk]
  cases he : alLookup a s.entries with
  | none => rfl
  | some e =>
    have := (stateOk_lookup hok he).1
    simp only [Option.map, absNode, kindOf]
    cases hd : e.dir <;> cases hl : e.link <;> cases hf : e.file <;> simp_all

theorem resolvable_key {p : Str} {a : FsPath} (hk : keyOf env s p = some a) : resolvable env s p = true := by
  unfold resolvable; rw [hk]; rfl

/-! ### the checking macros -/

/-- the path argument, if it resolves, resolves to a stable key -/
def StableArg (env : Env) (s : State) (p : Str) : Prop :=
  match keyOf env s p with
  | some a => Stable env s a
  | none => True

instance (env : Env) (s : State) (p : Str) : Decidable (StableArg env s p) := by
  unfold StableArg; split <;> infer_instance

theorem StableArg.of_key {p : Str} {a : FsPath} (h : StableArg env s p) (hk : keyOf env s p = some a) :
    Stable env s a := by
  unfold StableArg at h; rw [hk] at h; exact h

theorem chk_exists {p : Str} (hst : StableArg env s p) :
    (runMacro env s (.exists p)).1 = .pass ↔ checkSpec env s (.exists p) = true := by
  cases hk : keyOf env s p with
  | none => simp [runMacro, absK_eq, hk, checkSpec, pExists, nodeOf_none hk, pm]
  | some a =>
    have hs := hst.of_key hk
    simp only [runMacro, absK_eq, hk, boolK_exists, eTest_stable hs, checkSpec, pExists_key hk]
    unfold eAt; cases alLookup a s.entries <;> simp [pm]

theorem chk_noExists {p : Str} (hst : StableArg env s p) :
    (runMacro env s (.noExists p)).1 = .pass ↔ checkSpec env s (.noExists p) = true := by
  cases hk : keyOf env s p with
  | none => simp [runMacro, absK_eq, hk, checkSpec, resolvable, pm]
  | some a =>
    have hs := hst.of_key hk
    simp only [runMacro, absK_eq, hk, boolK_exists, eTest_stable hs, checkSpec, pExists_key hk,
      resolvable_key hk]
    unfold eAt; cases alLookup a s.entries <;> simp [pm]

theorem chk_isDir {p : Str} (hst : StableArg env s p) :
    (runMacro env s (.isDir p)).1 = .pass ↔ checkSpec env s (.isDir p) = true := by
  cases hk : keyOf env s p with
  | none => simp [runMacro, absK_eq, hk, checkSpec, pIsDir, nodeOf_none hk, pm]
  | some a =>
    have hs := hst.of_key hk
    simp only [runMacro, absK_eq, hk, boolK_exists, boolK_isDir, eTest_stable hs, checkSpec, pIsDir_key hk]
    unfold eAt; cases alLookup a s.entries with
    | none => simp [pm]
    | some e => cases hd : e.dir <;> cases hl : e.link <;> simp [pm, hd, hl]

theorem chk_isFile (hok : StateOk s) {p : Str} (hst : StableArg env s p) :
    (runMacro env s (.isFile p)).1 = .pass ↔ checkSpec env s (.isFile p) = true := by
  cases hk : keyOf env s p with
  | none => simp [runMacro, absK_eq, hk, checkSpec, pIsFile, nodeOf_none hk, pm]
  | some a =>
    have hs := hst.of_key hk
    simp only [runMacro, absK_eq, hk, boolK_exists, boolK_isFile, eTest_stable hs, checkSpec,
      pIsFile_key hok hk]
    unfold eAt; cases alLookup a s.entries with
    | none => simp [pm]
    | some e => cases hf : e.file <;> cases hl : e.link <;> simp [pm, hf, hl]

theorem chk_isSymlink {p : Str} (hst : StableArg env s p) :
    (runMacro env s (.isSymlink p)).1 = .pass ↔ checkSpec env s (.isSymlink p) = true := by
  cases hk : keyOf env s p with
  | none => simp [runMacro, absK_eq, hk, checkSpec, pIsLink, nodeOf_none hk, pm]
  | some a =>
    have hs := hst.of_key hk
    simp only [runMacro, absK_eq, hk, boolK_exists, boolK_isSymlink, eTest_stable hs, checkSpec,
      pIsLink_key hk]
    unfold eAt; cases alLookup a s.entries with
    | none => simp [pm]
    | some e => cases hl : e.link <;> simp [pm, hl]

theorem chk_noSymlink {p : Str} (hst : StableArg env s p) :
    (runMacro env s (.noSymlink p)).1 = .pass ↔ checkSpec env s (.noSymlink p) = true := by
  cases hk : keyOf env s p with
  | none => simp [runMacro, absK_eq, hk, checkSpec, resolvable, pm]
  | some a =>
    have hs := hst.of_key hk
    simp only [runMacro, absK_eq, hk, boolK_exists, boolK_isSymlink, eTest_stable hs, checkSpec,
      pIsLink_key hk, resolvable_key hk]
    unfold eAt; cases alLookup a s.entries with
    | none => simp [pm]
    | some e => cases hl : e.link <;> simp [pm, hl]

/-- what `assert_vfs_no_dir!` really decides: the path resolves and does not exist -/
theorem run_noDir_iff {p : Str} (hst : StableArg env s p) :
    (runMacro env s (.noDir p)).1 = .pass ↔ checkSpec env s (.noExists p) = true := by
  cases hk : keyOf env s p with
  | none => simp [runMacro, absK_eq, hk, checkSpec, resolvable, pm]
  | some a =>
    have hs := hst.of_key hk
    simp only [runMacro, absK_eq, hk, boolK_exists, boolK_isDir, eTest_stable hs, checkSpec,
      pExists_key hk, resolvable_key hk]
    unfold eAt; cases alLookup a s.entries with
    | none => simp [pm]
    | some e => cases hd : e.dir <;> cases hl : e.link <;> simp [pm, hd, hl]

/-- what `assert_vfs_no_file!` really decides: the path resolves and does not exist -/
theorem run_noFile_iff {p : Str} (hst : StableArg env s p) :
    (runMacro env s (.noFile p)).1 = .pass ↔ checkSpec env s (.noExists p) = true := by
  cases hk : keyOf env s p with
  | none => simp [runMacro, absK_eq, hk, checkSpec, resolvable, pm]
  | some a =>
    have hs := hst.of_key hk
    simp only [runMacro, absK_eq, hk, boolK_exists, boolK_isFile, eTest_stable hs, checkSpec,
      pExists_key hk, resolvable_key hk]
    unfold eAt; cases alLookup a s.entries with
    | none => simp [pm]
    | some e => cases hf : e.file <;> cases hl : e.link <;> simp [pm, hf, hl]

/-! ### the reading calls, in closed form -/

theorem step_readlink_key {q : Str} {a : FsPath} (hk : keyOf env s q = some a) :
    step env s (.readlink q) =
      ((match alLookup a s.entries with
        | some e => if e.link then Outcome.ok (Val.str e.rel) else .err .isNotSymlink
        | none => .err .doesNotExist), s) := by
  simp only [step]
  msimp [absM_of_key hk]
  cases alLookup a s.entries with
  | none => rfl
  | some e => cases hl : e.link <;> msimp [hl]

theorem step_readlinkAbs_key {q : Str} {a : FsPath} (hk : keyOf env s q = some a) :
    step env s (.readlinkAbs q) =
      ((match alLookup a s.entries with
        | some e => if e.link then Outcome.ok (Val.path (e.alt.getD [])) else .err .isNotSymlink
        | none => .err .doesNotExist), s) := by
  simp only [step]
  msimp [absM_of_key hk]
  cases alLookup a s.entries with
  | none => rfl
  | some e => cases hl : e.link <;> msimp [hl]

theorem step_readAll_key {q : Str} {a : FsPath} (hk : keyOf env s q = some a) :
    step env s (.readAll q) =
      ((match alLookup a s.entries with
        | some e => if e.file then
            (match alLookup a s.files with
             | some b => (match decodeUtf8 b with | some d => Outcome.ok (Val.str d) | none => .err .ioInvalidData)
             | none => .err .doesNotExist)
          else .err .isNotFile
        | none =>
            (match alLookup a s.files with
             | some b => (match decodeUtf8 b with | some d => Outcome.ok (Val.str d) | none => .err .ioInvalidData)
             | none => .err .doesNotExist)), s) := by
  simp only [step, readAllM, cloneFileM]
  msimp [absM_of_key hk]
  cases alLookup a s.entries with
  | none =>
    msimp
    cases alLookup a s.files with
    | none => rfl
    | some b => msimp; cases decodeUtf8 b <;> rfl
  | some e =>
    cases hf : e.file <;> msimp [hf]
    cases alLookup a s.files with
    | none => rfl
    | some b => msimp; cases decodeUtf8 b <;> rfl

/-- `read` (+ `read_to_end`): the stored bytes, whatever they are -/
theorem step_read_key {q : Str} {a : FsPath} (hk : keyOf env s q = some a) :
    step env s (.read q) =
      ((match alLookup a s.entries with
        | some e => if e.file then
            (match alLookup a s.files with
             | some b => Outcome.ok (Val.bytes b)
             | none => .err .doesNotExist)
          else .err .isNotFile
        | none =>
            (match alLookup a s.files with
             | some b => Outcome.ok (Val.bytes b)
             | none => .err .doesNotExist)), s) := by
  simp only [step, cloneFileM]
  msimp [absM_of_key hk]
  cases alLookup a s.entries with
  | none =>
    msimp
    cases alLookup a s.files with
    | none => rfl
    | some b => rfl
  | some e =>
    cases hf : e.file <;> msimp [hf]
    cases alLookup a s.files with
    | none => rfl
    | some b => rfl

/-- the continuation of a vfs call, by outcome -/
def contOf (k : Option Val → State → MR) : Outcome Val → State → MR
  | .ok v, s' => k (some v) s'
  | .err _, s' => k none s'
  | .panic, s' => (.panic vfsPanic none, s')
  | .hang, s' => (.panic vfsHang none, s')

theorem call_of {op : Op} {o : Outcome Val} {s' : State} (h : step env s op = (o, s'))
    (k : Option Val → State → MR) : call env s op k = contOf k o s' := by
  unfold call; rw [h]; cases o <;> rfl

theorem chk_readAll (hok : StateOk s) {p : Str} {d : Str} (hst : StableArg env s p) :
    (runMacro env s (.readAll p d)).1 = .pass ↔ checkSpec env s (.readAll p d) = true := by
  cases hk : keyOf env s p with
  | none => simp [runMacro, absK_eq, hk, checkSpec, pHasText, nodeOf_none hk, pm]
  | some a =>
    have hs := hst.of_key hk
    simp only [runMacro, absK_eq, hk, boolK_isFile, eTest_stable hs, call_of (step_readAll_key hs),
      checkSpec, pHasText, nodeOf_key hk]
    unfold contOf
    unfold eAt
    cases he : alLookup a s.entries with
    | none => simp [pm]
    | some e =>
      obtain ⟨h1, h2⟩ := stateOk_lookup hok he
      cases hf : e.file <;> cases hl : e.link <;> cases hd : e.dir <;>
        simp_all [pm, absNode, kindOf]
      cases hb : alLookup a s.files with
      | none => rw [hb] at h2; cases h2
      | some b =>
        simp only [Option.getD]
        cases hdec : decodeUtf8 b with
        | none => simp
        | some d' => by_cases hdd : d' = d <;> simp [hdd]

theorem chk_readlink {p : Str} {t : Str} (hst : StableArg env s p) :
    (runMacro env s (.readlink p t)).1 = .pass ↔ checkSpec env s (.readlink p t) = true := by
  cases hk : keyOf env s p with
  | none => simp [runMacro, absK_eq, hk, checkSpec, pRelTarget, pIsLink, nodeOf_none hk, pm]
  | some a =>
    have hs := hst.of_key hk
    simp only [runMacro, absK_eq, hk, boolK_isSymlink, eTest_stable hs, call_of (step_readlink_key hs),
      checkSpec, pRelTarget, pIsLink_key hk, step_readlink_key hk]
    unfold contOf eAt
    cases he : alLookup a s.entries with
    | none => simp [pm]
    | some e =>
      cases hl : e.link
      · simp [pm, hl]
      · by_cases hdd : e.rel = t <;> simp [pm, hdd, hl]

theorem chk_readlinkAbs (hok : StateOk s) {p : Str} {t : Str} (hst : StableArg env s p) :
    (runMacro env s (.readlinkAbs p t)).1 = .pass ↔ checkSpec env s (.readlinkAbs p t) = true := by
  cases hk : keyOf env s p with
  | none =>
    cases hkt : keyOf env s t <;> simp [runMacro, absK_eq, hk, hkt, pm, checkSpec, pLinksTo, nodeOf_none hk]
  | some a =>
    have hs := hst.of_key hk
    cases hkt : keyOf env s t with
    | none => simp [runMacro, absK_eq, hk, hkt, pm, checkSpec]
    | some ta =>
      simp only [runMacro, absK_eq, hk, hkt, boolK_isSymlink, eTest_stable hs,
        call_of (step_readlinkAbs_key hs), checkSpec, pLinksTo, nodeOf_key hk]
      unfold contOf eAt
      cases he : alLookup a s.entries with
      | none => simp [pm]
      | some e =>
        cases hl : e.link
        · cases hd : e.dir <;> simp [pm, hl, hd, absNode, kindOf, isLinkKind]
        · obtain ⟨tg, htg⟩ := stateOk_link hok he hl
          by_cases heq : tg = ta
          · cases hd : e.dir <;> simp [pm, hl, hd, absNode, kindOf, isLinkKind, htg, heq]
          · cases hd : e.dir <;> simp [pm, hl, hd, absNode, kindOf, isLinkKind, htg, heq]

/-! ### checking macros never change the state -/

theorem absK_state {p : Str} {n msg : String} {k : FsPath → State → MR} (hk : ∀ a, (k a s).2 = s) :
    (absK env s p n msg k).2 = s := by
  rw [absK_eq]; split
  · exact hk _
  · rfl

theorem boolK_state {op : Op} {p : Str} {f : Entry → Bool} (hop : step env s op = boolQuery env p f s)
    {k : Bool → State → MR} (hk : ∀ b, (k b s).2 = s) : (boolK env s op k).2 = s := by
  rw [boolK_eq hop]; exact hk _

theorem step_readAll_state (q : Str) : (step env s (.readAll q)).2 = s := by
  cases hk : keyOf env s q with
  | some a => rw [step_readAll_key hk]
  | none =>
    obtain ⟨kk, hkk⟩ := absM_of_none hk
    simp only [step, readAllM, cloneFileM]; msimp [hkk]

theorem step_read_state (q : Str) : (step env s (.read q)).2 = s := by
  cases hk : keyOf env s q with
  | some a => rw [step_read_key hk]
  | none =>
    obtain ⟨kk, hkk⟩ := absM_of_none hk
    simp only [step, cloneFileM]; msimp [hkk]

theorem step_readlink_state (q : Str) : (step env s (.readlink q)).2 = s := by
  cases hk : keyOf env s q with
  | some a => rw [step_readlink_key hk]
  | none =>
    obtain ⟨kk, hkk⟩ := absM_of_none hk
    simp only [step]; msimp [hkk]

theorem step_readlinkAbs_state (q : Str) : (step env s (.readlinkAbs q)).2 = s := by
  cases hk : keyOf env s q with
  | some a => rw [step_readlinkAbs_key hk]
  | none =>
    obtain ⟨kk, hkk⟩ := absM_of_none hk
    simp only [step]; msimp [hkk]

theorem call_state {op : Op} (hop : (step env s op).2 = s) {k : Option Val → State → MR}
    (hk : ∀ v, (k v s).2 = s) : (call env s op k).2 = s := by
  cases h : step env s op with
  | mk o s' =>
    rw [h] at hop; simp only at hop; subst hop
    rw [call_of h]
    cases o <;> first | exact hk _ | rfl

theorem boolK_state_exists {q : Str} {k : Bool → State → MR} (hk : ∀ b, (k b s).2 = s) :
    (boolK env s (.exists q) k).2 = s := boolK_state rfl hk
theorem boolK_state_isDir {q : Str} {k : Bool → State → MR} (hk : ∀ b, (k b s).2 = s) :
    (boolK env s (.isDir q) k).2 = s := boolK_state rfl hk
theorem boolK_state_isFile {q : Str} {k : Bool → State → MR} (hk : ∀ b, (k b s).2 = s) :
    (boolK env s (.isFile q) k).2 = s := boolK_state rfl hk
theorem boolK_state_isSymlink {q : Str} {k : Bool → State → MR} (hk : ∀ b, (k b s).2 = s) :
    (boolK env s (.isSymlink q) k).2 = s := boolK_state rfl hk

macro "mstate" : tactic => `(tactic| repeat ((try dsimp only) <;> first
  | (with_reducible rfl)
  | (with_reducible refine absK_state fun _ => ?_)
  | (with_reducible refine boolK_state_exists fun _ => ?_)
  | (with_reducible refine boolK_state_isDir fun _ => ?_)
  | (with_reducible refine boolK_state_isFile fun _ => ?_)
  | (with_reducible refine boolK_state_isSymlink fun _ => ?_)
  | (with_reducible refine call_state (step_readAll_state _) fun _ => ?_)
  | (with_reducible refine call_state (step_readlink_state _) fun _ => ?_)
  | (with_reducible refine call_state (step_readlinkAbs_state _) fun _ => ?_)
  | split))

theorem checking_state (m : MacroCall) (hm : isChecking m = true) : (runMacro env s m).2 = s := by
  cases m <;> simp only [isChecking, Bool.false_eq_true] at hm <;> unfold runMacro <;> mstate

/-! ### which name a panic message carries -/

/-- every panic of `r` names the macro `m` itself; when `inner`, a panic / hang of the vfs call
    itself is also possible, which carries no macro message at all -/
def NameP (inner : Bool) (m : MacroCall) (r : MR) : Prop :=
  ∀ n msg, r.1 = .panic n msg →
    n = nameOf m ∨ (inner = true ∧ (n = vfsPanic ∨ n = vfsHang) ∧ msg = none)

theorem nameP_pass {b : Bool} {m : MacroCall} {s : State} : NameP b m (.pass, s) := by
  intro n msg h; cases h

theorem nameP_pm {b : Bool} {m : MacroCall} {s : State} {name msg : String} (h : name = nameOf m) :
    NameP b m (pm name msg, s) := by
  intro n msg' hh
  simp only [pm, MOut.panic.injEq] at hh
  exact Or.inl (hh.1 ▸ h)

theorem nameP_panic {b : Bool} {m : MacroCall} {s : State} {name : String} (h : name = nameOf m) :
    NameP b m (.panic name none, s) := by
  intro n msg' hh
  simp only [MOut.panic.injEq] at hh
  exact Or.inl (hh.1 ▸ h)

theorem call_nameP_inner {m : MacroCall} {op : Op} {k : Option Val → State → MR}
    (hk : ∀ v s', NameP true m (k v s')) : NameP true m (call env s op k) := by
  cases h : step env s op with
  | mk o s' =>
    rw [call_of h]
    cases o with
    | ok v => exact hk _ _
    | err e => exact hk _ _
    | panic => intro n msg hh; simp only [contOf, MOut.panic.injEq] at hh; exact Or.inr ⟨rfl, Or.inl hh.1.symm, hh.2.symm⟩
    | hang => intro n msg hh; simp only [contOf, MOut.panic.injEq] at hh; exact Or.inr ⟨rfl, Or.inr hh.1.symm, hh.2.symm⟩

theorem call_nameP_total {b : Bool} {m : MacroCall} {op : Op} {k : Option Val → State → MR}
    (ht : Lemmas.Outcome.Total (step env s op).1)
    (hk : ∀ v s', NameP b m (k v s')) : NameP b m (call env s op k) := by
  cases h : step env s op with
  | mk o s' =>
    rw [h] at ht
    rw [call_of h]
    cases o with
    | ok v => exact hk _ _
    | err e => exact hk _ _
    | panic => exact absurd rfl ht.1
    | hang => exact absurd rfl ht.2

theorem step_abs_total (q : Str) : Lemmas.Outcome.Total (step env s (.abs q)).1 := by
  cases hk : keyOf env s q with
  | some a => simp only [step, mapVal, absM_of_key hk]; exact Lemmas.Outcome.total_ok _
  | none =>
    obtain ⟨kk, hkk⟩ := absM_of_none hk
    simp only [step, mapVal, hkk]; exact Lemmas.Outcome.total_err _

theorem absK_nameP {b : Bool} {m : MacroCall} {p : Str} {name msg : String} {k : FsPath → State → MR}
    (hn : name = nameOf m) (hk : ∀ a s', NameP b m (k a s')) : NameP b m (absK env s p name msg k) := by
  unfold absK
  refine call_nameP_total (step_abs_total p) fun v s' => ?_
  split
  · exact hk _ _
  · exact nameP_pm hn

theorem boolK_nameP {b : Bool} {m : MacroCall} {op : Op} {p : Str} {f : Entry → Bool}
    (hop : ∀ s, step env s op = boolQuery env p f s) {k : Bool → State → MR}
    (hk : ∀ x s', NameP b m (k x s')) : NameP b m (boolK env s op k) := by
  unfold boolK
  refine call_nameP_total (by rw [hop, boolQuery_eq]; exact Lemmas.Outcome.total_ok _) fun v s' => ?_
  split <;> exact hk _ _

theorem boolK_nameP_exists {b : Bool} {m : MacroCall} {q : Str} {k : Bool → State → MR}
    (hk : ∀ x s', NameP b m (k x s')) : NameP b m (boolK env s (.exists q) k) := boolK_nameP (fun _ => rfl) hk
theorem boolK_nameP_isDir {b : Bool} {m : MacroCall} {q : Str} {k : Bool → State → MR}
    (hk : ∀ x s', NameP b m (k x s')) : NameP b m (boolK env s (.isDir q) k) := boolK_nameP (fun _ => rfl) hk
theorem boolK_nameP_isFile {b : Bool} {m : MacroCall} {q : Str} {k : Bool → State → MR}
    (hk : ∀ x s', NameP b m (k x s')) : NameP b m (boolK env s (.isFile q) k) := boolK_nameP (fun _ => rfl) hk
theorem boolK_nameP_isSymlink {b : Bool} {m : MacroCall} {q : Str} {k : Bool → State → MR}
    (hk : ∀ x s', NameP b m (k x s')) : NameP b m (boolK env s (.isSymlink q) k) := boolK_nameP (fun _ => rfl) hk

theorem step_readAll_total (q : Str) : Lemmas.Outcome.Total (step env s (.readAll q)).1 := by
  cases hk : keyOf env s q with
  | some a =>
    rw [step_readAll_key hk]; simp only
    repeat' split
    all_goals first | exact Lemmas.Outcome.total_ok _ | exact Lemmas.Outcome.total_err _
  | none =>
    obtain ⟨kk, hkk⟩ := absM_of_none hk
    simp only [step, readAllM, cloneFileM]; msimp [hkk]; exact Lemmas.Outcome.total_err _

theorem step_read_total (q : Str) : Lemmas.Outcome.Total (step env s (.read q)).1 := by
  cases hk : keyOf env s q with
  | some a =>
    rw [step_read_key hk]; simp only
    repeat' split
    all_goals first | exact Lemmas.Outcome.total_ok _ | exact Lemmas.Outcome.total_err _
  | none =>
    obtain ⟨kk, hkk⟩ := absM_of_none hk
    simp only [step, cloneFileM]; msimp [hkk]; exact Lemmas.Outcome.total_err _

theorem step_readlink_total (q : Str) : Lemmas.Outcome.Total (step env s (.readlink q)).1 := by
  cases hk : keyOf env s q with
  | some a =>
    rw [step_readlink_key hk]; simp only
    repeat' split
    all_goals first | exact Lemmas.Outcome.total_ok _ | exact Lemmas.Outcome.total_err _
  | none =>
    obtain ⟨kk, hkk⟩ := absM_of_none hk
    simp only [step]; msimp [hkk]; exact Lemmas.Outcome.total_err _

theorem step_readlinkAbs_total (q : Str) : Lemmas.Outcome.Total (step env s (.readlinkAbs q)).1 := by
  cases hk : keyOf env s q with
  | some a =>
    rw [step_readlinkAbs_key hk]; simp only
    repeat' split
    all_goals first | exact Lemmas.Outcome.total_ok _ | exact Lemmas.Outcome.total_err _
  | none =>
    obtain ⟨kk, hkk⟩ := absM_of_none hk
    simp only [step]; msimp [hkk]; exact Lemmas.Outcome.total_err _


macro "mname" : tactic => `(tactic| repeat ((try dsimp only) <;> first
  | (with_reducible exact nameP_pass)
  | ((with_reducible refine nameP_pm ?_) <;> rfl)
  | ((with_reducible refine nameP_panic ?_) <;> rfl)
  | ((with_reducible refine absK_nameP ?_ (fun _ _ => ?_)); rfl)
  | (with_reducible refine boolK_nameP_exists (fun _ _ => ?_))
  | (with_reducible refine boolK_nameP_isDir (fun _ _ => ?_))
  | (with_reducible refine boolK_nameP_isFile (fun _ _ => ?_))
  | (with_reducible refine boolK_nameP_isSymlink (fun _ _ => ?_))
  | (with_reducible refine call_nameP_total (step_readAll_total _) (fun _ _ => ?_))
  | (with_reducible refine call_nameP_total (step_readlink_total _) (fun _ _ => ?_))
  | (with_reducible refine call_nameP_total (step_readlinkAbs_total _) (fun _ _ => ?_))
  | (with_reducible refine call_nameP_inner (fun _ _ => ?_))
  | split))

/-- checking macros: the vfs calls they make always return, so the name is always the macro's own -/
theorem checking_names (m : MacroCall) (hm : isChecking m = true) (s : State) :
    NameP false m (runMacro env s m) := by
  cases m <;> simp only [isChecking, Bool.false_eq_true] at hm <;> unfold runMacro <;> mname

theorem all_names (m : MacroCall) (s : State) : NameP true m (runMacro env s m) := by
  cases m <;> unfold runMacro <;> mname


/-! ### the checking macros, together -/

/-- every path argument the macro hands back to the vfs resolves to a stable key (`readlink_abs`
    never re-resolves its second argument; `symlink` passes its target on unresolved) -/
def ArgsStable (env : Env) (s : State) : MacroCall → Prop
  | .exists p | .noExists p | .isDir p | .noDir p | .isFile p | .noFile p | .isSymlink p | .noSymlink p
  | .readAll p _ | .readlink p _ | .readlinkAbs p _ | .mkdirP p | .mkdirM p _ | .mkfile p
  | .writeAll p _ | .symlink p _ | .remove p | .removeAll p => StableArg env s p
  | .copyfile a b => StableArg env s a ∧ StableArg env s b

instance (env : Env) (s : State) (m : MacroCall) : Decidable (ArgsStable env s m) := by
  cases m <;> unfold ArgsStable <;> infer_instance

/-- the checking macros whose code decides the documented predicate -/
def faithfulCheck : MacroCall → Bool
  | .exists _ | .noExists _ | .isDir _ | .isFile _ | .isSymlink _ | .noSymlink _ | .readAll _ _
  | .readlink _ _ | .readlinkAbs _ _ => true
  | _ => false

theorem checking_iff (m : MacroCall) (hm : faithfulCheck m = true) (hok : StateOk s)
    (hst : ArgsStable env s m) : (runMacro env s m).1 = .pass ↔ checkSpec env s m = true := by
  cases m <;> simp only [faithfulCheck, Bool.false_eq_true] at hm
  · exact chk_exists hst
  · exact chk_noExists hst
  · exact chk_isDir hst
  · exact chk_isFile hok hst
  · exact chk_isSymlink hst
  · exact chk_noSymlink hst
  · exact chk_readAll hok hst
  · exact chk_readlink hst
  · exact chk_readlinkAbs hok hst


/-! ### the deviating checking macros on the domain where they are right -/

theorem pIsDir_exists {p : Str} (h : pIsDir env s p = true) : pExists env s p = true := by
  unfold pIsDir at h; unfold pExists
  cases hn : nodeOf env s p with
  | none => rw [hn] at h; cases h
  | some n => rfl

theorem pIsFile_exists {p : Str} (h : pIsFile env s p = true) : pExists env s p = true := by
  unfold pIsFile at h; unfold pExists
  cases hn : nodeOf env s p with
  | none => rw [hn] at h; cases h
  | some n => rfl

theorem noDir_partial {p : Str} (hst : StableArg env s p)
    (hdom : pExists env s p = false ∨ pIsDir env s p = true) :
    (runMacro env s (.noDir p)).1 = .pass ↔ checkSpec env s (.noDir p) = true := by
  rw [run_noDir_iff hst]
  simp only [checkSpec]
  rcases hdom with h | h
  · have h2 : pIsDir env s p = false := by
      cases hd : pIsDir env s p with
      | false => rfl
      | true => rw [pIsDir_exists hd] at h; cases h
    rw [h, h2]
  · rw [pIsDir_exists h, h]

theorem noFile_partial {p : Str} (hst : StableArg env s p)
    (hdom : pExists env s p = false ∨ pIsFile env s p = true) :
    (runMacro env s (.noFile p)).1 = .pass ↔ checkSpec env s (.noFile p) = true := by
  rw [run_noFile_iff hst]
  simp only [checkSpec]
  rcases hdom with h | h
  · have h2 : pIsFile env s p = false := by
      cases hd : pIsFile env s p with
      | false => rfl
      | true => rw [pIsFile_exists hd] at h; cases h
    rw [h, h2]
  · rw [pIsFile_exists h, h]

/-- `StateOk` is implied by the C03 invariant together with the per-entry facts of C01 -/
theorem stateOk_of_inv (hI : Spec.Inv s) (hE : EntriesOk s) : StateOk s := by
  unfold StateOk
  rw [List.all_eq_true]
  intro kv hkv
  have hF := inv_facts hI
  obtain ⟨k, e⟩ := kv
  have hnd : (s.entries.map (·.1)).Nodup := by
    unfold Spec.Inv invViolation at hI
    simp only at hI
    split at hI
    · cases hI
    · rename_i h; simpa using h
  have hl : alLookup k s.entries = some e := Lemmas.InvC.alLookup_of_mem hnd hkv
  have h1 := (entriesOk_lookup hE hl).flags
  have h3 := (entriesOk_lookup hE hl).link
  have h2 := hF.data k e hl
  simp only [entryWfB, Bool.and_eq_true, decide_eq_true_eq, Bool.or_eq_true, Bool.not_eq_true']
  refine ⟨⟨h1, ?_⟩, ?_⟩
  · rw [h2]
    cases e.file && !e.link <;> simp
  · cases hlk : e.link with
    | false => exact Or.inl rfl
    | true => obtain ⟨tg, htg, _⟩ := h3 hlk; exact Or.inr (by rw [htg]; rfl)

theorem macroSpec_checking (env : Env) (s : State) (m : MacroCall) (hm : isChecking m = true) :
    macroSpec env s m = (checkSpec env s m, s) := by
  cases m <;> simp only [isChecking, Bool.false_eq_true] at hm <;> rfl

theorem macroSpec_of_not_noop {m : MacroCall} (h : documentedNoop env s m = false) :
    macroSpec env s m =
      match opOf m with
      | none => (checkSpec env s m, s)
      | some op => ((step env s op).1.isOk && postSpec env (step env s op).2 m, (step env s op).2) := by
  unfold macroSpec; rw [h]; rfl

theorem macroSpec_of_noop {m : MacroCall} (h : documentedNoop env s m = true) :
    macroSpec env s m = (true, s) := by
  unfold macroSpec; rw [h]; rfl

end Rivia.MacroLemmas
