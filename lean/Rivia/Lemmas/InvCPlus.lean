/-
  Rivia.Lemmas.InvCPlus — the two side invariants of the global C03 induction for `copy`/`copy_b`:
  keys are lists of well-formed pieces (`KeysWf`), child lists are sorted (`SortedKids`).

  * `dstOf_wf`: every key `dst_root.mash(path.trim_prefix(prefix))` consists of `BodyPiece`s, for
    all arguments (`mash` re-collects the components of a rooted string).
  * `PresG P m` / `PG R C`: the "every exit keeps it" calculus for predicates that talk about each
    stored (key, entry) pair and the working directory; `PresG.copyM` is the generic `_copy` theorem.
-/
import Rivia.Lemmas.InvC
import Rivia.Lemmas.User
import Rivia.Lemmas.Relative
open Rivia Rivia.Memfs Rivia.Spec Rivia.Lemmas

namespace Rivia.Lemmas.InvC

/-! ### keys produced by `dst_root.mash(..)` are well formed -/

def KeyWf (k : FsPath) : Prop := ∀ n ∈ k, BodyPiece n

theorem isRooted_push {d : Str} (hd : isRooted d = true) (p : Str) : isRooted (push d p) = true := by
  have hne : d ≠ [] := by rintro rfl; cases hd
  unfold push
  split
  · assumption
  · split
    · rw [isRooted_append hne]; exact hd
    · rw [isRooted_append hne]; exact hd

theorem toPath_bufOf {ps : List Str} (h : ∀ p ∈ ps, BodyPiece p) : toPath (bufOf true ps) = ps := by
  unfold toPath
  by_cases hne : ps = []
  · subst hne; decide
  · rw [splitSlash_bufOf hne h]
    simp only [if_true, List.filter_append]
    have : ps.filter (fun x => decide (x ≠ [])) = ps := by
      rw [List.filter_eq_self]
      intro p hp; simpa using (h p hp).1
    rw [this]; rfl

theorem toPath_mash_wf {d : Str} (hd : isRooted d = true) (b : Str) : KeyWf (toPath (mash d b)) := by
  unfold mash
  generalize hX : push d (stripSlashes b) = X
  have hr : isRooted X = true := by rw [← hX]; exact isRooted_push hd _
  have hc : components X = .root :: (splitSlash X).filterMap bodyComp := by
    unfold components; rw [hr]; rfl
  have hbody : ∀ c ∈ (splitSlash X).filterMap bodyComp, BodyCU c :=
    bodyCU_filterMap (not_mem_of_mem_splitOn '/' X)
  rw [hc, render_root_body hbody, toPath_bufOf (bodyPiece_map_str hbody)]
  exact bodyPiece_map_str hbody

theorem dstOf_wf (dstRoot path pre : FsPath) : KeyWf (dstOf dstRoot path pre) := by
  unfold dstOf
  exact toPath_mash_wf rfl _

theorem KeyWf.take {k : FsPath} (h : KeyWf k) (n : Nat) : KeyWf (k.take n) :=
  fun x hx => h x (List.mem_of_mem_take hx)

theorem KeyWf.dropLast {k : FsPath} (h : KeyWf k) : KeyWf k.dropLast :=
  fun x hx => h x (List.dropLast_subset _ hx)

theorem KeyWf.prefixes {k : FsPath} (h : KeyWf k) : ∀ q ∈ prefixes k, KeyWf q := by
  intro q hq
  unfold Memfs.prefixes at hq
  obtain ⟨n, _, rfl⟩ := List.mem_map.1 hq
  exact h.take n

/-! ### per-entry predicates: a second, generic "every exit keeps it" calculus -/

def PresG {α} (P : State → Prop) (m : M α) : Prop := ∀ s, P s → P (m s).2

theorem PresG.bind {α β} {P : State → Prop} {m : M α} {f : α → M β} (hm : PresG P m)
    (hf : ∀ a, PresG P (f a)) : PresG P (M.bind m f) := by
  intro s h
  have h1 := hm s h
  unfold M.bind
  cases hms : m s with
  | mk o s' =>
    rw [hms] at h1
    cases o with
    | ok a => exact hf a s' h1
    | err k => exact h1
    | panic => exact h1
    | hang => exact h1

theorem PresG.pure {α} {P : State → Prop} (a : α) : PresG P (M.pure a) := fun _ h => h
theorem PresG.fail {α} {P : State → Prop} (k : ErrKind) : PresG P (M.fail k : M α) := fun _ h => h
theorem PresG.getEntry {P : State → Prop} (p : FsPath) : PresG P (Memfs.getEntry p) := fun _ h => h
theorem PresG.getFile {P : State → Prop} (p : FsPath) : PresG P (Memfs.getFile p) := fun _ h => h
theorem PresG.liftO {α} {P : State → Prop} (o : Outcome α) : PresG P (M.liftO o) := fun _ h => h
theorem PresG.get {P : State → Prop} : PresG P M.get := fun _ h => h
theorem PresG.dirOf {P : State → Prop} (p : FsPath) : PresG P (Memfs.dirOf p) := by
  unfold Memfs.dirOf; split
  · exact PresG.fail _
  · exact PresG.pure _
theorem PresG.dirOf_bind {β} {P : State → Prop} (p : FsPath) (f : FsPath → M β)
    (hf : PresG P (f p.dropLast)) : PresG P (M.bind (Memfs.dirOf p) f) := by
  unfold Memfs.dirOf; split
  · exact fun _ h => h
  · exact hf
theorem PresG.absM {P : State → Prop} (env : Env) (p : Str) : PresG P (Memfs.absM env p) := by
  intro s h
  unfold Memfs.absM
  split <;> exact h
theorem PresG.ite {α} {P : State → Prop} {c : Prop} [Decidable c] {a b : M α} (ha : PresG P a)
    (hb : PresG P b) : PresG P (if c then a else b) := by
  split
  · exact ha
  · exact hb
theorem PresG.fail_bind {α β} {P : State → Prop} (k : ErrKind) (f : α → M β) :
    PresG P (M.bind (M.fail k) f) := fun _ h => h
theorem PresG.pure_bind {α β} {P : State → Prop} (a : α) (f : α → M β) (h : PresG P (f a)) :
    PresG P (M.bind (M.pure a) f) := h
theorem PresG.forM {α} {P : State → Prop} (f : α → M PUnit) (l : List α) (hf : ∀ a ∈ l, PresG P (f a)) :
    PresG P (l.forM f) := by
  induction l with
  | nil => exact PresG.pure _
  | cons q r ih =>
    exact PresG.bind (hf q List.mem_cons_self) (fun _ => ih fun a ha => hf a (List.mem_cons_of_mem _ ha))

theorem mem_alInsert {β} {k : FsPath} {v : β} {l : List (FsPath × β)} {kv : FsPath × β}
    (h : kv ∈ alInsert k v l) : kv = (k, v) ∨ kv ∈ l := by
  induction l with
  | nil => simp only [alInsert, List.mem_singleton] at h; exact Or.inl h
  | cons x r ih =>
    obtain ⟨a, b⟩ := x
    simp only [alInsert] at h
    split at h
    · rcases List.mem_cons.1 h with h | h
      · exact Or.inl h
      · exact Or.inr (List.mem_cons_of_mem _ h)
    · rcases List.mem_cons.1 h with h | h
      · exact Or.inr (h ▸ List.mem_cons_self)
      · rcases ih h with h | h
        · exact Or.inl h
        · exact Or.inr (List.mem_cons_of_mem _ h)

/-- every exit of `_add`, without assuming anything about the state -/
theorem add_cases0 (e : Entry) (s : State) :
    (add e s).2 = s ∨ ∃ d b d', alLookup e.path.dropLast s.entries = some d ∧
      d.addChild (baseName e.path) = .ok (b, d') ∧
      (add e s).2 = { s with
        files := if (!e.link && e.file) = true then alInsert e.path [] s.files else s.files
        entries := alInsert e.path.dropLast d' (alInsert e.path e s.entries) } := by
  unfold add
  simp only [bind, pure, setEntry, setFile]
  by_cases hp : e.path = []
  · left; rw [if_pos hp]; rfl
  rw [if_neg hp, bind_getEntry]
  cases hd : alLookup e.path.dropLast s.entries with
  | none => left; rfl
  | some d =>
    simp only []
    by_cases hc : (!d.dir || d.link) = true
    · left; rw [if_pos hc]; rfl
    rw [if_neg hc, bind_getEntry]
    have hdd : d.dir = true := by cases hx : d.dir <;> simp_all
    cases hx : alLookup e.path s.entries with
    | some x =>
      left; simp only []
      split
      · rfl
      · split
        · rfl
        · split <;> rfl
    | none =>
      right
      have hac : ∃ b d', d.addChild (baseName e.path) = .ok (b, d') := by
        simp only [Entry.addChild, hdd]
        cases d.files with
        | none => exact ⟨_, _, rfl⟩
        | some fs => exact ⟨_, _, rfl⟩
      obtain ⟨b, d', hac⟩ := hac
      refine ⟨d, b, d', rfl, hac, ?_⟩
      have hne : e.path ≠ e.path.dropLast := (dropLast_ne _ hp).symm
      simp only []
      split
      · rename_i hcond
        rw [bind_modify, bind_modify, bind_getEntry]
        simp only [alLookup_alInsert, if_neg hne, hd, hac, bind_liftO_ok, bind_modify]
        split <;> rfl
      · rename_i hcond
        rw [bind_modify, bind_getEntry]
        simp only [alLookup_alInsert, if_neg hne, hd, hac, bind_liftO_ok, bind_modify]
        split <;> rfl

section PerEntry
variable (R : FsPath → Entry → Prop) (C : FsPath → Prop)

/-- `R` holds of every stored (key, entry) pair and `C` of the working directory -/
def PG (s : State) : Prop := (∀ kv ∈ s.entries, R kv.1 kv.2) ∧ C s.cwd

variable {R C}

theorem PresG.add (hchild : ∀ k d n b d', R k d → Entry.addChild d n = .ok (b, d') → R k d')
    (e : Entry) (hRe : R e.path e) : PresG (PG R C) (Memfs.add e) := by
  intro s h
  rcases add_cases0 e s with h1 | ⟨d, b, d', hd, hac, h1⟩
  · rw [h1]; exact h
  · rw [h1]
    refine ⟨?_, h.2⟩
    intro kv hkv
    rcases mem_alInsert hkv with rfl | hkv
    · exact hchild _ d _ b d' (h.1 _ (mem_of_alLookup hd)) hac
    · rcases mem_alInsert hkv with rfl | hkv
      · exact hRe
      · exact h.1 kv hkv

theorem PresG.setFile (p : FsPath) (b : File.Bytes) : PresG (PG R C) (Memfs.setFile p b) := fun _ h => h

theorem PresG.getEntry_bind {β} (p : FsPath) (f : Option Entry → M β)
    (hf : ∀ x, (∀ e, x = some e → R p e) → PresG (PG R C) (f x)) :
    PresG (PG R C) (M.bind (Memfs.getEntry p) f) := by
  intro s h
  rw [bind_getEntry]
  exact hf _ (fun e he => h.1 _ (mem_of_alLookup he)) s h

theorem PresG.mkdirM (hchild : ∀ k d n b d', R k d → Entry.addChild d n = .ok (b, d') → R k d')
    (p : FsPath) (mode : Option Nat) (hmk : ∀ q ∈ prefixes p, R q (mkDirEntry q mode)) :
    PresG (PG R C) (Memfs.mkdirM p mode) := by
  unfold Memfs.mkdirM
  refine PresG.forM _ _ (fun q hq => ?_)
  exact PresG.bind (PresG.add hchild _ (hmk q hq)) (fun _ => PresG.pure _)

theorem ite_none_or (b : Bool) :
    (if b = true then some ([] : List Str) else none) = none ∨
      (if b = true then some ([] : List Str) else none) = some [] := by
  cases b
  · exact Or.inl rfl
  · exact Or.inr rfl

theorem PresG.symlinkAbs (hchild : ∀ k d n b d', R k d → Entry.addChild d n = .ok (b, d') → R k d')
    (l t : FsPath) (hl : ∀ e : Entry, (e.files = none ∨ e.files = some []) → R l e) :
    PresG (PG R C) (Memfs.symlinkAbs l t) := by
  unfold Memfs.symlinkAbs
  refine PresG.bind (PresG.getEntry _) fun x => ?_
  refine PresG.ite (PresG.fail _) ?_
  refine PresG.bind (PresG.dirOf _) fun ld => ?_
  refine PresG.bind (PresG.getEntry _) fun tx => ?_
  refine PresG.bind (PresG.add hchild _ (hl _ ?_)) fun _ => PresG.pure _
  exact ite_none_or _

theorem copyTail_presG (dstPath srcPath : FsPath) (srcFile : Bool) :
    PresG (PG R C) (M.bind (getFile dstPath) fun y =>
      if y.isNone = true then
        M.bind (M.fail ErrKind.isNotFile) fun (_ : Unit) =>
          if (!srcFile) = true then
            M.bind (M.fail ErrKind.isNotFile) fun (_ : Unit) =>
              M.bind (getFile srcPath) fun y2 =>
                match y2 with
                | some b => setFile dstPath b
                | none => M.fail ErrKind.doesNotExist
          else
            M.bind (getFile srcPath) fun y2 =>
              match y2 with
              | some b => setFile dstPath b
              | none => M.fail ErrKind.doesNotExist
      else
        if (!srcFile) = true then
          M.bind (M.fail ErrKind.isNotFile) fun (_ : Unit) =>
            M.bind (getFile srcPath) fun y2 =>
              match y2 with
              | some b => setFile dstPath b
              | none => M.fail ErrKind.doesNotExist
        else
          M.bind (getFile srcPath) fun y2 =>
            match y2 with
            | some b => setFile dstPath b
            | none => M.fail ErrKind.doesNotExist) := by
  refine PresG.bind (PresG.getFile _) fun y => ?_
  refine PresG.ite (PresG.fail_bind _ _) (PresG.ite (PresG.fail_bind _ _) ?_)
  refine PresG.bind (PresG.getFile _) fun y2 => ?_
  cases y2 with
  | none => exact PresG.fail _
  | some b => exact PresG.setFile _ _

set_option linter.unusedSimpArgs false in
/-- `_copy` keeps `PG R C` at every exit, provided `R` is kept by `MemfsEntry::add`, holds of fresh
    childless entries under good keys (`K`), is inherited by a re-keyed copy of a stored entry, and
    the destination keys are good -/
theorem PresG.copyM (K : FsPath → Prop)
    (hchild : ∀ k d n b d', R k d → Entry.addChild d n = .ok (b, d') → R k d')
    (hfresh : ∀ k (e : Entry), K k → (e.files = none ∨ e.files = some []) → R k e)
    (hcopy : ∀ k (srcE : Entry) p m, R k srcE → K p → R p (({ srcE with path := p }).setMode m))
    (hKtake : ∀ k n, K k → K (List.take n k))
    (hKdst : ∀ a b c, K (dstOf a b c))
    (env : Env) (src dst : Str) (c : CopyOpts) : PresG (PG R C) (Memfs.copyM env src dst c) := by
  have hKpre : ∀ k, K k → ∀ q ∈ prefixes k, K q := by
    intro k hk q hq
    unfold Memfs.prefixes at hq
    obtain ⟨n, _, rfl⟩ := List.mem_map.1 hq
    exact hKtake k n hk
  have hKdrop : ∀ k, K k → K k.dropLast := by
    intro k hk; rw [List.dropLast_eq_take]; exact hKtake k _ hk
  have hmkdir : ∀ p mode, K p → PresG (PG R C) (Memfs.mkdirM p mode) := fun p mode hp =>
    PresG.mkdirM hchild p mode (fun q hq => hfresh q _ (hKpre p hp q hq) (Or.inr rfl))
  unfold Memfs.copyM
  simp only [bind, pure]
  refine PresG.bind (PresG.absM _ _) fun srcRoot => ?_
  refine PresG.bind (PresG.absM _ _) fun dstRoot => ?_
  refine PresG.ite (PresG.pure _) ?_
  refine PresG.bind PresG.get fun s => ?_
  cases alLookup srcRoot s.entries with
  | none => exact PresG.fail_bind _ _
  | some rootE0 =>
    refine PresG.pure_bind _ _ ?_
    refine PresG.bind (PresG.liftO _) fun x => ?_
    intro st hst
    refine runIter_pres _ _ _ (PG R C) (noPre_pres _) _ _ ?_ _ _ _ hst
    intro e
    show PresG (PG R C) _
    refine PresG.ite (PresG.bind (PresG.dirOf _) fun pre => ?_) (PresG.pure_bind _ _ ?_)
    all_goals
      refine PresG.ite (PresG.bind (PresG.symlinkAbs hchild _ _
        (fun e' he' => hfresh _ e' (hKdst _ _ _) he')) fun _ => PresG.pure _) ?_
      refine PresG.getEntry_bind _ _ fun y hy => ?_
      cases y with
      | none => exact PresG.fail_bind _ _
      | some srcE =>
        have hc := hy srcE rfl
        refine PresG.pure_bind _ _ ?_
        refine PresG.ite (hmkdir _ _ (hKdst _ _ _)) ?_
        refine PresG.dirOf_bind _ _ ?_
        refine PresG.bind (PresG.getEntry _) fun z => ?_
        have hfile : ∀ p m, K p → PresG (PG R C)
            (M.bind (Memfs.add (({ srcE with path := p }).setMode m)) fun _ =>
              if (!srcE.link) = true then _ else M.pure ()) := fun p m hp =>
          PresG.bind (PresG.add hchild (({ srcE with path := p }).setMode m) (hcopy _ srcE p m hc hp))
            fun _ => PresG.ite (copyTail_presG p srcE.path srcE.file) (PresG.pure _)
        have hmk : ∀ p mode, K p → PresG (PG R C) (Memfs.mkdirM (List.dropLast p) mode) :=
          fun p mode hp => hmkdir _ mode (hKdrop _ hp)
        refine PresG.ite ?_ (hfile _ _ (hKdst _ _ _))
        split
        · exact PresG.pure_bind _ _ (PresG.bind (hmk _ _ (hKdst _ _ _)) fun _ => hfile _ _ (hKdst _ _ _))
        · refine PresG.bind (PresG.dirOf _) fun sd => ?_
          refine PresG.bind (PresG.getEntry _) fun z2 => ?_
          cases z2 with
          | none => exact PresG.fail_bind _ _
          | some pe => exact PresG.pure_bind _ _ (PresG.bind (hmk _ _ (hKdst _ _ _)) fun _ => hfile _ _ (hKdst _ _ _))

end PerEntry

/-! ### the two extra components of the global induction hypothesis (definitions fixed by the
    coordinator), and their preservation by group C -/

def KeysWf (s : State) : Prop :=
  (∀ kv ∈ s.entries, ∀ n ∈ kv.1, BodyPiece n) ∧ (∀ n ∈ s.cwd, BodyPiece n)

def SortedKids (s : State) : Prop :=
  ∀ kv ∈ s.entries, ∀ fs, kv.2.files = some fs → fs.Pairwise (fun a b => strLt b a = false)

def InvPlus (s : State) : Prop := Spec.Inv s ∧ KeysWf s ∧ SortedKids s

theorem keysWf_iff (s : State) : KeysWf s ↔ PG (fun k _ => KeyWf k) KeyWf s := Iff.rfl

theorem sortedKids_iff (s : State) :
    SortedKids s ↔ PG (fun _ e => ∀ fs, e.files = some fs → SortedNames fs) (fun _ => True) s :=
  ⟨fun h => ⟨h, trivial⟩, fun h => h.1⟩

theorem sorted_addChild (d : Entry) (n : Str) (b : Bool) (d' : Entry)
    (h : ∀ fs, d.files = some fs → SortedNames fs) (hac : d.addChild n = .ok (b, d')) :
    ∀ fs, d'.files = some fs → SortedNames fs := by
  unfold Entry.addChild at hac
  split at hac
  · cases hac
  · split at hac
    · rename_i fs0 hfs0
      simp only [Outcome.ok.injEq, Prod.mk.injEq] at hac
      obtain ⟨_, rfl⟩ := hac
      intro fs hfs
      simp only [Option.some.injEq] at hfs
      subst hfs
      exact sorted_insertName _ _ (h fs0 hfs0)
    · simp only [Outcome.ok.injEq, Prod.mk.injEq] at hac
      obtain ⟨_, rfl⟩ := hac
      intro fs hfs
      simp only [Option.some.injEq] at hfs
      subst hfs
      exact List.pairwise_singleton _ _

theorem keysWf_copyM (env : Env) (src dst : Str) (c : CopyOpts) :
    PresG KeysWf (copyM env src dst c) :=
  PresG.copyM (R := fun k _ => KeyWf k) (C := KeyWf) KeyWf
    (fun _ _ _ _ _ h _ => h) (fun _ _ h _ => h) (fun _ _ _ _ _ h => h)
    (fun _ n h => KeyWf.take h n) dstOf_wf env src dst c

theorem sortedKids_copyM (env : Env) (src dst : Str) (c : CopyOpts) :
    PresG SortedKids (copyM env src dst c) := by
  intro s h
  rw [sortedKids_iff] at h ⊢
  refine PresG.copyM (R := fun _ e => ∀ fs, e.files = some fs → SortedNames fs) (C := fun _ => True)
    (fun _ => True) ?_ ?_ ?_ (fun _ _ _ => trivial) (fun _ _ _ => trivial) env src dst c s h
  · intro k d n b d' hd hac
    exact sorted_addChild d n b d' hd hac
  · intro k e _ he fs hfs
    rcases he with he | he <;> rw [he] at hfs <;> cases hfs
    exact List.Pairwise.nil
  · intro k srcE p m hs _ fs hfs
    exact hs fs hfs

/-- `copy` / `copy_b` keep every key well formed (no hypothesis on the state beyond `KeysWf`) -/
theorem keysWf_step_C (env : Env) (s : State) (op : Op) (hc : CoveredC op) (h : KeysWf s) :
    KeysWf (step env s op).2 := by
  cases op <;> try exact absurd hc id
  · unfold step; rw [mapVal_snd]; exact keysWf_copyM _ _ _ _ s h
  · unfold step; rw [mapVal_snd]; exact keysWf_copyM _ _ _ _ s h

/-- `copy` / `copy_b` keep every child list sorted (no hypothesis on the state beyond `SortedKids`) -/
theorem sortedKids_step_C (env : Env) (s : State) (op : Op) (hc : CoveredC op) (h : SortedKids s) :
    SortedKids (step env s op).2 := by
  cases op <;> try exact absurd hc id
  · unfold step; rw [mapVal_snd]; exact sortedKids_copyM _ _ _ _ s h
  · unfold step; rw [mapVal_snd]; exact sortedKids_copyM _ _ _ _ s h

theorem invPlus_step_C (env : Env) (s : State) (op : Op) (hc : CoveredC op) (h : InvPlus s) :
    InvPlus (step env s op).2 :=
  ⟨inv_step_C' env s op hc h.1, keysWf_step_C env s op hc h.2.1, sortedKids_step_C env s op hc h.2.2⟩

theorem invPlus_init : InvPlus Memfs.init := by
  refine ⟨by decide, ⟨?_, ?_⟩, ?_⟩
  · intro kv h
    simp only [Memfs.init, List.mem_singleton] at h
    subst h
    intro n hn; cases hn
  · intro n hn; cases hn
  · intro kv h
    simp only [Memfs.init, List.mem_singleton] at h
    subst h
    intro fs hfs
    cases hfs
    exact List.Pairwise.nil

end Rivia.Lemmas.InvC
