/-
  Rivia.Lemmas.InvBMove — C03 (group B): `moveP` preserves the strengthened invariant
  (`Inv ∧ KeysWf ∧ SortedKids`); loop invariant `MoveInv` of `moveLoop`.
-/
import Rivia.Lemmas.InvBOps
import Rivia.Lemmas.MovedEntry

set_option linter.unusedSimpArgs false
namespace Rivia.Lemmas.InvB
open Rivia Rivia.Memfs Rivia.File Rivia.Spec Rivia.Lemmas Rivia.Memfs.M

theorem nodup_reverse' {α} {l : List α} (h : l.Nodup) : l.reverse.Nodup := by
  unfold List.Nodup at *
  rw [List.pairwise_reverse]
  exact h.imp (fun hab => fun hh => hab hh.symm)

theorem nodup_map_inj {α β} {l : List α} (h : l.Nodup) (f : α → β) (hf : ∀ a b, f a = f b → a = b) :
    (l.map f).Nodup := by
  unfold List.Nodup at *
  rw [List.pairwise_map]
  exact h.imp (fun hab => fun hh => hab (hf _ _ hh))

/-- neither key is a prefix of the other: the two subtrees are disjoint -/
theorem append_ne_append {S D : FsPath} (h1 : ¬ S <+: D) (h2 : ¬ D <+: S) (r r' : FsPath) : S ++ r ≠ D ++ r' := by
  intro h
  rcases List.append_eq_append_iff.1 h with ⟨a, ha, _⟩ | ⟨c, hc, _⟩
  · exact h1 ⟨a, ha.symm⟩
  · exact h2 ⟨c, hc.symm⟩

/-- the loop invariant of `moveLoop` on lookup functions: `W` are the still-unmoved subtree roots
    (all of the form `S ++ r`), whose new parent `D ++ r.dropLast` is already in place -/
structure MoveInv (S D : FsPath) (E : FsPath → Option Entry) (F : FsPath → Option Bytes) (W : List FsPath) : Prop where
  root : ∃ e, E [] = some e ∧ e.dir = true ∧ e.link = false
  wfmt : ∀ w ∈ W, ∃ r, r ≠ [] ∧ w = S ++ r
  wnodup : W.Nodup
  wexists : ∀ w ∈ W, (E w).isSome = true
  wparentGone : ∀ w ∈ W, E w.dropLast = none
  wdstFree : ∀ r, S ++ r ∈ W → E (D ++ r) = none
  wparent : ∀ r, S ++ r ∈ W → ∃ pe fs, E (D ++ r.dropLast) = some pe ∧ pe.dir = true ∧ pe.link = false ∧
    pe.files = some fs ∧ baseName (S ++ r) ∈ fs
  parent : ∀ k e, E k = some e → k ≠ [] → k ∉ W →
    ∃ pe fs, E k.dropLast = some pe ∧ pe.dir = true ∧ pe.link = false ∧ pe.files = some fs ∧ baseName k ∈ fs
  kids : ∀ k e fs n, E k = some e → e.files = some fs → n ∈ fs →
    (E (k ++ [n])).isSome = true ∨ ∃ r, k = D ++ r ∧ S ++ r ++ [n] ∈ W
  data : ∀ k e, E k = some e → ((e.file = true ∧ e.link = false) ↔ (F k).isSome = true)
  dangling : ∀ k, (F k).isSome = true → (E k).isSome = true
  path : ∀ k e, E k = some e → e.path = k
  dirflag : ∀ k e, E k = some e → (e.files.isSome = true ↔ e.dir = true)
  nodupKids : ∀ k e fs, E k = some e → e.files = some fs → fs.Nodup
  ext : ExtL E

theorem MoveInv.done {S D : FsPath} {E F} (h : MoveInv S D E F []) : InvL E F ∧ ExtL E :=
  ⟨⟨h.root, fun k e hk hne => h.parent k e hk hne (by simp),
    fun k e fs n hk hf hn => by
      rcases h.kids k e fs n hk hf hn with h1 | ⟨r, _, h2⟩
      · exact h1
      · simp at h2,
    h.data, h.dangling, h.path, h.dirflag, h.nodupKids⟩, h.ext⟩

def kidsOf (w : FsPath) (e : Entry) : List FsPath :=
  match e.files with | some fs => fs.map (fun n => w ++ [n]) | none => []

theorem mem_kidsOf {w k : FsPath} {e : Entry} : k ∈ kidsOf w e ↔ ∃ fs n, e.files = some fs ∧ n ∈ fs ∧ k = w ++ [n] := by
  unfold kidsOf
  cases h : e.files with
  | none => simp
  | some fs =>
    simp only [List.mem_map, Option.some.injEq]
    constructor
    · rintro ⟨n, hn, rfl⟩; exact ⟨fs, n, rfl, hn, rfl⟩
    · rintro ⟨fs', n, rfl, hn, rfl⟩; exact ⟨n, hn, rfl⟩


theorem dropLast_append_of_ne_nil (a : FsPath) {r : FsPath} (h : r ≠ []) : (a ++ r).dropLast = a ++ r.dropLast := by
  rcases eq_nil_or_snoc r with rfl | ⟨mid, t, rfl⟩
  · exact absurd rfl h
  · rw [← List.append_assoc, List.dropLast_concat, List.dropLast_concat]

theorem baseName_append_of_ne_nil (a b : FsPath) {r : FsPath} (h : r ≠ []) : baseName (a ++ r) = baseName (b ++ r) := by
  rcases eq_nil_or_snoc r with rfl | ⟨mid, t, rfl⟩
  · exact absurd rfl h
  · rw [← List.append_assoc, ← List.append_assoc, baseName_snoc, baseName_snoc]

/-- one iteration of `moveLoop` on a non-root item: re-key `w = S ++ r` to `D ++ r`, children become pending -/
theorem MoveInv.step {S D : FsPath} {E E' : FsPath → Option Entry} {F F' : FsPath → Option Bytes}
    {w : FsPath} {W : List FsPath} {r : FsPath} {e : Entry}
    (hS1 : ¬ S <+: D) (hS2 : ¬ D <+: S) (hD : ∀ n ∈ D, BodyPiece n)
    (h : MoveInv S D E F (w :: W)) (hw : w = S ++ r) (he : E w = some e)
    (hE : ∀ k, E' k = if k = D ++ r then some { e with path := D ++ r, rel := movedRel e (D ++ r) } else if k = w then none else E k)
    (hF : ∀ k, F' k = if k = D ++ r then F w else if k = w then none else F k) :
    MoveInv S D E' F' ((kidsOf w e).reverse ++ W) := by
  have hdisj := append_ne_append hS1 hS2
  have hr : r ≠ [] := by
    obtain ⟨r0, hr0, h0⟩ := h.wfmt w (by simp)
    rw [hw] at h0
    rw [List.append_cancel_left h0]; exact hr0
  have hww' : w ≠ D ++ r := by rw [hw]; exact hdisj r r
  have hEw' : E (D ++ r) = none := h.wdstFree r (by rw [← hw]; simp)
  have hEwd : E w.dropLast = none := h.wparentGone w (by simp)
  have hwW : w ∉ W := (List.nodup_cons.1 h.wnodup).1
  have hWnd : W.Nodup := (List.nodup_cons.1 h.wnodup).2
  have key : ∀ k x, E' k = some x → (k = D ++ r ∧ x = { e with path := D ++ r, rel := movedRel e (D ++ r) }) ∨ (k ≠ D ++ r ∧ k ≠ w ∧ E k = some x) := by
    intro k x hk
    rw [hE] at hk
    by_cases h1 : k = D ++ r
    · rw [if_pos h1] at hk; cases hk; exact Or.inl ⟨h1, rfl⟩
    · rw [if_neg h1] at hk
      by_cases h2 : k = w
      · rw [if_pos h2] at hk; cases hk
      · rw [if_neg h2] at hk; exact Or.inr ⟨h1, h2, hk⟩
  have some' : ∀ k, k ≠ w → (E k).isSome = true → (E' k).isSome = true := by
    intro k h1 h2
    rw [hE]
    by_cases h3 : k = D ++ r
    · rw [if_pos h3]; rfl
    · rw [if_neg h3, if_neg h1]; exact h2
  have same : ∀ k, k ≠ w → k ≠ D ++ r → E' k = E k := by
    intro k h1 h2; rw [hE, if_neg h2, if_neg h1]
  have hEw'' : E' (D ++ r) = some { e with path := D ++ r, rel := movedRel e (D ++ r) } := by rw [hE, if_pos rfl]
  have hE'w : E' w = none := by rw [hE, if_neg hww', if_pos rfl]
  -- facts about children of `w`
  have kid_exists : ∀ fs n, e.files = some fs → n ∈ fs → (E (w ++ [n])).isSome = true := by
    intro fs n hf hn
    rcases h.kids w e fs n he hf hn with h1 | ⟨r1, h1, _⟩
    · exact h1
    · rw [hw] at h1; exact absurd h1 (hdisj r r1)
  have kid_notW : ∀ n, w ++ [n] ∉ w :: W := by
    intro n hm
    rcases List.mem_cons.1 hm with h1 | h1
    · exact snoc_ne_self w n h1
    · have := h.wparentGone _ (List.mem_cons_of_mem _ h1)
      rw [List.dropLast_concat, he] at this; cases this
  have e_real : ∀ fs n, e.files = some fs → n ∈ fs → e.dir = true ∧ e.link = false := by
    intro fs n hf hn
    have h1 := kid_exists fs n hf hn
    cases hc : E (w ++ [n]) with
    | none => rw [hc] at h1; cases h1
    | some c =>
      obtain ⟨pe, _, g1, g2, g3, _⟩ := h.parent _ c hc (by simp) (kid_notW n)
      rw [List.dropLast_concat, he] at g1; cases g1
      exact ⟨g2, g3⟩
  have memW' : ∀ k, k ∈ (kidsOf w e).reverse ++ W ↔ k ∈ kidsOf w e ∨ k ∈ W := by
    intro k; simp
  constructor
  · obtain ⟨e0, h0, h1, h2⟩ := h.root
    refine ⟨e0, ?_, h1, h2⟩
    rw [same [] _ _]
    · exact h0
    · rw [hw]; intro hh; exact hr (List.append_eq_nil_iff.1 hh.symm).2
    · intro hh; exact hr (List.append_eq_nil_iff.1 hh.symm).2
  · intro u hu
    rcases (memW' u).1 hu with hu | hu
    · obtain ⟨fs, n, hf, hn, rfl⟩ := mem_kidsOf.1 hu
      exact ⟨r ++ [n], by simp, by rw [hw, List.append_assoc]⟩
    · exact h.wfmt u (List.mem_cons_of_mem _ hu)
  · rw [List.nodup_append]
    refine ⟨?_, hWnd, ?_⟩
    · apply nodup_reverse'
      unfold kidsOf
      cases hf : e.files with
      | none => exact List.nodup_nil
      | some fs =>
        refine nodup_map_inj (h.nodupKids w e fs he hf) _ ?_
        intro a b hab
        simpa using hab
    · intro a ha b hb hab
      subst hab
      obtain ⟨fs, n, hf, hn, rfl⟩ := mem_kidsOf.1 (List.mem_reverse.1 ha)
      exact kid_notW n (List.mem_cons_of_mem _ hb)
  · intro u hu
    rcases (memW' u).1 hu with hu | hu
    · obtain ⟨fs, n, hf, hn, rfl⟩ := mem_kidsOf.1 hu
      exact some' _ (snoc_ne_self w n) (kid_exists fs n hf hn)
    · exact some' _ (fun hh => hwW (hh ▸ hu)) (h.wexists u (List.mem_cons_of_mem _ hu))
  · intro u hu
    rcases (memW' u).1 hu with hu | hu
    · obtain ⟨fs, n, hf, hn, rfl⟩ := mem_kidsOf.1 hu
      rw [List.dropLast_concat]; exact hE'w
    · have h1 := h.wparentGone u (List.mem_cons_of_mem _ hu)
      obtain ⟨ru, hru, rfl⟩ := h.wfmt u (List.mem_cons_of_mem _ hu)
      rw [same _ _ _]
      · exact h1
      · intro hh; rw [hh, he] at h1; cases h1
      · rw [dropLast_append_of_ne_nil S hru]; exact hdisj _ _
  · intro r1 hr1
    have hne : D ++ r1 ≠ D ++ r := by
      intro hh
      have : r1 = r := List.append_cancel_left hh
      subst this
      rcases (memW' _).1 hr1 with h1 | h1
      · obtain ⟨fs, n, hf, hn, h2⟩ := mem_kidsOf.1 h1
        rw [← hw] at h2; exact snoc_ne_self w n h2.symm
      · rw [← hw] at h1; exact hwW h1
    rw [same _ (by rw [hw]; exact (hdisj r r1).symm) hne]
    rcases (memW' _).1 hr1 with h1 | h1
    · obtain ⟨fs, n, hf, hn, h2⟩ := mem_kidsOf.1 h1
      rw [hw, List.append_assoc] at h2
      have : r1 = r ++ [n] := List.append_cancel_left h2
      subst this
      cases hc : E (D ++ (r ++ [n])) with
      | none => rfl
      | some c =>
        exfalso
        have hnotW : D ++ (r ++ [n]) ∉ w :: W := by
          intro hm
          obtain ⟨r2, _, h3⟩ := h.wfmt _ hm
          exact hdisj r2 _ h3.symm
        obtain ⟨pe, _, g1, _⟩ := h.parent _ c hc (by simp) hnotW
        rw [← List.append_assoc, List.dropLast_concat, hEw'] at g1; cases g1
    · exact h.wdstFree r1 (List.mem_cons_of_mem _ h1)
  · intro r1 hr1
    rcases (memW' _).1 hr1 with h1 | h1
    · obtain ⟨fs, n, hf, hn, h2⟩ := mem_kidsOf.1 h1
      rw [hw, List.append_assoc] at h2
      have : r1 = r ++ [n] := List.append_cancel_left h2
      subst this
      obtain ⟨g1, g2⟩ := e_real fs n hf hn
      refine ⟨{ e with path := D ++ r, rel := movedRel e (D ++ r) }, fs, ?_, g1, g2, hf, ?_⟩
      · rw [List.dropLast_concat]; exact hEw''
      · rw [← List.append_assoc, baseName_snoc]; exact hn
    · obtain ⟨pe, fs, g1, g2, g3, g4, g5⟩ := h.wparent r1 (List.mem_cons_of_mem _ h1)
      refine ⟨pe, fs, ?_, g2, g3, g4, g5⟩
      rw [same _ _ _]
      · exact g1
      · rw [hw]; exact (hdisj r _).symm
      · intro hh; rw [hh, hEw'] at g1; cases g1
  · intro k x hk hne hkW
    rcases key k x hk with ⟨h1, h2⟩ | ⟨h1, h2, h3⟩
    · subst h1; subst h2
      obtain ⟨pe, fs, g1, g2, g3, g4, g5⟩ := h.wparent r (by rw [← hw]; simp)
      refine ⟨pe, fs, ?_, g2, g3, g4, ?_⟩
      · rw [dropLast_append_of_ne_nil D hr, same _ _ _]
        · exact g1
        · rw [hw]; exact (hdisj r _).symm
        · intro hh; rw [hh, hEw'] at g1; cases g1
      · rw [baseName_append_of_ne_nil D S hr]; exact g5
    · have hkW0 : k ∉ w :: W := by
        intro hm
        rcases List.mem_cons.1 hm with h4 | h4
        · exact h2 h4
        · exact hkW ((memW' k).2 (Or.inr h4))
      obtain ⟨pe, fs, g1, g2, g3, g4, g5⟩ := h.parent k x h3 hne hkW0
      refine ⟨pe, fs, ?_, g2, g3, g4, g5⟩
      rw [same _ _ _]
      · exact g1
      · intro hh
        rw [hh, he] at g1; cases g1
        apply hkW
        apply (memW' k).2; left
        apply mem_kidsOf.2
        exact ⟨fs, baseName k, g4, g5, by rw [← hh, snoc_dropLast_baseName hne]⟩
      · intro hh; rw [hh, hEw'] at g1; cases g1
  · intro k x fs n hk hf hn
    rcases key k x hk with ⟨h1, h2⟩ | ⟨h1, h2, h3⟩
    · subst h1; subst h2
      right
      refine ⟨r, rfl, ?_⟩
      apply (memW' _).2; left
      apply mem_kidsOf.2
      exact ⟨fs, n, hf, hn, by rw [hw]⟩
    · rcases h.kids k x fs n h3 hf hn with g | ⟨r1, g1, g2⟩
      · left
        apply some' _ _ g
        intro hh
        rw [← hh, List.dropLast_concat, h3] at hEwd; cases hEwd
      · rcases List.mem_cons.1 g2 with g3 | g3
        · left
          rw [hw, List.append_assoc] at g3
          have : r = r1 ++ [n] := (List.append_cancel_left g3).symm
          rw [g1, List.append_assoc, ← this, hEw'']; rfl
        · right
          exact ⟨r1, g1, (memW' _).2 (Or.inr g3)⟩
  · intro k x hk
    rcases key k x hk with ⟨h1, h2⟩ | ⟨h1, h2, h3⟩
    · subst h1; subst h2
      rw [hF, if_pos rfl]
      exact h.data w e he
    · rw [hF, if_neg h1, if_neg h2]
      exact h.data k x h3
  · intro k hk
    rw [hF] at hk
    by_cases h1 : k = D ++ r
    · rw [h1, hEw'']; rfl
    · rw [if_neg h1] at hk
      by_cases h2 : k = w
      · rw [if_pos h2] at hk; cases hk
      · rw [if_neg h2] at hk
        exact some' k h2 (h.dangling k hk)
  · intro k x hk
    rcases key k x hk with ⟨h1, h2⟩ | ⟨h1, h2, h3⟩
    · subst h1; subst h2; rfl
    · exact h.path k x h3
  · intro k x hk
    rcases key k x hk with ⟨h1, h2⟩ | ⟨h1, h2, h3⟩
    · subst h2; exact h.dirflag w e he
    · exact h.dirflag k x h3
  · intro k x fs hk hf
    rcases key k x hk with ⟨h1, h2⟩ | ⟨h1, h2, h3⟩
    · subst h2; exact h.nodupKids w e fs he hf
    · exact h.nodupKids k x fs h3 hf
  · constructor
    · intro k x hk n hn
      rcases key k x hk with ⟨h1, h2⟩ | ⟨h1, h2, h3⟩
      · subst h1
        rcases List.mem_append.1 hn with g | g
        · exact hD n g
        · exact h.ext.keysWf w e he n (by rw [hw]; exact List.mem_append_right _ g)
      · exact h.ext.keysWf k x h3 n hn
    · intro k x fs hk hf
      rcases key k x hk with ⟨h1, h2⟩ | ⟨h1, h2, h3⟩
      · subst h2; exact h.ext.sorted w e fs he hf
      · exact h.ext.sorted k x fs h3 hf
    · intro k x hk
      rcases key k x hk with ⟨h1, h2⟩ | ⟨h1, h2, h3⟩
      · subst h2; exact h.ext.flags w e he
      · exact h.ext.flags k x h3

def memF (e : Entry) (n : Str) : Prop := ∃ fs, e.files = some fs ∧ n ∈ fs

/-- the first iteration of `moveLoop` (the subtree root `S` is re-keyed to `D`, the old parent forgets it,
    the new parent lists it), given an abstract description `hU/hV` of the entry map afterwards -/
theorem MoveInv.first {S D : FsPath} {E E1 : FsPath → Option Entry} {F F1 : FsPath → Option Bytes} {e : Entry}
    (hI : InvL E F) (hX : ExtL E) (hS : S ≠ []) (hDne : D ≠ []) (hS1 : ¬ S <+: D) (hD : ∀ n ∈ D, BodyPiece n)
    (he : E S = some e)
    (hdd : ∃ x, E D.dropLast = some x ∧ x.dir = true ∧ x.link = false)
    (hDfree : ∀ x, E D = some x → x.files = none)
    (hE1D : E1 D = some { e with path := D, rel := movedRel e D }) (hE1S : E1 S = none)
    (hU : ∀ k x, E1 k = some x → k ≠ D → ∃ o, E k = some o ∧ k ≠ S ∧ x.path = o.path ∧ x.dir = o.dir ∧
      x.link = o.link ∧ x.file = o.file ∧ x.files.isSome = o.files.isSome ∧
      ∀ n, memF x n ↔ (memF o n ∧ ¬ (k = S.dropLast ∧ n = baseName S)) ∨ (k = D.dropLast ∧ n = baseName D))
    (hV : ∀ k, k ≠ S → k ≠ D → (E k).isSome = true → (E1 k).isSome = true)
    (hlists : ∀ k x fs, E1 k = some x → k ≠ D → x.files = some fs → fs.Nodup ∧ fs.Pairwise nameLE)
    (hF1 : ∀ k, F1 k = if k = D then F S else if k = S then none else F k) :
    MoveInv S D E1 F1 ((kidsOf S e).reverse ++ []) := by
  have hSD : S ≠ D := fun hh => hS1 (hh ▸ List.prefix_refl _)
  have hSk : ∀ n, S ++ [n] ≠ D := fun n hh => hS1 ⟨[n], hh⟩
  have memW' : ∀ k, k ∈ (kidsOf S e).reverse ++ [] ↔ k ∈ kidsOf S e := by intro k; simp
  have kid_exists : ∀ fs n, e.files = some fs → n ∈ fs → (E (S ++ [n])).isSome = true :=
    fun fs n hf hn => hI.kids S e fs n he hf hn
  have e_real : ∀ fs n, e.files = some fs → n ∈ fs → e.dir = true ∧ e.link = false := by
    intro fs n hf hn
    have h1 := kid_exists fs n hf hn
    cases hc : E (S ++ [n]) with
    | none => rw [hc] at h1; cases h1
    | some c =>
      obtain ⟨pe, _, g1, g2, g3, _⟩ := hI.parent _ c hc (by simp)
      rw [List.dropLast_concat, he] at g1; cases g1
      exact ⟨g2, g3⟩
  have noDkid : ∀ n, E1 (D ++ [n]) = none := by
    intro n
    cases hc : E1 (D ++ [n]) with
    | none => rfl
    | some x =>
      exfalso
      obtain ⟨o, g1, _⟩ := hU _ x hc (snoc_ne_self D n)
      obtain ⟨pe, fs, g2, _, _, g3, _⟩ := hI.parent _ o g1 (by simp)
      rw [List.dropLast_concat] at g2
      rw [hDfree pe g2] at g3; cases g3
  -- the new parent lists `D`
  have hDparent : ∃ pe fs, E1 D.dropLast = some pe ∧ pe.dir = true ∧ pe.link = false ∧ pe.files = some fs ∧
      baseName D ∈ fs := by
    obtain ⟨x, g1, g2, g3⟩ := hdd
    have hne1 : D.dropLast ≠ S := fun hh => hS1 (hh ▸ List.dropLast_prefix D)
    have hne2 : D.dropLast ≠ D := dropLast_ne_self hDne
    have h1 := hV _ hne1 hne2 (by rw [g1]; rfl)
    cases hc : E1 D.dropLast with
    | none => rw [hc] at h1; cases h1
    | some y =>
      obtain ⟨o, k1, _, _, k3, k4, _, _, k7⟩ := hU _ y hc hne2
      rw [g1] at k1; cases k1
      obtain ⟨fs, k8, k9⟩ := (k7 (baseName D)).2 (Or.inr ⟨rfl, rfl⟩)
      exact ⟨y, fs, rfl, k3.trans g2, k4.trans g3, k8, k9⟩
  constructor
  · obtain ⟨e0, h0, h1, h2⟩ := hI.root
    have h3 := hV [] (fun hh => hS hh.symm) (fun hh => hDne hh.symm) (by rw [h0]; rfl)
    cases hc : E1 [] with
    | none => rw [hc] at h3; cases h3
    | some y =>
      obtain ⟨o, k1, _, _, k3, k4, _⟩ := hU _ y hc (fun hh => hDne hh.symm)
      rw [h0] at k1; cases k1
      exact ⟨y, rfl, k3.trans h1, k4.trans h2⟩
  · intro u hu
    obtain ⟨fs, n, hf, hn, rfl⟩ := mem_kidsOf.1 ((memW' u).1 hu)
    exact ⟨[n], by simp, rfl⟩
  · rw [List.append_nil]
    apply nodup_reverse'
    unfold kidsOf
    cases hf : e.files with
    | none => exact List.nodup_nil
    | some fs =>
      refine nodup_map_inj (hI.nodupKids S e fs he hf) _ ?_
      intro a b hab
      simpa using hab
  · intro u hu
    obtain ⟨fs, n, hf, hn, rfl⟩ := mem_kidsOf.1 ((memW' u).1 hu)
    exact hV _ (snoc_ne_self S n) (hSk n) (kid_exists fs n hf hn)
  · intro u hu
    obtain ⟨fs, n, hf, hn, rfl⟩ := mem_kidsOf.1 ((memW' u).1 hu)
    rw [List.dropLast_concat]; exact hE1S
  · intro r1 hr1
    obtain ⟨fs, n, hf, hn, h2⟩ := mem_kidsOf.1 ((memW' _).1 hr1)
    have : r1 = [n] := List.append_cancel_left h2
    subst this
    exact noDkid n
  · intro r1 hr1
    obtain ⟨fs, n, hf, hn, h2⟩ := mem_kidsOf.1 ((memW' _).1 hr1)
    have : r1 = [n] := List.append_cancel_left h2
    subst this
    obtain ⟨g1, g2⟩ := e_real fs n hf hn
    refine ⟨{ e with path := D, rel := movedRel e D }, fs, ?_, g1, g2, hf, ?_⟩
    · simpa using hE1D
    · rw [baseName_snoc]; exact hn
  · intro k x hk hne hkW
    by_cases hkD : k = D
    · subst hkD; exact hDparent
    · obtain ⟨o, g1, g2, _⟩ := hU k x hk hkD
      obtain ⟨pe, fs, p1, p2, p3, p4, p5⟩ := hI.parent k o g1 hne
      have hq1 : k.dropLast ≠ S := by
        intro hh
        rw [hh, he] at p1; cases p1
        apply hkW; apply (memW' k).2; apply mem_kidsOf.2
        exact ⟨fs, baseName k, p4, p5, by rw [← hh, snoc_dropLast_baseName hne]⟩
      have hq2 : k.dropLast ≠ D := by
        intro hh
        rw [hh] at p1
        rw [hDfree pe p1] at p4; cases p4
      have h1 := hV _ hq1 hq2 (by rw [p1]; rfl)
      cases hc : E1 k.dropLast with
      | none => rw [hc] at h1; cases h1
      | some y =>
        obtain ⟨o', k1, _, _, k3, k4, _, _, k7⟩ := hU _ y hc hq2
        rw [p1] at k1; cases k1
        obtain ⟨fs', k8, k9⟩ := (k7 (baseName k)).2 (Or.inl ⟨⟨fs, p4, p5⟩, by
          rintro ⟨q1, q2⟩
          apply g2
          rw [← snoc_dropLast_baseName hne, ← snoc_dropLast_baseName hS, q1, q2]⟩)
        exact ⟨y, fs', rfl, k3.trans p2, k4.trans p3, k8, k9⟩
  · intro k x fs n hk hf hn
    by_cases hkD : k = D
    · subst hkD
      rw [hE1D] at hk; cases hk
      right
      exact ⟨[], by simp, by
        apply (memW' _).2; apply mem_kidsOf.2
        exact ⟨fs, n, hf, hn, by simp⟩⟩
    · obtain ⟨o, g1, g2, _, _, _, _, _, g7⟩ := hU k x hk hkD
      left
      rcases (g7 n).1 ⟨fs, hf, hn⟩ with ⟨⟨fo, q1, q2⟩, q3⟩ | ⟨q1, q2⟩
      · have h1 := hI.kids k o fo n g1 q1 q2
        by_cases h2 : k ++ [n] = D
        · rw [h2, hE1D]; rfl
        · refine hV _ ?_ h2 h1
          intro hh
          apply q3
          have := congrArg List.dropLast hh
          rw [List.dropLast_concat] at this
          refine ⟨this, ?_⟩
          rw [← hh, baseName_snoc]
      · rw [q1, q2, snoc_dropLast_baseName hDne, hE1D]; rfl
  · intro k x hk
    by_cases hkD : k = D
    · subst hkD
      rw [hE1D] at hk; cases hk
      rw [hF1, if_pos rfl]
      exact hI.data S e he
    · obtain ⟨o, g1, g2, _, _, g4, g5, _⟩ := hU k x hk hkD
      rw [hF1, if_neg hkD, if_neg g2, g4, g5]
      exact hI.data k o g1
  · intro k hk
    rw [hF1] at hk
    by_cases hkD : k = D
    · rw [hkD, hE1D]; rfl
    · rw [if_neg hkD] at hk
      by_cases hkS : k = S
      · rw [if_pos hkS] at hk; cases hk
      · rw [if_neg hkS] at hk
        exact hV k hkS hkD (hI.dangling k hk)
  · intro k x hk
    by_cases hkD : k = D
    · subst hkD; rw [hE1D] at hk; cases hk; rfl
    · obtain ⟨o, g1, _, g3, _⟩ := hU k x hk hkD
      rw [g3]; exact hI.path k o g1
  · intro k x hk
    by_cases hkD : k = D
    · subst hkD; rw [hE1D] at hk; cases hk; exact hI.dirflag S e he
    · obtain ⟨o, g1, _, _, g3, _, _, g6, _⟩ := hU k x hk hkD
      rw [g6, g3]; exact hI.dirflag k o g1
  · intro k x fs hk hf
    by_cases hkD : k = D
    · subst hkD; rw [hE1D] at hk; cases hk; exact hI.nodupKids S e fs he hf
    · exact (hlists k x fs hk hkD hf).1
  · constructor
    · intro k x hk n hn
      by_cases hkD : k = D
      · subst hkD; exact hD n hn
      · obtain ⟨o, g1, _⟩ := hU k x hk hkD
        exact hX.keysWf k o g1 n hn
    · intro k x fs hk hf
      by_cases hkD : k = D
      · subst hkD; rw [hE1D] at hk; cases hk; exact hX.sorted S e fs he hf
      · exact (hlists k x fs hk hkD hf).2
    · intro k x hk
      by_cases hkD : k = D
      · subst hkD; rw [hE1D] at hk; cases hk; exact hX.flags S e he
      · obtain ⟨o, g1, _, _, g3, _, g5, _⟩ := hU k x hk hkD
        rw [g3, g5]; exact hX.flags k o g1


def preOf (ci : Bool) (S : FsPath) : FsPath := if ci = true then S.dropLast else S

theorem moveLoop_step_eq (S dstRoot : FsPath) (ci : Bool) (hS : S ≠ [])
    (f : Nat) (w : FsPath) (work : List FsPath) (s : State) (e : Entry)
    (hnd : (keys s.entries).Nodup)
    (he : alLookup w s.entries = some e) (hpath : e.path = w) (hw : w ≠ [])
    (hgone : alLookup w.dropLast s.entries = none) (hne : dstOf dstRoot w (preOf ci S) ≠ w.dropLast)
    (hok : MovedOk e (dstOf dstRoot w (preOf ci S))) :
    moveLoop S dstRoot ci (f + 1) (w :: work) s =
      moveLoop S dstRoot ci f ((kidsOf w e).reverse ++ work)
        { s with entries := alInsert (dstOf dstRoot w (preOf ci S)) { e with path := dstOf dstRoot w (preOf ci S), rel := movedRel e (dstOf dstRoot w (preOf ci S)) } (alErase w s.entries),
                 files := match alLookup w s.files with
                   | some b => alInsert (dstOf dstRoot w (preOf ci S)) b (alErase w s.files)
                   | none => alErase w s.files } := by
  have hlk : alLookup w.dropLast (alInsert (dstOf dstRoot w (preOf ci S)) { e with path := dstOf dstRoot w (preOf ci S), rel := movedRel e (dstOf dstRoot w (preOf ci S)) }
      (alErase w s.entries)) = none := by
    rw [alLookup_alInsert, if_neg hne, alLookup_alErase _ _ hnd, if_neg (fun hh => dropLast_ne_self hw hh.symm), hgone]
  have hk : ∀ (A : List FsPath) (st : State), A = kidsOf w e →
      moveLoop S dstRoot ci f (A.reverse ++ work) st = moveLoop S dstRoot ci f ((kidsOf w e).reverse ++ work) st := by
    intro A st hA; rw [hA]
  have hk2 : ∀ x : FsPath, x = w → (match e.files with | some fs => List.map (fun n => x ++ [n]) fs | none => []) = kidsOf w e := by
    intro x hx; subst hx; unfold kidsOf; cases e.files <;> rfl
  rw [moveLoop_succ_cons]
  cases ci with
  | true =>
    simp only [if_true, preOf] at hlk hok ⊢
    simp only [bind_apply, dirOf_apply, hS, if_false, removeEntry_apply, he, movedRelM_ok hok, setEntry_apply, removeFile_apply]
    cases hb : alLookup w s.files with
    | none =>
      simp only [bind_apply, mpure_apply, dirOf_apply, hw, if_false, getEntry_apply, hlk]
      exact hk _ _ (hk2 _ hpath)
    | some b =>
      simp only [bind_apply, setFile_apply, mpure_apply, dirOf_apply, hw, if_false, getEntry_apply, hlk]
      exact hk _ _ (hk2 _ hpath)
  | false =>
    simp only [Bool.false_eq_true, if_false, preOf] at hlk hok ⊢
    simp only [bind_apply, mpure_apply, removeEntry_apply, he, movedRelM_ok hok, setEntry_apply, removeFile_apply]
    cases hb : alLookup w s.files with
    | none =>
      simp only [bind_apply, mpure_apply, dirOf_apply, hw, if_false, getEntry_apply, hlk]
      exact hk _ _ (hk2 _ hpath)
    | some b =>
      simp only [bind_apply, setFile_apply, mpure_apply, dirOf_apply, hw, if_false, getEntry_apply, hlk]
      exact hk _ _ (hk2 _ hpath)


def MoveInvS (S D : FsPath) (s : State) (W : List FsPath) : Prop :=
  (keys s.entries).Nodup ∧ (keys s.files).Nodup ∧ s.root = [] ∧ (∀ n ∈ s.cwd, BodyPiece n) ∧
    MoveInv S D (EL s) (FL s) W

theorem moveLoop_good (S D dstRoot : FsPath) (ci : Bool) (hS : S ≠ []) (hS1 : ¬ S <+: D) (hS2 : ¬ D <+: S)
    (hD : ∀ n ∈ D, BodyPiece n)
    (hdst : ∀ r, (∀ n ∈ S ++ r, BodyPiece n) → dstOf dstRoot (S ++ r) (preOf ci S) = D ++ r) :
    ∀ (f : Nat) (W : List FsPath) (s : State), MoveInvS S D s W →
      (moveLoop S dstRoot ci f W s).1 ≠ .hang → Good True (moveLoop S dstRoot ci f W s).2 := by
  intro f
  induction f with
  | zero => intro W s _ hh; exact absurd rfl hh
  | succ f ih =>
    intro W s h hh
    obtain ⟨hnd, hnf, hroot, hcwd, hM⟩ := h
    cases W with
    | nil =>
      have := hM.done
      exact ⟨⟨hnd, hnf, hroot, this.1⟩, fun _ => ⟨this.2, hcwd⟩⟩
    | cons w work =>
      obtain ⟨r, hr, hw⟩ := hM.wfmt w (by simp)
      have hwe := hM.wexists w (by simp)
      cases he : EL s w with
      | none => rw [he] at hwe; cases hwe
      | some e =>
        have hwf : ∀ n ∈ S ++ r, BodyPiece n := by rw [← hw]; exact hM.ext.keysWf w e he
        have hdw : dstOf dstRoot w (preOf ci S) = D ++ r := by rw [hw]; exact hdst r hwf
        have hwne : w ≠ [] := by rw [hw]; intro h0; exact hr (List.append_eq_nil_iff.1 h0).2
        have hne : dstOf dstRoot w (preOf ci S) ≠ w.dropLast := by
          rw [hdw, hw, dropLast_append_of_ne_nil S hr]
          exact (append_ne_append hS1 hS2 _ _).symm
        have heq := moveLoop_step_eq S dstRoot ci hS f w work s e hnd he (hM.path w e he) hwne
          (hM.wparentGone w (by simp)) hne
          (movedOk_of_ne (by rw [hdw]; intro h0; exact hr (List.append_eq_nil_iff.1 h0).2))
        rw [heq] at hh ⊢
        apply ih _ _ _ hh
        rw [hdw]
        have hnd1 : (keys (alErase w s.entries)).Nodup := nodup_keys_alErase _ hnd
        have hnf1 : (keys (alErase w s.files)).Nodup := nodup_keys_alErase _ hnf
        refine ⟨nodup_keys_alInsert _ _ hnd1, ?_, hroot, hcwd, ?_⟩
        · show (keys (match alLookup w s.files with
            | some b => alInsert (D ++ r) b (alErase w s.files)
            | none => alErase w s.files)).Nodup
          cases alLookup w s.files with
          | none => exact hnf1
          | some b => exact nodup_keys_alInsert _ _ hnf1
        · apply MoveInv.step hS1 hS2 hD hM hw he
          · intro k
            show alLookup k (alInsert (D ++ r) _ (alErase w s.entries)) = _
            rw [alLookup_alInsert, alLookup_alErase _ _ hnd]
            by_cases h1 : k = D ++ r
            · rw [if_pos h1.symm, if_pos h1]
            · rw [if_neg (fun h2 => h1 h2.symm), if_neg h1]
              by_cases h3 : k = w
              · rw [if_pos h3.symm, if_pos h3]
              · rw [if_neg (fun h2 => h3 h2.symm), if_neg h3]; rfl
          · intro k
            show alLookup k (match alLookup w s.files with
              | some b => alInsert (D ++ r) b (alErase w s.files)
              | none => alErase w s.files) = _
            have hFd : FL s (D ++ r) = none := by
              cases hx : FL s (D ++ r) with
              | none => rfl
              | some b =>
                have h1 := hM.dangling (D ++ r) (by rw [hx]; rfl)
                have h2 := hM.wdstFree r (by rw [← hw]; simp)
                rw [h2] at h1; cases h1
            cases hb : alLookup w s.files with
            | none =>
              show alLookup k (alErase w s.files) = _
              rw [alLookup_alErase _ _ hnf]
              have hFw : FL s w = none := hb
              by_cases h1 : k = D ++ r
              · rw [if_pos h1, hFw, h1, if_neg (by rw [hw]; exact append_ne_append hS1 hS2 _ _)]; exact hFd
              · rw [if_neg h1]
                by_cases h3 : k = w
                · rw [if_pos h3.symm, if_pos h3]
                · rw [if_neg (fun h2 => h3 h2.symm), if_neg h3]; rfl
            | some b =>
              show alLookup k (alInsert (D ++ r) b (alErase w s.files)) = _
              rw [alLookup_alInsert, alLookup_alErase _ _ hnf]
              have hFw : FL s w = some b := hb
              by_cases h1 : k = D ++ r
              · rw [if_pos h1.symm, if_pos h1, hFw]
              · rw [if_neg (fun h2 => h1 h2.symm), if_neg h1]
                by_cases h3 : k = w
                · rw [if_pos h3.symm, if_pos h3]
                · rw [if_neg (fun h2 => h3 h2.symm), if_neg h3]; rfl


theorem moveLoop_first_eq (S dstRoot D : FsPath) (ci : Bool) (hS : S ≠ [])
    (f : Nat) (s : State) (e osd base : Entry) (lb : List Str)
    (hnd : (keys s.entries).Nodup)
    (hDeq : dstOf dstRoot S (preOf ci S) = D) (hD : D ≠ [])
    (he : alLookup S s.entries = some e) (hpath : e.path = S)
    (hsd : alLookup S.dropLast s.entries = some osd) (hsdD : D ≠ S.dropLast) (hsddir : osd.dir = true)
    (hbase : alLookup D.dropLast (alInsert S.dropLast (dropName (baseName S) osd)
        (alInsert D { e with path := D, rel := movedRel e D } (alErase S s.entries))) = some base)
    (hbdir : base.dir = true) (hbf : base.files = some lb) :
    moveLoop S dstRoot ci (f + 1) [S] s =
      moveLoop S dstRoot ci f ((kidsOf S e).reverse ++ [])
        { s with entries := alInsert D.dropLast { base with files := some (insertName (baseName D) lb).2 }
                   (alInsert S.dropLast (dropName (baseName S) osd)
                     (alInsert D { e with path := D, rel := movedRel e D } (alErase S s.entries))),
                 files := match alLookup S s.files with
                   | some b => alInsert D b (alErase S s.files)
                   | none => alErase S s.files } := by
  have hlk : alLookup S.dropLast (alInsert D { e with path := D, rel := movedRel e D } (alErase S s.entries)) = some osd := by
    rw [alLookup_alInsert, if_neg hsdD, alLookup_alErase _ _ hnd, if_neg (fun hh => dropLast_ne_self hS hh.symm), hsd]
  have hk : ∀ (A : List FsPath) (st : State), A = kidsOf S e →
      moveLoop S dstRoot ci f (A.reverse ++ []) st = moveLoop S dstRoot ci f ((kidsOf S e).reverse ++ []) st := by
    intro A st hA; rw [hA]
  have hk2 : ∀ x : FsPath, x = S → (match e.files with | some fs => List.map (fun n => x ++ [n]) fs | none => []) = kidsOf S e := by
    intro x hx; subst hx; unfold kidsOf; cases e.files <;> rfl
  have hok : MovedOk e D := movedOk_of_ne hD
  rw [moveLoop_succ_cons]
  cases ci with
  | true =>
    simp only [if_true, preOf] at hDeq ⊢
    simp only [bind_apply, dirOf_apply, hS, if_false, removeEntry_apply, he, hDeq, movedRelM_ok hok, setEntry_apply, removeFile_apply]
    cases hb : alLookup S s.files with
    | none =>
      simp only [bind_apply, mpure_apply, dirOf_apply, hS, hD, if_false, getEntry_apply, hlk, liftO_apply,
        removeChild_eq, hsddir, Bool.not_true, Bool.false_eq_true, setEntry_apply, hbase,
        addChild_eq base _ lb hbdir hbf]
      exact hk _ _ (hk2 _ hpath)
    | some b =>
      simp only [bind_apply, setFile_apply, mpure_apply, dirOf_apply, hS, hD, if_false, getEntry_apply, hlk, liftO_apply,
        removeChild_eq, hsddir, Bool.not_true, Bool.false_eq_true, setEntry_apply, hbase,
        addChild_eq base _ lb hbdir hbf]
      exact hk _ _ (hk2 _ hpath)
  | false =>
    simp only [Bool.false_eq_true, if_false, preOf] at hDeq ⊢
    simp only [Bool.false_eq_true, if_false, bind_apply, mpure_apply, removeEntry_apply, he, hDeq, movedRelM_ok hok, setEntry_apply, removeFile_apply]
    cases hb : alLookup S s.files with
    | none =>
      simp only [bind_apply, mpure_apply, dirOf_apply, hS, hD, if_false, getEntry_apply, hlk, liftO_apply,
        removeChild_eq, hsddir, Bool.not_true, Bool.false_eq_true, setEntry_apply, hbase,
        addChild_eq base _ lb hbdir hbf]
      exact hk _ _ (hk2 _ hpath)
    | some b =>
      simp only [bind_apply, setFile_apply, mpure_apply, dirOf_apply, hS, hD, if_false, getEntry_apply, hlk, liftO_apply,
        removeChild_eq, hsddir, Bool.not_true, Bool.false_eq_true, setEntry_apply, hbase,
        addChild_eq base _ lb hbdir hbf]
      exact hk _ _ (hk2 _ hpath)


theorem nodup_insertName_sorted (n : Str) {l : List Str} (hs : l.Pairwise nameLE) (hn : l.Nodup) :
    (insertName n l).2.Nodup := by
  by_cases hm : n ∈ l
  · rw [insertName_of_mem_sorted hs hm]; exact hn
  · exact nodup_insertName_of_not_mem n hm hn

theorem memF_dropName (name : Str) (o : Entry) (n : Str) :
    memF (dropName name o) n ↔ memF o n ∧ n ≠ name := by
  unfold memF dropName
  cases hf : o.files with
  | none => simp
  | some fs => simp [List.mem_filter]

/-- the state after the first iteration of `moveLoop` satisfies the loop invariant -/
theorem first_state {s : State} (h : InvP s) (hx : ExtS s) {S D : FsPath} {e odd : Entry}
    (hS : S ≠ []) (hDne : D ≠ []) (hS1 : ¬ S <+: D) (hDwf : ∀ n ∈ D, BodyPiece n)
    (he : EL s S = some e)
    (hdd : EL s D.dropLast = some odd) (hdddir : odd.dir = true) (hddlink : odd.link = false)
    (hDfree : ∀ x, EL s D = some x → x.files = none)
    (hDover : ∀ x, EL s D = some x → e.file = true ∧ e.link = false) :
    ∃ osd base lb, EL s S.dropLast = some osd ∧ osd.dir = true ∧ D ≠ S.dropLast ∧
      alLookup D.dropLast (alInsert S.dropLast (dropName (baseName S) osd)
        (alInsert D { e with path := D, rel := movedRel e D } (alErase S s.entries))) = some base ∧
      base.dir = true ∧ base.files = some lb ∧
      MoveInvS S D
        { s with entries := alInsert D.dropLast { base with files := some (insertName (baseName D) lb).2 }
                   (alInsert S.dropLast (dropName (baseName S) osd)
                     (alInsert D { e with path := D, rel := movedRel e D } (alErase S s.entries))),
                 files := match alLookup S s.files with
                   | some b => alInsert D b (alErase S s.files)
                   | none => alErase S s.files }
        ((kidsOf S e).reverse ++ []) := by
  obtain ⟨hnd, hnf, hroot, hI⟩ := h
  obtain ⟨hX, hcwd⟩ := hx
  obtain ⟨osd, fss, hsd, hsddir, hsdlink, hsdf, hsdmem⟩ := hI.parent S e he hS
  have hDsd : D ≠ S.dropLast := by
    intro hh
    rw [← hh] at hsd
    rw [hDfree osd hsd] at hsdf; cases hsdf
  have hddS : D.dropLast ≠ S := fun hh => hS1 (hh ▸ List.dropLast_prefix D)
  have hddD : D.dropLast ≠ D := dropLast_ne_self hDne
  have hsdS : S.dropLast ≠ S := dropLast_ne_self hS
  have hSD : S ≠ D := fun hh => hS1 (hh ▸ List.prefix_refl _)
  obtain ⟨fsd, hoddf⟩ : ∃ fsd, odd.files = some fsd := by
    have := (hI.dirflag _ odd hdd).2 hdddir
    cases hh : odd.files with
    | none => rw [hh] at this; cases this
    | some fsd => exact ⟨fsd, rfl⟩
  -- the new parent before the name is added
  let base : Entry := if D.dropLast = S.dropLast then dropName (baseName S) osd else odd
  let lb : List Str := if D.dropLast = S.dropLast then fss.filter (· ≠ baseName S) else fsd
  have hbase : alLookup D.dropLast (alInsert S.dropLast (dropName (baseName S) osd)
      (alInsert D { e with path := D, rel := movedRel e D } (alErase S s.entries))) = some base := by
    rw [alLookup_alInsert]
    by_cases hc : D.dropLast = S.dropLast
    · rw [if_pos hc.symm]; simp only [base, if_pos hc]
    · rw [if_neg (fun hh => hc hh.symm), alLookup_alInsert, if_neg (fun hh => hddD hh.symm),
        alLookup_alErase _ _ hnd, if_neg (fun hh => hddS hh.symm)]
      simp only [base, if_neg hc]; exact hdd
  have hbdir : base.dir = true := by
    by_cases hc : D.dropLast = S.dropLast
    · simp only [base, if_pos hc, dropName]; exact hsddir
    · simp only [base, if_neg hc]; exact hdddir
  have hbf : base.files = some lb := by
    by_cases hc : D.dropLast = S.dropLast
    · simp only [base, lb, if_pos hc, dropName, hsdf, Option.map_some]
    · simp only [base, lb, if_neg hc]; exact hoddf
  -- `odd = osd` when the two parents coincide
  have hsame : D.dropLast = S.dropLast → odd = osd ∧ fsd = fss := by
    intro hc
    rw [hc, hsd] at hdd; cases hdd
    rw [hsdf] at hoddf; cases hoddf
    exact ⟨rfl, rfl⟩
  have hlb_sorted : lb.Pairwise nameLE := by
    by_cases hc : D.dropLast = S.dropLast
    · simp only [lb, if_pos hc]; exact (hX.sorted _ osd fss hsd hsdf).filter _
    · simp only [lb, if_neg hc]; exact hX.sorted _ odd fsd hdd hoddf
  have hlb_nodup : lb.Nodup := by
    by_cases hc : D.dropLast = S.dropLast
    · simp only [lb, if_pos hc]; exact (hI.nodupKids _ osd fss hsd hsdf).filter _
    · simp only [lb, if_neg hc]; exact hI.nodupKids _ odd fsd hdd hoddf
  have hlb_mem : ∀ n, n ∈ lb ↔ n ∈ fsd ∧ ¬ (D.dropLast = S.dropLast ∧ n = baseName S) := by
    intro n
    by_cases hc : D.dropLast = S.dropLast
    · obtain ⟨_, h2⟩ := hsame hc
      simp only [lb, if_pos hc, h2, List.mem_filter, hc, true_and]
      simp
    · simp only [lb, if_neg hc, hc, false_and, not_false_eq_true, and_true]
  refine ⟨osd, base, lb, hsd, hsddir, hDsd, hbase, hbdir, hbf, ?_⟩
  -- the lookup functions of the new state
  have hE1 : ∀ k, alLookup k (alInsert D.dropLast { base with files := some (insertName (baseName D) lb).2 }
      (alInsert S.dropLast (dropName (baseName S) osd)
        (alInsert D { e with path := D, rel := movedRel e D } (alErase S s.entries)))) =
      if k = D.dropLast then some { base with files := some (insertName (baseName D) lb).2 }
      else if k = S.dropLast then some (dropName (baseName S) osd)
      else if k = D then some { e with path := D, rel := movedRel e D }
      else if k = S then none else EL s k := by
    intro k
    rw [alLookup_alInsert, alLookup_alInsert, alLookup_alInsert, alLookup_alErase _ _ hnd]
    by_cases h1 : k = D.dropLast
    · rw [if_pos h1.symm, if_pos h1]
    · rw [if_neg (fun hh => h1 hh.symm), if_neg h1]
      by_cases h2 : k = S.dropLast
      · rw [if_pos h2.symm, if_pos h2]
      · rw [if_neg (fun hh => h2 hh.symm), if_neg h2]
        by_cases h3 : k = D
        · rw [if_pos h3.symm, if_pos h3]
        · rw [if_neg (fun hh => h3 hh.symm), if_neg h3]
          by_cases h4 : k = S
          · rw [if_pos h4.symm, if_pos h4]
          · rw [if_neg (fun hh => h4 hh.symm), if_neg h4]; rfl
  have hnd1 : (keys (alInsert D.dropLast { base with files := some (insertName (baseName D) lb).2 }
      (alInsert S.dropLast (dropName (baseName S) osd)
        (alInsert D { e with path := D, rel := movedRel e D } (alErase S s.entries))))).Nodup :=
    nodup_keys_alInsert _ _ (nodup_keys_alInsert _ _ (nodup_keys_alInsert _ _ (nodup_keys_alErase _ hnd)))
  have hnf0 : (keys (alErase S s.files)).Nodup := nodup_keys_alErase _ hnf
  refine ⟨hnd1, ?_, hroot, hcwd, ?_⟩
  · show (keys (match alLookup S s.files with
        | some b => alInsert D b (alErase S s.files)
        | none => alErase S s.files)).Nodup
    cases alLookup S s.files with
    | none => exact hnf0
    | some b => exact nodup_keys_alInsert _ _ hnf0
  · apply MoveInv.first hI hX hS hDne hS1 hDwf he ⟨odd, hdd, hdddir, hddlink⟩ hDfree
    · -- E1 D
      show alLookup D _ = _
      rw [hE1, if_neg (fun hh => hddD hh.symm), if_neg hDsd, if_pos rfl]
    · show alLookup S _ = _
      rw [hE1, if_neg (fun hh => hddS hh.symm), if_neg (fun hh => hsdS hh.symm), if_neg hSD, if_pos rfl]
    · -- hU
      intro k x hk hkD
      have hk' : alLookup k _ = some x := hk
      rw [hE1] at hk'
      by_cases h1 : k = D.dropLast
      · rw [if_pos h1] at hk'; cases hk'
        refine ⟨odd, h1 ▸ hdd, h1 ▸ hddS, ?_, ?_, ?_, ?_, ?_, ?_⟩
        · by_cases hc : D.dropLast = S.dropLast
          · simp only [base, if_pos hc, dropName, (hsame hc).1]
          · simp only [base, if_neg hc]
        · by_cases hc : D.dropLast = S.dropLast
          · simp only [base, if_pos hc, dropName, (hsame hc).1]
          · simp only [base, if_neg hc]
        · by_cases hc : D.dropLast = S.dropLast
          · simp only [base, if_pos hc, dropName, (hsame hc).1]
          · simp only [base, if_neg hc]
        · by_cases hc : D.dropLast = S.dropLast
          · simp only [base, if_pos hc, dropName, (hsame hc).1]
          · simp only [base, if_neg hc]
        · simp [hoddf]
        · intro n
          have : memF { base with files := some (insertName (baseName D) lb).2 } n ↔
              n = baseName D ∨ n ∈ lb := by
            unfold memF
            simp only [Option.some.injEq, exists_eq_left']
            exact mem_insertName n _ lb
          rw [this, hlb_mem, h1]
          unfold memF
          simp only [hoddf, Option.some.injEq, exists_eq_left', true_and]
          constructor
          · rintro (g | g)
            · exact Or.inr g
            · exact Or.inl g
          · rintro (g | g)
            · exact Or.inr g
            · exact Or.inl g
      · rw [if_neg h1] at hk'
        by_cases h2 : k = S.dropLast
        · rw [if_pos h2] at hk'; cases hk'
          refine ⟨osd, h2 ▸ hsd, h2 ▸ hsdS, rfl, rfl, rfl, rfl, ?_, ?_⟩
          · simp [dropName, hsdf]
          · intro n
            rw [memF_dropName, h2]
            constructor
            · rintro ⟨g1, g2⟩; exact Or.inl ⟨g1, fun g3 => g2 g3.2⟩
            · rintro (⟨g1, g2⟩ | ⟨g1, _⟩)
              · exact ⟨g1, fun g3 => g2 ⟨rfl, g3⟩⟩
              · exact absurd (h2.trans g1) h1
        · rw [if_neg h2, if_neg hkD] at hk'
          by_cases h4 : k = S
          · rw [if_pos h4] at hk'; cases hk'
          · rw [if_neg h4] at hk'
            refine ⟨x, hk', h4, rfl, rfl, rfl, rfl, rfl, ?_⟩
            intro n
            constructor
            · intro g; exact Or.inl ⟨g, fun g3 => h2 g3.1⟩
            · rintro (⟨g1, _⟩ | ⟨g1, _⟩)
              · exact g1
              · exact absurd g1 h1
    · -- hV
      intro k hkS hkD hk
      show (alLookup k _).isSome = true
      rw [hE1]
      by_cases h1 : k = D.dropLast
      · rw [if_pos h1]; rfl
      · rw [if_neg h1]
        by_cases h2 : k = S.dropLast
        · rw [if_pos h2]; rfl
        · rw [if_neg h2, if_neg hkD, if_neg hkS]; exact hk
    · -- hlists
      intro k x fs hk hkD hf
      have hk' : alLookup k _ = some x := hk
      rw [hE1] at hk'
      by_cases h1 : k = D.dropLast
      · rw [if_pos h1] at hk'; cases hk'
        simp only [Option.some.injEq] at hf; subst hf
        exact ⟨nodup_insertName_sorted _ hlb_sorted hlb_nodup, pairwise_insertName _ hlb_sorted⟩
      · rw [if_neg h1] at hk'
        by_cases h2 : k = S.dropLast
        · rw [if_pos h2] at hk'; cases hk'
          simp only [dropName, hsdf, Option.map_some, Option.some.injEq] at hf; subst hf
          exact ⟨(hI.nodupKids _ osd fss hsd hsdf).filter _, (hX.sorted _ osd fss hsd hsdf).filter _⟩
        · rw [if_neg h2, if_neg hkD] at hk'
          by_cases h4 : k = S
          · rw [if_pos h4] at hk'; cases hk'
          · rw [if_neg h4] at hk'
            exact ⟨hI.nodupKids k x fs hk' hf, hX.sorted k x fs hk' hf⟩
    · -- hF1
      intro k
      show alLookup k (match alLookup S s.files with
        | some b => alInsert D b (alErase S s.files)
        | none => alErase S s.files) = _
      cases hb : alLookup S s.files with
      | none =>
        show alLookup k (alErase S s.files) = _
        rw [alLookup_alErase _ _ hnf]
        have hFS : FL s S = none := hb
        by_cases h1 : k = D
        · rw [if_pos h1, hFS, h1, if_neg hSD]
          -- no data at `D`: a regular file at `D` would force `e` to be one too
          cases hFD : FL s D with
          | none => exact hFD
          | some b' =>
            exfalso
            have g1 := hI.dangling D (by rw [hFD]; rfl)
            cases hED : EL s D with
            | none => rw [hED] at g1; cases g1
            | some x0 =>
              have g2 := (hI.data S e he).1 (hDover x0 hED)
              rw [hFS] at g2; cases g2
        · rw [if_neg h1]
          by_cases h3 : k = S
          · rw [if_pos h3.symm, if_pos h3]
          · rw [if_neg (fun hh => h3 hh.symm), if_neg h3]; rfl
      | some b =>
        show alLookup k (alInsert D b (alErase S s.files)) = _
        rw [alLookup_alInsert, alLookup_alErase _ _ hnf]
        have hFS : FL s S = some b := hb
        by_cases h1 : k = D
        · rw [if_pos h1.symm, if_pos h1, hFS]
        · rw [if_neg (fun hh => h1 hh.symm), if_neg h1]
          by_cases h3 : k = S
          · rw [if_pos h3.symm, if_pos h3]
          · rw [if_neg (fun hh => h3 hh.symm), if_neg h3]; rfl


/-- every proper ancestor of an existing key exists and has a child list -/
theorem ancestor_exists {E : FsPath → Option Entry} {F : FsPath → Option Bytes} (hI : InvL E F) :
    ∀ (t : FsPath) (p : FsPath) (e : Entry), t ≠ [] → E (p ++ t) = some e → ∃ x fs, E p = some x ∧ x.files = some fs := by
  intro t
  induction h : t.length generalizing t with
  | zero => intro p e ht; exact absurd (List.length_eq_zero_iff.1 h) ht
  | succ n ih =>
    intro p e ht he
    rcases eq_nil_or_snoc t with rfl | ⟨mid, a, rfl⟩
    · exact absurd rfl ht
    · obtain ⟨pe, fs, g1, _, _, g4, _⟩ := hI.parent _ e he (by simp)
      rw [← List.append_assoc, List.dropLast_concat] at g1
      by_cases hm : mid = []
      · subst hm; rw [List.append_nil] at g1; exact ⟨pe, fs, g1, g4⟩
      · exact ih mid (by simpa using h) p pe hm g1

theorem move_core (st : State) (h : Good True st) (S d D : FsPath) (ci : Bool) (e odd : Entry)
    (hwfS : ∀ n ∈ S, BodyPiece n) (hwfd : ∀ n ∈ d, BodyPiece n)
    (hDdef : (if ci = true then toPath (mash (renderP d) (baseName S)) else d) = D)
    (he : alLookup S st.entries = some e) (hpre : ¬ S.isPrefixOf D = true) (hDne : ¬ D = [])
    (hdd : alLookup D.dropLast st.entries = some odd) (hreal : (odd.dir && !odd.link) = true)
    (hDx : ∀ x, alLookup D st.entries = some x → (x.file && !x.link && e.file && !e.link) = true)
    (f : Nat) (hh : (moveLoop S d ci (f + 1) [S] st).1 ≠ .hang) :
    Good True (moveLoop S d ci (f + 1) [S] st).2 := by
  obtain ⟨hP, hXt⟩ := h
  have hX := hXt trivial
  have hI := hP.2.2.2
  have hS : S ≠ [] := by
    intro h0; apply hpre; rw [h0]; rfl
  have hS1 : ¬ S <+: D := by rw [← List.isPrefixOf_iff_prefix]; exact hpre
  have hbase : ∀ n ∈ [baseName S], BodyPiece n := by
    intro n hn
    rw [List.mem_singleton] at hn; subst hn
    rcases eq_nil_or_snoc S with rfl | ⟨mid, t, rfl⟩
    · exact absurd rfl hS
    · rw [baseName_snoc]; exact hwfS t (by simp)
  have hDval : D = if ci = true then d ++ [baseName S] else d := by
    rw [← hDdef]
    cases ci with
    | true => simp only [if_true]; exact toPath_mash_baseName hwfd hwfS hS
    | false => rfl
  have hDwf : ∀ n ∈ D, BodyPiece n := by
    rw [hDval]
    cases ci with
    | true =>
      simp only [if_true]
      intro n hn
      rcases List.mem_append.1 hn with g | g
      · exact hwfd n g
      · exact hbase n g
    | false => exact hwfd
  have hdst : ∀ r, (∀ n ∈ S ++ r, BodyPiece n) → dstOf d (S ++ r) (preOf ci S) = D ++ r := by
    intro r hr
    rw [hDval]
    cases ci with
    | true =>
      simp only [preOf, if_true]
      have hsplit : S ++ r = S.dropLast ++ ([baseName S] ++ r) := by
        rw [← List.append_assoc, snoc_dropLast_baseName hS]
      rw [hsplit, dstOf_append hwfd (fun n hn => hwfS n ((List.dropLast_sublist S).subset hn)),
        List.append_assoc]
      intro n hn
      rcases List.mem_append.1 hn with g | g
      · exact hbase n g
      · exact hr n (List.mem_append_right _ g)
    | false =>
      simp only [preOf, Bool.false_eq_true, if_false]
      exact dstOf_append hwfd hwfS (fun n hn => hr n (List.mem_append_right _ hn))
  have hDeq : dstOf d S (preOf ci S) = D := by
    have := hdst [] (by simpa using hwfS)
    simpa using this
  have hDover : ∀ x, EL st D = some x → e.file = true ∧ e.link = false := by
    intro x hx
    have := hDx x hx
    cases h1 : e.file <;> cases h2 : e.link <;> simp [h1, h2] at this ⊢
  have hDfree : ∀ x, EL st D = some x → x.files = none := by
    intro x hx
    have := hDx x hx
    have hxf : x.file = true := by cases h1 : x.file <;> simp [h1] at this ⊢
    have hxd : x.dir = false := by
      cases h1 : x.dir with
      | false => rfl
      | true => exact absurd ⟨hxf, h1⟩ (hX.1.flags D x hx)
    have := hI.dirflag D x hx
    cases h2 : x.files with
    | none => rfl
    | some fs => rw [h2, hxd] at this; simp at this
  have hS2 : ¬ D <+: S := by
    rintro ⟨t, ht⟩
    have hne : t ≠ [] := by
      rintro rfl
      rw [List.append_nil] at ht
      exact hS1 (ht ▸ List.prefix_refl _)
    obtain ⟨x, fs, g1, g2⟩ := ancestor_exists hI t D e hne (by rw [ht]; exact he)
    rw [hDfree x g1] at g2; cases g2
  have hodd : odd.dir = true ∧ odd.link = false := by
    cases h1 : odd.dir <;> cases h2 : odd.link <;> simp [h1, h2] at hreal ⊢
  obtain ⟨osd, base, lb, g1, g2, g3, g4, g5, g6, g7⟩ :=
    first_state hP hX hS hDne hS1 hDwf he hdd hodd.1 hodd.2 hDfree hDover
  have heq := moveLoop_first_eq S d D ci hS f st e osd base lb hP.1 hDeq hDne he (hI.path S e he) g1 g3 g2 g4 g5 g6
  rw [heq] at hh ⊢
  exact moveLoop_good S D d ci hS hS1 hS2 hDwf hdst f _ _ g7 hh

theorem good_moveM (env : Env) (src dst : Str) (st : State) (h : Good True st)
    (hh : (moveM env src dst st).1 ≠ .hang) : Good True (moveM env src dst st).2 := by
  unfold moveM at hh ⊢
  obtain ⟨o1, ho1⟩ := absM_apply env src st
  simp only [bind_apply, ho1] at hh ⊢
  cases o1 with
  | err k => exact h
  | panic => exact h
  | hang => exact h
  | ok S =>
    obtain ⟨o2, ho2⟩ := absM_apply env dst st
    simp only [bind_apply, ho2] at hh ⊢
    cases o2 with
    | err k => exact h
    | panic => exact h
    | hang => exact h
    | ok d =>
      have hcwd := (h.2 trivial).2
      have hwfS := absM_wf ho1 hcwd
      have hwfd := absM_wf ho2 hcwd
      simp only [get_apply, getEntry_apply] at hh ⊢
      cases he : alLookup S st.entries with
      | none => simp only [bind_apply, fail_apply]; exact h
      | some e =>
        simp only [he, bind_apply, mpure_apply] at hh ⊢
        generalize hci : isDirP st d = ci at hh ⊢
        generalize hDdef : (if ci = true then toPath (mash (renderP d) (baseName S)) else d) = D at hh ⊢
        by_cases h1 : D = S
        · rw [if_pos h1]; exact h
        · rw [if_neg h1] at hh ⊢
          by_cases h2 : S.isPrefixOf D = true
          · rw [if_pos h2]; exact h
          · rw [if_neg h2] at hh ⊢
            simp only [bind_apply, dirOf_apply] at hh ⊢
            by_cases h3 : D = []
            · simp only [h3, if_true]; exact h
            · simp only [h3, if_false, getEntry_apply] at hh ⊢
              cases hdd : alLookup D.dropLast st.entries with
              | none => exact h
              | some odd =>
                simp only [hdd] at hh ⊢
                by_cases h4 : (odd.dir && !odd.link) = true
                · simp only [h4, if_true, bind_apply, mpure_apply, getEntry_apply] at hh ⊢
                  obtain ⟨f, hf⟩ : ∃ f, 8 * (st.entries.length + 2) = f + 1 :=
                    ⟨8 * (st.entries.length + 2) - 1, by omega⟩
                  rw [hf] at hh ⊢
                  cases hD : alLookup D st.entries with
                  | none =>
                    simp only [hD, bind_apply, mpure_apply] at hh ⊢
                    exact move_core st h S d D ci e odd hwfS hwfd hDdef he h2 h3 hdd h4
                      (by intro x hx; rw [hD] at hx; cases hx) f hh
                  | some x =>
                    simp only [hD] at hh ⊢
                    by_cases h5 : (x.file && !x.link && e.file && !e.link) = true
                    · simp only [h5, if_true, bind_apply, mpure_apply] at hh ⊢
                      exact move_core st h S d D ci e odd hwfS hwfd hDdef he h2 h3 hdd h4
                        (by intro x' hx; rw [hD] at hx; cases hx; exact h5) f hh
                    · simp only [h5, if_false, bind_apply, fail_apply]; exact h
                · simp only [h4, if_false, bind_apply, fail_apply]; exact h


end Rivia.Lemmas.InvB
