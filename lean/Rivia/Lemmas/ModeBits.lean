/-
  Bit-level facts about `MemfsEntryOpts::mode` (`optsMode`) after the `mode_type_bits` repair:
  only the permission bits (`&&& 0o7777`) of a given mode count; the type bits are the entry's own.
-/
import Rivia.Model.Memfs

namespace Rivia.Lemmas.ModeBits
open Rivia Rivia.Memfs

/-- masking with the permission bits is the identity on permission values -/
theorem and_perm_of_lt (m : Nat) (h : m < 0o10000) : m &&& 0o7777 = m := by
  have := Nat.and_two_pow_sub_one_eq_mod m 12
  simp only [Nat.reducePow, Nat.reduceSub] at this
  rw [this]; exact Nat.mod_eq_of_lt h

theorem and_perm_lt (m : Nat) : m &&& 0o7777 < 0o10000 := by
  have := Nat.and_two_pow_sub_one_eq_mod m 12
  simp only [Nat.reducePow, Nat.reduceSub] at this
  rw [this]; exact Nat.mod_lt _ (by decide)

/-- `optsMode` on a given mode: only the permission bits of the argument count, the type bits are
    those of the entry flags (no flags = the intermediate builder object: mode taken as is) -/
theorem optsMode_some (link file dir : Bool) (m : Nat) :
    optsMode link file dir (some m) =
      if link then (m &&& 0o7777) ||| 0o120000 else if file then (m &&& 0o7777) ||| 0o100000
      else if dir then (m &&& 0o7777) ||| 0o40000 else m := by
  cases link <;> cases file <;> cases dir <;> simp [optsMode]

/-- `(p ||| 2^i·a) - 2^i·a = p` below `2^i` (type bits: dir `2^14`, file `2^15`, link `2^13·5`) -/
theorem or_sub_pow_mul (p i a : Nat) (h : p < 2 ^ i) : (p ||| 2 ^ i * a) - 2 ^ i * a = p := by
  have := Nat.two_pow_add_eq_or_of_lt h a
  rw [Nat.or_comm, ← this]; omega

/-- OR-ing one of the three type-bit patterns onto a permission value and subtracting it again -/
theorem or_sub_typeBits (p T : Nat) (hp : p < 0o10000)
    (hT : T = 0o40000 ∨ T = 0o100000 ∨ T = 0o120000) : (p ||| T) - T = p := by
  rcases hT with rfl | rfl | rfl
  · exact or_sub_pow_mul p 14 1 (by omega)
  · exact or_sub_pow_mul p 15 1 (by omega)
  · exact or_sub_pow_mul p 13 5 (by omega)

/-- the permission bits of `perm-bits ||| T` when `T` has none -/
theorem perm_of_or (m T : Nat) (hT : T &&& 0o7777 = 0) :
    ((m &&& 0o7777) ||| T) &&& 0o7777 = m &&& 0o7777 := by
  rw [Nat.and_or_distrib_right, Nat.and_assoc, hT]; simp

/-- the file-type bits (`S_IFMT = 0o170000`) of `perm-bits ||| T` when `T` consists of type bits -/
theorem type_of_or (m T : Nat) (hT : T &&& 0o170000 = T) :
    ((m &&& 0o7777) ||| T) &&& 0o170000 = T := by
  rw [Nat.and_or_distrib_right, Nat.and_assoc, hT]; simp

/-- `optsMode` with no given mode: the default of the kind (already canonical) -/
theorem optsMode_none (link file dir : Bool) :
    optsMode link file dir none =
      if link then 0o120777 else if file then 0o100644 else if dir then 0o40755 else 0o40755 := by
  cases link <;> cases file <;> cases dir <;> decide

end Rivia.Lemmas.ModeBits
